(* C03 -- receive side: DtlsRecord::decode never panics; once keys exist a payload is delivered / an
   alert changes the connection only for records that open under the read key with the nonce / AAD derived
   from the record itself; unauthenticated records (plaintext epoch 0, truncated, tampered, wrongly keyed)
   leave the state unchanged and deliver nothing -- per record, per datagram and per history. *)
From Coq Require Import ZArith List Bool Lia.
From RV Require Import Lib.Wrap Gen.Consts Gen.DtlsRec Model.DtlsRecord Proofs.DtlsRecordLib.
Import ListNotations.
Open Scope Z_scope.

Definition wf_bytes (l : list Z) : Prop := Forall (fun b => 0 <= b < 256) l.

Lemma nth_wf l i : wf_bytes l -> 0 <= nth i l 0 < 256.
Proof.
  intros Hw. destruct (Nat.lt_ge_cases i (length l)) as [Hlt|Hge].
  - unfold wf_bytes in Hw. rewrite Forall_forall in Hw. apply Hw. apply nth_In. exact Hlt.
  - rewrite nth_overflow by exact Hge. lia.
Qed.

Lemma idx_in l i : 0 <= i < zlen l -> idx l i = Ok (nth (Z.to_nat i) l 0).
Proof.
  intros Hi. unfold idx. destruct (0 <=? i) eqn:E1; [|apply Z.leb_gt in E1; lia].
  destruct (i <? zlen l) eqn:E2; [reflexivity|apply Z.ltb_ge in E2; lia].
Qed.

Lemma slice_in l a b : 0 <= a -> a <= b -> b <= zlen l ->
  slice l a b = Ok (firstn (Z.to_nat (b - a)) (skipn (Z.to_nat a) l)).
Proof.
  intros H0 H1 H2. unfold slice.
  destruct (0 <=? a) eqn:E1; [|apply Z.leb_gt in E1; lia].
  destruct (a <=? b) eqn:E2; [|apply Z.leb_gt in E2; lia].
  destruct (b <=? zlen l) eqn:E3; [reflexivity|apply Z.leb_gt in E3; lia].
Qed.

(* shape of decode on buffers of at least a header *)
Lemma decode_cases buf : wf_bytes buf ->
  decode buf = Ok None \/ decode buf = Err \/
  exists r rest, decode buf = Ok (Some (r, rest)) /\
                 (length rest + Z.to_nat DTLS_HEADER_SIZE <= length buf)%nat /\
                 0 <= r_epoch r < 2 ^ 16 /\ 0 <= zlen (r_payload r) < 2 ^ 16.
Proof.
  intros Hw. unfold decode.
  destruct (zlen buf <? DTLS_HEADER_SIZE) eqn:Eh; [left; reflexivity|].
  apply Z.ltb_ge in Eh. unfold DTLS_HEADER_SIZE in Eh.
  rewrite (idx_in buf DEC_OFF_TYPE) by (unfold DEC_OFF_TYPE; lia). cbn [bind].
  destruct (content_type_of_u8 _) as [ct|]; [|right; left; reflexivity].
  rewrite (idx_in buf DEC_OFF_MAJOR) by (unfold DEC_OFF_MAJOR; lia). cbn [bind].
  rewrite (idx_in buf DEC_OFF_MINOR) by (unfold DEC_OFF_MINOR; lia). cbn [bind].
  rewrite (idx_in buf DEC_OFF_EPOCH) by (unfold DEC_OFF_EPOCH; lia). cbn [bind].
  rewrite (idx_in buf (DEC_OFF_EPOCH + 1)) by (unfold DEC_OFF_EPOCH; lia). cbn [bind].
  rewrite (slice_in buf DEC_OFF_SEQ (DEC_OFF_SEQ + DEC_SEQ_BYTES)) by (unfold DEC_OFF_SEQ, DEC_SEQ_BYTES; lia). cbn [bind].
  rewrite (idx_in buf DEC_OFF_LEN) by (unfold DEC_OFF_LEN; lia). cbn [bind].
  rewrite (idx_in buf (DEC_OFF_LEN + 1)) by (unfold DEC_OFF_LEN; lia). cbn [bind].
  pose proof (nth_wf buf (Z.to_nat DEC_OFF_EPOCH) Hw) as He0.
  pose proof (nth_wf buf (Z.to_nat (DEC_OFF_EPOCH + 1)) Hw) as He1.
  pose proof (nth_wf buf (Z.to_nat DEC_OFF_LEN) Hw) as Hl0.
  pose proof (nth_wf buf (Z.to_nat (DEC_OFF_LEN + 1)) Hw) as Hl1.
  set (len := nth (Z.to_nat DEC_OFF_LEN) buf 0 * 256 + nth (Z.to_nat (DEC_OFF_LEN + 1)) buf 0) in *.
  assert (Hlen : 0 <= len < 2 ^ 16) by (subst len; lia).
  destruct (zlen buf <? DTLS_HEADER_SIZE + len) eqn:El; [left; reflexivity|].
  apply Z.ltb_ge in El. unfold DTLS_HEADER_SIZE in El |- *.
  rewrite (slice_in buf 13 (13 + len)) by lia. cbn [bind].
  rewrite (slice_in buf (13 + len) (zlen buf)) by lia. cbn [bind].
  right; right. eexists; eexists. split; [reflexivity|]. cbn [r_epoch r_payload]. split; [|split].
  - rewrite firstn_length, skipn_length. unfold zlen in *. lia.
  - lia.
  - unfold zlen. rewrite firstn_length, skipn_length. unfold zlen in *. lia.
Qed.

(* C03_decode_total (also used by C07): no input makes DtlsRecord::decode panic *)
Theorem decode_no_panic : forall buf, wf_bytes buf -> decode buf <> Panic.
Proof.
  intros buf Hw. destruct (decode_cases buf Hw) as [E|[E|[r [rest [E _]]]]]; rewrite E; discriminate.
Qed.

Lemma wf_firstn n l : wf_bytes l -> wf_bytes (firstn n l).
Proof.
  unfold wf_bytes. revert l. induction n as [|n IH]; intros l Hw; cbn [firstn]; [constructor|].
  destruct l as [|x l]; [constructor|]. inversion Hw; subst. constructor; [assumption|apply IH; assumption].
Qed.
Lemma wf_skipn n l : wf_bytes l -> wf_bytes (skipn n l).
Proof.
  unfold wf_bytes. revert l. induction n as [|n IH]; intros l Hw; cbn [skipn]; [exact Hw|].
  destruct l as [|x l]; [constructor|]. inversion Hw; subst. apply IH; assumption.
Qed.

Lemma wf_slice_rest buf r rest : wf_bytes buf -> decode buf = Ok (Some (r, rest)) -> wf_bytes rest.
Proof.
  intros Hw. unfold decode.
  destruct (zlen buf <? DTLS_HEADER_SIZE); [discriminate|].
  destruct (idx buf DEC_OFF_TYPE); cbn [bind]; try discriminate.
  destruct (content_type_of_u8 _); [|discriminate].
  repeat match goal with
         | |- context [bind (idx ?l ?i) _] => destruct (idx l i); cbn [bind]; try discriminate
         | |- context [bind (slice ?l ?a ?b) _] => destruct (slice l a b) eqn:?; cbn [bind]; try discriminate
         | |- context [if ?c then _ else _] => destruct c; try discriminate
         end.
  intros E. injection E as _ <-.
  match goal with Hs : slice buf _ (zlen buf) = Ok _ |- _ => unfold slice in Hs;
    destruct (_ && _ && _) in Hs; [injection Hs as <-|discriminate] end.
  apply wf_firstn, wf_skipn. exact Hw.
Qed.

Section RecvProofs.
  Variable open : list Z -> list Z -> list Z -> list Z -> option (list Z).
  Variable H : Type.
  Variable hs_step : bool -> H -> cstate -> list Z -> H * cstate * option keys * bool.

  Definition rs_state (x : rstep H) : rx H := match x with Next st _ => st | Stop st _ _ => st end.
  Definition rs_out (x : rstep H) : list (list Z) := match x with Next _ o => o | Stop _ o _ => o end.
  Definition rs_err (x : rstep H) : bool := match x with Next _ _ => false | Stop _ _ e => e end.

  Definition unauthentic (is_client : bool) (k : keys) (r : drec) : Prop :=
    r_epoch r = RX_PLAIN_EPOCH \/ rec_open open is_client k r = None.

  Lemma unauthentic_iff is_client k r : unauthentic is_client k r <-> ~ authentic open is_client k r.
  Proof.
    unfold unauthentic, authentic. split.
    - intros [E|E] [Hne [p Hp]]; [contradiction|rewrite E in Hp; discriminate].
    - intros Hn. destruct (Z.eq_dec (r_epoch r) RX_PLAIN_EPOCH) as [E|Hne]; [left; exact E|].
      right. destruct (rec_open open is_client k r) as [p|] eqn:Eo; [|reflexivity].
      exfalso. apply Hn. split; [exact Hne|]. exists p. reflexivity.
  Qed.

  (* dispatch facts *)
  Lemma dispatch_out is_client st ct p q :
    In q (snd (fst (dispatch H hs_step is_client st ct p))) -> ct = ContentType_ApplicationData /\ q = p.
  Proof.
    unfold dispatch. destruct ct; cbn [fst snd]; try (intros []; fail).
    - destruct (_ && _); cbn [fst snd]; intros [].
    - destruct (hs_step is_client (rx_hs st) (rx_state st) p) as [[[h c] k] e]. cbn [fst snd]. intros [].
    - intros [<-|[]]. split; reflexivity.
  Qed.

  Lemma dispatch_keys is_client st ct p k :
    rx_keys st = Some k -> rx_keys (fst (fst (dispatch H hs_step is_client st ct p))) = Some k.
  Proof.
    intros Hk. unfold dispatch. destruct ct; cbn [fst snd rx_keys]; try exact Hk.
    - destruct (_ && _); cbn [fst snd set_state rx_keys]; exact Hk.
    - destruct (hs_step is_client (rx_hs st) (rx_state st) p) as [[[h c] k'] e]. cbn [fst rx_keys].
      rewrite Hk. reflexivity.
  Qed.

  (* with keys, a record that reaches try_decrypt in epoch 0 can only be the peer's ChangeCipherSpec during the
     handshake: this is the discard rule, and the point where the proofs depend on the regenerated flags *)
  Lemma not_dropped_epoch0 (st : rx H) r k :
    rx_keys st = Some k -> r_epoch r = RX_PLAIN_EPOCH -> drop_rule st r = false ->
    rx_state st = Handshaking /\ r_type r = ContentType_ChangeCipherSpec.
  Proof.
    intros Hk He. unfold drop_rule, rx_drop_epoch0, RX_DROP_EPOCH, rx_drop_types_handshaking.
    rewrite Hk. unfold RX_PLAIN_EPOCH in He. rewrite He. cbn [is_some]. rewrite orb_true_r. cbn [andb Z.eqb].
    destruct (rx_state st), (r_type r); cbn; intros E; try discriminate; split; reflexivity.
  Qed.

  (* (A) a payload reaches the upper layer only out of an authenticated ApplicationData record *)
  Theorem deliver_only_authentic : forall is_client st r k p,
    rx_keys st = Some k -> In p (rs_out (record_step open H hs_step is_client st r)) ->
    r_type r = ContentType_ApplicationData /\ r_epoch r <> RX_PLAIN_EPOCH /\ rec_open open is_client k r = Some p.
  Proof.
    intros is_client st r k p Hk. unfold record_step.
    destruct (drop_rule st r) eqn:Ed; [intros []|].
    unfold try_decrypt. rewrite Hk.
    destruct (r_epoch r =? RX_PLAIN_EPOCH) eqn:Ee.
    - apply Z.eqb_eq in Ee. destruct (not_dropped_epoch0 st r k Hk Ee Ed) as [_ Hccs].
      destruct (dispatch H hs_step is_client st (r_type r) (r_payload r)) as [[st1 out] e] eqn:Edis.
      intros Hin. assert (Hin' : In p out) by (destruct e; exact Hin).
      pose proof (dispatch_out is_client st (r_type r) (r_payload r) p) as Ho. rewrite Edis in Ho.
      destruct (Ho Hin') as [Ht _]. rewrite Hccs in Ht. discriminate.
    - apply Z.eqb_neq in Ee. destruct (rec_open open is_client k r) as [p0|] eqn:Eo; [|intros []].
      destruct (dispatch H hs_step is_client st (r_type r) p0) as [[st1 out] e] eqn:Edis.
      intros Hin. assert (Hin' : In p out) by (destruct e; exact Hin).
      pose proof (dispatch_out is_client st (r_type r) p0 p) as Ho. rewrite Edis in Ho.
      destruct (Ho Hin') as [Ht ->]. repeat split; assumption.
  Qed.

  (* (B) an Alert record changes anything only if it authenticates *)
  Theorem alert_only_authentic : forall is_client st r k,
    rx_keys st = Some k -> r_type r = ContentType_Alert ->
    rs_state (record_step open H hs_step is_client st r) <> st ->
    authentic open is_client k r /\ rs_state (record_step open H hs_step is_client st r) = set_state st Closed.
  Proof.
    intros is_client st r k Hk Ht. unfold record_step.
    destruct (drop_rule st r) eqn:Ed; [cbn [rs_state]; intros Hne; contradiction|].
    unfold try_decrypt. rewrite Hk.
    destruct (r_epoch r =? RX_PLAIN_EPOCH) eqn:Ee.
    - apply Z.eqb_eq in Ee. destruct (not_dropped_epoch0 st r k Hk Ee Ed) as [_ Hccs]. rewrite Hccs in Ht. discriminate.
    - apply Z.eqb_neq in Ee. destruct (rec_open open is_client k r) as [p0|] eqn:Eo; [|cbn [rs_state]; intros Hne; contradiction].
      rewrite Ht. unfold dispatch.
      destruct (_ && _); cbn [rs_state]; intros Hne; [|contradiction].
      split; [|reflexivity]. split; [exact Ee|]. exists p0. exact Eo.
  Qed.

  (* epoch-0 ApplicationData is discarded in every state, keys or not *)
  Lemma plain_app_dropped (st : rx H) r :
    r_epoch r = RX_PLAIN_EPOCH -> r_type r = ContentType_ApplicationData -> drop_rule st r = true.
  Proof.
    intros He Ht. unfold drop_rule, rx_drop_epoch0, RX_DROP_EPOCH, rx_drop_plain_app_without_keys, rx_drop_types_handshaking.
    unfold RX_PLAIN_EPOCH in He. rewrite He, Ht. cbn. destruct (cstate_eqb (rx_state st) Handshaking); reflexivity.
  Qed.

  (* (A') the same without assuming keys: nothing at all is delivered before keys exist, and never out of an
     epoch-0 record *)
  Theorem deliver_needs_keys : forall is_client (st : rx H) r p,
    In p (rs_out (record_step open H hs_step is_client st r)) ->
    exists k, rx_keys st = Some k /\ r_type r = ContentType_ApplicationData /\ r_epoch r <> RX_PLAIN_EPOCH /\
              rec_open open is_client k r = Some p.
  Proof.
    intros is_client st r p Hin. destruct (rx_keys st) as [k|] eqn:Hk.
    - exists k. split; [reflexivity|]. exact (deliver_only_authentic is_client st r k p Hk Hin).
    - exfalso. revert Hin. unfold record_step.
      destruct (drop_rule st r) eqn:Ed; [intros []|].
      unfold try_decrypt. rewrite Hk.
      destruct (r_epoch r =? RX_PLAIN_EPOCH) eqn:Ee; [|intros []].
      apply Z.eqb_eq in Ee.
      destruct (dispatch H hs_step is_client st (r_type r) (r_payload r)) as [[st1 out] e] eqn:Edis.
      intros Hin. assert (Hin' : In p out) by (destruct e; exact Hin).
      pose proof (dispatch_out is_client st (r_type r) (r_payload r) p) as Ho. rewrite Edis in Ho.
      destruct (Ho Hin') as [Ht _]. rewrite (plain_app_dropped st r Ee Ht) in Ed. discriminate.
  Qed.

  (* (C) an unauthenticated record is inert: once the handshake is over whatever its content type; while the
     last flight is still in progress everything except the peer's epoch-0 ChangeCipherSpec *)
  Theorem unauthentic_inert : forall is_client st r k,
    rx_keys st = Some k -> unauthentic is_client k r ->
    (rx_state st <> Handshaking \/ r_type r <> ContentType_ChangeCipherSpec) ->
    rs_state (record_step open H hs_step is_client st r) = st /\
    rs_out (record_step open H hs_step is_client st r) = [] /\
    rs_err (record_step open H hs_step is_client st r) = false.
  Proof.
    intros is_client st r k Hk Hun Hwhen. unfold record_step.
    destruct (drop_rule st r) eqn:Ed; [repeat split|].
    unfold try_decrypt. rewrite Hk.
    destruct (r_epoch r =? RX_PLAIN_EPOCH) eqn:Ee.
    - apply Z.eqb_eq in Ee. destruct (not_dropped_epoch0 st r k Hk Ee Ed) as [Hs Hccs].
      destruct Hwhen as [Hw|Hw]; contradiction.
    - apply Z.eqb_neq in Ee. destruct Hun as [E|E]; [contradiction|]. rewrite E. repeat split.
  Qed.

  (* the one exception, exactly: an epoch-0 ChangeCipherSpec while still Handshaking advances the read-epoch
     counter (saturating) and nothing else *)
  Definition bump_read_epoch (st : rx H) : rx H :=
    mkRx (rx_state st) (rx_keys st) (sat_u16 (rx_read_epoch st + 1)) (rx_hs st) (rx_alive st).
  Theorem handshaking_ccs_effect : forall is_client (st : rx H) r k,
    rx_keys st = Some k -> unauthentic is_client k r -> r_type r = ContentType_ChangeCipherSpec ->
    rs_out (record_step open H hs_step is_client st r) = [] /\
    rs_err (record_step open H hs_step is_client st r) = false /\
    (rs_state (record_step open H hs_step is_client st r) = st \/
     (rx_state st = Handshaking /\ r_epoch r = RX_PLAIN_EPOCH /\
      rs_state (record_step open H hs_step is_client st r) = bump_read_epoch st)).
  Proof.
    intros is_client st r k Hk Hun Ht. unfold record_step.
    destruct (drop_rule st r) eqn:Ed; [split; [reflexivity|split; [reflexivity|left; reflexivity]]|].
    unfold try_decrypt. rewrite Hk.
    destruct (r_epoch r =? RX_PLAIN_EPOCH) eqn:Ee.
    - apply Z.eqb_eq in Ee. destruct (not_dropped_epoch0 st r k Hk Ee Ed) as [Hs _].
      rewrite Ht. cbn [dispatch rs_out rs_err rs_state].
      split; [reflexivity|split; [reflexivity|right; repeat split; assumption]].
    - apply Z.eqb_neq in Ee. destruct Hun as [E|E]; [contradiction|]. rewrite E.
      split; [reflexivity|split; [reflexivity|left; reflexivity]].
  Qed.

  (* hence: with keys, ANY change of the receiver by a record needs either that record to authenticate, or it
     is the read-epoch bump of a handshake-phase ChangeCipherSpec. In particular the handshake machinery
     (hs_step) is only ever run on authenticated records once keys exist. *)
  Theorem change_needs_authentic : forall is_client (st : rx H) r k,
    rx_keys st = Some k -> rs_state (record_step open H hs_step is_client st r) <> st ->
    authentic open is_client k r \/
    (rx_state st = Handshaking /\ r_epoch r = RX_PLAIN_EPOCH /\ r_type r = ContentType_ChangeCipherSpec /\
     rs_state (record_step open H hs_step is_client st r) = bump_read_epoch st).
  Proof.
    intros is_client st r k Hk Hne.
    destruct (Z.eq_dec (r_epoch r) RX_PLAIN_EPOCH) as [Ee|Ee].
    - right. assert (Hun : unauthentic is_client k r) by (left; exact Ee).
      destruct (ContentType_eqb (r_type r) ContentType_ChangeCipherSpec) eqn:Et.
      + assert (Ht : r_type r = ContentType_ChangeCipherSpec) by (destruct (r_type r); try discriminate; reflexivity).
        destruct (handshaking_ccs_effect is_client st r k Hk Hun Ht) as [_ [_ [E|[Hs [_ E]]]]]; [contradiction|].
        repeat split; assumption.
      + exfalso. apply Hne.
        assert (Hn : r_type r <> ContentType_ChangeCipherSpec) by (intros E; rewrite E in Et; discriminate).
        exact (proj1 (unauthentic_inert is_client st r k Hk Hun (or_intror Hn))).
    - destruct (rec_open open is_client k r) as [p|] eqn:Eo.
      + left. split; [exact Ee|]. exists p. exact Eo.
      + exfalso. apply Hne. revert Hne. unfold record_step.
        assert (Ed : drop_rule st r = false).
        { unfold drop_rule, RX_DROP_EPOCH. unfold RX_PLAIN_EPOCH in Ee.
          destruct (r_epoch r =? 0) eqn:E0; [apply Z.eqb_eq in E0; contradiction|]. rewrite andb_false_r. reflexivity. }
        rewrite Ed. unfold try_decrypt. rewrite Hk, Eo.
        destruct (r_epoch r =? RX_PLAIN_EPOCH) eqn:E1; [apply Z.eqb_eq in E1; contradiction|]. reflexivity.
  Qed.

  (* replay: the receiver keeps no per-record state at all -- an authenticated ApplicationData record is
     delivered and leaves the receiver exactly as it was, so presenting it again delivers it again *)
  Theorem authentic_app_step : forall is_client (st : rx H) r k p,
    rx_keys st = Some k -> r_type r = ContentType_ApplicationData -> r_epoch r <> RX_PLAIN_EPOCH ->
    rec_open open is_client k r = Some p ->
    record_step open H hs_step is_client st r = Next st [p].
  Proof.
    intros is_client st r k p Hk Ht Ee Eo. unfold record_step.
    assert (Ed : drop_rule st r = false).
    { unfold drop_rule, RX_DROP_EPOCH. unfold RX_PLAIN_EPOCH in Ee.
      destruct (r_epoch r =? 0) eqn:E0; [apply Z.eqb_eq in E0; contradiction|]. rewrite andb_false_r. reflexivity. }
    rewrite Ed. unfold try_decrypt. rewrite Hk, Eo.
    destruct (r_epoch r =? RX_PLAIN_EPOCH) eqn:E1; [apply Z.eqb_eq in E1; contradiction|].
    rewrite Ht. reflexivity.
  Qed.

  (* a datagram that holds only part of a record (truncated, split across datagrams, length field larger
     than what follows) or starts with an invalid content type has no effect whatsoever *)
  Theorem partial_datagram_inert : forall is_client (st : rx H) data,
    decode data = Ok None \/ decode data = Err ->
    recv_datagram open H hs_step is_client st data = (st, []).
  Proof.
    intros is_client st data Hd. unfold recv_datagram. destruct (rx_alive st); [|reflexivity].
    cbn [records_fuel]. destruct data as [|b data]; [reflexivity|].
    destruct Hd as [E|E]; rewrite E; reflexivity.
  Qed.

  Lemma record_step_keys is_client st r k :
    rx_keys st = Some k -> rx_keys (rs_state (record_step open H hs_step is_client st r)) = Some k.
  Proof.
    intros Hk. unfold record_step. destruct (drop_rule st r); [exact Hk|].
    destruct (try_decrypt open is_client (rx_keys st) r) as [p|]; [|exact Hk].
    pose proof (dispatch_keys is_client st (r_type r) p k Hk) as Hd.
    destruct (dispatch H hs_step is_client st (r_type r) p) as [[st1 out] e]. cbn [fst] in Hd.
    destruct e; exact Hd.
  Qed.

  (* ---- datagram level: the records the loop sees *)
  Fixpoint parsed_fuel (fuel : nat) (data : list Z) : list drec :=
    match fuel with
    | O => []
    | S f => match data with
             | [] => []
             | _ => match decode data with
                    | Ok (Some (r, rest)) => r :: parsed_fuel f rest
                    | _ => []
                    end
             end
    end.
  Definition parsed (data : list Z) : list drec := parsed_fuel (S (length data)) data.

  Lemma records_unauthentic_inert is_client k : forall fuel st data,
    rx_keys st = Some k -> rx_state st <> Handshaking ->
    Forall (unauthentic is_client k) (parsed_fuel fuel data) ->
    records_fuel open H hs_step fuel is_client st data = (st, [], false).
  Proof.
    induction fuel as [|f IH]; intros st data Hk Hs Hall; [reflexivity|].
    cbn [records_fuel parsed_fuel] in *. destruct data as [|b data]; [reflexivity|].
    destruct (decode (b :: data)) as [[[r rest]|]| |]; try reflexivity.
    inversion Hall as [|? ? Hr Hrest]; subst.
    destruct (unauthentic_inert is_client st r k Hk Hr (or_introl Hs)) as [E1 [E2 E3]].
    destruct (record_step open H hs_step is_client st r) as [st1 out|st1 out e]; cbn [rs_state rs_out rs_err] in *; subst.
    - rewrite (IH st rest Hk Hs Hrest). reflexivity.
    - reflexivity.
  Qed.

  (* (D) a whole history of datagrams none of whose records authenticates leaves an established
     connection exactly as it was and hands nothing to the upper layer *)
  Theorem unauthentic_history_inert : forall is_client k ds st,
    rx_keys st = Some k -> rx_state st <> Handshaking ->
    Forall (fun d => Forall (unauthentic is_client k) (parsed d)) ds ->
    recv_all open H hs_step is_client st ds = (st, []).
  Proof.
    intros is_client k. induction ds as [|d ds IH]; intros st Hk Hs Hall; [reflexivity|].
    inversion Hall as [|? ? Hd Hrest]; subst. cbn [recv_all]. unfold recv_datagram.
    destruct (rx_alive st).
    - unfold parsed in Hd. rewrite (records_unauthentic_inert is_client k _ st d Hk Hs Hd).
      cbn [andb]. rewrite (IH st Hk Hs Hrest). reflexivity.
    - rewrite (IH st Hk Hs Hrest). reflexivity.
  Qed.

  (* (E) in any history (genuine and forged records mixed, any handshake behaviour), every payload handed
     to the upper layer is the opening of an ApplicationData record of that history under the read key *)
  Lemma records_deliver is_client k : forall fuel st data p,
    rx_keys st = Some k ->
    In p (snd (fst (records_fuel open H hs_step fuel is_client st data))) ->
    exists r, In r (parsed_fuel fuel data) /\ r_type r = ContentType_ApplicationData /\
              r_epoch r <> RX_PLAIN_EPOCH /\ rec_open open is_client k r = Some p.
  Proof.
    induction fuel as [|f IH]; intros st data p Hk Hin; [destruct Hin|].
    cbn [records_fuel parsed_fuel] in *. destruct data as [|b data]; [destruct Hin|].
    destruct (decode (b :: data)) as [[[r rest]|]| |]; try (destruct Hin; fail).
    pose proof (deliver_only_authentic is_client st r k p Hk) as HA.
    pose proof (record_step_keys is_client st r k Hk) as HK.
    destruct (record_step open H hs_step is_client st r) as [st1 out|st1 out e]; cbn [rs_out rs_state] in *.
    - destruct (records_fuel open H hs_step f is_client st1 rest) as [[st2 out2] e2] eqn:Er.
      cbn [fst snd] in Hin. apply in_app_or in Hin. destruct Hin as [Hin|Hin].
      + exists r. split; [left; reflexivity|]. apply HA. exact Hin.
      + destruct (IH st1 rest p HK) as [r' [Hr' Hp']]; [rewrite Er; exact Hin|].
        exists r'. split; [right; exact Hr'|exact Hp'].
    - cbn [fst snd] in Hin. exists r. split; [left; reflexivity|]. apply HA. exact Hin.
  Qed.

  Lemma records_keys is_client k : forall fuel st data,
    rx_keys st = Some k -> rx_keys (fst (fst (records_fuel open H hs_step fuel is_client st data))) = Some k.
  Proof.
    induction fuel as [|f IH]; intros st data Hk; [exact Hk|].
    cbn [records_fuel]. destruct data as [|b data]; [exact Hk|].
    destruct (decode (b :: data)) as [[[r rest]|]| |]; try exact Hk.
    pose proof (record_step_keys is_client st r k Hk) as HK.
    destruct (record_step open H hs_step is_client st r) as [st1 out|st1 out e]; cbn [rs_state] in HK.
    - specialize (IH st1 rest HK).
      destruct (records_fuel open H hs_step f is_client st1 rest) as [[st2 out2] e2]. exact IH.
    - exact HK.
  Qed.

  Theorem history_deliver_only_authentic : forall is_client k ds st p,
    rx_keys st = Some k -> In p (snd (recv_all open H hs_step is_client st ds)) ->
    exists d r, In d ds /\ In r (parsed d) /\ r_type r = ContentType_ApplicationData /\
                r_epoch r <> RX_PLAIN_EPOCH /\ rec_open open is_client k r = Some p.
  Proof.
    intros is_client k. induction ds as [|d ds IH]; intros st p Hk Hin; [destruct Hin|].
    cbn [recv_all] in Hin.
    destruct (recv_datagram open H hs_step is_client st d) as [st1 o1] eqn:Ed.
    destruct (recv_all open H hs_step is_client st1 ds) as [st2 o2] eqn:Ea.
    cbn [snd] in Hin. apply in_app_or in Hin.
    assert (Hk1 : rx_keys st1 = Some k /\ (In p o1 -> exists r, In r (parsed d) /\ r_type r = ContentType_ApplicationData /\
                   r_epoch r <> RX_PLAIN_EPOCH /\ rec_open open is_client k r = Some p)).
    { unfold recv_datagram in Ed. destruct (rx_alive st).
      - pose proof (records_keys is_client k (S (length d)) st d Hk) as HK.
        pose proof (records_deliver is_client k (S (length d)) st d p Hk) as HD.
        destruct (records_fuel open H hs_step (S (length d)) is_client st d) as [[sx ox] ex]. cbn [fst snd] in *.
        destruct (ex && cstate_eqb (rx_state sx) Failed); injection Ed as <- <-; cbn [rx_keys]; split; auto.
      - injection Ed as <- <-. split; [exact Hk|intros []]. }
    destruct Hk1 as [Hk1 Hd1]. destruct Hin as [Hin|Hin].
    - destruct (Hd1 Hin) as [r Hr]. exists d, r. split; [left; reflexivity|exact Hr].
    - destruct (IH st1 p Hk1) as [d' [r [Hd' Hr]]]; [rewrite Ea; exact Hin|].
      exists d', r. split; [right; exact Hd'|exact Hr].
  Qed.
End RecvProofs.

(* the loop's fuel never runs out: every iteration consumes at least a header *)
Lemma records_fuel_enough open H hs_step is_client : forall f1 f2 st data,
  wf_bytes data -> (length data < f1)%nat -> (length data < f2)%nat ->
  records_fuel open H hs_step f1 is_client st data = records_fuel open H hs_step f2 is_client st data.
Proof.
  induction f1 as [|f1 IH]; intros f2 st data Hw H1 H2; [lia|].
  destruct f2 as [|f2]; [lia|]. cbn [records_fuel]. destruct data as [|b data]; [reflexivity|].
  destruct (decode_cases (b :: data) Hw) as [E|[E|[r [rest [E [Hlen _]]]]]]; rewrite E; try reflexivity.
  destruct (record_step open H hs_step is_client st r) as [st1 out|]; [|reflexivity].
  assert (Hw' : wf_bytes rest) by (eapply wf_slice_rest; eassumption).
  unfold DTLS_HEADER_SIZE in Hlen.
  rewrite (IH f2 st1 rest Hw'); [reflexivity| |]; cbn [length] in *; lia.
Qed.
