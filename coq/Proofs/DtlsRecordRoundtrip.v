(* C03 -- the two halves of the model fit together: the receiver derives, from the bytes of a datagram
   produced by send_record of the peer, exactly the key, nonce and AAD the sender sealed with, so under any
   correct AEAD (open k n a (seal k n a m) = Some m) a genuine record is delivered unchanged. *)
From Coq Require Import ZArith List Bool Lia.
From RV Require Import Lib.Wrap Gen.Consts Gen.DtlsRec Model.DtlsRecord Proofs.DtlsRecordLib Proofs.DtlsRecordRecv.
Import ListNotations.
Open Scope Z_scope.

(* DtlsRecord::decode on a buffer with at least a header, field by field *)
Lemma decode_header h0 h1 h2 h3 h4 h5 h6 h7 h8 h9 h10 h11 h12 tail ct :
  content_type_of_u8 h0 = Some ct -> 0 <= h11 -> 0 <= h12 ->
  let len := h11 * 256 + h12 in
  decode (h0 :: h1 :: h2 :: h3 :: h4 :: h5 :: h6 :: h7 :: h8 :: h9 :: h10 :: h11 :: h12 :: tail) =
  if zlen tail <? len then Ok None
  else Ok (Some (mkRec ct h1 h2 (h3 * 256 + h4) (of_be [h5; h6; h7; h8; h9; h10]) (firstn (Z.to_nat len) tail),
                 skipn (Z.to_nat len) tail)).
Proof.
  intros Hct H11 H12 len.
  set (buf := h0 :: h1 :: h2 :: h3 :: h4 :: h5 :: h6 :: h7 :: h8 :: h9 :: h10 :: h11 :: h12 :: tail).
  assert (Hz : zlen buf = 13 + zlen tail) by (subst buf; unfold zlen; cbn [length]; lia).
  pose proof (zlen_nonneg tail) as Ht.
  unfold decode. unfold DTLS_HEADER_SIZE, DEC_OFF_TYPE, DEC_OFF_MAJOR, DEC_OFF_MINOR, DEC_OFF_EPOCH, DEC_OFF_SEQ, DEC_SEQ_BYTES, DEC_OFF_LEN.
  destruct (zlen buf <? 13) eqn:E0; [apply Z.ltb_lt in E0; lia|].
  rewrite (idx_in buf 0) by lia. cbn [bind]. change (nth (Z.to_nat 0) buf 0) with h0. rewrite Hct.
  rewrite (idx_in buf 1) by lia. cbn [bind].
  rewrite (idx_in buf 2) by lia. cbn [bind].
  rewrite (idx_in buf 3) by lia. cbn [bind].
  rewrite (idx_in buf (3 + 1)) by lia. cbn [bind].
  rewrite (slice_in buf 5 (5 + 6)) by lia. cbn [bind].
  rewrite (idx_in buf 11) by lia. cbn [bind].
  rewrite (idx_in buf (11 + 1)) by lia. cbn [bind].
  change (nth (Z.to_nat 1) buf 0) with h1. change (nth (Z.to_nat 2) buf 0) with h2.
  change (nth (Z.to_nat 3) buf 0) with h3. change (nth (Z.to_nat (3 + 1)) buf 0) with h4.
  change (nth (Z.to_nat 11) buf 0) with h11. change (nth (Z.to_nat (11 + 1)) buf 0) with h12.
  change (firstn (Z.to_nat (5 + 6 - 5)) (skipn (Z.to_nat 5) buf)) with [h5; h6; h7; h8; h9; h10].
  fold len. assert (Hlen : 0 <= len) by (subst len; lia).
  destruct (zlen buf <? 13 + len) eqn:E1.
  - apply Z.ltb_lt in E1. destruct (zlen tail <? len) eqn:E2; [reflexivity|apply Z.ltb_ge in E2; lia].
  - apply Z.ltb_ge in E1. destruct (zlen tail <? len) eqn:E2; [apply Z.ltb_lt in E2; lia|].
    rewrite (slice_in buf 13 (13 + len)) by lia. cbn [bind].
    rewrite (slice_in buf (13 + len) (zlen buf)) by lia. cbn [bind].
    assert (Hrest : firstn (Z.to_nat (zlen buf - (13 + len))) (skipn (Z.to_nat (13 + len)) buf) = skipn (Z.to_nat len) tail).
    { replace (Z.to_nat (13 + len)) with (13 + Z.to_nat len)%nat by lia.
      change (skipn (13 + Z.to_nat len) buf) with (skipn (Z.to_nat len) tail).
      apply firstn_all2. rewrite skipn_length. unfold zlen in *. lia. }
    rewrite Hrest.
    replace (13 + len - 13) with len by lia.
    change (skipn (Z.to_nat 13) buf) with tail. reflexivity.
Qed.

Lemma be2_explicit x : be 2 x = [(x / 256) mod 256; x mod 256].
Proof. reflexivity. Qed.

Lemma be2_value x : 0 <= x < 2 ^ 16 -> ((x / 256) mod 256) * 256 + x mod 256 = x.
Proof. intros Hx. change (2 ^ 16) with 65536 in Hx. Z.div_mod_to_equations. lia. Qed.

Lemma firstn_app_exact {A} (a b : list A) n : length a = n -> firstn n (a ++ b) = a.
Proof. intros <-. rewrite firstn_app, Nat.sub_diag, firstn_all. cbn [firstn]. apply app_nil_r. Qed.
Lemma skipn_app_exact {A} (a b : list A) n : length a = n -> skipn n (a ++ b) = b.
Proof. intros <-. rewrite skipn_app, Nat.sub_diag, skipn_all. reflexivity. Qed.

(* decode inverts the record layout for every well-formed record followed by anything *)
Lemma decode_encoded code ct major minor epoch seq payload rest :
  content_type_of_u8 code = Some ct -> 0 <= epoch < 2 ^ 16 -> 0 <= seq < 2 ^ 48 -> zlen payload < 2 ^ 16 ->
  decode ([code; major; minor] ++ be 2 epoch ++ be 6 seq ++ be 2 (zlen payload) ++ payload ++ rest)
  = Ok (Some (mkRec ct major minor epoch seq payload, rest)).
Proof.
  intros Hct He Hs Hp. pose proof (zlen_nonneg payload) as Hp0.
  rewrite !be2_explicit.
  pose proof (be_length 6 seq) as HL. pose proof (of_be_be 6 seq) as Hof.
  destruct (be 6 seq) as [|s0 [|s1 [|s2 [|s3 [|s4 [|s5 [|? ?]]]]]]]; try discriminate.
  cbn [app].
  rewrite (decode_header code major minor _ _ s0 s1 s2 s3 s4 s5 _ _ (payload ++ rest) ct Hct).
  - rewrite (be2_value (zlen payload)) by lia. rewrite (be2_value epoch) by lia.
    rewrite zlen_app. pose proof (zlen_nonneg rest).
    destruct (zlen payload + zlen rest <? zlen payload) eqn:E; [apply Z.ltb_lt in E; lia|].
    rewrite Hof. change (256 ^ Z.of_nat 6) with (2 ^ 48). rewrite Z.mod_small by lia.
    unfold zlen. rewrite Nat2Z.id.
    rewrite firstn_app_exact by reflexivity. rewrite skipn_app_exact by reflexivity. reflexivity.
  - apply Z.mod_pos_bound. lia.
  - apply Z.mod_pos_bound. lia.
Qed.

(* ---- partial records: fewer than 13 bytes, or a header whose length field exceeds what follows *)
Lemma decode_short buf : zlen buf < DTLS_HEADER_SIZE -> decode buf = Ok None.
Proof. intros Hs. unfold decode. destruct (zlen buf <? DTLS_HEADER_SIZE) eqn:E; [reflexivity|apply Z.ltb_ge in E; lia]. Qed.

Lemma decode_length_exceeds h0 h1 h2 h3 h4 h5 h6 h7 h8 h9 h10 h11 h12 tail ct :
  content_type_of_u8 h0 = Some ct -> 0 <= h11 -> 0 <= h12 -> zlen tail < h11 * 256 + h12 ->
  decode (h0 :: h1 :: h2 :: h3 :: h4 :: h5 :: h6 :: h7 :: h8 :: h9 :: h10 :: h11 :: h12 :: tail) = Ok None.
Proof.
  intros Hct H11 H12 Hl. rewrite (decode_header h0 h1 h2 h3 h4 h5 h6 h7 h8 h9 h10 h11 h12 tail ct Hct H11 H12).
  cbv zeta. destruct (zlen tail <? h11 * 256 + h12) eqn:E; [reflexivity|apply Z.ltb_ge in E; lia].
Qed.

(* every strict prefix of a well-formed record -- what a receiver sees of a record that was truncated or split
   across two datagrams -- is "need more bytes", for every cut position *)
Lemma prefix_of_record_is_partial code ct major minor epoch seq payload n :
  content_type_of_u8 code = Some ct -> zlen payload < 2 ^ 16 ->
  (n < 13 + length payload)%nat ->
  decode (firstn n ([code; major; minor] ++ be 2 epoch ++ be 6 seq ++ be 2 (zlen payload) ++ payload)) = Ok None.
Proof.
  intros Hct Hp Hn. pose proof (zlen_nonneg payload) as Hp0.
  rewrite !be2_explicit. pose proof (be_length 6 seq) as HL.
  destruct (be 6 seq) as [|s0 [|s1 [|s2 [|s3 [|s4 [|s5 [|? ?]]]]]]]; try discriminate.
  cbn [app].
  destruct (Nat.lt_ge_cases n 13) as [Hlt|Hge].
  - apply decode_short. unfold zlen, DTLS_HEADER_SIZE. rewrite firstn_length. lia.
  - replace n with (13 + (n - 13))%nat by lia. cbn [firstn plus].
    change (firstn (13 + (n - 13)) ?l) with (firstn (13 + (n - 13)) l).
    apply (decode_length_exceeds code major minor _ _ s0 s1 s2 s3 s4 s5 _ _ _ ct Hct).
    + apply Z.mod_pos_bound. lia.
    + apply Z.mod_pos_bound. lia.
    + rewrite (be2_value (zlen payload)) by lia. unfold zlen. rewrite firstn_length. lia.
Qed.

Section Roundtrip.
  Variable seal : list Z -> list Z -> list Z -> list Z -> list Z.
  Variable open : list Z -> list Z -> list Z -> list Z -> option (list Z).
  Variable H : Type.
  Variable hs_step : bool -> H -> cstate -> list Z -> H * cstate * option keys * bool.
  Hypothesis open_seal : forall k n a m, open k n a (seal k n a m) = Some m.
  Hypothesis seal_len : forall k n a m, zlen (seal k n a m) = zlen m + GCM_TAG_LEN.

  (* the datagram send_record builds is the encoding of one ApplicationData record whose payload is
     explicit nonce ++ sealed bytes *)
  Lemma tx_record_as_record key iv epoch seq pt :
    tx_record seal key iv epoch seq pt =
    [app_code; DTLS12_MAJOR; DTLS12_MINOR] ++ be 2 epoch ++ be 6 seq
      ++ be 2 (zlen (be 8 (full_seq TX_SEQ_BITS epoch seq) ++ tx_sealed seal key iv epoch seq pt))
      ++ (be 8 (full_seq TX_SEQ_BITS epoch seq) ++ tx_sealed seal key iv epoch seq pt) ++ [].
  Proof.
    unfold tx_record, tx_frame. change (Z.to_nat TX_SEQ_BYTES) with 6%nat.
    assert (Hsl : zlen (tx_sealed seal key iv epoch seq pt) = zlen pt + GCM_TAG_LEN) by (unfold tx_sealed; apply seal_len).
    rewrite zlen_app, Hsl.
    replace (zlen (be 8 (full_seq TX_SEQ_BITS epoch seq))) with EXPLICIT_NONCE_LEN
      by (unfold zlen; rewrite be_length; reflexivity).
    rewrite app_nil_r, <- !app_assoc.
    replace (EXPLICIT_NONCE_LEN + (zlen pt + GCM_TAG_LEN)) with (EXPLICIT_NONCE_LEN + zlen pt + GCM_TAG_LEN) by lia.
    reflexivity.
  Qed.

  (* a genuine datagram of the peer: one record, opened with the sender's nonce / AAD, delivered as is.
     Sender role c, receiver role negb c; receiver has keys, any connection state, any other context. *)
  Theorem genuine_delivered : forall (c : bool) (k : keys) epoch seq pt (st : rx H),
    0 < epoch < 2 ^ 16 -> 0 <= seq < 2 ^ 48 -> zlen pt <= MAX_APP_DATA_RECORD_SIZE ->
    rx_keys st = Some k -> rx_alive st = true ->
    recv_datagram open H hs_step (negb c) st (tx_record seal (wkey c k) (wiv c k) epoch seq pt) = (st, [pt]).
  Proof.
    intros c k epoch seq pt st He Hs Hpt Hk Hal.
    pose proof (zlen_nonneg pt) as Hpt0. unfold MAX_APP_DATA_RECORD_SIZE in Hpt.
    set (fs := full_seq TX_SEQ_BITS epoch seq).
    set (sealed := tx_sealed seal (wkey c k) (wiv c k) epoch seq pt).
    assert (Hsl : zlen sealed = zlen pt + 16) by (subst sealed; unfold tx_sealed; rewrite seal_len; reflexivity).
    assert (Hpl : zlen (be 8 fs ++ sealed) = 8 + zlen pt + 16).
    { rewrite zlen_app, Hsl. unfold zlen at 1. rewrite be_length. lia. }
    unfold recv_datagram. rewrite Hal.
    remember (tx_record seal (wkey c k) (wiv c k) epoch seq pt) as D eqn:ED.
    assert (Hdec : decode D = Ok (Some (mkRec ContentType_ApplicationData DTLS12_MAJOR DTLS12_MINOR epoch seq (be 8 fs ++ sealed), []))).
    { subst D. rewrite tx_record_as_record. fold fs sealed.
      apply decode_encoded; [reflexivity|lia|lia|]. rewrite Hpl. lia. }
    assert (HD : D <> []) by (intros ->; cbn in Hdec; discriminate).
    destruct D as [|b D']; [contradiction|].
    cbn [length records_fuel]. rewrite Hdec.
    set (r := mkRec ContentType_ApplicationData DTLS12_MAJOR DTLS12_MINOR epoch seq (be 8 fs ++ sealed)).
    assert (Hstep : record_step open H hs_step (negb c) st r = Next st [pt]).
    { unfold record_step.
      assert (Hdrop : drop_rule st r = false).
      { unfold drop_rule, RX_DROP_EPOCH. cbn [r_epoch r]. destruct (epoch =? 0) eqn:E0; [apply Z.eqb_eq in E0; lia|].
        rewrite andb_false_r. reflexivity. }
      rewrite Hdrop. unfold try_decrypt, RX_PLAIN_EPOCH. cbn [r_epoch r].
      destruct (epoch =? 0) eqn:E0; [apply Z.eqb_eq in E0; lia|]. rewrite Hk.
      assert (Hopen : rec_open open (negb c) k r = Some pt).
      { unfold rec_open. cbn [r_payload r]. rewrite Hpl.
        destruct (8 + zlen pt + 16 <? RX_MIN_PAYLOAD) eqn:Em; [apply Z.ltb_lt in Em; unfold RX_MIN_PAYLOAD in Em; lia|].
        unfold rec_nonce, rec_aad, rec_body. cbn [r_payload r_epoch r_seq r_type r_major r_minor r].
        change (Z.to_nat EXPLICIT_NONCE_LEN) with 8%nat.
        rewrite firstn_app_exact by apply be_length. rewrite skipn_app_exact by apply be_length.
        rewrite Hpl. replace (8 + zlen pt + 16 - EXPLICIT_NONCE_LEN - GCM_TAG_LEN) with (zlen pt) by (unfold EXPLICIT_NONCE_LEN, GCM_TAG_LEN; lia).
        assert (Ek : rkey (negb c) k = wkey c k) by (destruct c; reflexivity).
        assert (Ei : riv (negb c) k = wiv c k) by (destruct c; reflexivity).
        rewrite Ek, Ei. subst sealed. unfold tx_sealed. fold fs.
        change (full_seq RX_SEQ_BITS epoch seq) with fs. unfold nonce_of.
        change (ContentType_code ContentType_ApplicationData) with app_code.
        apply open_seal. }
      rewrite Hopen. reflexivity. }
    rewrite Hstep. destruct (length D') as [|n]; cbn [records_fuel]; cbn [app andb]; reflexivity.
  Qed.

  (* replay of a genuine datagram, any number of times: each copy is delivered, the receiver never changes --
     rustrtc's DTLS has no anti-replay window (RFC 6347 4.1.2.6 makes it optional; C03 does not ask for one) *)
  Theorem replay_redelivers : forall (c : bool) (k : keys) epoch seq pt (st : rx H) (n : nat),
    0 < epoch < 2 ^ 16 -> 0 <= seq < 2 ^ 48 -> zlen pt <= MAX_APP_DATA_RECORD_SIZE ->
    rx_keys st = Some k -> rx_alive st = true ->
    recv_all open H hs_step (negb c) st (repeat (tx_record seal (wkey c k) (wiv c k) epoch seq pt) n)
    = (st, repeat pt n).
  Proof.
    intros c k epoch seq pt st n He Hs Hpt Hk Hal. induction n as [|n IH]; [reflexivity|].
    cbn [repeat recv_all]. rewrite (genuine_delivered c k epoch seq pt st He Hs Hpt Hk Hal), IH. reflexivity.
  Qed.
End Roundtrip.
