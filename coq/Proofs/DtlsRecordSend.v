(* C03 -- send side: record split, "only sealed application bytes on the wire", sequence-number /
   nonce uniqueness for any number of concurrent senders and any interleaving, close_notify freshness. *)
From Coq Require Import ZArith List Bool Lia.
From RV Require Import Lib.Wrap Gen.Consts Gen.DtlsRec Model.DtlsRecord Proofs.DtlsRecordLib.
Import ListNotations.
Open Scope Z_scope.

Definition MAXN : nat := Z.to_nat MAX_APP_DATA_RECORD_SIZE.
Lemma MAXN_pos : (0 < MAXN)%nat.
Proof. unfold MAXN. vm_compute. lia. Qed.
Lemma MAXN_Z : Z.of_nat MAXN = MAX_APP_DATA_RECORD_SIZE.
Proof. unfold MAXN. vm_compute. reflexivity. Qed.

(* ------------------------------------------------------------------ sequential send *)
Section SendProofs.
  Variable seal : list Z -> list Z -> list Z -> list Z -> list Z.

  Lemma send_chunks_length key iv s cs : length (snd (send_chunks seal key iv s cs)) = length cs.
  Proof.
    revert s. induction cs as [|c cs IH]; intros s; cbn [send_chunks]; [reflexivity|].
    unfold send_record. destruct (send_chunks seal key iv _ cs) as [s2 rs] eqn:E.
    cbn [snd length]. f_equal. specialize (IH (mkTx (tx_epoch s) (cast_u64 (tx_seq s + TX_SEQ_INCR)))).
    rewrite E in IH. exact IH.
  Qed.

  (* the i-th record carries the i-th chunk, sealed under (epoch, seq0 + i mod 2^64) *)
  Fixpoint seq_after (s : Z) (i : nat) : Z :=
    match i with O => s | S i' => seq_after (cast_u64 (s + TX_SEQ_INCR)) i' end.

  Lemma seq_after_nowrap s i : 0 <= s -> s + Z.of_nat i < 2 ^ 64 -> seq_after s i = s + Z.of_nat i.
  Proof.
    revert s. induction i as [|i IH]; intros s H0 H1; cbn [seq_after]; [lia|].
    assert (E : cast_u64 (s + TX_SEQ_INCR) = s + 1).
    { unfold cast_u64. apply wrapu_small. unfold TX_SEQ_INCR. lia. }
    rewrite E, IH by lia. lia.
  Qed.

  Lemma send_chunks_nth key iv s cs i c :
    nth_error cs i = Some c ->
    nth_error (snd (send_chunks seal key iv s cs)) i =
      Some (tx_record seal key iv (tx_epoch s) (seq_after (tx_seq s) i) c).
  Proof.
    revert s i. induction cs as [|c0 cs IH]; intros s i Hn; [destruct i; discriminate|].
    cbn [send_chunks]. unfold send_record.
    destruct (send_chunks seal key iv _ cs) as [s2 rs] eqn:E. cbn [snd].
    destruct i as [|i].
    - cbn in Hn. injection Hn as ->. reflexivity.
    - cbn [nth_error] in *. specialize (IH (mkTx (tx_epoch s) (cast_u64 (tx_seq s + TX_SEQ_INCR))) i Hn).
      rewrite E in IH. cbn [snd tx_epoch tx_seq] in IH. exact IH.
  Qed.

  Lemma send_chunks_final key iv s cs :
    fst (send_chunks seal key iv s cs) = mkTx (tx_epoch s) (seq_after (tx_seq s) (length cs)).
  Proof.
    revert s. induction cs as [|c cs IH]; intros s; cbn [send_chunks length seq_after]; [destruct s; reflexivity|].
    unfold send_record. destruct (send_chunks seal key iv _ cs) as [s2 rs] eqn:E. cbn [fst].
    specialize (IH (mkTx (tx_epoch s) (cast_u64 (tx_seq s + TX_SEQ_INCR)))). rewrite E in IH. exact IH.
  Qed.

  (* C03_split *)
  Theorem split_thm : forall key iv epoch seq0 data,
    let pts := chunks MAXN data in
    let out := send seal key iv (mkTx epoch seq0) data in
    zlen (snd out) = (zlen data + MAX_APP_DATA_RECORD_SIZE - 1) / MAX_APP_DATA_RECORD_SIZE /\
    length (snd out) = length pts /\
    concat pts = data /\
    Forall (fun p => 0 < zlen p <= MAX_APP_DATA_RECORD_SIZE) pts /\
    (forall i p, nth_error pts i = Some p ->
       nth_error (snd out) i = Some (tx_frame epoch (seq_after seq0 i) (zlen p) ++ tx_sealed seal key iv epoch (seq_after seq0 i) p)) /\
    (0 <= seq0 -> seq0 + zlen pts < 2 ^ 64 ->
       (forall i, (i < length pts)%nat -> seq_after seq0 i = seq0 + Z.of_nat i) /\
       fst out = mkTx epoch (seq0 + zlen pts)).
  Proof.
    intros key iv epoch seq0 data pts out. subst pts out. unfold send. fold MAXN.
    assert (HL : length (snd (send_chunks seal key iv (mkTx epoch seq0) (chunks MAXN data))) = length (chunks MAXN data))
      by apply send_chunks_length.
    split; [|split; [exact HL|split; [apply chunks_concat, MAXN_pos|split; [|split]]]].
    - unfold zlen at 1. rewrite HL. change (Z.of_nat (length (chunks MAXN data))) with (zlen (chunks MAXN data)).
      rewrite chunks_count by apply MAXN_pos. rewrite MAXN_Z. reflexivity.
    - pose proof (chunks_sizes MAXN data MAXN_pos) as Hs.
      eapply Forall_impl; [|exact Hs]. intros c [Hc1 Hc2]. unfold zlen. rewrite <- MAXN_Z. lia.
    - intros i p Hn. apply (send_chunks_nth key iv (mkTx epoch seq0)) in Hn. exact Hn.
    - intros H0 Hw. split.
      + intros i Hi. apply seq_after_nowrap; [exact H0|]. unfold zlen in Hw. lia.
      + rewrite send_chunks_final. cbn [tx_epoch tx_seq]. f_equal.
        apply seq_after_nowrap; [exact H0|exact Hw].
  Qed.
End SendProofs.

(* ------------------------------------------------------------------ path limit *)
(* documented budget: IPv6 minimum MTU 1280 - 28 (doc comment of MAX_APP_DATA_RECORD_SIZE) *)
Definition DATAGRAM_BUDGET : Z := 1252.

Lemma tx_frame_len epoch seq len : zlen (tx_frame epoch seq len) = TX_HEADER_LEN + EXPLICIT_NONCE_LEN.
Proof. unfold tx_frame, zlen. rewrite !app_length, !be_length. vm_compute. reflexivity. Qed.

(* the record limit is the SCTP packet cap (data-channel packets are never split), and a full record fits
   the documented datagram budget; every datagram of send() is at most MAX + header + nonce + tag long *)
Theorem datagram_limit :
  MAX_APP_DATA_RECORD_SIZE = MAX_SCTP_PACKET_SIZE /\
  MAX_APP_DATA_RECORD_SIZE + TX_HEADER_LEN + EXPLICIT_NONCE_LEN + GCM_TAG_LEN <= DATAGRAM_BUDGET /\
  forall (seal : list Z -> list Z -> list Z -> list Z -> list Z) key iv s data,
    (forall k n a p, zlen (seal k n a p) = zlen p + GCM_TAG_LEN) ->
    Forall (fun d => zlen d <= MAX_APP_DATA_RECORD_SIZE + TX_HEADER_LEN + EXPLICIT_NONCE_LEN + GCM_TAG_LEN)
           (snd (send seal key iv s data)).
Proof.
  split; [vm_compute; reflexivity|]. split; [vm_compute; discriminate|].
  intros seal key iv s data Hlen. unfold send. fold MAXN.
  pose proof (chunks_sizes MAXN data MAXN_pos) as Hs. revert s.
  induction Hs as [|c cs [_ Hc] _ IH]; intros s; cbn [send_chunks]; [constructor|].
  unfold send_record. destruct (send_chunks seal key iv _ cs) as [s2 rs] eqn:E. cbn [snd]. constructor.
  - unfold tx_record, tx_sealed. rewrite zlen_app, tx_frame_len, Hlen. unfold zlen. rewrite <- MAXN_Z. lia.
  - specialize (IH (mkTx (tx_epoch s) (cast_u64 (tx_seq s + TX_SEQ_INCR)))). rewrite E in IH. exact IH.
Qed.

(* the two ends of the size range: send(empty) emits nothing and allocates nothing; a 1 MiB send is 874
   records (instances of split_thm, stated for the record) *)
Theorem send_empty : forall (seal : list Z -> list Z -> list Z -> list Z -> list Z) key iv s,
  send seal key iv s [] = (s, []).
Proof. intros. reflexivity. Qed.

Theorem send_1MiB : forall (seal : list Z -> list Z -> list Z -> list Z -> list Z) key iv epoch seq0 data,
  zlen data = 1048576 -> 0 <= seq0 -> seq0 + 874 < 2 ^ 64 ->
  length (snd (send seal key iv (mkTx epoch seq0) data)) = 874%nat /\
  fst (send seal key iv (mkTx epoch seq0) data) = mkTx epoch (seq0 + 874).
Proof.
  intros seal key iv epoch seq0 data Hd H0 Hw.
  destruct (split_thm seal key iv epoch seq0 data) as [Hc [Hl [_ [_ [_ Hfin]]]]].
  rewrite Hd in Hc. change ((1048576 + MAX_APP_DATA_RECORD_SIZE - 1) / MAX_APP_DATA_RECORD_SIZE) with 874 in Hc.
  assert (Hn : length (snd (send seal key iv (mkTx epoch seq0) data)) = 874%nat) by (unfold zlen in Hc; lia).
  split; [exact Hn|].
  assert (Hz : zlen (chunks MAXN data) = 874) by (unfold zlen; rewrite <- Hl, Hn; reflexivity).
  destruct (Hfin H0) as [_ Hf]; [rewrite Hz; exact Hw|]. rewrite Hf, Hz. reflexivity.
Qed.

(* the datagrams depend on the application bytes only through `seal`: with any sealing function that hides
   the plaintext content, two payloads of equal length produce identical datagrams *)
Theorem wire_only_via_seal : forall seal0 key iv s d1 d2,
  (forall k n a p q, length p = length q -> seal0 k n a p = seal0 k n a q) ->
  length d1 = length d2 ->
  snd (send seal0 key iv s d1) = snd (send seal0 key iv s d2).
Proof.
  intros seal0 key iv s d1 d2 Hhide E. unfold send. fold MAXN.
  pose proof (chunks_same_shape MAXN MAXN_pos d1 d2 E) as F2.
  revert s. induction F2 as [|c1 c2 l1 l2 Hc _ IH]; intros s; [reflexivity|].
  cbn [send_chunks]. unfold send_record.
  destruct (send_chunks seal0 key iv _ l1) as [sa ra] eqn:Ea.
  destruct (send_chunks seal0 key iv _ l2) as [sb rb] eqn:Eb.
  cbn [snd]. f_equal.
  - unfold tx_record, tx_sealed, zlen. rewrite Hc. f_equal. apply Hhide. exact Hc.
  - specialize (IH (mkTx (tx_epoch s) (cast_u64 (tx_seq s + TX_SEQ_INCR)))). rewrite Ea, Eb in IH. exact IH.
Qed.

(* ------------------------------------------------------------------ concurrent senders *)
Lemma NoDup_app_one {A} (l : list A) x : NoDup l -> ~ In x l -> NoDup (l ++ [x]).
Proof.
  intros Hn Hx. induction l as [|y l IH]; cbn [app]; [constructor; [intros []|constructor]|].
  inversion Hn as [|? ? Hy Hl]; subst. constructor.
  - intros Hin. apply in_app_or in Hin. destruct Hin as [Hin|[<-|[]]]; [contradiction|].
    apply Hx. left. reflexivity.
  - apply IH; [exact Hl|]. intros Hin. apply Hx. right. exact Hin.
Qed.

Definition held (t : thread) : option (Z * Z) :=
  match t_todo t, t_pc t with
  | _ :: _, PHaveSeq e s => Some (e, s)
  | _, _ => None
  end.

Record Inv (e0 s0 : Z) (todo0 : nat -> list job) (w : world) : Prop := mkInv {
  inv_epoch : g_epoch w = e0;
  inv_lo : s0 <= g_seq w;
  inv_wire_rng : forall r, In r (g_wire w) -> w_epoch r = e0 /\ s0 <= w_seq r < g_seq w;
  inv_held_rng : forall tid e s, held (g_threads w tid) = Some (e, s) -> e = e0 /\ s0 <= s < g_seq w;
  inv_wire_nodup : NoDup (map w_seq (g_wire w));
  inv_held_fresh : forall tid e s, held (g_threads w tid) = Some (e, s) -> ~ In s (map w_seq (g_wire w));
  inv_held_inj : forall t1 t2 e1 e2 s, held (g_threads w t1) = Some (e1, s) -> held (g_threads w t2) = Some (e2, s) -> t1 = t2;
  inv_hold_epoch : forall tid e, t_pc (g_threads w tid) = PHaveEpoch e -> e = e0;
  inv_order : forall tid, wire_of tid w ++ t_todo (g_threads w tid) = todo0 tid }.

Lemma upd_same f i t : upd f i t i = t.
Proof. unfold upd. rewrite Nat.eqb_refl. reflexivity. Qed.
Lemma upd_other f i t j : j <> i -> upd f i t j = f j.
Proof. intros H. unfold upd. destruct (Nat.eqb_spec j i); [contradiction|reflexivity]. Qed.

Lemma wire_of_snoc tid w' wire r :
  g_wire w' = wire ++ [r] ->
  wire_of tid w' = map (fun r => (w_ct r, w_pt r)) (filter (fun r => Nat.eqb (w_tid r) tid) wire)
                   ++ (if Nat.eqb (w_tid r) tid then [(w_ct r, w_pt r)] else []).
Proof.
  intros E. unfold wire_of. rewrite E, filter_app, map_app. f_equal.
  cbn [filter]. destruct (Nat.eqb (w_tid r) tid); reflexivity.
Qed.

Lemma init_inv e0 s0 todo0 : Inv e0 s0 todo0 (init_world e0 s0 todo0).
Proof.
  constructor; cbn [init_world g_epoch g_seq g_wire g_threads map]; try reflexivity; try lia.
  - intros r [].
  - intros tid e s. unfold held. cbn. destruct (todo0 tid); discriminate.
  - constructor.
  - intros tid e s. unfold held. cbn. destruct (todo0 tid); discriminate.
  - intros t1 t2 e1 e2 s. unfold held. cbn. destruct (todo0 t1); discriminate.
  - intros tid e. cbn. discriminate.
Qed.

(* all records are numbered from write_seq: true for send_record by construction, and for the alert
   because the regenerated flag says so -- this is where the proof depends on the fixed close path *)
Lemma all_use_write_seq ct : uses_write_seq ct = true.
Proof. unfold uses_write_seq, alert_seq_from_write_seq. apply orb_true_r. Qed.

Lemma step_inv e0 s0 todo0 w tid :
  0 <= s0 -> g_seq w + 1 < 2 ^ 64 -> Inv e0 s0 todo0 w -> Inv e0 s0 todo0 (step w tid).
Proof.
  intros Hs0 Hnw I. unfold step.
  destruct (t_todo (g_threads w tid)) as [|[ct pt] rest] eqn:Etodo; [exact I|].
  destruct (t_pc (g_threads w tid)) as [|e|e s] eqn:Epc.
  - (* load epoch *)
    destruct I. constructor; cbn [g_epoch g_seq g_wire g_threads]; try assumption.
    + intros j e s. destruct (Nat.eq_dec j tid) as [->|Hne].
      * rewrite upd_same. unfold held. cbn. discriminate.
      * rewrite upd_other by exact Hne. apply inv_held_rng0.
    + intros j e s. destruct (Nat.eq_dec j tid) as [->|Hne].
      * rewrite upd_same. unfold held. cbn. discriminate.
      * rewrite upd_other by exact Hne. apply inv_held_fresh0.
    + intros t1 t2 e1 e2 s.
      destruct (Nat.eq_dec t1 tid) as [->|H1]; [rewrite upd_same; unfold held; cbn; discriminate|].
      destruct (Nat.eq_dec t2 tid) as [->|H2]; [rewrite upd_same; unfold held at 2; cbn; discriminate|].
      rewrite !upd_other by assumption. apply inv_held_inj0.
    + intros j e. destruct (Nat.eq_dec j tid) as [->|Hne].
      * rewrite upd_same. cbn. intros E. injection E as <-. exact inv_epoch0.
      * rewrite upd_other by exact Hne. apply inv_hold_epoch0.
    + intros j. unfold wire_of in *. cbn [g_wire g_threads]. destruct (Nat.eq_dec j tid) as [->|Hne].
      * rewrite upd_same. cbn [t_todo]. rewrite <- Etodo. apply inv_order0.
      * rewrite upd_other by exact Hne. apply inv_order0.
  - (* fetch_add *)
    rewrite all_use_write_seq.
    assert (Ecast : cast_u64 (g_seq w + TX_SEQ_INCR) = g_seq w + 1).
    { unfold cast_u64. apply wrapu_small. destruct I. unfold TX_SEQ_INCR. lia. }
    rewrite Ecast. destruct I. constructor; cbn [g_epoch g_seq g_wire g_threads]; try assumption; try lia.
    + intros r Hr. destruct (inv_wire_rng0 r Hr). split; [assumption|lia].
    + intros j e1 s. destruct (Nat.eq_dec j tid) as [->|Hne].
      * rewrite upd_same. unfold held. cbn [t_todo t_pc]. intros E. injection E as <- <-.
        split; [apply (inv_hold_epoch0 tid); exact Epc|lia].
      * rewrite upd_other by exact Hne. intros Hh. destruct (inv_held_rng0 j e1 s Hh). split; [assumption|lia].
    + intros j e1 s. destruct (Nat.eq_dec j tid) as [->|Hne].
      * rewrite upd_same. unfold held. cbn [t_todo t_pc]. intros E. injection E as <- <-.
        intros Hin. apply in_map_iff in Hin. destruct Hin as [r [Hr1 Hr2]].
        destruct (inv_wire_rng0 r Hr2). lia.
      * rewrite upd_other by exact Hne. apply inv_held_fresh0.
    + intros t1 t2 e1 e2 s.
      destruct (Nat.eq_dec t1 tid) as [->|H1]; destruct (Nat.eq_dec t2 tid) as [->|H2]; try reflexivity.
      * rewrite upd_same, upd_other by assumption. unfold held at 1. cbn [t_todo t_pc].
        intros E Hh. injection E as <- <-. destruct (inv_held_rng0 t2 e2 _ Hh). lia.
      * rewrite upd_same, upd_other by assumption. unfold held at 2. cbn [t_todo t_pc].
        intros Hh E. injection E as <- <-. destruct (inv_held_rng0 t1 e1 _ Hh). lia.
      * rewrite !upd_other by assumption. apply inv_held_inj0.
    + intros j e1. destruct (Nat.eq_dec j tid) as [->|Hne].
      * rewrite upd_same. cbn. discriminate.
      * rewrite upd_other by exact Hne. apply inv_hold_epoch0.
    + intros j. unfold wire_of in *. cbn [g_wire g_threads]. destruct (Nat.eq_dec j tid) as [->|Hne].
      * rewrite upd_same. cbn [t_todo]. rewrite <- Etodo. apply inv_order0.
      * rewrite upd_other by exact Hne. apply inv_order0.
  - (* datagram out *)
    assert (Hh : held (g_threads w tid) = Some (e, s)) by (unfold held; rewrite Etodo, Epc; reflexivity).
    destruct I. constructor; cbn [g_epoch g_seq g_wire g_threads]; try assumption.
    + intros r Hr. apply in_app_or in Hr. destruct Hr as [Hr|[<-|[]]]; [apply inv_wire_rng0; exact Hr|].
      cbn [w_epoch w_seq]. apply (inv_held_rng0 tid). exact Hh.
    + intros j e1 s1. destruct (Nat.eq_dec j tid) as [->|Hne].
      * rewrite upd_same. unfold held. cbn [t_todo t_pc]. destruct rest; discriminate.
      * rewrite upd_other by exact Hne. apply inv_held_rng0.
    + rewrite map_app. cbn [map w_seq]. apply NoDup_app_one; [exact inv_wire_nodup0|].
      apply (inv_held_fresh0 tid e s Hh).
    + intros j e1 s1. destruct (Nat.eq_dec j tid) as [->|Hne].
      * rewrite upd_same. unfold held. cbn [t_todo t_pc]. destruct rest; discriminate.
      * rewrite upd_other by exact Hne. intros Hj. rewrite map_app. cbn [map w_seq].
        intros Hin. apply in_app_or in Hin. destruct Hin as [Hin|[<-|[]]].
        -- exact (inv_held_fresh0 j e1 s1 Hj Hin).
        -- apply Hne. exact (inv_held_inj0 j tid e1 e s Hj Hh).
    + intros t1 t2 e1 e2 s1.
      destruct (Nat.eq_dec t1 tid) as [->|H1]; [rewrite upd_same; unfold held; cbn [t_todo t_pc]; destruct rest; discriminate|].
      destruct (Nat.eq_dec t2 tid) as [->|H2]; [rewrite upd_same; unfold held at 2; cbn [t_todo t_pc]; destruct rest; discriminate|].
      rewrite !upd_other by assumption. apply inv_held_inj0.
    + intros j e1. destruct (Nat.eq_dec j tid) as [->|Hne].
      * rewrite upd_same. cbn. discriminate.
      * rewrite upd_other by exact Hne. apply inv_hold_epoch0.
    + intros j. rewrite (wire_of_snoc j _ (g_wire w) (mkWrec tid ct e s pt)) by reflexivity.
      cbn [w_tid w_ct w_pt g_threads]. specialize (inv_order0 j). unfold wire_of in inv_order0.
      destruct (Nat.eq_dec j tid) as [->|Hne].
      * rewrite upd_same, Nat.eqb_refl. cbn [t_todo]. rewrite Etodo in inv_order0.
        rewrite <- app_assoc. exact inv_order0.
      * rewrite upd_other by exact Hne. destruct (Nat.eqb_spec tid j) as [->|_]; [contradiction|].
        rewrite app_nil_r. exact inv_order0.
Qed.

Lemma step_seq_le w tid : 0 <= g_seq w -> g_seq w + 1 < 2 ^ 64 ->
  g_seq w <= g_seq (step w tid) <= g_seq w + 1.
Proof.
  intros H0 H1. unfold step.
  destruct (t_todo (g_threads w tid)) as [|[ct pt] rest]; [lia|].
  destruct (t_pc (g_threads w tid)); cbn [g_seq]; try lia.
  rewrite all_use_write_seq. cbn [g_seq].
  unfold cast_u64. rewrite wrapu_small; unfold TX_SEQ_INCR; lia.
Qed.

Lemma run_inv e0 s0 todo0 : 0 <= s0 -> forall sched w n,
  Inv e0 s0 todo0 w -> g_seq w <= s0 + n -> s0 + n + Z.of_nat (length sched) < 2 ^ 64 ->
  Inv e0 s0 todo0 (run w sched) /\ g_seq (run w sched) <= s0 + n + Z.of_nat (length sched).
Proof.
  intros Hs0. induction sched as [|tid sched IH]; intros w n I Hn Hb.
  - cbn [run fold_left length Z.of_nat]. split; [exact I|lia].
  - cbn [run fold_left]. change (fold_left step sched (step w tid)) with (run (step w tid) sched).
    cbn [length] in Hb.
    assert (Hlo : s0 <= g_seq w) by (destruct I; assumption).
    pose proof (step_seq_le w tid ltac:(lia) ltac:(lia)) as Hst.
    destruct (IH (step w tid) (n + 1)) as [I2 B2].
    + apply step_inv; [exact Hs0|lia|exact I].
    + lia.
    + lia.
    + split; [exact I2|]. cbn [length]. lia.
Qed.

(* nonce of a wire record as the code computes it (send_record / the close path) *)
Definition wire_nonce (iv : list Z) (r : wrec) : list Z :=
  nonce_of iv (full_seq (if w_ct r =? app_code then TX_SEQ_BITS else ALERT_SEQ_BITS) (w_epoch r) (w_seq r)).

Lemma wire_nonce_48 iv r : wire_nonce iv r = nonce_of iv (full_seq 48 (w_epoch r) (w_seq r)).
Proof. unfold wire_nonce, TX_SEQ_BITS, ALERT_SEQ_BITS. destruct (w_ct r =? app_code); reflexivity. Qed.

(* C03_seq_unique_concurrent *)
Theorem seq_unique_concurrent : forall e0 s0 (todo0 : nat -> list job) (sched : list nat),
  0 <= s0 -> s0 + Z.of_nat (length sched) <= 2 ^ 48 ->
  let w := run (init_world e0 s0 todo0) sched in
  NoDup (map w_seq (g_wire w)) /\
  (forall r, In r (g_wire w) -> w_epoch r = e0 /\ s0 <= w_seq r < 2 ^ 48).
Proof.
  intros e0 s0 todo0 sched Hs0 Hb w.
  destruct (run_inv e0 s0 todo0 Hs0 sched (init_world e0 s0 todo0) 0) as [I B].
  - apply init_inv.
  - cbn [init_world g_seq]. lia.
  - lia.
  - fold w in I, B. destruct I. split; [assumption|].
    intros r Hr. destruct (inv_wire_rng0 r Hr). split; [assumption|lia].
Qed.

(* no two datagrams ever carry the same AES-GCM nonce under the (single) write key *)
Theorem nonce_unique_concurrent : forall e0 s0 (todo0 : nat -> list job) (sched : list nat) iv,
  0 <= e0 < 2 ^ 16 -> 0 <= s0 -> s0 + Z.of_nat (length sched) <= 2 ^ 48 ->
  let w := run (init_world e0 s0 todo0) sched in
  forall i j ri rj, nth_error (g_wire w) i = Some ri -> nth_error (g_wire w) j = Some rj ->
    wire_nonce iv ri = wire_nonce iv rj -> i = j.
Proof.
  intros e0 s0 todo0 sched iv He Hs0 Hb w i j ri rj Hi Hj E.
  destruct (seq_unique_concurrent e0 s0 todo0 sched Hs0 Hb) as [Hnd Hrng]. fold w in Hnd, Hrng.
  destruct (Hrng ri (nth_error_In _ _ Hi)) as [Eei Hsi].
  destruct (Hrng rj (nth_error_In _ _ Hj)) as [Eej Hsj].
  rewrite !wire_nonce_48 in E. rewrite Eei, Eej in E.
  apply nonce_inj in E; try lia. destruct E as [_ Es].
  rewrite NoDup_nth_error in Hnd. apply Hnd.
  - rewrite map_length. apply nth_error_Some. rewrite Hi. discriminate.
  - rewrite (map_nth_error w_seq _ _ Hi), (map_nth_error w_seq _ _ Hj). f_equal. exact Es.
Qed.

(* C03_alert_nonce_fresh: the close_notify alert never shares its nonce with another datagram *)
Theorem alert_nonce_fresh : forall e0 s0 (todo0 : nat -> list job) (sched : list nat) iv,
  0 <= e0 < 2 ^ 16 -> 0 <= s0 -> s0 + Z.of_nat (length sched) <= 2 ^ 48 ->
  let w := run (init_world e0 s0 todo0) sched in
  forall i j ra r, nth_error (g_wire w) i = Some ra -> nth_error (g_wire w) j = Some r ->
    w_ct ra = alert_code -> i <> j -> wire_nonce iv ra <> wire_nonce iv r.
Proof.
  intros e0 s0 todo0 sched iv He Hs0 Hb w i j ra r Hi Hj _ Hne E.
  apply Hne. exact (nonce_unique_concurrent e0 s0 todo0 sched iv He Hs0 Hb i j ra r Hi Hj E).
Qed.

(* each task's datagrams leave in program order, and they are exactly a prefix of its work *)
Theorem thread_order : forall e0 s0 (todo0 : nat -> list job) (sched : list nat) tid,
  0 <= s0 -> s0 + Z.of_nat (length sched) <= 2 ^ 48 ->
  let w := run (init_world e0 s0 todo0) sched in
  wire_of tid w ++ t_todo (g_threads w tid) = todo0 tid.
Proof.
  intros e0 s0 todo0 sched tid Hs0 Hb w.
  destruct (run_inv e0 s0 todo0 Hs0 sched (init_world e0 s0 todo0) 0) as [I _].
  - apply init_inv.
  - cbn [init_world g_seq]. lia.
  - lia.
  - fold w in I. destruct I. apply inv_order0.
Qed.

(* a task that ran one send(data) to completion put exactly data on the wire, in order, in records of at
   most MAX_APP_DATA_RECORD_SIZE plaintext bytes, all of type ApplicationData *)
Theorem send_complete : forall e0 s0 (todo0 : nat -> list job) (sched : list nat) tid data,
  0 <= s0 -> s0 + Z.of_nat (length sched) <= 2 ^ 48 ->
  todo0 tid = send_jobs data ->
  let w := run (init_world e0 s0 todo0) sched in
  t_todo (g_threads w tid) = [] ->
  concat (map snd (wire_of tid w)) = data /\
  Forall (fun j => fst j = app_code /\ 0 < zlen (snd j) <= MAX_APP_DATA_RECORD_SIZE) (wire_of tid w).
Proof.
  intros e0 s0 todo0 sched tid data Hs0 Hb Htodo w Hdone.
  pose proof (thread_order e0 s0 todo0 sched tid Hs0 Hb) as Ho. cbv zeta in Ho. fold w in Ho.
  rewrite Hdone, app_nil_r, Htodo in Ho. rewrite Ho. unfold send_jobs. fold MAXN. split.
  - rewrite map_map. cbn [snd]. rewrite map_id. apply chunks_concat, MAXN_pos.
  - apply Forall_map. pose proof (chunks_sizes MAXN data MAXN_pos) as Hs.
    eapply Forall_impl; [|exact Hs]. intros c [H1 H2]. cbn [fst snd]. split; [reflexivity|].
    unfold zlen. rewrite <- MAXN_Z. lia.
Qed.

(* premises are satisfiable and the machine really emits: two tasks, an interleaved schedule *)
Example concurrent_example :
  let todo := fun i => match i with O => send_jobs [1; 2; 3] | 1%nat => send_jobs [4] | 2%nat => close_jobs | _ => [] end in
  map (fun r => (w_tid r, w_ct r, w_epoch r, w_seq r, w_pt r))
      (g_wire (run (init_world 1 1 todo) [0; 1; 2; 1; 0; 2; 2; 1; 0]%nat))
  = [(2%nat, 21, 1, 3, [1; 0]); (1%nat, 23, 1, 1, [4]); (0%nat, 23, 1, 2, [1; 2; 3])].
Proof. vm_compute. reflexivity. Qed.

(* ------------------------------------------------------------------ the start of the connection *)
Lemma run_snoc w sched x : run w (sched ++ [x]) = step (run w sched) x.
Proof. unfold run. rewrite fold_left_app. reflexivity. Qed.
Lemma crun_snoc cw sched x : crun cw (sched ++ [x]) = cstep (crun cw sched) x.
Proof. unfold crun. rewrite fold_left_app. reflexivity. Qed.

Definition idle_threads (todo : nat -> list job) : nat -> thread := fun i => mkThread (todo i) PIdle.

(* with the stores first, nothing happens on the sender side until Connected is published, and from then on
   the machine is exactly `run` from init_world *)
Inductive phase (e0 s0 : Z) (todo : nat -> list job) : nat -> cworld -> Prop :=
| Ph0 n : phase e0 s0 todo n (mkCW false [PubEpoch; PubSeq; PubState] e0 s0 (mkWorld 0 0 s0 (idle_threads todo) []))
| Ph1 n : phase e0 s0 todo n (mkCW false [PubSeq; PubState] e0 s0 (mkWorld e0 0 s0 (idle_threads todo) []))
| Ph2 n : phase e0 s0 todo n (mkCW false [PubState] e0 s0 (mkWorld e0 s0 s0 (idle_threads todo) []))
| Ph3 n sched' : (length sched' <= n)%nat ->
    phase e0 s0 todo n (mkCW true [] e0 s0 (run (init_world e0 s0 todo) sched')).

Lemma phase_step e0 s0 todo n cw x : phase e0 s0 todo n cw -> phase e0 s0 todo (S n) (cstep cw x).
Proof.
  intros P. destruct P as [n|n|n|n sched' Hl]; destruct x as [tid|]; cbn [cstep c_w c_pub c_conn c_e0 c_s0 g_threads g_seq g_epoch g_hs_seq g_wire idle_threads t_pc];
    try (constructor; fail).
  - (* publish: the world is init_world *)
    apply (Ph3 e0 s0 todo (S n) []). cbn [length]. lia.
  - (* sender step after publication *)
    assert (E : forall w, match t_pc (g_threads w tid) with
                          | PIdle => mkCW true [] e0 s0 (step w tid)
                          | _ => mkCW true [] e0 s0 (step w tid) end = mkCW true [] e0 s0 (step w tid))
      by (intros w; destruct (t_pc (g_threads w tid)); reflexivity).
    rewrite E, <- run_snoc. apply Ph3. rewrite app_length. cbn [length]. lia.
  - apply Ph3. lia.
Qed.

Lemma phase_run e0 s0 todo sched :
  phase e0 s0 todo (length sched) (crun (cinit true e0 s0 todo) sched).
Proof.
  induction sched as [|x sched IH] using rev_ind.
  - cbn. apply Ph0.
  - rewrite crun_snoc, app_length. cbn [length]. replace (length sched + 1)%nat with (S (length sched)) by lia.
    apply phase_step. exact IH.
Qed.

(* C03_seq_unique_from_connect: sender tasks may start spinning on send() before the handshake ends; with the
   counters initialised before Connected is published (the order the source has: Gen flag), every datagram
   carries the handshake's final epoch, a sequence number >= ctx.sequence_number (so never a nonce of the
   handshake records of that epoch, which are numbered below it), all pairwise distinct *)
Theorem seq_unique_from_connect : forall e0 s0 (todo : nat -> list job) (sched : list (option nat)),
  0 <= s0 -> s0 + Z.of_nat (length sched) <= 2 ^ 48 ->
  let w := c_w (crun (cinit connected_published_after_stores e0 s0 todo) sched) in
  NoDup (map w_seq (g_wire w)) /\
  (forall r, In r (g_wire w) -> w_epoch r = e0 /\ s0 <= w_seq r < 2 ^ 48).
Proof.
  intros e0 s0 todo sched Hs0 Hb. unfold connected_published_after_stores.
  pose proof (phase_run e0 s0 todo sched) as P.
  destruct P as [n|n|n|n sched' Hl]; cbn [c_w g_wire map]; try (split; [constructor|intros r []]).
  apply seq_unique_concurrent; [exact Hs0|lia].
Qed.

(* the order the code had before 9dff55e (Connected published first): three witnesses, e0 = s0 = 1 as after a
   real handshake -- a record numbered from the still-zero epoch (what the stress run observed on the real
   code), a record with (epoch 1, seq 0) = the nonce of the Finished record, and two records with the same
   sequence number *)
Definition old_order_wire (sched : list (option nat)) : list (Z * Z * Z) :=
  map (fun r => (w_ct r, w_epoch r, w_seq r))
      (g_wire (c_w (crun (cinit false 1 1 (fun i => match i with O => send_jobs [7] ++ send_jobs [8] ++ send_jobs [9] | _ => [] end)) sched))).
Theorem connect_window_refuted :
  old_order_wire [None; Some 0; Some 0; Some 0]%nat = [(23, 0, 0)] /\
  old_order_wire [None; None; Some 0; Some 0; Some 0]%nat = [(23, 1, 0)] /\
  old_order_wire [None; None; Some 0; Some 0; Some 0; Some 0; Some 0; None; Some 0; Some 0; Some 0; Some 0]%nat
    = [(23, 1, 0); (23, 1, 1); (23, 1, 1)].
Proof. vm_compute. repeat split. Qed.
