(* Facts about the concrete symbolic instance `sym` (Model/DtlsSym.v): it satisfies every premise
   the theorems of Proofs/DtlsHsProofs.v and Proofs/DtlsPairProofs.v take (so the theorems are not
   vacuous), and the `_refuted` witnesses, all by computation. *)
From Coq Require Import ZArith List Bool Lia.
From RV Require Import Gen.Dtls Model.DtlsHs Model.DtlsSym.
Import ListNotations.
Open Scope Z_scope.

(* ------------------------------------------------------------------ tm_eqb decides equality *)
Fixpoint tm_rect' (P : tm -> Prop) (HA : forall n, P (A n))
         (HN : forall t l, Forall P l -> P (N t l)) (x : tm) : P x :=
  match x with
  | A n => HA n
  | N t l => HN t l ((fix go (l : list tm) : Forall P l :=
                        match l with
                        | [] => Forall_nil P
                        | y :: ys => Forall_cons y (tm_rect' P HA HN y) (go ys)
                        end) l)
  end.

Lemma tm_eqb_sound : forall a b, tm_eqb a b = true -> a = b.
Proof.
  intros a. induction a as [n | t l IH] using tm_rect'; intros [m | t' l'] H; cbn in H; try discriminate.
  - apply Z.eqb_eq in H. congruence.
  - apply andb_prop in H. destruct H as (Ht & Hl). apply Z.eqb_eq in Ht. subst t'. f_equal.
    revert l' Hl. induction IH as [| x xs Hx _ IHxs]; intros [| y ys] Hl; try discriminate; [reflexivity |].
    apply andb_prop in Hl. destruct Hl as (H1 & H2). f_equal; [apply Hx, H1 | apply IHxs, H2].
Qed.

Lemma tm_eqb_refl : forall a, tm_eqb a a = true.
Proof.
  intros a. induction a as [n | t l IH] using tm_rect'; cbn.
  - apply Z.eqb_refl.
  - rewrite Z.eqb_refl. cbn. induction IH as [| x xs Hx _ IHxs]; [reflexivity |]. rewrite Hx. exact IHxs.
Qed.

Lemma sym_eqb_sound : forall a b, t_eqb sym a b = true -> a = b.
Proof. exact tm_eqb_sound. Qed.

(* the two algebraic laws *)
Lemma sym_verify_sign : forall sk m, verify sym (sym_vk sk) m (sign sym sk m) = true.
Proof. intros sk m. cbn. apply (tm_eqb_refl (sym_sign sk m)). Qed.

Lemma sym_dh_comm : forall a b, dh sym a (pub sym b) = dh sym b (pub sym a).
Proof.
  intros [x | t l] [y | t' l']; cbn; try reflexivity.
  rewrite Z.min_comm, Z.max_comm. reflexivity.
Qed.

(* the ideal-signature premise of client_auth_possession holds in the instance *)
Lemma sym_sig_ideal : forall vk m s, verify sym vk m s = true -> exists sk, vk = sym_vk sk /\ s = sign sym sk m.
Proof.
  intros vk m s H. cbn in H.
  destruct vk as [| t l]; [discriminate |].
  destruct t as [| q | q]; try discriminate.
  destruct q as [q | q |]; try discriminate.
  destruct q as [q | q |]; try discriminate.
  destruct q; try discriminate.
  destruct l as [| sk [| ? ?]]; try discriminate.
  exists sk. split; [reflexivity |]. apply tm_eqb_sound in H. exact H.
Qed.

(* PRF outputs determine secret, label and seed (free algebra) *)
Lemma map_A_inj : forall l l' : list Z, map A l = map A l' -> l = l'.
Proof.
  induction l as [| x xs IH]; intros [| y ys] H; try discriminate; [reflexivity |].
  cbn in H. injection H as H1 H2. subst. f_equal. apply IH, H2.
Qed.

Lemma enc_label_inj : forall l l', enc_label l = enc_label l' -> l = l'.
Proof.
  intros [] []; cbn; intros H; try discriminate; try reflexivity.
  injection H as H1. f_equal. apply map_A_inj, H1.
Qed.

Lemma sym_prf_inj : forall s l d s' l' d', prf sym s l d = prf sym s' l' d' -> s = s' /\ l = l' /\ d = d'.
Proof.
  intros s l d s' l' d' H. cbn in H. injection H as H1 H2 H3.
  repeat split; auto. apply enc_label_inj, H2.
Qed.

(* ------------------------------------------------------------------ C02 refutation witnesses *)
(* F17: a server configured with a fingerprint that matches nobody completes the handshake with an
   ordinary client; no Certificate is ever requested, presented or accepted. *)
Definition f17_client0 := start sym (client_cfg 0).
Definition f17_in1 : list (wire tm) := map WRec (sent (snd f17_client0)).
Definition f17_server1 := step sym (fst (start sym (server_cfg 2))) (InDatagram f17_in1).
Definition f17_client1 := step sym (fst f17_client0) (InDatagram (map WRec (sent (snd f17_server1)))).
Definition f17_in2 : list (wire tm) := map WRec (sent (snd f17_client1)).
Definition f17_inputs : list (input tm) := [InDatagram f17_in1; InDatagram f17_in2].

Lemma server_auth_refuted :
  exists (g : cfg tm) (is : list (input tm)) (k : keys tm) (p : option Z),
    g_role g = Server /\ g_expected g = Some (fingerprint sym (junk 0)) /\
    let c := fst (run sym (fst (start sym g)) is) in
    st c = StConnected k p /\ peer_cert c = None /\
    (* no Certificate was ever accepted *)
    forallb (fun e => match e with EvCert _ => false | _ => true end) (log c) = true /\
    (* the whole transcript: ClientHello; the server's own ServerHello, Certificate, ServerKeyExchange,
       ServerHelloDone (no CertificateRequest = 13); ClientKeyExchange, Finished, Finished -- no client
       Certificate (11 after 14) and no CertificateVerify (15) *)
    map (@h_type tm) (tr c) = [1; 2; 11; 12; 14; 16; 20; 20].
Proof.
  exists (server_cfg 2), f17_inputs.
  destruct (st (fst (run sym (fst (start sym (server_cfg 2))) f17_inputs))) as [| | k p | |] eqn:Hst;
    try (vm_compute in Hst; discriminate).
  exists k, p. split; [reflexivity |]. split; [reflexivity |]. cbv zeta. split; [exact Hst |].
  split; [vm_compute; reflexivity |]. split; vm_compute; reflexivity.
Qed.

(* the client theorem is not vacuous: the honest run reaches Connected in the client role with an
   expected fingerprint *)
Lemma client_auth_nonvacuous :
  exists (is : list (input tm)) (k : keys tm) (p : option Z),
    st (fst (run sym (fst (start sym (client_cfg 1))) is)) = StConnected k p.
Proof.
  pose (s1 := step sym (fst (start sym (server_cfg 0))) (InDatagram (map WRec (sent (snd (start sym (client_cfg 1))))))).
  pose (c1 := step sym (fst (start sym (client_cfg 1))) (InDatagram (map WRec (sent (snd s1))))).
  pose (s2 := step sym (fst s1) (InDatagram (map WRec (sent (snd c1))))).
  exists [InDatagram (map WRec (sent (snd s1))); InDatagram (map WRec (sent (snd s2)))].
  destruct (st (fst (run sym (fst (start sym (client_cfg 1)))
      [InDatagram (map WRec (sent (snd s1))); InDatagram (map WRec (sent (snd s2)))]))) as [| | k p | |] eqn:Hst;
    try (vm_compute in Hst; discriminate).
  exists k, p. reflexivity.
Qed.
