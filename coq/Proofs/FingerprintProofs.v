(* Proofs about Model/Fingerprint.v (the C02 fingerprint theorems). *)
From Coq Require Import ZArith List Bool Lia.
From RV Require Import Gen.Dtls Model.Fingerprint.
Import ListNotations.
Open Scope Z_scope.

Ltac zb :=
  repeat match goal with
         | |- context [?a =? ?b] => destruct (Z.eqb_spec a b)
         | |- context [?a <=? ?b] => destruct (Z.leb_spec a b)
         | |- context [?a <? ?b] => destruct (Z.ltb_spec a b)
         | H : context [?a =? ?b] |- _ => destruct (Z.eqb_spec a b)
         | H : context [?a <=? ?b] |- _ => destruct (Z.leb_spec a b)
         | H : context [?a <? ?b] |- _ => destruct (Z.ltb_spec a b)
         end; cbn in *; try lia; try congruence; auto.

(* upper-case hex digit *)
Definition uhex (c : Z) : bool := ((48 <=? c) && (c <=? 57)) || ((65 <=? c) && (c <=? 70)).

Lemma uhex_facts c : uhex c = true ->
  keep c = true /\ to_upper c = c /\ char_len c = 1 /\ is_hex c = true.
Proof. unfold uhex, keep, is_ws, to_upper, char_len, is_hex, FP_SEPARATOR. intros H. repeat split; zb. Qed.

Lemma hex_upper c : is_hex (to_upper c) = true -> uhex (to_upper c) = true.
Proof. unfold is_hex, uhex, to_upper. intros H. zb. Qed.

Lemma keep_upper c : keep (to_upper c) = keep c.
Proof. unfold keep, is_ws, to_upper, FP_SEPARATOR. zb. Qed.
Lemma keep_lower c : keep (to_lower c) = keep c.
Proof. unfold keep, is_ws, to_lower, FP_SEPARATOR. zb. Qed.
Lemma upper_upper c : to_upper (to_upper c) = to_upper c.
Proof. unfold to_upper. zb. Qed.
Lemma upper_lower c : to_upper (to_lower c) = to_upper c.
Proof. unfold to_upper, to_lower. zb. Qed.
Lemma keep_not_sep c : keep c = true -> negb (c =? FP_SEPARATOR) = true.
Proof. unfold keep. intros H. apply andb_prop in H. apply H. Qed.

Lemma pair_ind (P : list Z -> Prop) :
  P [] -> (forall a, P [a]) -> (forall a b rest, P rest -> P (a :: b :: rest)) -> forall l, P l.
Proof.
  intros H0 H1 H2 l. enough (P l /\ forall a, P (a :: l)) by tauto.
  induction l as [| x xs [IH1 IH2]]; split; auto; intros a; apply H2, IH1.
Qed.

Lemma canon_cons_keep a v : keep a = true -> canon (a :: v) = to_upper a :: canon v.
Proof. unfold canon. cbn. intros ->. reflexivity. Qed.
Lemma canon_cons_drop a v : keep a = false -> canon (a :: v) = canon v.
Proof. unfold canon. cbn. intros ->. reflexivity. Qed.

Lemma canon_group h : Forall (fun c => uhex c = true) h -> canon (group h) = h.
Proof.
  induction h as [| a | a b rest IH] using pair_ind; intros HF.
  - reflexivity.
  - inversion HF; subst. destruct (uhex_facts a H1) as (Hk & Hu & _). cbn [group].
    rewrite canon_cons_keep by exact Hk. rewrite Hu. reflexivity.
  - inversion HF as [| ? ? Ha HF1]; subst. inversion HF1 as [| ? ? Hb HF2]; subst.
    destruct (uhex_facts a Ha) as (Hka & Hua & _). destruct (uhex_facts b Hb) as (Hkb & Hub & _).
    cbn [group]. destruct rest as [| r rs].
    + rewrite canon_cons_keep by exact Hka. rewrite canon_cons_keep by exact Hkb. rewrite Hua, Hub. reflexivity.
    + rewrite canon_cons_keep by exact Hka. rewrite canon_cons_keep by exact Hkb.
      rewrite canon_cons_drop by reflexivity.
      rewrite Hua, Hub, (IH HF2). reflexivity.
Qed.

Lemma canon_uhex v : forallb is_hex (canon v) = true -> Forall (fun c => uhex c = true) (canon v).
Proof.
  unfold canon. induction (filter keep v) as [| x xs IH]; cbn; intros H; [constructor |].
  apply andb_prop in H. destruct H as (H1 & H2). constructor; [apply hex_upper, H1 | apply IH, H2].
Qed.

Lemma normalize_some v n :
  normalize v = Some n ->
  n = group (canon v) /\ canon v <> [] /\ Z.even (utf8_len (canon v)) = true /\ forallb is_hex (canon v) = true.
Proof.
  unfold normalize. intros H.
  destruct (canon v) as [| x xs] eqn:Hc; [discriminate |]. cbn [orb] in H.
  destruct (Z.even (utf8_len (x :: xs))) eqn:He; [| discriminate]. cbn [negb] in H.
  destruct (forallb is_hex (x :: xs)) eqn:Hh; [| discriminate]. cbn [negb] in H.
  inversion H. repeat split; auto. discriminate.
Qed.

Lemma normalize_of_canon v :
  canon v <> [] -> Z.even (utf8_len (canon v)) = true -> forallb is_hex (canon v) = true ->
  normalize v = Some (group (canon v)).
Proof.
  unfold normalize. intros Hn He Hh. destruct (canon v) as [| x xs]; [congruence |].
  cbn [orb]. rewrite He, Hh. reflexivity.
Qed.

Theorem normalize_idempotent v n : normalize v = Some n -> normalize n = Some n.
Proof.
  intros H. apply normalize_some in H. destruct H as (-> & Hn & He & Hh).
  pose proof (canon_group _ (canon_uhex v Hh)) as Hg.
  rewrite <- Hg at 2. apply normalize_of_canon; rewrite Hg; assumption.
Qed.

Theorem normalize_canon v w : canon v = canon w -> normalize v = normalize w.
Proof. unfold normalize. intros ->. reflexivity. Qed.

Lemma canon_map_upper v : canon (map to_upper v) = canon v.
Proof.
  induction v as [| a v IH]; [reflexivity |]. cbn [map].
  destruct (keep a) eqn:Hk.
  - rewrite !canon_cons_keep by (rewrite ?keep_upper; exact Hk). rewrite upper_upper, IH. reflexivity.
  - rewrite !canon_cons_drop by (rewrite ?keep_upper; exact Hk). exact IH.
Qed.
Lemma canon_map_lower v : canon (map to_lower v) = canon v.
Proof.
  induction v as [| a v IH]; [reflexivity |]. cbn [map].
  destruct (keep a) eqn:Hk.
  - rewrite !canon_cons_keep by (rewrite ?keep_lower; exact Hk). rewrite upper_lower, IH. reflexivity.
  - rewrite !canon_cons_drop by (rewrite ?keep_lower; exact Hk). exact IH.
Qed.
Lemma canon_strip_sep v : canon (filter (fun c => negb (c =? FP_SEPARATOR)) v) = canon v.
Proof.
  induction v as [| a v IH]; [reflexivity |]. cbn [filter].
  destruct (keep a) eqn:Hk.
  - rewrite (keep_not_sep a Hk). rewrite !canon_cons_keep by exact Hk. rewrite IH. reflexivity.
  - destruct (negb (a =? FP_SEPARATOR)); rewrite ?canon_cons_drop by exact Hk; exact IH.
Qed.

Theorem normalize_case_colon v :
  normalize (map to_upper v) = normalize v /\ normalize (map to_lower v) = normalize v /\
  normalize (filter (fun c => negb (c =? FP_SEPARATOR)) v) = normalize v.
Proof.
  repeat split; apply normalize_canon; [apply canon_map_upper | apply canon_map_lower | apply canon_strip_sep].
Qed.

Theorem normalize_accepts_iff v :
  (exists n, normalize v = Some n) <->
  (canon v <> [] /\ Z.even (utf8_len (canon v)) = true /\ forallb is_hex (canon v) = true).
Proof.
  split.
  - intros (n & H). apply normalize_some in H. tauto.
  - intros (H1 & H2 & H3). eexists. apply normalize_of_canon; assumption.
Qed.

(* ------------------------------------------------------------------ digest rendering *)
Lemma hexc_uhex n : 0 <= n < 16 -> uhex (hexc n) = true.
Proof.
  intros H. assert (Hn : In n [0;1;2;3;4;5;6;7;8;9;10;11;12;13;14;15]) by (cbn; lia).
  cbn in Hn. repeat (destruct Hn as [<- | Hn]; [reflexivity |]). contradiction.
Qed.

Lemma hexpair_uhex b : 0 <= b < 256 -> Forall (fun c => uhex c = true) (hexpair b).
Proof.
  intros H. unfold hexpair. repeat constructor; apply hexc_uhex.
  - split; [apply Z.div_pos; lia | apply Z.div_lt_upper_bound; lia].
  - apply Z.mod_pos_bound. lia.
Qed.

Lemma hexdigits_uhex d : Forall (fun b => 0 <= b < 256) d -> Forall (fun c => uhex c = true) (hexdigits d).
Proof.
  induction 1 as [| b d Hb _ IH]; [constructor |]. unfold hexdigits. cbn [flat_map].
  apply Forall_app. split; [apply hexpair_uhex, Hb | exact IH].
Qed.

Lemma render_group d : render d = group (hexdigits d).
Proof.
  destruct d as [| b rest]; [reflexivity |]. revert b.
  induction rest as [| x xs IH]; intros b; [reflexivity |].
  specialize (IH x). unfold render in *. unfold hexdigits in *. cbn [flat_map hexpair app group] in *.
  rewrite <- IH. reflexivity.
Qed.

Lemma utf8_len_uhex h : Forall (fun c => uhex c = true) h -> utf8_len h = Z.of_nat (length h).
Proof.
  induction 1 as [| c h Hc _ IH]; [reflexivity |]. cbn [utf8_len fold_right length].
  destruct (uhex_facts c Hc) as (_ & _ & Hl & _). fold (utf8_len h). rewrite Hl, IH. lia.
Qed.

Lemma hexdigits_length d : length (hexdigits d) = (2 * length d)%nat.
Proof. induction d as [| b d IH]; [reflexivity |]. unfold hexdigits in *. cbn [flat_map hexpair app length]. rewrite IH. lia. Qed.

Lemma forallb_uhex h : Forall (fun c => uhex c = true) h -> forallb is_hex h = true.
Proof.
  induction 1 as [| c h Hc _ IH]; [reflexivity |]. cbn. rewrite IH. destruct (uhex_facts c Hc) as (_ & _ & _ & ->). reflexivity.
Qed.

Theorem normalize_render d :
  d <> [] -> Forall (fun b => 0 <= b < 256) d ->
  normalize (render d) = Some (render d) /\
  forall v, normalize v = Some (render d) <-> canon v = hexdigits d.
Proof.
  intros Hne Hd. pose proof (hexdigits_uhex d Hd) as Hu.
  assert (Hc : canon (render d) = hexdigits d) by (rewrite render_group; apply canon_group, Hu).
  assert (Hnn : hexdigits d <> []).
  { destruct d as [| b rest]; [congruence |]. unfold hexdigits. cbn. discriminate. }
  assert (Hev : Z.even (utf8_len (hexdigits d)) = true).
  { rewrite (utf8_len_uhex _ Hu), hexdigits_length. rewrite Nat2Z.inj_mul. apply Z.even_mul. }
  assert (Hself : normalize (render d) = Some (render d)).
  { rewrite (normalize_of_canon (render d)).
    - rewrite Hc, <- render_group. reflexivity.
    - rewrite Hc; exact Hnn.
    - rewrite Hc; exact Hev.
    - rewrite Hc. apply forallb_uhex, Hu. }
  split; [exact Hself |]. intros v. split.
  - intros H. apply normalize_some in H. destruct H as (Hg & _ & _ & Hh).
    rewrite render_group in Hg.
    rewrite <- (canon_group _ (canon_uhex v Hh)), <- Hg. apply canon_group, Hu.
  - intros H. rewrite <- Hself. apply normalize_canon. congruence.
Qed.

(* ------------------------------------------------------------------ all fingerprints agree *)
Lemma fp_eqb_eq a b : fp_eqb a b = true -> a = b.
Proof.
  unfold fp_eqb. destruct a as [a1 a2], b as [b1 b2]. cbn [fst snd].
  destruct (list_eq_dec Z.eq_dec a1 b1) as [-> |]; [| intros H; discriminate H].
  destruct (list_eq_dec Z.eq_dec a2 b2) as [-> |]; [| intros H; discriminate H].
  reflexivity.
Qed.

Lemma collect_from_agree attrs : forall cur f,
  collect_from cur attrs = Some (Some f) ->
  (forall e, cur = Some e -> e = f) /\ forall a, In a attrs -> parse_fp a = Some f.
Proof.
  induction attrs as [| a rest IH]; intros cur f H; cbn in H.
  - inversion H; subst. split; [intros e He; congruence | intros a []].
  - destruct (parse_fp a) as [g |] eqn:Hp; [| discriminate].
    destruct cur as [e |].
    + destruct (fp_eqb e g) eqn:He; [| discriminate]. apply fp_eqb_eq in He. subst g.
      destruct (IH _ _ H) as (H1 & H2). split; [exact H1 |].
      intros a0 [<- | Hin]; [rewrite Hp; f_equal; apply H1; reflexivity | apply H2, Hin].
    + destruct (IH _ _ H) as (H1 & H2). split; [intros e He; discriminate |].
      intros a0 [<- | Hin]; [rewrite Hp; f_equal; apply H1; reflexivity | apply H2, Hin].
Qed.

Theorem collect_all_agree attrs f :
  collect attrs = Some (Some f) -> forall a, In a attrs -> parse_fp a = Some f.
Proof. intros H. apply (collect_from_agree attrs None f H). Qed.

(* ------------------------------------------------------------------ the comparison in handle_certificate *)
Lemma str_eqb_eq a : forall b, str_eqb a b = true <-> a = b.
Proof.
  induction a as [| x a IH]; intros [| y b]; cbn; split; intros H; try discriminate; auto.
  - apply andb_prop in H. destruct H as (H1 & H2). apply Z.eqb_eq in H1. apply IH in H2. congruence.
  - injection H as -> ->. rewrite Z.eqb_refl. apply IH. reflexivity.
Qed.

Theorem fp_accepts_iff expected digest : fp_accepts expected digest = true <-> expected = render digest.
Proof. apply str_eqb_eq. Qed.

(* a strict prefix of the digest string (in particular the empty string) is not accepted *)
Theorem fp_prefix_rejected expected rest digest :
  render digest = expected ++ rest -> rest <> [] -> fp_accepts expected digest = false.
Proof.
  intros Hr Hne. destruct (fp_accepts expected digest) eqn:E; [| reflexivity].
  apply fp_accepts_iff in E. rewrite E in Hr. exfalso. apply Hne.
  assert (H : length (render digest) = length (render digest ++ rest)) by (rewrite <- Hr; reflexivity).
  rewrite app_length in H. destruct rest; [reflexivity | cbn in H; lia].
Qed.

(* end to end: an SDP value and a certificate digest are accepted together iff the value's hex digits are
   the digest's (all of them) *)
Theorem sdp_value_accepts_digest v e d :
  d <> [] -> Forall (fun b => 0 <= b < 256) d -> normalize v = Some e ->
  (fp_accepts e d = true <-> canon v = hexdigits d).
Proof.
  intros Hne Hd Hn. destruct (normalize_render d Hne Hd) as (_ & Hiff).
  rewrite fp_accepts_iff. split.
  - intros ->. apply Hiff, Hn.
  - intros Hc. apply Hiff in Hc. congruence.
Qed.
