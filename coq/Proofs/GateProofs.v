(* C14 -- proofs about Model/Gate.v (the SRTP protection gate of RtpTransport). *)
From Coq Require Import ZArith List Bool String Lia Permutation.
From RV Require Import Gen.SendSites.
From RV Require Import Model.Gate.
Import ListNotations.
Open Scope Z_scope.
Open Scope bool_scope.

(* ------------------------------------------------------------------ regenerated tables = specification *)
Lemma gate_tables : forall h r,
  gate_send h r = spec_gate h r /\ gate_send_rtp h r = spec_gate h r /\
  gate_send_rtcp h r = spec_gate h r /\ gate_send_rtcp_sync h r = spec_gate h r /\
  gate_bridge h r = spec_gate h r /\
  gate_recv_rtp h r = spec_rgate h r /\ gate_recv_rtcp h r = spec_rgate h r.
Proof. intros [|] [|]; repeat split; reflexivity. Qed.

Lemma stage_order :
  send_stages = [S_gate; S_clear_send; S_protect; S_protected_send] /\
  send_rtp_stages = [S_observer; S_gate; S_protect; S_marshal_clear; S_send] /\
  bridge_stages = [S_bridge_check; S_observer; S_gate; S_protect; S_marshal_clear; S_send] /\
  receive_stages = [S_gate; S_unprotect_rtcp; S_rtcp_listener;
                    S_gate; S_unprotect_rtp; S_plain_parse; S_observer; S_bridge; S_listener].
Proof. repeat split; reflexivity. Qed.

Ltac gates :=
  repeat match goal with
         | |- context [gate_send ?h ?r] => rewrite (proj1 (gate_tables h r))
         | |- context [gate_send_rtp ?h ?r] => rewrite (proj1 (proj2 (gate_tables h r)))
         | |- context [gate_send_rtcp ?h ?r] => rewrite (proj1 (proj2 (proj2 (gate_tables h r))))
         | |- context [gate_send_rtcp_sync ?h ?r] => rewrite (proj1 (proj2 (proj2 (proj2 (gate_tables h r)))))
         | |- context [gate_bridge ?h ?r] => rewrite (proj1 (proj2 (proj2 (proj2 (proj2 (gate_tables h r))))))
         | |- context [gate_recv_rtp ?h ?r] => rewrite (proj1 (proj2 (proj2 (proj2 (proj2 (proj2 (gate_tables h r)))))))
         | |- context [gate_recv_rtcp ?h ?r] => rewrite (proj2 (proj2 (proj2 (proj2 (proj2 (proj2 (gate_tables h r)))))))
         | H : context [gate_send ?h ?r] |- _ => rewrite (proj1 (gate_tables h r)) in H
         | H : context [gate_send_rtp ?h ?r] |- _ => rewrite (proj1 (proj2 (gate_tables h r))) in H
         | H : context [gate_send_rtcp ?h ?r] |- _ => rewrite (proj1 (proj2 (proj2 (gate_tables h r)))) in H
         | H : context [gate_send_rtcp_sync ?h ?r] |- _ => rewrite (proj1 (proj2 (proj2 (proj2 (gate_tables h r))))) in H
         | H : context [gate_bridge ?h ?r] |- _ => rewrite (proj1 (proj2 (proj2 (proj2 (proj2 (gate_tables h r)))))) in H
         | H : context [gate_recv_rtp ?h ?r] |- _ => rewrite (proj1 (proj2 (proj2 (proj2 (proj2 (proj2 (gate_tables h r))))))) in H
         | H : context [gate_recv_rtcp ?h ?r] |- _ => rewrite (proj2 (proj2 (proj2 (proj2 (proj2 (proj2 (gate_tables h r))))))) in H
         end.

(* ------------------------------------------------------------------ one operation *)
Ltac crush :=
  repeat match goal with
         | H : _ \/ _ |- _ => destruct H
         | H : False |- _ => destruct H
         | H : In _ [] |- _ => destruct H
         | H : In _ (_ :: _) |- _ => destruct H
         | H : In _ (_ ++ _) |- _ => apply in_app_or in H
         | H : Wire _ _ = Wire _ _ |- _ => inversion H; clear H; subst
         | H : Deliver _ _ = Deliver _ _ |- _ => inversion H; clear H; subst
         | H : Some _ = Some _ |- _ => inversion H; clear H; subst
         | H : Wire _ _ = _ |- _ => discriminate H
         | H : Deliver _ _ = _ |- _ => discriminate H
         | H : Ret _ = _ |- _ => discriminate H
         | H : None = Some _ |- _ => discriminate H
         | H : Some _ = None |- _ => discriminate H
         | H : true = false |- _ => discriminate H
         | H : false = true |- _ => discriminate H
         end.

(* ---- the two gate primitives under `required` *)
Lemma emit_sock : forall g s ks p s' w, In (Wire s' w) (emit g s ks p) -> s' = s /\ wire_pid w = p.
Proof. intros [| |] s [k|] p s' w H; cbn in H; crush; auto. Qed.

Lemma emit_no_deliver : forall g s ks p k d, ~ In (Deliver k d) (emit g s ks p).
Proof. intros [| |] s [k0|] p k d H; cbn in H; crush. Qed.

Lemma emit_required : forall t s p s' w,
  required t = true -> In (Wire s' w) (emit (spec_gate (has t) (required t)) s (session t) p) ->
  exists k, session t = Some k /\ w = Prot k Tx p.
Proof. intros [[k|] r dg] s p s' w Hr H; cbn in Hr; subst r; cbn in H; crush. cbn. eauto. Qed.

Lemma unprotect_some : forall ks w d,
  unprotect ks w = Some d -> exists k p, ks = Some k /\ w = Prot k Rx p /\ d = Auth k p.
Proof.
  intros [k|] [k' [|] p|p] d H; cbn in H; try discriminate.
  destruct (Z.eqb_spec k k'); [|discriminate]. inversion H; subst. eauto.
Qed.

Lemma accept_required : forall t w d,
  required t = true -> accept (spec_rgate (has t) (required t)) (session t) w = Some d ->
  exists k p, session t = Some k /\ w = Prot k Rx p /\ d = Auth k p.
Proof.
  intros [[k|] r dg] w d Hr H; cbn in Hr; subst r; cbn [has session required spec_rgate accept] in H.
  - apply unprotect_some in H. exact H.
  - discriminate H.
Qed.

Ltac step_cases Hin :=
  cbn [step snd fst] in Hin; unfold emit_try in Hin; gates;
  repeat match type of Hin with
         | context [match spec_gate ?h ?r with _ => _ end] => destruct (spec_gate h r) eqn:?; cbn [snd fst] in Hin
         | context [match accept ?g ?k ?w with _ => _ end] => destruct (accept g k w) eqn:?; cbn [snd fst] in Hin
         | context [if ?c then _ else _] => destruct c eqn:?; cbn [snd fst] in Hin
         end.

(* with `required`, whatever an operation writes on the transport's own socket is protected under the
   key set that is in the slot when the operation runs *)
Lemma step_wire_a : forall s o w,
  required (a s) = true -> In (Wire SockA w) (snd (step s o)) ->
  exists k p, session (a s) = Some k /\ w = Prot k Tx p.
Proof.
  intros s o w Hr Hin.
  assert (E : forall g p, g = spec_gate (has (a s)) (required (a s)) -> In (Wire SockA w) (emit g SockA (session (a s)) p) ->
                          exists k p, session (a s) = Some k /\ w = Prot k Tx p).
  { intros g p -> H. apply emit_required in H; [|exact Hr]. destruct H as (k & Hk & ->). eauto. }
  destruct o; step_cases Hin; crush;
    try (eapply E; [|eassumption]; congruence);
    try (match goal with H : In (Wire SockA _) (emit _ SockB _ _) |- _ => apply emit_sock in H; destruct H; discriminate end).
  - (* Send, clear arm: impossible under required *)
    rewrite Hr in *. destruct (has (a s)); discriminate.
Qed.

(* the bridge fast path: the TARGET's flag and slot decide what is written on the target's socket *)
Lemma step_wire_b : forall s o w,
  required (b s) = true -> In (Wire SockB w) (snd (step s o)) ->
  exists k p, session (b s) = Some k /\ w = Prot k Tx p.
Proof.
  intros s o w Hr Hin.
  destruct o; step_cases Hin; crush;
    try (match goal with H : In (Wire SockB _) (emit _ SockA _ _) |- _ => apply emit_sock in H; destruct H; discriminate end).
  apply emit_required in H; [|exact Hr]. destruct H as (k & Hk & ->). eauto.
Qed.

(* with `required`, whatever reaches a listener, the RTCP listener, the ingress observer or the bridge was
   authenticated under the key set in the slot, and is the packet this very operation received *)
Lemma step_deliver : forall s o snk d,
  required (a s) = true -> In (Deliver snk d) (snd (step s o)) -> inbound snk = true ->
  exists k p, session (a s) = Some k /\ d = Auth k p /\
              (o = RecvRtp (Prot k Rx p) \/ o = RecvRtcp (Prot k Rx p)).
Proof.
  intros s o snk d Hr Hin Hinb.
  destruct o; step_cases Hin; crush; try discriminate Hinb;
    try (exfalso; eapply emit_no_deliver; eassumption);
    match goal with
    | H : accept _ _ _ = Some _ |- _ => apply accept_required in H; [|exact Hr]; destruct H as (k & p & Hk & -> & ->)
    end; eauto 6.
Qed.

(* with `required`, a packet relayed to the bridge target is one that this operation received and
   authenticated *)
Lemma step_bridge_in : forall s o w,
  required (a s) = true -> In (Wire SockB w) (snd (step s o)) ->
  exists k p, session (a s) = Some k /\ o = RecvRtp (Prot k Rx p) /\ wire_pid w = p.
Proof.
  intros s o w Hr Hin.
  destruct o; step_cases Hin; crush;
    try (match goal with H : In (Wire SockB _) (emit _ SockA _ _) |- _ => apply emit_sock in H; destruct H; discriminate end).
  match goal with
  | H : accept _ _ _ = Some _ |- _ => apply accept_required in H; [|exact Hr]; destruct H as (k & p & Hk & -> & ->)
  end.
  apply emit_sock in H. destruct H as [_ Hp]. cbn in Hp. eauto.
Qed.

Lemma plain_rtcp_path_unprotected : forall s o,
  plain_rtcp_path s o = true -> required (a s) = false /\ session (a s) = None.
Proof.
  intros [[sa ra da] sb br cl] o H. destruct o; try discriminate H. destruct w; try discriminate H.
  cbn [plain_rtcp_path a required session has] in H. gates.
  destruct sa, ra; cbn in H; try discriminate H. auto.
Qed.

(* ------------------------------------------------------------------ histories *)
Lemma step_required : forall s o,
  required (a (fst (step s o))) = required (a s) /\ required (b (fst (step s o))) = required (b s).
Proof.
  intros [[sa ra da] [sb rb db] br cl] o.
  destruct o; cbn [step a b session required dgram bridge closed has snd fst]; unfold emit_try;
    repeat match goal with
           | |- context [match ?x with _ => _ end] => destruct x; cbn
           end; auto.
Qed.

Lemma step_session_a : forall s o,
  session (a (fst (step s o))) = match o with InstallKeys k => Some k | _ => session (a s) end.
Proof.
  intros [[sa ra da] [sb rb db] br cl] o.
  destruct o; cbn [step a b session required dgram bridge closed has snd fst]; unfold emit_try;
    repeat match goal with
           | |- context [match ?x with _ => _ end] => destruct x; cbn
           end; auto.
Qed.

Lemma step_session_b : forall s o,
  session (b (fst (step s o))) = match o with TInstallKeys k => Some k | _ => session (b s) end.
Proof.
  intros [[sa ra da] [sb rb db] br cl] o.
  destruct o; cbn [step a b session required dgram bridge closed has snd fst]; unfold emit_try;
    repeat match goal with
           | |- context [match ?x with _ => _ end] => destruct x; cbn
           end; auto.
Qed.

Lemma run_required : forall ops s,
  required (a (run s ops)) = required (a s) /\ required (b (run s ops)) = required (b s).
Proof.
  induction ops as [|o r IH]; intros s; cbn [run]; [auto|].
  destruct (IH (fst (step s o))) as [H1 H2]. destruct (step_required s o) as [H3 H4].
  rewrite H1, H2, H3, H4. auto.
Qed.

Lemma run_session_a : forall ops s, session (a (run s ops)) = last_a (session (a s)) ops.
Proof.
  induction ops as [|o r IH]; intros s; cbn [run last_a]; [auto|].
  rewrite IH, step_session_a. destruct o; reflexivity.
Qed.

Lemma run_session_b : forall ops s, session (b (run s ops)) = last_b (session (b s)) ops.
Proof.
  induction ops as [|o r IH]; intros s; cbn [run last_b]; [auto|].
  rewrite IH, step_session_b. destruct o; reflexivity.
Qed.

Lemma trace_nth : forall ops s i outs,
  nth_error (trace s ops) i = Some outs ->
  exists o, nth_error ops i = Some o /\ outs = snd (step (run s (firstn i ops)) o).
Proof.
  induction ops as [|o r IH]; intros s i outs H; cbn [trace] in H.
  - destruct i; discriminate H.
  - destruct i as [|i]; cbn [nth_error firstn run] in *.
    + inversion H; subst. eauto.
    + apply IH in H. exact H.
Qed.

Lemma last_a_in : forall ops acc k,
  last_a acc ops = Some k -> acc = Some k \/ In (InstallKeys k) ops.
Proof.
  induction ops as [|o r IH]; intros acc k H; cbn [last_a] in H; [auto|].
  destruct o;
    match type of H with
    | last_a (Some ?x) r = _ =>
        apply IH in H; destruct H as [H|H]; [inversion H; subst; right; left; reflexivity|right; right; exact H]
    | _ => apply IH in H; destruct H as [H|H]; [left; exact H|right; right; exact H]
    end.
Qed.

Lemma last_b_in : forall ops acc k,
  last_b acc ops = Some k -> acc = Some k \/ In (TInstallKeys k) ops.
Proof.
  induction ops as [|o r IH]; intros acc k H; cbn [last_b] in H; [auto|].
  destruct o;
    match type of H with
    | last_b (Some ?x) r = _ =>
        apply IH in H; destruct H as [H|H]; [inversion H; subst; right; left; reflexivity|right; right; exact H]
    | _ => apply IH in H; destruct H as [H|H]; [left; exact H|right; right; exact H]
    end.
Qed.

Lemma installed_before : forall ops k, last_a None ops = Some k -> In (InstallKeys k) ops.
Proof. intros ops k H. apply last_a_in in H. destruct H; [discriminate|assumption]. Qed.

Lemma t_installed_before : forall ops k, last_b None ops = Some k -> In (TInstallKeys k) ops.
Proof. intros ops k H. apply last_b_in in H. destruct H; [discriminate|assumption]. Qed.

Lemma firstn_in_mono : forall (A : Type) (l : list A) i j x, (i <= j)%nat -> In x (firstn i l) -> In x (firstn j l).
Proof.
  intros A l; induction l as [|y l IH]; intros i j x Hle Hin.
  - rewrite firstn_nil in Hin. destruct Hin.
  - destruct i; [destruct Hin|]. destruct j; [lia|]. cbn [firstn] in *.
    destruct Hin as [H|H]; [left; exact H|right; apply (IH i j); [lia|exact H]].
Qed.

(* ---- C14_no_clear_out *)
Theorem no_clear_out : forall da db rb ops i outs w,
  nth_error (trace (init_on da db true rb) ops) i = Some outs -> In (Wire SockA w) outs ->
  exists k p, w = Prot k Tx p /\ last_a None (firstn i ops) = Some k /\ In (InstallKeys k) (firstn i ops).
Proof.
  intros da db rb ops i outs w Hn Hin.
  apply trace_nth in Hn. destruct Hn as (o & Ho & ->).
  apply step_wire_a in Hin.
  - destruct Hin as (k & p & Hs & ->). rewrite run_session_a in Hs. cbn in Hs.
    exists k, p. split; [reflexivity|]. split; [exact Hs|]. apply installed_before. exact Hs.
  - rewrite (proj1 (run_required _ _)). reflexivity.
Qed.

Theorem no_clear_out_bridge : forall da db ra ops i outs w,
  nth_error (trace (init_on da db ra true) ops) i = Some outs -> In (Wire SockB w) outs ->
  exists k p, w = Prot k Tx p /\ last_b None (firstn i ops) = Some k /\ In (TInstallKeys k) (firstn i ops).
Proof.
  intros da db ra ops i outs w Hn Hin.
  apply trace_nth in Hn. destruct Hn as (o & Ho & ->).
  apply step_wire_b in Hin.
  - destruct Hin as (k & p & Hs & ->). rewrite run_session_b in Hs. cbn in Hs.
    exists k, p. split; [reflexivity|]. split; [exact Hs|]. apply t_installed_before. exact Hs.
  - rewrite (proj2 (run_required _ _)). reflexivity.
Qed.

Corollary silent_before_keys : forall da db rb ops i outs w,
  nth_error (trace (init_on da db true rb) ops) i = Some outs ->
  (forall k, ~ In (InstallKeys k) (firstn i ops)) -> ~ In (Wire SockA w) outs.
Proof.
  intros da db rb ops i outs w Hn Hno Hin.
  destruct (no_clear_out _ _ _ _ _ _ _ Hn Hin) as (k & p & _ & _ & Hk). exact (Hno k Hk).
Qed.

Corollary bridge_silent_before_keys : forall da db ra ops i outs w,
  nth_error (trace (init_on da db ra true) ops) i = Some outs ->
  (forall k, ~ In (TInstallKeys k) (firstn i ops)) -> ~ In (Wire SockB w) outs.
Proof.
  intros da db ra ops i outs w Hn Hno Hin.
  destruct (no_clear_out_bridge _ _ _ _ _ _ _ Hn Hin) as (k & p & _ & _ & Hk). exact (Hno k Hk).
Qed.

(* ---- C14_no_clear_in *)
Theorem no_clear_in : forall da db rb ops i outs snk d,
  nth_error (trace (init_on da db true rb) ops) i = Some outs -> In (Deliver snk d) outs -> inbound snk = true ->
  exists k p, d = Auth k p /\ last_a None (firstn i ops) = Some k /\
              (nth_error ops i = Some (RecvRtp (Prot k Rx p)) \/ nth_error ops i = Some (RecvRtcp (Prot k Rx p))).
Proof.
  intros da db rb ops i outs snk d Hn Hin Hinb.
  apply trace_nth in Hn. destruct Hn as (o & Ho & ->).
  apply step_deliver in Hin; [|rewrite (proj1 (run_required _ _)); reflexivity|exact Hinb].
  destruct Hin as (k & p & Hs & -> & Hop). rewrite run_session_a in Hs. cbn in Hs.
  exists k, p. split; [reflexivity|]. split; [exact Hs|].
  destruct Hop as [->| ->]; [left|right]; exact Ho.
Qed.

Theorem bridge_in : forall da db rb ops i outs w,
  nth_error (trace (init_on da db true rb) ops) i = Some outs -> In (Wire SockB w) outs ->
  exists k p, nth_error ops i = Some (RecvRtp (Prot k Rx p)) /\ wire_pid w = p /\
              last_a None (firstn i ops) = Some k.
Proof.
  intros da db rb ops i outs w Hn Hin.
  apply trace_nth in Hn. destruct Hn as (o & Ho & ->).
  apply step_bridge_in in Hin; [|rewrite (proj1 (run_required _ _)); reflexivity].
  destruct Hin as (k & p & Hs & -> & Hp). rewrite run_session_a in Hs. cbn in Hs.
  exists k, p. auto.
Qed.

(* a datagram whose emission is delayed past later operations (the socket write happens after the gate
   released its locks) is still protected under a key set that had been installed: "installed before" is
   monotone in time *)
Theorem installed_mono : forall ops i j k,
  (i <= j)%nat -> In (InstallKeys k) (firstn i ops) -> In (InstallKeys k) (firstn j ops).
Proof. intros ops i j k Hle H. exact (firstn_in_mono _ ops i j _ Hle H). Qed.

(* ---- C14_racing *)
Lemma interleave_perm : forall ts l, Interleave ts l -> Permutation (List.concat ts) l.
Proof.
  induction 1 as [ts Hall|ts1 o t ts2 l _ IH].
  - assert (List.concat ts = []) as ->; [|constructor].
    induction Hall as [|x r Hx _ IHr]; cbn; [reflexivity|]. subst x. exact IHr.
  - rewrite concat_app in *. cbn [List.concat] in *.
    rewrite <- app_comm_cons.
    eapply Permutation_trans; [apply Permutation_sym, Permutation_middle|].
    constructor. exact IH.
Qed.

Definition safe_history (da db ra rb : bool) (ops : list op) : Prop :=
  forall i outs, nth_error (trace (init_on da db ra rb) ops) i = Some outs ->
    (ra = true -> forall w, In (Wire SockA w) outs ->
        exists k p, w = Prot k Tx p /\ last_a None (firstn i ops) = Some k /\ In (InstallKeys k) (firstn i ops)) /\
    (rb = true -> forall w, In (Wire SockB w) outs ->
        exists k p, w = Prot k Tx p /\ last_b None (firstn i ops) = Some k /\ In (TInstallKeys k) (firstn i ops)) /\
    (ra = true -> forall snk d, In (Deliver snk d) outs -> inbound snk = true ->
        exists k p, d = Auth k p /\ last_a None (firstn i ops) = Some k /\
          (nth_error ops i = Some (RecvRtp (Prot k Rx p)) \/ nth_error ops i = Some (RecvRtcp (Prot k Rx p)))) /\
    (ra = true -> forall w, In (Wire SockB w) outs ->
        exists k p, nth_error ops i = Some (RecvRtp (Prot k Rx p)) /\ wire_pid w = p /\
          last_a None (firstn i ops) = Some k).

Theorem all_histories_safe : forall da db ra rb ops, safe_history da db ra rb ops.
Proof.
  intros da db ra rb ops i outs Hn. repeat split.
  - intros -> w Hin. eapply no_clear_out; eauto.
  - intros -> w Hin. eapply no_clear_out_bridge; eauto.
  - intros -> snk d Hin Hinb. eapply no_clear_in; eauto.
  - intros -> w Hin. eapply bridge_in; eauto.
Qed.

Theorem racing : forall tasks merged da db ra rb,
  Interleave tasks merged -> Permutation (List.concat tasks) merged /\ safe_history da db ra rb merged.
Proof.
  intros tasks merged da db ra rb H. split; [exact (interleave_perm _ _ H)|apply all_histories_safe].
Qed.

(* the premises are satisfiable: protected traffic does flow, in both directions and over the bridge *)
Example live_out :
  trace (init true true) [InstallKeys 1; SendRtp 7; SendRtcp 8; Send 9 true; SyncBye 10] =
  [[]; [Deliver SObsOut (Local 7); Wire SockA (Prot 1 Tx 7); Ret true]; [Wire SockA (Prot 1 Tx 8); Ret true];
   [Wire SockA (Prot 1 Tx 9); Ret true]; [Wire SockA (Prot 1 Tx 10)]].
Proof. vm_compute. reflexivity. Qed.

Example live_in :
  trace (init true true) [InstallKeys 1; RecvProtRtp 1 7; RecvProtRtcp 1 8; SetBridge; TInstallKeys 2; RecvProtRtp 1 9] =
  [[]; [Deliver SObsIn (Auth 1 7); Deliver SListener (Auth 1 7)]; [Deliver SRtcpListener (Auth 1 8)]; []; [];
   [Deliver SObsIn (Auth 1 9); Deliver SBridge (Auth 1 9); Wire SockB (Prot 2 Tx 9)]].
Proof. vm_compute. reflexivity. Qed.

Example silent_without_keys :
  trace (init true true) [SendRtp 7; SendRtcp 8; Send 9 true; SyncBye 10; RecvClearRtp 11; RecvClearRtcp 12;
                          RecvProtRtp 1 13; SetBridge; RecvClearRtp 14; Close 15] =
  [[Deliver SObsOut (Local 7); Ret false]; [Ret false]; [Ret false]; []; []; []; []; []; []; []].
Proof. vm_compute. reflexivity. Qed.

Example interleave_example :
  Interleave [[InstallKeys 1; SendRtp 2]; [RecvClearRtp 3]] [InstallKeys 1; RecvClearRtp 3; SendRtp 2].
Proof.
  apply (il_step [] (InstallKeys 1) [SendRtp 2] [[RecvClearRtp 3]]).
  apply (il_step [[SendRtp 2]] (RecvClearRtp 3) [] []).
  apply (il_step [] (SendRtp 2) [] [[]]).
  constructor. repeat constructor.
Qed.

(* ------------------------------------------------------------------ census *)
Ltac in_list := cbn [In map fst]; repeat (first [left; reflexivity | right]); fail.

Lemma sites_allowed : Forall (fun s => In s (map fst allowed_sites)) send_sites.
Proof. unfold send_sites. repeat (constructor; [in_list|]). constructor. Qed.

Lemma socket_sites_allowed : Forall (fun s => In s (map fst allowed_socket_sites)) socket_sites.
Proof. unfold socket_sites. repeat (constructor; [in_list|]). constructor. Qed.

Lemma ice_conn_uses_allowed : Forall (fun u => In u allowed_ice_conn_uses) ice_conn_uses.
Proof. unfold ice_conn_uses. repeat (constructor; [in_list|]). constructor. Qed.

Lemma ctor_sites_ok : Forall (fun c => ctor_ok c = true) ctor_sites /\ ctor_sites <> [].
Proof. split; [unfold ctor_sites; repeat (constructor; [reflexivity|]); constructor|discriminate]. Qed.

Lemma carriers_allowed : Forall (fun c => In c allowed_carriers) ice_conn_carriers.
Proof. unfold ice_conn_carriers. repeat (constructor; [in_list|]). constructor. Qed.

Lemma holders_allowed : Forall (fun c => In c allowed_holders) ice_conn_holders.
Proof. unfold ice_conn_holders. repeat (constructor; [in_list|]). constructor. Qed.

Lemma trait_impls_allowed :
  Forall (fun c => In c allowed_trait_impls) ice_conn_trait_impls /\
  Forall (fun c => In c allowed_receiver_impls) packet_receiver_impls /\ send_macros = [].
Proof.
  split; [unfold ice_conn_trait_impls; repeat (constructor; [in_list|]); constructor|].
  split; [unfold packet_receiver_impls; repeat (constructor; [in_list|]); constructor|reflexivity].
Qed.

(* the media senders the model is about are present in the census (the model is about code that exists) *)
Lemma gated_sites_present :
  Forall (fun s => snd s = DtlsRecord \/ In (fst s) send_sites) allowed_sites.
Proof.
  unfold allowed_sites.
  repeat (constructor; [first [left; reflexivity | right; cbn [fst]; unfold send_sites; in_list]|]). constructor.
Qed.
