(* C06 -- proofs about Model/IceAuth.v.

   Faithful model (`on_packet`, the code as it is):
     response_needs_txn          responses act only through a pending transaction, and consume exactly it
     unsolicited_history         ... lifted to histories: unsolicited responses can be deleted from any history
     request_effects_exact       everything a request does, authenticated or not (E1..E4)
     auth_blind                  the outcome does not depend on the credential facts
     request_auth_witness        F18: an unauthenticated USE-CANDIDATE request from a stranger takes over
     unauth_inert_outside_class  outside the listed class a request changes nothing that is protected
     request_keeps_transactions  a request never touches pending transactions / results
     upgrade_monotone, controlling_ignores_use_candidate, non_request_inert, launched_only
     addresses_origin            where remote candidates / the selected remote address can come from
   Specification variant (`on_packet_guarded`, what the property asks for; NOT the code):
     guarded_sound, guarded_history, guarded_agrees, guarded addresses_origin instance *)
From Coq Require Import ZArith List Bool Lia.
From RV Require Import Lib.Wrap Gen.IcePrio Gen.StunCodes Gen.IceAgent Model.IceAuth Model.IceAuthSpec.
Import ListNotations.
Open Scope Z_scope.
Open Scope bool_scope.

(* ------------------------------------------------------------------ small facts *)
Lemma role_guard_controlled : forall r, role_guard r = IceRole_eqb r IceRole_Controlled.
Proof. intros r. reflexivity. Qed.

Lemma addr_eqb_refl : forall a, addr_eqb a a = true.
Proof. intros [i p]. unfold addr_eqb. cbn [fst snd]. rewrite !Z.eqb_refl. reflexivity. Qed.

Lemma addr_eqb_eq : forall a b, addr_eqb a b = true <-> a = b.
Proof.
  intros [i p] [j q]. unfold addr_eqb. cbn [fst snd]. rewrite andb_true_iff, !Z.eqb_eq.
  split; [intros [-> ->]; reflexivity | intros H; inversion H; auto].
Qed.

Lemma lookup_remove_same : forall id l, lookup id (remove_tx id l) = None.
Proof.
  intros id l. induction l as [|t r IH]; [reflexivity|].
  unfold remove_tx in *. cbn [filter]. destruct (t_id t =? id) eqn:E; cbn [negb]; [exact IH|].
  cbn [lookup]. rewrite E. exact IH.
Qed.

Lemma lookup_remove_other : forall id id' l, id' <> id -> lookup id' (remove_tx id l) = lookup id' l.
Proof.
  intros id id' l Hne. induction l as [|t r IH]; [reflexivity|].
  unfold remove_tx in *. cbn [filter]. destruct (t_id t =? id) eqn:E; cbn [negb].
  - cbn [lookup]. apply Z.eqb_eq in E. destruct (t_id t =? id') eqn:E'.
    + apply Z.eqb_eq in E'. congruence.
    + exact IH.
  - cbn [lookup]. destruct (t_id t =? id'); [reflexivity | exact IH].
Qed.

Lemma lookup_In : forall id l t, lookup id l = Some t -> In t l /\ t_id t = id.
Proof.
  intros id l t. induction l as [|x r IH]; cbn [lookup]; [discriminate|].
  destruct (t_id x =? id) eqn:E.
  - intros H. inversion H; subst. split; [left; reflexivity | apply Z.eqb_eq; exact E].
  - intros H. destruct (IH H) as [Hi Ht]. split; [right; exact Hi | exact Ht].
Qed.


Lemma on_packet_response : forall s sk la src k, is_response k ->
  on_packet s sk la src k = on_response s k (succ_of k).
Proof. intros s sk la src k [H|H]; unfold on_packet, succ_of; rewrite H; reflexivity. Qed.

(* a success / error response changes nothing unless its transaction id is pending; if it is,
   it changes nothing that is protected, removes exactly that entry from the pending map and
   hands the verdict to the waiting check *)
Theorem response_needs_txn : forall s sk la src k, is_response k ->
  (lookup (k_tx k) (a_pending s) = None -> on_packet s sk la src k = (s, [])) /\
  (forall t, lookup (k_tx k) (a_pending s) = Some t ->
     let s' := fst (on_packet s sk la src k) in
     protected s' = protected s /\
     a_role s' = a_role s /\ a_locals s' = a_locals s /\ a_latching s' = a_latching s /\ a_rounds s' = a_rounds s /\
     lookup (k_tx k) (a_pending s') = None /\
     (forall id, id <> k_tx k -> lookup id (a_pending s') = lookup id (a_pending s)) /\
     a_done s' = a_done s ++ [(t, succ_of k && is_binding k)] /\
     snd (on_packet s sk la src k) = [ODeliver (k_tx k) (succ_of k)]).
Proof.
  intros s sk la src k Hr. rewrite (on_packet_response s sk la src k Hr). unfold on_response. split.
  - intros ->. reflexivity.
  - intros t ->. cbn [fst snd]. unfold protected, set_txns. cbn.
    repeat split.
    + apply lookup_remove_same.
    + intros id Hne. apply lookup_remove_other. exact Hne.
Qed.

Example response_premises_satisfiable :
  let t := mkTxn 7 (mkPair (prflx (1, 1)) (prflx (2, 2))) false 1 in
  let s := launch (init IceRole_Controlled false []) t in
  let k := mkPkt 1 257 true 7 false false false false false 0 0 in
  is_response k /\ lookup (k_tx k) (a_pending s) = Some t /\
  a_done (fst (on_packet s KUdp (1, 1) (9, 9) k)) = [(t, true)].
Proof. vm_compute. repeat split. left. reflexivity. Qed.

(* ------------------------------------------------------------------ requests: exact effects *)
Lemma on_packet_request : forall s sk la src k, classify k = CReq ->
  on_packet s sk la src k = on_request s sk la src k.
Proof. intros s sk la src k H. unfold on_packet. rewrite H. reflexivity. Qed.



Lemma find_remote_app_known : forall rs x a, known rs a = true -> find_remote (rs ++ x) a = find_remote rs a.
Proof.
  intros rs x a. unfold known, find_remote. induction rs as [|c r IH]; cbn [existsb find app]; [discriminate|].
  destruct (addr_eqb (c_addr c) a); [reflexivity|]. cbn [orb]. exact IH.
Qed.

Lemma prflx_k_addr : forall sk a, c_addr (prflx_k sk a) = a.
Proof. intros [] a; reflexivity. Qed.

Lemma find_remote_app_unknown : forall rs sk a, known rs a = false ->
  find_remote (rs ++ [prflx_k sk a]) a = Some (prflx_k sk a).
Proof.
  intros rs sk a. unfold known, find_remote. induction rs as [|c r IH]; cbn [existsb find app].
  - intros _. rewrite prflx_k_addr, addr_eqb_refl. reflexivity.
  - destruct (addr_eqb (c_addr c) a); cbn [orb]; [discriminate | exact IH].
Qed.

Lemma known_find : forall rs a, known rs a = true -> exists r, find_remote rs a = Some r /\ c_addr r = a.
Proof.
  intros rs a. unfold known, find_remote. induction rs as [|c r IH]; cbn [existsb find]; [discriminate|].
  destruct (addr_eqb (c_addr c) a) eqn:E; cbn [orb].
  - intros _. exists c. split; [reflexivity | apply addr_eqb_eq; exact E].
  - exact IH.
Qed.

(* the candidate the nomination branches pair with: always present after the learning step *)
Lemma remote_after_learning : forall s sk src,
  exists r, find_remote (remotes_after s sk src) src = Some r /\ c_addr r = src /\
            (known (a_remotes s) src = true -> find_remote (a_remotes s) src = Some r) /\
            (known (a_remotes s) src = false -> r = prflx_k sk src).
Proof.
  intros s sk src. unfold remotes_after. destruct (known (a_remotes s) src) eqn:K.
  - destruct (known_find _ _ K) as [r [Hf Ha]]. exists r. rewrite app_nil_r. repeat split; auto. discriminate.
  - exists (prflx_k sk src). rewrite find_remote_app_unknown by exact K. rewrite prflx_k_addr. repeat split; auto. discriminate.
Qed.

Ltac req_cases s la src k :=
  destruct s as [role st lat locs rems sel nom pend dn rounds];
  unfold remotes_after, sel_after_latch, on_request, learn, latch, nominate, tcp_nominate, tcp_select, latch_applies,
         set_remotes, set_selected, set_state, set_nominated;
  cbn [a_role a_state a_latching a_locals a_remotes a_selected a_nominated a_pending a_done a_rounds];
  destruct (known rems src) eqn:K;
    cbn [fst snd a_role a_state a_latching a_locals a_remotes a_selected a_nominated a_pending a_done a_rounds];
  destruct lat; cbn [andb];
  destruct sel as [p|]; cbn [option_map];
  try destruct ((port (c_addr (p_remote p)) =? port src) && negb (ip (c_addr (p_remote p)) =? ip src));
  cbn [fst snd a_role a_state a_latching a_locals a_remotes a_selected a_nominated a_pending a_done a_rounds].

(* datagram sockets -- E1..E4: everything an inbound request does, whatever its credentials *)
Theorem request_effects_exact : forall s la src k, classify k = CReq ->
  let s' := fst (on_packet s KUdp la src k) in
  (* untouched *)
  a_pending s' = a_pending s /\ a_done s' = a_done s /\ a_rounds s' = a_rounds s /\
  a_role s' = a_role s /\ a_locals s' = a_locals s /\ a_latching s' = a_latching s /\
  (* E1 the Binding response, E2 peer-reflexive learning (+ a check round is requested) *)
  snd (on_packet s KUdp la src k) = OSend src (k_tx k) :: (if known (a_remotes s) src then [] else [ORunChecks]) /\
  a_remotes s' = remotes_after s KUdp src /\
  (* E3 latching retarget, E4 USE-CANDIDATE on the controlled side *)
  (if k_use_candidate k && role_guard (a_role s) then
     match find_local (a_locals s) la, find_remote (remotes_after s KUdp src) src with
     | Some l, Some r =>
         a_state s' = St_Connected /\ a_nominated s' = Some true /\
         a_selected s' = (if should_select (sel_after_latch s src) (a_nominated s) (a_role s) (mkPair l r)
                          then Some (mkPair l r) else sel_after_latch s src)
     | _, _ => a_state s' = a_state s /\ a_nominated s' = Some true /\ a_selected s' = sel_after_latch s src
     end
   else a_state s' = a_state s /\ a_nominated s' = a_nominated s /\ a_selected s' = sel_after_latch s src).
Proof.
  intros s la src k Hc. rewrite (on_packet_request s KUdp la src k Hc).
  req_cases s la src k.
  all: destruct (k_use_candidate k && role_guard role).
  all: cbn [fst snd a_role a_state a_latching a_locals a_remotes a_selected a_nominated a_pending a_done a_rounds].
  all: try rewrite app_nil_r.
  all: try (destruct (find_local locs la) as [l|]).
  all: try (destruct (find_remote _ src) as [r|]).
  all: try (destruct (should_select _ _ _ _)).
  all: cbn [fst snd a_role a_state a_latching a_locals a_remotes a_selected a_nominated a_pending a_done a_rounds].
  all: repeat split; reflexivity.
Qed.

Lemma find_local_tcp_cases : forall ls la,
  (exists l, find_local_tcp1 ls la = Some l /\ find_local_tcp ls la = Some l) \/
  (find_local_tcp1 ls la = None /\ find_local_tcp ls la = find_local_tcp2 ls la).
Proof.
  intros ls la. unfold find_local_tcp. destruct (find_local_tcp1 ls la) as [l|]; [left; exists l; auto | right; auto].
Qed.

(* ICE-TCP streams -- E1..E3 as above; E4': ANY request completes nomination on a controlled
   agent that is not yet nominated (USE-CANDIDATE is not even looked at) *)
Theorem request_effects_exact_tcp : forall s la src k, classify k = CReq ->
  let s' := fst (on_packet s KTcp la src k) in
  a_pending s' = a_pending s /\ a_done s' = a_done s /\ a_rounds s' = a_rounds s /\
  a_role s' = a_role s /\ a_locals s' = a_locals s /\ a_latching s' = a_latching s /\
  snd (on_packet s KTcp la src k) = OSend src (k_tx k) :: (if known (a_remotes s) src then [] else [ORunChecks]) /\
  a_remotes s' = remotes_after s KTcp src /\
  (if tcp_applies s KTcp then
     a_nominated s' = Some true /\
     match find_local_tcp (a_locals s) la, find_remote (remotes_after s KTcp src) src with
     | Some l, Some r => a_state s' = St_Connected /\ a_selected s' = Some (mkPair l r)
     | _, _ => a_state s' = a_state s /\ a_selected s' = sel_after_latch s src
     end
   else a_state s' = a_state s /\ a_nominated s' = a_nominated s /\ a_selected s' = sel_after_latch s src).
Proof.
  intros s la src k Hc. rewrite (on_packet_request s KTcp la src k Hc).
  unfold tcp_applies, find_local_tcp.
  req_cases s la src k.
  all: rewrite role_guard_controlled.
  all: destruct role; cbn [IceRole_eqb negb andb].
  all: try rewrite andb_false_r.
  all: destruct nom as [b|]; cbn [is_some negb andb].
  all: try rewrite app_nil_r.
  all: try (destruct (find_local_tcp1 locs la) as [l|]).
  all: try (destruct (find_remote _ src) as [r|]).
  all: try (destruct (find_local_tcp2 locs la) as [l2|]).
  all: cbn [fst snd a_role a_state a_latching a_locals a_remotes a_selected a_nominated a_pending a_done a_rounds].
  all: try (destruct (k_use_candidate k)); cbn [andb].
  all: cbn [fst snd a_role a_state a_latching a_locals a_remotes a_selected a_nominated a_pending a_done a_rounds].
  all: repeat split; reflexivity.
Qed.

(* what both socket kinds share, in a form the history proofs use *)
Lemma request_common : forall s sk la src k, classify k = CReq ->
  let s' := fst (on_packet s sk la src k) in
  a_pending s' = a_pending s /\ a_done s' = a_done s /\ a_rounds s' = a_rounds s /\
  a_role s' = a_role s /\ a_locals s' = a_locals s /\ a_latching s' = a_latching s /\
  a_remotes s' = remotes_after s sk src.
Proof.
  intros s [] la src k Hc.
  - destruct (request_effects_exact s la src k Hc) as (H1 & H2 & H3 & H4 & H5 & H6 & _ & H8 & _). cbn zeta. auto 10.
  - destruct (request_effects_exact_tcp s la src k Hc) as (H1 & H2 & H3 & H4 & H5 & H6 & _ & H8 & _). cbn zeta. auto 10.
Qed.

(* the credential facts (and the PRIORITY attribute) play no part whatsoever *)
Theorem auth_blind : forall s sk la src k hu uo hm mo pr,
  on_packet s sk la src (with_auth k hu uo hm mo pr) = on_packet s sk la src k.
Proof. intros. reflexivity. Qed.

Theorem request_keeps_transactions : forall s sk la src k, classify k = CReq ->
  let s' := fst (on_packet s sk la src k) in
  a_pending s' = a_pending s /\ a_done s' = a_done s /\ a_rounds s' = a_rounds s.
Proof.
  intros s sk la src k Hc. destruct (request_common s sk la src k Hc) as (H1 & H2 & H3 & _).
  cbn zeta. auto.
Qed.

(* ------------------------------------------------------------------ F18: the property fails on the faithful model *)
Theorem request_auth_witness :
  exists s la src k,
    (* a controlled agent in Checking that knows nobody *)
    a_role s = IceRole_Controlled /\ a_state s = St_Checking /\ a_remotes s = [] /\
    a_selected s = None /\ a_nominated s = None /\
    (* one request on its UDP socket, no credentials at all, USE-CANDIDATE *)
    classify k = CReq /\ k_has_username k = false /\ k_has_mi k = false /\ authenticated k = false /\
    k_use_candidate k = true /\ mutation_class s KUdp src k = true /\
    let s' := fst (on_packet s KUdp la src k) in
    a_remotes s' = [prflx src] /\
    a_selected s' = Some (mkPair f18_local (prflx src)) /\
    a_nominated s' = Some true /\ a_state s' = St_Connected.
Proof.
  exists f18_agent, (2130706433, 50000), f18_stranger, f18_request. vm_compute. repeat split.
Qed.

(* the ICE-TCP form needs no USE-CANDIDATE: any request on an accepted stream does it *)
Theorem request_auth_witness_tcp :
  exists s la src k,
    a_role s = IceRole_Controlled /\ a_state s = St_Checking /\ a_remotes s = [] /\
    a_selected s = None /\ a_nominated s = None /\
    classify k = CReq /\ k_has_username k = false /\ k_has_mi k = false /\ authenticated k = false /\
    k_use_candidate k = false /\ mutation_class s KTcp src k = true /\
    let s' := fst (on_packet s KTcp la src k) in
    a_remotes s' = [prflx_k KTcp src] /\
    a_selected s' = Some (mkPair f18_local_tcp (prflx_k KTcp src)) /\
    a_nominated s' = Some true /\ a_state s' = St_Connected.
Proof.
  exists f18_agent_tcp, (2130706433, 50001), f18_stranger, f18_request_plain. vm_compute. repeat split.
Qed.

(* ------------------------------------------------------------------ outside the listed class nothing protected changes *)
Theorem request_inert_outside_class : forall s sk la src k, classify k = CReq ->
  mutation_class s sk src k = false ->
  protected (fst (on_packet s sk la src k)) = protected s.
Proof.
  intros s sk la src k Hc Hm. unfold mutation_class in Hm.
  apply orb_false_iff in Hm as [Hm Htcp]. apply orb_false_iff in Hm as [Hm Huc].
  apply orb_false_iff in Hm as [Hk Hl]. apply negb_false_iff in Hk.
  destruct sk.
  - destruct (request_effects_exact s la src k Hc) as (_ & _ & _ & _ & _ & _ & _ & Hr & He).
    cbn zeta in *. unfold uc_applies in Huc. rewrite Huc in He. destruct He as (Hs & Hn & Hsel).
    unfold protected. rewrite Hr, Hs, Hn, Hsel. unfold remotes_after, sel_after_latch. rewrite Hk, Hl, app_nil_r. reflexivity.
  - destruct (request_effects_exact_tcp s la src k Hc) as (_ & _ & _ & _ & _ & _ & _ & Hr & He).
    cbn zeta in *. rewrite Htcp in He. destruct He as (Hs & Hn & Hsel).
    unfold protected. rewrite Hr, Hs, Hn, Hsel. unfold remotes_after, sel_after_latch. rewrite Hk, Hl, app_nil_r. reflexivity.
Qed.

Theorem unauth_inert_outside_class : forall s sk la src k, classify k = CReq -> authenticated k = false ->
  mutation_class s sk src k = false ->
  protected (fst (on_packet s sk la src k)) = protected s.
Proof. intros s sk la src k Hc _ Hm. apply request_inert_outside_class; assumption. Qed.

Example outside_class_satisfiable :
  let s := fst (step (fst (step (init IceRole_Controlled true [f18_local]) (ApiAddRemote (prflx f18_stranger)))) ApiStart) in
  classify (mkPkt 0 1 true 5 false false false false false 0 0) = CReq /\
  mutation_class s KUdp f18_stranger (mkPkt 0 1 true 5 false false false false false 0 0) = false.
Proof. vm_compute. split; reflexivity. Qed.

(* the first disjunct of the class is always a change of the protected state *)
Lemma app_one_neq : forall (A : Type) (l : list A) (x : A), l ++ [x] <> l.
Proof.
  intros A l x H. apply (f_equal (@length A)) in H. rewrite app_length in H. cbn in H. lia.
Qed.

Theorem learning_is_mutation : forall s sk la src k, classify k = CReq -> known (a_remotes s) src = false ->
  a_remotes (fst (on_packet s sk la src k)) = a_remotes s ++ [prflx_k sk src] /\
  protected (fst (on_packet s sk la src k)) <> protected s.
Proof.
  intros s sk la src k Hc Hk.
  destruct (request_common s sk la src k Hc) as (_ & _ & _ & _ & _ & _ & Hr).
  cbn zeta in Hr. unfold remotes_after in Hr. rewrite Hk in Hr. split; [exact Hr|].
  unfold protected. rewrite Hr. intros H. inversion H as [[H1 H2 H3 H4]]. exact (app_one_neq _ _ _ H1).
Qed.

(* ------------------------------------------------------------------ the priority-upgrade rule *)
(* after nomination a request can move the selection only to a pair of strictly higher priority
   (latching aside): relies on the translated comparison `upgrade_cmp` *)
Theorem upgrade_monotone : forall s sk la src k p p', classify k = CReq ->
  latch_applies s src = false -> is_some (a_nominated s) = true ->
  a_selected s = Some p -> a_selected (fst (on_packet s sk la src k)) = Some p' ->
  p' = p \/ pair_prio p (a_role s) < pair_prio p' (a_role s).
Proof.
  intros s sk la src k p p' Hc Hl Hn Hs Hs'. destruct sk.
  - destruct (request_effects_exact s la src k Hc) as (_ & _ & _ & _ & _ & _ & _ & _ & He).
    cbn zeta in *. unfold sel_after_latch in He. rewrite Hl, Hs in He.
    destruct (k_use_candidate k && role_guard (a_role s)).
    + destruct (find_local (a_locals s) la) as [l|]; [destruct (find_remote (remotes_after s KUdp src) src) as [r|]|].
      * destruct He as (_ & _ & Hsel). rewrite Hsel in Hs'. unfold should_select in Hs'. rewrite Hn in Hs'.
        destruct (same_pair p (mkPair l r)); [left; congruence|].
        unfold upgrade_cmp in Hs'. destruct (pair_prio (mkPair l r) (a_role s) >? pair_prio p (a_role s)) eqn:G.
        -- inversion Hs'; subst. right. apply Z.gtb_lt in G. lia.
        -- left; congruence.
      * destruct He as (_ & _ & Hsel). left; congruence.
      * destruct He as (_ & _ & Hsel). left; congruence.
    + destruct He as (_ & _ & Hsel). left; congruence.
  - destruct (request_effects_exact_tcp s la src k Hc) as (_ & _ & _ & _ & _ & _ & _ & _ & He).
    cbn zeta in *. unfold tcp_applies in He. rewrite Hn in He. cbn [negb] in He. rewrite andb_false_r in He.
    destruct He as (_ & _ & Hsel). unfold sel_after_latch in Hsel. rewrite Hl, Hs in Hsel. left; congruence.
Qed.

(* a controlling agent ignores USE-CANDIDATE (and TCP nomination): a request only answers, learns
   and (with latching) retargets *)
Theorem controlling_ignores_use_candidate : forall s sk la src k, classify k = CReq ->
  a_role s = IceRole_Controlling ->
  let s' := fst (on_packet s sk la src k) in
  a_state s' = a_state s /\ a_nominated s' = a_nominated s /\ a_selected s' = sel_after_latch s src.
Proof.
  intros s sk la src k Hc Hr. destruct sk.
  - destruct (request_effects_exact s la src k Hc) as (_ & _ & _ & _ & _ & _ & _ & _ & He).
    cbn zeta in *. rewrite Hr, role_guard_controlled in He. cbn [IceRole_eqb] in He.
    rewrite andb_false_r in He. exact He.
  - destruct (request_effects_exact_tcp s la src k Hc) as (_ & _ & _ & _ & _ & _ & _ & _ & He).
    cbn zeta in *. unfold tcp_applies in He. rewrite Hr in He. cbn [IceRole_eqb andb] in He. exact He.
Qed.

(* indications, undecodable STUN and non-STUN datagrams leave the agent as it is *)
Theorem non_request_inert : forall s sk la src k,
  classify k = CInd \/ classify k = CBad \/ classify k = CData ->
  fst (on_packet s sk la src k) = s /\ sends (snd (on_packet s sk la src k)) = [].
Proof.
  intros s sk la src k [H|[H|H]]; unfold on_packet; rewrite H; split; reflexivity.
Qed.

Lemma classify_data : forall k, stun_first_byte_lt <= k_b0 k -> classify k = CData.
Proof.
  intros k H. unfold classify. destruct (k_b0 k <? stun_first_byte_lt) eqn:E; [|reflexivity].
  apply Z.ltb_lt in E. lia.
Qed.

(* ------------------------------------------------------------------ the guarded variant (specification, not the code) *)
Theorem guarded_rejects : forall s sk la src k, classify k = CReq -> authenticated k = false ->
  on_packet_guarded s sk la src k = (s, [OReject src (k_tx k)]).
Proof. intros s sk la src k Hc Ha. unfold on_packet_guarded. rewrite Hc, Ha. reflexivity. Qed.

Theorem guarded_agrees : forall s sk la src k, (classify k = CReq -> authenticated k = true) ->
  on_packet_guarded s sk la src k = on_packet s sk la src k.
Proof.
  intros s sk la src k H. unfold on_packet_guarded. destruct (classify k) eqn:Hc; try reflexivity.
  rewrite (H eq_refl). unfold on_packet. rewrite Hc. reflexivity.
Qed.

(* the full property, on the guarded variant: (1) a request without valid credentials changes
   nothing at all and is not answered with a Binding success; (2) a response acts only through a
   pending transaction, consuming exactly it, and touches nothing protected *)
Theorem guarded_sound : forall s sk la src k,
  (classify k = CReq -> authenticated k = false ->
     fst (on_packet_guarded s sk la src k) = s /\ sends (snd (on_packet_guarded s sk la src k)) = []) /\
  (is_response k ->
     protected (fst (on_packet_guarded s sk la src k)) = protected s /\
     (lookup (k_tx k) (a_pending s) = None -> on_packet_guarded s sk la src k = (s, [])) /\
     (forall t, lookup (k_tx k) (a_pending s) = Some t ->
        lookup (k_tx k) (a_pending (fst (on_packet_guarded s sk la src k))) = None /\
        (forall id, id <> k_tx k ->
           lookup id (a_pending (fst (on_packet_guarded s sk la src k))) = lookup id (a_pending s)))).
Proof.
  intros s sk la src k. split.
  - intros Hc Ha. rewrite (guarded_rejects s sk la src k Hc Ha). split; reflexivity.
  - intros Hr. assert (Hg : on_packet_guarded s sk la src k = on_packet s sk la src k).
    { apply guarded_agrees. intros Hc. destruct Hr as [Hr|Hr]; congruence. }
    rewrite Hg. destruct (response_needs_txn s sk la src k Hr) as [Hnone Hsome]. repeat split.
    + destruct (lookup (k_tx k) (a_pending s)) as [t|] eqn:L.
      * destruct (Hsome t eq_refl) as (Hp & _). exact Hp.
      * rewrite (Hnone eq_refl). reflexivity.
    + exact Hnone.
    + destruct (Hsome t H) as (_ & _ & _ & _ & _ & Hl & _). exact Hl.
    + destruct (Hsome t H) as (_ & _ & _ & _ & _ & _ & Ho & _). exact Ho.
Qed.

(* ================================================================== histories *)
Lemma run_with_cons : forall onp s o ops,
  run_with onp s (o :: ops) = run_with onp (fst (step_with onp s o)) ops.
Proof. intros. reflexivity. Qed.

Lemma run_with_app : forall onp ops1 ops2 s,
  run_with onp s (ops1 ++ ops2) = run_with onp (run_with onp s ops1) ops2.
Proof. intros. unfold run_with. apply fold_left_app. Qed.



Lemma unsolicited_step : forall s o, unsolicited s o = true -> step s o = (s, []).
Proof.
  intros s o. destruct o as [sk la src k| | | | | | | |]; cbn [unsolicited]; try discriminate.
  intros H. unfold step, step_with.
  destruct (classify k) eqn:Hc; try discriminate;
    (destruct (lookup (k_tx k) (a_pending s)) eqn:L; [discriminate|]);
    apply (proj1 (response_needs_txn s sk la src k ltac:(unfold is_response; auto)) L).
Qed.

Theorem unsolicited_history : forall ops s, run s ops = run_skip s ops.
Proof.
  induction ops as [|o r IH]; intros s; [reflexivity|].
  unfold run. rewrite run_with_cons. fold run. cbn [run_skip].
  destruct (unsolicited s o) eqn:U.
  - fold step. rewrite (unsolicited_step s o U). cbn [fst]. apply IH.
  - apply IH.
Qed.


Theorem guarded_history : forall ops s,
  run_guarded s ops = run_guarded s (filter (fun o => negb (unauth_req_op o)) ops).
Proof.
  induction ops as [|o r IH]; intros s; [reflexivity|].
  cbn [filter]. destruct (unauth_req_op o) eqn:U; cbn [negb].
  - unfold run_guarded. rewrite run_with_cons. fold run_guarded.
    destruct o as [sk la src k| | | | | | | |]; cbn [unauth_req_op] in U; try discriminate.
    destruct (classify k) eqn:Hc; try discriminate. apply negb_true_iff in U.
    cbn [step_with]. rewrite (guarded_rejects s sk la src k Hc U). cbn [fst]. apply IH.
  - unfold run_guarded. rewrite !run_with_cons. fold run_guarded. apply IH.
Qed.

(* ------------------------------------------------------------------ pending / finished transactions are the agent's own *)
Lemma In_remove_tx : forall id l t, In t (remove_tx id l) -> In t l.
Proof. intros id l t H. unfold remove_tx in H. apply filter_In in H. tauto. Qed.

Lemma round_done_txns : forall s r,
  (forall t, In t (a_pending (round_done s r)) -> In t (a_pending s)) /\
  (forall tv, In tv (a_done (round_done s r)) -> In tv (a_done s)).
Proof.
  intros s r. unfold round_done.
  destruct (sort_desc (a_role s) (successes r false (a_done s) [])) as [|best rest].
  - cbn. split; intros x H; apply filter_In in H; tauto.
  - destruct (a_role s).
    + cbn. split; intros x H; [exact H | apply filter_In in H; tauto].
    + cbn [set_txns a_nominated]. destruct (is_some (a_nominated s)).
      * cbn. split; intros x H; apply filter_In in H; tauto.
      * destruct (c_tcp (p_local best)); cbn; split; intros x H; apply filter_In in H; tauto.
Qed.

Lemma nom_done_txns : forall s r,
  (forall t, In t (a_pending (nom_done s r)) -> In t (a_pending s)) /\
  (forall tv, In tv (a_done (nom_done s r)) -> In tv (a_done s)).
Proof.
  intros s r. unfold nom_done. destruct (round_pairs r (a_rounds s)) as [|first rest]; [tauto|].
  destruct (sort_desc (a_role s) (successes r true (a_done s) [])) as [|best rest'];
    cbn; split; intros x H; apply filter_In in H; tauto.
Qed.


Lemma txns_launched_step : forall pre s o,
  txns_launched pre s -> txns_launched (pre ++ [o]) (fst (step s o)).
Proof.
  intros pre s o [Hp Hd].
  assert (Hmono : forall t, In (Launch t) pre -> In (Launch t) (pre ++ [o])) by (intros; apply in_or_app; auto).
  assert (Hsame : txns_launched (pre ++ [o]) s).
  { split; [intros t Ht; apply Hmono, Hp; exact Ht | intros t v Ht; apply Hmono, (Hd t v); exact Ht]. }
  destruct Hsame as [Hp' Hd'].
  destruct o as [sk la src k|t0|id|r|r| |c|p|rl]; unfold step; cbn [step_with fst].
  - destruct (classify k) eqn:Hc.
    + unfold on_packet; rewrite Hc; cbn [fst]. split; assumption.
    + unfold on_packet; rewrite Hc; cbn [fst]. split; assumption.
    + destruct (request_keeps_transactions s sk la src k Hc) as (H1 & H2 & _). cbn zeta in *.
      split; [intros t Ht; rewrite H1 in Ht | intros t v Ht; rewrite H2 in Ht]; eauto.
    + unfold on_packet; rewrite Hc. unfold on_response.
      destruct (lookup (k_tx k) (a_pending s)) as [t1|] eqn:L; cbn [fst]; [|split; assumption].
      cbn. split.
      * intros t Ht. apply In_remove_tx in Ht. auto.
      * intros t v Ht. apply in_app_or in Ht as [Ht|[Ht|[]]]; [eauto|].
        inversion Ht; subst. apply Hp'. exact (proj1 (lookup_In _ _ _ L)).
    + unfold on_packet; rewrite Hc. unfold on_response.
      destruct (lookup (k_tx k) (a_pending s)) as [t1|] eqn:L; cbn [fst]; [|split; assumption].
      cbn. split.
      * intros t Ht. apply In_remove_tx in Ht. auto.
      * intros t v Ht. apply in_app_or in Ht as [Ht|[Ht|[]]]; [eauto|].
        inversion Ht; subst. apply Hp'. exact (proj1 (lookup_In _ _ _ L)).
    + unfold on_packet; rewrite Hc; cbn [fst]. split; assumption.
  - cbn. split.
    + intros t Ht. apply in_app_or in Ht as [Ht|[Ht|[]]].
      * apply In_remove_tx in Ht. auto.
      * subst. apply in_or_app. right. left. reflexivity.
    + intros t v Ht. eauto.
  - cbn. split; [intros t Ht; apply In_remove_tx in Ht; auto | eauto].
  - destruct (round_done_txns s r) as [H1 H2]. split; [intros t Ht; auto | intros t v Ht; eauto].
  - destruct (nom_done_txns s r) as [H1 H2]. split; [intros t Ht; auto | intros t v Ht; eauto].
  - cbn. split; assumption.
  - cbn. split; assumption.
  - cbn. split; assumption.
  - cbn. split; assumption.
Qed.

Lemma txns_launched_run : forall ops pre s,
  txns_launched pre s -> txns_launched (pre ++ ops) (run s ops).
Proof.
  induction ops as [|o r IH]; intros pre s H.
  - rewrite app_nil_r. exact H.
  - unfold run. rewrite run_with_cons. fold run. fold step.
    replace (pre ++ o :: r) with ((pre ++ [o]) ++ r) by (rewrite <- app_assoc; reflexivity).
    apply IH. apply txns_launched_step. exact H.
Qed.

(* every pending transaction and every result a round can act on belongs to a check the agent
   itself launched -- whatever datagrams arrived *)
Theorem launched_only : forall role lat locs ops,
  txns_launched ops (run (init role lat locs) ops).
Proof.
  intros. apply (txns_launched_run ops [] (init role lat locs)). split; intros; contradiction.
Qed.



Lemma faithful_refines : refines (fun _ => true) on_packet.
Proof. intros s sk la src k. right. split; auto. Qed.

Lemma guarded_refines : refines authenticated on_packet_guarded.
Proof.
  intros s sk la src k. unfold on_packet_guarded. destruct (classify k) eqn:Hc; try (right; split; [reflexivity | congruence]).
  destruct (authenticated k) eqn:A.
  - right. split; [unfold on_packet; rewrite Hc; reflexivity | auto].
  - left. reflexivity.
Qed.

(* addresses that were signalled (add_remote_candidate), chosen through the API (select_pair) or
   are the source of a request the handler admits *)

(* the environment launches checks only towards remote candidates (pairs are formed from
   remote_candidates in perform_connectivity_checks_async) *)

Record Inv (T : list addr) (s : agent) : Prop := mkInv {
  inv_rem : forall c, In c (a_remotes s) -> In (c_addr c) T;
  inv_sel : forall p, a_selected s = Some p -> In (c_addr (p_remote p)) T;
  inv_pend : forall t, In t (a_pending s) -> In (raddr t) T;
  inv_done : forall t v, In (t, v) (a_done s) -> In (raddr t) T;
  inv_rounds : forall r ps p, In (r, ps) (a_rounds s) -> In p ps -> In (c_addr (p_remote p)) T }.

Lemma Inv_mono : forall T T' s, incl T T' -> Inv T s -> Inv T' s.
Proof.
  intros T T' s Hi [H1 H2 H3 H4 H5]. constructor; intros.
  - apply Hi; eauto.
  - apply Hi; eauto.
  - apply Hi; eauto.
  - apply Hi; eauto.
  - apply Hi; eauto.
Qed.

Lemma find_remote_addr : forall rs a r, find_remote rs a = Some r -> c_addr r = a.
Proof.
  intros rs a r H. unfold find_remote in H. apply find_some in H as [_ H]. apply addr_eqb_eq. exact H.
Qed.

Lemma request_remotes_origin : forall s sk la src k c, classify k = CReq ->
  In c (a_remotes (fst (on_packet s sk la src k))) -> In c (a_remotes s) \/ c_addr c = src.
Proof.
  intros s sk la src k c Hc H.
  destruct (request_common s sk la src k Hc) as (_ & _ & _ & _ & _ & _ & Hr).
  cbn zeta in Hr. rewrite Hr in H. unfold remotes_after in H. apply in_app_or in H as [H|H]; [left; exact H|].
  destruct (known (a_remotes s) src); [contradiction|]. destruct H as [H|[]]. subst. right. apply prflx_k_addr.
Qed.

Lemma sel_after_latch_origin : forall s src p, sel_after_latch s src = Some p ->
  a_selected s = Some p \/ c_addr (p_remote p) = src.
Proof.
  intros s src p H. unfold sel_after_latch in H. destruct (latch_applies s src); [|left; exact H].
  destruct (a_selected s) as [q|]; cbn [option_map] in H; [|discriminate]. inversion H; subst. right. reflexivity.
Qed.

Lemma request_selected_origin : forall s sk la src k p, classify k = CReq ->
  a_selected (fst (on_packet s sk la src k)) = Some p -> a_selected s = Some p \/ c_addr (p_remote p) = src.
Proof.
  intros s sk la src k p Hc H. destruct sk.
  - destruct (request_effects_exact s la src k Hc) as (_ & _ & _ & _ & _ & _ & _ & _ & He).
    cbn zeta in He. destruct (k_use_candidate k && role_guard (a_role s)).
    + destruct (find_local (a_locals s) la) as [l|]; [destruct (find_remote (remotes_after s KUdp src) src) as [r|] eqn:F|].
      * destruct He as (_ & _ & Hsel). rewrite Hsel in H.
        destruct (should_select _ _ _ _).
        -- inversion H; subst. right. cbn [p_remote]. exact (find_remote_addr _ _ _ F).
        -- apply sel_after_latch_origin. exact H.
      * destruct He as (_ & _ & Hsel). rewrite Hsel in H. apply sel_after_latch_origin. exact H.
      * destruct He as (_ & _ & Hsel). rewrite Hsel in H. apply sel_after_latch_origin. exact H.
    + destruct He as (_ & _ & Hsel). rewrite Hsel in H. apply sel_after_latch_origin. exact H.
  - destruct (request_effects_exact_tcp s la src k Hc) as (_ & _ & _ & _ & _ & _ & _ & _ & He).
    cbn zeta in He. destruct (tcp_applies s KTcp).
    + destruct He as (_ & He).
      destruct (find_local_tcp (a_locals s) la) as [l|]; [destruct (find_remote (remotes_after s KTcp src) src) as [r|] eqn:F|].
      * destruct He as (_ & Hsel). rewrite Hsel in H. inversion H; subst. right. cbn [p_remote]. exact (find_remote_addr _ _ _ F).
      * destruct He as (_ & Hsel). rewrite Hsel in H. apply sel_after_latch_origin. exact H.
      * destruct He as (_ & Hsel). rewrite Hsel in H. apply sel_after_latch_origin. exact H.
    + destruct He as (_ & _ & Hsel). rewrite Hsel in H. apply sel_after_latch_origin. exact H.
Qed.

Lemma successes_In : forall d r nom acc p, In p (successes r nom d acc) ->
  In p acc \/ exists t v, In (t, v) d /\ t_pair t = p.
Proof.
  induction d as [|[t ok] rest IH]; intros r nom acc p H; cbn [successes] in H; [left; exact H|].
  destruct ((t_round t =? r) && Bool.eqb (t_nom t) nom && ok && negb (has_pair (t_pair t) acc)).
  - apply IH in H as [H|(t' & v & Hi & Hp)].
    + apply in_app_or in H as [H|[H|[]]]; [left; exact H|]. right. exists t, ok. split; [left; reflexivity | exact H].
    + right. exists t', v. split; [right; exact Hi | exact Hp].
  - apply IH in H as [H|(t' & v & Hi & Hp)]; [left; exact H|]. right. exists t', v. split; [right; exact Hi | exact Hp].
Qed.

Lemma insert_desc_In : forall role q l p, In p (insert_desc role q l) -> p = q \/ In p l.
Proof.
  induction l as [|x r IH]; intros p H; cbn [insert_desc] in H.
  - destruct H as [H|[]]; left; auto.
  - destruct (pair_prio q role <? pair_prio x role).
    + destruct H as [H|H]; [right; left; exact H|]. apply IH in H as [H|H]; [left; exact H | right; right; exact H].
    + destruct H as [H|H]; [left; auto | right; exact H].
Qed.

Lemma sort_desc_In : forall role l p, In p (sort_desc role l) -> In p l.
Proof.
  induction l as [|x r IH]; intros p H; cbn [sort_desc] in H; [exact H|].
  apply insert_desc_In in H as [H|H]; [left; auto | right; apply IH; exact H].
Qed.

Lemma round_pairs_In : forall r l p, In p (round_pairs r l) -> exists r', In (r', round_pairs r l) l.
Proof.
  induction l as [|[r' ps] rest IH]; intros p H; cbn [round_pairs] in *; [contradiction|].
  destruct (r' =? r).
  - exists r'. left. reflexivity.
  - destruct (IH p H) as [r'' Hr]. exists r''. right. exact Hr.
Qed.

Lemma successes_trusted : forall T s r nom p, Inv T s ->
  In p (sort_desc (a_role s) (successes r nom (a_done s) [])) -> In (c_addr (p_remote p)) T.
Proof.
  intros T s r nom p HI H. apply sort_desc_In in H. apply successes_In in H as [[]|(t & v & Hi & Hp)].
  subst. exact (inv_done T s HI t v Hi).
Qed.

Lemma Inv_round_done : forall T s r, Inv T s -> Inv T (round_done s r).
Proof.
  intros T s r HI. pose proof (successes_trusted T s r false) as Hs. specialize (fun p => Hs p HI).
  destruct HI as [H1 H2 H3 H4 H5].
  unfold round_done in *.
  destruct (sort_desc (a_role s) (successes r false (a_done s) [])) as [|best rest] eqn:S.
  - constructor; cbn; intros; eauto.
    + apply filter_In in H as [H _]. eauto.
    + apply filter_In in H as [H _]. eauto.
  - destruct (a_role s).
    + constructor; cbn; intros; eauto.
      * apply filter_In in H as [H _]. eauto.
      * apply in_app_or in H as [H|[H|[]]].
        -- apply filter_In in H as [H _]. eauto.
        -- inversion H; subst. apply Hs. exact H0.
    + cbn [set_txns a_nominated]. destruct (is_some (a_nominated s)).
      * constructor; cbn; intros; eauto.
        -- apply filter_In in H as [H _]. eauto.
        -- apply filter_In in H as [H _]. eauto.
      * assert (Hb : In (c_addr (p_remote best)) T) by (apply Hs; left; reflexivity).
        destruct (c_tcp (p_local best)); constructor; cbn; intros; eauto.
        -- inversion H; subst. exact Hb.
        -- apply filter_In in H as [H _]. eauto.
        -- apply filter_In in H as [H _]. eauto.
        -- inversion H; subst. exact Hb.
        -- apply filter_In in H as [H _]. eauto.
        -- apply filter_In in H as [H _]. eauto.
Qed.

Lemma Inv_nom_done : forall T s r, Inv T s -> Inv T (nom_done s r).
Proof.
  intros T s r HI. pose proof (successes_trusted T s r true) as Hs. specialize (fun p => Hs p HI).
  destruct HI as [H1 H2 H3 H4 H5].
  unfold nom_done in *. destruct (round_pairs r (a_rounds s)) as [|first rest] eqn:R.
  - constructor; assumption.
  - assert (Hf : In (c_addr (p_remote first)) T).
    { destruct (round_pairs_In r (a_rounds s) first) as [r' Hr]; [rewrite R; left; reflexivity|].
      rewrite R in Hr. eapply H5; [exact Hr | left; reflexivity]. }
    destruct (sort_desc (a_role s) (successes r true (a_done s) [])) as [|best rest'] eqn:S.
    + constructor; cbn; intros; eauto.
      * inversion H; subst. exact Hf.
      * apply filter_In in H as [H _]. eauto.
      * apply filter_In in H as [H _]. eauto.
      * apply filter_In in H as [H _]. eauto.
    + assert (Hb : In (c_addr (p_remote best)) T) by (apply Hs; left; reflexivity).
      constructor; cbn; intros; eauto.
      * inversion H; subst. exact Hb.
      * apply filter_In in H as [H _]. eauto.
      * apply filter_In in H as [H _]. eauto.
      * apply filter_In in H as [H _]. eauto.
Qed.

Lemma Inv_on_packet : forall T s sk la src k, Inv T s ->
  Inv (T ++ match classify k with CReq => [src] | _ => [] end) (fst (on_packet s sk la src k)).
Proof.
  intros T s sk la src k HI. destruct (classify k) eqn:Hc.
  - unfold on_packet; rewrite Hc; cbn [fst]. rewrite app_nil_r. exact HI.
  - unfold on_packet; rewrite Hc; cbn [fst]. rewrite app_nil_r. exact HI.
  - (* request *)
    destruct (request_common s sk la src k Hc) as (Hp & Hd & Hr & _).
    cbn zeta in *. destruct HI as [H1 H2 H3 H4 H5]. constructor.
    + intros c H. apply (request_remotes_origin s sk la src k c Hc) in H as [H|H]; apply in_or_app;
        [left; eauto | right; left; auto].
    + intros p H. apply (request_selected_origin s sk la src k p Hc) in H as [H|H]; apply in_or_app;
        [left; eauto | right; left; auto].
    + intros t H. rewrite Hp in H. apply in_or_app; left; eauto.
    + intros t v H. rewrite Hd in H. apply in_or_app; left; eauto.
    + intros r ps p H Hin. rewrite Hr in H. apply in_or_app; left; eauto.
  - rewrite app_nil_r. unfold on_packet; rewrite Hc. unfold on_response.
    destruct (lookup (k_tx k) (a_pending s)) as [t1|] eqn:L; cbn [fst]; [|exact HI].
    destruct HI as [H1 H2 H3 H4 H5]. constructor; cbn; intros; eauto.
    + apply In_remove_tx in H. eauto.
    + apply in_app_or in H as [H|[H|[]]]; [eauto|]. inversion H; subst. apply H3. exact (proj1 (lookup_In _ _ _ L)).
  - rewrite app_nil_r. unfold on_packet; rewrite Hc. unfold on_response.
    destruct (lookup (k_tx k) (a_pending s)) as [t1|] eqn:L; cbn [fst]; [|exact HI].
    destruct HI as [H1 H2 H3 H4 H5]. constructor; cbn; intros; eauto.
    + apply In_remove_tx in H. eauto.
    + apply in_app_or in H as [H|[H|[]]]; [eauto|]. inversion H; subst. apply H3. exact (proj1 (lookup_In _ _ _ L)).
  - unfold on_packet; rewrite Hc; cbn [fst]. rewrite app_nil_r. exact HI.
Qed.

Lemma Inv_step : forall acc onp T s o, refines acc onp -> Inv T s -> env_ok_op s o ->
  Inv (T ++ trusted_op acc o) (fst (step_with onp s o)).
Proof.
  intros acc onp T s o Href HI Henv.
  destruct o as [sk la src k|t0|id|r|r| |c|p|rl]; cbn [step_with fst trusted_op].
  - destruct (Href s sk la src k) as [Hsame|[Heq Hacc]].
    + rewrite Hsame. eapply Inv_mono; [|exact HI]. apply incl_appl, incl_refl.
    + rewrite Heq. pose proof (Inv_on_packet T s sk la src k HI) as H.
      destruct (classify k) eqn:Hc; try exact H. rewrite (Hacc eq_refl). exact H.
  - rewrite app_nil_r. cbn [env_ok_op] in Henv. destruct Henv as (c & Hc & Ha).
    destruct HI as [H1 H2 H3 H4 H5]. constructor; cbn; intros; eauto.
    apply in_app_or in H as [H|[H|[]]].
    + apply In_remove_tx in H. eauto.
    + subst. rewrite <- Ha. eauto.
  - rewrite app_nil_r. destruct HI as [H1 H2 H3 H4 H5]. constructor; cbn; intros; eauto.
    apply In_remove_tx in H. eauto.
  - rewrite app_nil_r. apply Inv_round_done. exact HI.
  - rewrite app_nil_r. apply Inv_nom_done. exact HI.
  - rewrite app_nil_r. destruct HI as [H1 H2 H3 H4 H5]. constructor; cbn; intros; eauto.
  - destruct HI as [H1 H2 H3 H4 H5]. constructor; cbn; intros; try (apply in_or_app; left; eauto; fail).
    apply in_app_or in H as [H|[H|[]]]; apply in_or_app; [left; eauto | right; left; subst; reflexivity].
  - destruct HI as [H1 H2 H3 H4 H5]. constructor; cbn; intros; try (apply in_or_app; left; eauto; fail).
    inversion H; subst. apply in_or_app. right. left. reflexivity.
  - rewrite app_nil_r. destruct HI as [H1 H2 H3 H4 H5]. constructor; cbn; intros; eauto.
Qed.

Lemma Inv_run : forall acc onp, refines acc onp -> forall ops T s,
  Inv T s -> env_ok onp s ops -> Inv (T ++ trusted acc ops) (run_with onp s ops).
Proof.
  intros acc onp Href. induction ops as [|o r IH]; intros T s HI Henv.
  - cbn. rewrite app_nil_r. exact HI.
  - rewrite run_with_cons. cbn [trusted env_ok] in *. destruct Henv as [H0 Hr].
    rewrite app_assoc. apply IH; [|exact Hr]. apply (Inv_step acc onp T s o Href HI H0).
Qed.

Lemma Inv_init : forall role lat locs, Inv [] (init role lat locs).
Proof. intros. constructor; cbn; intros; try contradiction; discriminate. Qed.

(* in every history every remote candidate, and the remote end of the selected pair, has an
   address that was signalled, chosen through the API, or is the source of a request the handler
   admitted.  For the code every request is admitted; for the guarded variant only authenticated
   ones are. *)
Theorem addresses_origin : forall acc onp, refines acc onp -> forall role lat locs ops,
  env_ok onp (init role lat locs) ops ->
  let s := run_with onp (init role lat locs) ops in
  (forall c, In c (a_remotes s) -> In (c_addr c) (trusted acc ops)) /\
  (forall p, a_selected s = Some p -> In (c_addr (p_remote p)) (trusted acc ops)).
Proof.
  intros acc onp Href role lat locs ops Henv.
  pose proof (Inv_run acc onp Href ops [] _ (Inv_init role lat locs) Henv) as [H1 H2 _ _ _].
  cbn [app] in *. split; assumption.
Qed.

Theorem addresses_origin_code : forall role lat locs ops,
  env_ok on_packet (init role lat locs) ops ->
  let s := run (init role lat locs) ops in
  (forall c, In c (a_remotes s) -> In (c_addr c) (trusted (fun _ => true) ops)) /\
  (forall p, a_selected s = Some p -> In (c_addr (p_remote p)) (trusted (fun _ => true) ops)).
Proof. intros. apply (addresses_origin _ _ faithful_refines). assumption. Qed.

Theorem addresses_origin_guarded : forall role lat locs ops,
  env_ok on_packet_guarded (init role lat locs) ops ->
  let s := run_guarded (init role lat locs) ops in
  (forall c, In c (a_remotes s) -> In (c_addr c) (trusted authenticated ops)) /\
  (forall p, a_selected s = Some p -> In (c_addr (p_remote p)) (trusted authenticated ops)).
Proof. intros. apply (addresses_origin _ _ guarded_refines). assumption. Qed.

(* the difference is real: in the F18 history the stranger's address is the selected remote
   address although it is not trusted in the authenticated sense *)
Example f18_history_untrusted :
  let ops := [ApiStart; Pkt KUdp (2130706433, 50000) f18_stranger f18_request] in
  let s := run (init IceRole_Controlled false [f18_local]) ops in
  option_map (fun p => c_addr (p_remote p)) (a_selected s) = Some f18_stranger /\
  trusted authenticated ops = [] /\
  a_selected (run_guarded (init IceRole_Controlled false [f18_local]) ops) = None.
Proof. vm_compute. repeat split. Qed.

(* ------------------------------------------------------------------ shared UDP mux: a filter in front of the same handler *)
Lemma mux_step_agent : forall m s o,
  snd (fst (mux_step (m, s) o)) = s \/ snd (fst (mux_step (m, s) o)) = fst (step s o).
Proof.
  intros m s o. destruct o as [sk la src k| | | | | | | |]; cbn [mux_step];
    try (right; destruct (step s _); reflexivity).
  destruct (mux_route m src k) as [m' d]. destruct d.
  - right. destruct (step s (Pkt sk la src k)); reflexivity.
  - left. reflexivity.
Qed.

(* a history seen through the mux is the history of the plain agent on the operations the
   demux lets through: every history theorem above applies to mux_kept m ops *)
Theorem mux_history : forall ops m s, snd (mux_run (m, s) ops) = run s (mux_kept m ops).
Proof.
  induction ops as [|o r IH]; intros m s; [reflexivity|].
  unfold mux_run. cbn [fold_left]. fold (mux_run (fst (mux_step (m, s) o)) r).
  destruct o as [sk la src k|t|id|rd|rd| |c|p|rl]; cbn [mux_step mux_kept];
    try (destruct (step s _) as [s' out] eqn:E; cbn [fst]; rewrite IH; unfold run; rewrite run_with_cons;
         fold step; rewrite E; reflexivity).
  destruct (mux_route m src k) as [m' d]. destruct d.
  - destruct (step s (Pkt sk la src k)) as [s' out] eqn:E. cbn [fst]. rewrite IH.
    unfold run. rewrite run_with_cons. fold step. rewrite E. reflexivity.
  - cbn [fst]. apply IH.
Qed.

(* what the demux adds on top: a datagram from an unrecorded source reaches the agent only if
   it is a Binding request whose USERNAME names this session's ufrag *)
Theorem mux_stranger_needs_ufrag : forall m s sk la src k,
  mux_get m src = None ->
  snd (fst (mux_step (m, s) (Pkt sk la src k))) <> s ->
  mux_extracts k = true /\ k_ufrag k = 1 /\ classify k = CReq.
Proof.
  intros m s sk la src k Hg Hne. cbn [mux_step] in Hne. unfold mux_route in Hne.
  destruct (mux_extracts k) eqn:E.
  - destruct (k_ufrag k =? 1) eqn:U.
    + apply Z.eqb_eq in U. repeat split; auto.
      unfold mux_extracts in E. repeat (apply andb_true_iff in E as [E ?]).
      unfold classify.
      replace (k_b0 k <? stun_first_byte_lt) with true by (symmetry; exact E).
      rewrite H2.
      apply Z.eqb_eq in H1, H0.
      assert (Hm : Z.land (k_type k) METHOD_MASK = 1) by exact H1.
      assert (Hc : Z.land (k_type k) CLASS_MASK = 0) by exact H0.
      rewrite Hm, Hc. reflexivity.
    + cbn [fst snd] in Hne. contradiction.
  - rewrite Hg in Hne. cbn [fst snd] in Hne. contradiction.
Qed.

(* ------------------------------------------------------------------ only responses touch the transaction table *)
(* a datagram that is not a success / error response -- a request, an indication, anything
   undecodable or non-STUN -- leaves pending transactions, results and rounds as they are, even if
   it carries the transaction id of an outstanding transaction (e.g. the agent's own check looped
   back by a reflector) *)
Theorem only_responses_touch_transactions : forall s sk la src k, ~ is_response k ->
  let s' := fst (on_packet s sk la src k) in
  a_pending s' = a_pending s /\ a_done s' = a_done s /\ a_rounds s' = a_rounds s.
Proof.
  intros s sk la src k Hn. destruct (classify k) eqn:Hc.
  - unfold on_packet; rewrite Hc; cbn. auto.
  - unfold on_packet; rewrite Hc; cbn. auto.
  - apply request_keeps_transactions. exact Hc.
  - exfalso. apply Hn. left. exact Hc.
  - exfalso. apply Hn. right. exact Hc.
  - unfold on_packet; rewrite Hc; cbn. auto.
Qed.

Example echoed_check_keeps_transaction :
  let t := mkTxn 7 (mkPair f18_local (prflx f18_stranger)) false 1 in
  let s := launch f18_agent t in
  let echo_req := mkPkt 0 1 true 7 false true false true false 5 2 in
  let echo_ind := mkPkt 0 17 true 7 false true false true false 5 2 in
  lookup 7 (a_pending (fst (on_packet s KUdp (2130706433, 50000) f18_stranger echo_req))) = Some t /\
  lookup 7 (a_pending (fst (on_packet s KUdp (2130706433, 50000) f18_stranger echo_ind))) = Some t.
Proof. vm_compute. split; reflexivity. Qed.
