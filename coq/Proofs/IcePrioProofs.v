(* C16 -- ICE candidate and candidate-pair priorities.
   The functions are the *generated* translations of IceCandidate::priority_for,
   IceCandidate::priority_for_tcp and IceCandidatePair::priority (Gen/IcePrio.v). *)
From Coq Require Import ZArith Lia Bool List.
From RV Require Import Lib.Wrap.
From RV Require Import Gen.IcePrio.
Import ListNotations.
Open Scope Z_scope.

Ltac Zify.zify_post_hook ::= Z.div_mod_to_equations.

Definition u32 (x : Z) : Prop := 0 <= x < 2 ^ 32.
Definition U32_MAX : Z := 2 ^ 32 - 1.
Definition U64_MAX : Z := 2 ^ 64 - 1.

(* RFC 8445 section 6.1.2.3: G = priority of the controlling agent's candidate, D = controlled's *)
Definition rfc_pair (G D : Z) : Z :=
  2 ^ 32 * Z.min G D + 2 * Z.max G D + (if G >? D then 1 else 0).

(* who is G and who is D, seen from an agent with the given role *)
Definition rfc_pair_for (local remote : Z) (role : IceRole) : Z :=
  match role with
  | IceRole_Controlling => rfc_pair local remote
  | IceRole_Controlled => rfc_pair remote local
  end.

(* ---- symmetry: holds by computation for all integers, no range condition needed *)
Lemma pair_symmetry : forall l r,
  pair_priority l r IceRole_Controlling = pair_priority r l IceRole_Controlled.
Proof. intros l r. reflexivity. Qed.

Lemma pair_symmetry' : forall l r,
  pair_priority l r IceRole_Controlled = pair_priority r l IceRole_Controlling.
Proof. intros l r. reflexivity. Qed.

(* ---- the value: the RFC formula, saturated at u64::MAX *)
Lemma pair_priority_value : forall l r role, u32 l -> u32 r ->
  pair_priority l r role = Z.min U64_MAX (rfc_pair_for l r role).
Proof.
  intros l r role Hl Hr. unfold u32 in *.
  unfold pair_priority, rfc_pair_for, rfc_pair, U64_MAX.
  change (2 ^ 32) with 4294967296 in *. change (2 ^ 64) with 18446744073709551616.
  unfold cast_u64, sat_u64, wrapu, satu.
  change (Z.shiftl 1 32) with 4294967296.
  change (2 ^ 64) with 18446744073709551616.
  rewrite (Z.mod_small l) by lia. rewrite (Z.mod_small r) by lia.
  rewrite (Z.mod_small 4294967296) by lia.
  destruct role.
  - destruct (Z.gtb_spec l r) as [Hgt | Hle].
    + rewrite (Z.mod_small (4294967296 * Z.min l r)) by lia.
      rewrite (Z.mod_small (2 * Z.max l r)) by lia.
      rewrite (Z.mod_small (2 * Z.max l r + 1)) by lia. lia.
    + rewrite (Z.mod_small (4294967296 * Z.min l r)) by lia.
      rewrite (Z.mod_small (2 * Z.max l r)) by lia.
      rewrite (Z.mod_small (2 * Z.max l r + 0)) by lia. lia.
  - destruct (Z.gtb_spec r l) as [Hgt | Hle].
    + rewrite (Z.mod_small (4294967296 * Z.min r l)) by lia.
      rewrite (Z.mod_small (2 * Z.max r l)) by lia.
      rewrite (Z.mod_small (2 * Z.max r l + 1)) by lia. lia.
    + rewrite (Z.mod_small (4294967296 * Z.min r l)) by lia.
      rewrite (Z.mod_small (2 * Z.max r l)) by lia.
      rewrite (Z.mod_small (2 * Z.max r l + 0)) by lia. lia.
Qed.

(* the formula exceeds u64 exactly when both priorities are u32::MAX *)
Lemma rfc_pair_overflow_iff : forall g d, u32 g -> u32 d ->
  (U64_MAX < rfc_pair g d <-> g = U32_MAX /\ d = U32_MAX).
Proof.
  intros g d Hg Hd. unfold u32, rfc_pair, U64_MAX, U32_MAX in *.
  change (2 ^ 32) with 4294967296 in *. change (2 ^ 64) with 18446744073709551616.
  destruct (Z.gtb_spec g d); lia.
Qed.

(* so: exactly the RFC 8445 value whenever it is representable *)
Lemma pair_priority_formula : forall l r role, u32 l -> u32 r ->
  ~ (l = U32_MAX /\ r = U32_MAX) ->
  pair_priority l r role = rfc_pair_for l r role.
Proof.
  intros l r role Hl Hr Hne. rewrite pair_priority_value by assumption.
  assert (H : rfc_pair_for l r role <= U64_MAX).
  { destruct role; cbn [rfc_pair_for].
    - pose proof (rfc_pair_overflow_iff l r Hl Hr) as [H1 _]. lia.
    - pose proof (rfc_pair_overflow_iff r l Hr Hl) as [H1 _]. lia. }
  lia.
Qed.

Lemma pair_priority_saturated : forall role,
  pair_priority U32_MAX U32_MAX role = U64_MAX.
Proof. intros []; vm_compute; reflexivity. Qed.

(* priorities that respect RFC 8445 section 5.1.2 (1 .. 2^31-1) are never saturated *)
Lemma pair_priority_formula_rfc_range : forall l r role,
  1 <= l <= 2 ^ 31 - 1 -> 1 <= r <= 2 ^ 31 - 1 ->
  pair_priority l r role = rfc_pair_for l r role.
Proof.
  intros l r role Hl Hr. change (2 ^ 31) with 2147483648 in *.
  apply pair_priority_formula; unfold u32, U32_MAX; change (2 ^ 32) with 4294967296; lia.
Qed.

(* the implemented value is monotone in the RFC value (saturation keeps the order, non-strictly) *)
Lemma pair_priority_monotone : forall l1 r1 l2 r2 role, u32 l1 -> u32 r1 -> u32 l2 -> u32 r2 ->
  rfc_pair_for l1 r1 role <= rfc_pair_for l2 r2 role ->
  pair_priority l1 r1 role <= pair_priority l2 r2 role.
Proof.
  intros. rewrite !pair_priority_value by assumption. lia.
Qed.

(* ---- both agents order the pairs identically.
   Agent A (controlling) holds the pairs (local a_i, remote b_i); agent B (controlled) holds the
   mirrored pairs (local b_i, remote a_i).  The sort keys coincide element-wise, so every
   comparison, and hence every key-based sort (check list order, nomination), coincides. *)
Definition keys_controlling (ps : list (Z * Z)) : list Z :=
  map (fun p => pair_priority (fst p) (snd p) IceRole_Controlling) ps.
Definition keys_controlled_mirrored (ps : list (Z * Z)) : list Z :=
  map (fun p => pair_priority (snd p) (fst p) IceRole_Controlled) ps.

Lemma pair_keys_agree : forall ps, keys_controlling ps = keys_controlled_mirrored ps.
Proof. intros ps. unfold keys_controlling, keys_controlled_mirrored. apply map_ext. intros [a b]. reflexivity. Qed.

Lemma pair_order_agree : forall a1 b1 a2 b2,
  (pair_priority a1 b1 IceRole_Controlling ?= pair_priority a2 b2 IceRole_Controlling) =
  (pair_priority b1 a1 IceRole_Controlled ?= pair_priority b2 a2 IceRole_Controlled).
Proof. intros. reflexivity. Qed.

(* ---- candidate priorities: RFC 8445 section 5.1.2.1
       priority = 2^24 * type preference + 2^8 * local preference + (256 - component ID)
   with the RECOMMENDED type preferences of section 5.1.2.2 and, for TCP, the RFC 6544 4.2 style
   local preferences the code uses (passive > active > so). *)
Definition rfc_type_pref (t : IceCandidateType) : Z :=
  match t with
  | IceCandidateType_Host => 126
  | IceCandidateType_PeerReflexive => 110
  | IceCandidateType_ServerReflexive => 100
  | IceCandidateType_Relay => 0
  end.
Definition tcp_local_pref (t : TcpType) : Z :=
  match t with TcpType_Passive => 65535 | TcpType_Active => 65534 | TcpType_So => 65533 end.
Definition rfc_cand_priority (type_pref local_pref component : Z) : Z :=
  2 ^ 24 * type_pref + 2 ^ 8 * local_pref + (256 - component).

Definition comps_small : list Z := map Z.of_nat (seq 1 256).

Lemma comps_small_in : forall c, 1 <= c <= 256 -> In c comps_small.
Proof.
  intros c Hc. unfold comps_small. replace c with (Z.of_nat (Z.to_nat c)) by lia.
  apply in_map. apply in_seq. lia.
Qed.

Lemma priority_for_small :
  forallb (fun c => forallb (fun t => priority_for t c =? rfc_cand_priority (rfc_type_pref t) 65535 c)
                            IceCandidateType_all) comps_small = true.
Proof. vm_compute. reflexivity. Qed.

Lemma priority_for_tcp_small :
  forallb (fun c => forallb (fun t => forallb (fun k =>
      priority_for_tcp t c k =? rfc_cand_priority (rfc_type_pref t) (tcp_local_pref k) c) TcpType_all)
                            IceCandidateType_all) comps_small = true.
Proof. vm_compute. reflexivity. Qed.

Lemma all_types : forall t, In t IceCandidateType_all.
Proof. intros []; cbn; tauto. Qed.
Lemma all_tcp : forall k, In k TcpType_all.
Proof. intros []; cbn; tauto. Qed.

(* component is a u16 in the code; component IDs are 1..256 in the RFC, larger values are clamped *)
Lemma priority_for_formula : forall t c, 1 <= c < 2 ^ 16 ->
  priority_for t c = rfc_cand_priority (rfc_type_pref t) 65535 (Z.min c 256).
Proof.
  intros t c Hc. destruct (Z_le_gt_dec c 256) as [Hs | Hb].
  - rewrite Z.min_l by lia.
    pose proof priority_for_small as H. rewrite forallb_forall in H.
    specialize (H c (comps_small_in c ltac:(lia))). rewrite forallb_forall in H.
    specialize (H t (all_types t)). apply Z.eqb_eq in H. exact H.
  - rewrite Z.min_r by lia. unfold priority_for. rewrite Z.min_r by lia.
    destruct t; vm_compute; reflexivity.
Qed.

Lemma priority_for_tcp_formula : forall t c k, 1 <= c < 2 ^ 16 ->
  priority_for_tcp t c k = rfc_cand_priority (rfc_type_pref t) (tcp_local_pref k) (Z.min c 256).
Proof.
  intros t c k Hc. destruct (Z_le_gt_dec c 256) as [Hs | Hb].
  - rewrite Z.min_l by lia.
    pose proof priority_for_tcp_small as H. rewrite forallb_forall in H.
    specialize (H c (comps_small_in c ltac:(lia))). rewrite forallb_forall in H.
    specialize (H t (all_types t)). rewrite forallb_forall in H.
    specialize (H k (all_tcp k)). apply Z.eqb_eq in H. exact H.
  - rewrite Z.min_r by lia. unfold priority_for_tcp. rewrite Z.min_r by lia.
    destruct t, k; vm_compute; reflexivity.
Qed.

(* generated priorities lie in the RFC range 1 .. 2^31-1, hence their pair priorities are exact *)
Lemma priority_for_range : forall t c, 1 <= c < 2 ^ 16 -> 1 <= priority_for t c <= 2 ^ 31 - 1.
Proof.
  intros t c Hc. rewrite priority_for_formula by assumption.
  unfold rfc_cand_priority. change (2 ^ 24) with 16777216. change (2 ^ 8) with 256.
  change (2 ^ 31) with 2147483648. destruct t; cbn [rfc_type_pref]; lia.
Qed.

Lemma priority_for_tcp_range : forall t c k, 1 <= c < 2 ^ 16 -> 1 <= priority_for_tcp t c k <= 2 ^ 31 - 1.
Proof.
  intros t c k Hc. rewrite priority_for_tcp_formula by assumption.
  unfold rfc_cand_priority. change (2 ^ 24) with 16777216. change (2 ^ 8) with 256.
  change (2 ^ 31) with 2147483648. destruct t, k; cbn [rfc_type_pref tcp_local_pref]; lia.
Qed.

(* satisfiability of the premises / concrete values *)
Example priority_host_rtp : priority_for IceCandidateType_Host 1 = 2130706431.
Proof. vm_compute. reflexivity. Qed.
Example pair_priority_example :
  pair_priority 2130706431 1694498815 IceRole_Controlling = 7277816997797167103.
Proof. vm_compute. reflexivity. Qed.
