(* C18 -- proofs about Model/Latch.v *)
From Coq Require Import ZArith List Bool Lia.
From RV Require Import Lib.Wrap Gen.Classify Model.Latch.
Import ListNotations.
Open Scope Z_scope.
Open Scope bool_scope.

(* ------------------------------------------------------------------ basics *)
Lemma addr_eqb_eq a b : addr_eqb a b = true <-> a = b.
Proof.
  destruct a as [a1 a2], b as [b1 b2]; unfold addr_eqb; cbn [fst snd].
  rewrite andb_true_iff, !Z.eqb_eq. split; [intros [-> ->]; reflexivity | intros H; inversion H; auto].
Qed.
Lemma addr_eqb_refl a : addr_eqb a a = true.
Proof. apply addr_eqb_eq; reflexivity. Qed.
Lemma addr_eqb_neq a b : addr_eqb a b = false <-> a <> b.
Proof.
  split; intros H.
  - intros E. apply addr_eqb_eq in E. congruence.
  - destruct (addr_eqb a b) eqn:E; [apply addr_eqb_eq in E; contradiction | reflexivity].
Qed.

Definition wf_op (o : op) : Prop :=
  match o with
  | Recv src _ => port src <> 0
  | SetProbationMax m => 0 <= m <= 255
  | _ => True
  end.

Definition resets (o : op) : bool :=
  match o with ResetLatch | SetRemoteSignaling _ => true | _ => false end.

Definition cands_wf (cs : list cand) : Prop := Forall (fun c => port (c_addr c) <> 0) cs.

Definition Inv (s : st) : Prop :=
  (rtp_latched s = true -> latch_on s = true /\ port (remote s) <> 0) /\
  (0 <= pmax s <= 255) /\
  (forall p, probation s = Some p ->
     0 <= p_total p < p_max p /\ p_max p <= 255 /\ cands_wf (p_cands p) /\ latch_on s = true).

(* ------------------------------------------------------------------ list helpers *)
Lemma observe_addrs cs src seq ts m c :
  In c (observe cs src seq ts m) -> c_addr c = src \/ exists d, In d cs /\ c_addr d = c_addr c.
Proof.
  induction cs as [|d cs IH]; cbn [observe].
  - intros [E|[]]. left. subst c. reflexivity.
  - destruct (addr_eqb (c_addr d) src) eqn:E.
    + intros [Hc|H].
      * left. subst c. cbn. apply addr_eqb_eq; exact E.
      * right; exists c; split; [right; exact H|reflexivity].
    + intros [Hc|H].
      * right; exists c; split; [left; exact Hc|reflexivity].
      * destruct (IH H) as [?|[d' [Hd Ed]]]; [left; assumption|right; exists d'; split; [right; exact Hd|exact Ed]].
Qed.

Lemma observe_nonempty cs src seq ts m : observe cs src seq ts m <> [].
Proof. destruct cs as [|d cs]; cbn [observe]; [discriminate|destruct (addr_eqb _ _); discriminate]. Qed.

Lemma observe_wf cs src seq ts m : cands_wf cs -> port src <> 0 -> cands_wf (observe cs src seq ts m).
Proof.
  intros H Hs. apply Forall_forall. intros c Hc.
  destruct (observe_addrs _ _ _ _ _ _ Hc) as [->|[d [Hd Ed]]]; [exact Hs|].
  rewrite <- Ed. exact (proj1 (Forall_forall _ _) H d Hd).
Qed.

(* fold-based min / max return members of the list *)
Lemma min_first_seq_spec cs :
  match min_first_seq cs with
  | None => cs = []
  | Some b => In b cs /\ forall d, In d cs -> c_first_seq b <= c_first_seq d
  end.
Proof.
  unfold min_first_seq.
  assert (G : forall l acc,
    match fold_left (fun best c => match best with
                           | None => Some c
                           | Some b => if c_first_seq c <? c_first_seq b then Some c else Some b
                           end) l acc with
    | None => acc = None /\ l = []
    | Some r => (In r l \/ acc = Some r) /\
                (forall d, In d l -> c_first_seq r <= c_first_seq d) /\
                (forall b, acc = Some b -> c_first_seq r <= c_first_seq b)
    end).
  { induction l as [|c l IH]; intros acc; cbn [fold_left].
    - destruct acc as [b|]; [|split; reflexivity].
      split; [right; reflexivity|]. split; [intros d []|intros b' E; inversion E; lia].
    - specialize (IH (match acc with None => Some c | Some b => if c_first_seq c <? c_first_seq b then Some c else Some b end)).
      destruct (fold_left _ l _) as [r|] eqn:F.
      + destruct IH as [Hin [Hall Hacc]]. split; [|split].
        * destruct Hin as [Hin|Hin]; [left; right; exact Hin|].
          destruct acc as [b|]; [|inversion Hin; left; left; reflexivity].
          destruct (c_first_seq c <? c_first_seq b); inversion Hin; [left; left; reflexivity|right; reflexivity].
        * intros d [Ed|Hd]; [subst d|apply Hall; exact Hd].
          destruct acc as [b|]; [|apply Hacc; reflexivity].
          destruct (c_first_seq c <? c_first_seq b) eqn:L; [apply Hacc; reflexivity|].
          specialize (Hacc b eq_refl). apply Z.ltb_ge in L. lia.
        * intros b E; subst acc.
          destruct (c_first_seq c <? c_first_seq b) eqn:L; [|apply Hacc; reflexivity].
          specialize (Hacc c eq_refl). apply Z.ltb_lt in L. lia.
      + destruct IH as [E _]. destruct acc as [b|]; [destruct (c_first_seq c <? c_first_seq b)|]; discriminate. }
  specialize (G cs None). destruct (fold_left _ cs None) as [r|].
  - destruct G as [[Hin|E] [Hall _]]; [|discriminate]. split; assumption.
  - apply G.
Qed.

Definition cand_ge (a b : cand) : Prop :=
  c_count b < c_count a \/ (c_count b = c_count a /\ c_first_seq a <= c_first_seq b).

Lemma cand_gt_false a b : cand_gt a b = false -> cand_ge b a.
Proof.
  unfold cand_gt, cand_ge. rewrite orb_false_iff, andb_false_iff.
  intros [H1 H2]. apply Z.ltb_ge in H1.
  destruct H2 as [H2|H2]; [apply Z.eqb_neq in H2; lia | apply Z.ltb_ge in H2; lia].
Qed.
Lemma cand_gt_true a b : cand_gt a b = true -> cand_ge a b.
Proof.
  unfold cand_gt, cand_ge. rewrite orb_true_iff, andb_true_iff.
  intros [H|[H1 H2]]; [apply Z.ltb_lt in H; lia | apply Z.eqb_eq in H1; apply Z.ltb_lt in H2; lia].
Qed.
Lemma cand_ge_refl a : cand_ge a a.
Proof. unfold cand_ge; lia. Qed.
Lemma cand_ge_trans a b c : cand_ge a b -> cand_ge b c -> cand_ge a c.
Proof. unfold cand_ge; lia. Qed.

Lemma max_count_spec cs :
  match max_count cs with
  | None => cs = []
  | Some b => In b cs /\ forall d, In d cs -> cand_ge b d
  end.
Proof.
  unfold max_count.
  assert (G : forall l acc,
    match fold_left (fun best c => match best with
                           | None => Some c
                           | Some b => if cand_gt b c then Some b else Some c
                           end) l acc with
    | None => acc = None /\ l = []
    | Some r => (In r l \/ acc = Some r) /\
                (forall d, In d l -> cand_ge r d) /\
                (forall b, acc = Some b -> cand_ge r b)
    end).
  { induction l as [|c l IH]; intros acc; cbn [fold_left].
    - destruct acc as [b|]; [|split; reflexivity].
      split; [right; reflexivity|]. split; [intros d []|intros b' E; inversion E; apply cand_ge_refl].
    - specialize (IH (match acc with None => Some c | Some b => if cand_gt b c then Some b else Some c end)).
      destruct (fold_left _ l _) as [r|] eqn:F.
      + destruct IH as [Hin [Hall Hacc]]. split; [|split].
        * destruct Hin as [Hin|Hin]; [left; right; exact Hin|].
          destruct acc as [b|]; [|inversion Hin; left; left; reflexivity].
          destruct (cand_gt b c); inversion Hin; [right; reflexivity|left; left; reflexivity].
        * intros d [Ed|Hd]; [subst d|apply Hall; exact Hd].
          destruct acc as [b|]; [|apply Hacc; reflexivity].
          destruct (cand_gt b c) eqn:L; [|apply Hacc; reflexivity].
          specialize (Hacc b eq_refl). apply cand_gt_true in L. eapply cand_ge_trans; eassumption.
        * intros b E; subst acc.
          destruct (cand_gt b c) eqn:L; [apply Hacc; reflexivity|].
          specialize (Hacc c eq_refl). apply cand_gt_false in L. eapply cand_ge_trans; eassumption.
      + destruct IH as [E _]. destruct acc as [b|]; [destruct (cand_gt b c)|]; discriminate. }
  specialize (G cs None). destruct (fold_left _ cs None) as [r|].
  - destruct G as [[Hin|E] [Hall _]]; [|discriminate]. split; assumption.
  - apply G.
Qed.

(* ------------------------------------------------------------------ the documented rules, declaratively *)
Definition spec_winner (p : prob) (w : addr) : Prop :=
  exists c, In c (p_cands p) /\ c_addr c = w /\
    ( (c_marker c = true /\
       forall d, In d (p_cands p) -> c_marker d = true -> c_first_seq c <= c_first_seq d)
    \/ ((forall d, In d (p_cands p) -> c_marker d = false) /\ p_max p <= p_total p /\
        forall d, In d (p_cands p) -> cand_ge c d)
    \/ ((forall d, In d (p_cands p) -> c_marker d = false) /\ p_total p < p_max p /\
        3 <= p_total p /\ 2 <= c_consec c) ).

Lemma winner_sound p w : winner p = Some w -> spec_winner p w.
Proof.
  unfold winner, spec_winner.
  pose proof (min_first_seq_spec (filter c_marker (p_cands p))) as HM.
  destruct (min_first_seq (filter c_marker (p_cands p))) as [mw|].
  - intros E; inversion E; subst w. destruct HM as [Hin Hmin].
    apply filter_In in Hin. destruct Hin as [Hin Hm].
    exists mw. split; [exact Hin|]. split; [reflexivity|]. left. split; [exact Hm|].
    intros d Hd Hdm. apply Hmin. apply filter_In. split; assumption.
  - assert (NoM : forall d, In d (p_cands p) -> c_marker d = false).
    { intros d Hd. destruct (c_marker d) eqn:E; [|reflexivity].
      assert (In d (filter c_marker (p_cands p))) by (apply filter_In; split; assumption).
      rewrite HM in H. destruct H. }
    destruct (p_max p <=? p_total p) eqn:L.
    + pose proof (max_count_spec (p_cands p)) as HX.
      destruct (max_count (p_cands p)) as [b|]; cbn [option_map]; [|discriminate].
      intros E; inversion E; subst w. destruct HX as [Hin Hmax].
      exists b. split; [exact Hin|]. split; [reflexivity|]. right; left.
      split; [exact NoM|]. split; [apply Z.leb_le; exact L|exact Hmax].
    + destruct (latch_rule2_total <=? p_total p) eqn:L2; [|discriminate].
      destruct (find _ (p_cands p)) as [b|] eqn:F; cbn [option_map]; [|discriminate].
      intros E; inversion E; subst w. apply find_some in F. destruct F as [Hin Hc].
      exists b. split; [exact Hin|]. split; [reflexivity|]. right; right.
      split; [exact NoM|]. apply Z.leb_gt in L. apply Z.leb_le in L2. apply Z.leb_le in Hc.
      unfold latch_rule2_total in L2. unfold latch_rule2_consec in Hc. lia.
Qed.

Lemma winner_in p w : winner p = Some w -> exists c, In c (p_cands p) /\ c_addr c = w.
Proof. intros H. destruct (winner_sound _ _ H) as [c [Hin [E _]]]. exists c; split; assumption. Qed.

Lemma winner_timeout p : p_cands p <> [] -> p_max p <= p_total p -> winner p <> None.
Proof.
  intros Hne Hle. unfold winner.
  destruct (min_first_seq _); [discriminate|].
  apply Z.leb_le in Hle. rewrite Hle.
  pose proof (max_count_spec (p_cands p)) as HX.
  destruct (max_count (p_cands p)); cbn [option_map]; [discriminate|contradiction].
Qed.

(* ------------------------------------------------------------------ projections of the setters *)
Lemma accepted_set_remote s a pkt : accepted (set_remote s a) pkt = accepted s pkt.
Proof. reflexivity. Qed.

Definition adopt (s : st) (src : addr) : st := if port (remote s) =? 0 then set_remote s src else s.

Lemma recv_unfold s src pkt :
  pkt <> [] ->
  recv s src pkt =
    let s1 := adopt s src in
    if pkt_is_media pkt && latch_on s1 then
      if pkt_is_rtcp pkt then
        match rtcp_remote s1 with
        | Some r => if negb (addr_eqb src r) && negb (rtcp_latched s1) then set_rtcp s1 (Some src) true else s1
        | None => s1
        end
      else if accepted s1 pkt then latch_rtp s1 (remote s) src pkt else s1
    else s1.
Proof. destruct pkt; [congruence|reflexivity]. Qed.

Lemma accepted_adopt s src pkt : accepted (adopt s src) pkt = accepted s pkt.
Proof. unfold adopt. destruct (port (remote s) =? 0); reflexivity. Qed.

Lemma accepted_nonempty s pkt : accepted s pkt = true -> pkt <> [].
Proof. destruct pkt; [cbn; discriminate|discriminate]. Qed.

Lemma accepted_facts s pkt : accepted s pkt = true ->
  pkt_is_media pkt = true /\ latch_on s = true /\ pkt_is_rtcp pkt = false /\ rtp_latched s = false /\ ssrc_ok s pkt = true.
Proof.
  unfold accepted. rewrite !andb_true_iff, !negb_true_iff. tauto.
Qed.

(* the RTP branch: shape of the result *)
Lemma latch_rtp_cases s cur src pkt :
  let s' := latch_rtp s cur src pkt in
  (* committed *)
  (rtp_latched s' = true /\ probation s' = None /\ rtcp_remote s' = rtcp_remote s /\ rtcp_latched s' = rtcp_latched s /\
   latch_on s' = latch_on s /\ expected s' = expected s /\ pmax s' = pmax s /\
   ( (probation s = None /\ remote s' = (if addr_eqb src cur then remote s else src)) \/
     (exists p, probation s = Some p /\
        let p' := mkProb (observe (p_cands p) src (pkt_seq pkt) (pkt_ts pkt) (pkt_marker pkt)) (sat_u8 (p_total p + 1)) (p_max p) in
        winner p' = Some (remote s')) ))
  \/
  (* still observing *)
  (rtp_latched s' = rtp_latched s /\ rtcp_remote s' = rtcp_remote s /\ rtcp_latched s' = rtcp_latched s /\
   latch_on s' = latch_on s /\ expected s' = expected s /\ pmax s' = pmax s /\
   remote s' = (if addr_eqb src cur then remote s else src) /\
   exists p, probation s = Some p /\
     let p' := mkProb (observe (p_cands p) src (pkt_seq pkt) (pkt_ts pkt) (pkt_marker pkt)) (sat_u8 (p_total p + 1)) (p_max p) in
     winner p' = None /\ probation s' = Some p').
Proof.
  unfold latch_rtp. destruct (probation s) as [p|] eqn:P.
  - destruct (winner _) as [w|] eqn:W.
    + left. destruct (addr_eqb src cur); cbn; repeat split; try reflexivity; right; exists p; (split; [reflexivity|exact W]).
    + right. destruct (addr_eqb src cur); cbn; repeat split; try reflexivity; exists p; (split; [reflexivity|split; [exact W|reflexivity]]).
  - left. destruct (addr_eqb src cur); cbn; repeat split; try reflexivity; try exact P; left; split; reflexivity.
Qed.

(* ------------------------------------------------------------------ invariant *)
Lemma sat_u8_succ t : 0 <= t < 255 -> sat_u8 (t + 1) = t + 1.
Proof. intros H. unfold sat_u8, satu. change (2 ^ 8 - 1) with 255. lia. Qed.

Lemma adopt_remote_port s src : port src <> 0 -> port (remote s) <> 0 \/ remote (adopt s src) = src.
Proof.
  intros _. unfold adopt. destruct (port (remote s) =? 0) eqn:E; [right; reflexivity|left; apply Z.eqb_neq; exact E].
Qed.

Definition PInv (s : st) (p : prob) : Prop :=
  0 <= p_total p < p_max p /\ p_max p <= 255 /\ cands_wf (p_cands p) /\ latch_on s = true.

Lemma Inv_adopt s src : Inv s -> port src <> 0 -> Inv (adopt s src).
Proof.
  intros HI Hs. unfold adopt. destruct (port (remote s) =? 0) eqn:E; [|exact HI].
  destruct HI as [H1 [H2 H3]]. split; [|split].
  - intros L. cbn in L. destruct (H1 L) as [LO _]. split; [exact LO|exact Hs].
  - exact H2.
  - intros p P. cbn in P. exact (H3 p P).
Qed.

Lemma Inv_recv s src pkt : Inv s -> port src <> 0 -> Inv (recv s src pkt).
Proof.
  intros HI Hs. destruct pkt as [|b0 pk]; [exact HI|].
  rewrite recv_unfold by discriminate. cbv zeta.
  pose proof (Inv_adopt s src HI Hs) as HA.
  assert (RA : port (remote s) <> 0 -> remote (adopt s src) = remote s).
  { intros N. unfold adopt. apply Z.eqb_neq in N. rewrite N. reflexivity. }
  assert (RB : port (remote s) = 0 -> remote (adopt s src) = src).
  { intros N. unfold adopt. apply Z.eqb_eq in N. rewrite N. reflexivity. }
  set (s1 := adopt s src) in *.
  destruct (pkt_is_media (b0 :: pk) && latch_on s1); [|exact HA].
  destruct (pkt_is_rtcp (b0 :: pk)).
  - destruct (rtcp_remote s1); [|exact HA].
    destruct (negb (addr_eqb src a) && negb (rtcp_latched s1)); [|exact HA].
    destruct HA as [H1 [H2 H3]]. split; [|split]; [exact H1|exact H2|exact H3].
  - destruct (accepted s1 (b0 :: pk)) eqn:A; [|exact HA].
    destruct (accepted_facts _ _ A) as [_ [Lon [_ [NL _]]]].
    destruct HA as [H1 [H2 H3]].
    pose proof (latch_rtp_cases s1 (remote s) src (b0 :: pk)) as C. cbv zeta in C.
    destruct C as [[L [P [_ [_ [LO [_ [PM R]]]]]]]|[L [_ [_ [LO [_ [PM [R [p [P [W P']]]]]]]]]]].
    + split; [|split].
      * intros _. split; [rewrite LO; exact Lon|].
        destruct R as [[_ R]|[p [P0 W]]].
        -- rewrite R. destruct (addr_eqb src (remote s)) eqn:E; [|exact Hs].
           apply addr_eqb_eq in E.
           destruct (Z.eq_dec (port (remote s)) 0) as [Z0|NZ].
           ++ rewrite (RB Z0). exact Hs.
           ++ rewrite (RA NZ). exact NZ.
        -- destruct (winner_in _ _ W) as [c [Hin Ec]]. cbn [p_cands] in Hin. rewrite <- Ec.
           destruct (H3 p P0) as [_ [_ [WF _]]].
           exact (proj1 (Forall_forall _ _) (observe_wf _ src _ _ _ WF Hs) c Hin).
      * rewrite PM; exact H2.
      * intros p0 P0. rewrite P in P0; discriminate.
    + destruct (H3 p P) as [T [M [WF LO']]].
      split; [|split].
      * intros L2. rewrite L, NL in L2; discriminate.
      * rewrite PM; exact H2.
      * intros p0 P0. rewrite P' in P0. inversion P0; subst p0. cbn [p_total p_max p_cands].
        rewrite sat_u8_succ by lia.
        split; [|split; [exact M|split; [apply observe_wf; assumption|rewrite LO; exact Lon]]].
        split; [lia|].
        destruct (Z_lt_ge_dec (p_total p + 1) (p_max p)) as [Lt|Ge]; [exact Lt|].
        exfalso. revert W. apply winner_timeout; cbn [p_cands p_total p_max].
        -- apply observe_nonempty.
        -- rewrite sat_u8_succ by lia. lia.
Qed.

Lemma Inv_fresh s l :
  (0 <= pmax s <= 255) -> l = true ->
  forall p, (if l && (0 <? pmax s) then Some (mkProb [] 0 (pmax s)) else None) = Some p ->
  0 <= p_total p < p_max p /\ p_max p <= 255 /\ cands_wf (p_cands p).
Proof.
  intros H2 -> p. cbn [andb]. destruct (0 <? pmax s) eqn:PM; [|discriminate].
  intros E; inversion E; subst p. cbn. apply Z.ltb_lt in PM. repeat split; try lia. constructor.
Qed.

Lemma Inv_step s o : Inv s -> wf_op o -> Inv (step s o).
Proof.
  intros HI Hw. destruct o as [src pkt| |x|m| |a|a|a]; cbn [step].
  - apply Inv_recv; assumption.
  - destruct HI as [H1 [H2 H3]].
    destruct (0 <? pmax s) eqn:PM.
    + destruct (probation s) as [p|] eqn:P.
      * split; [|split]; cbn.
        -- intros L. destruct (H1 L) as [_ NZ]. split; [reflexivity|exact NZ].
        -- exact H2.
        -- intros p0 P0. try rewrite P in P0. inversion P0; subst p0.
           destruct (H3 p eq_refl) as [T [M [WF _]]]. repeat split; try assumption; lia.
      * split; [|split]; cbn.
        -- intros L. destruct (H1 L) as [_ NZ]. split; [reflexivity|exact NZ].
        -- exact H2.
        -- intros p0 P0. inversion P0; subst p0. cbn. apply Z.ltb_lt in PM.
           repeat split; try lia. constructor.
    + split; [|split]; cbn.
      * intros L. destruct (H1 L) as [_ NZ]. split; [reflexivity|exact NZ].
      * exact H2.
      * intros p0 P0. discriminate.
  - destruct HI as [H1 [H2 H3]]. split; [|split]; [exact H1|exact H2|exact H3].
  - destruct HI as [H1 [H2 H3]]. cbn in Hw. split; [|split]; [exact H1|cbn; lia|exact H3].
  - destruct HI as [H1 [H2 H3]]. unfold reset_latch, fresh_prob.
    split; [|split]; cbn.
    + discriminate.
    + exact H2.
    + intros p P. destruct (latch_on s) eqn:LO; [|cbn in P; discriminate].
      destruct (Inv_fresh s true H2 eq_refl p P) as [A [B C]]. repeat split; try assumption; try reflexivity; lia.
  - destruct HI as [H1 [H2 H3]]. unfold reset_latch, fresh_prob, set_remote.
    split; [|split]; cbn.
    + discriminate.
    + exact H2.
    + intros p P. destruct (latch_on s) eqn:LO; [|cbn in P; discriminate].
      destruct (Inv_fresh s true H2 eq_refl p P) as [A [B C]]. repeat split; try assumption; try reflexivity; lia.
  - destruct (latch_on s && rtp_latched s && negb (addr_eqb (remote s) a)) eqn:G; [exact HI|].
    destruct HI as [H1 [H2 H3]].
    split; [|split]; cbn; [|exact H2|exact H3].
    intros L. destruct (H1 L) as [LO NZ]. split; [exact LO|]. rewrite LO, L in G. cbn in G.
    apply negb_false_iff in G. apply addr_eqb_eq in G. subst a. exact NZ.
  - destruct HI as [H1 [H2 H3]]. split; [|split]; [exact H1|exact H2|exact H3].
Qed.

Lemma Inv_init a : Inv (init a).
Proof. repeat split; cbn; try lia; discriminate. Qed.

Lemma Inv_run ops : forall s, Inv s -> Forall wf_op ops -> Inv (run s ops).
Proof.
  induction ops as [|o ops IH]; intros s HI HW; [exact HI|].
  inversion HW; subst. cbn [run fold_left]. apply IH; [apply Inv_step|]; assumption.
Qed.

Lemma inv_reachable a ops : Forall wf_op ops -> Inv (run (init a) ops).
Proof. intros H. apply Inv_run; [apply Inv_init|exact H]. Qed.

(* ------------------------------------------------------------------ traffic that takes no part *)
Lemma recv_not_accepted s src pkt :
  port (remote s) <> 0 -> accepted s pkt = false ->
  remote (recv s src pkt) = remote s /\ rtp_latched (recv s src pkt) = rtp_latched s /\
  probation (recv s src pkt) = probation s.
Proof.
  intros NZ NA. destruct pkt as [|b0 pk]; [repeat split|].
  rewrite recv_unfold by discriminate. cbv zeta.
  assert (E : adopt s src = s) by (unfold adopt; apply Z.eqb_neq in NZ; rewrite NZ; reflexivity).
  rewrite E. destruct (pkt_is_media (b0 :: pk) && latch_on s); [|repeat split].
  destruct (pkt_is_rtcp (b0 :: pk)).
  - destruct (rtcp_remote s); [|repeat split].
    destruct (negb (addr_eqb src a) && negb (rtcp_latched s)); repeat split.
  - rewrite NA. repeat split.
Qed.

Lemma rtcp_not_accepted s pkt : pkt_is_rtcp pkt = true -> accepted s pkt = false.
Proof. intros H. unfold accepted. rewrite H. cbn. rewrite !andb_false_r. reflexivity. Qed.

Lemma wrong_ssrc_not_accepted s pkt : expected s <> 0 -> pkt_ssrc pkt <> expected s -> accepted s pkt = false.
Proof.
  intros H1 H2. unfold accepted, ssrc_ok.
  apply Z.eqb_neq in H1. apply Z.eqb_neq in H2. rewrite H1, H2. cbn. apply andb_false_r.
Qed.

Lemma latched_not_accepted s pkt : rtp_latched s = true -> accepted s pkt = false.
Proof. intros H. unfold accepted. rewrite H. cbn. rewrite !andb_false_r. reflexivity. Qed.

(* ------------------------------------------------------------------ sticky *)
Lemma sticky_step s o :
  Inv s -> rtp_latched s = true -> wf_op o -> resets o = false ->
  remote (step s o) = remote s /\ rtp_latched (step s o) = true.
Proof.
  intros HI L HW NR. destruct HI as [H1 _]. destruct (H1 L) as [LO NZ].
  destruct o as [src pkt| |x|m| |a|a|a]; cbn [step]; try discriminate.
  - destruct (recv_not_accepted s src pkt NZ (latched_not_accepted s pkt L)) as [R [L' _]].
    split; [exact R|rewrite L'; exact L].
  - destruct (0 <? pmax s); [destruct (probation s)|]; split; cbn; auto.
  - split; cbn; auto.
  - split; cbn; auto.
  - rewrite LO, L. cbn. destruct (addr_eqb (remote s) a) eqn:E; cbn.
    + apply addr_eqb_eq in E. subst a. split; [reflexivity|exact L].
    + split; [reflexivity|exact L].
  - split; cbn; auto.
Qed.

Lemma sticky_run ops : forall s,
  Inv s -> rtp_latched s = true -> Forall wf_op ops -> Forall (fun o => resets o = false) ops ->
  remote (run s ops) = remote s /\ rtp_latched (run s ops) = true.
Proof.
  induction ops as [|o ops IH]; intros s HI L HW NR; [split; [reflexivity|exact L]|].
  inversion HW; subst. inversion NR; subst. cbn [run fold_left].
  destruct (sticky_step s o HI L H1 H3) as [R L'].
  destruct (IH (step s o) (Inv_step _ _ HI H1) L' H2 H4) as [R2 L2].
  split; [unfold run in R2; rewrite R2; exact R|exact L2].
Qed.

(* ------------------------------------------------------------------ legitimacy *)
Lemma legit_step s src pkt :
  port (remote s) <> 0 -> remote (recv s src pkt) <> remote s ->
  accepted s pkt = true /\
  (remote (recv s src pkt) = src \/
   exists p c, probation s = Some p /\ In c (p_cands p) /\ c_addr c = remote (recv s src pkt)).
Proof.
  intros NZ Ch. destruct (accepted s pkt) eqn:A.
  2:{ destruct (recv_not_accepted s src pkt NZ A) as [R _]. contradiction. }
  split; [reflexivity|].
  pose proof (accepted_nonempty _ _ A) as NE.
  rewrite recv_unfold in * by exact NE. cbv zeta in *.
  assert (E : adopt s src = s) by (unfold adopt; apply Z.eqb_neq in NZ; rewrite NZ; reflexivity).
  rewrite E in *.
  destruct (accepted_facts _ _ A) as [M [LO [NR [NL _]]]].
  rewrite M, LO, NR, A in *. cbn [andb] in *.
  pose proof (latch_rtp_cases s (remote s) src pkt) as C. cbv zeta in C.
  destruct C as [[_ [_ [_ [_ [_ [_ [_ R]]]]]]]|[_ [_ [_ [_ [_ [_ [R _]]]]]]]].
  - destruct R as [[_ R]|[p [P W]]].
    + destruct (addr_eqb src (remote s)); [rewrite R in Ch; contradiction|left; exact R].
    + destruct (winner_in _ _ W) as [c [Hin Ec]]. cbn [p_cands] in Hin.
      destruct (observe_addrs _ _ _ _ _ _ Hin) as [Es|[d [Hd Ed]]].
      * left. rewrite <- Ec. exact Es.
      * right. exists p, d. split; [exact P|]. split; [exact Hd|]. rewrite Ed. exact Ec.
  - destruct (addr_eqb src (remote s)); [rewrite R in Ch; contradiction|left; exact R].
Qed.

(* ghost history: sources of accepted packets since the last reset *)
Definition gstep (g : st * list addr) (o : op) : st * list addr :=
  let s' := step (fst g) o in
  match o with
  | Recv src pkt => (s', if accepted (fst g) pkt then src :: snd g else snd g)
  | ResetLatch | SetRemoteSignaling _ => (s', [])
  | _ => (s', snd g)
  end.

Fixpoint legit_run (g : st * list addr) (ops : list op) : Prop :=
  match ops with
  | [] => True
  | o :: rest =>
      let g' := gstep g o in
      match o with
      | Recv _ _ => port (remote (fst g)) <> 0 -> remote (fst g') <> remote (fst g) -> In (remote (fst g')) (snd g')
      | _ => True
      end /\ legit_run g' rest
  end.

Definition GInv (g : st * list addr) : Prop :=
  forall p c, probation (fst g) = Some p -> In c (p_cands p) -> In (c_addr c) (snd g).

Lemma GInv_step g o : GInv g -> GInv (gstep g o).
Proof.
  intros HG. destruct g as [s l]. unfold GInv in *. cbn [fst snd] in *.
  destruct o as [src pkt| |x|m| |a|a|a]; cbn [gstep fst snd step].
  - destruct (accepted s pkt) eqn:A.
    2:{ intros p c P Hin.
        destruct (Z.eq_dec (port (remote s)) 0) as [Z0|NZ].
        - (* port 0: adopt changes only remote *)
          destruct pkt as [|b0 pk]; [apply (HG p c P Hin)|].
          rewrite recv_unfold in P by discriminate. cbv zeta in P.
          rewrite accepted_adopt, A in P.
          assert (PA : probation (adopt s src) = probation s) by (unfold adopt; destruct (_ =? 0); reflexivity).
          destruct (pkt_is_media (b0 :: pk) && latch_on (adopt s src)).
          + destruct (pkt_is_rtcp (b0 :: pk)).
            * destruct (rtcp_remote (adopt s src)); [destruct (negb _ && negb _)|]; cbn in P; rewrite ?PA in P; apply (HG p c P Hin).
            * rewrite PA in P. apply (HG p c P Hin).
          + rewrite PA in P. apply (HG p c P Hin).
        - destruct (recv_not_accepted s src pkt NZ A) as [_ [_ PE]]. rewrite PE in P. apply (HG p c P Hin). }
    intros p c P Hin.
    pose proof (accepted_nonempty _ _ A) as NE.
    rewrite recv_unfold in P by exact NE. cbv zeta in P.
    destruct (accepted_facts _ _ A) as [M [LO [NR [NL _]]]].
    assert (LA : latch_on (adopt s src) = latch_on s) by (unfold adopt; destruct (_ =? 0); reflexivity).
    assert (PA : probation (adopt s src) = probation s) by (unfold adopt; destruct (_ =? 0); reflexivity).
    rewrite M, LA, LO, NR, accepted_adopt, A in P. cbn [andb] in P.
    pose proof (latch_rtp_cases (adopt s src) (remote s) src pkt) as C. cbv zeta in C.
    destruct C as [[_ [PN _]]|[_ [_ [_ [_ [_ [_ [_ [p0 [P0 [_ P']]]]]]]]]]].
    + rewrite PN in P; discriminate.
    + rewrite P' in P. inversion P; subst p. cbn [p_cands] in Hin.
      destruct (observe_addrs _ _ _ _ _ _ Hin) as [->|[d [Hd Ed]]]; [left; reflexivity|].
      right. rewrite <- Ed. rewrite PA in P0. apply (HG p0 d P0 Hd).
  - intros p c P Hin. destruct (0 <? pmax s); [destruct (probation s) as [p0|] eqn:P0|]; cbn in P.
    + apply (HG p c P Hin).
    + inversion P; subst p. destruct Hin.
    + discriminate.
  - intros p c P Hin. apply (HG p c P Hin).
  - intros p c P Hin. apply (HG p c P Hin).
  - intros p c P Hin. cbn in P. unfold fresh_prob in P.
    destruct (latch_on s && (0 <? pmax s)); [inversion P; subst p; destruct Hin|discriminate].
  - intros p c P Hin. cbn in P. unfold fresh_prob in P.
    destruct (latch_on s && (0 <? pmax s)); [inversion P; subst p; destruct Hin|discriminate].
  - intros p c P Hin. destruct (latch_on s && rtp_latched s && negb (addr_eqb (remote s) a)); apply (HG p c P Hin).
  - intros p c P Hin. apply (HG p c P Hin).
Qed.

Lemma legit_run_all ops : forall g, GInv g -> legit_run g ops.
Proof.
  induction ops as [|o ops IH]; intros g HG; [exact I|].
  cbn [legit_run]. split; [|apply IH; apply GInv_step; exact HG].
  destruct o as [src pkt| |x|m| |a|a|a]; try exact I.
  destruct g as [s l]. cbn [gstep fst snd step]. intros NZ Ch.
  destruct (legit_step s src pkt NZ Ch) as [A [E|[p [c [P [Hin Ec]]]]]].
  - rewrite A, E. left; reflexivity.
  - rewrite A. right. rewrite <- Ec. apply (HG p c P Hin).
Qed.

Lemma legit_from_init a ops : legit_run (init a, []) ops.
Proof. apply legit_run_all. intros p c P. cbn in P. discriminate. Qed.

(* ------------------------------------------------------------------ probation bound *)
Lemma probation_bound s p src pkt :
  Inv s -> port src <> 0 -> probation s = Some p -> accepted s pkt = true ->
  p_max p <= p_total p + 1 -> rtp_latched (recv s src pkt) = true.
Proof.
  intros HI Hs P A Hle.
  pose proof (accepted_nonempty _ _ A) as NE.
  rewrite recv_unfold by exact NE. cbv zeta.
  destruct (accepted_facts _ _ A) as [M [LO [NR [NL _]]]].
  assert (LA : latch_on (adopt s src) = latch_on s) by (unfold adopt; destruct (_ =? 0); reflexivity).
  assert (PA : probation (adopt s src) = probation s) by (unfold adopt; destruct (_ =? 0); reflexivity).
  rewrite M, LA, LO, NR, accepted_adopt, A. cbn [andb].
  pose proof (latch_rtp_cases (adopt s src) (remote s) src pkt) as C. cbv zeta in C.
  destruct C as [[L _]|[_ [_ [_ [_ [_ [_ [_ [p0 [P0 [W _]]]]]]]]]]]; [exact L|].
  exfalso. rewrite PA, P in P0. inversion P0; subst p0.
  destruct HI as [_ [_ H3]]. destruct (H3 p P) as [T [Mx _]].
  revert W. apply winner_timeout; cbn [p_cands p_total p_max].
  - apply observe_nonempty.
  - rewrite sat_u8_succ by lia. lia.
Qed.

Lemma probation_counts s p src pkt p' :
  Inv s -> probation s = Some p -> accepted s pkt = true ->
  probation (recv s src pkt) = Some p' -> p_total p' = p_total p + 1 /\ p_max p' = p_max p.
Proof.
  intros HI P A P'.
  pose proof (accepted_nonempty _ _ A) as NE.
  rewrite recv_unfold in P' by exact NE. cbv zeta in P'.
  destruct (accepted_facts _ _ A) as [M [LO [NR [NL _]]]].
  assert (LA : latch_on (adopt s src) = latch_on s) by (unfold adopt; destruct (_ =? 0); reflexivity).
  assert (PA : probation (adopt s src) = probation s) by (unfold adopt; destruct (_ =? 0); reflexivity).
  rewrite M, LA, LO, NR, accepted_adopt, A in P'. cbn [andb] in P'.
  pose proof (latch_rtp_cases (adopt s src) (remote s) src pkt) as C. cbv zeta in C.
  destruct C as [[_ [PN _]]|[_ [_ [_ [_ [_ [_ [_ [p0 [P0 [_ PP]]]]]]]]]]].
  - rewrite PN in P'; discriminate.
  - rewrite PP in P'. inversion P'; subst p'. rewrite PA, P in P0. inversion P0; subst p0.
    cbn [p_total p_max]. destruct HI as [_ [_ H3]]. destruct (H3 p P) as [T [Mx _]].
    rewrite sat_u8_succ by lia. split; reflexivity.
Qed.

(* ------------------------------------------------------------------ commit is the winner *)
Lemma commit_is_winner s p src pkt :
  probation s = Some p -> accepted s pkt = true -> rtp_latched (recv s src pkt) = true ->
  let p' := mkProb (observe (p_cands p) src (pkt_seq pkt) (pkt_ts pkt) (pkt_marker pkt)) (sat_u8 (p_total p + 1)) (p_max p) in
  spec_winner p' (remote (recv s src pkt)) /\ probation (recv s src pkt) = None.
Proof.
  intros P A L. cbv zeta.
  pose proof (accepted_nonempty _ _ A) as NE.
  rewrite recv_unfold in * by exact NE. cbv zeta in *.
  destruct (accepted_facts _ _ A) as [M [LO [NR [NL _]]]].
  assert (LA : latch_on (adopt s src) = latch_on s) by (unfold adopt; destruct (_ =? 0); reflexivity).
  assert (PA : probation (adopt s src) = probation s) by (unfold adopt; destruct (_ =? 0); reflexivity).
  assert (NLA : rtp_latched (adopt s src) = rtp_latched s) by (unfold adopt; destruct (_ =? 0); reflexivity).
  rewrite M, LA, LO, NR, accepted_adopt, A in *. cbn [andb] in *.
  pose proof (latch_rtp_cases (adopt s src) (remote s) src pkt) as C. cbv zeta in C.
  destruct C as [[_ [PN [_ [_ [_ [_ [_ R]]]]]]]|[L' _]].
  - destruct R as [[P0 _]|[p0 [P0 W]]]; [rewrite PA, P in P0; discriminate|].
    rewrite PA, P in P0. inversion P0; subst p0. split; [apply winner_sound; exact W|exact PN].
  - rewrite L', NLA, NL in L. discriminate.
Qed.

(* ------------------------------------------------------------------ RTCP destination *)
Lemma rtcp_remote_adopt s src : rtcp_remote (adopt s src) = rtcp_remote s /\ rtcp_latched (adopt s src) = rtcp_latched s.
Proof. unfold adopt. destruct (_ =? 0); split; reflexivity. Qed.

Lemma rtcp_once s src pkt :
  rtcp_remote (recv s src pkt) <> rtcp_remote s ->
  pkt_is_rtcp pkt = true /\ rtcp_latched s = false /\ rtcp_latched (recv s src pkt) = true /\
  rtcp_remote (recv s src pkt) = Some src.
Proof.
  intros Ch. destruct pkt as [|b0 pk]; [contradiction|].
  rewrite recv_unfold in * by discriminate. cbv zeta in *.
  destruct (rtcp_remote_adopt s src) as [RA LA].
  destruct (pkt_is_media (b0 :: pk) && latch_on (adopt s src)); [|rewrite RA in Ch; contradiction].
  destruct (pkt_is_rtcp (b0 :: pk)).
  - destruct (rtcp_remote (adopt s src)) as [r|] eqn:RR.
    + destruct (negb (addr_eqb src r) && negb (rtcp_latched (adopt s src))) eqn:G.
      * apply andb_true_iff in G. destruct G as [_ G]. apply negb_true_iff in G. rewrite LA in G.
        repeat split; exact G.
      * congruence.
    + congruence.
  - destruct (accepted (adopt s src) (b0 :: pk)); [|rewrite RA in Ch; contradiction].
    pose proof (latch_rtp_cases (adopt s src) (remote s) src (b0 :: pk)) as C. cbv zeta in C.
    destruct C as [[_ [_ [R _]]]|[_ [R _]]]; rewrite R, RA in Ch; contradiction.
Qed.

Lemma opt_addr_dec (x y : option addr) : {x = y} + {x <> y}.
Proof. decide equality. destruct a as [a1 a2], a0 as [b1 b2]. destruct (Z.eq_dec a1 b1), (Z.eq_dec a2 b2); [left; congruence|right; congruence..]. Qed.

Lemma rtcp_sticky_step s src pkt :
  rtcp_latched s = true -> rtcp_remote (recv s src pkt) = rtcp_remote s /\ rtcp_latched (recv s src pkt) = true.
Proof.
  intros L. split.
  - destruct (opt_addr_dec (rtcp_remote (recv s src pkt)) (rtcp_remote s)) as [E|N]; [exact E|].
    destruct (rtcp_once s src pkt N) as [_ [F _]]. congruence.
  - destruct pkt as [|b0 pk]; [exact L|].
    rewrite recv_unfold by discriminate. cbv zeta.
    destruct (rtcp_remote_adopt s src) as [RA LA].
    destruct (pkt_is_media (b0 :: pk) && latch_on (adopt s src)); [|rewrite LA; exact L].
    destruct (pkt_is_rtcp (b0 :: pk)).
    + destruct (rtcp_remote (adopt s src)); [|rewrite LA; exact L].
      destruct (negb _ && negb _); [reflexivity|rewrite LA; exact L].
    + destruct (accepted (adopt s src) (b0 :: pk)); [|rewrite LA; exact L].
      pose proof (latch_rtp_cases (adopt s src) (remote s) src (b0 :: pk)) as C. cbv zeta in C.
      destruct C as [[_ [_ [_ [R _]]]]|[_ [_ [R _]]]]; rewrite R, LA; exact L.
Qed.

(* ------------------------------------------------------------------ the listed finding: port-0 adoption *)
Lemma port0_adopt_witness :
  exists s src pkt, latch_on s = true /\ expected s <> 0 /\ port src <> 0 /\ pkt_is_rtcp pkt = true /\
                    remote s <> src /\ remote (recv s src pkt) = src.
Proof.
  exists (run (init (0, 0)) [SetExpectedSsrc 287454020; EnableLatch]), (2130706433, 40002), [128; 201; 0; 1; 85; 102; 119; 136].
  vm_compute. repeat split; try discriminate; intros H; inversion H.
Qed.

(* non-vacuity: a reachable state that is in probation and a run that commits through rule 3 *)
Example sticky_premises_hold :
  let s := run (init (1, 5)) [SetProbationMax 2; EnableLatch; Recv (1, 7) [128; 96; 0; 1; 0; 0; 0; 0; 0; 0; 0; 9; 0];
                              Recv (1, 7) [128; 96; 0; 5; 0; 0; 0; 0; 0; 0; 0; 9; 0]] in
  Inv s /\ rtp_latched s = true /\ remote s = (1, 7).
Proof.
  cbv zeta. split; [apply inv_reachable; repeat constructor; cbn; lia|]. vm_compute. split; reflexivity.
Qed.
