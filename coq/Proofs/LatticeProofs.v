(* C10 -- proofs about Model/Lattice.v (negotiation logic of every lattice point).
   Finite facts (the lattice, the five a=setup values, the four profiles) are decided by vm_compute
   and lifted with forallb_forall; the key-split theorems quantify over ALL exporter byte strings. *)
From Coq Require Import ZArith List Bool Lia.
From RV Require Import Lib.Wrap Gen.Nego Model.Lattice.
Import ListNotations.
Open Scope Z_scope.

(* ------------------------------------------------------------------ the lattice *)
Lemma lattice_valid : forall p, In p lattice -> point_valid p = true.
Proof. intros p Hp. unfold lattice in Hp. apply filter_In in Hp. tauto. Qed.

Lemma lattice_compatible : forall p, In p lattice ->
  compatible (offerer_cfg p) (answerer_cfg p) = true /\
  cfg_wf (offerer_cfg p) = true /\ cfg_wf (answerer_cfg p) = true /\ mix_wf (p_mode p) (p_mix p) = true.
Proof.
  intros p Hp. apply lattice_valid in Hp. unfold point_valid in Hp.
  apply andb_true_iff in Hp as [Hp _]. apply andb_true_iff in Hp as [Hp Hc].
  apply andb_true_iff in Hp as [Hp Hm]. apply andb_true_iff in Hp as [Hs Hpp].
  unfold offerer_cfg, answerer_cfg in *. destruct (p_s_offers p); tauto.
Qed.

Lemma lattice_same_mode : forall p, In p lattice -> c_mode (offerer_cfg p) = c_mode (answerer_cfg p).
Proof. intros p _. unfold offerer_cfg, answerer_cfg. destruct (p_s_offers p); reflexivity. Qed.

(* non-vacuity: every transport mode with every media mix it can carry occurs in the lattice, with
   either side offering when a single-sided option is on *)
Definition mode_mix_covered (m : TransportMode) (x : Mix) : bool :=
  negb (mix_wf m x) || existsb (fun p => TransportMode_eqb (p_mode p) m &&
     match p_mix p, x with
     | Mix_data, Mix_data | Mix_audio, Mix_audio | Mix_video, Mix_video | Mix_audio_video, Mix_audio_video
     | Mix_data_audio, Mix_data_audio | Mix_data_video, Mix_data_video
     | Mix_data_audio_video, Mix_data_audio_video => true
     | _, _ => false end) lattice.
Lemma lattice_covers : forallb (fun m => forallb (mode_mix_covered m) Mix_all) TransportMode_all = true.
Proof. vm_compute. reflexivity. Qed.

Example lattice_has_asymmetric_points :
  exists p, In p lattice /\ p_ice_lite p = true /\ p_s_offers p = false /\ p_mode p = TransportMode_Rtp /\
            p_compat p <> p_compat_peer p /\ p_rtcp_mux p <> p_rtcp_mux_peer p.
Proof.
  assert (H : existsb (fun p => p_ice_lite p && negb (p_s_offers p) && TransportMode_eqb (p_mode p) TransportMode_Rtp &&
                       negb (SdpCompatibilityMode_eqb (p_compat p) (p_compat_peer p)) &&
                       negb (RtcpMuxPolicy_eqb (p_rtcp_mux p) (p_rtcp_mux_peer p))) lattice = true) by (vm_compute; reflexivity).
  apply existsb_exists in H. destruct H as [p [Hin H]]. exists p. split; [exact Hin|]. clear Hin.
  repeat (apply andb_true_iff in H; destruct H as [H ?]).
  destruct (p_ice_lite p), (p_s_offers p), (p_mode p), (p_compat p), (p_compat_peer p), (p_rtcp_mux p), (p_rtcp_mux_peer p);
    cbn in *; try discriminate; repeat split; congruence.
Qed.

Example lattice_has_tcp_only_and_dcep :
  existsb (fun p => p_tcp_only p && p_dcep p && p_ice_lite p) lattice = true.
Proof. vm_compute. reflexivity. Qed.

(* two ICE-lite agents, or two different transport modes, are NOT compatible: the predicate is not `true` *)
Example incompatible_examples :
  let a := mkCfg TransportMode_Rtp BundlePolicy_Balanced RtcpMuxPolicy_Require true IceTcpPolicy_Disabled true false false SdpCompatibilityMode_Standard in
  let b := mkCfg TransportMode_Srtp BundlePolicy_Balanced RtcpMuxPolicy_Require false IceTcpPolicy_Disabled true false false SdpCompatibilityMode_Standard in
  let c := mkCfg TransportMode_WebRtc BundlePolicy_Balanced RtcpMuxPolicy_Require false IceTcpPolicy_Enabled false false false SdpCompatibilityMode_Standard in
  let d := mkCfg TransportMode_WebRtc BundlePolicy_Balanced RtcpMuxPolicy_Negotiate false IceTcpPolicy_Disabled true false false SdpCompatibilityMode_LegacySip in
  compatible a a = false /\ compatible a b = false /\ compatible b b = true /\
  compatible c d = false /\ compatible c c = true /\ compatible d d = true.
Proof. vm_compute. repeat split; reflexivity. Qed.

(* ------------------------------------------------------------------ roles *)
Lemma roles_all : forallb roles_ok lattice = true.
Proof. vm_compute. reflexivity. Qed.

Lemma complementary_spec : forall a b, complementary a b = true -> exists x, a = Some x /\ b = Some (negb x).
Proof.
  intros [x|] [y|] H; cbn in H; try discriminate.
  exists x. split; [reflexivity|]. destruct x, y; cbn in H; try discriminate; reflexivity.
Qed.

Theorem roles_complementary :
  forall p, In p lattice -> p_mode p = TransportMode_WebRtc ->
  forall so, In so offer_setups ->
  exists b, offerer_role_for (p_mode p) (Some so) = Some b /\
            answerer_role_for (p_mode p) (Some so) = Some (negb b).
Proof.
  intros p Hp Hm so Hso.
  pose proof roles_all as H. rewrite forallb_forall in H. specialize (H p Hp).
  unfold roles_ok in H. rewrite Hm in H. cbn [is_webrtc TransportMode_eqb negb orb] in H.
  rewrite forallb_forall in H. specialize (H so Hso). rewrite Hm.
  apply complementary_spec. exact H.
Qed.

(* stronger than the property needs: ANY a=setup string in the offer (also `active`, `passive`,
   `holdconn`, garbage) leads to complementary roles, because the answer's a=setup is computed from the
   role the answerer took and the offerer follows the answer *)
Lemma roles_any_setup_b :
  forallb (fun so => complementary (offerer_role_for TransportMode_WebRtc (Some so))
                                   (answerer_role_for TransportMode_WebRtc (Some so))) Setup_all = true.
Proof. vm_compute. reflexivity. Qed.

Lemma Setup_all_complete : forall s, In s Setup_all.
Proof. destruct s; cbn; tauto. Qed.

Theorem roles_complementary_any_offer_setup :
  forall so, exists b, offerer_role_for TransportMode_WebRtc (Some so) = Some b /\
                       answerer_role_for TransportMode_WebRtc (Some so) = Some (negb b).
Proof.
  intros so. pose proof roles_any_setup_b as H. rewrite forallb_forall in H.
  apply complementary_spec. apply H. apply Setup_all_complete.
Qed.

(* the answer's a=setup is always one of the values an answerer emits, and it is never actpass *)
Theorem answer_setup_emittable :
  forall so, exists sa, answer_setup_for TransportMode_WebRtc (Some so) = Some sa /\ In sa answer_setups /\
                        sa <> Setup_actpass.
Proof. intros so. destruct so; eexists; (split; [vm_compute; reflexivity|split; [cbn; tauto|discriminate]]). Qed.

(* where the a=setup value comes from: the first media-level one; the session-level one only when no
   media section carries any (RFC 4145 4 allows either level) *)
Theorem setup_source : forall s media session,
  first_setup (s :: media) session = Some s /\ first_setup [] session = session.
Proof. intros. unfold first_setup. split; [reflexivity|]. cbn. destruct session; reflexivity. Qed.

(* a description rustrtc generated (same value on each of its n >= 1 sections, nothing at session level) is
   read back as exactly that value: `negotiate` may pass the emitted value straight to derive_role *)
Theorem described_setup_read_back : forall so n, 0 < n ->
  first_setup (fst (described_setups so n)) (snd (described_setups so n)) = so.
Proof.
  intros so n Hn. unfold described_setups. destruct so as [s|]; cbn [fst snd]; [|reflexivity].
  destruct (Z.to_nat n) eqn:E; [lia|]. apply setup_source.
Qed.

(* an offer that carries a=setup ONLY at session level (a non-rustrtc offerer) still yields complementary
   roles, for any value: the answerer reads the session-level value, the offerer reads the answer's
   media-level ones *)
Theorem roles_complementary_session_level : forall so n, 0 < n ->
  let ra := derive_role_desc TransportMode_WebRtc None [] (Some so) in
  let d := described_setups (emitted_setup TransportMode_WebRtc Sdp_Answer ra) n in
  let ro := derive_role_desc TransportMode_WebRtc None (fst d) (snd d) in
  exists b, ro = Some b /\ ra = Some (negb b).
Proof.
  intros so n Hn. cbv zeta. unfold derive_role_desc.
  rewrite described_setup_read_back by exact Hn.
  destruct (setup_source so [] (Some so)) as [_ H]. rewrite H.
  destruct (roles_complementary_any_offer_setup so) as [b [H1 H2]]. exists b. split; assumption.
Qed.

(* a role, once taken, is kept by every later description (re-offers emit actpass again) *)
Theorem role_stable : forall m r s, derive_role m (Some r) s = Some r.
Proof. reflexivity. Qed.

(* the hypothesis "the offer carries a=setup" is needed: without it the answerer never gets a role *)
Example no_setup_no_role : answerer_role_for TransportMode_WebRtc None = None /\
                           offerer_role_for TransportMode_WebRtc None = Some false.
Proof. vm_compute. repeat split; reflexivity. Qed.

(* rustrtc WebRtc offers always carry it; direct modes emit none and need none *)
Theorem offer_setup_present : forall p, p_mode p = TransportMode_WebRtc ->
  o_offer_setup (negotiate p) = Some (setup_of_role Sdp_Offer None) /\ In (setup_of_role Sdp_Offer None) offer_setups.
Proof.
  intros p Hm. unfold negotiate, negotiate_c. cbn [o_offer_setup].
  replace (c_mode (offerer_cfg p)) with (p_mode p) by (unfold offerer_cfg; destruct (p_s_offers p); reflexivity).
  rewrite Hm. split; [reflexivity|cbn; tauto].
Qed.

Theorem negotiate_roles : forall p, In p lattice ->
  (p_mode p = TransportMode_WebRtc ->
     exists b, o_role_off (negotiate p) = Some b /\ o_role_ans (negotiate p) = Some (negb b)) /\
  (p_mode p <> TransportMode_WebRtc ->
     o_offer_setup (negotiate p) = None /\ o_answer_setup (negotiate p) = None /\ o_profile (negotiate p) = None).
Proof.
  intros p Hp. split; intros Hm.
  - destruct (roles_complementary p Hp Hm (setup_of_role Sdp_Offer None)) as [b [H1 H2]]; [cbn; tauto|].
    exists b. unfold negotiate, negotiate_c. cbn [o_role_off o_role_ans].
    replace (c_mode (offerer_cfg p)) with (p_mode p) by (unfold offerer_cfg; destruct (p_s_offers p); reflexivity).
    rewrite Hm in *. split; assumption.
  - unfold negotiate, negotiate_c. cbn [o_offer_setup o_answer_setup o_profile].
    replace (c_mode (offerer_cfg p)) with (p_mode p) by (unfold offerer_cfg; destruct (p_s_offers p); reflexivity).
    destruct (p_mode p); try congruence; vm_compute; auto.
Qed.

(* ------------------------------------------------------------------ answers stay within the offer *)
Theorem answer_within_offer : forall off ans x,
  (o_answer_bundle (negotiate_c off ans x) = true -> o_offer_bundle (negotiate_c off ans x) = true) /\
  (o_answer_mux (negotiate_c off ans x) = true -> o_offer_mux (negotiate_c off ans x) = true).
Proof.
  intros off ans x. unfold negotiate_c. cbn [o_answer_bundle o_offer_bundle o_answer_mux o_offer_mux].
  split; intros H.
  - destruct (offer_will_bundle (c_compat off) (mix_sections x)); [reflexivity|].
    destruct (c_compat ans); vm_compute in H; discriminate.
  - apply andb_true_iff in H. tauto.
Qed.

(* on every lattice point -- the two ends may differ in compatibility mode and rtcp-mux policy -- the answer
   keeps exactly the offer's BUNDLE decision, and carries a=rtcp-mux iff the offer does and the answerer's
   own policy offers it *)
Lemma lattice_transport_agreement_b :
  forallb (fun p => let o := negotiate p in
     Bool.eqb (o_answer_bundle o) (o_offer_bundle o) &&
     Bool.eqb (o_answer_mux o)
              (o_offer_mux o && local_offers_rtcp_mux (c_rtcp_mux (answerer_cfg p)) (c_compat (answerer_cfg p)))) lattice = true.
Proof. vm_compute. reflexivity. Qed.

Theorem lattice_transport_agreement : forall p, In p lattice ->
  o_answer_bundle (negotiate p) = o_offer_bundle (negotiate p) /\
  o_answer_mux (negotiate p) =
    (o_offer_mux (negotiate p) && local_offers_rtcp_mux (c_rtcp_mux (answerer_cfg p)) (c_compat (answerer_cfg p)))%bool.
Proof.
  intros p Hp. pose proof lattice_transport_agreement_b as H. rewrite forallb_forall in H. specialize (H p Hp).
  cbv zeta in H. apply andb_true_iff in H as [H1 H2]. split; apply eqb_prop; assumption.
Qed.

(* ------------------------------------------------------------------ transport layout (listed finding C10-F2) *)
(* refuted as stated: in SDES-SRTP mode a non-BUNDLE audio+video description advertises two sockets,
   but the peer applying it configures one transport (aimed at the last section's address) *)
Theorem transport_layout_refuted :
  exists p, In p lattice /\ advertised_transports (p_mode p) (o_offer_bundle (negotiate p)) (p_mix p) <>
    configured_transports (p_mode p) (o_offer_bundle (negotiate p)) (p_mix p).
Proof.
  assert (H : existsb (fun p => negb (Z.eqb (advertised_transports (p_mode p) (o_offer_bundle (negotiate p)) (p_mix p))
                                           (configured_transports (p_mode p) (o_offer_bundle (negotiate p)) (p_mix p))))
                      lattice = true) by (vm_compute; reflexivity).
  apply existsb_exists in H. destruct H as [p [Hin H]]. exists p. split; [exact Hin|].
  apply negb_true_iff in H. apply Z.eqb_neq in H. exact H.
Qed.

(* the strongest true statement: outside exactly that class, on every lattice point, both descriptions
   are applied with the transport layout they advertise *)
Lemma layout_all : forallb (fun p => layout_known_class p || layout_agrees p) lattice = true.
Proof. vm_compute. reflexivity. Qed.

Theorem transport_layout : forall p, In p lattice -> layout_known_class p = false ->
  let o := negotiate p in
  advertised_transports (p_mode p) (o_offer_bundle o) (p_mix p) = configured_transports (p_mode p) (o_offer_bundle o) (p_mix p) /\
  advertised_transports (p_mode p) (o_answer_bundle o) (p_mix p) = configured_transports (p_mode p) (o_answer_bundle o) (p_mix p).
Proof.
  intros p Hp Hk. cbv zeta. pose proof layout_all as H. rewrite forallb_forall in H. specialize (H p Hp).
  rewrite Hk in H. cbn [orb] in H. unfold layout_agrees in H. apply andb_true_iff in H as [H1 H2].
  apply Z.eqb_eq in H1. apply Z.eqb_eq in H2. split; assumption.
Qed.

(* the class is exactly "SDES mode, audio and video, LegacySip offerer (hence no BUNDLE)" *)
Lemma layout_class_char_b : forallb (fun p => Bool.eqb (layout_known_class p)
    (TransportMode_eqb (p_mode p) TransportMode_Srtp && mix_has_audio (p_mix p) && mix_has_video (p_mix p) &&
     SdpCompatibilityMode_eqb (c_compat (offerer_cfg p)) SdpCompatibilityMode_LegacySip)) lattice = true.
Proof. vm_compute. reflexivity. Qed.

(* ------------------------------------------------------------------ negotiated profile *)
Theorem negotiated_profile_known :
  exists c, dtls_client_accepts (dtls_select_profile dtls_offered_profiles) = Some c /\ In c dtls_offered_profiles /\
            In c srtp_profile_codes.
Proof. eexists. vm_compute. split; [reflexivity|]. split; tauto. Qed.

Theorem select_profile_offered : forall l c, dtls_select_profile l = Some c -> In c l.
Proof.
  intros l c H. destruct l as [|x l']; [discriminate|]. unfold dtls_select_profile in H.
  destruct (existsb (Z.eqb 1) (x :: l')) eqn:E.
  - apply existsb_exists in E. destruct E as [y [Hy Hy1]]. apply Z.eqb_eq in Hy1. inversion H. subst. exact Hy.
  - inversion H. subst. left. reflexivity.
Qed.

Theorem profile_default : forall c,
  ~ In c srtp_profile_codes -> srtp_profile_of_code (Some c) = srtp_profile_default.
Proof.
  intros c H. unfold srtp_profile_of_code, srtp_profile_default.
  repeat match goal with
  | |- context [Z.eqb c ?k] => destruct (Z.eqb_spec c k) as [->|_]; [exfalso; apply H; cbn; tauto|]
  end. reflexivity.
Qed.

Theorem profile_default_none : srtp_profile_of_code None = srtp_profile_default.
Proof. reflexivity. Qed.

(* both ends apply the same total function to the same negotiated code: same profile, whatever the code *)
Theorem profile_agree : forall code m1 m2,
  k_profile (derive_srtp true code m1) = k_profile (derive_srtp false code m2).
Proof. intros. unfold derive_srtp. cbv [split_order]. reflexivity. Qed.

(* the private key/salt length tables of setup_srtp and setup_sdes agree with SrtpProfile::{key_len,salt_len} *)
Theorem profile_lens_agree : forall pr,
  dtls_key_len pr = srtp_key_len pr /\ dtls_salt_len pr = srtp_salt_len pr /\
  sdes_key_len pr = srtp_key_len pr /\ sdes_salt_len pr = srtp_salt_len pr.
Proof. destruct pr; vm_compute; auto. Qed.

(* the tables say what the registries say: use_srtp codes (RFC 5764 4.1.2, RFC 7714 14.2), SDES suite
   names (RFC 4568 6.2, RFC 7714 14.1), master key / salt lengths (RFC 3711 8.2: 128 / 112 bits; RFC 7714
   12: 96-bit salt for AEAD_AES_128_GCM) -- so a table that is merely self-consistent does not pass *)
Theorem tables_match_registries :
  srtp_profile_of_code (Some 1) = SrtpProfile_Aes128Sha1_80 /\
  srtp_profile_of_code (Some 2) = SrtpProfile_Aes128Sha1_32 /\
  srtp_profile_of_code (Some 7) = SrtpProfile_AeadAes128Gcm /\
  map_crypto_suite Suite_AES_CM_128_HMAC_SHA1_80 = Some SrtpProfile_Aes128Sha1_80 /\
  map_crypto_suite Suite_AES_CM_128_HMAC_SHA1_32 = Some SrtpProfile_Aes128Sha1_32 /\
  map_crypto_suite Suite_AEAD_AES_128_GCM = Some SrtpProfile_AeadAes128Gcm /\
  (forall pr, srtp_key_len pr = 16) /\
  srtp_salt_len SrtpProfile_Aes128Sha1_80 = 14 /\ srtp_salt_len SrtpProfile_Aes128Sha1_32 = 14 /\
  srtp_salt_len SrtpProfile_AeadAes128Gcm = 12 /\
  sdes_offer_suite = Suite_AES_CM_128_HMAC_SHA1_80 /\
  setup_of_role Sdp_Offer None = Setup_actpass /\
  setup_is_client Setup_active = false /\ setup_is_client Setup_passive = true.
Proof. repeat split; try reflexivity. Qed.

(* ------------------------------------------------------------------ list slicing *)
Lemma firstn_app_skipn {A} : forall n m (l : list A), firstn n l ++ firstn m (skipn n l) = firstn (n + m) l.
Proof.
  induction n as [|n IH]; intros m l; [reflexivity|].
  destruct l as [|a l]; cbn [firstn skipn Nat.add app].
  - destruct m; reflexivity.
  - rewrite IH. reflexivity.
Qed.

Lemma skipn_add {A} : forall a b (l : list A), skipn (a + b) l = skipn b (skipn a l).
Proof.
  induction a as [|a IH]; intros b l; [reflexivity|].
  destruct l as [|x l]; cbn [skipn Nat.add]; [destruct b; reflexivity|apply IH].
Qed.

Lemma slice_tile : forall a b c l, 0 <= a <= b -> b <= c -> slice a b l ++ slice b c l = slice a c l.
Proof.
  intros a b c l Hab Hbc. unfold slice.
  replace (Z.to_nat b) with (Z.to_nat a + Z.to_nat (b - a))%nat by lia.
  rewrite skipn_add, firstn_app_skipn. f_equal. lia.
Qed.

Lemma slice_all : forall l, slice 0 (Z.of_nat (length l)) l = l.
Proof. intros l. unfold slice. cbn [Z.to_nat skipn]. rewrite Z.sub_0_r, Nat2Z.id. apply firstn_all. Qed.

Lemma slice_length : forall a b l, 0 <= a <= b -> b <= Z.of_nat (length l) -> Z.of_nat (length (slice a b l)) = b - a.
Proof.
  intros a b l Hab Hb. unfold slice. rewrite firstn_length, skipn_length. lia.
Qed.

(* ------------------------------------------------------------------ DTLS-SRTP key split *)
(* for BOTH role assignments, ALL profile codes and ALL exporter outputs: what one side protects with,
   the other side unprotects with (same slices of the same exporter output) *)
Theorem keys_mirrored : forall code mat,
  mirrored (derive_srtp true code mat) (derive_srtp false code mat) /\
  mirrored (derive_srtp false code mat) (derive_srtp true code mat).
Proof. intros code mat. unfold mirrored, derive_srtp. cbv [split_order]. cbn. repeat split; reflexivity. Qed.

(* the same role on both ends (the failure C10_roles_complementary excludes) would NOT be mirrored:
   shown on a concrete exporter output, so the mirrored statement has content *)
Example same_role_not_mirrored :
  let mat := map Z.of_nat (seq 0 60) in
  k_tx_key (derive_srtp true (Some 1) mat) <> k_rx_key (derive_srtp true (Some 1) mat).
Proof. vm_compute. discriminate. Qed.

Lemma bounds_concrete : forall pr,
  let kl := dtls_key_len pr in let sl := dtls_salt_len pr in
  slot_bounds Slot_client_key kl sl = (0, kl) /\
  slot_bounds Slot_server_key kl sl = (kl, 2 * kl) /\
  slot_bounds Slot_client_salt kl sl = (2 * kl, 2 * kl + sl) /\
  slot_bounds Slot_server_salt kl sl = (2 * kl + sl, 2 * kl + 2 * sl) /\
  dtls_total_len kl sl = 2 * kl + 2 * sl /\ 0 < kl /\ 0 < sl.
Proof. destruct pr; vm_compute; repeat split; reflexivity. Qed.

(* RFC 5764 4.2 layout: client key | server key | client salt | server salt tile the exporter output
   exactly (nothing shared, nothing unused), each with the profile's length; the client transmits with
   the client_* parts *)
Theorem keys_layout : forall code mat,
  Z.of_nat (length mat) = exporter_len code ->
  let c := derive_srtp true code mat in
  let pr := srtp_profile_of_code code in
  k_tx_key c ++ k_rx_key c ++ k_tx_salt c ++ k_rx_salt c = mat /\
  Z.of_nat (length (k_tx_key c)) = srtp_key_len pr /\ Z.of_nat (length (k_rx_key c)) = srtp_key_len pr /\
  Z.of_nat (length (k_tx_salt c)) = srtp_salt_len pr /\ Z.of_nat (length (k_rx_salt c)) = srtp_salt_len pr.
Proof.
  intros code mat Hlen. cbv zeta. unfold exporter_len in Hlen. unfold derive_srtp.
  set (pr := srtp_profile_of_code code) in *.
  destruct (bounds_concrete pr) as (B1 & B2 & B3 & B4 & BT & Hk & Hs). cbv zeta in *.
  destruct (profile_lens_agree pr) as (L1 & L2 & _ & _). rewrite <- L1, <- L2.
  set (kl := dtls_key_len pr) in *. set (sl := dtls_salt_len pr) in *.
  rewrite BT in Hlen.
  cbv [split_order]. cbn [k_tx_key k_rx_key k_tx_salt k_rx_salt].
  unfold slot_bytes. fold kl sl. rewrite B1, B2, B3, B4.
  split.
  - rewrite (slice_tile (2 * kl) (2 * kl + sl) (2 * kl + 2 * sl)) by lia.
    rewrite (slice_tile kl (2 * kl) (2 * kl + 2 * sl)) by lia.
    rewrite (slice_tile 0 kl (2 * kl + 2 * sl)) by lia.
    rewrite <- Hlen. apply slice_all.
  - repeat split; rewrite slice_length by lia; lia.
Qed.

Example keys_layout_premise_satisfiable :
  Z.of_nat (length (map Z.of_nat (seq 0 60))) = exporter_len (Some 1) /\
  Z.of_nat (length (map Z.of_nat (seq 0 56))) = exporter_len (Some 7).
Proof. vm_compute. repeat split; reflexivity. Qed.

(* ------------------------------------------------------------------ SDES *)
(* A's local key material is B's remote one and vice versa (each side parses the other's a=crypto) *)
Theorem sdes_keys_mirrored : forall pr ka kb,
  mirrored (derive_sdes pr ka kb) (derive_sdes pr kb ka).
Proof. intros. unfold mirrored, derive_sdes. cbv [sdes_tx_source sdes_rx_source sdes_pick]. cbn. repeat split; reflexivity. Qed.

(* RFC 4568 6.1: the key in a=crypto is the key of the party that SENT that description: each side
   transmits with the key of its own description and receives with the key of the peer's *)
Theorem sdes_tx_is_own_key : forall pr local remote,
  let c := derive_sdes pr local remote in
  k_tx_key c = slice 0 (srtp_key_len pr) local /\ k_rx_key c = slice 0 (srtp_key_len pr) remote /\
  k_tx_salt c = slice (srtp_key_len pr) (srtp_key_len pr + srtp_salt_len pr) local /\
  k_rx_salt c = slice (srtp_key_len pr) (srtp_key_len pr + srtp_salt_len pr) remote.
Proof.
  intros pr local remote. cbv zeta. unfold derive_sdes. cbv [sdes_tx_source sdes_rx_source sdes_pick].
  cbn [k_tx_key k_rx_key k_tx_salt k_rx_salt].
  destruct pr; vm_compute; repeat split; reflexivity.
Qed.

Theorem sdes_suite_agree :
  exists pr, map_crypto_suite sdes_round_offer = Some pr /\ map_crypto_suite sdes_round_answer = Some pr.
Proof. eexists. vm_compute. split; reflexivity. Qed.

(* for any offer: the answer's suite is one the offer listed, when the offer lists a known one *)
Theorem sdes_answer_suite_offered : forall remote,
  (exists s, In s remote /\ map_crypto_suite s <> None) ->
  In (sdes_answer_suite remote) remote /\ map_crypto_suite (sdes_answer_suite remote) <> None.
Proof.
  intros remote [s [Hs Hk]]. unfold sdes_answer_suite.
  destruct (find _ remote) as [t|] eqn:F.
  - apply find_some in F. destruct F as [Ht Hkt]. split; [exact Ht|]. destruct (map_crypto_suite t); congruence.
  - exfalso. apply (find_none _ _ F) in Hs. destruct (map_crypto_suite s); [discriminate|congruence].
Qed.

(* the 30 generated bytes are enough for every profile (the "Invalid key length" check passes), and
   key and salt are adjacent, non-overlapping parts of the inline value *)
Theorem sdes_layout : forall pr k,
  Z.of_nat (length k) = sdes_generated_len ->
  let c := derive_sdes pr k k in
  k_tx_key c ++ k_tx_salt c = firstn (Z.to_nat (srtp_key_len pr + srtp_salt_len pr)) k /\
  Z.of_nat (length (k_tx_key c)) = srtp_key_len pr /\ Z.of_nat (length (k_tx_salt c)) = srtp_salt_len pr.
Proof.
  intros pr k Hlen. cbv zeta. unfold derive_sdes. cbv [sdes_tx_source sdes_rx_source sdes_pick].
  cbn [k_tx_key k_tx_salt].
  destruct (profile_lens_agree pr) as (_ & _ & L1 & L2). rewrite <- L1, <- L2.
  assert (H : sdes_key_hi (sdes_key_len pr) (sdes_salt_len pr) = sdes_key_len pr /\
              sdes_salt_lo (sdes_key_len pr) (sdes_salt_len pr) = sdes_key_len pr /\
              sdes_salt_hi (sdes_key_len pr) (sdes_salt_len pr) = sdes_key_len pr + sdes_salt_len pr /\
              0 < sdes_key_len pr /\ 0 < sdes_salt_len pr /\ sdes_key_len pr + sdes_salt_len pr <= sdes_generated_len).
  { destruct pr; vm_compute; repeat split; try reflexivity; discriminate. }
  destruct H as (H1 & H2 & H3 & Hk & Hs & Hg). rewrite H1, H2, H3.
  set (kl := sdes_key_len pr) in *. set (sl := sdes_salt_len pr) in *.
  split.
  - rewrite slice_tile by lia. unfold slice. cbn [Z.to_nat skipn]. rewrite Z.sub_0_r. reflexivity.
  - split; rewrite slice_length by lia; lia.
Qed.
