(* C17 -- proofs about Model/Lifecycle.v *)
From Coq Require Import ZArith List Bool Arith Lia.
From RV Require Import Gen.LifecycleGen Model.Lifecycle.
Import ListNotations.
Open Scope nat_scope.
Open Scope bool_scope.

(* helpers stay folded under cbn; the w_ setters and projections reduce *)
Local Arguments set_reason : simpl never.
Local Arguments report_peer : simpl never.
Local Arguments report_ice : simpl never.
Local Arguments wake_sender : simpl never.
Local Arguments guard_exit : simpl never.
Local Arguments sctp_close_call : simpl never.
Local Arguments sctp_die : simpl never.
Local Arguments propagate : simpl never.
Local Arguments close_with : simpl never.
Local Arguments do_drop : simpl never.
Local Arguments after_start : simpl never.
Local Arguments leave_conn : simpl never.
Local Arguments loop_top : simpl never.
Local Arguments start_err : simpl never.
Local Arguments guard_chan : simpl never.
Local Arguments pc_close_chan : simpl never.
Local Arguments open_chan : simpl never.
Local Arguments cdc_check : simpl never.
Local Arguments cdc_store : simpl never.
Local Arguments cdc_finish : simpl never.

Ltac dm :=
  repeat match goal with
  | |- context[match ?x with _ => _ end] => destruct x eqn:?
  | |- context[if ?x then _ else _] => destruct x eqn:?
  end.

(* =================================================================== enum equalities *)
Lemma dcs_eqb_eq a b : DataChannelState_eqb a b = true <-> a = b.
Proof. destruct a, b; cbn; split; intro H; try reflexivity; discriminate. Qed.
Lemma pcs_eqb_eq a b : PeerConnectionState_eqb a b = true <-> a = b.
Proof. destruct a, b; cbn; split; intro H; try reflexivity; discriminate. Qed.
Lemma ics_eqb_eq a b : IceConnectionState_eqb a b = true <-> a = b.
Proof. destruct a, b; cbn; split; intro H; try reflexivity; discriminate. Qed.
Lemma sig_eqb_eq a b : SignalingState_eqb a b = true <-> a = b.
Proof. destruct a, b; cbn; split; intro H; try reflexivity; discriminate. Qed.
Lemma task_eqb_eq a b : task_eqb a b = true <-> a = b.
Proof. destruct a, b; cbn; split; intro H; try reflexivity; discriminate. Qed.

(* =================================================================== channels *)
(* what is true of every channel, always *)
Definition J (c : chan) : Prop :=
  c_closes c <= 1
  /\ (c_tx c = true -> c_closes c = 1 -> c_state c = CClosed /\ c_cdc c = CdcIdle)
  /\ (c_tx c = false -> c_closes c = 1)
  /\ (c_state c = CClosed -> c_closes c = 1).
Definition one (c : chan) : Prop := c_closes c = 1.

Lemma J_new : J new_chan.
Proof. unfold J, new_chan; cbn; repeat split; intros; try lia; discriminate. Qed.

Ltac chan_fin :=
  cbn in *; repeat split; intros; subst; try discriminate; try lia;
  repeat match goal with
  | H : ?x = ?x -> _ |- _ => specialize (H eq_refl)
  | H : _ /\ _ |- _ => destruct H
  end; try discriminate; try lia; auto.
Ltac chan_crush :=
  match goal with c : chan |- _ => destruct c as [cs co cc ct cd] end;
  unfold J, one, guard_chan, pc_close_chan, swap_close, emit_close, open_chan, cdc_check, cdc_store, cdc_finish, swap_close, emit_close in *;
  cbn in *;
  intros;
  repeat match goal with H : _ /\ _ |- _ => destruct H end;
  repeat match goal with
  | x : DataChannelState |- _ => destruct x
  | x : cdc_pos |- _ => destruct x
  | x : bool |- _ => destruct x
  end;
  match goal with x : nat, y : nat |- _ => destruct y as [|[|]] end;
  chan_fin.

(* the functions applied to channels: each keeps J, never lowers the Close count *)
Definition okf (f : chan -> chan) : Prop :=
  (forall c, J c -> J (f c)) /\ (forall c, c_closes c <= c_closes (f c)).

Lemma okf_guard : okf guard_chan.
Proof. split; intros c; [intros HJ|]; chan_crush. Qed.
Lemma okf_pc_close : okf pc_close_chan.
Proof. split; intros c; [intros HJ|]; chan_crush. Qed.
Lemma okf_open : okf open_chan.
Proof. split; intros c; [intros HJ|]; chan_crush. Qed.
Lemma okf_cdc_check : okf cdc_check.
Proof. split; intros c; [intros HJ|]; chan_crush. Qed.
Lemma okf_cdc_store : okf cdc_store.
Proof. split; intros c; [intros HJ|]; chan_crush. Qed.
Lemma okf_cdc_finish : okf cdc_finish.
Proof. split; intros c; [intros HJ|]; chan_crush. Qed.

(* the two places that end a connection's channels leave exactly one Close on each *)
Lemma guard_one c : J c -> one (guard_chan c).
Proof. intros HJ; chan_crush. Qed.
Lemma pc_close_one c : J c -> one (pc_close_chan c) /\ c_tx (pc_close_chan c) = false.
Proof. intros HJ; chan_crush. Qed.

Lemma one_keeps f c : okf f -> J c -> one c -> one (f c).
Proof.
  intros [HJ Hm] Hc H1. unfold one in *. specialize (Hm c). destruct (HJ c Hc) as [Hle _]. lia.
Qed.

(* ------------------------------------------------------------------- lists of channels *)
Lemma upd_nth_length i f l : length (upd_nth i f l) = length l.
Proof. revert i; induction l as [|c r IH]; intros [|i]; cbn [upd_nth length]; auto. Qed.
Lemma upd_nth_Forall (P : chan -> Prop) i f l : (forall c, P c -> P (f c)) -> Forall P l -> Forall P (upd_nth i f l).
Proof.
  intros Hf; revert i; induction l as [|c r IH]; intros [|i] H; cbn [upd_nth]; auto;
    inversion H; subst; constructor; auto.
Qed.
Lemma upd_nth_nth i f l k c :
  nth_error l k = Some c -> exists c', nth_error (upd_nth i f l) k = Some c' /\ (c' = c \/ c' = f c).
Proof.
  revert i k; induction l as [|x r IH]; intros [|i] [|k] H; cbn [upd_nth nth_error] in *; try discriminate;
    try (inversion H; subst; eauto; fail); eauto.
Qed.

(* relation between the channel list (and the ghost guard counter) before and after one piece of a step *)
Definition mono (l l' : list chan) : Prop :=
  forall k c, nth_error l k = Some c -> exists c', nth_error l' k = Some c' /\ c_closes c <= c_closes c'.
Record GA (s s' : st) : Prop := mkGA {
  ga_J : Forall J (chans s) -> Forall J (chans s');
  ga_g : Forall J (chans s) -> guards s' = guards s \/ Forall one (chans s');
  ga_one : Forall J (chans s) -> Forall one (chans s) -> Forall one (chans s');
  ga_mono : mono (chans s) (chans s')
}.

Lemma mono_refl l : mono l l.
Proof. intros k c H; eauto. Qed.
Lemma mono_trans a b c : mono a b -> mono b c -> mono a c.
Proof.
  intros H1 H2 k x Hx. destruct (H1 k x Hx) as [y [Hy Hle]]. destruct (H2 k y Hy) as [z [Hz Hle2]].
  exists z; split; auto; lia.
Qed.
Lemma mono_map f l : (forall c, c_closes c <= c_closes (f c)) -> mono l (map f l).
Proof.
  intros Hf k c H. exists (f c); split; auto. rewrite nth_error_map, H; reflexivity.
Qed.
Lemma mono_upd i f l : (forall c, c_closes c <= c_closes (f c)) -> mono l (upd_nth i f l).
Proof.
  intros Hf k c H. destruct (upd_nth_nth i f l k c H) as [c' [Hn [->| ->]]]; eauto.
Qed.
Lemma mono_app l x : mono l (l ++ x).
Proof. intros k c H. exists c; split; auto. rewrite nth_error_app1; auto. apply nth_error_Some; congruence. Qed.

Lemma GA_refl s : GA s s.
Proof. constructor; auto using mono_refl. Qed.
Lemma GA_trans a b c : GA a b -> GA b c -> GA a c.
Proof.
  intros [J1 g1 o1 m1] [J2 g2 o2 m2]; constructor.
  - auto.
  - intros H. specialize (J1 H). destruct (g2 J1) as [E2|O2]; auto. destruct (g1 H) as [E1|O1].
    + left; congruence.
    + right; auto.
  - auto.
  - eauto using mono_trans.
Qed.
(* pieces that touch neither the channels nor the guard counter *)
Lemma GA_frame s s' : chans s' = chans s -> guards s' = guards s -> GA s s'.
Proof. intros Hc Hg; constructor; rewrite ?Hc; auto using mono_refl. Qed.
Lemma GA_map s f : okf f -> GA s (w_chans s (map f (chans s))).
Proof.
  intros [HJ Hm]; constructor; cbn.
  - intros H. rewrite Forall_map. eapply Forall_impl; [|exact H]; auto.
  - auto.
  - intros H1 H2. rewrite Forall_map. rewrite Forall_forall in *. intros c Hc. apply one_keeps; auto. split; auto.
  - apply mono_map; auto.
Qed.
Lemma GA_upd s i f : okf f -> GA s (w_chans s (upd_nth i f (chans s))).
Proof.
  intros [HJ Hm]; constructor; cbn.
  - intros H. apply upd_nth_Forall; auto.
  - auto.
  - intros H1 H2.
    assert (H3 : Forall (fun c => J c /\ one c) (chans s)).
    { rewrite Forall_forall in *; intros c Hc; split; auto. }
    assert (H4 : Forall (fun c => J c /\ one c) (upd_nth i f (chans s))).
    { apply upd_nth_Forall; auto. intros c [Hj Ho]; split; auto. apply one_keeps; auto. split; auto. }
    eapply Forall_impl; [|exact H4]. intros c [_ Ho]; exact Ho.
  - apply mono_upd; auto.
Qed.

(* =================================================================== the four step relations *)
(* the published reason is never replaced *)
Definition RK (s s' : st) : Prop := forall r, reason s = Some r -> reason s' = Some r.
(* "closed by the application": what close_with_reason leaves behind *)
Definition CL (s : st) : Prop :=
  peer s = PClosed /\ ice s = IClosed /\ sig s = GClosed /\ (exists r, reason s = Some r)
  /\ ice_dead (ice_t s) = true /\ dtls_run s = false /\ sctp_slot s = false.
Definition CLR (s s' : st) : Prop := CL s -> core s' = core s /\ CL s'.
(* a parked sender is registered; if the association is closed it has been notified or the run loop
   (whose cleanup guard notifies) is still alive *)
Definition Wv (s : st) : Prop :=
  forall r n, sender s = SdParked r n -> r = true /\ (sctp_is_closed s = true -> n = true \/ sctp_run s = true).
Definition WR (s s' : st) : Prop := Wv s -> Wv s'.
Record R (s s' : st) : Prop := mkR { r_rk : RK s s'; r_ga : GA s s'; r_cl : CLR s s'; r_w : WR s s' }.

Lemma R_refl s : R s s.
Proof. constructor; [intros r H; exact H | apply GA_refl | intros H; split; auto | intros H; exact H]. Qed.
Lemma R_trans a b c : R a b -> R b c -> R a c.
Proof.
  intros [k1 g1 c1 w1] [k2 g2 c2 w2]; constructor.
  - intros r H; auto.
  - eapply GA_trans; eauto.
  - intros H. destruct (c1 H) as [E1 H1]. destruct (c2 H1) as [E2 H2]. split; [congruence | auto].
  - intros H; auto.
Qed.

Ltac cl_open H :=
  let Hp := fresh "Hp" in let Hi := fresh "Hi" in let Hs := fresh "Hs" in let Hr := fresh "Hr" in
  let Hd := fresh "Hd" in let Hdr := fresh "Hdr" in let Hsl := fresh "Hsl" in let r0 := fresh "r0" in
  pose proof H as (Hp & Hi & Hs & (r0 & Hr) & Hd & Hdr & Hsl).

(* a piece that leaves reason, channels, guards, the CL fields and the sender/association fields alone *)
Lemma R_inert s s' :
  reason s' = reason s -> chans s' = chans s -> guards s' = guards s ->
  peer s' = peer s -> ice s' = ice s -> sig s' = sig s -> ice_t s' = ice_t s -> dtls_run s' = dtls_run s ->
  sctp_slot s' = sctp_slot s -> sender s' = sender s -> sctp s' = sctp s -> sctp_run s' = sctp_run s -> R s s'.
Proof.
  intros E1 E2 E3 E4 E5 E6 E7 E8 E9 E10 E11 E12; constructor.
  - intros r H; congruence.
  - apply GA_frame; auto.
  - intros (Hp & Hi & Hs & (r0 & Hr) & Hd & Hdr & Hsl). split.
    + unfold core; congruence.
    + unfold CL. rewrite E1, E4, E5, E6, E7, E8, E9. repeat split; eauto.
  - intros H r n Hs. unfold sctp_is_closed in *. rewrite E10 in Hs. rewrite E11, E12. apply H; auto.
Qed.
Ltac inert := apply R_inert; reflexivity.

Lemma R_w_task s t a b : R s (w_task s t a b). Proof. inert. Qed.
Lemma R_w_misc s a b : R s (w_misc s a b). Proof. inert. Qed.

Lemma R_set_reason s r : R s (set_reason s r).
Proof.
  unfold set_reason; cbn. destruct (reason s) eqn:E; [apply R_refl|].
  constructor.
  - intros x H; congruence.
  - apply GA_frame; reflexivity.
  - intros H; cl_open H; congruence.
  - intros H; exact H.
Qed.
Lemma R_report_peer s p : R s (report_peer s p).
Proof.
  unfold report_peer; cbn. destruct (PeerConnectionState_eqb (peer s) PClosed) eqn:E; [apply R_refl|].
  constructor.
  - intros x H; exact H.
  - apply GA_frame; reflexivity.
  - intros H; cl_open H. rewrite Hp in E; discriminate.
  - intros H; exact H.
Qed.
Lemma R_report_ice s i : R s (report_ice s i).
Proof.
  unfold report_ice; cbn. destruct (IceConnectionState_eqb (ice s) IClosed) eqn:E; [apply R_refl|].
  constructor.
  - intros x H; exact H.
  - apply GA_frame; reflexivity.
  - intros H; cl_open H. rewrite Hi in E; discriminate.
  - intros H; exact H.
Qed.
Lemma R_wake s : R s (wake_sender s).
Proof.
  unfold wake_sender. destruct (sender s) as [|[|] n| |] eqn:E; try apply R_refl.
  constructor.
  - intros x H; exact H.
  - apply GA_frame; reflexivity.
  - intros H; split; [reflexivity | exact H].
  - intros H r n' Hs. cbn in Hs. inversion Hs; subst. split; auto.
Qed.

Lemma GA_guard_exit s : GA s (guard_exit s).
Proof.
  unfold guard_exit. destruct (sctp_run s) eqn:E; [|apply GA_refl].
  cbn. destruct okf_guard as [HJ Hm].
  assert (Hc : chans (wake_sender (w_sctp s (Some SClosed) false (sctp_cr s) (sctp_slot s) (close_sig s))) = chans s).
  { unfold wake_sender; cbn; dm; reflexivity. }
  constructor; cbn; rewrite Hc.
  - intros H. rewrite Forall_map. eapply Forall_impl; [|exact H]; auto.
  - intros H. right. rewrite Forall_map. eapply Forall_impl; [|exact H]. apply guard_one.
  - intros H _. rewrite Forall_map. eapply Forall_impl; [|exact H]. apply guard_one.
  - apply mono_map; auto.
Qed.
Lemma guard_exit_proj s :
  core (guard_exit s) = core s /\ ice_t (guard_exit s) = ice_t s /\ dtls_run (guard_exit s) = dtls_run s
  /\ sctp_slot (guard_exit s) = sctp_slot s /\ task (guard_exit s) = task s /\ dtls (guard_exit s) = dtls s
  /\ webrtc (guard_exit s) = webrtc s /\ drop_pending (guard_exit s) = drop_pending s.
Proof. unfold guard_exit, wake_sender; cbn; dm; cbn; repeat split. Qed.
Lemma sender_wake s :
  sender (wake_sender s) = match sender s with SdParked true _ => SdParked true true | x => x end.
Proof. unfold wake_sender; dm; cbn; congruence. Qed.
Lemma guard_exit_low s : sctp_run s = true ->
  sctp (guard_exit s) = Some SClosed /\ sctp_run (guard_exit s) = false /\ sender (guard_exit s) = sender (wake_sender s).
Proof. unfold guard_exit; intros ->; cbn; unfold wake_sender; cbn; dm; repeat split. Qed.
Lemma R_guard_exit s : R s (guard_exit s).
Proof.
  constructor.
  - intros r H. destruct (guard_exit_proj s) as [Hc _]. unfold core in Hc. congruence.
  - apply GA_guard_exit.
  - intros H. destruct (guard_exit_proj s) as (Hc & H1 & H2 & H3 & _). split; auto.
    unfold core in Hc. unfold CL in *. inversion Hc as [[E1 E2 E3 E4]]. rewrite E1, E2, E3, E4, H1, H2, H3. exact H.
  - intros H r n Hs. destruct (sctp_run s) eqn:E.
    + destruct (guard_exit_low s E) as (E1 & E2 & E3). rewrite E3 in Hs. unfold sctp_is_closed. rewrite E1, E2.
      rewrite sender_wake in Hs.
      destruct (sender s) as [|r1 n1| |] eqn:Es; try discriminate.
      destruct (H r1 n1 Es) as [-> _]. inversion Hs; subst. split; auto.
    + unfold guard_exit in *. rewrite E in *. apply H; auto.
Qed.

Lemma R_sctp_close_call s : R s (sctp_close_call s).
Proof.
  unfold sctp_close_call. destruct (sctp s) eqn:E; [|apply R_refl]. cbn.
  constructor.
  - intros r H. unfold wake_sender; cbn; dm; exact H.
  - apply GA_frame; unfold wake_sender; cbn; dm; reflexivity.
  - intros H; split; [unfold wake_sender; cbn; dm; reflexivity|].
    unfold CL, wake_sender in *; cbn; dm; exact H.
  - intros H r n Hs. rewrite sender_wake in Hs. cbn in Hs.
    destruct (sender s) as [|r1 n1| |] eqn:Es; try discriminate.
    destruct (H r1 n1 Es) as [-> _]. inversion Hs; subst. split; auto.
Qed.
Lemma R_sctp_die s cr : R s (sctp_die s cr).
Proof.
  unfold sctp_die. destruct (sctp_run s) eqn:E; [|apply R_refl]. destruct (sctp s) eqn:E2; [|apply R_refl].
  constructor.
  - intros r H; exact H.
  - apply GA_frame; reflexivity.
  - intros H; split; [reflexivity | exact H].
  - intros H r n Hs. cbn in *. destruct (H r n Hs) as [-> _]. split; auto.
Qed.
Lemma sctp_reason_CL s : CL s -> sctp_reason s = None.
Proof. intros H; cl_open H. unfold sctp_reason. rewrite Hsl. reflexivity. Qed.
Lemma R_propagate s : R s (propagate s).
Proof.
  unfold propagate. destruct (sctp_reason s) eqn:E; [|apply R_refl]. cbn.
  destruct (PeerConnectionState_eqb (peer (set_reason s d)) PConnected) eqn:E2; [|apply R_set_reason].
  eapply R_trans; [apply R_set_reason|].
  constructor.
  - intros r H; exact H.
  - apply GA_frame; reflexivity.
  - intros H; cl_open H. rewrite Hp in E2; discriminate.
  - intros H; exact H.
Qed.

Lemma already_closed_spec s : already_closed s = SignalingState_eqb (sig s) GClosed.
Proof. reflexivity. Qed.
Lemma GA_close_with s r : GA s (close_with s r).
Proof.
  unfold close_with. destruct (already_closed s); [apply GA_refl|].
  destruct okf_pc_close as [HJ Hm].
  match goal with |- GA s (w_low (w_chans ?x _) _ _ _) => set (s2 := x) end.
  assert (Hc : chans s2 = chans s /\ guards s2 = guards s).
  { subst s2. unfold sctp_close_call, wake_sender; cbn; dm; cbn; auto. }
  destruct Hc as [Hc Hg].
  constructor; cbn; rewrite ?Hc, ?Hg.
  - intros H. rewrite Forall_map. eapply Forall_impl; [|exact H]; auto.
  - auto.
  - intros H _. rewrite Forall_map. eapply Forall_impl; [|exact H]. intros c Hcj. apply pc_close_one; auto.
  - apply mono_map; auto.
Qed.
Lemma close_with_core s r : already_closed s = false ->
  core (close_with s r) =
    (PClosed, IClosed, GClosed,
     match reason s with None => Some (match sctp_reason s with Some x => x | None => r end) | Some x => Some x end)
  /\ ice_t (close_with s r) = TClosed /\ dtls_run (close_with s r) = false /\ sctp_slot (close_with s r) = false
  /\ task (close_with s r) = task s /\ dtls (close_with s r) = dtls s /\ webrtc (close_with s r) = webrtc s
  /\ drop_pending (close_with s r) = drop_pending s.
Proof.
  intros E. unfold close_with. rewrite E. cbn. unfold sctp_close_call, wake_sender; cbn. dm; cbn; repeat split; auto.
Qed.
Lemma close_with_CL s r : already_closed s = false -> CL (close_with s r).
Proof.
  intros E. destruct (close_with_core s r E) as (Hc & H1 & H2 & H3 & _). unfold core in Hc. inversion Hc as [[E1 E2 E3 E4]].
  unfold CL. rewrite E1, E2, E3, E4, H1, H2, H3. repeat split; auto. destruct (reason s); eauto.
Qed.
Lemma R_close_with s r : R s (close_with s r).
Proof.
  destruct (already_closed s) eqn:E.
  { unfold close_with; rewrite E; apply R_refl. }
  constructor.
  - intros x H. destruct (close_with_core s r E) as (Hc & _). unfold core in Hc. inversion Hc as [[E1 E2 E3 E4]].
    rewrite E4, H; reflexivity.
  - apply GA_close_with.
  - intros H; cl_open H. rewrite already_closed_spec, Hs in E; discriminate.
  - intros H x n Hs. unfold close_with in *. rewrite E in *. cbn in *.
    destruct (sctp_slot s) eqn:Esl; cbn in *.
    + match type of Hs with sender (sctp_close_call ?y) = _ => set (s1 := y) in * end.
      assert (H1 : Wv s1) by exact H.
      pose proof (r_w _ _ (R_sctp_close_call s1) H1) as H2. unfold Wv, sctp_is_closed in *. apply H2; auto.
    + apply H; auto.
Qed.

Ltac rr :=
  lazymatch goal with
  | |- R ?s ?s => apply R_refl
  | |- R ?s (w_task ?x _ _ _) => apply (R_trans s x); [rr | apply R_w_task]
  | |- R ?s (w_misc ?x _ _) => apply (R_trans s x); [rr | apply R_w_misc]
  | |- R ?s (set_reason ?x _) => apply (R_trans s x); [rr | apply R_set_reason]
  | |- R ?s (report_peer ?x _) => apply (R_trans s x); [rr | apply R_report_peer]
  | |- R ?s (report_ice ?x _) => apply (R_trans s x); [rr | apply R_report_ice]
  | |- R ?s (wake_sender ?x) => apply (R_trans s x); [rr | apply R_wake]
  | |- R ?s (guard_exit ?x) => apply (R_trans s x); [rr | apply R_guard_exit]
  | |- R ?s (sctp_close_call ?x) => apply (R_trans s x); [rr | apply R_sctp_close_call]
  | |- R ?s (sctp_die ?x _) => apply (R_trans s x); [rr | apply R_sctp_die]
  | |- R ?s (propagate ?x) => apply (R_trans s x); [rr | apply R_propagate]
  | |- R ?s (close_with ?x _) => apply (R_trans s x); [rr | apply R_close_with]
  end.

Lemma R_do_drop s : R s (do_drop s).
Proof. unfold do_drop. rr. Qed.
Lemma R_after_start s : R s (after_start s).
Proof. unfold after_start. destruct (drop_pending s); [apply R_do_drop | apply R_refl]. Qed.
Lemma R_leave_conn s t : R s (leave_conn s t).
Proof. unfold leave_conn. rr. Qed.

Lemma report_ice_ice_t s i : ice_t (report_ice s i) = ice_t s /\ webrtc (report_ice s i) = webrtc s /\ want_sctp (report_ice s i) = want_sctp s.
Proof. unfold report_ice; cbn; dm; repeat split. Qed.

(* start of a fresh DTLS(+SCTP) stack: only reachable while ICE is up, i.e. never from a closed connection *)
Lemma R_fresh_stack s : ice_up (ice_t s) = true ->
  R s (w_task (if want_sctp (w_low s (ice_t s) DHandshaking true)
               then w_sctp (w_low s (ice_t s) DHandshaking true) (Some SConnecting) true None true false
               else w_low s (ice_t s) DHandshaking true) TStarting false false).
Proof.
  intros Hup. constructor.
  - intros r H; cbn; dm; exact H.
  - apply GA_frame; cbn; dm; reflexivity.
  - intros H; cl_open H. destruct (ice_t s); cbn in *; discriminate.
  - intros H r n Hs. cbn in *. destruct (want_sctp s); cbn in *.
    + destruct (H r n Hs) as [-> _]. split; [reflexivity|]. unfold sctp_is_closed; cbn. intros X; discriminate X.
    + apply H; auto.
Qed.
Lemma R_loop_top s : R s (loop_top s).
Proof.
  unfold loop_top. set (s0 := report_ice s (ice_of (ice_t s))).
  assert (H0 : R s s0) by apply R_report_ice.
  destruct (report_ice_ice_t s (ice_of (ice_t s))) as (Ht & Hw & Hws). fold s0 in Ht, Hw, Hws.
  eapply R_trans; [exact H0|].
  destruct (ice_t s0) eqn:E; try apply R_refl.
  - destruct (webrtc s0); [| rr].
    pose proof (R_fresh_stack s0) as HF. rewrite E in HF. apply HF; reflexivity.
  - destruct (webrtc s0); [| rr].
    pose proof (R_fresh_stack s0) as HF. rewrite E in HF. apply HF; reflexivity.
  - rr.
  - rr.
Qed.
Lemma R_start_err s : R s (start_err s).
Proof.
  unfold start_err. eapply R_trans; [|apply R_after_start]. rr.
Qed.

Ltac rr2 :=
  lazymatch goal with
  | |- R ?s ?s => apply R_refl
  | |- R ?s (w_task ?x _ _ _) => apply (R_trans s x); [rr2 | apply R_w_task]
  | |- R ?s (w_misc ?x _ _) => apply (R_trans s x); [rr2 | apply R_w_misc]
  | |- R ?s (set_reason ?x _) => apply (R_trans s x); [rr2 | apply R_set_reason]
  | |- R ?s (report_peer ?x _) => apply (R_trans s x); [rr2 | apply R_report_peer]
  | |- R ?s (report_ice ?x _) => apply (R_trans s x); [rr2 | apply R_report_ice]
  | |- R ?s (wake_sender ?x) => apply (R_trans s x); [rr2 | apply R_wake]
  | |- R ?s (guard_exit ?x) => apply (R_trans s x); [rr2 | apply R_guard_exit]
  | |- R ?s (sctp_close_call ?x) => apply (R_trans s x); [rr2 | apply R_sctp_close_call]
  | |- R ?s (sctp_die ?x _) => apply (R_trans s x); [rr2 | apply R_sctp_die]
  | |- R ?s (propagate ?x) => apply (R_trans s x); [rr2 | apply R_propagate]
  | |- R ?s (close_with ?x _) => apply (R_trans s x); [rr2 | apply R_close_with]
  | |- R ?s (do_drop ?x) => apply (R_trans s x); [rr2 | apply R_do_drop]
  | |- R ?s (after_start ?x) => apply (R_trans s x); [rr2 | apply R_after_start]
  | |- R ?s (leave_conn ?x _) => apply (R_trans s x); [rr2 | apply R_leave_conn]
  | |- R ?s (loop_top ?x) => apply (R_trans s x); [rr2 | apply R_loop_top]
  | |- R ?s (start_err ?x) => apply (R_trans s x); [rr2 | apply R_start_err]
  end.

(* ---- leaves of [step] that write lower-layer fields directly *)
Lemma R_w_chans_map s f : okf f -> R s (w_chans s (map f (chans s))).
Proof.
  intros Hf; constructor.
  - intros r H; exact H.
  - apply GA_map; auto.
  - intros H; split; [reflexivity | exact H].
  - intros H; exact H.
Qed.
Lemma R_w_chans_upd s i f : okf f -> R s (w_chans s (upd_nth i f (chans s))).
Proof.
  intros Hf; constructor.
  - intros r H; exact H.
  - apply GA_upd; auto.
  - intros H; split; [reflexivity | exact H].
  - intros H; exact H.
Qed.
(* a new channel: everything but "all channels have one Close" is kept *)
Lemma R_w_sender_basic s x c :
  (forall r n, x = SdParked r n -> r = true /\ (sctp_is_closed s = true -> n = true \/ sctp_run s = true)) ->
  R s (w_sender s x c).
Proof.
  intros Hx; constructor.
  - intros r H; exact H.
  - apply GA_frame; reflexivity.
  - intros H; split; [reflexivity | exact H].
  - intros H r n Hs. cbn in *. apply Hx; auto.
Qed.
(* ICE / DTLS fields: allowed when they keep "ICE dead, DTLS runner gone" of a closed connection *)
Lemma R_w_low s t d dr :
  (CL s -> ice_dead t = true /\ dr = false) -> R s (w_low s t d dr).
Proof.
  intros Hx; constructor.
  - intros r H; exact H.
  - apply GA_frame; reflexivity.
  - intros H; split; [reflexivity|]. destruct (Hx H) as [E1 E2]. cl_open H. unfold CL; cbn. repeat split; eauto.
  - intros H; exact H.
Qed.

(* =================================================================== one step *)
Lemma CL_dead_not s : CL s -> ice_dead (ice_t s) = true /\ dtls_run s = false.
Proof. intros H; cl_open H; auto. Qed.

Lemma R_step s e : e <> CreateChannel -> R s (step s e).
Proof.
  intros Hne. destruct e; cbn [step]; try congruence.
  - (* Close *) apply R_close_with.
  - (* Drop *) destruct (drop_deferred s); [apply R_w_misc | apply R_do_drop].
  - (* IceStop *) apply R_w_low. intros H; cl_open H; auto.
  - (* Negotiate *) destruct (ice_t s) eqn:E; try apply R_refl.
    eapply R_trans; [|apply R_w_misc]. apply R_w_low. intros H; cl_open H. rewrite E in Hd; discriminate.
  - (* SigTo *) destruct (SignalingState_eqb (sig s) GClosed) eqn:E; [apply R_refl|].
    destruct (SignalingState_eqb g GClosed) eqn:E2; [apply R_refl|].
    constructor.
    + intros r H; exact H.
    + apply GA_frame; reflexivity.
    + intros H; cl_open H. rewrite Hs in E; discriminate.
    + intros H; exact H.
  - (* CdcCheck *) apply R_w_chans_upd, okf_cdc_check.
  - (* CdcStore *) apply R_w_chans_upd, okf_cdc_store.
  - (* CdcFinish *) apply R_w_chans_upd, okf_cdc_finish.
  - (* SenderEnter *)
    destruct (sender s) eqn:Es; try apply R_refl. destruct (sctp s) eqn:Ec; try apply R_refl.
    cbn. destruct (sctp_is_closed s) eqn:Ecl.
    + apply R_w_sender_basic; intros; discriminate.
    + destruct (credit s); apply R_w_sender_basic; intros r n Hx; try discriminate.
      inversion Hx; subst. split; [reflexivity|]. intros X; rewrite Ecl in X; discriminate.
  - (* SenderPoll *)
    destruct (sender s) as [|rg nt| |] eqn:Es; try apply R_refl.
    assert (Hpoll : R s (if sender_checks_closed && sctp_is_closed s then w_sender s SdErr (credit s)
                          else if credit s then w_sender s SdSent (credit s)
                          else w_sender s (SdParked sender_registers_before_check false) (credit s))).
    { cbn. destruct (sctp_is_closed s) eqn:Ecl.
      - apply R_w_sender_basic; intros; discriminate.
      - destruct (credit s); apply R_w_sender_basic; intros r n Hx; try discriminate.
        inversion Hx; subst. split; [reflexivity|]. intros X; rewrite Ecl in X; discriminate. }
    destruct rg, nt; try exact Hpoll; try apply R_refl.
    constructor.
    + intros r H; exact H.
    + apply GA_frame; reflexivity.
    + intros H; split; [reflexivity | exact H].
    + intros H r n Hx. destruct (H false false Es) as [X _]; discriminate.
  - (* WindowOpens *)
    eapply R_trans; [|apply R_wake].
    constructor.
    + intros r H; exact H.
    + apply GA_frame; reflexivity.
    + intros H; split; [reflexivity | exact H].
    + intros H; exact H.
  - (* WindowFull *)
    constructor.
    + intros r H; exact H.
    + apply GA_frame; reflexivity.
    + intros H; split; [reflexivity | exact H].
    + intros H; exact H.
  - (* IceUp *) destruct (ice_t s) eqn:E; try apply R_refl; apply R_w_low; intros H; cl_open H; rewrite E in Hd; discriminate.
  - (* IceDown *) destruct (ice_t s) eqn:E; try apply R_refl; apply R_w_low; intros H; cl_open H; rewrite E in Hd; discriminate.
  - (* IceFail *) destruct (ice_t s) eqn:E; try apply R_refl; apply R_w_low; intros H; cl_open H; auto.
  - (* SocketNone *)
    destruct (dtls_run s) eqn:E; [|apply R_refl]. cbn.
    destruct (IceTransportState_eqb (ice_t s) TClosed); [|apply R_refl].
    destruct (dtls s); try apply R_refl; apply R_w_low; intros H; cl_open H; congruence.
  - (* DtlsDone *)
    destruct (dtls_run s) eqn:E; [|apply R_refl].
    destruct (dtls s); try apply R_refl; apply R_w_low; intros H; cl_open H; congruence.
  - (* DtlsFail *)
    destruct (dtls_run s) eqn:E; [|apply R_refl].
    destruct (dtls s); try apply R_refl; apply R_w_low; intros H; cl_open H; congruence.
  - (* PeerCloseNotify *)
    destruct (dtls_run s) eqn:E; [|apply R_refl].
    destruct (dtls s); try apply R_refl; apply R_w_low; intros H; cl_open H; congruence.
  - (* SctpUp *)
    destruct (sctp_run s) eqn:E; [|apply R_refl].
    destruct (sctp s) as [[]|] eqn:Ec; try apply R_refl.
    destruct (dtls s) eqn:Ed; try apply R_refl.
    set (s1 := w_sctp s (Some SConnected) true (sctp_cr s) (sctp_slot s) (close_sig s)).
    change (map open_chan (chans s)) with (map open_chan (chans s1)).
    eapply R_trans; [|apply R_w_chans_map, okf_open].
    constructor.
    + intros r H; exact H.
    + apply GA_frame; reflexivity.
    + intros H; split; [reflexivity | exact H].
    + intros H r n Hx. cbn in *. destruct (H r n Hx) as [-> _]. split; [reflexivity|]. unfold sctp_is_closed; cbn. intros X; discriminate X.
  - (* SctpAbort *) apply R_sctp_die.
  - (* SctpShutdown *) apply R_refl.
  - (* SctpShutdownAck *) apply R_sctp_die.
  - (* SctpShutdownComplete *) cbn. apply R_sctp_die.
  - (* SctpHbTimeout *) apply R_sctp_die.
  - (* SctpInitTimeout *) destruct (sctp s) as [[]|]; try apply R_refl; apply R_sctp_die.
  - (* SctpLoop *)
    destruct (sctp_run s) eqn:E; [|apply R_refl].
    assert (Hcr : forall cr cs, R s (w_sctp s (sctp s) true cr (sctp_slot s) cs)).
    { intros cr cs. constructor.
      - intros r H; exact H.
      - apply GA_frame; reflexivity.
      - intros H; split; [reflexivity | exact H].
      - intros H r n Hx. cbn in *. unfold sctp_is_closed in *; cbn. destruct (H r n Hx) as [-> _]. split; auto. }
    destruct (sctp_is_closed s).
    + destruct (close_sig s); [|rr2]. eapply R_trans; [apply Hcr | apply R_guard_exit].
    + destruct (dtls s); try apply R_refl; (eapply R_trans; [apply Hcr | apply R_guard_exit]).
  - (* ObsIce *)
    destruct (task s); try apply R_refl.
    + apply R_loop_top.
    + destruct (ice_dead (ice_t s)); [rr2|].
      destruct (ice_t s); try apply R_refl.
      * destruct (webrtc (report_peer s PConnected)); rr2.
      * destruct (webrtc (report_peer s PConnected)); rr2.
      * destruct (webrtc (report_peer s PDisconnected)); rr2.
  - (* ObsDtls *)
    destruct (task s); try apply R_refl.
    + destruct (dtls s); try (destruct (dtls_run s); [apply R_refl | cbn; apply R_start_err]); try apply R_start_err.
      rr2.
    + destruct (webrtc s); [|apply R_refl]. destruct (dtls s); try apply R_refl; rr2.
  - (* ObsLoops *)
    destruct (loops_done s); [|apply R_refl].
    destruct (task s); try apply R_refl.
    + apply R_start_err.
    + destruct (ice_dead (ice_t (propagate s))); rr2.
  - (* ObsGrace *)
    destruct (task s); try apply R_refl.
    destruct (grace s); [|apply R_refl].
    destruct (webrtc (report_peer (set_reason s DisconnectReason_IceDisconnected) PDisconnected)).
    + destruct (sctp_slot (report_ice (report_peer (set_reason s DisconnectReason_IceDisconnected) PDisconnected) IDisconnected)); rr2.
    + destruct (sctp_slot (report_peer (set_reason s DisconnectReason_IceDisconnected) PDisconnected)); rr2.
Qed.

(* =================================================================== signaling is closed only by close_with_reason *)
Definition SG (s s' : st) : Prop :=
  sig s' = GClosed -> sig s = GClosed \/ (CL s' /\ (Forall J (chans s) -> Forall one (chans s'))).

Lemma sig_set_reason s r : sig (set_reason s r) = sig s. Proof. unfold set_reason; cbn; dm; reflexivity. Qed.
Lemma sig_report_peer s p : sig (report_peer s p) = sig s. Proof. unfold report_peer; cbn; dm; reflexivity. Qed.
Lemma sig_report_ice s p : sig (report_ice s p) = sig s. Proof. unfold report_ice; cbn; dm; reflexivity. Qed.
Lemma sig_wake s : sig (wake_sender s) = sig s. Proof. unfold wake_sender; dm; reflexivity. Qed.
Lemma sig_guard_exit s : sig (guard_exit s) = sig s.
Proof. destruct (guard_exit_proj s) as [H _]. unfold core in H. congruence. Qed.
Lemma sig_sctp_close_call s : sig (sctp_close_call s) = sig s.
Proof. unfold sctp_close_call, wake_sender; dm; reflexivity. Qed.
Lemma sig_sctp_die s c : sig (sctp_die s c) = sig s. Proof. unfold sctp_die; dm; reflexivity. Qed.
Lemma sig_propagate s : sig (propagate s) = sig s.
Proof. unfold propagate; dm; cbn; rewrite ?sig_set_reason; reflexivity. Qed.
Lemma sig_leave_conn s t : sig (leave_conn s t) = sig s.
Proof. unfold leave_conn; cbn. apply sig_guard_exit. Qed.
Lemma sig_loop_top s : sig (loop_top s) = sig s.
Proof.
  unfold loop_top. dm; cbn; rewrite ?sig_report_peer, ?sig_set_reason, ?sig_report_ice; reflexivity.
Qed.
#[local] Hint Rewrite sig_set_reason sig_report_peer sig_report_ice sig_wake sig_guard_exit sig_sctp_close_call
  sig_sctp_die sig_propagate sig_leave_conn sig_loop_top : sigdb.

Lemma SG_same s s' : sig s' = sig s -> SG s s'.
Proof. intros E H; left; congruence. Qed.
Lemma close_with_all_one s r : already_closed s = false -> Forall J (chans s) -> Forall one (chans (close_with s r)).
Proof.
  intros E H. unfold close_with. rewrite E.
  match goal with |- Forall one (chans (w_low (w_chans ?x _) _ _ _)) => set (s2 := x) end.
  assert (Hc : chans s2 = chans s). { subst s2. unfold sctp_close_call, wake_sender; cbn; dm; cbn; auto. }
  cbn. rewrite Hc, Forall_map. eapply Forall_impl; [|exact H]. intros c Hcj. apply pc_close_one; auto.
Qed.
Lemma SG_close_with s r : SG s (close_with s r).
Proof.
  intros H. destruct (already_closed s) eqn:E.
  - left. rewrite already_closed_spec in E. apply sig_eqb_eq; auto.
  - right. split; [apply close_with_CL; auto | apply close_with_all_one; auto].
Qed.
Lemma SG_do_drop s : SG s (do_drop s).
Proof.
  intros H. destruct (already_closed s) eqn:E.
  - left. rewrite already_closed_spec in E. apply sig_eqb_eq; auto.
  - right. assert (HR : R (close_with s DisconnectReason_Dropped) (do_drop s)) by (unfold do_drop; rr).
    split.
    + apply (r_cl _ _ HR). apply close_with_CL; auto.
    + intros HJ. apply (ga_one _ _ (r_ga _ _ HR)).
      * apply (ga_J _ _ (r_ga _ _ (R_close_with s DisconnectReason_Dropped))); auto.
      * apply close_with_all_one; auto.
Qed.
Lemma SG_after_start s : SG s (after_start s).
Proof. unfold after_start. destruct (drop_pending s); [apply SG_do_drop | apply SG_same; reflexivity]. Qed.
Lemma SG_pre s x s' : sig x = sig s -> R s x -> SG x s' -> SG s s'.
Proof.
  intros E HR H H1. destruct (H H1) as [H2|[H2 H3]].
  - left; congruence.
  - right; split; auto. intros HJ. apply H3. apply (ga_J _ _ (r_ga _ _ HR)); auto.
Qed.
Lemma SG_start_err s : SG s (start_err s).
Proof.
  unfold start_err. eapply SG_pre; [| |apply SG_after_start].
  - cbn. autorewrite with sigdb. reflexivity.
  - rr.
Qed.

Lemma SG_step s e : SG s (step s e).
Proof.
  destruct e; cbn [step];
    try (apply SG_same; dm; cbn; autorewrite with sigdb; reflexivity).
  - apply SG_close_with.
  - destruct (drop_deferred s); [apply SG_same; reflexivity | apply SG_do_drop].
  - (* SigTo *) destruct (SignalingState_eqb (sig s) GClosed) eqn:E; [apply SG_same; reflexivity|].
    destruct (SignalingState_eqb g GClosed) eqn:E2; [apply SG_same; reflexivity|].
    intros H. cbn in H. subst g. discriminate.
  - (* ObsDtls *)
    destruct (task s); try (apply SG_same; reflexivity).
    + destruct (dtls s); try (destruct (dtls_run s); [apply SG_same; reflexivity | cbn; apply SG_start_err]); try apply SG_start_err.
      eapply SG_pre; [| |apply SG_after_start]; [cbn; autorewrite with sigdb; reflexivity | rr2].
    + apply SG_same; dm; cbn; autorewrite with sigdb; reflexivity.
  - (* ObsLoops *)
    destruct (loops_done s); [|apply SG_same; reflexivity].
    destruct (task s); try (apply SG_same; reflexivity).
    + apply SG_start_err.
    + apply SG_same; dm; cbn; autorewrite with sigdb; reflexivity.
Qed.

(* =================================================================== invariant of every reachable state *)
Definition Inv (s : st) : Prop := (sig s = GClosed -> CL s) /\ Forall J (chans s) /\ Wv s.

Lemma Inv_init w : Inv (init w).
Proof.
  split; [|split].
  - cbn; discriminate.
  - constructor.
  - intros r n H; cbn in H; discriminate.
Qed.
Lemma Inv_step s e : Inv s -> Inv (step s e).
Proof.
  intros (Hc & Hj & Hw).
  assert (Hne : e = CreateChannel \/ e <> CreateChannel) by (destruct e; auto; right; discriminate).
  destruct Hne as [-> | Hne].
  - cbn [step]. split; [|split].
    + cbn. exact Hc.
    + cbn. apply Forall_app; split; auto. constructor; [apply J_new | constructor].
    + exact Hw.
  - pose proof (R_step s e Hne) as HR. split; [|split].
    + intros H. destruct (SG_step s e H) as [H1|[H1 _]]; auto. apply (r_cl _ _ HR). auto.
    + apply (ga_J _ _ (r_ga _ _ HR)); auto.
    + apply (r_w _ _ HR); auto.
Qed.
Lemma Inv_run s evs : Inv s -> Inv (run s evs).
Proof. revert s; induction evs as [|e r IH]; intros s H; cbn; auto using Inv_step. Qed.
Lemma Inv_reach w evs : Inv (run (init w) evs).
Proof. apply Inv_run, Inv_init. Qed.

