(* C17 -- theorems about Model/Lifecycle.v (built on Proofs/LifecycleProofs.v) *)
From Coq Require Import ZArith List Bool Arith Lia.
From RV Require Import Gen.LifecycleGen Model.Lifecycle Proofs.LifecycleProofs.
Import ListNotations.
Open Scope nat_scope.
Open Scope bool_scope.

(* helpers stay folded under cbn; the w_ setters and projections reduce *)
Local Arguments set_reason : simpl never.
Local Arguments report_peer : simpl never.
Local Arguments report_ice : simpl never.
Local Arguments wake_sender : simpl never.
Local Arguments guard_exit : simpl never.
Local Arguments sctp_close_call : simpl never.
Local Arguments sctp_die : simpl never.
Local Arguments propagate : simpl never.
Local Arguments close_with : simpl never.
Local Arguments do_drop : simpl never.
Local Arguments after_start : simpl never.
Local Arguments leave_conn : simpl never.
Local Arguments loop_top : simpl never.
Local Arguments start_err : simpl never.
Local Arguments guard_chan : simpl never.
Local Arguments pc_close_chan : simpl never.
Local Arguments open_chan : simpl never.
Local Arguments cdc_check : simpl never.
Local Arguments cdc_store : simpl never.
Local Arguments cdc_finish : simpl never.

Ltac dm :=
  repeat match goal with
  | |- context[match ?x with _ => _ end] => destruct x eqn:?
  | |- context[if ?x then _ else _] => destruct x eqn:?
  end.

Ltac cl_open H :=
  let Hp := fresh "Hp" in let Hi := fresh "Hi" in let Hs := fresh "Hs" in let Hr := fresh "Hr" in
  let Hd := fresh "Hd" in let Hdr := fresh "Hdr" in let Hsl := fresh "Hsl" in let r0 := fresh "r0" in
  pose proof H as (Hp & Hi & Hs & (r0 & Hr) & Hd & Hdr & Hsl).

Ltac rr :=
  lazymatch goal with
  | |- R ?s ?s => apply R_refl
  | |- R ?s (w_task ?x _ _ _) => apply (R_trans s x); [rr | apply R_w_task]
  | |- R ?s (w_misc ?x _ _) => apply (R_trans s x); [rr | apply R_w_misc]
  | |- R ?s (set_reason ?x _) => apply (R_trans s x); [rr | apply R_set_reason]
  | |- R ?s (report_peer ?x _) => apply (R_trans s x); [rr | apply R_report_peer]
  | |- R ?s (report_ice ?x _) => apply (R_trans s x); [rr | apply R_report_ice]
  | |- R ?s (wake_sender ?x) => apply (R_trans s x); [rr | apply R_wake]
  | |- R ?s (guard_exit ?x) => apply (R_trans s x); [rr | apply R_guard_exit]
  | |- R ?s (sctp_close_call ?x) => apply (R_trans s x); [rr | apply R_sctp_close_call]
  | |- R ?s (sctp_die ?x _) => apply (R_trans s x); [rr | apply R_sctp_die]
  | |- R ?s (propagate ?x) => apply (R_trans s x); [rr | apply R_propagate]
  | |- R ?s (close_with ?x _) => apply (R_trans s x); [rr | apply R_close_with]
  end.

Ltac rr2 :=
  lazymatch goal with
  | |- R ?s ?s => apply R_refl
  | |- R ?s (w_task ?x _ _ _) => apply (R_trans s x); [rr2 | apply R_w_task]
  | |- R ?s (w_misc ?x _ _) => apply (R_trans s x); [rr2 | apply R_w_misc]
  | |- R ?s (set_reason ?x _) => apply (R_trans s x); [rr2 | apply R_set_reason]
  | |- R ?s (report_peer ?x _) => apply (R_trans s x); [rr2 | apply R_report_peer]
  | |- R ?s (report_ice ?x _) => apply (R_trans s x); [rr2 | apply R_report_ice]
  | |- R ?s (wake_sender ?x) => apply (R_trans s x); [rr2 | apply R_wake]
  | |- R ?s (guard_exit ?x) => apply (R_trans s x); [rr2 | apply R_guard_exit]
  | |- R ?s (sctp_close_call ?x) => apply (R_trans s x); [rr2 | apply R_sctp_close_call]
  | |- R ?s (sctp_die ?x _) => apply (R_trans s x); [rr2 | apply R_sctp_die]
  | |- R ?s (propagate ?x) => apply (R_trans s x); [rr2 | apply R_propagate]
  | |- R ?s (close_with ?x _) => apply (R_trans s x); [rr2 | apply R_close_with]
  | |- R ?s (do_drop ?x) => apply (R_trans s x); [rr2 | apply R_do_drop]
  | |- R ?s (after_start ?x) => apply (R_trans s x); [rr2 | apply R_after_start]
  | |- R ?s (leave_conn ?x _) => apply (R_trans s x); [rr2 | apply R_leave_conn]
  | |- R ?s (loop_top ?x) => apply (R_trans s x); [rr2 | apply R_loop_top]
  | |- R ?s (start_err ?x) => apply (R_trans s x); [rr2 | apply R_start_err]
  end.


(* =================================================================== C17_reason_once *)
Lemma reason_step s e r : reason s = Some r -> reason (step s e) = Some r.
Proof.
  intros H. assert (Hne : e = CreateChannel \/ e <> CreateChannel) by (destruct e; auto; right; discriminate).
  destruct Hne as [-> | Hne]; [exact H|]. apply (r_rk _ _ (R_step s e Hne)); auto.
Qed.
Theorem reason_once : forall s evs r, reason s = Some r -> reason (run s evs) = Some r.
Proof. intros s evs; revert s; induction evs as [|e t IH]; intros s r H; cbn; auto using reason_step. Qed.

(* who sets it: close()/Drop publish the SCTP-specific reason if the association already died of something,
   else LocalClose / Dropped *)
Theorem reason_set_by_close : forall s, reason s = None -> sig s <> GClosed ->
  reason (step s Close) = Some (match sctp_reason s with Some x => x | None => DisconnectReason_LocalClose end).
Proof.
  intros s Hn Hs. cbn [step].
  assert (E : already_closed s = false).
  { rewrite already_closed_spec. destruct (SignalingState_eqb (sig s) GClosed) eqn:E; auto. apply sig_eqb_eq in E; contradiction. }
  destruct (close_with_core s DisconnectReason_LocalClose E) as (Hc & _). unfold core in Hc. inversion Hc as [[E1 E2 E3 E4]].
  rewrite E4, Hn. reflexivity.
Qed.

(* =================================================================== C17_close_is_terminal_and_idempotent *)
Lemma CL_core_step s e : CL s -> core (step s e) = core s /\ CL (step s e).
Proof.
  intros H. assert (Hne : e = CreateChannel \/ e <> CreateChannel) by (destruct e; auto; right; discriminate).
  destruct Hne as [-> | Hne]; [split; [reflexivity | exact H]|]. apply (r_cl _ _ (R_step s e Hne)); auto.
Qed.
Lemma CL_core_run s evs : CL s -> core (run s evs) = core s /\ CL (run s evs).
Proof.
  revert s; induction evs as [|e t IH]; intros s H; cbn; auto.
  destruct (CL_core_step s e H) as [E1 H1]. destruct (IH _ H1) as [E2 H2]. split; [congruence | auto].
Qed.
Lemma close_CL s : Inv s -> CL (step s Close).
Proof.
  intros (Hc & _). cbn [step]. destruct (already_closed s) eqn:E.
  - unfold close_with; rewrite E. apply Hc. rewrite already_closed_spec in E. apply sig_eqb_eq; auto.
  - apply close_with_CL; auto.
Qed.
Lemma close_twice s : Inv s -> step (step s Close) Close = step s Close.
Proof.
  intros H. pose proof (close_CL s H) as HC. cl_open HC. cbn [step] in *.
  unfold close_with at 1. rewrite already_closed_spec, Hs. reflexivity.
Qed.

Definition closed_core (s : st) : Prop :=
  peer s = PClosed /\ ice s = IClosed /\ sig s = GClosed /\ exists r, reason s = Some r.

Theorem close_terminal_idempotent : forall w evs1 evs2,
  let s := run (init w) evs1 in
  let s' := step s Close in
  closed_core s' /\ core (run s' evs2) = core s' /\ step s' Close = s'.
Proof.
  intros w evs1 evs2 s s'. pose proof (Inv_reach w evs1) as HI. fold s in HI.
  pose proof (close_CL s HI) as HC. fold s' in HC. split; [|split].
  - cl_open HC. unfold closed_core; eauto.
  - apply CL_core_run; auto.
  - apply close_twice; auto.
Qed.

(* Drop: same, unless start_dtls still holds a strong reference (then the teardown is deferred) *)
Lemma drop_CL s : Inv s -> task s <> TStarting -> CL (step s Drop).
Proof.
  intros HI Ht. cbn [step]. unfold drop_deferred; cbn. destruct (task_eqb (task s) TStarting) eqn:E.
  - apply task_eqb_eq in E; contradiction.
  - destruct HI as (Hc & _). destruct (already_closed s) eqn:E2.
    + assert (HCs : CL s). { apply Hc. rewrite already_closed_spec in E2. apply sig_eqb_eq; auto. }
      apply (r_cl _ _ (R_do_drop s)); auto.
    + assert (HR : R (close_with s DisconnectReason_Dropped) (do_drop s)) by (unfold do_drop; rr).
      apply (r_cl _ _ HR). apply close_with_CL; auto.
Qed.
Theorem drop_terminal : forall w evs1 evs2,
  let s := run (init w) evs1 in
  task s <> TStarting ->
  let s' := step s Drop in
  closed_core s' /\ core (run s' evs2) = core s' /\ task s' = TExited.
Proof.
  intros w evs1 evs2 s Ht s'. pose proof (Inv_reach w evs1) as HI. fold s in HI.
  pose proof (drop_CL s HI Ht) as HC. fold s' in HC. split; [|split].
  - cl_open HC. unfold closed_core; eauto.
  - apply CL_core_run; auto.
  - subst s'. cbn [step]. unfold drop_deferred; cbn. destruct (task_eqb (task s) TStarting) eqn:E.
    + apply task_eqb_eq in E; contradiction.
    + reflexivity.
Qed.

(* =================================================================== C17_close_exactly_once *)
(* the association (a cleanup guard ran) or the connection (signaling closed) ended in this step *)
Definition ends (s s' : st) : Prop := guards s' <> guards s \/ (sig s <> GClosed /\ sig s' = GClosed).

Lemma never_two s : Inv s -> Forall (fun c => c_closes c <= 1) (chans s).
Proof. intros (_ & HJ & _). eapply Forall_impl; [|exact HJ]. intros c (H & _); exact H. Qed.

Lemma ends_all_one s e : Inv s -> ends s (step s e) -> Forall one (chans (step s e)).
Proof.
  intros (Hc & HJ & Hw) [Hg | [Hs1 Hs2]].
  - assert (Hne : e <> CreateChannel) by (intros ->; apply Hg; reflexivity).
    destruct (ga_g _ _ (r_ga _ _ (R_step s e Hne)) HJ); auto. contradiction.
  - destruct (SG_step s e Hs2) as [H|[_ H]]; auto. contradiction.
Qed.
Lemma mono_step s e : mono (chans s) (chans (step s e)).
Proof.
  assert (Hne : e = CreateChannel \/ e <> CreateChannel) by (destruct e; auto; right; discriminate).
  destruct Hne as [-> | Hne]; [cbn [step]; cbn; apply mono_app|]. apply (ga_mono _ _ (r_ga _ _ (R_step s e Hne))).
Qed.
Lemma mono_run s evs : mono (chans s) (chans (run s evs)).
Proof.
  revert s; induction evs as [|e t IH]; intros s; cbn; [apply mono_refl|].
  eapply mono_trans; [apply mono_step | apply IH].
Qed.

Theorem close_exactly_once : forall w evs1,
  let s := run (init w) evs1 in
  Forall (fun c => c_closes c <= 1) (chans s)
  /\ forall e, ends s (step s e) ->
       let s' := step s e in
       Forall (fun c => c_closes c = 1) (chans s')
       /\ forall evs2 k c, nth_error (chans s') k = Some c ->
            exists c', nth_error (chans (run s' evs2)) k = Some c' /\ c_closes c' = 1.
Proof.
  intros w evs1 s. pose proof (Inv_reach w evs1) as HI. fold s in HI. split; [apply never_two; auto|].
  intros e He s'. pose proof (ends_all_one s e HI He) as H1. fold s' in H1. split; [exact H1|].
  intros evs2 k c Hk.
  destruct (mono_run s' evs2 k c Hk) as [c' [Hk' Hle]]. exists c'; split; auto.
  assert (HI2 : Inv (run s' evs2)) by (apply Inv_run, Inv_step; auto).
  pose proof (never_two _ HI2) as H2. rewrite Forall_forall in H1, H2.
  specialize (H1 c (nth_error_In _ _ Hk)). specialize (H2 c' (nth_error_In _ _ Hk')). unfold one in H1. lia.
Qed.

(* the cleanup guard and close_with_reason both really end things (premise of the theorem is satisfiable) *)
Lemma guard_exit_ends s : sctp_run s = true -> guards (guard_exit s) = S (guards s).
Proof. intros E. unfold guard_exit. rewrite E. cbn. unfold wake_sender; cbn; dm; reflexivity. Qed.

(* =================================================================== C17_blocked_sender_released *)
Lemma blocked_sender_released_gen s r n : Wv s ->
  sender s = SdParked r n -> sctp_is_closed s = true ->
  sender (step (step s SctpLoop) SenderPoll) = SdErr.
Proof.
  intros Hw Hs Hc. destruct (Hw r n Hs) as [-> Hn].
  assert (HX : forall x, sctp_run x = true -> sctp_is_closed x = true -> sender x = SdParked true n ->
               sender (step (guard_exit x) SenderPoll) = SdErr).
  { intros x E1 E2 E3. destruct (guard_exit_low x E1) as (G1 & G2 & G3).
    cbn [step]. rewrite G3, sender_wake, E3. cbn. unfold sctp_is_closed. rewrite G1. reflexivity. }
  remember (step s SctpLoop) as s1 eqn:E1. cbn [step] in E1.
  destruct (sctp_run s) eqn:Er.
  - rewrite Hc in E1. destruct (close_sig s); subst s1.
    + apply HX; [reflexivity | exact Hc | exact Hs].
    + apply HX; [exact Er | exact Hc | exact Hs].
  - destruct (Hn Hc) as [-> | X]; [|discriminate]. subst s1.
    cbn [step]. rewrite Hs. cbn. rewrite Hc. reflexivity.
Qed.
Theorem blocked_sender_released : forall w evs r n,
  let s := run (init w) evs in
  sender s = SdParked r n -> sctp_is_closed s = true ->
  sender (run s [SctpLoop; SenderPoll]) = SdErr.
Proof.
  intros w evs r n s Hs Hc. pose proof (Inv_reach w evs) as (_ & _ & Hw). fold s in Hw. clearbody s.
  cbn [run]. eapply blocked_sender_released_gen; eauto.
Qed.
(* premises are satisfiable: a sender parked on a full window when the peer aborts *)
Example blocked_sender_example :
  let s := run (phase_state true PhChannelsOpen) [WindowFull; SenderEnter; SctpAbort] in
  sender s = SdParked true false /\ sctp_is_closed s = true /\ sender (run s [SctpLoop; SenderPoll]) = SdErr.
Proof. vm_compute. repeat split. Qed.

(* =================================================================== the state task after close / after its exit *)
Definition is_app (e : event) : bool :=
  match e with Close | Drop | SigTo _ => true | _ => false end.

Lemma core_report_peer_ne s p : core (report_peer s p) = (peer (report_peer s p), ice s, sig s, reason s).
Proof. unfold report_peer; cbn; dm; reflexivity. Qed.

Lemma core_sctp_die s c : core (sctp_die s c) = core s.
Proof. unfold sctp_die; dm; reflexivity. Qed.
Lemma core_wake s : core (wake_sender s) = core s.
Proof. unfold wake_sender; dm; reflexivity. Qed.
Lemma core_guard_exit s : core (guard_exit s) = core s.
Proof. apply guard_exit_proj. Qed.

Theorem exited_task_is_silent : forall s e, task s = TExited -> is_app e = false -> core (step s e) = core s.
Proof.
  intros s e Ht Ha. destruct e; cbn in Ha; try discriminate; cbn [step]; rewrite ?Ht; cbv beta iota;
    try reflexivity.
  - (* Negotiate *) destruct (ice_t s); reflexivity.
  - (* SenderEnter *) destruct (sender s); try reflexivity. destruct (sctp s); try reflexivity. dm; reflexivity.
  - (* SenderPoll *) destruct (sender s) as [|[] []| |]; try reflexivity; dm; reflexivity.
  - (* WindowOpens *) rewrite core_wake. reflexivity.
  - (* IceUp *) destruct (ice_t s); reflexivity.
  - (* IceDown *) destruct (ice_t s); reflexivity.
  - (* IceFail *) destruct (ice_t s); reflexivity.
  - (* SocketNone *) dm; reflexivity.
  - (* DtlsDone *) dm; reflexivity.
  - (* DtlsFail *) dm; reflexivity.
  - (* PeerCloseNotify *) dm; reflexivity.
  - (* SctpUp *) dm; reflexivity.
  - apply core_sctp_die.
  - apply core_sctp_die.
  - cbn. apply core_sctp_die.
  - apply core_sctp_die.
  - destruct (sctp s) as [[]|]; try reflexivity; apply core_sctp_die.
  - (* SctpLoop *)
    destruct (sctp_run s); [|reflexivity]. destruct (sctp_is_closed s).
    + destruct (close_sig s); rewrite core_guard_exit; reflexivity.
    + destruct (dtls s); try reflexivity; rewrite core_guard_exit; reflexivity.
  - (* ObsLoops *) destruct (loops_done s); reflexivity.
Qed.

(* after close() the state task needs at most two observations (DTLS, ICE) to reach its exit,
   wherever it was: waiting for ICE, inside start_dtls (close while connecting), or connected *)
Lemma loop_top_CL_exit s : CL s -> task (loop_top s) = TExited.
Proof.
  intros H; cl_open H. unfold loop_top.
  assert (E : ice_t (report_ice s (ice_of (ice_t s))) = ice_t s) by apply report_ice_ice_t.
  rewrite E. destruct (ice_t s); cbn in Hd; try discriminate; reflexivity.
Qed.
Lemma task_after_start s : task s <> TStarting -> task (after_start s) <> TStarting.
Proof. unfold after_start. destruct (drop_pending s); auto. intros _. unfold do_drop; cbn. discriminate. Qed.
Lemma task_start_err s : task (start_err s) <> TStarting.
Proof. unfold start_err. apply task_after_start. cbn. discriminate. Qed.
Lemma task_leave_conn s t : task (leave_conn s t) = t.
Proof. reflexivity. Qed.
Lemma obs_dtls_not_starting s : dtls_run s = false -> task (step s ObsDtls) <> TStarting.
Proof.
  intros Hdr. cbn [step]. destruct (task s) eqn:Et; try (rewrite Et; discriminate).
  - destruct (dtls s); rewrite ?Hdr; cbn; try apply task_start_err.
    apply task_after_start. cbn. discriminate.
  - destruct (webrtc s); [|rewrite Et; discriminate].
    destruct (dtls s); try (rewrite Et; discriminate); rewrite task_leave_conn; discriminate.
Qed.

Theorem state_task_exits_after_close : forall w evs,
  let s := step (run (init w) evs) Close in
  task (run s [ObsDtls; ObsIce]) = TExited.
Proof.
  intros w evs s. pose proof (close_CL _ (Inv_reach w evs)) as HC. fold s in HC. clearbody s.
  cbn [run].
  destruct (CL_core_step s ObsDtls HC) as [_ HC1].
  pose proof (obs_dtls_not_starting s) as HN.
  set (s1 := step s ObsDtls) in *.
  cbn [step]. destruct (task s1) eqn:Et.
  - apply loop_top_CL_exit; auto.
  - exfalso. apply HN; auto. cl_open HC; auto.
  - cl_open HC1. rewrite Hd. apply loop_top_CL_exit.
    assert (HR : R s1 (leave_conn s1 TIdle)) by apply R_leave_conn. apply (r_cl _ _ HR); auto.
  - exact Et.
Qed.

(* =================================================================== C17_terminal_table *)
(* Every way a connection can be ended from below or above, at the phases where it applies; for every
   interleaving of the implementation's own reactions the connection comes to rest in a state that is
   visibly ended (reason published, peer state Disconnected / Failed / Closed), with one of the listed
   (peer state, reason) pairs.  [ObsGrace] (the grace timer firing) is a stimulus, not a reaction. *)
Definition allowed_t := list (PeerConnectionState * DisconnectReason).
Definition pr_in (s : st) (a : allowed_t) : bool :=
  match reason s with
  | Some r => existsb (fun '(p, r') => PeerConnectionState_eqb (peer s) p && DisconnectReason_eqb r r') a
  | None => false
  end.
Definition outcomes (p : phase) (threads : list (list event)) : list st :=
  explore 40 (phase_state (phase_webrtc p) p) (map (map (@Some event)) threads).
Definition row_ok (row : phase * list event * allowed_t) : bool :=
  let '(p, evs, a) := row in
  forallb (fun s => visible_end s && pr_in s a) (outcomes p [evs]).

Definition L := DisconnectReason_LocalClose.
Definition terminal_table : list (phase * list event * allowed_t) :=
  [ (PhChannelsOpen, [Close], [(PClosed, DisconnectReason_LocalClose)]);
    (PhChannelsOpen, [Drop], [(PClosed, DisconnectReason_Dropped)]);
    (PhChannelsOpen, [Close; Close], [(PClosed, DisconnectReason_LocalClose)]);
    (PhChannelsOpen, [Close; Drop], [(PClosed, DisconnectReason_LocalClose)]);
    (PhChannelsOpen, [PeerCloseNotify], [(PDisconnected, DisconnectReason_DtlsClosed)]);
    (PhChannelsOpen, [SctpAbort], [(PDisconnected, DisconnectReason_SctpRemoteAbort)]);
    (PhChannelsOpen, [SctpShutdownAck], [(PDisconnected, DisconnectReason_SctpRemoteShutdown)]);
    (PhChannelsOpen, [SctpShutdown; SctpShutdownComplete], [(PDisconnected, DisconnectReason_SctpRemoteShutdown)]);
    (PhChannelsOpen, [SctpHbTimeout], [(PDisconnected, DisconnectReason_SctpHeartbeatTimeout)]);
    (PhChannelsOpen, [IceFail], [(PFailed, DisconnectReason_IceFailed)]);
    (PhChannelsOpen, [IceStop], [(PClosed, DisconnectReason_IceDisconnected); (PDisconnected, DisconnectReason_DtlsClosed);
                                 (PClosed, DisconnectReason_DtlsClosed)]);
    (PhChannelsOpen, [IceDown; ObsIce; ObsGrace], [(PDisconnected, DisconnectReason_IceDisconnected)]);
    (PhDtlsConnected, [Close], [(PClosed, DisconnectReason_LocalClose)]);
    (PhDtlsConnected, [Drop], [(PClosed, DisconnectReason_Dropped)]);
    (PhDtlsConnected, [PeerCloseNotify], [(PDisconnected, DisconnectReason_DtlsClosed)]);
    (PhDtlsConnected, [IceFail], [(PFailed, DisconnectReason_IceFailed)]);
    (PhDtlsHandshaking, [Close], [(PClosed, DisconnectReason_LocalClose)]);
    (PhDtlsHandshaking, [DtlsFail], [(PFailed, DisconnectReason_DtlsFailed)]);
    (PhDtlsHandshaking, [Drop; DtlsFail], [(PClosed, DisconnectReason_DtlsFailed)]);
    (PhDtlsHandshaking, [IceStop], [(PClosed, DisconnectReason_IceDisconnected); (PFailed, DisconnectReason_DtlsFailed);
                                    (PClosed, DisconnectReason_DtlsFailed)]);
    (PhChecking, [Close], [(PClosed, DisconnectReason_LocalClose)]);
    (PhChecking, [Drop], [(PClosed, DisconnectReason_Dropped)]);
    (PhChecking, [IceFail], [(PFailed, DisconnectReason_IceFailed)]);
    (PhOfferSet, [Close], [(PClosed, DisconnectReason_LocalClose)]);
    (PhOfferSet, [Drop], [(PClosed, DisconnectReason_Dropped)]);
    (PhCreated, [Close], [(PClosed, DisconnectReason_LocalClose)]);
    (PhCreated, [Drop], [(PClosed, DisconnectReason_Dropped)]);
    (PhDirectConnected, [Close], [(PClosed, DisconnectReason_LocalClose)]);
    (PhDirectConnected, [Drop], [(PClosed, DisconnectReason_Dropped)]);
    (PhDirectConnected, [IceFail], [(PFailed, DisconnectReason_IceFailed)]);
    (PhDirectConnected, [IceStop], [(PClosed, DisconnectReason_IceDisconnected)]) ].

Theorem terminal_table_ok : forallb row_ok terminal_table = true.
Proof. vm_compute. reflexivity. Qed.
Theorem terminal_table_holds : forall p evs a s,
  In (p, evs, a) terminal_table -> In s (outcomes p [evs]) -> visible_end s = true /\ pr_in s a = true.
Proof.
  intros p evs a s Hin Hs. pose proof terminal_table_ok as H. rewrite forallb_forall in H.
  specialize (H _ Hin). cbn [row_ok] in H. rewrite forallb_forall in H. specialize (H _ Hs).
  apply andb_prop in H. exact H.
Qed.

(* a peer's SHUTDOWN alone does not end anything (the association stays up until SHUTDOWN COMPLETE):
   the one lower-layer "close" stimulus after which the connection legitimately keeps reporting Connected *)
Theorem shutdown_alone_keeps_up :
  forallb (fun s => negb (visible_end s) && PeerConnectionState_eqb (peer s) PConnected)
          (outcomes PhChannelsOpen [[SctpShutdown]]) = true.
Proof. vm_compute. reflexivity. Qed.

(* two terminating events racing (each on its own thread, any interleaving with each other and with the
   reactions): the connection still ends visibly, the channel sees exactly one Close, a second close is harmless *)
Definition racers : list (list event) :=
  [[Close]; [Drop]; [PeerCloseNotify]; [SctpAbort]; [SctpShutdownAck]; [SctpHbTimeout]; [IceFail]; [IceStop]; [Close; Close]].
Definition race_ok (a b : list event) : bool :=
  forallb (fun s => visible_end s && forallb (fun c => Nat.eqb (c_closes c) 1) (chans s))
          (outcomes PhChannelsOpen [a; b]).
Theorem races_end_visibly : forallb (fun a => forallb (race_ok a) racers) racers = true.
Proof. vm_compute. reflexivity. Qed.
