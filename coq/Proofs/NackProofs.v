(* C15 proofs, part 3: NACK pair packing preserves the set of sequence numbers (incl. wrap-around),
   RTX wrap/unwrap restores the primary packet, receiver gap detection reports exactly the hole. *)
From Coq Require Import ZArith List Bool Lia.
From RV Require Import Lib.Wrap.
From RV Require Import Gen.Consts.
From RV Require Import Model.RtpLib.
From RV Require Import Model.Rtp.
From RV Require Import Model.Nack.
From RV Require Import Proofs.RtpProofs.
Import ListNotations.
Open Scope Z_scope.

(* ------------------------------------------------------------------ sort + dedup keep the set *)
Lemma In_insert x y l : In x (insert y l) <-> x = y \/ In x l.
Proof.
  induction l as [|z t IH]; cbn [insert].
  - cbn. intuition.
  - destruct (y <=? z); cbn [In]; [intuition|]. rewrite IH. intuition.
Qed.
Lemma In_isort x l : In x (isort l) <-> In x l.
Proof.
  induction l as [|y t IH]; cbn [isort]; [tauto|]. rewrite In_insert, IH. cbn. intuition.
Qed.
Lemma In_dedup x l : In x (dedup l) <-> In x l.
Proof.
  induction l as [|y t IH]; [tauto|]. cbn [dedup]. destruct t as [|z t'].
  - tauto.
  - destruct (y =? z) eqn:E.
    + apply Z.eqb_eq in E. subst z. rewrite IH. cbn. intuition.
    + cbn [In]. rewrite IH. cbn [In]. tauto.
Qed.
Lemma Forall_isort (P : Z -> Prop) l : Forall P l -> Forall P (isort l).
Proof. rewrite !Forall_forall. intros H x Hx. apply H. apply In_isort. exact Hx. Qed.
Lemma Forall_dedup (P : Z -> Prop) l : Forall P l -> Forall P (dedup l).
Proof. rewrite !Forall_forall. intros H x Hx. apply H. apply In_dedup. exact Hx. Qed.

(* ------------------------------------------------------------------ bits *)
Lemma land1_testbit a bit : 0 <= bit -> (Z.land (Z.shiftr a bit) 1 =? 1) = Z.testbit a bit.
Proof.
  intros Hb. change 1 with (Z.ones 1) at 1. rewrite Z.land_ones by lia. change (2 ^ 1) with 2.
  rewrite <- Z.bit0_mod. rewrite Z.shiftr_spec by lia. rewrite Z.add_0_l.
  destruct (Z.testbit a bit); reflexivity.
Qed.
Lemma testbit_set a k bit :
  0 <= k -> 0 <= bit -> Z.testbit (Z.lor a (Z.shiftl 1 k)) bit = Z.testbit a bit || (k =? bit).
Proof.
  intros Hk Hb. rewrite Z.lor_spec, Z.shiftl_1_l, Z.pow2_bits_eqb by lia. reflexivity.
Qed.

Lemma u16_small a : (forall bit, 16 <= bit -> Z.testbit a bit = false) -> 0 <= a -> u16 a.
Proof.
  intros Hhi Hn. unfold u16. split; [exact Hn|].
  assert (E : a mod 2 ^ 16 = a).
  { apply Z.bits_inj'. intros n Hn0. destruct (Z_lt_ge_dec n 16).
    - apply Z.mod_pow2_bits_low. lia.
    - rewrite Z.mod_pow2_bits_high by lia. symmetry. apply Hhi. lia. }
  rewrite <- E. change 65536 with (2 ^ 16). apply Z.mod_pos_bound. lia.
Qed.

(* ------------------------------------------------------------------ the inner loop *)
Definition dist (pid x : Z) : Z := cast_u16 (x - pid).

Lemma dist_range pid x : 0 <= dist pid x < 65536.
Proof. unfold dist, cast_u16. apply (wrapu_range 16). lia. Qed.

Lemma dist_inv pid x : u16 pid -> u16 x -> cast_u16 (pid + dist pid x) = x.
Proof. unfold u16, dist, cast_u16, wrapu. change (2 ^ 16) with 65536. intros Hp Hx. Z.div_mod_to_equations. lia. Qed.
Lemma dist_zero pid x : u16 pid -> u16 x -> dist pid x = 0 -> x = pid.
Proof. intros Hp Hx H. rewrite <- (dist_inv pid x Hp Hx), H, Z.add_0_r. unfold cast_u16. apply wrapu_small. exact Hp. Qed.
Lemma dist_of_add pid k : u16 pid -> 0 <= k < 65536 -> dist pid (cast_u16 (pid + k)) = k.
Proof. unfold u16, dist, cast_u16, wrapu. change (2 ^ 16) with 65536. intros Hp Hk. Z.div_mod_to_equations. lia. Qed.

Lemma pack_inner_spec : forall t pid blp blp' rest,
  pack_inner pid blp t = (blp', rest) ->
  exists pre, t = pre ++ rest /\
    Forall (fun x => dist pid x <= 16) pre /\
    (forall bit, 0 <= bit -> Z.testbit blp' bit =
                 Z.testbit blp bit || existsb (fun x => dist pid x =? bit + 1) pre) /\
    (0 <= blp -> 0 <= blp').
Proof.
  induction t as [|x t IH]; intros pid blp blp' rest H; cbn [pack_inner] in H.
  - inversion H; subst. exists []. repeat split; auto. intros bit _. cbn. rewrite orb_false_r. reflexivity.
  - fold (dist pid x) in H. pose proof (dist_range pid x) as Hr.
    destruct (dist pid x =? 0) eqn:E0.
    + apply Z.eqb_eq in E0. destruct (IH _ _ _ _ H) as (pre & -> & Hf & Hb & Hn).
      exists (x :: pre). split; [reflexivity|]. split; [constructor; [lia|exact Hf]|]. split; [|exact Hn].
      intros bit Hbit. rewrite Hb by exact Hbit. cbn [existsb].
      assert (dist pid x =? bit + 1 = false) by (apply Z.eqb_neq; lia). rewrite H0. reflexivity.
    + apply Z.eqb_neq in E0. destruct (dist pid x >? 16) eqn:E1.
      * inversion H; subst. exists []. split; [reflexivity|]. split; [constructor|]. split; [|auto].
        intros bit _. cbn. rewrite orb_false_r. reflexivity.
      * rewrite Z.gtb_ltb in E1. apply Z.ltb_ge in E1.
        destruct (IH _ _ _ _ H) as (pre & -> & Hf & Hb & Hn).
        exists (x :: pre). split; [reflexivity|]. split; [constructor; [lia|exact Hf]|]. split.
        -- intros bit Hbit. rewrite Hb by exact Hbit. rewrite testbit_set by lia. cbn [existsb].
           replace (dist pid x - 1 =? bit) with (dist pid x =? bit + 1)
             by (destruct (dist pid x =? bit + 1) eqn:A; destruct (dist pid x - 1 =? bit) eqn:B; try reflexivity;
                 rewrite ?Z.eqb_eq, ?Z.eqb_neq in *; lia).
           rewrite orb_assoc. reflexivity.
        -- intros H0. apply Hn. apply Z.lor_nonneg. split; [exact H0|]. apply Z.shiftl_nonneg. lia.
Qed.

(* ------------------------------------------------------------------ unpack of one pair *)
Lemma In_unpack_pair pid blp y :
  In y (unpack_pair pid blp) <->
  y = pid \/ exists bit, 0 <= bit < 16 /\ Z.testbit blp bit = true /\ y = cast_u16 (pid + (bit + 1)).
Proof.
  unfold unpack_pair. cbn [In]. rewrite in_flat_map. split.
  - intros [H|(bit & Hin & Hy)]; [left; auto|right].
    unfold zrange in Hin. apply in_map_iff in Hin as (k & <- & Hk). apply in_seq in Hk.
    exists (Z.of_nat k). split; [lia|]. rewrite land1_testbit in Hy by lia.
    destruct (Z.testbit blp (Z.of_nat k)); [|destruct Hy]. split; [reflexivity|].
    destruct Hy as [Hy|[]]. auto.
  - intros [H|(bit & Hb & Ht & Hy)]; [left; auto|right].
    exists bit. split.
    + unfold zrange. apply in_map_iff. exists (Z.to_nat bit). split; [lia|]. apply in_seq. lia.
    + rewrite land1_testbit by lia. rewrite Ht. left. auto.
Qed.

Lemma unpack_inner pid pre blp' :
  u16 pid -> Forall u16 pre -> Forall (fun x => dist pid x <= 16) pre ->
  (forall bit, 0 <= bit -> Z.testbit blp' bit = existsb (fun x => dist pid x =? bit + 1) pre) ->
  forall y, In y (unpack_pair pid blp') <-> y = pid \/ In y pre.
Proof.
  intros Hp Hu Hd Hb y. rewrite In_unpack_pair. split.
  - intros [H|(bit & Hbit & Ht & Hy)]; [left; exact H|right].
    rewrite Hb in Ht by lia. apply existsb_exists in Ht as (x & Hx & E). apply Z.eqb_eq in E.
    rewrite Forall_forall in Hu. rewrite Hy, <- E, dist_inv by auto. exact Hx.
  - intros [H|Hin]; [left; exact H|].
    rewrite Forall_forall in Hu, Hd. pose proof (Hu y Hin) as Hy. pose proof (Hd y Hin) as Hdy.
    pose proof (dist_range pid y) as Hr.
    destruct (Z.eq_dec (dist pid y) 0) as [E|E]; [left; apply dist_zero; auto|right].
    exists (dist pid y - 1). split; [lia|]. split.
    + rewrite Hb by lia. apply existsb_exists. exists y. split; [exact Hin|]. apply Z.eqb_eq. lia.
    + replace (dist pid y - 1 + 1) with (dist pid y) by lia. symmetry. apply dist_inv; auto.
Qed.

(* ------------------------------------------------------------------ the outer loop *)
Lemma pack_outer_set : forall f s, (length s <= f)%nat -> Forall u16 s ->
  forall y, In y (unpack_pairs (pack_outer f s)) <-> In y s.
Proof.
  induction f as [|f IH]; intros s Hl Hu y.
  - destruct s; [cbn; tauto|cbn in Hl; lia].
  - destruct s as [|pid t]; [cbn; tauto|]. cbn [length] in Hl. cbn [pack_outer].
    destruct (pack_inner pid 0 t) as [blp rest] eqn:E.
    destruct (pack_inner_spec _ _ _ _ _ E) as (pre & -> & Hd & Hb & _).
    inversion Hu as [|? ? Hp Ht]; subst. apply Forall_app in Ht as [Hpre Hrest].
    unfold unpack_pairs. cbn [flat_map fst snd]. fold (unpack_pairs (pack_outer f rest)).
    rewrite in_app_iff. rewrite (unpack_inner pid pre blp Hp Hpre Hd).
    2:{ intros bit Hbit. rewrite Hb by exact Hbit. rewrite Z.testbit_0_l. reflexivity. }
    rewrite IH; [|rewrite app_length in Hl; lia|exact Hrest].
    cbn [In]. rewrite in_app_iff. intuition.
Qed.

Theorem nack_set l : Forall u16 l -> forall y, In y (unpack_pairs (pack_nack_pairs l)) <-> In y l.
Proof.
  intros Hu y. unfold pack_nack_pairs.
  rewrite pack_outer_set; [|apply le_n|apply Forall_dedup, Forall_isort; exact Hu].
  rewrite In_dedup, In_isort. tauto.
Qed.

(* every emitted pair fits the 16-bit wire fields *)
Lemma pack_inner_u16 pid t blp rest :
  pack_inner pid 0 t = (blp, rest) -> u16 blp.
Proof.
  intros E. destruct (pack_inner_spec _ _ _ _ _ E) as (pre & -> & Hd & Hb & Hn).
  apply u16_small; [|apply Hn; lia]. intros bit Hbit. rewrite Hb by lia. rewrite Z.testbit_0_l. cbn [orb].
  destruct (existsb _ pre) eqn:Ex; [|reflexivity]. exfalso.
  apply existsb_exists in Ex as (x & Hx & Ee). apply Z.eqb_eq in Ee.
  rewrite Forall_forall in Hd. specialize (Hd x Hx). lia.
Qed.

Lemma pack_outer_u16 : forall f s, Forall u16 s -> Forall (fun pb => u16 (fst pb) /\ u16 (snd pb)) (pack_outer f s).
Proof.
  induction f as [|f IH]; intros s Hu; destruct s as [|pid t]; cbn [pack_outer]; try constructor.
  destruct (pack_inner pid 0 t) as [blp rest] eqn:E.
  inversion Hu as [|? ? Hp Ht]; subst.
  destruct (pack_inner_spec _ _ _ _ _ E) as (pre & -> & _). apply Forall_app in Ht as [_ Hrest].
  constructor; [split; [exact Hp|eapply pack_inner_u16; exact E]|apply IH; exact Hrest].
Qed.

Theorem nack_pairs_u16 l : Forall u16 l -> Forall (fun pb => u16 (fst pb) /\ u16 (snd pb)) (pack_nack_pairs l).
Proof. intros Hu. unfold pack_nack_pairs. apply pack_outer_u16, Forall_dedup, Forall_isort. exact Hu. Qed.

(* a non-empty request list gives at least one pair, an empty one none *)
Lemma pack_nonempty l : l <> [] -> pack_nack_pairs l <> [].
Proof.
  intros Hne. unfold pack_nack_pairs. destruct (dedup (isort l)) as [|pid t] eqn:E.
  - exfalso. destruct l as [|x l']; [congruence|].
    assert (In x (dedup (isort (x :: l')))) by (apply In_dedup, In_isort; left; reflexivity).
    rewrite E in H. destruct H.
  - cbn [length pack_outer]. destruct (pack_inner pid 0 t). discriminate.
Qed.

(* wrap-around witness: {65534, 65535, 0, 1, 16} *)
Example nack_wrap_example :
  pack_nack_pairs [65535; 0; 65534; 1; 16; 0] = [(0, 32769); (65534, 1)] /\
  unpack_pairs (pack_nack_pairs [65535; 0; 65534; 1; 16; 0]) = [0; 1; 16; 65534; 65535].
Proof. split; vm_compute; reflexivity. Qed.

(* ------------------------------------------------------------------ RTX *)
Theorem rtx_roundtrip original rtx_ssrc rtx_pt rtx_seq primary_ssrc primary_pt :
  u16 (h_seq (p_hdr original)) ->
  exists restored,
    unwrap_rtx (wrap_rtx original rtx_ssrc rtx_pt rtx_seq) primary_ssrc primary_pt = Some restored /\
    h_seq (p_hdr restored) = h_seq (p_hdr original) /\
    h_ts (p_hdr restored) = h_ts (p_hdr original) /\
    h_marker (p_hdr restored) = h_marker (p_hdr original) /\
    p_payload restored = p_payload original /\
    h_ssrc (p_hdr restored) = primary_ssrc /\ h_pt (p_hdr restored) = primary_pt /\
    (* CSRCs, header extension and padding are intentionally not carried by RTX *)
    h_csrcs (p_hdr restored) = [] /\ h_ext (p_hdr restored) = None /\ p_padlen restored = 0.
Proof.
  intros Hs. unfold unwrap_rtx, wrap_rtx. cbn [p_payload p_hdr h_marker h_ts].
  assert (E : len (be16 (h_seq (p_hdr original)) ++ p_payload original) <? 2 = false).
  { apply Z.ltb_ge. rewrite len_app, len_be16. pose proof (len_nonneg (p_payload original)). lia. }
  rewrite E. cbn [be16 app]. eexists. split; [reflexivity|].
  cbn [p_hdr p_payload p_padlen h_seq h_ts h_marker h_ssrc h_pt h_csrcs h_ext].
  rewrite be16_of by exact Hs. repeat split; reflexivity.
Qed.

(* a plain primary packet (no CSRC / extension / padding) is restored exactly *)
Theorem rtx_roundtrip_exact original rtx_ssrc rtx_pt rtx_seq :
  u16 (h_seq (p_hdr original)) -> h_csrcs (p_hdr original) = [] -> h_ext (p_hdr original) = None ->
  p_padlen original = 0 ->
  unwrap_rtx (wrap_rtx original rtx_ssrc rtx_pt rtx_seq) (h_ssrc (p_hdr original)) (h_pt (p_hdr original)) = Some original.
Proof.
  intros Hs Hc He Hp. destruct original as [[m pt sq ts ss cs ex] pay pl]. cbn in *. subst.
  unfold unwrap_rtx, wrap_rtx. cbn [p_payload p_hdr h_marker h_ts h_seq].
  assert (E : len (be16 sq ++ pay) <? 2 = false).
  { apply Z.ltb_ge. rewrite len_app, len_be16. pose proof (len_nonneg pay). lia. }
  rewrite E. cbn [be16 app]. rewrite be16_of by exact Hs. reflexivity.
Qed.

(* ... also across the wire: marshal the RTX packet, parse it, unwrap *)
Theorem rtx_over_wire original rtx_ssrc rtx_pt rtx_seq primary_ssrc primary_pt bs :
  wf_packet original -> u32 rtx_ssrc -> 0 <= rtx_pt < 128 -> u16 rtx_seq ->
  marshal_packet (wrap_rtx original rtx_ssrc rtx_pt rtx_seq) = Ok bs ->
  exists rtx restored,
    parse_packet bs = Ok rtx /\ unwrap_rtx rtx primary_ssrc primary_pt = Some restored /\
    h_seq (p_hdr restored) = h_seq (p_hdr original) /\ h_ts (p_hdr restored) = h_ts (p_hdr original) /\
    h_marker (p_hdr restored) = h_marker (p_hdr original) /\ p_payload restored = p_payload original.
Proof.
  intros (Wh & Wp & Wl) Hss Hpt Hsq Hm.
  destruct Wh as (_ & Hseq & Hts & _).
  assert (W : wf_packet (wrap_rtx original rtx_ssrc rtx_pt rtx_seq)).
  { unfold wf_packet, wf_header, wrap_rtx.
    cbn [p_hdr p_payload p_padlen h_pt h_seq h_ts h_ssrc h_csrcs h_ext].
    split; [|split].
    - split; [unfold byte; lia|]. split; [exact Hsq|]. split; [exact Hts|]. split; [exact Hss|].
      split; [constructor|exact I].
    - apply bytes_app. split; [apply bytes_be16|exact Wp].
    - unfold byte. lia. }
  assert (R : representable (wrap_rtx original rtx_ssrc rtx_pt rtx_seq)).
  { unfold representable, wrap_rtx. cbn [p_hdr h_pt h_ext]. split; [lia|exact I]. }
  exists (wrap_rtx original rtx_ssrc rtx_pt rtx_seq).
  destruct (rtx_roundtrip original rtx_ssrc rtx_pt rtx_seq primary_ssrc primary_pt Hseq)
    as (restored & Hu & A & B & C & D & _).
  exists restored. split; [apply parse_marshal; assumption|]. repeat split; assumption.
Qed.

Theorem unwrap_short rtx s pt : len (p_payload rtx) < 2 -> unwrap_rtx rtx s pt = None.
Proof. intros H. unfold unwrap_rtx. apply Z.ltb_lt in H. rewrite H. reflexivity. Qed.

(* ------------------------------------------------------------------ gap detection *)
Lemma gap_loop_spec : forall k f s sq,
  u16 s -> u16 sq -> cast_u16 (sq - s) = Z.of_nat k -> (k < f)%nat ->
  gap_loop f s sq = map (fun i => cast_u16 (s + i)) (zrange k).
Proof.
  induction k as [|k IH]; intros f s sq Hs Hq Hd Hf.
  - destruct f as [|f]; [lia|]. cbn [gap_loop].
    assert (s = sq).
    { unfold u16, cast_u16, wrapu in *. change (2 ^ 16) with 65536 in Hd. change (Z.of_nat 0) with 0 in Hd.
      Z.div_mod_to_equations. lia. }
    subst. rewrite Z.eqb_refl. reflexivity.
  - destruct f as [|f]; [lia|]. cbn [gap_loop].
    assert (Hne : s =? sq = false).
    { apply Z.eqb_neq. intros ->. rewrite Z.sub_diag in Hd. unfold cast_u16, wrapu in Hd. cbn in Hd. lia. }
    rewrite Hne.
    assert (Hk : Z.of_nat (S k) < 65536).
    { rewrite <- Hd. unfold cast_u16. pose proof (wrapu_range 16 (sq - s) ltac:(lia)). change (2 ^ 16) with 65536 in *. lia. }
    rewrite (IH f (cast_u16 (s + 1)) sq).
    + unfold zrange. cbn [List.seq map]. f_equal.
      * change (Z.of_nat 0) with 0. rewrite Z.add_0_r. unfold cast_u16. symmetry. apply wrapu_small. exact Hs.
      * rewrite <- seq_shift, !map_map. apply map_ext_in. intros i Hi. apply in_seq in Hi.
        unfold u16, cast_u16, wrapu in *. change (2 ^ 16) with 65536. rewrite Nat2Z.inj_succ.
        Z.div_mod_to_equations. lia.
    + unfold cast_u16. apply (wrapu_range 16). lia.
    + exact Hq.
    + unfold u16, cast_u16, wrapu in *. change (2 ^ 16) with 65536 in *. rewrite Nat2Z.inj_succ in Hd.
      Z.div_mod_to_equations. lia.
    + lia.
Qed.

(* the emitted list is exactly the hole (its most recent MAX_RECEIVER_NACK_GAP numbers), in order, mod 2^16 *)
Theorem gap_lost_spec last seq :
  u16 last -> u16 seq ->
  let diff := cast_u16 (seq - last) in
  1 < diff < 32768 ->
  let gap := diff - 1 in
  let skip := Z.max 0 (gap - MAX_RECEIVER_NACK_GAP) in
  gap_lost last seq = map (fun i => cast_u16 (last + 1 + skip + i)) (zrange (Z.to_nat (Z.min gap MAX_RECEIVER_NACK_GAP))).
Proof.
  intros Hl Hs diff Hd gap skip. unfold gap_lost. fold diff. fold gap. fold skip.
  unfold MAX_RECEIVER_NACK_GAP in *.
  set (s0 := cast_u16 (cast_u16 (last + 1) + cast_u16 skip)).
  assert (Hs0 : s0 = cast_u16 (last + 1 + skip)).
  { unfold s0, cast_u16, wrapu. change (2 ^ 16) with 65536.
    rewrite Zplus_mod_idemp_l, Zplus_mod_idemp_r. reflexivity. }
  assert (Hk : cast_u16 (seq - s0) = Z.of_nat (Z.to_nat (Z.min gap 128))).
  { rewrite Hs0. subst skip gap diff. unfold u16, cast_u16, wrapu in *. change (2 ^ 16) with 65536 in *.
    rewrite Z2Nat.id by lia. Z.div_mod_to_equations. lia. }
  rewrite (gap_loop_spec (Z.to_nat (Z.min gap 128)) _ s0 seq).
  - apply map_ext. intros i. rewrite Hs0. unfold cast_u16, wrapu. rewrite Zplus_mod_idemp_l. reflexivity.
  - unfold s0, cast_u16. apply (wrapu_range 16). lia.
  - exact Hs.
  - exact Hk.
  - lia.
Qed.

(* when the hole is at most MAX_RECEIVER_NACK_GAP wide: exactly the missing numbers strictly between *)
Theorem gap_lost_exact last seq x :
  u16 last -> u16 seq -> u16 x ->
  1 < cast_u16 (seq - last) < 32768 -> cast_u16 (seq - last) - 1 <= MAX_RECEIVER_NACK_GAP ->
  (In x (gap_lost last seq) <-> 1 <= cast_u16 (x - last) < cast_u16 (seq - last)).
Proof.
  intros Hl Hs Hx Hd Hg. pose proof (gap_lost_spec last seq Hl Hs Hd) as E. cbv zeta in E. rewrite E.
  unfold MAX_RECEIVER_NACK_GAP in *. rewrite Z.max_l by lia. rewrite Z.min_l by lia.
  rewrite in_map_iff. unfold zrange. split.
  - intros (i & <- & Hi). apply in_map_iff in Hi as (k & <- & Hk). apply in_seq in Hk.
    unfold u16, cast_u16, wrapu in *. change (2 ^ 16) with 65536 in *. Z.div_mod_to_equations. lia.
  - intros Hr. exists (cast_u16 (x - last) - 1). split.
    + unfold u16, cast_u16, wrapu in *. change (2 ^ 16) with 65536 in *. Z.div_mod_to_equations. lia.
    + apply in_map_iff. exists (Z.to_nat (cast_u16 (x - last) - 1)). split; [lia|]. apply in_seq. lia.
Qed.

Theorem gap_lost_length last seq :
  u16 last -> u16 seq -> 1 < cast_u16 (seq - last) < 32768 ->
  len (gap_lost last seq) = Z.min (cast_u16 (seq - last) - 1) MAX_RECEIVER_NACK_GAP.
Proof.
  intros Hl Hs Hd. pose proof (gap_lost_spec last seq Hl Hs Hd) as E. cbv zeta in E. rewrite E.
  unfold len, zrange. rewrite !map_length, seq_length. unfold MAX_RECEIVER_NACK_GAP. lia.
Qed.

(* the handler emits a NACK exactly for a forward jump of 2..32767, carrying gap_lost *)
Theorem nack_step_emits st seq ssrc lost st' over :
  nack_step st seq ssrc = (st', Some lost, over) ->
  lost = gap_lost (n_last_seq st) seq /\ 1 < cast_u16 (seq - n_last_seq st) < 32768 /\
  n_last_seq st' = seq /\ n_init st = true.
Proof.
  unfold nack_step.
  destruct (negb (n_last_ssrc st =? 0) && negb (n_last_ssrc st =? ssrc)); [discriminate|].
  destruct (n_init st) eqn:Ei; cbn [negb]; [|discriminate].
  destruct (mem seq (n_pending st)); [discriminate|].
  destruct ((cast_u16 (seq - n_last_seq st) >? 1) && (cast_u16 (seq - n_last_seq st) <? 32768)) eqn:E.
  - intros H. inversion H; subst. apply andb_true_iff in E as [E1 E2].
    apply Z.gtb_lt in E1. apply Z.ltb_lt in E2. cbn. repeat split; auto; lia.
  - destruct (cast_u16 (seq - n_last_seq st) <? 32768); discriminate.
Qed.
