(* C15 proofs, part 7: sender NACK buffer (bound + index invariants) and the resend cooldown. *)
From Coq Require Import ZArith List Bool Lia Permutation.
From RV Require Import Lib.Wrap.
From RV Require Import Gen.RtpConsts.
From RV Require Import Model.RtpLib.
From RV Require Import Model.Rtp.
From RV Require Import Model.NackSend.
Import ListNotations.
Open Scope Z_scope.

(* ------------------------------------------------------------------ association lists *)
Section Assoc.
Context {A : Type}.
Implicit Types m : list (Z * A).

Lemma alookup_aremove_same k m : alookup k (aremove k m) = None.
Proof. induction m as [|[k' v] m IH]; [reflexivity|]. cbn [aremove]. destruct (k =? k') eqn:E; [exact IH|]. cbn [alookup]. rewrite E. exact IH. Qed.
Lemma alookup_aremove_other k k' m : k <> k' -> alookup k (aremove k' m) = alookup k m.
Proof.
  intros Hne. induction m as [|[k2 v] m IH]; [reflexivity|]. cbn [aremove alookup].
  destruct (k' =? k2) eqn:E.
  - apply Z.eqb_eq in E. subst k2. assert (k =? k' = false) by (apply Z.eqb_neq; exact Hne). rewrite H. exact IH.
  - cbn [alookup]. rewrite IH. reflexivity.
Qed.
Lemma alookup_ainsert_same k v m : alookup k (ainsert k v m) = Some v.
Proof. unfold ainsert. cbn [alookup]. rewrite Z.eqb_refl. reflexivity. Qed.
Lemma alookup_ainsert_other k k' v m : k <> k' -> alookup k (ainsert k' v m) = alookup k m.
Proof. intros H. unfold ainsert. cbn [alookup]. assert (k =? k' = false) by (apply Z.eqb_neq; exact H). rewrite H0. apply alookup_aremove_other. exact H. Qed.

Lemma keys_aremove k k' m : In k' (map fst (aremove k m)) <-> k' <> k /\ In k' (map fst m).
Proof.
  induction m as [|[k2 v] m IH]; [cbn; tauto|]. cbn [aremove]. destruct (k =? k2) eqn:E.
  - apply Z.eqb_eq in E. subst k2. rewrite IH. cbn [map fst In]. intuition congruence.
  - apply Z.eqb_neq in E. cbn [map fst In]. rewrite IH. intuition congruence.
Qed.
Lemma nodup_aremove k m : NoDup (map fst m) -> NoDup (map fst (aremove k m)).
Proof.
  induction m as [|[k2 v] m IH]; intros H; [constructor|]. cbn [map fst] in H. inversion H as [|? ? Hn Hd]; subst.
  cbn [aremove]. destruct (k =? k2); [apply IH; exact Hd|]. cbn [map fst]. constructor; [|apply IH; exact Hd].
  rewrite keys_aremove. tauto.
Qed.
Lemma alookup_in k m : (exists v, alookup k m = Some v) <-> In k (map fst m).
Proof.
  induction m as [|[k2 v] m IH]; [cbn; split; [intros [? H]; discriminate|tauto]|]. cbn [alookup map fst In].
  destruct (k =? k2) eqn:E.
  - apply Z.eqb_eq in E. split; [intros _; left; symmetry; exact E|intros _; exists v; reflexivity].
  - apply Z.eqb_neq in E. rewrite IH. split; [intros H; right; exact H|intros [H|H]; [congruence|exact H]].
Qed.
Lemma alookup_none k m : alookup k m = None <-> ~ In k (map fst m).
Proof.
  rewrite <- alookup_in. destruct (alookup k m) as [v|].
  - split; [discriminate|]. intros H. exfalso. apply H. exists v. reflexivity.
  - split; [|reflexivity]. intros _ [v Hv]. discriminate.
Qed.
Lemma alookup_In_pair k v m : alookup k m = Some v -> In (k, v) m.
Proof.
  induction m as [|[k2 v2] m IH]; [discriminate|]. cbn [alookup]. destruct (k =? k2) eqn:E.
  - apply Z.eqb_eq in E. intros H. inversion H; subst. left. reflexivity.
  - intros H. right. auto.
Qed.
Lemma In_aremove kv k m : In kv (aremove k m) -> In kv m.
Proof.
  induction m as [|[k2 v2] m IH]; [tauto|]. cbn [aremove]. destruct (k =? k2); [intros H; right; auto|].
  intros [H|H]; [left; exact H|right; auto].
Qed.
End Assoc.

(* ------------------------------------------------------------------ the buffer invariant *)
Definition keys (b : sbuf) : list Z := map fst (sb_map b).

Record Inv (b : sbuf) (max : Z) (pushed : list packet) : Prop := {
  inv_nodup_order : NoDup (sb_order b);
  inv_nodup_keys : NoDup (keys b);
  inv_sync : forall k, In k (sb_order b) <-> In k (keys b);
  inv_bound : len (sb_order b) <= max;
  inv_index : forall k p, sb_get b k = Some p -> pseq p = k /\ In p pushed }.

Lemma inv_len b max ps : Inv b max ps -> sb_len b = len (sb_order b) /\ sb_len b <= max.
Proof.
  intros I. assert (Hp : Permutation (sb_order b) (keys b)).
  { apply NoDup_Permutation; [apply I|apply I|apply I]. }
  apply Permutation_length in Hp. unfold sb_len, keys, len in *. rewrite map_length in Hp.
  pose proof (inv_bound _ _ _ I). unfold len in *. lia.
Qed.

Fixpoint remove_keys (ks : list Z) (m : list (Z * packet)) : list (Z * packet) :=
  match ks with [] => m | k :: t => remove_keys t (aremove k m) end.

Lemma evict_spec max : 0 <= max -> forall f order m, (length order <= f)%nat ->
  evict f order m max = (drop (len order - max) order, remove_keys (take (len order - max) order) m).
Proof.
  intros Hmax. induction f as [|f IH]; intros order m Hf.
  - destruct order; [cbn [evict]; unfold drop, take; rewrite skipn_nil, firstn_nil; reflexivity|cbn in Hf; lia].
  - cbn [evict]. destruct (len order >? max) eqn:E.
    + apply Z.gtb_lt in E. destruct order as [|old rest]; [rewrite len_nil in E; lia|].
      cbn [length] in Hf. rewrite IH by lia. rewrite len_cons in *.
      pose proof (len_nonneg rest). unfold drop, take.
      replace (Z.to_nat (1 + len rest - max)) with (S (Z.to_nat (len rest - max))) by lia.
      reflexivity.
    + rewrite Z.gtb_ltb in E. apply Z.ltb_ge in E. unfold drop, take.
      replace (Z.to_nat (len order - max)) with 0%nat by lia. reflexivity.
Qed.

Lemma remove_keys_lookup ks : forall m k, ~ In k ks -> alookup k (remove_keys ks m) = alookup k m.
Proof.
  induction ks as [|k0 ks IH]; intros m k Hn; [reflexivity|]. cbn [remove_keys]. rewrite IH by (intros H; apply Hn; right; exact H).
  apply alookup_aremove_other. intros ->. apply Hn. left. reflexivity.
Qed.
Lemma remove_keys_keys ks : forall m k, In k (map fst (remove_keys ks m)) <-> ~ In k ks /\ In k (map fst m).
Proof.
  induction ks as [|k0 ks IH]; intros m k; [cbn; tauto|]. cbn [remove_keys]. rewrite IH, keys_aremove. cbn [In]. intuition congruence.
Qed.
Lemma remove_keys_nodup ks : forall m, NoDup (map fst m) -> NoDup (map fst (remove_keys ks m)).
Proof. induction ks as [|k0 ks IH]; intros m H; [exact H|]. cbn [remove_keys]. apply IH, nodup_aremove, H. Qed.
Lemma remove_keys_In ks : forall m kv, In kv (remove_keys ks m) -> In kv m.
Proof. induction ks as [|k0 ks IH]; intros m kv H; [exact H|]. cbn [remove_keys] in H. apply IH in H. eapply In_aremove; exact H. Qed.

Lemma NoDup_app_split {A} (a b : list A) : NoDup (a ++ b) -> NoDup a /\ NoDup b /\ (forall x, In x a -> ~ In x b).
Proof.
  induction a as [|x a IH]; cbn [app]; intros H; [split; [constructor|split; [exact H|tauto]]|].
  inversion H as [|? ? Hn Hd]; subst. destruct (IH Hd) as (A1 & A2 & A3). split; [|split; [exact A2|]].
  - constructor; [|exact A1]. intros Hi. apply Hn. apply in_or_app. left. exact Hi.
  - intros y [->|Hy]; [intros Hb; apply Hn; apply in_or_app; right; exact Hb|auto].
Qed.

Lemma NoDup_snoc {A} (l : list A) x : NoDup l -> ~ In x l -> NoDup (l ++ [x]).
Proof.
  induction l as [|y l IH]; intros Hd Hn; cbn [app]; [constructor; [tauto|constructor]|].
  inversion Hd as [|? ? Hy Hl]; subst. constructor.
  - rewrite in_app_iff. cbn [In]. intros [H|[H|[]]]; [exact (Hy H)|]. apply Hn. left. symmetry. exact H.
  - apply IH; [exact Hl|]. intros H. apply Hn. right. exact H.
Qed.

Lemma inv_empty max : 0 <= max -> Inv sb_empty max [].
Proof.
  intros H. constructor; unfold sb_empty, keys, sb_get; cbn [sb_order sb_map map].
  - constructor.
  - constructor.
  - intros k0. tauto.
  - rewrite len_nil. lia.
  - intros k0 q Hq. discriminate.
Qed.

Theorem push_inv b max ps p :
  1 <= max -> Inv b max ps ->
  Inv (sb_push b p max) max (ps ++ [p]) /\ sb_get (sb_push b p max) (pseq p) = Some p.
Proof.
  intros Hmax I. unfold sb_push. destruct (alookup (pseq p) (sb_map b)) as [old|] eqn:El.
  - (* already buffered *)
    assert (Hin : In (pseq p) (keys b)) by (apply alookup_in; eauto).
    split; [|unfold sb_get; cbn [sb_map]; apply alookup_ainsert_same].
    constructor; cbn [sb_order sb_map].
    + apply I.
    + unfold keys, ainsert. cbn [sb_map map fst]. constructor; [rewrite keys_aremove; tauto|apply nodup_aremove, I].
    + intros k. rewrite (inv_sync _ _ _ I). unfold keys, ainsert. cbn [sb_map map fst In]. rewrite keys_aremove.
      destruct (Z.eq_dec k (pseq p)) as [->|Hne]; [tauto|]. unfold keys. intuition congruence.
    + apply I.
    + intros k q Hq. unfold sb_get in Hq. cbn [sb_map] in Hq. destruct (Z.eq_dec k (pseq p)) as [->|Hne].
      * rewrite alookup_ainsert_same in Hq. inversion Hq; subst. split; [reflexivity|apply in_or_app; right; left; reflexivity].
      * rewrite alookup_ainsert_other in Hq by exact Hne. destruct (inv_index _ _ _ I k q Hq) as [A B].
        split; [exact A|apply in_or_app; left; exact B].
  - (* new sequence number *)
    assert (Hnk : ~ In (pseq p) (keys b)) by (apply alookup_none; exact El).
    assert (Hno : ~ In (pseq p) (sb_order b)) by (rewrite (inv_sync _ _ _ I); exact Hnk).
    rewrite (evict_spec max ltac:(lia)) by apply le_n.
    set (order := sb_order b ++ [pseq p]). set (m := ainsert (pseq p) p (sb_map b)).
    set (j := len order - max).
    assert (Hlo : len order = len (sb_order b) + 1) by (unfold order; rewrite len_app; reflexivity).
    pose proof (inv_bound _ _ _ I) as Hb. pose proof (len_nonneg (sb_order b)) as Hn0.
    assert (Hnd : NoDup order).
    { unfold order. apply NoDup_snoc; [apply I|exact Hno]. }
    assert (Hsplit : order = take j order ++ drop j order) by (symmetry; apply take_drop).
    set (pre := take j order) in *. set (o := drop j order) in *.
    rewrite Hsplit in Hnd. destruct (NoDup_app_split _ _ Hnd) as (Npre & No & Hdis).
    assert (Hkm : forall k, In k (map fst m) <-> In k order).
    { intros k. unfold m, ainsert, order. cbn [map fst In]. rewrite keys_aremove, in_app_iff. cbn [In].
      rewrite (inv_sync _ _ _ I). unfold keys. destruct (Z.eq_dec k (pseq p)) as [->|Hne]; [tauto|]. intuition congruence. }
    assert (Hndm : NoDup (map fst m)).
    { unfold m, ainsert. cbn [map fst]. constructor; [rewrite keys_aremove; tauto|apply nodup_aremove, I]. }
    assert (Hpre_old : forall x, In x pre -> In x (sb_order b)).
    { intros x Hx. unfold pre, take, order in Hx. rewrite firstn_app in Hx.
      replace (Z.to_nat j - length (sb_order b))%nat with 0%nat in Hx by (unfold j, len in *; lia).
      cbn [firstn] in Hx. rewrite app_nil_r in Hx. eapply In_firstn. exact Hx. }
    assert (Hseq_pre : ~ In (pseq p) pre) by (intros H; apply Hno, Hpre_old, H).
    cbn [sb_order sb_map]. split.
    + constructor; cbn [sb_order sb_map].
      * exact No.
      * unfold keys. cbn [sb_map]. apply remove_keys_nodup. exact Hndm.
      * intros k. unfold keys. cbn [sb_map]. rewrite remove_keys_keys, Hkm. rewrite Hsplit at 1. rewrite in_app_iff.
        split; [intros Ho; split; [intros Hp; exact (Hdis k Hp Ho)|right; exact Ho]|intros [Hn [Hp|Ho]]; [contradiction|exact Ho]].
      * unfold o. destruct (Z_le_gt_dec (len order) max) as [L|G].
        -- unfold drop. replace (Z.to_nat j) with 0%nat by (unfold j; lia). cbn [skipn]. exact L.
        -- rewrite len_drop by (unfold j; lia). unfold j. lia.
      * intros k q Hq. unfold sb_get in Hq. cbn [sb_map] in Hq.
        assert (Hk : ~ In k pre).
        { assert (In k (map fst (remove_keys pre m))) by (apply alookup_in; eauto). apply remove_keys_keys in H. tauto. }
        rewrite remove_keys_lookup in Hq by exact Hk. unfold m in Hq.
        destruct (Z.eq_dec k (pseq p)) as [->|Hne].
        -- rewrite alookup_ainsert_same in Hq. inversion Hq; subst. split; [reflexivity|apply in_or_app; right; left; reflexivity].
        -- rewrite alookup_ainsert_other in Hq by exact Hne. destruct (inv_index _ _ _ I k q Hq) as [A B].
           split; [exact A|apply in_or_app; left; exact B].
    + unfold sb_get. cbn [sb_map]. rewrite remove_keys_lookup by exact Hseq_pre. unfold m. apply alookup_ainsert_same.
Qed.

(* the buffer after any sequence of pushes *)
Definition sb_run (max : Z) (ps : list packet) : sbuf := fold_left (fun b p => sb_push b p max) ps sb_empty.

Lemma run_inv_gen max : 1 <= max -> forall ps b done, Inv b max done ->
  Inv (fold_left (fun b p => sb_push b p max) ps b) max (done ++ ps).
Proof.
  intros Hmax. induction ps as [|p ps IH]; intros b done I; [rewrite app_nil_r; exact I|].
  cbn [fold_left]. destruct (push_inv b max done p Hmax I) as [I' _].
  specialize (IH _ _ I'). rewrite <- app_assoc in IH. exact IH.
Qed.

(* bounded and indexed, for every history of sent packets *)
Theorem sender_buffer_invariant max ps :
  1 <= max ->
  let b := sb_run max ps in
  sb_len b <= max /\ sb_len b = len (sb_order b) /\ NoDup (sb_order b) /\
  (forall k, In k (sb_order b) <-> (exists p, sb_get b k = Some p)) /\
  (forall k p, sb_get b k = Some p -> pseq p = k /\ In p ps).
Proof.
  intros Hmax b. assert (I : Inv b max ps) by (apply (run_inv_gen max Hmax ps sb_empty []); apply inv_empty; lia).
  destruct (inv_len _ _ _ I) as [A B]. split; [exact B|]. split; [exact A|]. split; [apply I|]. split; [|apply I].
  intros k. rewrite (inv_sync _ _ _ I). unfold keys, sb_get. symmetry. apply alookup_in.
Qed.

(* the packet just sent is always retrievable *)
Theorem sender_buffer_latest max ps p :
  1 <= max -> sb_get (sb_run max (ps ++ [p])) (pseq p) = Some p.
Proof.
  intros Hmax. unfold sb_run. rewrite fold_left_app. cbn [fold_left].
  assert (I : Inv (sb_run max ps) max ps) by (apply (run_inv_gen max Hmax ps sb_empty []); apply inv_empty; lia).
  apply (push_inv _ max ps p Hmax I).
Qed.

(* ------------------------------------------------------------------ packets_for_nack *)
Lemma zmem_In x l : zmem x l = true <-> In x l.
Proof.
  induction l as [|y l IH]; cbn [zmem In]; [split; [discriminate|tauto]|].
  rewrite orb_true_iff, IH, Z.eqb_eq. intuition congruence.
Qed.

Lemma cooling_ainsert_other recent k k' t now : k <> k' -> cooling (ainsert k' t recent) k now = cooling recent k now.
Proof. intros H. unfold cooling. rewrite alookup_ainsert_other by exact H. reflexivity. Qed.

Section Pfn.
Variable buf : sbuf.
Variable now : Z.
Hypothesis Hidx : forall k p, sb_get buf k = Some p -> pseq p = k.

Lemma pfn_spec : forall seqs seen recent supp r out s,
  pfn_loop buf now seqs seen recent supp = (r, out, s) ->
  (* soundness *)
  (forall p, In p out -> exists seq, In seq seqs /\ ~ In seq seen /\ sb_get buf seq = Some p /\ cooling recent seq now = false) /\
  (* completeness *)
  (forall seq p, In seq seqs -> ~ In seq seen -> cooling recent seq now = false -> sb_get buf seq = Some p -> In p out) /\
  (* each sequence number at most once *)
  NoDup (map pseq out) /\
  (* bookkeeping: resent now, everything else untouched *)
  (forall p, In p out -> alookup (pseq p) r = Some now) /\
  (forall k, ~ In k (map pseq out) -> alookup k r = alookup k recent) /\
  supp <= s.
Proof.
  induction seqs as [|seq rest IH]; intros seen recent supp r out s H.
  - cbn [pfn_loop] in H. inversion H; subst. cbn. repeat split; try tauto; try constructor; lia.
  - cbn [pfn_loop] in H. destruct (zmem seq seen) eqn:Em.
    { apply zmem_In in Em. destruct (IH _ _ _ _ _ _ H) as (A & B & C & D & E & F).
      repeat split; try assumption; try lia.
      - intros p Hp. destruct (A p Hp) as (q & Hq & R). exists q. split; [right; exact Hq|exact R].
      - intros q p [->|Hq] Hns; [contradiction|]. apply B; assumption. }
    assert (Hns : ~ In seq seen) by (intros Hi; apply zmem_In in Hi; congruence).
    destruct (cooling recent seq now) eqn:Ec.
    { destruct (IH _ _ _ _ _ _ H) as (A & B & C & D & E & F).
      repeat split; try assumption; try lia.
      - intros p Hp. destruct (A p Hp) as (q & Hq & Hn & R). exists q. split; [right; exact Hq|].
        split; [intros Hi; apply Hn; right; exact Hi|exact R].
      - intros q p [->|Hq] Hn Hc; [congruence|]. intros Hg. apply (B q p Hq); [|exact Hc|exact Hg].
        intros [->|Hi]; [|exact (Hn Hi)]. congruence. }
    destruct (sb_get buf seq) as [p0|] eqn:Eg.
    + destruct (pfn_loop buf now rest (seq :: seen) (ainsert seq now recent) supp) as [[r' out'] s'] eqn:El.
      inversion H; subst r out s. clear H. destruct (IH _ _ _ _ _ _ El) as (A & B & C & D & E & F).
      assert (Hp0 : pseq p0 = seq) by (apply Hidx; exact Eg).
      assert (Hout' : forall p, In p out' -> pseq p <> seq).
      { intros p Hp. destruct (A p Hp) as (q & _ & Hn & Hg & _). rewrite (Hidx _ _ Hg). intros ->. apply Hn. left. reflexivity. }
      repeat split.
      * intros p [<-|Hp].
        -- exists seq. repeat split; [left; reflexivity|exact Hns|exact Eg|exact Ec].
        -- destruct (A p Hp) as (q & Hq & Hn & Hg & Hc). exists q. split; [right; exact Hq|].
           split; [intros Hi; apply Hn; right; exact Hi|]. split; [exact Hg|].
           rewrite cooling_ainsert_other in Hc; [exact Hc|]. intros ->. apply Hn. left. reflexivity.
      * intros q p [->|Hq] Hn Hc Hg.
        -- left. congruence.
        -- destruct (Z.eq_dec q seq) as [->|Hne]; [left; congruence|]. right.
           apply (B q p Hq); [intros [Heq|Hi]; [congruence|exact (Hn Hi)]| |exact Hg].
           rewrite cooling_ainsert_other by exact Hne. exact Hc.
      * cbn [map]. constructor; [|exact C]. rewrite in_map_iff. intros (p & Hps & Hp). rewrite Hp0 in Hps. exact (Hout' p Hp Hps).
      * intros p [<-|Hp]; [|apply D; exact Hp].
        rewrite E; [rewrite Hp0; apply alookup_ainsert_same|]. rewrite in_map_iff. intros (q & Hq1 & Hq2). rewrite Hp0 in Hq1. exact (Hout' q Hq2 Hq1).
      * intros k Hk. cbn [map In] in Hk. rewrite E by tauto. apply alookup_ainsert_other. rewrite <- Hp0. intros ->. apply Hk. left. reflexivity.
      * exact F.
    + destruct (IH _ _ _ _ _ _ H) as (A & B & C & D & E & F).
      repeat split; try assumption.
      * intros p Hp. destruct (A p Hp) as (q & Hq & Hn & R). exists q. split; [right; exact Hq|].
        split; [intros Hi; apply Hn; right; exact Hi|exact R].
      * intros q p [->|Hq] Hn Hc Hg; [congruence|]. apply (B q p Hq); [|exact Hc|exact Hg].
        intros [->|Hi]; [|exact (Hn Hi)]. congruence.
Qed.
End Pfn.

Lemma alookup_filter {A} (f : Z * A -> bool) k v m :
  alookup k m = Some v -> f (k, v) = true -> alookup k (filter f m) = Some v.
Proof.
  induction m as [|[k2 v2] m IH]; [discriminate|]. cbn [alookup filter]. destruct (k =? k2) eqn:E.
  - apply Z.eqb_eq in E. subst k2. intros H Hf. inversion H; subst. rewrite Hf. cbn [alookup]. rewrite Z.eqb_refl. reflexivity.
  - intros H Hf. destruct (f (k2, v2)); [cbn [alookup]; rewrite E|]; apply IH; assumption.
Qed.

Definition indexed (h : shandler) : Prop := forall k p, sb_get (sh_buf h) k = Some p -> pseq p = k.

(* one call: what is handed out is buffered, requested, not cooling, each sequence number once; every such packet is
   handed out; the suppressed counter never decreases; buffer and configuration are untouched *)
Theorem packets_for_nack_spec h seqs now h' out :
  indexed h -> sh_packets_for_nack h seqs now = (h', out) ->
  (forall p, In p out -> In (pseq p) seqs /\ sb_get (sh_buf h) (pseq p) = Some p /\ cooling (sh_recent h) (pseq p) now = false) /\
  (forall seq p, In seq seqs -> sb_get (sh_buf h) seq = Some p -> cooling (sh_recent h) seq now = false -> In p out) /\
  NoDup (map pseq out) /\ sh_supp h <= sh_supp h' /\ sh_buf h' = sh_buf h /\ sh_max h' = sh_max h /\ sh_rtx h' = sh_rtx h.
Proof.
  intros Hi H. unfold sh_packets_for_nack in H.
  destruct (pfn_loop (sh_buf h) now seqs [] (sh_recent h) (sh_supp h)) as [[r o] s] eqn:El.
  apply pair_equal_spec in H as [<- <-]. cbn [sh_supp sh_buf sh_max sh_rtx].
  destruct (pfn_spec (sh_buf h) now Hi _ _ _ _ _ _ _ El) as (A & B & C & D & E & F).
  repeat split; try assumption; try reflexivity.
  - destruct (A p H) as (q & Hq & _ & Hg & _). rewrite (Hi _ _ Hg). exact Hq.
  - destruct (A p H) as (q & _ & _ & Hg & _). rewrite (Hi _ _ Hg). exact Hg.
  - destruct (A p H) as (q & _ & _ & Hg & Hc). rewrite (Hi _ _ Hg). exact Hc.
  - intros q p Hq Hg Hc. apply (B q p Hq); [tauto|exact Hc|exact Hg].
Qed.

(* two calls: a sequence number handed out at t1 is not handed out again at t2 while t2 - t1 < cooldown
   (also when the clock went backwards: duration_since saturates at 0) *)
Theorem cooldown_suppresses h seqs1 t1 h1 out1 seqs2 t2 h2 out2 p :
  indexed h -> 0 < NACK_RESEND_COOLDOWN_US ->
  sh_packets_for_nack h seqs1 t1 = (h1, out1) -> sh_packets_for_nack h1 seqs2 t2 = (h2, out2) ->
  In p out1 -> since t2 t1 < NACK_RESEND_COOLDOWN_US ->
  forall q, In q out2 -> pseq q <> pseq p.
Proof.
  intros Hi Hcd H1 H2 Hp Hs q Hq.
  destruct (packets_for_nack_spec h seqs1 t1 h1 out1 Hi H1) as (_ & _ & _ & _ & Hb & _).
  assert (Hi1 : indexed h1) by (unfold indexed; rewrite Hb; exact Hi).
  destruct (packets_for_nack_spec h1 seqs2 t2 h2 out2 Hi1 H2) as (A2 & _).
  destruct (A2 q Hq) as (_ & _ & Hc).
  (* after the first call the cooldown map holds pseq p -> t1 *)
  assert (Hr : alookup (pseq p) (sh_recent h1) = Some t1).
  { unfold sh_packets_for_nack in H1.
    destruct (pfn_loop (sh_buf h) t1 seqs1 [] (sh_recent h) (sh_supp h)) as [[r o] s] eqn:El.
    apply pair_equal_spec in H1 as [<- <-]. cbn [sh_recent].
    destruct (pfn_spec (sh_buf h) t1 Hi _ _ _ _ _ _ _ El) as (_ & _ & _ & D & _).
    specialize (D p Hp). destruct (len r >? sh_max h * RECENT_PRUNE_FACTOR); [|exact D].
    apply alookup_filter; [exact D|]. cbn [snd]. apply Z.ltb_lt. unfold since. rewrite Z.sub_diag. cbn. exact Hcd. }
  intros Heq. rewrite Heq in Hc. unfold cooling in Hc. rewrite Hr in Hc. apply Z.ltb_ge in Hc. lia.
Qed.

(* on_packet_sent keeps the invariant; RTX packets are not buffered *)
Theorem on_sent_indexed h p : 1 <= sh_max h -> (exists ps, Inv (sh_buf h) (sh_max h) ps) ->
  exists ps', Inv (sh_buf (sh_on_sent h p)) (sh_max (sh_on_sent h p)) ps' /\
  (sh_rtx h <> 0 /\ h_ssrc (p_hdr p) = sh_rtx h -> sh_on_sent h p = h) /\
  (~ (sh_rtx h <> 0 /\ h_ssrc (p_hdr p) = sh_rtx h) -> sb_get (sh_buf (sh_on_sent h p)) (pseq p) = Some p).
Proof.
  intros Hm [ps I]. unfold sh_on_sent.
  destruct (negb (sh_rtx h =? 0) && (h_ssrc (p_hdr p) =? sh_rtx h)) eqn:E.
  - apply andb_true_iff in E as [E1 E2]. apply negb_true_iff, Z.eqb_neq in E1. apply Z.eqb_eq in E2.
    exists ps. split; [exact I|]. split; [reflexivity|]. intros Hn. exfalso. apply Hn. split; assumption.
  - cbn [sh_buf sh_max]. destruct (push_inv (sh_buf h) (sh_max h) ps p Hm I) as [I' G].
    exists (ps ++ [p]). split; [exact I'|]. split; [|intros _; exact G].
    intros [A B]. exfalso. apply andb_false_iff in E as [E|E].
    + apply negb_false_iff, Z.eqb_eq in E. contradiction.
    + apply Z.eqb_neq in E. contradiction.
Qed.

Lemma new_handler_ok n : 1 <= sh_max (sh_new n) /\ Inv (sh_buf (sh_new n)) (sh_max (sh_new n)) [].
Proof. unfold sh_new, SENDER_MIN_SIZE. cbn [sh_max sh_buf]. split; [lia|apply inv_empty; lia]. Qed.

(* the two unit tests of the repository, on the model *)
Definition tp (sq : Z) : packet := mkPkt (mkHdr false 96 sq 0 42 [] None) [sq] 0.
Example test_bounded_and_indexed :
  let h := fold_left sh_on_sent (map tp [1; 2; 3; 4; 5; 6; 7; 8; 9; 10]) (sh_new 4) in
  sb_len (sh_buf h) = 4 /\
  snd (sh_packets_for_nack h [7; 8; 9; 10] 0) = map tp [7; 8; 9; 10] /\
  snd (sh_packets_for_nack h [1; 2; 3; 4; 5; 6] 0) = [].
Proof. vm_compute. repeat split. Qed.
Example test_cooldown :
  let h0 := sh_on_sent (sh_new 8) (tp 50) in
  let '(h1, first) := sh_packets_for_nack h0 [50; 50] 0 in
  let '(h2, second) := sh_packets_for_nack h1 [50] 5000 in
  let '(h3, third) := sh_packets_for_nack h2 [50] 26000 in
  first = [tp 50] /\ sh_supp h1 = 1 /\ second = [] /\ sh_supp h2 = 2 /\ third = [tp 50].
Proof. vm_compute. repeat split. Qed.

(* ------------------------------------------------------------------ distinct sequence numbers: a sliding window *)
Lemma drop_nonpos {A} (l : list A) n : n <= 0 -> drop n l = l.
Proof. intros H. unfold drop. replace (Z.to_nat n) with 0%nat by lia. reflexivity. Qed.
Lemma drop_app_le {A} (a b : list A) n : 0 <= n <= len a -> drop n (a ++ b) = drop n a ++ b.
Proof.
  intros H. unfold drop. rewrite skipn_app. replace (Z.to_nat n - length a)%nat with 0%nat by (unfold len in H; lia). reflexivity.
Qed.
Lemma drop_drop {A} (l : list A) a b : 0 <= a -> 0 <= b -> drop a (drop b l) = drop (a + b) l.
Proof.
  intros Ha Hb. unfold drop. replace (Z.to_nat (a + b)) with (Z.to_nat b + Z.to_nat a)%nat by lia.
  generalize (Z.to_nat a) (Z.to_nat b). clear. intros x y. revert l.
  induction y as [|y IH]; intros l; [reflexivity|]. destruct l; [cbn; rewrite skipn_nil; reflexivity|]. cbn [skipn Nat.add]. apply IH.
Qed.
Lemma map_drop {A B} (f : A -> B) n l : map f (drop n l) = drop n (map f l).
Proof. unfold drop. symmetry. apply skipn_map. Qed.
Lemma len_map {A B} (f : A -> B) l : len (map f l) = len l.
Proof. unfold len. rewrite map_length. reflexivity. Qed.

Theorem sender_buffer_window max : 1 <= max -> forall ps,
  NoDup (map pseq ps) ->
  sb_order (sb_run max ps) = map pseq (drop (len ps - max) ps) /\
  (forall p, In p (drop (len ps - max) ps) -> sb_get (sb_run max ps) (pseq p) = Some p) /\
  (forall p, In p ps -> ~ In p (drop (len ps - max) ps) -> sb_get (sb_run max ps) (pseq p) = None).
Proof.
  intros Hmax ps Hnd.
  assert (Hord : sb_order (sb_run max ps) = map pseq (drop (len ps - max) ps)).
  { revert Hnd. induction ps as [|p ps IH] using rev_ind; intros Hnd; [unfold drop; rewrite skipn_nil; reflexivity|].
    rewrite map_app in Hnd. cbn [map] in Hnd. destruct (NoDup_app_split _ _ Hnd) as (N1 & _ & Hdis).
    specialize (IH N1).
    assert (I : Inv (sb_run max ps) max ps) by (apply (run_inv_gen max Hmax ps sb_empty []); apply inv_empty; lia).
    unfold sb_run. rewrite fold_left_app. cbn [fold_left]. fold (sb_run max ps). unfold sb_push.
    destruct (alookup (pseq p) (sb_map (sb_run max ps))) as [old|] eqn:El.
    { exfalso. destruct (inv_index _ _ _ I (pseq p) old El) as [Hs Hin].
      apply (Hdis (pseq p)); [rewrite <- Hs; apply in_map; exact Hin|left; reflexivity]. }
    rewrite (evict_spec max ltac:(lia)) by apply le_n. cbn [sb_order]. rewrite IH.
    pose proof (len_nonneg ps) as HL.
    rewrite len_app, len_map, len_app. change (len [pseq p]) with 1. change (len [p]) with 1.
    change [pseq p] with (map pseq [p]). rewrite <- map_app, <- map_drop. f_equal.
    destruct (Z_lt_ge_dec (len ps) max) as [Hlt|Hge].
    - rewrite (drop_nonpos ps) by lia. reflexivity.
    - rewrite (len_drop ps) by lia. replace (len ps - (len ps - max) + 1 - max) with 1 by lia.
      rewrite drop_app_le by (rewrite len_drop by lia; lia).
      rewrite drop_drop by lia. rewrite drop_app_le by lia. f_equal. f_equal. lia. }
  split; [exact Hord|].
  destruct (sender_buffer_invariant max ps Hmax) as (_ & _ & _ & Hsync & Hidx). cbv zeta in *.
  assert (Huniq : forall p q, In p ps -> In q ps -> pseq p = pseq q -> p = q).
  { clear -Hnd. induction ps as [|x ps IH]; intros p q Hp Hq He; [destruct Hp|].
    cbn [map] in Hnd. inversion Hnd as [|? ? Hn Hd]; subst.
    destruct Hp as [<-|Hp], Hq as [<-|Hq]; try reflexivity.
    - exfalso. apply Hn. rewrite He. apply in_map. exact Hq.
    - exfalso. apply Hn. rewrite <- He. apply in_map. exact Hp.
    - apply IH; assumption. }
  split.
  - intros p Hp. assert (Hin : In (pseq p) (sb_order (sb_run max ps))) by (rewrite Hord; apply in_map; exact Hp).
    apply Hsync in Hin as [q Hq]. destruct (Hidx _ _ Hq) as [Hs Hqin].
    rewrite Hq. f_equal. apply Huniq; [exact Hqin|eapply In_skipn; exact Hp|exact Hs].
  - intros p Hp Hn. destruct (sb_get (sb_run max ps) (pseq p)) as [q|] eqn:Eq; [|reflexivity]. exfalso.
    destruct (Hidx _ _ Eq) as [Hs Hqin]. assert (q = p) by (apply Huniq; assumption). subst q.
    assert (Hin : In (pseq p) (sb_order (sb_run max ps))) by (apply Hsync; eauto).
    rewrite Hord in Hin. apply in_map_iff in Hin as (r & Hr & Hrin).
    assert (r = p) by (apply Huniq; [eapply In_skipn; exact Hrin|exact Hp|exact Hr]). subst r. exact (Hn Hrin).
Qed.
