(* Open / Close events, for ALL input histories (any DATA chunks -- genuine or not --, DCEP
   messages, setup chunks, FORWARD-TSN, close_data_channel calls, teardown, in any order):
     * every channel announces Open at most once and Close at most once;
     * a channel created in-band by a peer's DCEP OPEN announces Open before anything else;
     * establishing the association opens every negotiated channel that is still Connecting. *)
From Coq Require Import ZArith List Bool Lia.
From RV Require Import Lib.Wrap Gen.Consts Gen.Serial Gen.Sctp Model.SctpRecv Proofs.SctpRecvBase.
Import ListNotations.
Open Scope Z_scope.

Definition is_open (d : dcev) : bool := match d with EOpen => true | _ => false end.
Definition is_close (d : dcev) : bool := match d with EClose => true | _ => false end.
Definition cnt (p : dcev -> bool) (sid : Z) (evs : list event) : nat := length (filter p (evs_of sid evs)).

Lemma evs_of_app sid a b : evs_of sid (a ++ b) = evs_of sid a ++ evs_of sid b.
Proof. unfold evs_of. apply flat_map_app. Qed.
Lemma cnt_app p sid a b : cnt p sid (a ++ b) = (cnt p sid a + cnt p sid b)%nat.
Proof. unfold cnt. rewrite evs_of_app, filter_app, app_length. reflexivity. Qed.

Lemma evs_of_deliver sid x ms : x <> sid -> evs_of sid (deliver x ms) = [].
Proof.
  intros Hne. unfold evs_of, deliver. induction ms as [|m ms IH]; cbn; [reflexivity|].
  destruct (Z.eqb_spec x sid); [contradiction|exact IH].
Qed.
Lemma cnt_deliver p x sid ms : (forall m, p (EMsg m) = false) -> cnt p sid (deliver x ms) = 0%nat.
Proof.
  intros Hp. unfold cnt, evs_of, deliver. induction ms as [|m ms IH]; cbn; [reflexivity|].
  destruct (x =? sid); cbn; [rewrite Hp|]; exact IH.
Qed.

Lemma cnt_cons_ev p sid s d rest :
  cnt p sid (Ev s d :: rest) = ((if (s =? sid)%Z then (if p d then 1 else 0) else 0) + cnt p sid rest)%nat.
Proof. unfold cnt, evs_of. cbn [flat_map]. destruct (s =? sid); cbn; [destruct (p d)|]; reflexivity. Qed.
Lemma cnt_of_nil p sid evs : evs_of sid evs = [] -> cnt p sid evs = 0%nat.
Proof. intros H. unfold cnt. rewrite H. reflexivity. Qed.
Lemma evs_of_cons_ev sid s d rest : evs_of sid (Ev s d :: rest) = (if s =? sid then [d] else []) ++ evs_of sid rest.
Proof. reflexivity. Qed.

(* ------------------------------------------------------------------ the invariant *)
Definition connecting (c : chan) : Prop := ch_state c = DataChannelState_Connecting.
Definition closed (c : chan) : Prop := ch_state c = DataChannelState_Closed.

Definition oc_inv (cs : list chan) (evs : list event) : Prop :=
  NoDup (map ch_id cs) /\
  forall sid,
    (cnt is_open sid evs = 0%nat \/
     (cnt is_open sid evs = 1%nat /\ exists ch, find_chan sid cs = Some ch /\ ~ connecting ch)) /\
    (cnt is_close sid evs = 0%nat \/
     (cnt is_close sid evs = 1%nat /\ exists ch, find_chan sid cs = Some ch /\ closed ch)) /\
    (* a channel that does not exist has no events; one created in-band starts with Open *)
    (find_chan sid cs = None -> evs_of sid evs = []).

(* a channel absent before the step is still absent and silent, or was created and opened first *)
Definition absent_ok (cs cs' : list chan) (e1 : list event) : Prop :=
  forall sid, find_chan sid cs = None ->
    (find_chan sid cs' = None /\ evs_of sid e1 = []) \/ exists r, evs_of sid e1 = EOpen :: r.

Definition oc_step (cs cs' : list chan) (e1 : list event) : Prop :=
  (forall evs, oc_inv cs evs -> oc_inv cs' (evs ++ e1)) /\ absent_ok cs cs' e1.

Lemma oc_step_trans cs cs1 cs2 e1 e2 : oc_step cs cs1 e1 -> oc_step cs1 cs2 e2 -> oc_step cs cs2 (e1 ++ e2).
Proof.
  intros [H1 A1] [H2 A2]. split.
  - intros evs H. rewrite app_assoc. apply H2, H1, H.
  - intros sid Hn. rewrite evs_of_app. destruct (A1 sid Hn) as [[Hn1 He1]|[r Hr]].
    + rewrite He1. destruct (A2 sid Hn1) as [[Hn2 He2]|[r Hr]]; [left; split; assumption|right; exists r; exact Hr].
    + right. rewrite Hr. eexists. reflexivity.
Qed.

Lemma oc_step_refl cs : oc_step cs cs [].
Proof.
  split; [intros evs H; rewrite app_nil_r; exact H|].
  intros sid Hn. left. split; [exact Hn|reflexivity].
Qed.

(* same ids and states, pointwise *)
Definition st_sim (c c' : chan) : Prop := ch_id c = ch_id c' /\ ch_state c = ch_state c'.

Lemma st_sim_ids cs cs' : Forall2 st_sim cs cs' -> map ch_id cs' = map ch_id cs.
Proof. induction 1 as [|x y cs cs' [Hi _] _ IH]; cbn; [reflexivity|]. rewrite IH, Hi. reflexivity. Qed.

Lemma st_sim_find sid cs cs' :
  Forall2 st_sim cs cs' ->
  match find_chan sid cs, find_chan sid cs' with
  | Some c, Some c' => ch_state c = ch_state c'
  | None, None => True
  | _, _ => False
  end.
Proof.
  induction 1 as [|x y cs cs' [Hi Hs] _ IH]; cbn; [exact I|]. rewrite <- Hi.
  destruct (ch_id x =? sid); [exact Hs|exact IH].
Qed.

Lemma st_sim_refl cs : Forall2 st_sim cs cs.
Proof. induction cs; constructor; [split; reflexivity|assumption]. Qed.

Lemma upd_buf_st_sim sid b cs : Forall2 st_sim cs (upd_chan sid (with_buf b) cs).
Proof.
  induction cs as [|c cs IH]; cbn; [constructor|].
  destruct (ch_id c =? sid); constructor; try (split; reflexivity); [apply st_sim_refl|exact IH].
Qed.

(* a step that keeps ids and states and emits neither Open nor Close nor events of absent channels *)
Lemma quiet_step cs cs' e1 :
  Forall2 st_sim cs cs' ->
  (forall sid, cnt is_open sid e1 = 0%nat /\ cnt is_close sid e1 = 0%nat) ->
  (forall sid, find_chan sid cs = None -> evs_of sid e1 = []) ->
  oc_step cs cs' e1.
Proof.
  intros Hsim Hq Habs. split.
  2:{ intros sid Hn. left. split; [|apply Habs; exact Hn].
      pose proof (st_sim_find sid _ _ Hsim) as Hf. rewrite Hn in Hf. destruct (find_chan sid cs'); [contradiction|reflexivity]. }
  intros evs [Hnd Hinv]. split; [rewrite (st_sim_ids _ _ Hsim); exact Hnd|].
  intros sid. destruct (Hq sid) as [Ho Hc]. destruct (Hinv sid) as (H1 & H2 & H3).
  rewrite !cnt_app, Ho, Hc, !Nat.add_0_r.
  pose proof (st_sim_find sid _ _ Hsim) as Hf.
  repeat split.
  - destruct H1 as [H1|(H1 & ch & Hch & Hn)]; [left; exact H1|right; split; [exact H1|]].
    rewrite Hch in Hf. destruct (find_chan sid cs') as [ch'|]; [|contradiction].
    exists ch'. split; [reflexivity|]. unfold connecting in *. congruence.
  - destruct H2 as [H2|(H2 & ch & Hch & Hn)]; [left; exact H2|right; split; [exact H2|]].
    rewrite Hch in Hf. destruct (find_chan sid cs') as [ch'|]; [|contradiction].
    exists ch'. split; [reflexivity|]. unfold closed in *. congruence.
  - intros Hnone. destruct (find_chan sid cs) as [ch|] eqn:E; [rewrite Hnone in Hf; contradiction|].
    rewrite evs_of_app, (H3 eq_refl), (Habs sid E). reflexivity.
Qed.

Lemma find_upd_state x sid s cs :
  find_chan x (upd_chan sid (with_state s) cs) = if x =? sid then option_map (with_state s) (find_chan sid cs) else find_chan x cs.
Proof. apply find_upd_chan. intros c. reflexivity. Qed.

Lemma upd_chan_ids sid f cs : (forall c, ch_id (f c) = ch_id c) -> map ch_id (upd_chan sid f cs) = map ch_id cs.
Proof.
  intros Hf. induction cs as [|c cs IH]; cbn; [reflexivity|].
  destruct (ch_id c =? sid); cbn; [rewrite Hf; reflexivity|rewrite IH; reflexivity].
Qed.

(* changing the state of one existing channel, with the event list of that change *)
Lemma state_step cs sid ch s e1 :
  find_chan sid cs = Some ch ->
  (forall x, x <> sid -> evs_of x e1 = []) ->
  (* Open is emitted only on the Connecting -> not-Connecting transition, at most once *)
  (cnt is_open sid e1 = 0%nat \/ (cnt is_open sid e1 = 1%nat /\ connecting ch)) ->
  s <> DataChannelState_Connecting ->
  (* Close is emitted only on the not-Closed -> Closed transition, at most once *)
  (cnt is_close sid e1 = 0%nat \/ (cnt is_close sid e1 = 1%nat /\ ~ closed ch /\ s = DataChannelState_Closed)) ->
  (closed ch -> s = DataChannelState_Closed) ->
  oc_step cs (upd_chan sid (with_state s) cs) e1.
Proof.
  intros Hfind Hother Hopen Hs Hclose Hstay. split.
  2:{ intros x Hn. left. assert (x <> sid) by (intros ->; congruence).
      rewrite find_upd_state. destruct (Z.eqb_spec x sid); [contradiction|]. split; [exact Hn|apply Hother; assumption]. }
  intros evs [Hnd Hinv].
  split; [rewrite upd_chan_ids by reflexivity; exact Hnd|].
  intros x. destruct (Hinv x) as (H1 & H2 & H3). rewrite !cnt_app, find_upd_state.
  destruct (Z.eqb_spec x sid) as [->|Hne].
  - rewrite Hfind. cbn [option_map]. repeat split.
    + destruct H1 as [H1|(H1 & c0 & Hc0 & Hn)].
      * rewrite H1. destruct Hopen as [Ho|[Ho _]]; rewrite Ho; [left; reflexivity|right].
        split; [reflexivity|]. exists (with_state s ch). split; [reflexivity|exact Hs].
      * rewrite Hfind in Hc0. injection Hc0 as <-.
        destruct Hopen as [Ho|[_ Hcon]]; [|contradiction]. rewrite Ho, H1. right.
        split; [reflexivity|]. exists (with_state s ch). split; [reflexivity|exact Hs].
    + destruct H2 as [H2|(H2 & c0 & Hc0 & Hn)].
      * rewrite H2. destruct Hclose as [Hc|(Hc & _ & ->)]; rewrite Hc; [left; reflexivity|right].
        split; [reflexivity|]. exists (with_state DataChannelState_Closed ch). split; reflexivity.
      * rewrite Hfind in Hc0. injection Hc0 as <-.
        destruct Hclose as [Hc|(_ & Hnc & _)]; [|contradiction]. rewrite Hc, H2. right.
        split; [reflexivity|]. exists (with_state s ch). split; [reflexivity|]. unfold closed. cbn. apply Hstay, Hn.
    + discriminate.
  - assert (He : evs_of x e1 = []) by (apply Hother; exact Hne).
    assert (Hz : forall p, cnt p x e1 = 0%nat) by (intros p; unfold cnt; rewrite He; reflexivity).
    rewrite !Hz, !Nat.add_0_r. repeat split; try assumption.
    intros Hn. rewrite evs_of_app, (H3 Hn), He. reflexivity.
Qed.

Lemma NoDup_app_one {A} (l : list A) x : NoDup l -> ~ In x l -> NoDup (l ++ [x]).
Proof.
  induction 1 as [|y l Hy Hl IH]; intros Hx; cbn; [constructor; [intros []|constructor]|].
  constructor.
  - intros Hin. apply in_app_or in Hin. destruct Hin as [Hin|[<-|[]]]; [contradiction|apply Hx; left; reflexivity].
  - apply IH. intros Hin. apply Hx. right. exact Hin.
Qed.

Lemma find_chan_app_one x cs ch :
  find_chan x (cs ++ [ch]) =
  match find_chan x cs with Some c => Some c | None => if ch_id ch =? x then Some ch else None end.
Proof.
  induction cs as [|c cs IH]; cbn; [destruct (ch_id ch =? x); reflexivity|].
  destruct (ch_id c =? x); [reflexivity|apply IH].
Qed.

Lemma find_none_not_in sid cs : find_chan sid cs = None -> ~ In sid (map ch_id cs).
Proof.
  induction cs as [|x cs IH]; cbn; [intros _ []|].
  destruct (Z.eqb_spec (ch_id x) sid) as [E|E]; [discriminate|].
  intros Hn [H|H]; [contradiction|apply IH; assumption].
Qed.

(* a channel created in-band: absent before, Open first *)
Lemma new_step cs ch rest :
  find_chan (ch_id ch) cs = None -> ~ connecting ch ->
  (forall x, evs_of x rest = []) ->
  oc_step cs (cs ++ [ch]) (Ev (ch_id ch) EOpen :: rest).
Proof.
  intros Hnone Hnc Hrest.
  pose proof (fun x => find_chan_app_one x cs ch) as Hfa.
  split.
  2:{ intros x Hn. rewrite evs_of_cons_ev, Hrest, Hfa, Hn.
      destruct (Z.eqb_spec (ch_id ch) x); [right; eexists; reflexivity|left; split; reflexivity]. }
  intros evs [Hnd Hinv].
  split.
  - rewrite map_app. cbn [map]. apply NoDup_app_one; [exact Hnd|]. apply find_none_not_in. exact Hnone.
  - intros x. destruct (Hinv x) as (H1 & H2 & H3). rewrite !cnt_app, Hfa.
    rewrite !cnt_cons_ev, !(cnt_of_nil _ _ _ (Hrest x)). cbn [is_open is_close]. rewrite !Nat.add_0_r.
    destruct (Z.eqb_spec (ch_id ch) x) as [<-|Hne].
    + rewrite Hnone in *. specialize (H3 eq_refl).
      rewrite !(cnt_of_nil _ _ _ H3). cbn [Nat.add]. repeat split.
      * right. split; [reflexivity|]. exists ch. split; [reflexivity|exact Hnc].
      * left. reflexivity.
      * discriminate.
    + rewrite !Nat.add_0_r. repeat split.
      * destruct H1 as [H1|(H1 & c0 & Hc0 & Hn)]; [left; exact H1|right; split; [exact H1|]].
        exists c0. rewrite Hc0. split; [reflexivity|exact Hn].
      * destruct H2 as [H2|(H2 & c0 & Hc0 & Hn)]; [left; exact H2|right; split; [exact H2|]].
        exists c0. rewrite Hc0. split; [reflexivity|exact Hn].
      * destruct (find_chan x cs) eqn:E; [discriminate|]. intros _.
        rewrite evs_of_app, (H3 eq_refl), evs_of_cons_ev, Hrest.
        destruct (Z.eqb_spec (ch_id ch) x); [contradiction|reflexivity].
Qed.

(* ------------------------------------------------------------------ loops over all channels *)
Section Bulk.
Variables (f : chan -> chan) (g : chan -> list event).
Hypothesis f_id : forall c, ch_id (f c) = ch_id c.
Hypothesis g_own : forall c x, x <> ch_id c -> evs_of x (g c) = [].
Hypothesis g_open : forall c, cnt is_open (ch_id c) (g c) = 0%nat \/ (cnt is_open (ch_id c) (g c) = 1%nat /\ connecting c).
Hypothesis f_open : forall c, ~ connecting c -> ~ connecting (f c).
Hypothesis fg_open : forall c, cnt is_open (ch_id c) (g c) = 1%nat -> ~ connecting (f c).
Hypothesis g_close : forall c, cnt is_close (ch_id c) (g c) = 0%nat \/
                               (cnt is_close (ch_id c) (g c) = 1%nat /\ ~ closed c /\ closed (f c)).
Hypothesis f_close : forall c, closed c -> closed (f c).

Lemma bulk_find x cs : find_chan x (map f cs) = option_map f (find_chan x cs).
Proof. induction cs as [|c cs IH]; cbn; [reflexivity|]. rewrite f_id. destruct (ch_id c =? x); [reflexivity|exact IH]. Qed.

Lemma bulk_evs x cs :
  NoDup (map ch_id cs) ->
  evs_of x (flat_map g cs) = match find_chan x cs with Some c => evs_of x (g c) | None => [] end.
Proof.
  induction cs as [|c cs IH]; intros Hnd; cbn [flat_map find_chan map]; [reflexivity|].
  cbn [map] in Hnd. inversion Hnd as [|? ? Hnin Hnd']; subst. rewrite evs_of_app, (IH Hnd').
  destruct (Z.eqb_spec (ch_id c) x) as [E|E].
  - assert (Hn : find_chan x cs = None).
    { destruct (find_chan x cs) as [c'|] eqn:Ef; [|reflexivity]. exfalso. apply Hnin.
      apply find_chan_id in Ef as Hid. rewrite E, <- Hid. apply in_map.
      clear - Ef. induction cs as [|y cs IHc]; cbn in Ef; [discriminate|].
      destruct (ch_id y =? x); [injection Ef as <-; left; reflexivity|right; apply IHc; exact Ef]. }
    rewrite Hn, app_nil_r. reflexivity.
  - rewrite (g_own c x) by congruence. reflexivity.
Qed.

Lemma bulk_step cs : oc_step cs (map f cs) (flat_map g cs).
Proof.
  split.
  2:{ intros x Hn. left. rewrite bulk_find, Hn. split; [reflexivity|].
      assert (H : forall l, find_chan x l = None -> evs_of x (flat_map g l) = []).
      { induction l as [|c l IH]; cbn [flat_map find_chan]; [reflexivity|]. destruct (Z.eqb_spec (ch_id c) x) as [E|E]; [discriminate|].
        intros Hl. rewrite evs_of_app, (IH Hl), (g_own c x) by congruence. reflexivity. }
      apply H. exact Hn. }
  intros evs [Hnd Hinv]. split.
  - rewrite map_map. erewrite map_ext; [exact Hnd|]. intros c. apply f_id.
  - intros x. destruct (Hinv x) as (H1 & H2 & H3). rewrite !cnt_app, bulk_find.
    assert (Hc : forall p, cnt p x (flat_map g cs) = match find_chan x cs with Some c => cnt p x (g c) | None => 0%nat end).
    { intros p. unfold cnt. rewrite (bulk_evs x cs Hnd). destruct (find_chan x cs); reflexivity. }
    rewrite !Hc. destruct (find_chan x cs) as [c|] eqn:Ef.
    + apply find_chan_id in Ef as Hid. subst x. cbn [option_map]. repeat split.
      * destruct H1 as [H1|(H1 & c0 & Hc0 & Hn)].
        -- rewrite H1. destruct (g_open c) as [Ho|[Ho Hcon]]; rewrite Ho; [left; reflexivity|right].
           split; [reflexivity|]. exists (f c). split; [reflexivity|]. apply fg_open. exact Ho.
        -- injection Hc0 as <-. destruct (g_open c) as [Ho|[_ Hcon]]; [|contradiction]. rewrite Ho, H1. right.
           split; [reflexivity|]. exists (f c). split; [reflexivity|]. apply f_open. exact Hn.
      * destruct H2 as [H2|(H2 & c0 & Hc0 & Hn)].
        -- rewrite H2. destruct (g_close c) as [Hcl|(Hcl & _ & Hf)]; rewrite Hcl; [left; reflexivity|right].
           split; [reflexivity|]. exists (f c). split; [reflexivity|exact Hf].
        -- injection Hc0 as <-. destruct (g_close c) as [Hcl|(_ & Hnc & _)]; [|contradiction]. rewrite Hcl, H2. right.
           split; [reflexivity|]. exists (f c). split; [reflexivity|]. apply f_close. exact Hn.
      * discriminate.
    + cbn [option_map]. rewrite !Nat.add_0_r. repeat split.
      * destruct H1 as [H1|(_ & c0 & Hc0 & _)]; [left; exact H1|discriminate].
      * destruct H2 as [H2|(_ & c0 & Hc0 & _)]; [left; exact H2|discriminate].
      * intros _. rewrite evs_of_app, (H3 eq_refl), (bulk_evs x cs Hnd), Ef. reflexivity.
Qed.
End Bulk.

Definition f_est (c : chan) : chan :=
  if DataChannelState_eqb (ch_state c) DataChannelState_Connecting
  then (if ch_negotiated c then with_state DataChannelState_Open c else c) else c.
Definition g_est (c : chan) : list event :=
  if DataChannelState_eqb (ch_state c) DataChannelState_Connecting
  then (if ch_negotiated c then [Ev (ch_id c) EOpen] else [TxDcep (ch_id c) (marshal_open (open_of_chan c))]) else [].

Lemma on_established_eq cs : on_established cs = (map f_est cs, flat_map g_est cs).
Proof.
  induction cs as [|c cs IH]; [reflexivity|]. cbn [on_established map flat_map]. rewrite IH.
  unfold f_est, g_est. destruct (DataChannelState_eqb (ch_state c) DataChannelState_Connecting); [destruct (ch_negotiated c)|]; reflexivity.
Qed.

Lemma state_eqb_spec a b : DataChannelState_eqb a b = true <-> a = b.
Proof. destruct a, b; cbn; split; intros H; try reflexivity; try discriminate. Qed.

Lemma est_step cs : oc_step cs (fst (on_established cs)) (snd (on_established cs)).
Proof.
  rewrite on_established_eq. cbn [fst snd]. apply bulk_step; unfold f_est, g_est; intros c.
  - destruct (DataChannelState_eqb _ _); [destruct (ch_negotiated c)|]; reflexivity.
  - intros x Hne. destruct (DataChannelState_eqb _ _); [destruct (ch_negotiated c)|]; try reflexivity.
    rewrite evs_of_cons_ev. destruct (Z.eqb_spec (ch_id c) x); [congruence|reflexivity].
  - destruct (DataChannelState_eqb _ _) eqn:E; [destruct (ch_negotiated c)|]; try (left; reflexivity).
    right. rewrite cnt_cons_ev, Z.eqb_refl. split; [reflexivity|]. apply state_eqb_spec. exact E.
  - intros Hn. destruct (DataChannelState_eqb _ _) eqn:E; [|exact Hn]. apply state_eqb_spec in E. contradiction.
  - intros H1. destruct (DataChannelState_eqb _ _) eqn:E; [destruct (ch_negotiated c)|].
    + unfold connecting. cbn. discriminate.
    + cbn in H1. discriminate.
    + intros Hc. apply state_eqb_spec in Hc. congruence.
  - left. destruct (DataChannelState_eqb _ _); [destruct (ch_negotiated c)|]; try reflexivity.
    rewrite cnt_cons_ev. destruct (ch_id c =? ch_id c); reflexivity.
  - intros Hc. destruct (DataChannelState_eqb _ _) eqn:E; [|exact Hc]. apply state_eqb_spec in E.
    unfold closed in Hc. congruence.
Qed.

Definition f_td (c : chan) : chan :=
  if DataChannelState_eqb (ch_state c) DataChannelState_Closed then c else with_state DataChannelState_Closed c.
Definition g_td (c : chan) : list event :=
  if DataChannelState_eqb (ch_state c) DataChannelState_Closed then [] else [Ev (ch_id c) EClose].

Lemma teardown_eq cs : teardown cs = (map f_td cs, flat_map g_td cs).
Proof.
  induction cs as [|c cs IH]; [reflexivity|]. cbn [teardown map flat_map]. rewrite IH.
  unfold f_td, g_td. destruct (DataChannelState_eqb (ch_state c) DataChannelState_Closed); reflexivity.
Qed.

Lemma td_step cs : oc_step cs (fst (teardown cs)) (snd (teardown cs)).
Proof.
  rewrite teardown_eq. cbn [fst snd]. apply bulk_step; unfold f_td, g_td; intros c.
  - destruct (DataChannelState_eqb _ _); reflexivity.
  - intros x Hne. destruct (DataChannelState_eqb _ _); [reflexivity|].
    rewrite evs_of_cons_ev. destruct (Z.eqb_spec (ch_id c) x); [congruence|reflexivity].
  - left. destruct (DataChannelState_eqb _ _); [reflexivity|].
    rewrite cnt_cons_ev. destruct (ch_id c =? ch_id c); reflexivity.
  - intros Hn. destruct (DataChannelState_eqb _ _); [exact Hn|]. unfold connecting. cbn. discriminate.
  - destruct (DataChannelState_eqb _ _); cbn; discriminate.
  - destruct (DataChannelState_eqb _ _) eqn:E; [left; reflexivity|right].
    rewrite cnt_cons_ev, Z.eqb_refl. split; [reflexivity|]. split; [|reflexivity].
    intros Hc. apply state_eqb_spec in Hc. congruence.
  - intros Hc. destruct (DataChannelState_eqb _ _); [exact Hc|reflexivity].
Qed.

(* ------------------------------------------------------------------ every step function *)
Lemma evs_of_deliver_self sid ms p : (forall m, p (EMsg m) = false) -> filter p (evs_of sid (deliver sid ms)) = [].
Proof.
  intros Hp. unfold evs_of, deliver. induction ms as [|m ms IH]; cbn; [reflexivity|].
  rewrite Z.eqb_refl. cbn. rewrite Hp. exact IH.
Qed.

Lemma proc_data_step a p : oc_step (a_chans a) (a_chans (fst (proc_data a p))) (snd (proc_data a p)).
Proof.
  unfold proc_data. destruct (find_chan (p_sid p) (a_chans a)) as [ch|] eqn:Ef; [|apply oc_step_refl].
  assert (Hdel : forall ms, (forall sid, cnt is_open sid (deliver (p_sid p) ms) = 0%nat /\ cnt is_close sid (deliver (p_sid p) ms) = 0%nat) /\
                            (forall sid, find_chan sid (a_chans a) = None -> evs_of sid (deliver (p_sid p) ms) = [])).
  { intros ms. split.
    - intros sid. split; apply cnt_deliver; reflexivity.
    - intros sid Hn. apply evs_of_deliver. intros E. rewrite E in Ef. congruence. }
  destruct (rx_flag_e (p_flags p)).
  - destruct (rx_flag_u (p_flags p) || negb (ch_ordered ch)).
    + cbn [fst snd a_chans]. apply quiet_step; [apply upd_buf_st_sim| |].
      * apply (proj1 (Hdel [_])).
      * apply (proj2 (Hdel [_])).
    + destruct (enqueue _ _ _) as [ready s']. cbn [fst snd a_chans]. apply quiet_step; [apply upd_buf_st_sim| |]; apply Hdel.
  - cbn [fst snd a_chans]. apply quiet_step; [apply upd_buf_st_sim| |].
    + intros sid. split; reflexivity.
    + reflexivity.
Qed.

Lemma handle_dcep_step a sid d :
  oc_step (a_chans a) (a_chans (fst (fst (handle_dcep a sid d)))) (snd (fst (handle_dcep a sid d))).
Proof.
  unfold handle_dcep. destruct d as [|mt d']; [apply oc_step_refl|].
  destruct (mt =? DCEP_TYPE_OPEN).
  - destruct (unmarshal_open (mt :: d')) as [o|]; [|apply oc_step_refl].
    destruct (find_chan sid (a_chans a)) as [ch|] eqn:Ef; cbn [fst snd a_chans].
    + apply quiet_step; [apply st_sim_refl| |]; intros x; [split|]; reflexivity.
    + apply (new_step (a_chans a) (chan_of_open sid o)); [exact Ef|cbn; discriminate|reflexivity].
  - destruct (mt =? DCEP_TYPE_ACK); [|apply oc_step_refl].
    destruct (find_chan sid (a_chans a)) as [ch|] eqn:Ef; [|apply oc_step_refl].
    destruct (DataChannelState_eqb (ch_state ch) DataChannelState_Connecting) eqn:E; [|apply oc_step_refl].
    cbn [fst snd a_chans]. apply (state_step _ sid ch); try assumption.
    + intros x Hne. rewrite evs_of_cons_ev. destruct (Z.eqb_spec sid x); [congruence|reflexivity].
    + right. rewrite cnt_cons_ev, Z.eqb_refl. split; [reflexivity|]. apply state_eqb_spec. exact E.
    + discriminate.
    + left. rewrite cnt_cons_ev. destruct (sid =? sid); reflexivity.
    + intros Hc. apply state_eqb_spec in E. unfold closed in Hc. congruence.
Qed.

Lemma proc_step a p : oc_step (a_chans a) (a_chans (fst (fst (proc a p)))) (snd (fst (proc a p))).
Proof.
  unfold proc. destruct (p_ppid p =? DATA_CHANNEL_PPID_DCEP).
  - destruct (negb (rx_flag_e (p_flags p))); [cbn [fst snd a_chans]; apply oc_step_refl|].
    match goal with |- context [handle_dcep ?a1 ?s ?d] => set (A1 := a1); pose proof (handle_dcep_step A1 s d) as H;
      destruct (handle_dcep A1 s d) as [[a2 evs] ok] end.
    cbn [fst snd] in H |- *. exact H.
  - cbn [fst snd]. apply proc_data_step.
Qed.

Lemma proc_batch_step b : forall a,
  oc_step (a_chans a) (a_chans (fst (fst (fst (proc_batch a b))))) (snd (fst (fst (proc_batch a b)))).
Proof.
  induction b as [|c b IH]; intros a; cbn [proc_batch]; [apply oc_step_refl|].
  pose proof (proc_step a (c_p c)) as H1. destruct (proc a (c_p c)) as [[a1 e1] ok]. cbn [fst snd] in H1.
  destruct ok; [|exact H1].
  specialize (IH a1). destruct (proc_batch a1 b) as [[[a2 e2] n] ok2]. cbn [fst snd] in IH |- *.
  eapply oc_step_trans; eassumption.
Qed.

Lemma recv_data_step st c :
  oc_step (a_chans (r_app st)) (a_chans (r_app (fst (recv_data st c)))) (snd (recv_data st c)).
Proof.
  unfold recv_data. destruct (negb (SctpState_eqb (r_conn st) SctpState_Connected)); [apply oc_step_refl|].
  destruct (data_is_dup _); [apply oc_step_refl|].
  destruct (_ && _).
  - pose proof (proc_step (r_app st) (c_p c)) as H. destruct (proc (r_app st) (c_p c)) as [[a1 e1] ok]. exact H.
  - destruct (take_run _ _ _) as [batch rq2].
    pose proof (proc_batch_step batch (r_app st)) as H. destruct (proc_batch (r_app st) batch) as [[[a1 e1] n] ok]. exact H.
Qed.

Lemma fwd_streams_step pairs : forall a,
  oc_step (a_chans a) (a_chans (fst (fwd_streams a pairs))) (snd (fwd_streams a pairs)).
Proof.
  induction pairs as [|[sid ssn] r IH]; intros a; cbn [fwd_streams]; [apply oc_step_refl|].
  destruct (sm_find sid (a_streams a)) as [s|]; [|apply IH].
  destruct (drain_ready (advance_ssn_to s ssn)) as [ready s'].
  set (a1 := mkApp3 (a_chans a) (sm_set sid s' (a_streams a)) (a_dcep a)).
  specialize (IH a1). destruct (fwd_streams a1 r) as [a2 e2]. cbn [fst snd] in IH |- *.
  eapply oc_step_trans; [|exact IH]. subst a1. cbn [a_chans].
  destruct (find_chan sid (a_chans a)) as [ch|] eqn:Ef; [|apply oc_step_refl].
  apply quiet_step; [apply st_sim_refl| |].
  - intros x. split; apply cnt_deliver; reflexivity.
  - intros x Hn. apply evs_of_deliver. intros E. rewrite E in Ef. congruence.
Qed.

Lemma close_channel_step a sid : oc_step (a_chans a) (a_chans (fst (close_channel a sid))) (snd (close_channel a sid)).
Proof.
  unfold close_channel. destruct (find_chan sid (a_chans a)) as [ch|] eqn:Ef.
  - destruct (DataChannelState_eqb (ch_state ch) DataChannelState_Closed) eqn:E; [apply oc_step_refl|].
    cbn [fst snd a_chans]. apply (state_step _ sid ch); try assumption.
    + intros x Hne. cbn. destruct (Z.eqb_spec sid x); [congruence|reflexivity].
    + left. cbn. destruct (sid =? sid); reflexivity.
    + discriminate.
    + right. split; [cbn; rewrite Z.eqb_refl; reflexivity|]. split; [|reflexivity].
      intros Hc. apply state_eqb_spec in Hc. congruence.
    + reflexivity.
  - cbn [fst snd a_chans]. apply quiet_step; [apply st_sim_refl| |]; intros x; [split|]; reflexivity.
Qed.

Lemma quiet_ctl cs e1 : (forall x, evs_of x e1 = []) -> oc_step cs cs e1.
Proof.
  intros H. apply quiet_step; [apply st_sim_refl| |].
  - intros x. split; apply cnt_of_nil, H.
  - intros x _. apply H.
Qed.

Lemma step_oc st i : oc_step (a_chans (r_app st)) (a_chans (r_app (fst (step st i)))) (snd (step st i)).
Proof.
  unfold step. destruct (SctpState_eqb (r_conn st) SctpState_Closed); [apply oc_step_refl|].
  assert (Hest : forall pre, (forall x, evs_of x pre = []) ->
                 oc_step (a_chans (r_app st)) (a_chans (r_app (fst (establish st pre)))) (snd (establish st pre))).
  { intros pre Hpre. unfold establish. pose proof (est_step (a_chans (r_app st))) as H.
    destruct (on_established (a_chans (r_app st))) as [cs' evs]. cbn [fst snd r_app a_chans] in *.
    eapply oc_step_trans; [apply quiet_ctl; exact Hpre|exact H]. }
  destruct i as [c|t|t hc|valid| |n pairs|sid| |v].
  - apply recv_data_step.
  - destruct (connected st); cbn [fst snd r_app]; [apply oc_step_refl|apply quiet_ctl; reflexivity].
  - destruct (connected st); cbn [fst snd r_app]; [apply oc_step_refl|apply quiet_ctl; destruct hc; reflexivity].
  - destruct valid; [apply Hest; reflexivity|apply oc_step_refl].
  - apply Hest. reflexivity.
  - unfold fwd_tsn. destruct (n >? r_cum st); [|apply oc_step_refl].
    pose proof (fwd_streams_step pairs (r_app st)) as H. destruct (fwd_streams (r_app st) pairs) as [a1 e1]. exact H.
  - pose proof (close_channel_step (r_app st) sid) as H. destruct (close_channel (r_app st) sid) as [a1 e1]. exact H.
  - pose proof (td_step (a_chans (r_app st))) as H. destruct (teardown (a_chans (r_app st))) as [cs' e1]. exact H.
  - destruct (handle_reconfig_frame st v) as [(_ & _ & _ & _ & Hc) Hctl]. rewrite Hc.
    apply quiet_ctl. intros x. apply only_ctl_evs. exact Hctl.
Qed.

Lemma run_oc h : forall st, oc_step (a_chans (r_app st)) (a_chans (r_app (fst (run st h)))) (snd (run st h)).
Proof.
  induction h as [|i h IH]; intros st; cbn [run]; [apply oc_step_refl|].
  pose proof (step_oc st i) as H1. destruct (step st i) as [st1 e1]. cbn [fst snd] in H1.
  specialize (IH st1). destruct (run st1 h) as [st2 e2]. cbn [fst snd] in IH |- *.
  eapply oc_step_trans; eassumption.
Qed.

Lemma oc_inv_init cs : NoDup (map ch_id cs) -> oc_inv cs [].
Proof. intros H. split; [exact H|]. intros sid. repeat split; try (left; reflexivity). Qed.

(* ------------------------------------------------------------------ the theorems *)
(* Open at most once and Close at most once per channel, for every history *)
Theorem open_close_at_most_once st h sid :
  NoDup (map ch_id (a_chans (r_app st))) ->
  (cnt is_open sid (snd (run st h)) <= 1)%nat /\ (cnt is_close sid (snd (run st h)) <= 1)%nat.
Proof.
  intros Hnd. destruct (run_oc h st) as [H _]. specialize (H [] (oc_inv_init _ Hnd)). cbn [List.app] in H.
  destruct H as [_ H]. destruct (H sid) as (H1 & H2 & _). split.
  - destruct H1 as [->|[-> _]]; lia.
  - destruct H2 as [->|[-> _]]; lia.
Qed.

(* a channel the endpoint did not have at the start (i.e. one created in-band by the peer's DCEP
   OPEN) announces Open before anything else, in every history *)
Theorem inband_open_first st h sid :
  find_chan sid (a_chans (r_app st)) = None ->
  evs_of sid (snd (run st h)) = [] \/ exists r, evs_of sid (snd (run st h)) = EOpen :: r.
Proof.
  intros Hn. destruct (run_oc h st) as [_ H]. destruct (H sid Hn) as [[_ He]|Hr]; [left; exact He|right; exact Hr].
Qed.

(* establishing the association announces Open exactly once on a negotiated channel that is still
   Connecting (and the DCEP OPEN is sent for an in-band one) *)
Theorem establish_opens_negotiated st pre sid ch :
  NoDup (map ch_id (a_chans (r_app st))) ->
  find_chan sid (a_chans (r_app st)) = Some ch -> connecting ch -> ch_negotiated ch = true ->
  (forall x, evs_of x pre = []) ->
  evs_of sid (snd (establish st pre)) = [EOpen].
Proof.
  intros Hnd Hf Hc Hneg Hpre. unfold establish. rewrite on_established_eq. cbn [snd].
  rewrite evs_of_app, Hpre. cbn [List.app].
  assert (Hown : forall c x, x <> ch_id c -> evs_of x (g_est c) = []).
  { intros c x Hne. unfold g_est. destruct (DataChannelState_eqb _ _); [destruct (ch_negotiated c)|]; try reflexivity.
    rewrite evs_of_cons_ev. destruct (Z.eqb_spec (ch_id c) x); [congruence|reflexivity]. }
  rewrite (bulk_evs g_est Hown sid _ Hnd).
  rewrite Hf. unfold g_est. unfold connecting in Hc. rewrite Hc, Hneg. cbn [DataChannelState_eqb].
  apply find_chan_id in Hf. rewrite Hf, evs_of_cons_ev, Z.eqb_refl. reflexivity.
Qed.

(* ------------------------------------------------------------------ nothing is delivered before establishment *)
(* From the start of run_loop (nothing queued, no stream state) no Message event is emitted while
   the association is not established -- for EVERY kind of input (DATA is dropped, FORWARD-TSN and
   RE-CONFIG find nothing to act on). Together with C12_establish_opens_negotiated: a negotiated
   channel announces Open before its first message. *)
Definition dormant (st : rstate) : Prop := r_rq st = [] /\ a_streams (r_app st) = [].

Lemma fwd_streams_empty pairs a : a_streams a = [] -> fwd_streams a pairs = (a, []).
Proof.
  intros Hs. induction pairs as [|[sid ssn] r IH]; [reflexivity|]. cbn [fwd_streams]. rewrite Hs. cbn [sm_find]. exact IH.
Qed.

Lemma fold_remove_nil ids : fold_left (fun m sid => sm_remove sid m) ids [] = [].
Proof. induction ids as [|x ids IH]; [reflexivity|exact IH]. Qed.

Lemma reconfig_apply_dormant ps : forall st,
  dormant st -> dormant (fst (reconfig_apply st ps)) /\ r_conn (fst (reconfig_apply st ps)) = r_conn st.
Proof.
  induction ps as [|[ty v] r IH]; intros st Hd; cbn [reconfig_apply]; [split; [exact Hd|reflexivity]|].
  assert (H1 : dormant (fst (if ty =? RECONFIG_PARAM_OUTGOING_SSN_RESET then ssn_reset st v else (st, []))) /\
               r_conn (fst (if ty =? RECONFIG_PARAM_OUTGOING_SSN_RESET then ssn_reset st v else (st, []))) = r_conn st).
  { destruct (ty =? RECONFIG_PARAM_OUTGOING_SSN_RESET); [|split; [exact Hd|reflexivity]].
    unfold ssn_reset. destruct (ssn_reset_streams v) as [[rsn ids]|]; [|split; [exact Hd|reflexivity]].
    destruct (_ && _); [split; [exact Hd|reflexivity]|]. destruct Hd as [Hq Hs]. cbn [fst]. split; [|reflexivity].
    split; cbn [r_rq r_app a_streams]; [exact Hq|]. destruct ids; [reflexivity|]. rewrite Hs. apply fold_remove_nil. }
  destruct (if ty =? RECONFIG_PARAM_OUTGOING_SSN_RESET then ssn_reset st v else (st, [])) as [st1 e1]. cbn [fst] in H1.
  destruct H1 as [Hd1 Hc1]. destruct (IH st1 Hd1) as [Hd2 Hc2]. destruct (reconfig_apply st1 r) as [st2 e2]. cbn [fst] in *.
  split; [exact Hd2|congruence].
Qed.

Lemma step_silent_while_down st i :
  dormant st -> r_conn st <> SctpState_Connected ->
  (forall sid, log_of sid (snd (step st i)) = []) /\
  (r_conn (fst (step st i)) <> SctpState_Connected -> dormant (fst (step st i))).
Proof.
  intros [Hq Hs] Hnc. unfold step. destruct (SctpState_eqb (r_conn st) SctpState_Closed); [split; [reflexivity|intros _; split; assumption]|].
  assert (Hcon : connected st = false).
  { unfold connected. destruct (r_conn st); try reflexivity. contradiction. }
  destruct i as [c|t|t hc|valid| |n pairs|sid| |v].
  - unfold recv_data. unfold connected in Hcon. rewrite Hcon. cbn [negb fst snd]. split; [reflexivity|intros _; split; assumption].
  - rewrite Hcon. cbn [fst snd]. split; [reflexivity|intros _; split; assumption].
  - rewrite Hcon. cbn [fst snd]. split; [intros sid; destruct hc; reflexivity|intros _; split; assumption].
  - destruct valid; [|split; [reflexivity|intros _; split; assumption]].
    unfold establish. pose proof (est_step (a_chans (r_app st))) as _. destruct (on_established _) as [cs evs] eqn:E.
    cbn [fst snd]. split; [|intros H; exfalso; apply H; reflexivity].
    intros sid. rewrite log_of_app. cbn [log_of flat_map List.app].
    assert (Hl : forall l, log_of sid (snd (on_established l)) = []).
    { induction l as [|x l IHl]; [reflexivity|]. cbn [on_established]. destruct (on_established l) as [l' e']. cbn [snd] in IHl.
      destruct (DataChannelState_eqb _ _); [destruct (ch_negotiated x)|]; cbn [snd log_of flat_map List.app]; exact IHl. }
    specialize (Hl (a_chans (r_app st))). rewrite E in Hl. exact Hl.
  - unfold establish. destruct (on_established _) as [cs evs] eqn:E.
    cbn [fst snd]. split; [|intros H; exfalso; apply H; reflexivity].
    intros sid. cbn [List.app].
    assert (Hl : forall l, log_of sid (snd (on_established l)) = []).
    { induction l as [|x l IHl]; [reflexivity|]. cbn [on_established]. destruct (on_established l) as [l' e']. cbn [snd] in IHl.
      destruct (DataChannelState_eqb _ _); [destruct (ch_negotiated x)|]; cbn [snd log_of flat_map List.app]; exact IHl. }
    specialize (Hl (a_chans (r_app st))). rewrite E in Hl. exact Hl.
  - unfold fwd_tsn. destruct (n >? r_cum st); [|split; [reflexivity|intros _; split; assumption]].
    rewrite (fwd_streams_empty pairs (r_app st) Hs). cbn [fst snd]. split; [reflexivity|].
    intros _. split; cbn [r_rq r_app]; [rewrite Hq; reflexivity|exact Hs].
  - unfold close_channel. destruct (find_chan sid (a_chans (r_app st))) as [ch|].
    + destruct (DataChannelState_eqb _ _); cbn [fst snd]; (split; [intros x; cbn; try reflexivity; destruct (sid =? x); reflexivity|]).
      * intros _. split; assumption.
      * intros _. split; cbn [r_rq r_app a_streams]; [exact Hq|rewrite Hs; reflexivity].
    + cbn [fst snd]. split; [reflexivity|]. intros _. split; cbn [r_rq r_app a_streams]; [exact Hq|rewrite Hs; reflexivity].
  - destruct (teardown _) as [cs evs] eqn:E. cbn [fst snd]. split.
    + intros sid.
      assert (Hl : forall l, log_of sid (snd (teardown l)) = []).
      { induction l as [|x l IHl]; [reflexivity|]. cbn [teardown]. destruct (teardown l) as [l' e']. cbn [snd] in IHl.
        destruct (DataChannelState_eqb _ _); cbn [snd log_of flat_map List.app]; exact IHl. }
      specialize (Hl (a_chans (r_app st))). rewrite E in Hl. exact Hl.
    + intros _. split; cbn [r_rq r_app a_streams]; assumption.
  - destruct (handle_reconfig_frame st v) as [_ Hctl]. split; [intros sid; apply only_ctl_log; exact Hctl|].
    intros _. unfold handle_reconfig. apply reconfig_apply_dormant. split; assumption.
Qed.

Fixpoint stays_down (st : rstate) (h : list input) : Prop :=
  match h with
  | [] => True
  | i :: r => r_conn (fst (step st i)) <> SctpState_Connected /\ stays_down (fst (step st i)) r
  end.

Theorem no_message_before_established h : forall st,
  dormant st -> r_conn st <> SctpState_Connected -> stays_down st h ->
  forall sid, log_of sid (snd (run st h)) = [].
Proof.
  induction h as [|i h IH]; intros st Hd Hnc Hdown sid; [reflexivity|]. cbn [run]. destruct Hdown as [H1 H2].
  destruct (step_silent_while_down st i Hd Hnc) as [Hl Hd1].
  destruct (step st i) as [st1 e1]. cbn [fst snd] in *.
  specialize (IH st1 (Hd1 H1) H1 H2 sid). destruct (run st1 h) as [st2 e2]. cbn [snd] in *.
  rewrite log_of_app, Hl, IH. reflexivity.
Qed.
