(* RE-CONFIG (RFC 6525) outgoing SSN reset: the parameter walk of handle_reconfig hands
   handle_reconfig_outgoing_ssn_reset the parameter value WITHOUT its padding, so a request that
   lists the streams L (as close_data_channel / send_reconfig_ssn_reset encode it, padding
   included) resets exactly the streams of L: frame property. *)
From Coq Require Import ZArith List Bool Lia.
From RV Require Import Lib.Wrap Gen.Consts Gen.Serial Gen.Sctp Model.SctpRecv Proofs.SctpRecvBase Proofs.DcepProofs.
Import ListNotations.
Open Scope Z_scope.

Local Ltac Zify.zify_post_hook ::= Z.div_mod_to_equations.

Lemma reconfig_params_nil f : reconfig_params f [] = [].
Proof. destruct f; reflexivity. Qed.

Lemma be16b_length x : length (be16b x) = 2%nat. Proof. reflexivity. Qed.
Lemma be32b_length x : length (be32b x) = 4%nat. Proof. reflexivity. Qed.
Lemma flat_be16_length ids : length (flat_map be16b ids) = (2 * length ids)%nat.
Proof. induction ids as [|x ids IH]; cbn [flat_map length]; [reflexivity|]. rewrite app_length, IH, be16b_length. lia. Qed.

Lemma u16s_flat ids : Forall (fun x => 0 <= x < 65536) ids -> u16s (flat_map be16b ids) = ids.
Proof.
  induction 1 as [|x ids Hx _ IH]; [reflexivity|]. cbn [flat_map]. unfold be16b at 1. cbn [List.app u16s].
  rewrite IH, be16_roundtrip by exact Hx. reflexivity.
Qed.

Lemma skipn_repeat_all {A} (x : A) n : skipn n (repeat x n) = [].
Proof. induction n; [reflexivity|exact IHn]. Qed.

Definition reset_body (rsn rsp tsn : Z) (ids : list Z) : list Z :=
  be32b rsn ++ be32b rsp ++ be32b tsn ++ flat_map be16b ids.

Lemma reset_body_length rsn rsp tsn ids :
  Z.of_nat (length (reset_body rsn rsp tsn ids)) = 12 + 2 * Z.of_nat (length ids).
Proof. unfold reset_body. rewrite !app_length, !be32b_length, flat_be16_length. lia. Qed.

(* the walk over an encoded request yields one parameter: the request, without padding *)
Theorem walk_encoded rsn rsp tsn ids :
  16 + 2 * Z.of_nat (length ids) < 65536 ->
  reconfig_params (length (encode_ssn_reset rsn rsp tsn ids)) (encode_ssn_reset rsn rsp tsn ids) =
  [(RECONFIG_PARAM_OUTGOING_SSN_RESET, reset_body rsn rsp tsn ids)].
Proof.
  intros Hn. set (plen := 16 + 2 * Z.of_nat (length ids)) in *.
  set (pad := Z.to_nat ((4 - plen mod 4) mod 4)).
  assert (He : encode_ssn_reset rsn rsp tsn ids =
               0 :: 13 :: (plen / 256) mod 256 :: plen mod 256 :: (reset_body rsn rsp tsn ids ++ repeat 0 pad)).
  { unfold encode_ssn_reset, reset_body. fold plen. fold pad. unfold be16b at 1 2. cbn [List.app].
    change ((RECONFIG_PARAM_OUTGOING_SSN_RESET / 256) mod 256) with 0.
    change (RECONFIG_PARAM_OUTGOING_SSN_RESET mod 256) with 13.
    rewrite <- !app_assoc. reflexivity. }
  rewrite He. cbn [length reconfig_params].
  change (of_be16 0 13) with RECONFIG_PARAM_OUTGOING_SSN_RESET.
  assert (Hp : 0 <= plen < 65536) by (subst plen; lia).
  rewrite (be16_roundtrip plen Hp).
  pose proof (reset_body_length rsn rsp tsn ids) as Hb. fold plen in Hb.
  assert (Hc1 : (plen <? RECONFIG_PARAM_HEADER_LEN) = false) by (apply Z.ltb_ge; unfold RECONFIG_PARAM_HEADER_LEN; lia).
  assert (Hc2 : (Z.of_nat (length (reset_body rsn rsp tsn ids ++ repeat 0 pad)) <? plen - RECONFIG_PARAM_HEADER_LEN) = false).
  { apply Z.ltb_ge. rewrite app_length, Nat2Z.inj_add, Hb. unfold RECONFIG_PARAM_HEADER_LEN. lia. }
  rewrite Hc1, Hc2. cbn [orb].
  assert (Hv : Z.to_nat (plen - RECONFIG_PARAM_HEADER_LEN) = length (reset_body rsn rsp tsn ids)).
  { unfold RECONFIG_PARAM_HEADER_LEN. lia. }
  rewrite Hv, firstn_app_exact, skipn_app_exact. fold pad.
  rewrite repeat_length, Nat.leb_refl, skipn_repeat_all. reflexivity.
Qed.

Theorem streams_of_encoded rsn rsp tsn ids :
  0 <= rsn < 4294967296 -> Forall (fun x => 0 <= x < 65536) ids ->
  ssn_reset_streams (reset_body rsn rsp tsn ids) = Some (rsn, ids).
Proof.
  intros Hr Hids. unfold ssn_reset_streams.
  assert (Hl : (Z.of_nat (length (reset_body rsn rsp tsn ids)) <? SSN_RESET_FIXED_LEN) = false).
  { apply Z.ltb_ge. rewrite reset_body_length. unfold SSN_RESET_FIXED_LEN. lia. }
  rewrite Hl. unfold reset_body. unfold be32b at 1. cbn [List.app].
  rewrite (be32_roundtrip rsn Hr).
  change (Z.to_nat SSN_RESET_FIXED_LEN - 4)%nat with 8%nat.
  unfold be32b. cbn [List.app skipn]. rewrite (u16s_flat ids Hids). reflexivity.
Qed.

(* removing the streams of L leaves every other stream alone and removes those of L *)
Lemma fold_remove_other ids : forall m sid,
  ~ In sid ids -> sm_find sid (fold_left (fun m x => sm_remove x m) ids m) = sm_find sid m.
Proof.
  induction ids as [|x ids IH]; intros m sid Hn; [reflexivity|]. cbn [fold_left].
  rewrite IH by (intros H; apply Hn; right; exact H).
  apply sm_find_remove_other. intros E. apply Hn. left. symmetry. exact E.
Qed.

Lemma sm_find_remove_same sid m : sm_find sid (sm_remove sid m) = None.
Proof.
  induction m as [|[k s] m IH]; [reflexivity|]. cbn. destruct (Z.eqb_spec k sid) as [E|E]; cbn; [exact IH|].
  destruct (Z.eqb_spec k sid); [contradiction|exact IH].
Qed.

Lemma fold_remove_in ids : forall m sid,
  In sid ids -> sm_find sid (fold_left (fun m x => sm_remove x m) ids m) = None.
Proof.
  induction ids as [|x ids IH]; intros m sid Hin; [contradiction|]. cbn [fold_left].
  destruct (in_dec Z.eq_dec sid ids) as [Hi|Hni]; [apply IH; exact Hi|].
  destruct Hin as [->|Hin]; [|contradiction].
  rewrite fold_remove_other by exact Hni. apply sm_find_remove_same.
Qed.

(* Frame property of an SSN reset request for the (non-empty) stream list L, encoded as
   close_data_channel encodes it (2-byte ids, zero padding to a multiple of 4): everything but the
   inbound stream table is untouched, every stream outside L keeps its ordering state (next SSN,
   pending messages), only a RE-CONFIG response is emitted; a new request removes exactly the
   streams of L, a repeated one changes nothing. *)
Theorem reset_frame st rsn rsp tsn ids :
  16 + 2 * Z.of_nat (length ids) < 65536 -> 0 <= rsn < 4294967296 ->
  Forall (fun x => 0 <= x < 65536) ids -> ids <> [] ->
  let r := step st (IReconfig (encode_ssn_reset rsn rsp tsn ids)) in
  same_but_streams st (fst r) /\ only_ctl (snd r) /\
  (forall sid, ~ In sid ids -> sm_find sid (a_streams (r_app (fst r))) = sm_find sid (a_streams (r_app st))) /\
  (forall sid, In sid ids ->
     sm_find sid (a_streams (r_app (fst r))) = sm_find sid (a_streams (r_app st)) \/
     sm_find sid (a_streams (r_app (fst r))) = None).
Proof.
  intros Hn Hr Hids Hne. cbn zeta. unfold step.
  destruct (SctpState_eqb (r_conn st) SctpState_Closed).
  { cbn [fst snd]. split; [apply same_but_streams_refl|]. split; [constructor|]. split; [reflexivity|left; reflexivity]. }
  unfold handle_reconfig. rewrite (walk_encoded rsn rsp tsn ids Hn). cbn [reconfig_apply].
  rewrite Z.eqb_refl. unfold ssn_reset. rewrite (streams_of_encoded rsn rsp tsn ids Hr Hids).
  destruct (_ && _); cbn [fst snd List.app].
  - split; [apply same_but_streams_refl|]. split; [constructor; [eexists; reflexivity|constructor]|].
    split; [reflexivity|left; reflexivity].
  - destruct ids as [|i0 ids']; [contradiction|]. cbn [r_app a_streams a_chans].
    split; [repeat split|]. split; [constructor; [eexists; reflexivity|constructor]|]. split.
    + intros sid Hs. apply fold_remove_other. exact Hs.
    + intros sid Hs. right. apply fold_remove_in. exact Hs.
Qed.

(* the bug class this excludes: were the padding handed to the handler, a one-stream request would
   name stream 0 as well.  Concretely, in the model: closing stream 5 leaves stream 0's state *)
Example close_other_stream_keeps_stream0 :
  let chans := [mkChan 0 true true [] [] None None DataChannelState_Open []; mkChan 5 true true [] [] None None DataChannelState_Open []] in
  let r := run (est_r 999 chans)
               [IData (D 1000 3 0 0 53 [97]); IData (D 1001 3 5 0 53 [120]);
                IReconfig (encode_ssn_reset 0 0 1002 [5]); IData (D 1002 3 0 1 53 [98])] in
  log_of 0 (snd r) = [[97]; [98]] /\ is_next (sm_get 0 (a_streams (r_app (fst r)))) = 2 /\
  sm_find 5 (a_streams (r_app (fst r))) = None /\
  encode_ssn_reset 0 0 1002 [5] = [0; 13; 0; 18; 0; 0; 0; 0; 0; 0; 0; 0; 0; 0; 3; 234; 0; 5; 0; 0].
Proof. vm_compute. repeat split; reflexivity. Qed.
