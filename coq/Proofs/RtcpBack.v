(* C15 proofs, part 6: the other direction for RTCP -- what parse_rtcp_packets returns re-serialises and
   parses back to itself.  Needs: utf8_lossy is idempotent and keeps bytes; a decoded REMB bitrate is a fixed
   point of the mantissa/exponent encoding; every sub-parser returns values inside the validity predicate. *)
From Coq Require Import ZArith List Bool Lia.
From RV Require Import Lib.Wrap.
From RV Require Import Gen.Consts.
From RV Require Import Gen.RtpConsts.
From RV Require Import Model.RtpLib.
From RV Require Import Model.Rtp.
From RV Require Import Model.Nack.
From RV Require Import Model.Rtcp.
From RV Require Import Proofs.RtpProofs.
From RV Require Import Proofs.RtpExtProofs.
From RV Require Import Proofs.NackProofs.
From RV Require Import Proofs.RtcpProofs.
From RV Require Import Proofs.RtcpTotal.
Import ListNotations.
Open Scope Z_scope.

(* ------------------------------------------------------------------ utf8_lossy: one-step equations *)
Lemma lossy_ascii b r : (b <? 128) = true -> utf8_lossy (b :: r) = b :: utf8_lossy r.
Proof. intros H. cbn [utf8_lossy]. rewrite H. reflexivity. Qed.
Lemma lossy_2 b c1 r :
  (b <? 128) = false -> inr 194 223 b = true -> cont c1 = true ->
  utf8_lossy (b :: c1 :: r) = b :: c1 :: utf8_lossy r.
Proof. intros H1 H2 H3. cbn [utf8_lossy]. rewrite H1, H2, H3. reflexivity. Qed.
Lemma lossy_3 b c1 c2 r :
  (b <? 128) = false -> inr 194 223 b = false -> inr 224 239 b = true -> ok3 b c1 = true -> cont c2 = true ->
  utf8_lossy (b :: c1 :: c2 :: r) = b :: c1 :: c2 :: utf8_lossy r.
Proof. intros H1 H2 H3 H4 H5. cbn [utf8_lossy]. rewrite H1, H2, H3, H4, H5. reflexivity. Qed.
Lemma lossy_4 b c1 c2 c3 r :
  (b <? 128) = false -> inr 194 223 b = false -> inr 224 239 b = false -> inr 240 244 b = true ->
  ok4 b c1 = true -> cont c2 = true -> cont c3 = true ->
  utf8_lossy (b :: c1 :: c2 :: c3 :: r) = b :: c1 :: c2 :: c3 :: utf8_lossy r.
Proof. intros H1 H2 H3 H4 H5 H6 H7. cbn [utf8_lossy]. rewrite H1, H2, H3, H4, H5, H6, H7. reflexivity. Qed.
Lemma lossy_repl r : utf8_lossy (REPL ++ r) = REPL ++ utf8_lossy r.
Proof. unfold REPL. cbn [app]. apply lossy_3; reflexivity. Qed.
Lemma lossy_repl_only : utf8_lossy REPL = REPL.
Proof. reflexivity. Qed.
Lemma bytes_repl : bytes REPL.
Proof. unfold REPL, bytes. repeat constructor; unfold byte; lia. Qed.

(* idempotent, and bytes stay bytes *)
Lemma lossy_props : forall n l, (length l <= n)%nat ->
  utf8_lossy (utf8_lossy l) = utf8_lossy l /\ (bytes l -> bytes (utf8_lossy l)).
Proof.
  induction n as [|n IH]; intros l Hl.
  - destruct l; [split; [reflexivity|auto]|cbn in Hl; lia].
  - destruct l as [|b t]; [split; [reflexivity|auto]|]. cbn [length] in Hl.
    assert (IHt : forall r, (length r <= length t)%nat ->
              utf8_lossy (utf8_lossy r) = utf8_lossy r /\ (bytes r -> bytes (utf8_lossy r)))
      by (intros r Hr; apply IH; lia).
    assert (Hrepl : forall r, (length r <= length t)%nat ->
              utf8_lossy (REPL ++ utf8_lossy r) = REPL ++ utf8_lossy r /\ (bytes r -> bytes (REPL ++ utf8_lossy r))).
    { intros r Hr. destruct (IHt r Hr) as [A B]. split; [rewrite lossy_repl, A; reflexivity|].
      intros Hb. apply bytes_app. split; [apply bytes_repl|auto]. }
    assert (Hr0 : utf8_lossy REPL = REPL /\ (bytes (b :: t) -> bytes REPL)) by (split; [reflexivity|intros _; apply bytes_repl]).
    cbn [utf8_lossy].
    destruct (b <? 128) eqn:E1.
    { destruct (IHt t (le_n _)) as [A B]. split; [rewrite lossy_ascii, A by exact E1; reflexivity|].
      intros Hb. apply bytes_cons in Hb as [? ?]. apply bytes_cons. auto. }
    destruct (inr 194 223 b) eqn:E2.
    { destruct t as [|c1 t1]; [exact Hr0|]. cbn [length] in *.
      destruct (cont c1) eqn:E3.
      - destruct (IHt t1 ltac:(lia)) as [A B]. split; [rewrite lossy_2, A by assumption; reflexivity|].
        intros Hb. apply bytes_cons in Hb as [? Hb]. apply bytes_cons in Hb as [? ?].
        apply bytes_cons. split; [assumption|]. apply bytes_cons. auto.
      - destruct (Hrepl (c1 :: t1) (le_n _)) as [A B]. split; [exact A|].
        intros Hb. apply bytes_cons in Hb as [? ?]. auto. }
    destruct (inr 224 239 b) eqn:E3.
    { destruct t as [|c1 t1]; [exact Hr0|]. cbn [length] in *.
      destruct (ok3 b c1) eqn:E4.
      - destruct t1 as [|c2 t2]; [split; [reflexivity|intros _; apply bytes_repl]|]. cbn [length] in *.
        destruct (cont c2) eqn:E5.
        + destruct (IHt t2 ltac:(lia)) as [A B]. split; [rewrite lossy_3, A by assumption; reflexivity|].
          intros Hb. apply bytes_cons in Hb as [? Hb]. apply bytes_cons in Hb as [? Hb]. apply bytes_cons in Hb as [? ?].
          repeat (apply bytes_cons; split; [assumption|]). auto.
        + destruct (Hrepl (c2 :: t2) ltac:(cbn [length]; lia)) as [A B]. split; [exact A|].
          intros Hb. apply bytes_cons in Hb as [? Hb]. apply bytes_cons in Hb as [? ?]. auto.
      - destruct (Hrepl (c1 :: t1) (le_n _)) as [A B]. split; [exact A|].
        intros Hb. apply bytes_cons in Hb as [? ?]. auto. }
    destruct (inr 240 244 b) eqn:E4.
    { destruct t as [|c1 t1]; [exact Hr0|]. cbn [length] in *.
      destruct (ok4 b c1) eqn:E5.
      - destruct t1 as [|c2 t2]; [split; [reflexivity|intros _; apply bytes_repl]|]. cbn [length] in *.
        destruct (cont c2) eqn:E6.
        + destruct t2 as [|c3 t3]; [split; [reflexivity|intros _; apply bytes_repl]|]. cbn [length] in *.
          destruct (cont c3) eqn:E7.
          * destruct (IHt t3 ltac:(lia)) as [A B]. split; [rewrite lossy_4, A by assumption; reflexivity|].
            intros Hb. apply bytes_cons in Hb as [? Hb]. apply bytes_cons in Hb as [? Hb].
            apply bytes_cons in Hb as [? Hb]. apply bytes_cons in Hb as [? ?].
            repeat (apply bytes_cons; split; [assumption|]). auto.
          * destruct (Hrepl (c3 :: t3) ltac:(cbn [length]; lia)) as [A B]. split; [exact A|].
            intros Hb. do 3 (apply bytes_cons in Hb as [? Hb]). auto.
        + destruct (Hrepl (c2 :: t2) ltac:(cbn [length]; lia)) as [A B]. split; [exact A|].
          intros Hb. do 2 (apply bytes_cons in Hb as [? Hb]). auto.
      - destruct (Hrepl (c1 :: t1) (le_n _)) as [A B]. split; [exact A|].
        intros Hb. apply bytes_cons in Hb as [? ?]. auto. }
    destruct (Hrepl t (le_n _)) as [A B]. split; [exact A|].
    intros Hb. apply bytes_cons in Hb as [? ?]. auto.
Qed.

Theorem utf8_lossy_idem l : utf8_lossy (utf8_lossy l) = utf8_lossy l.
Proof. apply (lossy_props (length l) l (le_n _)). Qed.
Theorem utf8_lossy_bytes l : bytes l -> bytes (utf8_lossy l).
Proof. apply (lossy_props (length l) l (le_n _)). Qed.

(* ------------------------------------------------------------------ a decoded REMB bitrate re-encodes exactly *)
Lemma remb_loop_min : forall f m e,
  let k := snd (remb_loop f m e) - e in k = 0 \/ (1 <= k /\ m / 2 ^ (k - 1) > 262143).
Proof.
  induction f as [|f IH]; intros m e; cbv zeta.
  - left. cbn. lia.
  - cbn [remb_loop]. rconsts. destruct (m >? 262143) eqn:E.
    + apply Z.gtb_lt in E. right. specialize (IH (Z.shiftr m 1) (e + 1)). cbv zeta in IH.
      set (s := snd (remb_loop f (Z.shiftr m 1) (e + 1))) in *.
      destruct IH as [H0|[H1 H2]].
      * split; [lia|]. replace (s - e - 1) with 0 by lia. change (2 ^ 0) with 1. rewrite Z.div_1_r. lia.
      * split; [lia|]. rewrite Z.shiftr_div_pow2 in H2 by lia. change (2 ^ 1) with 2 in H2.
        rewrite Z.div_div in H2 by (try lia; apply Z.pow_pos_nonneg; lia).
        replace (s - e - 1) with (Z.succ (s - (e + 1) - 1)) by lia. rewrite Z.pow_succ_r by lia. exact H2.
    + left. cbn [snd]. lia.
Qed.

Lemma remb_stable mant e0 :
  0 <= mant <= 262143 -> 0 <= e0 < 64 ->
  remb_decoded (cast_u64 (Z.shiftl mant e0)) = cast_u64 (Z.shiftl mant e0).
Proof.
  intros Hm He. set (v := cast_u64 (Z.shiftl mant e0)).
  (* v = a * 2^e0 with a <= mant *)
  assert (Hpe : 0 < 2 ^ e0) by (apply Z.pow_pos_nonneg; lia).
  assert (Hv : v = (mant mod 2 ^ (64 - e0)) * 2 ^ e0).
  { unfold v, cast_u64, wrapu. rewrite Z.shiftl_mul_pow2 by lia.
    replace (2 ^ 64) with (2 ^ (64 - e0) * 2 ^ e0) by (rewrite <- Z.pow_add_r by lia; f_equal; lia).
    apply Z.mul_mod_distr_r; [apply Z.pow_nonzero; lia|lia]. }
  set (a := mant mod 2 ^ (64 - e0)) in *.
  assert (Ha : 0 <= a <= 262143).
  { unfold a. pose proof (Z.mod_pos_bound mant (2 ^ (64 - e0)) ltac:(apply Z.pow_pos_nonneg; lia)).
    pose proof (Z.mod_le mant (2 ^ (64 - e0)) ltac:(lia) ltac:(apply Z.pow_pos_nonneg; lia)). lia. }
  assert (Hvr : 0 <= v < 2 ^ (18 + 46)).
  { unfold v, cast_u64. pose proof (wrapu_range 64 (Z.shiftl mant e0) ltac:(lia)). change (18 + 46) with 64. lia. }
  destruct (remb_loop_spec 64 v 0 46 ltac:(lia) Hvr) as (Hmr & Her & Hd).
  pose proof (remb_loop_min 64 v 0) as Hmin. cbv zeta in Hmin.
  unfold remb_decoded. destruct (remb_loop 64 v 0) as [m k] eqn:El. cbn [fst snd] in *.
  rewrite Z.sub_0_r in Hd, Hmin.
  assert (Hk : k <= e0).
  { destruct Hmin as [->|[Hk1 Hgt]]; [lia|]. destruct (Z_le_gt_dec k e0); [assumption|]. exfalso.
    assert (v / 2 ^ (k - 1) <= a).
    { rewrite Hv. replace (k - 1) with (e0 + (k - 1 - e0)) by lia. rewrite Z.pow_add_r by lia.
      rewrite <- Z.div_div by (try lia; apply Z.pow_pos_nonneg; lia). rewrite Z.div_mul by lia.
      apply Z.div_le_upper_bound; [apply Z.pow_pos_nonneg; lia|].
      assert (0 < 2 ^ (k - 1 - e0)) by (apply Z.pow_pos_nonneg; lia). nia. }
    lia. }
  assert (Hmk : m * 2 ^ k = v).
  { assert (Hp : 2 ^ e0 = 2 ^ k * 2 ^ (e0 - k)) by (rewrite <- Z.pow_add_r by lia; f_equal; lia).
    assert (Hpk : 0 < 2 ^ k) by (apply Z.pow_pos_nonneg; lia).
    rewrite Hd, Hv, Hp. set (p := 2 ^ k) in *. set (q := 2 ^ (e0 - k)).
    replace (a * (p * q)) with (a * q * p) by ring. rewrite Z.div_mul by lia. reflexivity. }
  rewrite Z.shiftl_mul_pow2 by lia. rewrite Hmk. unfold cast_u64. apply wrapu_small. change (18 + 46) with 64 in Hvr. lia.
Qed.

(* ------------------------------------------------------------------ what the sub-parsers return *)
Lemma u32b_of a b c d : byte a -> byte b -> byte c -> byte d -> u32b (u32_of a b c d) = true.
Proof. intros. apply u32b_spec, u32_of_range; assumption. Qed.
Lemma u16b_of a b : byte a -> byte b -> u16b (u16_of a b) = true.
Proof. intros. apply u16b_spec, u16_of_range; assumption. Qed.
Lemma byteb_of a : byte a -> byteb a = true.
Proof. apply byteb_spec. Qed.

Ltac bsplit Hb := repeat (let H := fresh "Hby" in apply bytes_cons in Hb as [H Hb]).
Ltac rng := first [apply u32b_of; assumption | apply u16b_of; assumption | apply byteb_of; assumption].

Tactic Notation "expose" ident(l) ident(H) integer(n) :=
  do n (destruct l as [|? l]; [rewrite ?len_cons, ?len_nil in H; lia|]).

Definition text_short (x : rtcp) : bool :=
  match x with
  | SDES ch => forallb (fun c => forallb (fun i => len (it_text i) <=? 255) (ch_items c)) ch
  | BYE _ (Some t) => len t <=? 255
  | _ => true
  end.
Definition nack_ne (x : rtcp) : bool :=
  match x with NACK _ _ l => negb (len l =? 0) | _ => true end.

(* returned by the parser: inside the validity predicate as soon as its texts are short and a NACK is not empty;
   a REMB bitrate is a fixed point of the encoding *)
Definition back_ok (x : rtcp) : Prop :=
  (text_short x = true -> nack_ne x = true -> valid_fields x = true) /\
  match x with REMB _ br _ => remb_decoded br = br | _ => True end.

Lemma sext24_range b5 b6 b7 : byte b5 -> byte b6 -> byte b7 -> - 8388608 <= sext24 b5 b6 b7 < 8388608.
Proof.
  unfold byte. intros H5 H6 H7. unfold sext24. rewrite lor3 by lia.
  rewrite Z.shiftl_mul_pow2, Z.shiftr_div_pow2 by lia. change (2 ^ 8) with 256.
  unfold cast_i32, wraps. change (2 ^ (32 - 1)) with 2147483648. change (2 ^ 32) with 4294967296.
  Z.div_mod_to_equations. lia.
Qed.

Lemma parse_report_block_spec l :
  24 <= len l -> bytes l ->
  exists b r, parse_report_block l = Ok (b, r) /\ rb_valid b = true /\ bytes r.
Proof.
  intros H Hb. expose l H 24. bsplit Hb. eexists _, _. cbn [parse_report_block get_u32 get_u8 bind].
  split; [reflexivity|]. split; [|exact Hb].
  unfold rb_valid. cbn [rb_ssrc rb_fraction rb_lost rb_highest rb_jitter rb_lsr rb_dlsr].
  pose proof (sext24_range z4 z5 z6 ltac:(assumption) ltac:(assumption) ltac:(assumption)) as Hs.
  rewrite !andb_true_iff. repeat split; try rng; [apply Z.leb_le; lia|apply Z.ltb_lt; lia].
Qed.

Lemma parse_blocks_spec n : forall l, bytes l ->
  match parse_blocks n l with Ok bl => length bl = n /\ forallb rb_valid bl = true | _ => True end.
Proof.
  induction n as [|n IH]; intros l Hb; cbn [parse_blocks]; [split; reflexivity|].
  rconsts. destruct (len l <? 24) eqn:E; [exact I|]. apply Z.ltb_ge in E.
  destruct (parse_report_block_spec l E Hb) as (b & r & -> & Hv & Hr). cbn [bind].
  specialize (IH r Hr). destruct (parse_blocks n r) as [bl| |]; cbn [bind]; try exact I.
  destruct IH as [Hl Hf]. split; [cbn [length]; lia|]. cbn [forallb]. rewrite Hv, Hf. reflexivity.
Qed.

Lemma plain_ok x : valid_fields x = true -> match x with REMB _ _ _ => False | _ => True end -> back_ok x.
Proof. intros Hv Hn. split; [auto|]. destruct x; auto. destruct Hn. Qed.

Lemma parse_sr_spec fmt body :
  bytes body -> 0 <= fmt < 32 -> match parse_sr fmt body with Ok x => back_ok x | _ => True end.
Proof.
  intros Hb Hf. unfold parse_sr. rconsts. destruct (len body <? 24) eqn:E; [exact I|]. apply Z.ltb_ge in E.
  expose body E 24. bsplit Hb. cbn [get_u32 bind].
  pose proof (parse_blocks_spec (Z.to_nat fmt) body Hb) as H.
  destruct (parse_blocks (Z.to_nat fmt) body) as [bl| |]; cbn [bind]; try exact I.
  destruct H as [Hl Hv]. apply plain_ok; [|exact I]. cbn [valid_fields]. rewrite Hv.
  assert (len bl <=? 31 = true) by (apply Z.leb_le; unfold len; lia).
  rewrite H. rewrite !andb_true_iff. repeat split; rng.
Qed.
Lemma parse_rr_spec fmt body :
  bytes body -> 0 <= fmt < 32 -> match parse_rr fmt body with Ok x => back_ok x | _ => True end.
Proof.
  intros Hb Hf. unfold parse_rr. rconsts. destruct (len body <? 4) eqn:E; [exact I|]. apply Z.ltb_ge in E.
  expose body E 4. bsplit Hb. cbn [get_u32 bind].
  pose proof (parse_blocks_spec (Z.to_nat fmt) body Hb) as H.
  destruct (parse_blocks (Z.to_nat fmt) body) as [bl| |]; cbn [bind]; try exact I.
  destruct H as [Hl Hv]. apply plain_ok; [|exact I]. cbn [valid_fields]. rewrite Hv.
  assert (len bl <=? 31 = true) by (apply Z.leb_le; unfold len; lia).
  rewrite H. rewrite !andb_true_iff. repeat split; rng.
Qed.

(* SDES *)
Definition item_cond (i : sdes_item) : Prop := (len (it_text i) <=? 255) = true -> item_valid i = true.

Lemma lossy_text_cond ty t : 1 <= ty <= 255 -> bytes t -> item_cond (mkItem ty (utf8_lossy t)).
Proof.
  intros Hty Hb Hl. unfold item_valid, text_valid. cbn [it_ty it_text] in *. rewrite Hl.
  assert (bytesb (utf8_lossy t) = true) by (apply bytesb_spec, utf8_lossy_bytes; exact Hb).
  assert (utf8_cleanb (utf8_lossy t) = true) by (unfold utf8_cleanb; apply zlist_eqb_eq, utf8_lossy_idem).
  rewrite H, H0. rewrite !andb_true_iff. repeat split; [apply Z.leb_le|apply Z.leb_le]; lia.
Qed.

Lemma parse_items_spec : forall f l off,
  bytes l -> (length l <= f)%nat ->
  match parse_items f l off with
  | Ok (its, l', _) => bytes l' /\ Forall item_cond its
  | _ => True
  end.
Proof.
  induction f as [|f IH]; intros l off Hb Hf.
  - destruct l; [cbn; split; [exact Hb|constructor]|cbn in Hf; lia].
  - destruct l as [|ty t]; [cbn; split; [exact Hb|constructor]|]. cbn [length] in Hf. cbn [parse_items].
    apply bytes_cons in Hb as [Hty Hb].
    destruct (ty =? 0) eqn:E0; [split; [apply bytes_drop; exact Hb|constructor]|]. apply Z.eqb_neq in E0.
    destruct t as [|n t']; [exact I|]. apply bytes_cons in Hb as [Hn Hb]. cbn [length] in Hf.
    destruct (len t' <? n) eqn:E; [exact I|]. apply Z.ltb_ge in E. unfold byte in Hn, Hty.
    rewrite slice_ok by lia. cbn [bind]. rewrite drop_0, Z.sub_0_r.
    pose proof (length_drop_le n t') as Hd.
    specialize (IH (drop n t') (off + 2 + n) (bytes_drop n t' Hb) ltac:(lia)).
    destruct (parse_items f (drop n t') (off + 2 + n)) as [[[its l'] off']| |]; cbn [bind]; try exact I.
    destruct IH as [Hb' Hits]. split; [exact Hb'|]. constructor; [|exact Hits].
    apply lossy_text_cond; [lia|apply bytes_take; exact Hb].
Qed.

Definition chunk_cond (c : sdes_chunk) : Prop :=
  forallb (fun i => len (it_text i) <=? 255) (ch_items c) = true -> chunk_valid c = true.

Lemma items_cond_valid its :
  Forall item_cond its -> forallb (fun i => len (it_text i) <=? 255) its = true -> forallb item_valid its = true.
Proof.
  induction 1 as [|i its Hi _ IH]; intros Hs; [reflexivity|]. cbn [forallb] in *.
  apply andb_true_iff in Hs as [H1 H2]. rewrite (Hi H1), (IH H2). reflexivity.
Qed.

Lemma parse_chunks_spec n : forall l off, bytes l ->
  match parse_chunks n l off with Ok ch => length ch = n /\ Forall chunk_cond ch | _ => True end.
Proof.
  induction n as [|n IH]; intros l off Hb; cbn [parse_chunks]; [split; [reflexivity|constructor]|].
  destruct (len l <? 4) eqn:E; [exact I|]. apply Z.ltb_ge in E.
  expose l E 4. bsplit Hb. cbn [get_u32 bind].
  pose proof (parse_items_spec (length l) l (off + 4) Hb (le_n _)) as H.
  destruct (parse_items (length l) l (off + 4)) as [[[its l2] off2]| |]; cbn [bind]; try exact I.
  destruct H as [Hb2 Hits]. specialize (IH l2 off2 Hb2).
  destruct (parse_chunks n l2 off2) as [ch| |]; cbn [bind]; try exact I.
  destruct IH as [Hl Hch]. split; [cbn [length]; lia|]. constructor; [|exact Hch].
  intros Hs. unfold chunk_valid. cbn [ch_ssrc ch_items] in *. rewrite (items_cond_valid its Hits Hs).
  rewrite andb_true_r. rng.
Qed.

Lemma chunks_cond_valid ch :
  Forall chunk_cond ch ->
  forallb (fun c => forallb (fun i => len (it_text i) <=? 255) (ch_items c)) ch = true -> forallb chunk_valid ch = true.
Proof.
  induction 1 as [|c ch Hc _ IH]; intros Hs; [reflexivity|]. cbn [forallb] in *.
  apply andb_true_iff in Hs as [H1 H2]. rewrite (Hc H1), (IH H2). reflexivity.
Qed.

Lemma parse_sdes_spec fmt body :
  bytes body -> 0 <= fmt < 32 -> match parse_sdes fmt body with Ok x => back_ok x | _ => True end.
Proof.
  intros Hb Hf. unfold parse_sdes. pose proof (parse_chunks_spec (Z.to_nat fmt) body 0 Hb) as H.
  destruct (parse_chunks (Z.to_nat fmt) body 0) as [ch| |]; cbn [bind]; try exact I.
  destruct H as [Hl Hch]. split; [|exact I]. intros Hs _. cbn [valid_fields text_short] in *.
  rewrite (chunks_cond_valid ch Hch Hs). rewrite andb_true_r. apply Z.leb_le. unfold len. lia.
Qed.

(* BYE *)
Lemma parse_sources_spec n : forall l, bytes l ->
  match parse_sources n l with Ok (ss, l') => length ss = n /\ forallb u32b ss = true /\ bytes l' | _ => True end.
Proof.
  induction n as [|n IH]; intros l Hb; cbn [parse_sources]; [repeat split; auto|].
  destruct (len l <? 4) eqn:E; [exact I|]. apply Z.ltb_ge in E.
  expose l E 4. bsplit Hb. cbn [get_u32 bind].
  specialize (IH l Hb). destruct (parse_sources n l) as [[ss l'']| |]; cbn [bind]; try exact I.
  destruct IH as (A & B & C). split; [cbn [length]; lia|]. split; [|exact C]. cbn [forallb]. rewrite B, andb_true_r. rng.
Qed.
Lemma parse_bye_spec fmt body :
  bytes body -> 0 <= fmt < 32 -> match parse_bye fmt body with Ok x => back_ok x | _ => True end.
Proof.
  intros Hb Hf. unfold parse_bye. pose proof (parse_sources_spec (Z.to_nat fmt) body Hb) as H.
  destruct (parse_sources (Z.to_nat fmt) body) as [[ss l]| |]; cbn [bind]; try exact I.
  destruct H as (Hl & Hv & Hbl).
  assert (Hn : len ss <=? 31 = true) by (apply Z.leb_le; unfold len; lia).
  destruct l as [|n t].
  - apply plain_ok; [|exact I]. cbn [valid_fields]. rewrite Hn, Hv. reflexivity.
  - apply bytes_cons in Hbl as [Hnb Ht]. unfold byte in Hnb.
    destruct (len t <? n) eqn:E; [exact I|]. apply Z.ltb_ge in E.
    rewrite slice_ok by lia. cbn [bind]. rewrite drop_0, Z.sub_0_r.
    split; [|exact I]. intros Hs _. cbn [valid_fields text_short] in *. rewrite Hn, Hv. cbn [andb].
    unfold text_valid. rewrite Hs.
    assert (bytesb (utf8_lossy (take n t)) = true) by (apply bytesb_spec, utf8_lossy_bytes, bytes_take; exact Ht).
    assert (utf8_cleanb (utf8_lossy (take n t)) = true) by (unfold utf8_cleanb; apply zlist_eqb_eq, utf8_lossy_idem).
    rewrite H, H0. reflexivity.
Qed.

(* feedback *)
Lemma parse_pli_spec body : bytes body -> match parse_pli body with Ok x => back_ok x | _ => True end.
Proof.
  intros Hb. unfold parse_pli. rconsts. destruct (len body <? 8) eqn:E; [exact I|]. apply Z.ltb_ge in E.
  expose body E 8. bsplit Hb. cbn [get_u32 bind]. apply plain_ok; [|exact I]. cbn [valid_fields].
  rewrite andb_true_iff. split; rng.
Qed.

Lemma parse_fir_entries_spec : forall f l, bytes l -> (length l <= f)%nat ->
  match parse_fir_entries f l with Ok rq => forallb fir_valid rq = true | _ => True end.
Proof.
  induction f as [|f IH]; intros l Hb Hf.
  - destruct l; [reflexivity|cbn in Hf; lia].
  - cbn [parse_fir_entries]. destruct (len l <? 8) eqn:E; [reflexivity|]. apply Z.ltb_ge in E.
    expose l E 5. bsplit Hb. cbn [get_u32 get_u8 bind]. cbn [length] in Hf.
    pose proof (length_drop_le 3 l) as Hd. specialize (IH (drop 3 l) (bytes_drop 3 l Hb) ltac:(lia)).
    destruct (parse_fir_entries f (drop 3 l)) as [rq| |]; cbn [bind]; try exact I.
    cbn [forallb]. rewrite IH, andb_true_r. unfold fir_valid. cbn [fr_ssrc fr_seq]. rewrite andb_true_iff. split; rng.
Qed.
Lemma parse_fir_spec body : bytes body -> match parse_fir body with Ok x => back_ok x | _ => True end.
Proof.
  intros Hb. unfold parse_fir. rconsts. destruct (len body <? 8) eqn:E; [exact I|]. apply Z.ltb_ge in E.
  expose body E 4. bsplit Hb. cbn [get_u32 bind].
  assert (H : match parse_fir_entries (length (z :: z0 :: z1 :: z2 :: body)) (drop 4 body) with
              | Ok rq => forallb fir_valid rq = true | _ => True end).
  { apply parse_fir_entries_spec; [apply bytes_drop; exact Hb|]. pose proof (length_drop_le 4 body). cbn [length]. lia. }
  destruct (parse_fir_entries _ (drop 4 body)) as [rq| |]; cbn [bind]; try exact I.
  apply plain_ok; [|exact I]. cbn [valid_fields]. rewrite H, andb_true_r. rng.
Qed.

Lemma parse_nack_pairs_spec : forall f l, bytes l -> (length l <= f)%nat ->
  match parse_nack_pairs f l with Ok ps => Forall (fun pb => u16 (fst pb)) ps | _ => True end.
Proof.
  induction f as [|f IH]; intros l Hb Hf.
  - destruct l; [constructor|cbn in Hf; lia].
  - cbn [parse_nack_pairs]. destruct (len l <? 4) eqn:E; [constructor|]. apply Z.ltb_ge in E.
    expose l E 4. bsplit Hb. cbn [get_u16 bind]. cbn [length] in Hf.
    specialize (IH l Hb ltac:(lia)). destruct (parse_nack_pairs f l) as [ps| |]; cbn [bind]; try exact I.
    constructor; [cbn [fst]; apply u16_of_range; assumption|exact IH].
Qed.
Lemma unpack_u16 ps : Forall (fun pb => u16 (fst pb)) ps -> forallb u16b (unpack_pairs ps) = true.
Proof.
  intros H. apply forallb_forall. intros y Hy. apply u16b_spec.
  unfold unpack_pairs in Hy. apply in_flat_map in Hy as (pb & Hin & Hy).
  rewrite Forall_forall in H. specialize (H pb Hin).
  apply In_unpack_pair in Hy as [->|(bit & _ & _ & ->)]; [exact H|].
  unfold u16, cast_u16. pose proof (wrapu_range 16 (fst pb + (bit + 1)) ltac:(lia)). change (2 ^ 16) with 65536 in *. lia.
Qed.
Lemma parse_nack_spec body : bytes body -> match parse_nack body with Ok x => back_ok x | _ => True end.
Proof.
  intros Hb. unfold parse_nack. rconsts. destruct (len body <? 8) eqn:E; [exact I|]. apply Z.ltb_ge in E.
  expose body E 8. bsplit Hb. cbn [get_u32 bind].
  assert (H : match parse_nack_pairs (length (z :: z0 :: z1 :: z2 :: z3 :: z4 :: z5 :: z6 :: body)) body with
              | Ok ps => Forall (fun pb => u16 (fst pb)) ps | _ => True end).
  { apply parse_nack_pairs_spec; [exact Hb|cbn [length]; lia]. }
  destruct (parse_nack_pairs _ body) as [ps| |]; cbn [bind]; try exact I.
  split; [|exact I]. intros _ Hne. cbn [valid_fields nack_ne] in *. rewrite Hne, (unpack_u16 ps H).
  rewrite !andb_true_iff. repeat split; rng.
Qed.

Lemma parse_remb_ssrcs_spec n : forall l, bytes l ->
  match parse_remb_ssrcs n l with Ok ss => length ss = n /\ forallb u32b ss = true | _ => True end.
Proof.
  induction n as [|n IH]; intros l Hb; cbn [parse_remb_ssrcs]; [split; reflexivity|].
  destruct (len l <? 4) eqn:E; [exact I|]. apply Z.ltb_ge in E.
  expose l E 4. bsplit Hb. cbn [get_u32 bind]. specialize (IH l Hb).
  destruct (parse_remb_ssrcs n l) as [ss| |]; cbn [bind]; try exact I.
  destruct IH as [A B]. split; [cbn [length]; lia|]. cbn [forallb]. rewrite B, andb_true_r. rng.
Qed.

Definition b13_dec_check (b : Z) : bool :=
  (0 <=? Z.shiftr (Z.land b 252) 2) && (Z.shiftr (Z.land b 252) 2 <? 64) && (0 <=? Z.land b 3) && (Z.land b 3 <? 4).
Lemma b13_dec b : byte b -> 0 <= Z.shiftr (Z.land b 252) 2 < 64 /\ 0 <= Z.land b 3 < 4.
Proof.
  intros Hb. assert (H : b13_dec_check b = true) by (apply byte_forall; [vm_compute; reflexivity|exact Hb]).
  unfold b13_dec_check in H. rewrite !andb_true_iff, !Z.leb_le, !Z.ltb_lt in H. lia.
Qed.

Lemma parse_remb_spec body : bytes body -> match parse_remb body with Ok x => back_ok x | _ => True end.
Proof.
  intros Hb. unfold parse_remb. rconsts. destruct (len body <? 16) eqn:E; [exact I|]. apply Z.ltb_ge in E.
  expose body E 16. bsplit Hb. cbn [get_u32 bind].
  rewrite slice_ok by (rewrite ?len_cons; pose proof (len_nonneg body); lia).
  cbn [bind]. destruct (negb _); [exact I|].
  change (drop 4 (z7 :: z8 :: z9 :: z10 :: z11 :: z12 :: z13 :: z14 :: body)) with (z11 :: z12 :: z13 :: z14 :: body).
  cbn [get_u8 bind]. pose proof (parse_remb_ssrcs_spec (Z.to_nat z11) body Hb) as H.
  destruct (parse_remb_ssrcs (Z.to_nat z11) body) as [ss| |]; cbn [bind]; try exact I.
  destruct H as [Hl Hv].
  destruct (b13_dec z12 ltac:(assumption)) as [He Ht].
  assert (Hmant : 0 <= Z.lor (Z.lor (Z.shiftl (Z.land z12 3) 16) (Z.shiftl z13 8)) z14 <= 262143).
  { unfold byte in *. rewrite lor3 by lia. lia. }
  split.
  - intros _ _. cbn [valid_fields]. rewrite Hv.
    pose proof (wrapu_range 64 (Z.shiftl (Z.lor (Z.lor (Z.shiftl (Z.land z12 3) 16) (Z.shiftl z13 8)) z14) (Z.shiftr (Z.land z12 252) 2)) ltac:(lia)) as Hr.
    unfold cast_u64. change (2 ^ 64) with 18446744073709551616 in Hr.
    assert (Hn : len ss <=? 255 = true) by (apply Z.leb_le; unfold len, byte in *; lia).
    rewrite Hn. rewrite !andb_true_iff. repeat split; try rng; [apply Z.leb_le; lia|apply Z.ltb_lt; lia].
  - apply remb_stable; assumption.
Qed.

Lemma parse_twcc_spec body : bytes body -> match parse_twcc body with Ok x => back_ok x | _ => True end.
Proof.
  intros Hb. unfold parse_twcc. rconsts. destruct (len body <? 16) eqn:E; [exact I|]. apply Z.ltb_ge in E.
  expose body E 16. bsplit Hb. cbn [get_u32 get_u16 get_u8 bind]. apply plain_ok; [|exact I]. cbn [valid_fields].
  assert (Hr : 0 <= u32_of 0 z11 z12 z13 < 16777216) by (unfold u32_of, byte in *; lia).
  assert (bytesb body = true) by (apply bytesb_spec; exact Hb).
  rewrite H. rewrite !andb_true_iff. repeat split; try rng; [apply Z.leb_le; lia|apply Z.ltb_lt; lia].
Qed.

Lemma parse_one_spec fmt pt body :
  bytes body -> 0 <= fmt < 32 -> match parse_one fmt pt body with Ok (Some x) => back_ok x | _ => True end.
Proof.
  intros Hb Hf. unfold parse_one.
  repeat match goal with |- match (if ?c then _ else _) with _ => _ end => destruct c end; try exact I;
  match goal with
  | |- match bind ?r _ with _ => _ end =>
      let H := fresh in
      assert (H : match r with Ok x => back_ok x | _ => True end) by
        (first [apply parse_sr_spec; assumption | apply parse_rr_spec; assumption | apply parse_sdes_spec; assumption
               | apply parse_bye_spec; assumption | apply parse_nack_spec; assumption | apply parse_twcc_spec; assumption
               | apply parse_pli_spec; assumption | apply parse_fir_spec; assumption | apply parse_remb_spec; assumption]);
      destruct r; cbn [bind]; try exact I; exact H
  end.
Qed.

(* ------------------------------------------------------------------ the compound walk *)
Lemma parse_loop_spec : forall f raw, bytes raw ->
  match parse_rtcp_loop f raw with Ok xs => Forall back_ok xs | _ => True end.
Proof.
  induction f as [|f IH]; intros raw Hb.
  - cbn [parse_rtcp_loop]. destruct (len raw <? 4); [constructor|exact I].
  - cbn [parse_rtcp_loop]. destruct (len raw <? 4) eqn:E4; [constructor|]. apply Z.ltb_ge in E4.
    destruct (idx_ok raw 0 ltac:(lia) Hb) as (vrc & -> & _). cbn [bind].
    destruct (negb _); [exact I|].
    destruct (idx_ok raw 1 ltac:(lia) Hb) as (pt & -> & _). cbn [bind].
    destruct (idx_ok raw 2 ltac:(lia) Hb) as (l1 & -> & H1). cbn [bind].
    destruct (idx_ok raw 3 ltac:(lia) Hb) as (l2 & -> & H2). cbn [bind].
    set (plen := (u16_of l1 l2 + 1) * 4) in *.
    destruct (len raw <? plen) eqn:E5; [exact I|].
    match goal with |- match bind ?r _ with _ => _ end => destruct r as [body_end| |] end; cbn [bind]; try exact I.
    destruct (slice raw 4 body_end) as [body| |] eqn:Es; cbn [bind]; try exact I.
    assert (Hbody : bytes body).
    { unfold slice in Es. destruct (_ && _ && _); [|discriminate]. apply Ok_inj in Es. subst body.
      apply bytes_take, bytes_drop. exact Hb. }
    pose proof (parse_one_spec (Z.land vrc R_FMT_MASK) pt body Hbody ltac:(unfold R_FMT_MASK; apply land31_range)) as Ho.
    destruct (parse_one (Z.land vrc R_FMT_MASK) pt body) as [o| |]; cbn [bind]; try exact I.
    specialize (IH (drop plen raw) (bytes_drop plen raw Hb)).
    destruct (parse_rtcp_loop f (drop plen raw)) as [rest| |]; cbn [bind]; try exact I.
    destruct o as [x|]; [constructor; assumption|exact IH].
Qed.

Definition not_nack (x : rtcp) : bool := match x with NACK _ _ _ => false | _ => true end.

Lemma back_canon x : back_ok x -> not_nack x = true -> canon x = x.
Proof. intros [_ Hr] Hn. destruct x; try reflexivity; [discriminate|]. cbn [canon]. rewrite Hr. reflexivity. Qed.

(* what parse_rtcp_packets returns re-serialises, and the re-serialisation parses to the same packets:
   exactly for every type except NACK, whose lost list comes back as the same set (sorted, de-duplicated).
   Side conditions (all on the parsed value, all decidable): decoded SDES / BYE texts are at most 255 bytes
   (always the case when the received text was valid UTF-8), a NACK carries at least one entry, the encoding
   stays below 2^18 bytes. *)
Theorem rtcp_parse_marshal_parse bs xs :
  bytes bs -> parse_rtcp bs = Ok xs ->
  forallb text_short xs = true -> forallb nack_ne xs = true -> forallb fits xs = true ->
  exists bs', marshal_rtcp xs = Ok bs' /\ parse_rtcp bs' = Ok (map canon xs) /\
              Forall (fun x => not_nack x = true -> canon x = x) xs /\
              (forallb not_nack xs = true -> parse_rtcp bs' = Ok xs).
Proof.
  intros Hb Hp Ht Hn Hf.
  pose proof (parse_loop_spec (length bs) bs Hb) as Hs. unfold parse_rtcp in Hp. rewrite Hp in Hs.
  assert (Hv : forallb valid xs = true).
  { apply forallb_forall. intros x Hx. rewrite forallb_forall in Ht, Hn, Hf. rewrite Forall_forall in Hs.
    unfold valid. rewrite (proj1 (Hs x Hx) (Ht x Hx) (Hn x Hx)), (Hf x Hx). reflexivity. }
  destruct (rtcp_roundtrip xs Hv) as (bs' & Hm & Hp').
  assert (Hc : Forall (fun x => not_nack x = true -> canon x = x) xs).
  { rewrite Forall_forall in *. intros x Hx. apply back_canon. apply Hs. exact Hx. }
  exists bs'. split; [exact Hm|]. split; [exact Hp'|]. split; [exact Hc|].
  intros Hnn. rewrite Hp'. f_equal. clear -Hc Hnn. induction xs as [|x xs IH]; [reflexivity|].
  cbn [forallb] in Hnn. apply andb_true_iff in Hnn as [H1 H2]. inversion Hc as [|? ? Hx Hxs]; subst.
  cbn [map]. rewrite (Hx H1), (IH Hxs H2). reflexivity.
Qed.

(* every parsed packet satisfies the field part of the validity predicate under the two side conditions *)
Theorem rtcp_parsed_valid bs xs :
  bytes bs -> parse_rtcp bs = Ok xs ->
  Forall (fun x => text_short x = true -> nack_ne x = true -> valid_fields x = true) xs.
Proof.
  intros Hb Hp. pose proof (parse_loop_spec (length bs) bs Hb) as Hs. unfold parse_rtcp in Hp. rewrite Hp in Hs.
  rewrite Forall_forall in *. intros x Hx. apply (Hs x Hx).
Qed.
