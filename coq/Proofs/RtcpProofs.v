(* C15 proofs, part 4: RTCP compound packets -- parse (marshal xs) = Ok (map canon xs) under an
   explicit boolean validity predicate (Model/Rtcp.v). *)
From Coq Require Import ZArith List Bool Lia.
From RV Require Import Lib.Wrap.
From RV Require Import Gen.Consts.
From RV Require Import Gen.RtpConsts.
From RV Require Import Model.RtpLib.
From RV Require Import Model.Rtp.
From RV Require Import Model.Nack.
From RV Require Import Model.Rtcp.
From RV Require Import Proofs.RtpProofs.
From RV Require Import Proofs.NackProofs.
Import ListNotations.
Open Scope Z_scope.

Ltac rconsts :=
  unfold R_VERSION_SHIFT, R_PAD_MASK, R_FMT_MASK, WR_VERSION_SHIFT, WR_FMT_MASK, MAX_SR_BLOCKS, MAX_RR_BLOCKS,
         MAX_SDES_CHUNKS, SDES_ITEM_MAX, MAX_BYE_SOURCES, BYE_REASON_MAX, LOST_BOUND, REMB_MAX_SSRCS, REMB_MANT_MAX,
         TWCC_REF_MASK, SR_MIN, BLOCK_SIZE, RR_MIN, PSFB_MIN, FIR_MIN, NACK_MIN, REMB_MIN, TWCC_MIN,
         RTP_VERSION, RTCP_SR, RTCP_RR, RTCP_SDES, RTCP_BYE, RTCP_RTPFB, RTCP_PSFB, RTCP_XR, RTCP_RTPFB_NACK,
         RTCP_RTPFB_TWCC, RTCP_PSFB_PLI, RTCP_PSFB_FIR, RTCP_PSFB_APP in *.

(* ------------------------------------------------------------------ boolean range tests *)
Definition u32b (x : Z) : bool := (0 <=? x) && (x <? 4294967296).
Definition u16b (x : Z) : bool := (0 <=? x) && (x <? 65536).
Lemma u32b_spec x : u32b x = true <-> u32 x.
Proof. unfold u32b, u32. rewrite andb_true_iff, Z.leb_le, Z.ltb_lt. tauto. Qed.
Lemma u16b_spec x : u16b x = true <-> u16 x.
Proof. unfold u16b, u16. rewrite andb_true_iff, Z.leb_le, Z.ltb_lt. tauto. Qed.
Lemma forallb_Forall {A} (f : A -> bool) (P : A -> Prop) l :
  (forall x, f x = true -> P x) -> forallb f l = true -> Forall P l.
Proof. intros H Hf. rewrite forallb_forall in Hf. apply Forall_forall. auto. Qed.

(* ------------------------------------------------------------------ bits *)
Lemma lor_disjoint a b k : 0 <= k -> 0 <= b < 2 ^ k -> Z.lor (Z.shiftl a k) b = a * 2 ^ k + b.
Proof.
  intros Hk Hb. rewrite <- Z.shiftl_mul_pow2 by exact Hk.
  assert (E : Z.land (Z.shiftl a k) b = 0).
  { apply Z.bits_inj'. intros n Hn. rewrite Z.land_spec, Z.testbit_0_l.
    destruct (Z_lt_ge_dec n k) as [L|G].
    - rewrite Z.shiftl_spec_low by exact L. reflexivity.
    - destruct (Z.eq_dec b 0) as [->|Hnz]; [rewrite Z.testbit_0_l; apply andb_false_r|].
      rewrite (Z.bits_above_log2 b n); [apply andb_false_r|lia|].
      assert (Z.log2 b < k) by (apply Z.log2_lt_pow2; lia). lia. }
  rewrite <- Z.lxor_lor by exact E. rewrite <- Z.add_nocarry_lxor by exact E. reflexivity.
Qed.

(* ------------------------------------------------------------------ padding *)
Lemma pad4_aligned body : len body mod 4 = 0 -> pad4 body = body.
Proof. intros H. unfold pad4. rewrite H. cbn. apply app_nil_r. Qed.
Lemma len_pad4 body : len (pad4 body) mod 4 = 0 /\ len body <= len (pad4 body) < len body + 4.
Proof.
  unfold pad4. rewrite len_app, len_repeat. pose proof (len_nonneg body).
  rewrite Z2Nat.id by (Z.div_mod_to_equations; lia). Z.div_mod_to_equations. lia.
Qed.

(* ------------------------------------------------------------------ the compound loop over one written packet *)
Definition cons_opt (o : option rtcp) (l : list rtcp) : list rtcp := match o with Some p => p :: l | None => l end.

Definition b0_rtcp_check (k : Z) : bool :=
  let b0 := Z.lor (Z.shiftl RTP_VERSION WR_VERSION_SHIFT) (Z.land k WR_FMT_MASK) in
  (Z.shiftr b0 R_VERSION_SHIFT =? RTP_VERSION) && negb (flag b0 R_PAD_MASK) && (Z.land b0 R_FMT_MASK =? k).

Lemma b0_rtcp k :
  0 <= k < 32 ->
  let b0 := Z.lor (Z.shiftl RTP_VERSION WR_VERSION_SHIFT) (Z.land k WR_FMT_MASK) in
  Z.shiftr b0 R_VERSION_SHIFT = RTP_VERSION /\ flag b0 R_PAD_MASK = false /\ Z.land b0 R_FMT_MASK = k.
Proof.
  intros Hk. assert (H : b0_rtcp_check k = true) by (apply (range_forall 32 b0_rtcp_check); [vm_compute; reflexivity|lia]).
  unfold b0_rtcp_check in H. cbv zeta in *. rewrite !andb_true_iff in H. destruct H as [[H1 H2] H3].
  apply Z.eqb_eq in H1, H3. apply negb_true_iff in H2. auto.
Qed.

Lemma land31_range x : 0 <= Z.land x 31 < 32.
Proof. change 31 with (Z.ones 5). pose proof (land_ones_range x 5 ltac:(lia)). change (2 ^ 5) with 32 in *. lia. Qed.
Lemma land31_idem x : Z.land (Z.land x 31) 31 = Z.land x 31.
Proof. rewrite <- Z.land_assoc. reflexivity. Qed.

Lemma idx0 a l : idx (a :: l) 0 = Ok a.
Proof. unfold idx. rewrite len_cons. pose proof (len_nonneg l). destruct (0 <? 1 + len l) eqn:E; [reflexivity|apply Z.ltb_ge in E; lia]. Qed.
Lemma idx1 a b l : idx (a :: b :: l) 1 = Ok b.
Proof. unfold idx. rewrite !len_cons. pose proof (len_nonneg l). destruct (1 <? 1 + (1 + len l)) eqn:E; [reflexivity|apply Z.ltb_ge in E; lia]. Qed.
Lemma idx2 a b c l : idx (a :: b :: c :: l) 2 = Ok c.
Proof. unfold idx. rewrite !len_cons. pose proof (len_nonneg l). destruct (2 <? 1 + (1 + (1 + len l))) eqn:E; [reflexivity|apply Z.ltb_ge in E; lia]. Qed.
Lemma idx3 a b c d l : idx (a :: b :: c :: d :: l) 3 = Ok d.
Proof. unfold idx. rewrite !len_cons. pose proof (len_nonneg l). destruct (3 <? 1 + (1 + (1 + (1 + len l)))) eqn:E; [reflexivity|apply Z.ltb_ge in E; lia]. Qed.

Lemma loop_written f fmt pt body rest :
  len (pad4 body) + 4 <= 262144 ->
  parse_rtcp_loop (S f) (write_rtcp_packet fmt pt body ++ rest) =
  (o <- parse_one (Z.land fmt 31) pt (pad4 body) ;;
   r <- parse_rtcp_loop f rest ;;
   Ok (cons_opt o r)).
Proof.
  intros Hfit. destruct (len_pad4 body) as [Hal Hlb]. pose proof (len_nonneg body) as Hn.
  set (pb := pad4 body) in *.
  assert (Hw : cast_u16 (Z.max 0 ((len pb + 4) / 4 - 1)) = len pb / 4).
  { unfold cast_u16. rewrite wrapu_small; [Z.div_mod_to_equations; lia|]. change (2 ^ 16) with 65536. Z.div_mod_to_equations. lia. }
  unfold write_rtcp_packet. fold pb. rewrite Hw.
  set (b0 := Z.lor (Z.shiftl RTP_VERSION WR_VERSION_SHIFT) (Z.land fmt WR_FMT_MASK)).
  assert (Hb0 : Z.shiftr b0 R_VERSION_SHIFT = RTP_VERSION /\ flag b0 R_PAD_MASK = false /\ Z.land b0 R_FMT_MASK = Z.land fmt 31).
  { pose proof (b0_rtcp (Z.land fmt 31) (land31_range fmt)) as H. cbv zeta in H.
    unfold WR_FMT_MASK in *. rewrite land31_idem in H. exact H. }
  destruct Hb0 as (V & P & F).
  cbn [app be16]. set (l1 := len pb / 4 / 256 mod 256). set (l2 := len pb / 4 mod 256).
  cbn [parse_rtcp_loop].
  assert (Hlen : len (b0 :: pt :: l1 :: l2 :: pb ++ rest) = 4 + len pb + len rest) by (rewrite !len_cons, len_app; lia).
  pose proof (len_nonneg rest) as Hr.
  rewrite Hlen. destruct (4 + len pb + len rest <? 4) eqn:E4; [apply Z.ltb_lt in E4; lia|].
  rewrite idx0. cbn [bind]. rewrite V, Z.eqb_refl. cbn [negb]. rewrite P, F.
  rewrite idx1. cbn [bind]. rewrite idx2. cbn [bind]. rewrite idx3. cbn [bind].
  assert (Hu : u16_of l1 l2 = len pb / 4).
  { unfold l1, l2. apply be16_of. unfold u16. Z.div_mod_to_equations. lia. }
  rewrite Hu. replace ((len pb / 4 + 1) * 4) with (len pb + 4) by (Z.div_mod_to_equations; lia).
  destruct (4 + len pb + len rest <? len pb + 4) eqn:E5; [apply Z.ltb_lt in E5; lia|].
  cbn [bind].
  assert (Hs : slice (b0 :: pt :: l1 :: l2 :: pb ++ rest) 4 (len pb + 4) = Ok pb).
  { rewrite slice_ok by (rewrite ?Hlen; lia).
    change (drop 4 (b0 :: pt :: l1 :: l2 :: pb ++ rest)) with (pb ++ rest).
    replace (len pb + 4 - 4) with (len pb) by lia. rewrite take_app_exact. reflexivity. }
  rewrite Hs. cbn [bind].
  assert (Hd : drop (len pb + 4) (b0 :: pt :: l1 :: l2 :: pb ++ rest) = rest).
  { change (b0 :: pt :: l1 :: l2 :: pb ++ rest) with ([b0; pt; l1; l2] ++ pb ++ rest). rewrite app_assoc.
    apply drop_app_n. rewrite len_app. change (len [b0; pt; l1; l2]) with 4. lia. }
  rewrite Hd. destruct (parse_one (Z.land fmt 31) pt pb) as [o| |]; cbn [bind]; try reflexivity.
Qed.

(* ------------------------------------------------------------------ report blocks *)
Definition rb_valid (b : report_block) : bool :=
  u32b (rb_ssrc b) && byteb (rb_fraction b) && (- 8388608 <=? rb_lost b) && (rb_lost b <? 8388608) &&
  u32b (rb_highest b) && u32b (rb_jitter b) && u32b (rb_lsr b) && u32b (rb_dlsr b).

Lemma lost24_sext x :
  - 8388608 <= x < 8388608 ->
  exists b5 b6 b7, lost24 x = [b5; b6; b7] /\ sext24 b5 b6 b7 = x.
Proof.
  intros Hx. unfold lost24. rconsts. rewrite Z.max_r, Z.min_l by lia.
  set (v := Z.land (cast_u32 x) 16777215).
  assert (Hv : v = x mod 16777216).
  { unfold v, cast_u32, wrapu. change 16777215 with (Z.ones 24). rewrite Z.land_ones by lia.
    change (2 ^ 24) with 16777216. change (2 ^ 32) with 4294967296. Z.div_mod_to_equations. lia. }
  assert (Hr : 0 <= v < 16777216) by (rewrite Hv; apply Z.mod_pos_bound; lia).
  cbn [be32 tl]. eexists _, _, _. split; [reflexivity|].
  unfold sext24.
  set (b5 := v / 65536 mod 256). set (b6 := v / 256 mod 256). set (b7 := v mod 256).
  assert (H5 : 0 <= b5 < 256) by (apply Z.mod_pos_bound; lia).
  assert (H6 : 0 <= b6 < 256) by (apply Z.mod_pos_bound; lia).
  assert (H7 : 0 <= b7 < 256) by (apply Z.mod_pos_bound; lia).
  assert (E1 : Z.shiftl b5 16 = Z.shiftl (b5 * 256) 8).
  { rewrite !Z.shiftl_mul_pow2 by lia. change (2 ^ 16) with (256 * 2 ^ 8). ring. }
  assert (E2 : Z.lor (Z.shiftl b5 16) (Z.shiftl b6 8) = Z.shiftl (b5 * 256 + b6) 8).
  { rewrite E1, <- Z.shiftl_lor. f_equal.
    transitivity (Z.lor (Z.shiftl b5 8) b6); [rewrite Z.shiftl_mul_pow2 by lia; reflexivity|].
    rewrite lor_disjoint by (try lia; change (2 ^ 8) with 256; lia). reflexivity. }
  assert (E3 : Z.lor (Z.lor (Z.shiftl b5 16) (Z.shiftl b6 8)) b7 = v).
  { rewrite E2. rewrite lor_disjoint by (change (2 ^ 8) with 256; lia). change (2 ^ 8) with 256.
    unfold b5, b6, b7. Z.div_mod_to_equations. lia. }
  rewrite E3. rewrite Z.shiftl_mul_pow2, Z.shiftr_div_pow2 by lia. change (2 ^ 8) with 256.
  unfold cast_i32, wraps. change (2 ^ (32 - 1)) with 2147483648. change (2 ^ 32) with 4294967296.
  rewrite Hv. Z.div_mod_to_equations. lia.
Qed.

Lemma parse_build_block b rest :
  rb_valid b = true -> parse_report_block (build_report_block b ++ rest) = Ok (b, rest).
Proof.
  unfold rb_valid. rewrite !andb_true_iff. intros [[[[[[[H1 H2] H3] H4] H5] H6] H7] H8].
  apply u32b_spec in H1, H5, H6, H7, H8. apply byteb_spec in H2. apply Z.leb_le in H3. apply Z.ltb_lt in H4.
  destruct (lost24_sext (rb_lost b) ltac:(lia)) as (b5 & b6 & b7 & Hl & Hs).
  unfold build_report_block, parse_report_block. rewrite Hl. rewrite <- !app_assoc.
  rewrite get_u32_be32 by exact H1. cbn [bind app get_u8].
  rewrite get_u32_be32 by exact H5. cbn [bind].
  rewrite get_u32_be32 by exact H6. cbn [bind].
  rewrite get_u32_be32 by exact H7. cbn [bind].
  rewrite get_u32_be32 by exact H8. cbn [bind].
  rewrite Hs. destruct b; reflexivity.
Qed.

Lemma len_build_block b : len (build_report_block b) = 24.
Proof. unfold build_report_block, lost24. rewrite !len_app, !len_be32. reflexivity. Qed.
Lemma len_flat_blocks bl : len (flat_map build_report_block bl) = 24 * len bl.
Proof. induction bl as [|b bl IH]; [reflexivity|]. cbn [flat_map]. rewrite len_app, len_build_block, len_cons, IH. lia. Qed.

Lemma parse_build_blocks bl rest :
  forallb rb_valid bl = true ->
  parse_blocks (length bl) (flat_map build_report_block bl ++ rest) = Ok bl.
Proof.
  induction bl as [|b bl IH]; intros H; [reflexivity|].
  cbn [forallb] in H. apply andb_true_iff in H as [Hb Hbl].
  cbn [length parse_blocks flat_map]. rewrite <- app_assoc.
  assert (E : len (build_report_block b ++ flat_map build_report_block bl ++ rest) <? BLOCK_SIZE = false).
  { apply Z.ltb_ge. rewrite len_app, len_build_block. rconsts.
    pose proof (len_nonneg (flat_map build_report_block bl ++ rest)). lia. }
  rewrite E, parse_build_block by exact Hb. cbn [bind]. rewrite IH by exact Hbl. reflexivity.
Qed.

Lemma count_fmt n : 0 <= n <= 31 -> Z.land (cast_u8 n) 31 = n.
Proof.
  intros H. unfold cast_u8. rewrite wrapu_small by (change (2 ^ 8) with 256; lia).
  change 31 with (Z.ones 5). rewrite Z.land_ones by lia. change (2 ^ 5) with 32. apply Z.mod_small. lia.
Qed.

(* ------------------------------------------------------------------ validity and canonical form *)
Definition text_valid (t : list Z) : bool := (len t <=? 255) && bytesb t && utf8_cleanb t.
Definition item_valid (i : sdes_item) : bool := (1 <=? it_ty i) && (it_ty i <=? 255) && text_valid (it_text i).
Definition chunk_valid (c : sdes_chunk) : bool := u32b (ch_ssrc c) && forallb item_valid (ch_items c).
Definition fir_valid (e : fir_req) : bool := u32b (fr_ssrc e) && byteb (fr_seq e).

Definition fits (x : rtcp) : bool :=
  match marshal_one x with Ok bs => len bs <=? 262144 | _ => false end.

Definition valid_fields (x : rtcp) : bool :=
  match x with
  | SR s nm nl ts pc oc bl =>
      u32b s && u32b nm && u32b nl && u32b ts && u32b pc && u32b oc && (len bl <=? 31) && forallb rb_valid bl
  | RR s bl => u32b s && (len bl <=? 31) && forallb rb_valid bl
  | SDES ch => (len ch <=? 31) && forallb chunk_valid ch
  | BYE so r => (len so <=? 31) && forallb u32b so && match r with Some t => text_valid t | None => true end
  | PLI s m => u32b s && u32b m
  | FIR s rq => u32b s && forallb fir_valid rq
  | NACK s m l => u32b s && u32b m && negb (len l =? 0) && forallb u16b l
  | REMB s br ss => u32b s && (0 <=? br) && (br <? 18446744073709551616) && (len ss <=? 255) && forallb u32b ss
  | TWCC s m ba c rf fb pl =>
      u32b s && u32b m && u16b ba && u16b c && (0 <=? rf) && (rf <? 16777216) && byteb fb && bytesb pl
  end.
Definition valid (x : rtcp) : bool := valid_fields x && fits x.

(* what the format itself does not carry: NACK order / duplicates, REMB bits below the 18-bit mantissa *)
Definition remb_decoded (br : Z) : Z :=
  let '(m, e) := remb_loop 64 br 0 in cast_u64 (Z.shiftl m e).
Definition canon (x : rtcp) : rtcp :=
  match x with
  | NACK s m l => NACK s m (unpack_pairs (pack_nack_pairs l))
  | REMB s br ss => REMB s (remb_decoded br) ss
  | _ => x
  end.

(* per-packet statement *)
Definition one_ok (x : rtcp) : Prop :=
  exists fmt pt body,
    marshal_one x = Ok (write_rtcp_packet fmt pt body) /\
    parse_one (Z.land fmt 31) pt (pad4 body) = Ok (Some (canon x)).

Lemma fits_len x fmt pt body :
  fits x = true -> marshal_one x = Ok (write_rtcp_packet fmt pt body) -> len (pad4 body) + 4 <= 262144.
Proof.
  unfold fits. intros H E. rewrite E in H. apply Z.leb_le in H.
  unfold write_rtcp_packet in H. rewrite !len_cons, len_app, len_be16 in H. lia.
Qed.

(* ------------------------------------------------------------------ PLI *)
Lemma pli_ok s m : valid_fields (PLI s m) = true -> one_ok (PLI s m).
Proof.
  cbn [valid_fields]. rewrite andb_true_iff. intros [Hs Hm]. apply u32b_spec in Hs, Hm.
  exists RTCP_PSFB_PLI, RTCP_PSFB, (build_psfb_common s m). split; [reflexivity|].
  rewrite pad4_aligned by reflexivity. unfold parse_one. rconsts. cbn [Z.eqb Z.land Pos.eqb Pos.land].
  change (Z.land 1 31) with 1. cbn [Z.eqb Pos.eqb].
  unfold parse_pli, build_psfb_common. rconsts.
  change (len (be32 s ++ be32 m) <? 8) with false. cbv iota.
  rewrite get_u32_be32 by exact Hs. cbn [bind]. rewrite <- (app_nil_r (be32 m)), get_u32_be32 by exact Hm. reflexivity.
Qed.

(* ------------------------------------------------------------------ RR / SR *)
Lemma rr_ok s bl : valid_fields (RR s bl) = true -> one_ok (RR s bl).
Proof.
  cbn [valid_fields]. rewrite !andb_true_iff. intros [[Hs Hn] Hb]. apply u32b_spec in Hs. apply Z.leb_le in Hn.
  pose proof (len_nonneg bl) as Hn0.
  exists (cast_u8 (len bl)), RTCP_RR, (be32 s ++ flat_map build_report_block bl). split.
  - cbn [marshal_one]. unfold build_rr. rconsts.
    destruct (len bl >? 31) eqn:E; [apply Z.gtb_lt in E; lia|]. reflexivity.
  - rewrite pad4_aligned by (rewrite len_app, len_be32, len_flat_blocks; Z.div_mod_to_equations; lia).
    rewrite count_fmt by lia. unfold parse_one. rconsts. cbn [Z.eqb Pos.eqb].
    unfold parse_rr. rconsts.
    assert (E : len (be32 s ++ flat_map build_report_block bl) <? 4 = false).
    { apply Z.ltb_ge. rewrite len_app, len_be32, len_flat_blocks. lia. }
    rewrite E, get_u32_be32 by exact Hs. cbn [bind].
    unfold len at 1. rewrite Nat2Z.id.
    rewrite <- (app_nil_r (flat_map build_report_block bl)), parse_build_blocks by exact Hb. reflexivity.
Qed.

Lemma sr_ok s nm nl ts pc oc bl : valid_fields (SR s nm nl ts pc oc bl) = true -> one_ok (SR s nm nl ts pc oc bl).
Proof.
  cbn [valid_fields]. rewrite !andb_true_iff. intros [[[[[[[H1 H2] H3] H4] H5] H6] Hn] Hb].
  apply u32b_spec in H1, H2, H3, H4, H5, H6. apply Z.leb_le in Hn. pose proof (len_nonneg bl) as Hn0.
  exists (cast_u8 (len bl)), RTCP_SR,
    (be32 s ++ be32 nm ++ be32 nl ++ be32 ts ++ be32 pc ++ be32 oc ++ flat_map build_report_block bl). split.
  - cbn [marshal_one]. unfold build_sr. rconsts.
    destruct (len bl >? 31) eqn:E; [apply Z.gtb_lt in E; lia|]. reflexivity.
  - rewrite pad4_aligned by (rewrite !len_app, !len_be32, len_flat_blocks; Z.div_mod_to_equations; lia).
    rewrite count_fmt by lia. unfold parse_one. rconsts. cbn [Z.eqb Pos.eqb].
    unfold parse_sr. rconsts.
    assert (E : len (be32 s ++ be32 nm ++ be32 nl ++ be32 ts ++ be32 pc ++ be32 oc ++ flat_map build_report_block bl) <? 24 = false).
    { apply Z.ltb_ge. rewrite !len_app, !len_be32, len_flat_blocks. lia. }
    rewrite E.
    rewrite get_u32_be32 by exact H1. cbn [bind]. rewrite get_u32_be32 by exact H2. cbn [bind].
    rewrite get_u32_be32 by exact H3. cbn [bind]. rewrite get_u32_be32 by exact H4. cbn [bind].
    rewrite get_u32_be32 by exact H5. cbn [bind]. rewrite get_u32_be32 by exact H6. cbn [bind].
    unfold len at 1. rewrite Nat2Z.id.
    rewrite <- (app_nil_r (flat_map build_report_block bl)), parse_build_blocks by exact Hb. reflexivity.
Qed.

(* ------------------------------------------------------------------ FIR *)
Definition enc_fir (e : fir_req) : list Z := be32 (fr_ssrc e) ++ [fr_seq e; 0; 0; 0].
Lemma len_flat_fir rq : len (flat_map enc_fir rq) = 8 * len rq.
Proof. induction rq as [|e rq IH]; [reflexivity|]. cbn [flat_map]. unfold enc_fir at 1. rewrite !len_app, len_be32, !len_cons, len_nil, IH. lia. Qed.
Lemma parse_fir_entries_enc rq : forall f,
  forallb fir_valid rq = true -> (length rq <= f)%nat -> parse_fir_entries f (flat_map enc_fir rq) = Ok rq.
Proof.
  induction rq as [|e rq IH]; intros f Hv Hf.
  - destruct f; reflexivity.
  - cbn [forallb] in Hv. apply andb_true_iff in Hv as [He Hv]. unfold fir_valid in He.
    apply andb_true_iff in He as [H1 H2]. apply u32b_spec in H1.
    destruct f as [|f]; [cbn in Hf; lia|]. cbn [length] in Hf. cbn [flat_map parse_fir_entries].
    assert (E : len (enc_fir e ++ flat_map enc_fir rq) <? 8 = false).
    { apply Z.ltb_ge. rewrite len_app. unfold enc_fir at 1. rewrite len_app, len_be32, !len_cons, len_nil.
      pose proof (len_nonneg (flat_map enc_fir rq)). lia. }
    rewrite E. unfold enc_fir at 1. rewrite <- !app_assoc. rewrite get_u32_be32 by exact H1.
    cbn [bind app get_u8]. change (drop 3 (0 :: 0 :: 0 :: flat_map enc_fir rq)) with (flat_map enc_fir rq).
    rewrite IH by (try exact Hv; lia). destruct e; reflexivity.
Qed.

Lemma fir_ok s rq : valid_fields (FIR s rq) = true -> one_ok (FIR s rq).
Proof.
  cbn [valid_fields]. rewrite andb_true_iff. intros [Hs Hv]. apply u32b_spec in Hs.
  exists RTCP_PSFB_FIR, RTCP_PSFB, (build_fir s rq). split; [reflexivity|].
  assert (Hb : build_fir s rq = be32 s ++ be32 0 ++ flat_map enc_fir rq) by reflexivity.
  assert (Hl : len (build_fir s rq) = 8 + 8 * len rq) by (rewrite Hb, !len_app, !len_be32, len_flat_fir; lia).
  pose proof (len_nonneg rq) as Hn.
  rewrite pad4_aligned by (rewrite Hl; Z.div_mod_to_equations; lia).
  unfold parse_one. rconsts. change (Z.land 4 31) with 4. cbn [Z.eqb Pos.eqb].
  unfold parse_fir. rconsts. rewrite Hl.
  destruct (8 + 8 * len rq <? 8) eqn:E; [apply Z.ltb_lt in E; lia|].
  rewrite Hb. rewrite get_u32_be32 by exact Hs. cbn [bind].
  rewrite (drop_app_n 4 (be32 0)) by reflexivity.
  rewrite parse_fir_entries_enc; [reflexivity|exact Hv|].
  rewrite !app_length. pose proof (len_flat_fir rq) as Hfp. unfold len in Hfp. lia.
Qed.

(* ------------------------------------------------------------------ NACK *)
Definition enc_pair (pb : Z * Z) : list Z := be16 (fst pb) ++ be16 (snd pb).
Lemma parse_nack_pairs_enc ps : forall f,
  Forall (fun pb => u16 (fst pb) /\ u16 (snd pb)) ps -> (length ps <= f)%nat ->
  parse_nack_pairs f (flat_map enc_pair ps) = Ok ps.
Proof.
  induction ps as [|[pid blp] ps IH]; intros f Hv Hf.
  - destruct f; reflexivity.
  - inversion Hv as [|? ? [Hp Hb] Hv']; subst. cbn [fst snd] in Hp, Hb.
    destruct f as [|f]; [cbn in Hf; lia|]. cbn [length] in Hf. cbn [flat_map parse_nack_pairs].
    assert (E : len (enc_pair (pid, blp) ++ flat_map enc_pair ps) <? 4 = false).
    { apply Z.ltb_ge. rewrite len_app. unfold enc_pair at 1. rewrite len_app, !len_be16.
      pose proof (len_nonneg (flat_map enc_pair ps)). lia. }
    rewrite E. unfold enc_pair at 1. cbn [fst snd]. rewrite <- !app_assoc.
    rewrite get_u16_be16 by exact Hp. cbn [bind]. rewrite get_u16_be16 by exact Hb. cbn [bind].
    rewrite IH by (try exact Hv'; lia). reflexivity.
Qed.
Lemma len_flat_pairs ps : len (flat_map enc_pair ps) = 4 * len ps.
Proof. induction ps as [|p ps IH]; [reflexivity|]. cbn [flat_map]. unfold enc_pair at 1. rewrite !len_app, !len_be16, len_cons, IH. lia. Qed.

Lemma nack_ok s m l : valid_fields (NACK s m l) = true -> one_ok (NACK s m l).
Proof.
  cbn [valid_fields]. rewrite !andb_true_iff. intros [[[Hs Hm] Hne] Hl].
  apply u32b_spec in Hs, Hm. apply negb_true_iff, Z.eqb_neq in Hne.
  assert (Hu : Forall u16 l) by (eapply forallb_Forall; [|exact Hl]; intros x; apply u16b_spec).
  set (ps := pack_nack_pairs l).
  exists RTCP_RTPFB_NACK, RTCP_RTPFB, (be32 s ++ be32 m ++ flat_map enc_pair ps). split.
  - cbn [marshal_one]. unfold build_nack. destruct l; [exfalso; apply Hne; reflexivity|]. reflexivity.
  - assert (Hlen : len (be32 s ++ be32 m ++ flat_map enc_pair ps) = 8 + 4 * len ps)
      by (rewrite !len_app, !len_be32, len_flat_pairs; lia).
    pose proof (len_nonneg ps) as Hn.
    rewrite pad4_aligned by (rewrite Hlen; Z.div_mod_to_equations; lia).
    unfold parse_one. rconsts. change (Z.land 1 31) with 1. cbn [Z.eqb Pos.eqb].
    unfold parse_nack. rconsts. rewrite Hlen.
    destruct (8 + 4 * len ps <? 8) eqn:E; [apply Z.ltb_lt in E; lia|].
    rewrite get_u32_be32 by exact Hs. cbn [bind]. rewrite get_u32_be32 by exact Hm. cbn [bind].
    rewrite parse_nack_pairs_enc; [reflexivity|apply nack_pairs_u16; exact Hu|].
    rewrite !app_length. pose proof (len_flat_pairs ps) as Hfp. unfold len in Hfp. lia.
Qed.

(* ------------------------------------------------------------------ BYE *)
Lemma parse_sources_enc so rest :
  forallb u32b so = true -> parse_sources (length so) (flat_map be32 so ++ rest) = Ok (so, rest).
Proof.
  induction so as [|x so IH]; intros Hv; [reflexivity|].
  cbn [forallb] in Hv. apply andb_true_iff in Hv as [Hx Hv]. apply u32b_spec in Hx.
  cbn [length parse_sources flat_map]. rewrite <- app_assoc.
  assert (E : len (be32 x ++ flat_map be32 so ++ rest) <? 4 = false).
  { apply Z.ltb_ge. rewrite len_app, len_be32. pose proof (len_nonneg (flat_map be32 so ++ rest)). lia. }
  rewrite E, get_u32_be32 by exact Hx. cbn [bind]. rewrite IH by exact Hv. reflexivity.
Qed.

Lemma boundary_full r : len r <= 255 -> boundary_down 256 r (Z.min (len r) BYE_REASON_MAX) = len r.
Proof.
  intros H. rconsts. rewrite Z.min_l by lia. cbn [boundary_down]. unfold is_char_boundary.
  rewrite Z.eqb_refl, orb_true_r. reflexivity.
Qed.

Lemma bye_ok so r : valid_fields (BYE so r) = true -> one_ok (BYE so r).
Proof.
  cbn [valid_fields]. rewrite !andb_true_iff. intros [[Hn Hso] Hr]. apply Z.leb_le in Hn.
  pose proof (len_nonneg so) as Hn0.
  set (tail := match r with Some t => cast_u8 (len t) :: t | None => [] end).
  exists (cast_u8 (len so)), RTCP_BYE, (flat_map be32 so ++ tail). split.
  - cbn [marshal_one]. unfold build_bye. rconsts.
    destruct (len so >? 31) eqn:E; [apply Z.gtb_lt in E; lia|]. cbn [bind]. unfold tail.
    destruct r as [t|]; [|reflexivity].
    unfold text_valid in Hr. rewrite !andb_true_iff in Hr. destruct Hr as [[Hl _] _]. apply Z.leb_le in Hl.
    pose proof (boundary_full t Hl) as Hb. rconsts. rewrite Hb. rewrite take_all by lia. reflexivity.
  - rewrite count_fmt by lia. unfold parse_one. rconsts. cbn [Z.eqb Pos.eqb].
    unfold parse_bye. unfold len at 1. rewrite Nat2Z.id.
    unfold pad4. rewrite <- app_assoc. rewrite parse_sources_enc by exact Hso. cbn [bind].
    unfold tail. destruct r as [t|].
    + unfold text_valid in Hr. rewrite !andb_true_iff in Hr. destruct Hr as [[Hl Hb] Hc].
      apply Z.leb_le in Hl. unfold utf8_cleanb in Hc. apply zlist_eqb_eq in Hc.
      pose proof (len_nonneg t) as Ht.
      assert (Hc8 : cast_u8 (len t) = len t) by (unfold cast_u8; apply wrapu_small; change (2 ^ 8) with 256; lia).
      rewrite Hc8. cbn [app].
      match goal with |- context [t ++ ?z] => set (zs := z) end.
      assert (E : len (t ++ zs) <? len t = false) by (apply Z.ltb_ge; rewrite len_app; pose proof (len_nonneg zs); lia).
      rewrite E. rewrite slice_ok by (rewrite ?len_app; pose proof (len_nonneg zs); lia).
      cbn [bind]. rewrite drop_0, Z.sub_0_r, take_app_exact, Hc. reflexivity.
    + assert (Hz : (4 - len (flat_map be32 so ++ []) mod 4) mod 4 = 0).
      { rewrite app_nil_r, len_flat_be32. Z.div_mod_to_equations. lia. }
      rewrite Hz. reflexivity.
Qed.

(* ------------------------------------------------------------------ REMB *)
Lemma lor3 a b c : 0 <= b < 256 -> 0 <= c < 256 ->
  Z.lor (Z.lor (Z.shiftl a 16) (Z.shiftl b 8)) c = a * 65536 + b * 256 + c.
Proof.
  intros Hb Hc.
  assert (E1 : Z.shiftl a 16 = Z.shiftl (a * 256) 8).
  { rewrite !Z.shiftl_mul_pow2 by lia. change (2 ^ 16) with (256 * 2 ^ 8). ring. }
  assert (E2 : Z.lor (Z.shiftl a 16) (Z.shiftl b 8) = Z.shiftl (a * 256 + b) 8).
  { rewrite E1, <- Z.shiftl_lor. f_equal.
    transitivity (Z.lor (Z.shiftl a 8) b); [rewrite Z.shiftl_mul_pow2 by lia; reflexivity|].
    rewrite lor_disjoint by (try lia; change (2 ^ 8) with 256; lia). reflexivity. }
  rewrite E2. rewrite lor_disjoint by (try lia; change (2 ^ 8) with 256; lia). change (2 ^ 8) with 256. ring.
Qed.

Lemma remb_loop_spec : forall f m e k,
  0 <= k <= Z.of_nat f -> 0 <= m < 2 ^ (18 + k) ->
  0 <= fst (remb_loop f m e) <= 262143 /\ e <= snd (remb_loop f m e) <= e + k /\
  fst (remb_loop f m e) = m / 2 ^ (snd (remb_loop f m e) - e).
Proof.
  induction f as [|f IH]; intros m e k Hk Hm.
  - assert (k = 0) by lia. subst k. cbn [remb_loop fst snd]. change (2 ^ (18 + 0)) with 262144 in Hm.
    rewrite Z.sub_diag. change (2 ^ 0) with 1. rewrite Z.div_1_r. lia.
  - cbn [remb_loop]. rconsts. destruct (m >? 262143) eqn:E.
    + apply Z.gtb_lt in E.
      assert (Hk1 : 1 <= k).
      { destruct (Z_lt_ge_dec k 1); [|lia]. assert (k = 0) by lia. subst k. change (2 ^ (18 + 0)) with 262144 in Hm. lia. }
      assert (Hh : 0 <= Z.shiftr m 1 < 2 ^ (18 + (k - 1))).
      { rewrite Z.shiftr_div_pow2 by lia. change (2 ^ 1) with 2.
        replace (18 + k) with (Z.succ (18 + (k - 1))) in Hm by lia.
        rewrite Z.pow_succ_r in Hm by lia. Z.div_mod_to_equations. lia. }
      destruct (IH (Z.shiftr m 1) (e + 1) (k - 1) ltac:(lia) Hh) as (A & B & C).
      split; [exact A|]. split; [lia|].
      rewrite C. set (j := snd (remb_loop f (Z.shiftr m 1) (e + 1))) in *.
      rewrite Z.shiftr_div_pow2 by lia. change (2 ^ 1) with 2.
      rewrite Z.div_div by (try lia; apply Z.pow_pos_nonneg; lia).
      replace (j - e) with (Z.succ (j - (e + 1))) by lia.
      rewrite Z.pow_succ_r by lia. reflexivity.
    + cbn [fst snd]. rewrite Z.gtb_ltb in E. apply Z.ltb_ge in E.
      rewrite Z.sub_diag. change (2 ^ 0) with 1. rewrite Z.div_1_r. lia.
Qed.

Definition b13_check (i : Z) : bool :=
  let e := i / 4 in let t := i mod 4 in
  let b := Z.lor (cast_u8 (Z.shiftl (Z.land e 63) 2)) (Z.land (cast_u8 t) 3) in
  (Z.shiftr (Z.land b 252) 2 =? e) && (Z.land b 3 =? t) && byteb b.
Lemma b13_fields e t :
  0 <= e < 64 -> 0 <= t < 4 ->
  let b := Z.lor (cast_u8 (Z.shiftl (Z.land e 63) 2)) (Z.land (cast_u8 t) 3) in
  Z.shiftr (Z.land b 252) 2 = e /\ Z.land b 3 = t.
Proof.
  intros He Ht. assert (H : b13_check (4 * e + t) = true) by (apply (range_forall 256 b13_check); [vm_compute; reflexivity|lia]).
  unfold b13_check in H. cbv zeta in H.
  replace ((4 * e + t) / 4) with e in H by (Z.div_mod_to_equations; lia).
  replace ((4 * e + t) mod 4) with t in H by (Z.div_mod_to_equations; lia).
  rewrite !andb_true_iff in H. destruct H as [[H1 H2] _]. apply Z.eqb_eq in H1, H2. cbv zeta. auto.
Qed.

Lemma parse_remb_ssrcs_enc ss :
  forallb u32b ss = true -> parse_remb_ssrcs (length ss) (flat_map be32 ss) = Ok ss.
Proof.
  induction ss as [|x ss IH]; intros Hv; [reflexivity|].
  cbn [forallb] in Hv. apply andb_true_iff in Hv as [Hx Hv]. apply u32b_spec in Hx.
  cbn [length parse_remb_ssrcs flat_map].
  assert (E : len (be32 x ++ flat_map be32 ss) <? 4 = false).
  { apply Z.ltb_ge. rewrite len_app, len_be32. pose proof (len_nonneg (flat_map be32 ss)). lia. }
  rewrite E, get_u32_be32 by exact Hx. cbn [bind]. rewrite IH by exact Hv. reflexivity.
Qed.

Lemma remb_ok s br ss : valid_fields (REMB s br ss) = true -> one_ok (REMB s br ss).
Proof.
  cbn [valid_fields]. rewrite !andb_true_iff. intros [[[[Hs H0] H1] Hn] Hv].
  apply u32b_spec in Hs. apply Z.leb_le in H0, Hn. apply Z.ltb_lt in H1. pose proof (len_nonneg ss) as Hn0.
  assert (Hbr : 0 <= br < 2 ^ (18 + 46)).
  { split; [lia|]. change (2 ^ (18 + 46)) with 18446744073709551616. lia. }
  destruct (remb_loop_spec 64 br 0 46 ltac:(lia) Hbr) as (Hm & He & _).
  destruct (remb_loop 64 br 0) as [m e] eqn:Eloop. cbn [fst snd] in Hm, He.
  assert (Hc32 : cast_u32 m = m) by (unfold cast_u32; apply wrapu_small; change (2 ^ 32) with 4294967296; lia).
  set (t := m / 65536).
  assert (Ht : 0 <= t < 4) by (unfold t; Z.div_mod_to_equations; lia).
  set (b13 := Z.lor (cast_u8 (Z.shiftl (Z.land e 63) 2)) (Z.land (cast_u8 (Z.shiftr m 16)) 3)).
  set (b14 := cast_u8 (Z.land (Z.shiftr m 8) 255)). set (b15 := cast_u8 (Z.land m 255)).
  assert (H14 : b14 = m / 256 mod 256).
  { unfold b14, cast_u8. rewrite Z.shiftr_div_pow2 by lia. change 255 with (Z.ones 8). rewrite Z.land_ones by lia.
    change (2 ^ 8) with 256. apply wrapu_small. change (2 ^ 8) with 256. apply Z.mod_pos_bound. lia. }
  assert (H15 : b15 = m mod 256).
  { unfold b15, cast_u8. change 255 with (Z.ones 8). rewrite Z.land_ones by lia.
    change (2 ^ 8) with 256. apply wrapu_small. change (2 ^ 8) with 256. apply Z.mod_pos_bound. lia. }
  assert (Hsh : Z.shiftr m 16 = t) by (unfold t; rewrite Z.shiftr_div_pow2 by lia; reflexivity).
  destruct (b13_fields e t ltac:(lia) Ht) as (F1 & F2). cbv zeta in F1, F2.
  assert (Hb13 : Z.shiftr (Z.land b13 252) 2 = e /\ Z.land b13 3 = t).
  { unfold b13. rewrite Hsh. auto. }
  destruct Hb13 as [G1 G2].
  set (body := be32 s ++ be32 0 ++ [82; 69; 77; 66] ++ [cast_u8 (len ss)] ++ [b13; b14; b15] ++ flat_map be32 ss).
  exists RTCP_PSFB_APP, RTCP_PSFB, body. split.
  - cbn [marshal_one]. unfold build_remb. rconsts.
    destruct (len ss >? 255) eqn:E; [apply Z.gtb_lt in E; lia|]. rewrite Eloop. rewrite Hc32. reflexivity.
  - assert (Hl : len body = 16 + 4 * len ss).
    { unfold body. rewrite !len_app, !len_be32, len_flat_be32, !len_cons, !len_nil. lia. }
    rewrite pad4_aligned by (rewrite Hl; Z.div_mod_to_equations; lia).
    unfold parse_one. rconsts. change (Z.land 15 31) with 15. cbn [Z.eqb Pos.eqb].
    unfold parse_remb. rconsts. rewrite Hl.
    destruct (16 + 4 * len ss <? 16) eqn:E; [apply Z.ltb_lt in E; lia|].
    unfold body. rewrite get_u32_be32 by exact Hs. cbn [bind].
    rewrite get_u32_be32 by (unfold u32; lia). cbn [bind].
    rewrite slice_ok; [|lia|rewrite len_app; change (len [82; 69; 77; 66]) with 4;
                        pose proof (len_nonneg ([cast_u8 (len ss)] ++ [b13; b14; b15] ++ flat_map be32 ss)); lia].
    rewrite drop_0, Z.sub_0_r. rewrite (take_app_n 4 [82; 69; 77; 66]) by reflexivity.
    cbn [bind zlist_eqb Z.eqb Pos.eqb andb negb]. rewrite (drop_app_n 4 [82; 69; 77; 66]) by reflexivity.
    cbn [app get_u8 bind]. rewrite G1, G2.
    assert (Hmant : Z.lor (Z.lor (Z.shiftl t 16) (Z.shiftl b14 8)) b15 = m).
    { rewrite lor3 by (rewrite ?H14, ?H15; apply Z.mod_pos_bound; lia). rewrite H14, H15. unfold t. Z.div_mod_to_equations. lia. }
    rewrite Hmant.
    assert (Hc8 : cast_u8 (len ss) = len ss) by (unfold cast_u8; apply wrapu_small; change (2 ^ 8) with 256; lia).
    rewrite Hc8. unfold len at 1. rewrite Nat2Z.id. rewrite parse_remb_ssrcs_enc by exact Hv. cbn [bind].
    unfold canon, remb_decoded. rewrite Eloop. reflexivity.
Qed.

(* REMB is lossy by format: what is decoded is the value with the bits below the 18-bit mantissa cleared *)
Theorem remb_truncation br :
  0 <= br < 18446744073709551616 ->
  exists e, 0 <= e <= 64 /\ remb_decoded br = 2 ^ e * (br / 2 ^ e) /\
            remb_decoded br <= br < remb_decoded br + 2 ^ e /\ br / 2 ^ e <= 262143 /\
            (br <= 262143 -> remb_decoded br = br).
Proof.
  intros Hbr.
  assert (Hb : 0 <= br < 2 ^ (18 + 46)).
  { split; [lia|]. change (2 ^ (18 + 46)) with 18446744073709551616. lia. }
  destruct (remb_loop_spec 64 br 0 46 ltac:(lia) Hb) as (Hm & He & Hd).
  unfold remb_decoded. destruct (remb_loop 64 br 0) as [m e] eqn:Eloop. cbn [fst snd] in *.
  rewrite Z.sub_0_r in Hd.
  exists e. split; [lia|].
  assert (Hp : 0 < 2 ^ e) by (apply Z.pow_pos_nonneg; lia).
  assert (Hle : 2 ^ e * (br / 2 ^ e) <= br) by (apply Z.mul_div_le; exact Hp).
  assert (Hdec : cast_u64 (Z.shiftl m e) = 2 ^ e * (br / 2 ^ e)).
  { rewrite Z.shiftl_mul_pow2 by lia. rewrite Hd. unfold cast_u64. rewrite wrapu_small; [ring|].
    change (2 ^ 64) with 18446744073709551616. split; [apply Z.mul_nonneg_nonneg; [apply Z.div_pos; lia|lia]|].
    rewrite Z.mul_comm. lia. }
  rewrite Hdec. split; [reflexivity|]. split.
  - split; [exact Hle|]. pose proof (Z.mod_pos_bound br (2 ^ e) Hp). pose proof (Z.div_mod br (2 ^ e) ltac:(lia)). lia.
  - split; [rewrite <- Hd; lia|].
    intros Hs. assert (Ee : e = 0).
    { cbn [remb_loop] in Eloop. rconsts. destruct (br >? 262143) eqn:G; [apply Z.gtb_lt in G; lia|]. inversion Eloop. reflexivity. }
    subst e. change (2 ^ 0) with 1. rewrite Z.div_1_r. lia.
Qed.

(* ------------------------------------------------------------------ SDES *)
Definition enc_item (i : sdes_item) : list Z := it_ty i :: len (it_text i) :: it_text i.
Definition enc_chunk (c : sdes_chunk) : list Z :=
  pad4 (be32 (ch_ssrc c) ++ flat_map enc_item (ch_items c) ++ [0]).

Lemma item_valid_spec i :
  item_valid i = true -> 1 <= it_ty i <= 255 /\ len (it_text i) <= 255 /\ utf8_lossy (it_text i) = it_text i.
Proof.
  unfold item_valid, text_valid. rewrite !andb_true_iff. intros [[H1 H2] [[H3 _] H4]].
  apply Z.leb_le in H1, H2, H3. apply zlist_eqb_eq in H4. auto.
Qed.

Lemma build_items_enc items : forall acc,
  forallb item_valid items = true -> build_items acc items = Ok (acc ++ flat_map enc_item items).
Proof.
  induction items as [|i items IH]; intros acc Hv; [cbn; rewrite app_nil_r; reflexivity|].
  cbn [forallb] in Hv. apply andb_true_iff in Hv as [Hi Hv]. destruct (item_valid_spec i Hi) as (_ & Hl & _).
  cbn [build_items flat_map]. rconsts. pose proof (len_nonneg (it_text i)).
  destruct (len (it_text i) >? 255) eqn:E; [apply Z.gtb_lt in E; lia|].
  assert (Hc : cast_u8 (len (it_text i)) = len (it_text i)) by (unfold cast_u8; apply wrapu_small; change (2 ^ 8) with 256; lia).
  rewrite Hc, IH by exact Hv. fold (enc_item i). rewrite <- app_assoc. reflexivity.
Qed.

Lemma pad4_app acc x : len acc mod 4 = 0 -> pad4 (acc ++ x) = acc ++ pad4 x.
Proof.
  intros H. unfold pad4. rewrite <- app_assoc. do 3 f_equal. rewrite len_app. Z.div_mod_to_equations. lia.
Qed.

Lemma len_enc_chunk c : len (enc_chunk c) mod 4 = 0.
Proof. unfold enc_chunk. apply len_pad4. Qed.
Lemma len_flat_chunks ch : len (flat_map enc_chunk ch) mod 4 = 0.
Proof.
  induction ch as [|c ch IH]; [reflexivity|]. cbn [flat_map]. rewrite len_app.
  pose proof (len_enc_chunk c). Z.div_mod_to_equations. lia.
Qed.

Lemma build_chunks_enc ch : forall acc,
  len acc mod 4 = 0 -> forallb chunk_valid ch = true ->
  build_chunks acc ch = Ok (acc ++ flat_map enc_chunk ch).
Proof.
  induction ch as [|c ch IH]; intros acc Ha Hv; [cbn; rewrite app_nil_r; reflexivity|].
  cbn [forallb] in Hv. apply andb_true_iff in Hv as [Hc Hv]. unfold chunk_valid in Hc.
  apply andb_true_iff in Hc as [_ Hi].
  cbn [build_chunks flat_map]. rewrite build_items_enc by exact Hi. cbn [bind].
  assert (E : pad4 (((acc ++ be32 (ch_ssrc c)) ++ flat_map enc_item (ch_items c)) ++ [0]) = acc ++ enc_chunk c).
  { rewrite <- !app_assoc. rewrite pad4_app by exact Ha. reflexivity. }
  rewrite E. rewrite IH; [rewrite <- app_assoc; reflexivity| |exact Hv].
  rewrite len_app. pose proof (len_enc_chunk c). Z.div_mod_to_equations. lia.
Qed.

Lemma parse_items_enc items : forall f off rest k,
  forallb item_valid items = true -> (length items < f)%nat ->
  k = (4 - (off + len (flat_map enc_item items) + 1) mod 4) mod 4 ->
  parse_items f (flat_map enc_item items ++ 0 :: repeat 0 (Z.to_nat k) ++ rest) off =
  Ok ((items, rest), off + len (flat_map enc_item items) + 1 + k).
Proof.
  induction items as [|i items IH]; intros f off rest k Hv Hf Hk.
  - destruct f as [|f]; [lia|]. cbn [flat_map app parse_items]. rewrite Z.eqb_refl.
    change (len (@nil Z)) with 0 in *. rewrite Z.add_0_r in *.
    assert (Hk0 : 0 <= k < 4) by (subst k; Z.div_mod_to_equations; lia).
    rewrite len_app, len_repeat, Z2Nat.id by lia. pose proof (len_nonneg rest).
    rewrite <- Hk. rewrite Z.min_l by lia.
    rewrite (drop_app_n k) by (rewrite len_repeat; lia). reflexivity.
  - cbn [forallb] in Hv. apply andb_true_iff in Hv as [Hi Hv]. destruct (item_valid_spec i Hi) as (Hty & Hl & Hc).
    destruct f as [|f]; [lia|]. cbn [length] in Hf.
    cbn [flat_map]. unfold enc_item at 1. cbn [app parse_items].
    assert (Et : it_ty i =? 0 = false) by (apply Z.eqb_neq; lia). rewrite Et.
    rewrite <- app_assoc.
    set (tailL := flat_map enc_item items ++ 0 :: repeat 0 (Z.to_nat k) ++ rest).
    pose proof (len_nonneg (it_text i)) as Hn. pose proof (len_nonneg tailL) as Hn2.
    assert (E : len (it_text i ++ tailL) <? len (it_text i) = false) by (apply Z.ltb_ge; rewrite len_app; lia).
    rewrite E. rewrite slice_ok by (rewrite ?len_app; lia). cbn [bind].
    rewrite drop_0, Z.sub_0_r, take_app_exact, drop_app_exact, Hc.
    assert (Hle : len (enc_item i ++ flat_map enc_item items) = 2 + len (it_text i) + len (flat_map enc_item items))
      by (rewrite len_app; unfold enc_item at 1; rewrite !len_cons; lia).
    unfold tailL. rewrite (IH f (off + 2 + len (it_text i)) rest k Hv ltac:(lia)).
    + cbn [bind]. rewrite Hle. destruct i as [ty tx]; cbn [it_ty it_text]. do 2 f_equal. lia.
    + rewrite Hk. cbn [flat_map]. rewrite Hle. do 3 f_equal. lia.
Qed.

Lemma length_flat_items items : (length items <= length (flat_map enc_item items))%nat.
Proof. induction items as [|i items IH]; [cbn; lia|]. cbn [flat_map length]. rewrite app_length. unfold enc_item at 1. cbn [length]. lia. Qed.

Lemma parse_chunks_enc ch : forall off rest,
  off mod 4 = 0 -> forallb chunk_valid ch = true ->
  parse_chunks (length ch) (flat_map enc_chunk ch ++ rest) off = Ok ch.
Proof.
  induction ch as [|c ch IH]; intros off rest Ho Hv; [reflexivity|].
  cbn [forallb] in Hv. apply andb_true_iff in Hv as [Hc Hv]. unfold chunk_valid in Hc.
  apply andb_true_iff in Hc as [Hs Hi]. apply u32b_spec in Hs.
  cbn [length parse_chunks flat_map]. rewrite <- app_assoc.
  set (L := len (flat_map enc_item (ch_items c))).
  assert (HL : len (be32 (ch_ssrc c) ++ flat_map enc_item (ch_items c) ++ [0]) = 4 + L + 1)
    by (rewrite !len_app, len_be32; change (len [0]) with 1; unfold L; lia).
  set (k := (4 - (4 + L + 1) mod 4) mod 4).
  set (restL := flat_map enc_chunk ch ++ rest).
  assert (Hec : enc_chunk c ++ restL =
                be32 (ch_ssrc c) ++ flat_map enc_item (ch_items c) ++ 0 :: repeat 0 (Z.to_nat k) ++ restL).
  { unfold enc_chunk, pad4. rewrite HL. fold k. rewrite <- !app_assoc. reflexivity. }
  rewrite Hec.
  assert (E : len (be32 (ch_ssrc c) ++ flat_map enc_item (ch_items c) ++ 0 :: repeat 0 (Z.to_nat k) ++ restL) <? 4 = false).
  { apply Z.ltb_ge. rewrite len_app, len_be32.
    pose proof (len_nonneg (flat_map enc_item (ch_items c) ++ 0 :: repeat 0 (Z.to_nat k) ++ restL)). lia. }
  rewrite E, get_u32_be32 by exact Hs. cbn [bind].
  rewrite (parse_items_enc (ch_items c) _ (off + 4) restL k Hi).
  - cbn [bind]. fold L. unfold restL. rewrite IH; [destruct c; reflexivity| |exact Hv].
    unfold k. pose proof (len_nonneg (flat_map enc_item (ch_items c))). fold L in H. Z.div_mod_to_equations. lia.
  - rewrite app_length. cbn [length]. pose proof (length_flat_items (ch_items c)). lia.
  - fold L. unfold k. Z.div_mod_to_equations. lia.
Qed.

Lemma sdes_ok ch : valid_fields (SDES ch) = true -> one_ok (SDES ch).
Proof.
  cbn [valid_fields]. rewrite andb_true_iff. intros [Hn Hv]. apply Z.leb_le in Hn. pose proof (len_nonneg ch) as Hn0.
  exists (cast_u8 (len ch)), RTCP_SDES, (flat_map enc_chunk ch). split.
  - cbn [marshal_one]. unfold build_sdes. rconsts.
    destruct (len ch >? 31) eqn:E; [apply Z.gtb_lt in E; lia|].
    rewrite build_chunks_enc by (try reflexivity; exact Hv). reflexivity.
  - rewrite pad4_aligned by apply len_flat_chunks.
    rewrite count_fmt by lia. unfold parse_one. rconsts. cbn [Z.eqb Pos.eqb].
    unfold parse_sdes. unfold len at 1. rewrite Nat2Z.id.
    rewrite <- (app_nil_r (flat_map enc_chunk ch)), parse_chunks_enc by (try reflexivity; exact Hv). reflexivity.
Qed.

(* ------------------------------------------------------------------ every type, then compound packets *)
Lemma len_written fmt pt body : 4 <= len (write_rtcp_packet fmt pt body).
Proof. unfold write_rtcp_packet. rewrite !len_cons, len_app, len_be16. pose proof (len_nonneg (pad4 body)). lia. Qed.

(* per-packet statement at the level of the compound walk *)
Definition pkt_ok (x : rtcp) : Prop :=
  exists bs, marshal_one x = Ok bs /\ 4 <= len bs /\
    (len bs <= 262144 -> forall f rest,
       parse_rtcp_loop (S f) (bs ++ rest) = (r <- parse_rtcp_loop f rest ;; Ok (canon x :: r))).

Lemma one_ok_pkt x : one_ok x -> pkt_ok x.
Proof.
  intros (fmt & pt & body & Hm & Hp). exists (write_rtcp_packet fmt pt body).
  split; [exact Hm|]. split; [apply len_written|]. intros Hl f rest.
  rewrite loop_written.
  - rewrite Hp. cbn [bind]. destruct (parse_rtcp_loop f rest); reflexivity.
  - unfold write_rtcp_packet in Hl. rewrite !len_cons, len_app, len_be16 in Hl. lia.
Qed.

(* ------------------------------------------------------------------ TWCC (padded writer) *)
Definition b0_pad_check (k : Z) : bool :=
  let b0 := Z.lor (Z.lor (Z.shiftl RTP_VERSION WR_VERSION_SHIFT) (Z.land k WR_FMT_MASK)) WP_PAD_BIT in
  (Z.shiftr b0 R_VERSION_SHIFT =? RTP_VERSION) && flag b0 R_PAD_MASK && (Z.land b0 R_FMT_MASK =? k).
Lemma b0_pad k :
  0 <= k < 32 ->
  let b0 := Z.lor (Z.lor (Z.shiftl RTP_VERSION WR_VERSION_SHIFT) (Z.land k WR_FMT_MASK)) WP_PAD_BIT in
  Z.shiftr b0 R_VERSION_SHIFT = RTP_VERSION /\ flag b0 R_PAD_MASK = true /\ Z.land b0 R_FMT_MASK = k.
Proof.
  intros Hk. assert (H : b0_pad_check k = true) by (apply (range_forall 32 b0_pad_check); [vm_compute; reflexivity|lia]).
  unfold b0_pad_check in H. cbv zeta in *. rewrite !andb_true_iff in H. destruct H as [[H1 H2] H3].
  apply Z.eqb_eq in H1, H3. auto.
Qed.

Lemma idx_app_mid pre x post : idx (pre ++ x :: post) (len pre) = Ok x.
Proof.
  unfold idx. rewrite len_app, len_cons. pose proof (len_nonneg pre). pose proof (len_nonneg post).
  destruct ((0 <=? len pre) && (len pre <? len pre + (1 + len post))) eqn:E.
  - unfold len. rewrite Nat2Z.id, app_nth2, Nat.sub_diag by lia. reflexivity.
  - exfalso. rewrite andb_false_iff, Z.leb_gt, Z.ltb_ge in E. lia.
Qed.

Lemma removelast_app_single {A} (l : list A) x : removelast (l ++ [x]) = l.
Proof. apply removelast_last. Qed.

Lemma padded_body body pad :
  1 <= pad <= 3 ->
  removelast (body ++ repeat 0 (Z.to_nat pad)) ++ [cast_u8 pad] = body ++ repeat 0 (Z.to_nat (pad - 1)) ++ [pad].
Proof.
  intros Hp. replace (Z.to_nat pad) with (S (Z.to_nat (pad - 1))) by lia.
  replace (repeat 0 (S (Z.to_nat (pad - 1)))) with (repeat 0 (Z.to_nat (pad - 1)) ++ [0])
    by (clear; induction (Z.to_nat (pad - 1)) as [|n IH]; [reflexivity|cbn [repeat app] in *; rewrite IH; reflexivity]).
  rewrite app_assoc, removelast_last, <- app_assoc.
  unfold cast_u8. rewrite wrapu_small by (change (2 ^ 8) with 256; lia). reflexivity.
Qed.

Lemma loop_written_padded f fmt pt body rest :
  len (write_rtcp_packet_padded fmt pt body) <= 262144 ->
  parse_rtcp_loop (S f) (write_rtcp_packet_padded fmt pt body ++ rest) =
  (o <- parse_one (Z.land fmt 31) pt body ;;
   r <- parse_rtcp_loop f rest ;;
   Ok (cons_opt o r)).
Proof.
  unfold write_rtcp_packet_padded. unfold WP_ALIGN.
  set (pad := (4 - len body mod 4) mod 4). pose proof (len_nonneg body) as Hn.
  assert (Hpr : 0 <= pad <= 3) by (unfold pad; Z.div_mod_to_equations; lia).
  destruct (pad >? 0) eqn:Ep.
  2:{ rewrite Z.gtb_ltb in Ep. apply Z.ltb_ge in Ep. assert (pad = 0) by lia.
      assert (Hal : len body mod 4 = 0) by (unfold pad in *; Z.div_mod_to_equations; lia).
      intros Hfit. rewrite loop_written.
      - rewrite pad4_aligned by exact Hal. reflexivity.
      - rewrite pad4_aligned by exact Hal. unfold write_rtcp_packet in Hfit.
        rewrite pad4_aligned in Hfit by exact Hal. rewrite !len_cons, len_app, len_be16 in Hfit. lia. }
  apply Z.gtb_lt in Ep. rewrite padded_body by lia.
  set (zs := repeat 0 (Z.to_nat (pad - 1))).
  set (pb := body ++ zs ++ [pad]).
  assert (Hlz : len zs = pad - 1) by (unfold zs; rewrite len_repeat; lia).
  assert (Hlpb : len pb = len body + pad) by (unfold pb; rewrite !len_app, Hlz, len_cons, len_nil; lia).
  assert (Hal : len pb mod 4 = 0) by (rewrite Hlpb; unfold pad; Z.div_mod_to_equations; lia).
  unfold write_rtcp_packet. rewrite (pad4_aligned pb Hal).
  assert (Hw : forall n, n = len pb -> n + 4 <= 262144 -> cast_u16 (Z.max 0 ((n + 4) / 4 - 1)) = n / 4).
  { intros n -> Hf. unfold cast_u16. rewrite wrapu_small; [Z.div_mod_to_equations; lia|]. change (2 ^ 16) with 65536. Z.div_mod_to_equations. lia. }
  set (b0 := Z.lor (Z.lor (Z.shiftl RTP_VERSION WR_VERSION_SHIFT) (Z.land fmt WR_FMT_MASK)) WP_PAD_BIT).
  intros Hfit. rewrite !len_cons, len_app, len_be16 in Hfit.
  rewrite (Hw (len pb) eq_refl ltac:(lia)). fold b0.
  assert (Hb0 : Z.shiftr b0 R_VERSION_SHIFT = RTP_VERSION /\ flag b0 R_PAD_MASK = true /\ Z.land b0 R_FMT_MASK = Z.land fmt 31).
  { pose proof (b0_pad (Z.land fmt 31) (land31_range fmt)) as H. cbv zeta in H.
    unfold WR_FMT_MASK in *. rewrite land31_idem in H. exact H. }
  destruct Hb0 as (V & P & F).
  cbn [app be16]. set (l1 := len pb / 4 / 256 mod 256). set (l2 := len pb / 4 mod 256).
  cbn [parse_rtcp_loop].
  assert (Hlen : len (b0 :: pt :: l1 :: l2 :: pb ++ rest) = 4 + len pb + len rest) by (rewrite !len_cons, len_app; lia).
  pose proof (len_nonneg rest) as Hr.
  rewrite Hlen. destruct (4 + len pb + len rest <? 4) eqn:E4; [apply Z.ltb_lt in E4; lia|].
  rewrite idx0. cbn [bind]. rewrite V, Z.eqb_refl. cbn [negb]. rewrite P, F.
  rewrite idx1. cbn [bind]. rewrite idx2. cbn [bind]. rewrite idx3. cbn [bind].
  assert (Hu : u16_of l1 l2 = len pb / 4).
  { unfold l1, l2. apply be16_of. unfold u16. Z.div_mod_to_equations. lia. }
  rewrite Hu. replace ((len pb / 4 + 1) * 4) with (len pb + 4) by (Z.div_mod_to_equations; lia).
  destruct (4 + len pb + len rest <? len pb + 4) eqn:E5; [apply Z.ltb_lt in E5; lia|].
  (* the pad count is the last octet of the packet *)
  assert (Hraw : b0 :: pt :: l1 :: l2 :: pb ++ rest = ([b0; pt; l1; l2] ++ body ++ zs) ++ pad :: rest).
  { unfold pb. rewrite <- !app_assoc. reflexivity. }
  assert (Hpre : len ([b0; pt; l1; l2] ++ body ++ zs) = len pb + 4 - 1).
  { rewrite !len_app, Hlz, Hlpb. change (len [b0; pt; l1; l2]) with 4. lia. }
  assert (Hidx : idx (b0 :: pt :: l1 :: l2 :: pb ++ rest) (len pb + 4 - 1) = Ok pad).
  { rewrite Hraw, <- Hpre. apply idx_app_mid. }
  rewrite Hidx. cbn [bind].
  assert (Epad : (pad =? 0) || (pad >? Z.max 0 (len pb + 4 - 4)) = false).
  { apply orb_false_iff. split; [apply Z.eqb_neq; lia|]. rewrite Z.gtb_ltb. apply Z.ltb_ge. lia. }
  rewrite Epad. unfold checked_sub. destruct (pad <=? len pb + 4) eqn:Eq; [|apply Z.leb_gt in Eq; lia]. cbn [bind].
  assert (Hs : slice (b0 :: pt :: l1 :: l2 :: pb ++ rest) 4 (len pb + 4 - pad) = Ok body).
  { rewrite slice_ok by (rewrite ?Hlen; lia).
    change (drop 4 (b0 :: pt :: l1 :: l2 :: pb ++ rest)) with (pb ++ rest).
    replace (len pb + 4 - pad - 4) with (len body) by lia. unfold pb. rewrite <- app_assoc, take_app_exact. reflexivity. }
  rewrite Hs. cbn [bind].
  assert (Hd : drop (len pb + 4) (b0 :: pt :: l1 :: l2 :: pb ++ rest) = rest).
  { change (b0 :: pt :: l1 :: l2 :: pb ++ rest) with ([b0; pt; l1; l2] ++ pb ++ rest). rewrite app_assoc.
    apply drop_app_n. rewrite len_app. change (len [b0; pt; l1; l2]) with 4. lia. }
  rewrite Hd. destruct (parse_one (Z.land fmt 31) pt body) as [o| |]; cbn [bind]; try reflexivity.
Qed.

Lemma len_written_padded fmt pt body : 4 <= len (write_rtcp_packet_padded fmt pt body).
Proof.
  unfold write_rtcp_packet_padded. destruct (_ >? 0); [|apply len_written].
  match goal with |- context [write_rtcp_packet fmt pt ?b] => pose proof (len_written fmt pt b) as H; unfold write_rtcp_packet in *  end.
  rewrite !len_cons in *. lia.
Qed.

Lemma twcc_pkt_ok s m ba c rf fb pl : valid_fields (TWCC s m ba c rf fb pl) = true -> pkt_ok (TWCC s m ba c rf fb pl).
Proof.
  cbn [valid_fields]. rewrite !andb_true_iff. intros [[[[[[[H1 H2] H3] H4] H5] H6] H7] H8].
  apply u32b_spec in H1, H2. apply u16b_spec in H3, H4. apply Z.leb_le in H5. apply Z.ltb_lt in H6.
  exists (write_rtcp_packet_padded RTCP_RTPFB_TWCC RTCP_RTPFB (build_twcc s m ba c rf fb pl)).
  split; [reflexivity|]. split; [apply len_written_padded|]. intros Hfit f rest.
  rewrite loop_written_padded by exact Hfit.
  assert (Hm : Z.land rf TWCC_REF_MASK = rf).
  { rconsts. change 16777215 with (Z.ones 24). rewrite Z.land_ones by lia. apply Z.mod_small. change (2 ^ 24) with 16777216. lia. }
  unfold build_twcc. rewrite Hm. cbn [be32 tl].
  set (body := be32 s ++ be32 m ++ be16 ba ++ be16 c ++ [rf / 65536 mod 256; rf / 256 mod 256; rf mod 256] ++ [fb] ++ pl).
  assert (Hl : len body = 16 + len pl)
    by (unfold body; rewrite !len_app, !len_be32, !len_be16; change (len [rf / 65536 mod 256; rf / 256 mod 256; rf mod 256]) with 3; change (len [fb]) with 1; lia).
  pose proof (len_nonneg pl) as Hn.
  unfold parse_one. rconsts. change (Z.land 15 31) with 15. cbn [Z.eqb Pos.eqb].
  unfold parse_twcc. rconsts. rewrite Hl.
  destruct (16 + len pl <? 16) eqn:E; [apply Z.ltb_lt in E; lia|].
  unfold body. rewrite get_u32_be32 by exact H1. cbn [bind]. rewrite get_u32_be32 by exact H2. cbn [bind].
  rewrite get_u16_be16 by exact H3. cbn [bind]. rewrite get_u16_be16 by exact H4. cbn [bind app get_u8].
  assert (Hr : u32_of 0 (rf / 65536 mod 256) (rf / 256 mod 256) (rf mod 256) = rf).
  { unfold u32_of. Z.div_mod_to_equations. lia. }
  rewrite Hr. cbn [bind canon]. destruct (parse_rtcp_loop f rest); reflexivity.
Qed.

Lemma pkt_ok_all x : valid_fields x = true -> pkt_ok x.
Proof.
  destruct x; intros H.
  - apply one_ok_pkt, sr_ok; exact H.
  - apply one_ok_pkt, rr_ok; exact H.
  - apply one_ok_pkt, sdes_ok; exact H.
  - apply one_ok_pkt, bye_ok; exact H.
  - apply one_ok_pkt, pli_ok; exact H.
  - apply one_ok_pkt, fir_ok; exact H.
  - apply one_ok_pkt, nack_ok; exact H.
  - apply one_ok_pkt, remb_ok; exact H.
  - apply twcc_pkt_ok; exact H.
Qed.

Lemma compound_aux xs :
  forallb valid xs = true ->
  exists bs, marshal_rtcp xs = Ok bs /\ 4 * len xs <= len bs /\
             forall f, (length xs <= f)%nat -> parse_rtcp_loop f bs = Ok (map canon xs).
Proof.
  induction xs as [|x xs IH]; intros Hv.
  - exists []. split; [reflexivity|]. split; [cbn; lia|]. intros f _. destruct f; reflexivity.
  - cbn [forallb] in Hv. apply andb_true_iff in Hv as [Hx Hv]. unfold valid in Hx. apply andb_true_iff in Hx as [Hf Hfit].
    destruct (pkt_ok_all x Hf) as (b & Hm & Hl4 & Hp).
    destruct (IH Hv) as (bs & Hms & Hlen & Hloop).
    exists (b ++ bs). split; [cbn [marshal_rtcp]; rewrite Hm; cbn [bind]; rewrite Hms; reflexivity|].
    split; [rewrite len_app, len_cons; lia|].
    intros f Hfl. destruct f as [|f]; [cbn in Hfl; lia|]. cbn [length] in Hfl.
    unfold fits in Hfit. rewrite Hm in Hfit. apply Z.leb_le in Hfit.
    rewrite (Hp Hfit). rewrite Hloop by lia. reflexivity.
Qed.

Theorem rtcp_roundtrip xs :
  forallb valid xs = true ->
  exists bs, marshal_rtcp xs = Ok bs /\ parse_rtcp bs = Ok (map canon xs).
Proof.
  intros Hv. destruct (compound_aux xs Hv) as (bs & Hm & Hl & Hloop).
  exists bs. split; [exact Hm|]. unfold parse_rtcp. apply Hloop. unfold len in Hl. lia.
Qed.

Theorem rtcp_roundtrip_one x :
  valid x = true -> exists bs, marshal_rtcp [x] = Ok bs /\ parse_rtcp bs = Ok [canon x].
Proof. intros H. apply (rtcp_roundtrip [x]). cbn. rewrite H. reflexivity. Qed.

(* compound = concatenation of the individual encodings *)
Theorem marshal_compound xs ys bx by_ :
  marshal_rtcp xs = Ok bx -> marshal_rtcp ys = Ok by_ -> marshal_rtcp (xs ++ ys) = Ok (bx ++ by_).
Proof.
  revert bx. induction xs as [|x xs IH]; intros bx Hx Hy.
  - cbn in Hx. apply Ok_inj in Hx. subst bx. exact Hy.
  - cbn [marshal_rtcp app] in *. destruct (marshal_one x) as [b| |]; cbn [bind] in *; try discriminate.
    destruct (marshal_rtcp xs) as [r| |]; cbn [bind] in *; try discriminate.
    apply Ok_inj in Hx. subst bx. rewrite (IH r eq_refl Hy). cbn [bind]. rewrite app_assoc. reflexivity.
Qed.

(* canon is the identity except for the two formats that are lossy by design *)
Theorem canon_id x :
  match x with NACK _ _ _ | REMB _ _ _ => True | _ => canon x = x end.
Proof. destruct x; exact I || reflexivity. Qed.

Theorem canon_nack_set s m l :
  Forall u16 l ->
  exists l', canon (NACK s m l) = NACK s m l' /\ forall y, In y l' <-> In y l.
Proof. intros Hu. eexists. split; [reflexivity|]. apply nack_set. exact Hu. Qed.

Theorem canon_remb s br ss :
  0 <= br <= 262143 -> canon (REMB s br ss) = REMB s br ss.
Proof.
  intros H. cbn [canon]. destruct (remb_truncation br ltac:(lia)) as (e & _ & _ & _ & _ & Hs). rewrite Hs by lia. reflexivity.
Qed.

(* ASCII text is clean UTF-8 (so the validity predicate is satisfiable for every length up to 255) *)
Lemma ascii_clean t : Forall (fun b => 0 <= b < 128) t -> utf8_lossy t = t.
Proof.
  induction t as [|b t IH]; intros H; [reflexivity|]. inversion H as [|? ? Hb Ht]; subst.
  cbn [utf8_lossy]. destruct (b <? 128) eqn:E; [|apply Z.ltb_ge in E; lia]. rewrite IH by exact Ht. reflexivity.
Qed.

(* the refusals (finding F12, fixed): counts above 31 and SDES items above 255 bytes are errors, not bytes *)
Theorem marshal_refuses_counts :
  (forall s nm nl ts pc oc bl, 31 < len bl -> marshal_one (SR s nm nl ts pc oc bl) = Err EInvalidRtcp) /\
  (forall s bl, 31 < len bl -> marshal_one (RR s bl) = Err EInvalidRtcp) /\
  (forall ch, 31 < len ch -> marshal_one (SDES ch) = Err EInvalidRtcp) /\
  (forall so r, 31 < len so -> marshal_one (BYE so r) = Err EInvalidRtcp) /\
  (forall s br ss, 255 < len ss -> marshal_one (REMB s br ss) = Err EInvalidRtcp) /\
  (forall s m, marshal_one (NACK s m []) = Err EInvalidRtcp).
Proof.
  repeat split; intros; cbn [marshal_one]; unfold build_sr, build_rr, build_sdes, build_bye, build_remb, build_nack; rconsts;
    try (match goal with |- context [?a >? ?b] => destruct (a >? b) eqn:E; [reflexivity|rewrite Z.gtb_ltb in E; apply Z.ltb_ge in E; lia] end);
    reflexivity.
Qed.

Theorem marshal_refuses_long_item ssrc ty text :
  255 < len text -> marshal_one (SDES [mkChunk ssrc [mkItem ty text]]) = Err EInvalidRtcp.
Proof.
  intros H. cbn [marshal_one]. unfold build_sdes. rconsts. change (len [mkChunk ssrc [mkItem ty text]] >? 31) with false. cbv iota.
  cbn [build_chunks build_items ch_items it_text]. rconsts.
  destruct (len text >? 255) eqn:E; [reflexivity|rewrite Z.gtb_ltb in E; apply Z.ltb_ge in E; lia].
Qed.

(* finding F26 (fixed): a TWCC whose opaque payload is not 32-bit aligned is written with RTCP padding and
   comes back unchanged -- any payload length *)
Definition twcc_witness : rtcp := TWCC 1 2 3 1 5 0 [32].
Theorem twcc_unaligned_roundtrip :
  (forall s m ba c rf fb pl, valid (TWCC s m ba c rf fb pl) = true ->
     exists bs, marshal_rtcp [TWCC s m ba c rf fb pl] = Ok bs /\ parse_rtcp bs = Ok [TWCC s m ba c rf fb pl]) /\
  valid twcc_witness = true /\
  marshal_rtcp [twcc_witness] = Ok [175; 205; 0; 5; 0; 0; 0; 1; 0; 0; 0; 2; 0; 3; 0; 1; 0; 0; 5; 0; 32; 0; 0; 3].
Proof.
  split; [|split; vm_compute; reflexivity].
  intros s m ba c rf fb pl Hv. exact (rtcp_roundtrip_one _ Hv).
Qed.

(* the premises are satisfiable: one compound with every packet type at boundary values *)
Definition example_compound : list rtcp :=
  [ SR 1 2 3 4 5 6 [mkRB 7 255 (-8388608) 9 10 11 12; mkRB 7 0 8388607 9 10 11 12];
    RR 4294967295 (repeat (mkRB 1 2 (-1) 4 5 6 7) 31);
    SDES [mkChunk 1 [mkItem 1 (repeat 97 255); mkItem 255 [195; 169]]; mkChunk 2 []];
    BYE [1; 2] (Some [226; 130; 172]); BYE [] None;
    PLI 1 2; FIR 1 [mkFir 2 255];
    NACK 1 2 [65535; 0; 65534; 1; 16; 0];
    REMB 1 18446744073709551615 [1; 2]; REMB 1 262143 [];
    TWCC 1 2 65535 65535 16777215 255 [1; 2; 3; 4]; TWCC 1 2 0 0 0 0 [9; 8; 7] ].
Example example_compound_ok :
  forallb valid example_compound = true /\
  exists bs, marshal_rtcp example_compound = Ok bs /\ parse_rtcp bs = Ok (map canon example_compound).
Proof. split; [vm_compute; reflexivity|]. eexists. split; [vm_compute; reflexivity|]. vm_compute. reflexivity. Qed.
