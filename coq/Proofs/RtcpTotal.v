(* C15 proofs, part 5: parse_rtcp_packets never panics, on any byte string (also C07 for this decoder). *)
From Coq Require Import ZArith List Bool Lia.
From RV Require Import Lib.Wrap.
From RV Require Import Gen.Consts.
From RV Require Import Gen.RtpConsts.
From RV Require Import Model.RtpLib.
From RV Require Import Model.Rtp.
From RV Require Import Model.Nack.
From RV Require Import Model.Rtcp.
From RV Require Import Proofs.RtpProofs.
From RV Require Import Proofs.RtpExtProofs.
From RV Require Import Proofs.RtcpProofs.
Import ListNotations.
Open Scope Z_scope.

Lemma bind_np {A B} (r : res A) (f : A -> res B) :
  r <> Panic -> (forall a, r = Ok a -> f a <> Panic) -> bind r f <> Panic.
Proof. intros Hr Hf. destruct r as [a| |]; cbn [bind]; [apply Hf; reflexivity|discriminate|congruence]. Qed.

(* expose the first n elements of a list known to be long enough *)
Tactic Notation "expose" ident(l) ident(H) integer(n) :=
  do n (destruct l as [|? l]; [rewrite ?len_cons, ?len_nil in H; lia|]).

Ltac strip_bytes Hb := repeat (apply bytes_cons in Hb as [_ Hb]).

(* ------------------------------------------------------------------ report blocks *)
Lemma parse_report_block_ok l :
  24 <= len l -> exists b r, parse_report_block l = Ok (b, r) /\ len r = len l - 24.
Proof.
  intros H. expose l H 24. eexists _, _. cbn [parse_report_block get_u32 get_u8 bind].
  split; [reflexivity|]. rewrite !len_cons. lia.
Qed.

Lemma parse_blocks_np n : forall l, parse_blocks n l <> Panic.
Proof.
  induction n as [|n IH]; intros l; cbn [parse_blocks]; [discriminate|].
  rconsts. destruct (len l <? 24) eqn:E; [discriminate|]. apply Z.ltb_ge in E.
  destruct (parse_report_block_ok l E) as (b & r & -> & _). cbn [bind].
  specialize (IH r). destruct (parse_blocks n r); cbn [bind]; congruence.
Qed.

Lemma parse_sr_np fmt body : parse_sr fmt body <> Panic.
Proof.
  unfold parse_sr. rconsts. destruct (len body <? 24) eqn:E; [discriminate|]. apply Z.ltb_ge in E.
  expose body E 24. cbn [get_u32 bind].
  pose proof (parse_blocks_np (Z.to_nat fmt) body) as H. destruct (parse_blocks _ body); cbn [bind]; congruence.
Qed.
Lemma parse_rr_np fmt body : parse_rr fmt body <> Panic.
Proof.
  unfold parse_rr. rconsts. destruct (len body <? 4) eqn:E; [discriminate|]. apply Z.ltb_ge in E.
  expose body E 4. cbn [get_u32 bind].
  pose proof (parse_blocks_np (Z.to_nat fmt) body) as H. destruct (parse_blocks _ body); cbn [bind]; congruence.
Qed.

(* ------------------------------------------------------------------ SDES *)
Lemma parse_items_np : forall f l off,
  bytes l -> (length l <= f)%nat ->
  match parse_items f l off with
  | Panic => False
  | Err _ => True
  | Ok (_, l', _) => bytes l' /\ (length l' <= length l)%nat
  end.
Proof.
  induction f as [|f IH]; intros l off Hb Hf.
  - destruct l; [cbn; split; [exact Hb|lia]|cbn in Hf; lia].
  - destruct l as [|ty t]; [cbn; split; [exact Hb|lia]|]. cbn [length] in Hf. cbn [parse_items].
    apply bytes_cons in Hb as [Hty Hb].
    destruct (ty =? 0).
    + split; [apply bytes_drop; exact Hb|]. cbn [length]. pose proof (length_drop_le (Z.min ((4 - (off + 1) mod 4) mod 4) (len t)) t). lia.
    + destruct t as [|n t']; [exact I|]. apply bytes_cons in Hb as [Hn Hb]. unfold byte in Hn. cbn [length] in Hf.
      destruct (len t' <? n) eqn:E; [exact I|]. apply Z.ltb_ge in E.
      rewrite slice_ok by lia. cbn [bind].
      pose proof (length_drop_le n t') as Hd.
      specialize (IH (drop n t') (off + 2 + n) (bytes_drop n t' Hb) ltac:(lia)).
      destruct (parse_items f (drop n t') (off + 2 + n)) as [[[its l'] off']| |]; cbn [bind]; [|exact I|exact IH].
      destruct IH as [Hb' Hl']. split; [exact Hb'|]. cbn [length]. lia.
Qed.

Lemma parse_chunks_np n : forall l off, bytes l -> parse_chunks n l off <> Panic.
Proof.
  induction n as [|n IH]; intros l off Hb; cbn [parse_chunks]; [discriminate|].
  destruct (len l <? 4) eqn:E; [discriminate|]. apply Z.ltb_ge in E.
  expose l E 4. cbn [get_u32 bind]. strip_bytes Hb.
  pose proof (parse_items_np (length l) l (off + 4) Hb (le_n _)) as H.
  destruct (parse_items (length l) l (off + 4)) as [[[its l2] off2]| |]; cbn [bind]; [|discriminate|destruct H].
  destruct H as [Hb2 _]. specialize (IH l2 off2 Hb2). destruct (parse_chunks n l2 off2); cbn [bind]; congruence.
Qed.
Lemma parse_sdes_np c body : bytes body -> parse_sdes c body <> Panic.
Proof.
  intros Hb. unfold parse_sdes. pose proof (parse_chunks_np (Z.to_nat c) body 0 Hb) as H.
  destruct (parse_chunks _ body 0); cbn [bind]; congruence.
Qed.

(* ------------------------------------------------------------------ BYE *)
Lemma parse_sources_np n : forall l,
  bytes l -> match parse_sources n l with Panic => False | Err _ => True | Ok (_, l') => bytes l' end.
Proof.
  induction n as [|n IH]; intros l Hb; cbn [parse_sources]; [exact Hb|].
  destruct (len l <? 4) eqn:E; [exact I|]. apply Z.ltb_ge in E.
  expose l E 4. cbn [get_u32 bind]. strip_bytes Hb.
  specialize (IH l Hb). destruct (parse_sources n l) as [[ss l'']| |]; cbn [bind]; [exact IH|exact I|exact IH].
Qed.
Lemma parse_bye_np c body : bytes body -> parse_bye c body <> Panic.
Proof.
  intros Hb. unfold parse_bye. pose proof (parse_sources_np (Z.to_nat c) body Hb) as H.
  destruct (parse_sources _ body) as [[ss l]| |]; cbn [bind]; [|discriminate|destruct H].
  destruct l as [|n t]; [discriminate|]. apply bytes_cons in H as [Hn Ht]. unfold byte in Hn.
  destruct (len t <? n) eqn:E; [discriminate|]. apply Z.ltb_ge in E.
  rewrite slice_ok by lia. cbn [bind]. discriminate.
Qed.

(* ------------------------------------------------------------------ feedback *)
Lemma parse_pli_np body : parse_pli body <> Panic.
Proof.
  unfold parse_pli. rconsts. destruct (len body <? 8) eqn:E; [discriminate|]. apply Z.ltb_ge in E.
  expose body E 8. cbn [get_u32 bind]. discriminate.
Qed.

Lemma parse_fir_entries_np : forall f l, (length l <= f)%nat -> parse_fir_entries f l <> Panic.
Proof.
  induction f as [|f IH]; intros l Hf.
  - destruct l; [discriminate|cbn in Hf; lia].
  - cbn [parse_fir_entries]. destruct (len l <? 8) eqn:E; [discriminate|]. apply Z.ltb_ge in E.
    expose l E 5. cbn [get_u32 get_u8 bind]. cbn [length] in Hf.
    pose proof (length_drop_le 3 l) as Hd. specialize (IH (drop 3 l) ltac:(lia)).
    destruct (parse_fir_entries f (drop 3 l)); cbn [bind]; congruence.
Qed.
Lemma parse_fir_np body : parse_fir body <> Panic.
Proof.
  unfold parse_fir. rconsts. destruct (len body <? 8) eqn:E; [discriminate|]. apply Z.ltb_ge in E.
  expose body E 4. cbn [get_u32 bind].
  assert (H : parse_fir_entries (length (z :: z0 :: z1 :: z2 :: body)) (drop 4 body) <> Panic).
  { apply parse_fir_entries_np. pose proof (length_drop_le 4 body). cbn [length]. lia. }
  destruct (parse_fir_entries _ (drop 4 body)); cbn [bind]; congruence.
Qed.

Lemma parse_nack_pairs_np : forall f l, (length l <= f)%nat -> parse_nack_pairs f l <> Panic.
Proof.
  induction f as [|f IH]; intros l Hf.
  - destruct l; [discriminate|cbn in Hf; lia].
  - cbn [parse_nack_pairs]. destruct (len l <? 4) eqn:E; [discriminate|]. apply Z.ltb_ge in E.
    expose l E 4. cbn [get_u16 bind]. cbn [length] in Hf.
    specialize (IH l ltac:(lia)). destruct (parse_nack_pairs f l); cbn [bind]; congruence.
Qed.
Lemma parse_nack_np body : parse_nack body <> Panic.
Proof.
  unfold parse_nack. rconsts. destruct (len body <? 8) eqn:E; [discriminate|]. apply Z.ltb_ge in E.
  expose body E 8. cbn [get_u32 bind].
  assert (H : parse_nack_pairs (length (z :: z0 :: z1 :: z2 :: z3 :: z4 :: z5 :: z6 :: body)) body <> Panic).
  { apply parse_nack_pairs_np. cbn [length]. lia. }
  destruct (parse_nack_pairs _ body); cbn [bind]; congruence.
Qed.

Lemma parse_remb_ssrcs_np n : forall l, parse_remb_ssrcs n l <> Panic.
Proof.
  induction n as [|n IH]; intros l; cbn [parse_remb_ssrcs]; [discriminate|].
  destruct (len l <? 4) eqn:E; [discriminate|]. apply Z.ltb_ge in E.
  expose l E 4. cbn [get_u32 bind]. specialize (IH l). destruct (parse_remb_ssrcs n l); cbn [bind]; congruence.
Qed.
Lemma parse_remb_np body : parse_remb body <> Panic.
Proof.
  unfold parse_remb. rconsts. destruct (len body <? 16) eqn:E; [discriminate|]. apply Z.ltb_ge in E.
  expose body E 16. cbn [get_u32 bind].
  rewrite slice_ok by (rewrite ?len_cons; pose proof (len_nonneg body); lia).
  cbn [bind]. destruct (negb _); [discriminate|].
  change (drop 4 (z7 :: z8 :: z9 :: z10 :: z11 :: z12 :: z13 :: z14 :: body)) with (z11 :: z12 :: z13 :: z14 :: body).
  cbn [get_u8 bind]. pose proof (parse_remb_ssrcs_np (Z.to_nat z11) body) as H.
  destruct (parse_remb_ssrcs _ body); cbn [bind]; congruence.
Qed.
Lemma parse_twcc_np body : parse_twcc body <> Panic.
Proof.
  unfold parse_twcc. rconsts. destruct (len body <? 16) eqn:E; [discriminate|]. apply Z.ltb_ge in E.
  expose body E 16. cbn [get_u32 get_u16 get_u8 bind]. discriminate.
Qed.

Lemma parse_one_np fmt pt body : bytes body -> parse_one fmt pt body <> Panic.
Proof.
  intros Hb. unfold parse_one.
  repeat match goal with
  | |- (if ?c then _ else _) <> Panic => destruct c
  end; try discriminate;
  match goal with
  | |- bind ?r _ <> Panic =>
      assert (Hr : r <> Panic) by
        (first [apply parse_sr_np | apply parse_rr_np | apply parse_sdes_np; exact Hb | apply parse_bye_np; exact Hb
               | apply parse_nack_np | apply parse_twcc_np | apply parse_pli_np | apply parse_fir_np | apply parse_remb_np]);
      destruct r; cbn [bind]; congruence
  end.
Qed.

(* ------------------------------------------------------------------ the compound walk *)
Lemma idx_ok l i : 0 <= i < len l -> bytes l -> exists b, idx l i = Ok b /\ byte b.
Proof.
  intros Hi Hb. unfold idx. destruct ((0 <=? i) && (i <? len l)) eqn:E.
  - eexists. split; [reflexivity|]. unfold bytes in Hb. rewrite Forall_forall in Hb. apply Hb.
    apply nth_In. unfold len in Hi. lia.
  - exfalso. rewrite andb_false_iff, Z.leb_gt, Z.ltb_ge in E. lia.
Qed.

Lemma parse_loop_np : forall f raw, bytes raw -> (length raw <= f)%nat -> parse_rtcp_loop f raw <> Panic.
Proof.
  induction f as [|f IH]; intros raw Hb Hf.
  - destruct raw; [discriminate|cbn in Hf; lia].
  - cbn [parse_rtcp_loop]. destruct (len raw <? 4) eqn:E4; [discriminate|]. apply Z.ltb_ge in E4.
    destruct (idx_ok raw 0 ltac:(lia) Hb) as (vrc & -> & _). cbn [bind].
    destruct (negb _); [discriminate|].
    destruct (idx_ok raw 1 ltac:(lia) Hb) as (pt & -> & _). cbn [bind].
    destruct (idx_ok raw 2 ltac:(lia) Hb) as (l1 & -> & H1). cbn [bind].
    destruct (idx_ok raw 3 ltac:(lia) Hb) as (l2 & -> & H2). cbn [bind].
    pose proof (u16_of_range l1 l2 H1 H2) as Hw. unfold u16 in Hw.
    set (plen := (u16_of l1 l2 + 1) * 4) in *.
    destruct (len raw <? plen) eqn:E5; [discriminate|]. apply Z.ltb_ge in E5.
    assert (Hp4 : 4 <= plen) by (unfold plen; lia).
    assert (Htail : forall be, 4 <= be <= plen ->
              (body <- slice raw 4 be ;;
               o <- parse_one (Z.land vrc R_FMT_MASK) pt body ;;
               rest <- parse_rtcp_loop f (drop plen raw) ;;
               Ok (match o with Some p => p :: rest | None => rest end)) <> Panic).
    { intros be Hbe. rewrite slice_ok by lia. cbn [bind].
      apply bind_np; [apply parse_one_np; apply bytes_take, bytes_drop; exact Hb|]. intros o _.
      apply bind_np.
      - apply IH; [apply bytes_drop; exact Hb|]. unfold drop. rewrite skipn_length. unfold len in E5. lia.
      - intros rest _. discriminate. }
    destruct (flag vrc R_PAD_MASK).
    + destruct (idx_ok raw (plen - 1) ltac:(lia) Hb) as (pad & -> & Hpad). cbn [bind]. unfold byte in Hpad.
      destruct ((pad =? 0) || (pad >? Z.max 0 (plen - 4))) eqn:Ep; [discriminate|].
      apply orb_false_iff in Ep as [Ep0 Ep]. apply Z.eqb_neq in Ep0. rewrite Z.gtb_ltb in Ep. apply Z.ltb_ge in Ep.
      unfold checked_sub. destruct (pad <=? plen) eqn:Eq; [|apply Z.leb_gt in Eq; lia]. cbn [bind].
      apply Htail. lia.
    + cbn [bind]. apply Htail. lia.
Qed.

Theorem parse_rtcp_total raw : bytes raw -> parse_rtcp raw <> Panic.
Proof. intros Hb. unfold parse_rtcp. apply parse_loop_np; [exact Hb|apply le_n]. Qed.
