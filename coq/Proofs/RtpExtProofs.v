(* C15 proofs, part 2: RFC 8285 header-extension get / set laws (Model/Rtp.v). *)
From Coq Require Import ZArith List Bool Lia.
From RV Require Import Lib.Wrap.
From RV Require Import Gen.Consts.
From RV Require Import Gen.RtpConsts.
From RV Require Import Model.RtpLib.
From RV Require Import Model.Rtp.
From RV Require Import Proofs.RtpProofs.
Import ListNotations.
Open Scope Z_scope.

Ltac xconsts :=
  unfold G_ID_SHIFT, G_LEN_MASK, G_ID_STOP, S_PROFILE, S_PROFILE_CHECK, S_ID_MAX, S_LEN_MAX, S_ID_SHIFT,
         S_RD_ID_SHIFT, S_LEN_MASK, S_ID_STOP, S_ALIGN_ADD, S_ALIGN_MASK, EXT_ONE_BYTE, EXT_TWO_BYTE in *.

(* the element header byte as both loops read it *)
Definition eid (b : Z) : Z := Z.shiftr b 4.
Definition elen (b : Z) : Z := Z.land b 15 + 1.

Lemma elen_pos b : 1 <= elen b.
Proof. unfold elen. assert (0 <= Z.land b 15) by (apply Z.land_nonneg; right; lia). lia. Qed.

Lemma length_drop_le {A} n (l : list A) : (length (drop n l) <= length l)%nat.
Proof. unfold drop. rewrite skipn_length. lia. Qed.

(* ------------------------------------------------------------------ get1: canonical fuel *)
Definition gt (l : list Z) (id : Z) : res (option (list Z)) := get1 (length l) l id.

Lemma get1_fuel : forall f1 f2 l id,
  (length l <= f1)%nat -> (length l <= f2)%nat -> get1 f1 l id = get1 f2 l id.
Proof.
  induction f1 as [|f1 IH]; intros f2 l id H1 H2.
  - destruct l; [destruct f2; reflexivity|cbn in H1; lia].
  - destruct l as [|b t]; [destruct f2; reflexivity|].
    destruct f2 as [|f2]; [cbn in H2; lia|]. cbn [length] in H1, H2.
    cbn [get1]. destruct (b =? 0); [apply IH; lia|].
    destruct (_ =? G_ID_STOP); [reflexivity|]. destruct (_ =? id); [reflexivity|].
    pose proof (length_drop_le (Z.land b G_LEN_MASK + 1) t). apply IH; lia.
Qed.

Lemma gt_nil id : gt [] id = Ok None.
Proof. reflexivity. Qed.

Lemma gt_cons b t id :
  gt (b :: t) id =
  if b =? 0 then gt t id else
  if eid b =? 15 then Ok None else
  if eid b =? id then (if elen b <=? len t then Ok (Some (take (elen b) t)) else Ok None)
  else gt (drop (elen b) t) id.
Proof.
  unfold gt. cbn [length get1]. xconsts. fold (eid b) (elen b).
  destruct (b =? 0); [reflexivity|]. destruct (eid b =? 15); [reflexivity|].
  destruct (eid b =? id).
  - destruct (elen b <=? len t) eqn:E; [|reflexivity]. apply Z.leb_le in E.
    pose proof (elen_pos b). rewrite slice_ok by lia. cbn [bind]. rewrite drop_0, Z.sub_0_r. reflexivity.
  - apply get1_fuel; [apply length_drop_le|lia].
Qed.

Lemma gt_no_panic : forall n l id, (length l <= n)%nat -> gt l id <> Panic.
Proof.
  induction n as [|n IH]; intros l id H.
  - destruct l; [discriminate|cbn in H; lia].
  - destruct l as [|b t]; [discriminate|]. cbn [length] in H. rewrite gt_cons.
    destruct (b =? 0); [apply IH; lia|]. destruct (eid b =? 15); [discriminate|].
    destruct (eid b =? id); [destruct (elen b <=? len t); discriminate|].
    pose proof (length_drop_le (elen b) t). apply IH; lia.
Qed.

Lemma gt_zeros k id : gt (repeat 0 k) id = Ok None.
Proof. induction k as [|k IH]; [reflexivity|]. cbn [repeat]. rewrite gt_cons. cbn. exact IH. Qed.

(* ------------------------------------------------------------------ get2 never panics *)
Lemma get2_no_panic : forall f l id, bytes l -> (length l <= f)%nat -> get2 f l id <> Panic.
Proof.
  induction f as [|f IH]; intros l id Hb H.
  - destruct l; [discriminate|cbn in H; lia].
  - destruct l as [|b t]; [discriminate|]. cbn [length] in H. cbn [get2].
    apply bytes_cons in Hb as [Hb0 Hb].
    destruct (b =? 0); [apply IH; [exact Hb|lia]|]. destruct t as [|n t']; [discriminate|]. cbn [length] in H.
    apply bytes_cons in Hb as [Hn Hb]. unfold byte in Hn.
    destruct (b =? id).
    + destruct (n <=? len t') eqn:E; [|discriminate]. apply Z.leb_le in E.
      rewrite slice_ok by lia. discriminate.
    + pose proof (length_drop_le n t'). apply IH; [apply bytes_drop; exact Hb|lia].
Qed.

(* ------------------------------------------------------------------ set1: canonical fuel *)
Definition st (l : list Z) (id : Z) (entry : list Z) : res (list Z * bool) := set1 (length l) l id entry.

Lemma set1_fuel : forall f1 f2 l id entry,
  (length l <= f1)%nat -> (length l <= f2)%nat -> set1 f1 l id entry = set1 f2 l id entry.
Proof.
  induction f1 as [|f1 IH]; intros f2 l id entry H1 H2.
  - destruct l; [destruct f2; reflexivity|cbn in H1; lia].
  - destruct l as [|b t]; [destruct f2; reflexivity|].
    destruct f2 as [|f2]; [cbn in H2; lia|]. cbn [length] in H1, H2.
    cbn [set1]. destruct (b =? 0); [apply IH; lia|].
    destruct (_ =? S_ID_STOP); [reflexivity|]. destruct (_ >? len t); [reflexivity|].
    pose proof (length_drop_le (Z.land b S_LEN_MASK + 1) t).
    rewrite (IH f2 (drop (Z.land b S_LEN_MASK + 1) t) id entry) by lia. reflexivity.
Qed.

Lemma st_nil id entry : st [] id entry = Ok ([], false).
Proof. reflexivity. Qed.

Lemma st_cons b t id entry :
  st (b :: t) id entry =
  if b =? 0 then st t id entry else
  if eid b =? 15 then Ok ([], false) else
  if elen b >? len t then Ok ([], false) else
  '(rest, found) <- st (drop (elen b) t) id entry ;;
  if eid b =? id then Ok (entry ++ rest, true) else Ok (b :: take (elen b) t ++ rest, found).
Proof.
  unfold st. cbn [length set1]. xconsts. fold (eid b) (elen b).
  destruct (b =? 0); [reflexivity|]. destruct (eid b =? 15); [reflexivity|].
  destruct (elen b >? len t) eqn:E; [reflexivity|]. rewrite Z.gtb_ltb in E. apply Z.ltb_ge in E.
  pose proof (elen_pos b).
  rewrite (set1_fuel (length t) (length (drop (elen b) t))) by (try apply length_drop_le; lia).
  destruct (eid b =? id).
  - destruct (set1 _ _ _ _) as [[rest found]| |]; reflexivity.
  - rewrite slice_ok by lia. cbn [bind]. rewrite drop_0, Z.sub_0_r.
    destruct (set1 _ _ _ _) as [[rest found]| |]; reflexivity.
Qed.

Lemma st_ok : forall n l id entry, (length l <= n)%nat -> exists elems found, st l id entry = Ok (elems, found).
Proof.
  induction n as [|n IH]; intros l id entry H.
  - destruct l; [exists [], false; reflexivity|cbn in H; lia].
  - destruct l as [|b t]; [exists [], false; reflexivity|]. cbn [length] in H. rewrite st_cons.
    destruct (b =? 0); [apply IH; lia|]. destruct (eid b =? 15); [eauto|].
    destruct (elen b >? len t); [eauto|].
    pose proof (length_drop_le (elen b) t).
    destruct (IH (drop (elen b) t) id entry ltac:(lia)) as (rest & found & ->). cbn [bind].
    destruct (eid b =? id); eauto.
Qed.

(* ------------------------------------------------------------------ the new element *)
Definition good_entry (id : Z) (h : Z) (data : list Z) : Prop :=
  h <> 0 /\ eid h = id /\ elen h = len data /\ id <> 15.

Definition id_header (id n : Z) : Z := Z.lor (cast_u8 (Z.shiftl id S_ID_SHIFT)) (cast_u8 (n - 1)).

Definition id_header_check (id : Z) : bool :=
  forallb (fun n => let h := id_header id n in
                    negb (h =? 0) && (eid h =? id) && (elen h =? n) && (0 <=? h) && (h <? 256))
          (map (fun k => k + 1) (zrange 16)).

Lemma id_header_good id n :
  1 <= id <= 14 -> 1 <= n <= 16 ->
  let h := id_header id n in h <> 0 /\ eid h = id /\ elen h = n /\ byte h.
Proof.
  intros Hid Hn.
  assert (H : (fun i => id_header_check (i + 1)) (id - 1) = true).
  { apply (range_forall 14 (fun i => id_header_check (i + 1))); [vm_compute; reflexivity|lia]. }
  cbv beta in H. replace (id - 1 + 1) with id in H by lia.
  unfold id_header_check in H. rewrite forallb_forall in H.
  specialize (H n). cbv zeta in H.
  assert (Hin : In n (map (fun k => k + 1) (zrange 16))).
  { apply in_map_iff. exists (n - 1). split; [lia|]. unfold zrange. apply in_map_iff.
    exists (Z.to_nat (n - 1)). split; [lia|]. apply in_seq. lia. }
  specialize (H Hin). rewrite !andb_true_iff in H. destruct H as [[[[H1 H2] H3] H4] H5].
  apply negb_true_iff, Z.eqb_neq in H1. apply Z.eqb_eq in H2, H3. apply Z.leb_le in H4. apply Z.ltb_lt in H5.
  cbv zeta. unfold byte. auto.
Qed.

Lemma take_app_len {A} (a b : list A) n : n = len a -> take n (a ++ b) = a.
Proof. intros ->. apply take_app_exact. Qed.
Lemma drop_app_len {A} (a b : list A) n : n = len a -> drop n (a ++ b) = b.
Proof. intros ->. apply drop_app_exact. Qed.

(* reading across the new element *)
Lemma gt_entry_same id h data tail :
  good_entry id h data -> gt ((h :: data) ++ tail) id = Ok (Some data).
Proof.
  intros (Hnz & Hid & Hlen & H15). cbn [app]. rewrite gt_cons.
  apply Z.eqb_neq in Hnz. rewrite Hnz, Hid. apply Z.eqb_neq in H15. rewrite H15, Z.eqb_refl, Hlen.
  rewrite len_app. pose proof (len_nonneg tail).
  destruct (len data <=? len data + len tail) eqn:E; [|apply Z.leb_gt in E; lia].
  rewrite take_app_exact. reflexivity.
Qed.
Lemma gt_entry_other id id' h data tail :
  good_entry id h data -> id' <> id -> gt ((h :: data) ++ tail) id' = gt tail id'.
Proof.
  intros (Hnz & Hid & Hlen & H15) Hne. cbn [app]. rewrite gt_cons.
  apply Z.eqb_neq in Hnz. rewrite Hnz, Hid. apply Z.eqb_neq in H15. rewrite H15.
  assert (E : id =? id' = false) by (apply Z.eqb_neq; congruence). rewrite E, Hlen, drop_app_exact. reflexivity.
Qed.

(* ------------------------------------------------------------------ main lemmas *)
Definition or_else (r : res (option (list Z))) (k : res (option (list Z))) : res (option (list Z)) :=
  match r with Ok None => k | _ => r end.

Lemma st_gt_other id id' h data :
  good_entry id h data -> id' <> id ->
  forall n l elems found tail, (length l <= n)%nat -> st l id (h :: data) = Ok (elems, found) ->
  gt (elems ++ tail) id' = or_else (gt l id') (gt tail id').
Proof.
  intros Hg Hne. induction n as [|n IH]; intros l elems found tail Hl Hs.
  - destruct l; [|cbn in Hl; lia]. cbn in Hs. apply Ok_inj in Hs. apply pair_equal_spec in Hs as [<- <-]. reflexivity.
  - destruct l as [|b t]; [cbn in Hs; apply Ok_inj in Hs; apply pair_equal_spec in Hs as [<- <-]; reflexivity|].
    cbn [length] in Hl. rewrite st_cons in Hs. rewrite (gt_cons b t).
    destruct (b =? 0) eqn:Eb; [apply (IH t elems found tail); [lia|exact Hs]|].
    destruct (eid b =? 15) eqn:E15; [apply Ok_inj in Hs; apply pair_equal_spec in Hs as [<- <-]; reflexivity|].
    destruct (elen b >? len t) eqn:Et.
    { apply Ok_inj in Hs. apply pair_equal_spec in Hs as [<- <-]. cbn [app]. apply Z.gtb_lt in Et.
      destruct (eid b =? id').
      - destruct (elen b <=? len t) eqn:E2; [apply Z.leb_le in E2; lia|]. reflexivity.
      - rewrite drop_all by lia. reflexivity. }
    rewrite Z.gtb_ltb in Et. apply Z.ltb_ge in Et.
    pose proof (length_drop_le (elen b) t) as Hd. pose proof (elen_pos b) as Hp.
    destruct (st (drop (elen b) t) id (h :: data)) as [[rest fnd]| |] eqn:Er; cbn [bind] in Hs; try discriminate.
    specialize (IH (drop (elen b) t) rest fnd tail ltac:(lia) Er).
    destruct (eid b =? id) eqn:Ei.
    + apply Ok_inj in Hs. apply pair_equal_spec in Hs as [<- <-]. apply Z.eqb_eq in Ei.
      assert (E' : eid b =? id' = false) by (apply Z.eqb_neq; congruence). rewrite E'.
      rewrite <- app_assoc. rewrite (gt_entry_other id id' h data) by assumption. exact IH.
    + apply Ok_inj in Hs. apply pair_equal_spec in Hs as [<- <-]. cbn [app]. rewrite gt_cons, Eb, E15.
      rewrite <- app_assoc. rewrite len_app, len_take by lia.
      destruct (eid b =? id').
      * pose proof (len_nonneg (rest ++ tail)).
        destruct (elen b <=? elen b + len (rest ++ tail)) eqn:E3; [|apply Z.leb_gt in E3; lia].
        destruct (elen b <=? len t) eqn:E4; [|apply Z.leb_gt in E4; lia].
        rewrite take_app_len by (rewrite len_take; lia). reflexivity.
      * rewrite drop_app_len by (rewrite len_take; lia). exact IH.
Qed.

Lemma st_gt_same id h data :
  good_entry id h data ->
  forall n l elems found tail, (length l <= n)%nat -> st l id (h :: data) = Ok (elems, found) ->
  gt (elems ++ tail) id = if found then Ok (Some data) else gt tail id.
Proof.
  intros Hg. induction n as [|n IH]; intros l elems found tail Hl Hs.
  - destruct l; [|cbn in Hl; lia]. cbn in Hs. apply Ok_inj in Hs. apply pair_equal_spec in Hs as [<- <-]. reflexivity.
  - destruct l as [|b t]; [cbn in Hs; apply Ok_inj in Hs; apply pair_equal_spec in Hs as [<- <-]; reflexivity|].
    cbn [length] in Hl. rewrite st_cons in Hs.
    destruct (b =? 0) eqn:Eb; [apply (IH t elems found tail); [lia|exact Hs]|].
    destruct (eid b =? 15) eqn:E15; [apply Ok_inj in Hs; apply pair_equal_spec in Hs as [<- <-]; reflexivity|].
    destruct (elen b >? len t) eqn:Et; [apply Ok_inj in Hs; apply pair_equal_spec in Hs as [<- <-]; reflexivity|].
    rewrite Z.gtb_ltb in Et. apply Z.ltb_ge in Et.
    pose proof (length_drop_le (elen b) t) as Hd. pose proof (elen_pos b) as Hp.
    destruct (st (drop (elen b) t) id (h :: data)) as [[rest fnd]| |] eqn:Er; cbn [bind] in Hs; try discriminate.
    specialize (IH (drop (elen b) t) rest fnd tail ltac:(lia) Er).
    destruct (eid b =? id) eqn:Ei.
    + apply Ok_inj in Hs. apply pair_equal_spec in Hs as [<- <-].
      rewrite <- app_assoc. apply gt_entry_same. exact Hg.
    + apply Ok_inj in Hs. apply pair_equal_spec in Hs as [<- <-]. cbn [app]. rewrite gt_cons, Eb, E15, Ei.
      rewrite <- app_assoc. rewrite drop_app_len by (rewrite len_take; lia). exact IH.
Qed.

(* ------------------------------------------------------------------ alignment *)
Lemma align4 x : 0 <= x -> Z.land (x + S_ALIGN_ADD) (Z.lnot S_ALIGN_MASK) = 4 * ((x + 3) / 4).
Proof.
  intros Hx. xconsts. rewrite <- Z.ldiff_land. change 3 with (Z.ones 2) at 2.
  rewrite Z.ldiff_ones_r by lia. rewrite Z.shiftl_mul_pow2, Z.shiftr_div_pow2 by lia.
  change (2 ^ 2) with 4. lia.
Qed.

(* ------------------------------------------------------------------ set_extension: the laws *)
Definition set_args_ok (h : header) (id : Z) (data : list Z) : Prop :=
  1 <= id <= 14 /\ 1 <= len data <= 16 /\
  match h_ext h with Some e => x_profile e = EXT_ONE_BYTE | None => True end.

Definition ext_data (h : header) : list Z := match h_ext h with Some e => x_data e | None => [] end.

Lemma set_extension_shape h id data :
  set_args_ok h id data ->
  exists elems found new_data,
    st (ext_data h) id (id_header id (len data) :: data) = Ok (elems, found) /\
    new_data = (if found then elems else elems ++ id_header id (len data) :: data) /\
    set_extension h id data =
      Ok (set_header_ext h (Some (mkExt EXT_ONE_BYTE
            (new_data ++ repeat 0 (Z.to_nat (4 * ((len new_data + 3) / 4) - len new_data)))))).
Proof.
  intros (Hid & Hlen & Hprof). unfold set_extension.
  assert (E1 : (id =? 0) || (id >=? S_ID_MAX) = false).
  { xconsts. apply orb_false_iff. split; [apply Z.eqb_neq; lia|]. rewrite Z.geb_leb. apply Z.leb_gt. lia. }
  rewrite E1.
  assert (E2 : (len data >? S_LEN_MAX) || (len data =? 0) = false).
  { xconsts. apply orb_false_iff. split; [rewrite Z.gtb_ltb; apply Z.ltb_ge; lia|apply Z.eqb_neq; lia]. }
  rewrite E2. fold (id_header id (len data)).
  set (e := match h_ext h with Some e => e | None => mkExt S_PROFILE [] end).
  assert (Hp : x_profile e = EXT_ONE_BYTE).
  { unfold e. destruct (h_ext h); [exact Hprof|reflexivity]. }
  assert (Hd : x_data e = ext_data h).
  { unfold e, ext_data. destruct (h_ext h); reflexivity. }
  assert (E3 : negb (x_profile e =? S_PROFILE_CHECK) = false).
  { rewrite Hp. reflexivity. }
  rewrite E3. rewrite Hd. fold (st (ext_data h) id (id_header id (len data) :: data)).
  destruct (st_ok (length (ext_data h)) (ext_data h) id (id_header id (len data) :: data) (le_n _)) as (elems & found & Hs).
  rewrite Hs. cbn [bind]. exists elems, found, (if found then elems else elems ++ id_header id (len data) :: data).
  split; [reflexivity|]. split; [reflexivity|].
  rewrite align4 by apply len_nonneg. rewrite Hp. reflexivity.
Qed.

Theorem set_then_get h id data h' :
  set_args_ok h id data -> set_extension h id data = Ok h' ->
  get_extension h' id = Ok (Some data).
Proof.
  intros Ha Hs. pose proof Ha as (Hid & Hlen & _).
  destruct (set_extension_shape h id data Ha) as (elems & found & nd & Hst & Hnd & Heq).
  rewrite Heq in Hs. apply Ok_inj in Hs. subst h'.
  unfold get_extension, set_header_ext. cbn [h_ext x_profile x_data]. rewrite Z.eqb_refl.
  fold (gt (nd ++ repeat 0 (Z.to_nat (4 * ((len nd + 3) / 4) - len nd))) id).
  destruct (id_header_good id (len data) Hid Hlen) as (G1 & G2 & G3 & _).
  assert (Hg : good_entry id (id_header id (len data)) data) by (unfold good_entry; repeat split; auto; lia).
  subst nd. destruct found.
  - rewrite (st_gt_same id _ data Hg _ (ext_data h) elems true _ (le_n _) Hst). reflexivity.
  - rewrite <- app_assoc. rewrite (st_gt_same id _ data Hg _ (ext_data h) elems false _ (le_n _) Hst).
    apply gt_entry_same. exact Hg.
Qed.

Lemma get_extension_onebyte h id :
  match h_ext h with Some e => x_profile e = EXT_ONE_BYTE | None => True end ->
  get_extension h id = gt (ext_data h) id.
Proof.
  unfold get_extension, ext_data. destruct (h_ext h) as [e|]; [|reflexivity].
  intros ->. rewrite Z.eqb_refl. reflexivity.
Qed.

Theorem set_keeps_others h id data h' id' :
  set_args_ok h id data -> set_extension h id data = Ok h' -> id' <> id ->
  get_extension h' id' = get_extension h id'.
Proof.
  intros Ha Hs Hne. pose proof Ha as (Hid & Hlen & Hprof).
  destruct (set_extension_shape h id data Ha) as (elems & found & nd & Hst & Hnd & Heq).
  rewrite Heq in Hs. apply Ok_inj in Hs. subst h'.
  rewrite (get_extension_onebyte h id' Hprof).
  unfold get_extension, set_header_ext. cbn [h_ext x_profile x_data]. rewrite Z.eqb_refl.
  fold (gt (nd ++ repeat 0 (Z.to_nat (4 * ((len nd + 3) / 4) - len nd))) id').
  destruct (id_header_good id (len data) Hid Hlen) as (G1 & G2 & G3 & _).
  assert (Hg : good_entry id (id_header id (len data)) data) by (unfold good_entry; repeat split; auto; lia).
  assert (Hres : forall r, or_else r (Ok None) = r) by (intros [[?|]| |]; reflexivity).
  subst nd. destruct found.
  - rewrite (st_gt_other id id' _ data Hg Hne _ (ext_data h) elems true _ (le_n _) Hst).
    rewrite gt_zeros. apply Hres.
  - rewrite <- app_assoc. rewrite (st_gt_other id id' _ data Hg Hne _ (ext_data h) elems false _ (le_n _) Hst).
    rewrite (gt_entry_other id id') by assumption. rewrite gt_zeros. apply Hres.
Qed.

Theorem set_result_aligned h id data h' :
  set_args_ok h id data -> set_extension h id data = Ok h' ->
  exists e, h_ext h' = Some e /\ x_profile e = EXT_ONE_BYTE /\ len (x_data e) mod 4 = 0 /\
            (len (h_csrcs h) <= MAX_CSRC -> encodable h') /\
            h_marker h' = h_marker h /\ h_pt h' = h_pt h /\ h_seq h' = h_seq h /\ h_ts h' = h_ts h /\
            h_ssrc h' = h_ssrc h /\ h_csrcs h' = h_csrcs h.
Proof.
  intros Ha Hs. destruct (set_extension_shape h id data Ha) as (elems & found & nd & Hst & Hnd & Heq).
  rewrite Heq in Hs. apply Ok_inj in Hs. subst h'. eexists. split; [reflexivity|].
  cbn [x_profile x_data]. split; [reflexivity|].
  assert (Hal : len (nd ++ repeat 0 (Z.to_nat (4 * ((len nd + 3) / 4) - len nd))) mod 4 = 0).
  { rewrite len_app, len_repeat. pose proof (len_nonneg nd).
    rewrite Z2Nat.id by (Z.div_mod_to_equations; lia).
    replace (len nd + (4 * ((len nd + 3) / 4) - len nd)) with (((len nd + 3) / 4) * 4) by lia.
    apply Z_mod_mult. }
  split; [exact Hal|]. split.
  - intros Hc. unfold encodable, set_header_ext. cbn [h_csrcs h_ext x_data]. split; [exact Hc|].
    unfold EXT_ALIGN. exact Hal.
  - unfold set_header_ext. cbn. repeat split; reflexivity.
Qed.

Theorem set_ok_iff h id data :
  byte id -> ((exists h', set_extension h id data = Ok h') <-> set_args_ok h id data).
Proof.
  intros Hbid. unfold byte in Hbid. split.
  - intros [h' Hs]. unfold set_extension in Hs.
    destruct ((id =? 0) || (id >=? S_ID_MAX)) eqn:E1; [discriminate|].
    destruct ((len data >? S_LEN_MAX) || (len data =? 0)) eqn:E2; [discriminate|].
    apply orb_false_iff in E1 as [A1 A2]. apply orb_false_iff in E2 as [B1 B2].
    apply Z.eqb_neq in A1, B2. rewrite Z.geb_leb in A2. apply Z.leb_gt in A2.
    rewrite Z.gtb_ltb in B1. apply Z.ltb_ge in B1. xconsts. pose proof (len_nonneg data).
    unfold set_args_ok. split; [lia|]. split; [lia|].
    destruct (h_ext h) as [e|]; [|exact I].
    destruct (negb (x_profile e =? 48862)) eqn:E3; [discriminate|].
    apply negb_false_iff, Z.eqb_eq in E3. exact E3.
  - intros Ha. destruct (set_extension_shape h id data Ha) as (? & ? & ? & _ & _ & Heq). eauto.
Qed.

(* set_extension and get_extension never panic, whatever the header holds (received or not) *)
Theorem set_extension_no_panic h id data : set_extension h id data <> Panic.
Proof.
  unfold set_extension.
  destruct ((id =? 0) || (id >=? S_ID_MAX)); [discriminate|].
  destruct ((len data >? S_LEN_MAX) || (len data =? 0)); [discriminate|].
  destruct (negb _); [discriminate|].
  match goal with |- context [set1 (length ?l) ?l ?i ?e] =>
    destruct (st_ok (length l) l i e (le_n _)) as (elems & found & Hs); unfold st in Hs; rewrite Hs end.
  cbn [bind]. discriminate.
Qed.

Theorem get_extension_no_panic h id :
  match h_ext h with Some e => bytes (x_data e) | None => True end -> get_extension h id <> Panic.
Proof.
  unfold get_extension. destruct (h_ext h) as [e|]; [|discriminate]. intros Hb.
  destruct (x_profile e =? EXT_ONE_BYTE); [apply (gt_no_panic (length (x_data e))); apply le_n|].
  destruct (x_profile e =? EXT_TWO_BYTE); [apply get2_no_panic; [exact Hb|apply le_n]|discriminate].
Qed.

(* the recorded defect F1, on the model of the code before the fix: the element copy sliced without the
   bounds check.  The witness is the one replayed on the real code. *)
Fixpoint set1_unfixed (fuel : nat) (l : list Z) (id : Z) (entry : list Z) : res (list Z * bool) :=
  match l with
  | [] => Ok ([], false)
  | b :: t =>
      match fuel with
      | O => Panic
      | S f =>
          if b =? 0 then set1_unfixed f t id entry else
          let ext_id := Z.shiftr b S_RD_ID_SHIFT in
          let n := Z.land b S_LEN_MASK + 1 in
          if ext_id =? S_ID_STOP then Ok ([], false) else
          if ext_id =? id then
            '(rest, _) <- set1_unfixed f (drop n t) id entry ;;
            Ok (entry ++ rest, true)
          else
            d <- slice t 0 n ;;
            '(rest, found) <- set1_unfixed f (drop n t) id entry ;;
            Ok (b :: d ++ rest, found)
      end
  end.

Lemma f1_witness_unfixed : set1_unfixed 4 [31; 0; 0; 0] 2 [32; 9] = Panic.
Proof. vm_compute. reflexivity. Qed.
Lemma f1_witness_fixed :
  set_extension (mkHdr false 96 1 2 3 [] (Some (mkExt 48862 [31; 0; 0; 0]))) 2 [9] =
  Ok (mkHdr false 96 1 2 3 [] (Some (mkExt 48862 [32; 9; 0; 0]))).
Proof. vm_compute. reflexivity. Qed.

(* premises are satisfiable: replace an element, keep another, across padding *)
Example set_example :
  exists h', set_extension (mkHdr false 96 1 2 3 [] (Some (mkExt 48862 [18; 170; 187; 204; 0; 0; 32; 255]))) 1 [17; 34] = Ok h' /\
             get_extension h' 1 = Ok (Some [17; 34]) /\ get_extension h' 2 = Ok (Some [255]).
Proof. eexists. split; [vm_compute; reflexivity|]. split; vm_compute; reflexivity. Qed.

(* set_extension / get_extension on any header obtained from parse_packet never panic *)
Theorem set_after_parse_no_panic raw p id data :
  parse_packet raw = Ok p -> set_extension (p_hdr p) id data <> Panic.
Proof. intros _. apply set_extension_no_panic. Qed.

Theorem get_after_parse_no_panic raw p id :
  bytes raw -> parse_packet raw = Ok p -> get_extension (p_hdr p) id <> Panic.
Proof.
  intros Hb Hp. apply get_extension_no_panic.
  pose proof (parse_packet_spec raw Hb) as H. rewrite Hp in H. destruct H as (_ & (W & _) & _).
  destruct W as (_ & _ & _ & _ & _ & We). destruct (h_ext (p_hdr p)); [apply We|exact I].
Qed.

(* ------------------------------------------------------------------ two-byte form (profile 0x1000) *)
Definition gt2 (l : list Z) (id : Z) : res (option (list Z)) := get2 (length l) l id.

Lemma get2_fuel : forall f1 f2 l id,
  (length l <= f1)%nat -> (length l <= f2)%nat -> get2 f1 l id = get2 f2 l id.
Proof.
  induction f1 as [|f1 IH]; intros f2 l id H1 H2.
  - destruct l; [destruct f2; reflexivity|cbn in H1; lia].
  - destruct l as [|b t]; [destruct f2; reflexivity|].
    destruct f2 as [|f2]; [cbn in H2; lia|]. cbn [length] in H1, H2.
    cbn [get2]. destruct (b =? 0); [apply IH; lia|].
    destruct t as [|n t']; [reflexivity|]. cbn [length] in H1, H2. destruct (b =? id); [reflexivity|].
    pose proof (length_drop_le n t'). apply IH; lia.
Qed.

Lemma gt2_zero t id : gt2 (0 :: t) id = gt2 t id.
Proof. unfold gt2. cbn [length get2]. reflexivity. Qed.
Lemma gt2_zeros k t id : gt2 (repeat 0 k ++ t) id = gt2 t id.
Proof. induction k as [|k IH]; [reflexivity|]. cbn [repeat app]. rewrite gt2_zero. exact IH. Qed.
Lemma get2_step f e n t' id :
  e <> 0 ->
  get2 (S f) (e :: n :: t') id =
  if e =? id then (if n <=? len t' then d <- slice t' 0 n ;; Ok (Some d) else Ok None) else get2 f (drop n t') id.
Proof. intros He. cbn [get2]. apply Z.eqb_neq in He. rewrite He. reflexivity. Qed.

Lemma gt2_elem e d t id :
  e <> 0 -> gt2 (e :: len d :: d ++ t) id = if e =? id then Ok (Some d) else gt2 t id.
Proof.
  intros He. unfold gt2. change (length (e :: len d :: d ++ t)) with (S (length (len d :: d ++ t))).
  rewrite get2_step by exact He.
  destruct (e =? id).
  - rewrite len_app. pose proof (len_nonneg t). pose proof (len_nonneg d).
    destruct (len d <=? len d + len t) eqn:E; [|apply Z.leb_gt in E; lia].
    rewrite slice_ok by (rewrite ?len_app; lia). cbn [bind]. rewrite drop_0, Z.sub_0_r, take_app_exact. reflexivity.
  - rewrite drop_app_exact. apply get2_fuel; [cbn [length]; rewrite app_length; lia|apply le_n].
Qed.

(* a well-formed two-byte block: elements (id 1..255, up to 255 data bytes), each preceded by any number of padding
   zeros, then trailing padding *)
Fixpoint enc2 (elems : list (nat * Z * list Z)) (trail : nat) : list Z :=
  match elems with
  | [] => repeat 0 trail
  | (pad, e, d) :: rest => repeat 0 pad ++ e :: len d :: d ++ enc2 rest trail
  end.
Fixpoint find2 (elems : list (nat * Z * list Z)) (id : Z) : option (list Z) :=
  match elems with
  | [] => None
  | (_, e, d) :: rest => if e =? id then Some d else find2 rest id
  end.

Theorem get2_wellformed elems trail id :
  Forall (fun x => snd (fst x) <> 0) elems ->
  gt2 (enc2 elems trail) id = Ok (find2 elems id).
Proof.
  induction elems as [|[[pad e] d] rest IH]; intros H.
  - cbn [enc2 find2]. rewrite <- (app_nil_r (repeat 0 trail)), gt2_zeros. reflexivity.
  - inversion H as [|? ? He Hr]; subst. cbn [fst snd] in He. cbn [enc2 find2].
    rewrite gt2_zeros, gt2_elem by exact He. destruct (e =? id); [reflexivity|apply IH; exact Hr].
Qed.

(* get_extension on a 0x1000 header is the first element with that id *)
Theorem get_extension_twobyte h elems trail id :
  h_ext h = Some (mkExt EXT_TWO_BYTE (enc2 elems trail)) ->
  Forall (fun x => snd (fst x) <> 0) elems ->
  get_extension h id = Ok (find2 elems id).
Proof.
  intros He Hf. unfold get_extension. rewrite He. cbn [x_profile x_data]. xconsts. cbn [Z.eqb Pos.eqb].
  fold (gt2 (enc2 elems trail) id). apply get2_wellformed. exact Hf.
Qed.

(* set_extension does not rewrite two-byte (or any non-0xBEDE) blocks: it refuses, whatever the arguments *)
Theorem set_extension_refuses_other_profiles h e id data :
  h_ext h = Some e -> x_profile e <> EXT_ONE_BYTE -> set_extension h id data = Err EInvalidHeader.
Proof.
  intros He Hp. unfold set_extension.
  destruct ((id =? 0) || (id >=? S_ID_MAX)); [reflexivity|].
  destruct ((len data >? S_LEN_MAX) || (len data =? 0)); [reflexivity|].
  rewrite He. xconsts. assert (E : x_profile e =? 48862 = false) by (apply Z.eqb_neq; exact Hp). rewrite E. reflexivity.
Qed.

Example twobyte_example :
  get_extension (mkHdr false 96 1 2 3 [] (Some (mkExt 4096 (enc2 [(1%nat, 200, [7; 8; 9]); (0%nat, 5, []); (2%nat, 200, [1])] 3%nat)))) 200 = Ok (Some [7; 8; 9]) /\
  get_extension (mkHdr false 96 1 2 3 [] (Some (mkExt 4096 (enc2 [(1%nat, 200, [7; 8; 9]); (0%nat, 5, []); (2%nat, 200, [1])] 3%nat)))) 5 = Ok (Some []) /\
  get_extension (mkHdr false 96 1 2 3 [] (Some (mkExt 4096 (enc2 [(1%nat, 200, [7; 8; 9]); (0%nat, 5, []); (2%nat, 200, [1])] 3%nat)))) 6 = Ok None.
Proof. repeat split; vm_compute; reflexivity. Qed.
