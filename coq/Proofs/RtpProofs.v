(* C15 proofs, part 1: RTP header / packet codec (Model/Rtp.v). *)
From Coq Require Import ZArith List Bool Lia.
From RV Require Import Lib.Wrap.
From RV Require Import Gen.Consts.
From RV Require Import Gen.RtpConsts.
From RV Require Import Model.RtpLib.
From RV Require Import Model.Rtp.
Import ListNotations.
Open Scope Z_scope.

Ltac consts :=
  unfold P_HDR_MIN, P_VERSION_SHIFT, P_PAD_MASK, P_EXT_MASK, P_CC_MASK, P_MARKER_MASK, P_PT_MASK,
         P_CSRC_SIZE, P_EXT_HDR, P_EXT_WORD, W_VERSION_SHIFT, W_PAD_BIT, W_EXT_BIT, W_CC_MASK,
         W_PT_MASK, W_MARKER_BIT, W_EXT_WORD, MAX_CSRC, EXT_ALIGN, E_HDR_FIXED, E_CSRC_SIZE,
         E_EXT_HDR, RTP_VERSION in *.

(* ------------------------------------------------------------------ first two bytes *)
Definition b0_check (cc : Z) : bool :=
  forallb (fun p => forallb (fun x =>
    let b0 := write_b0 p x cc in
    (Z.shiftr b0 P_VERSION_SHIFT =? RTP_VERSION) && Bool.eqb (flag b0 P_PAD_MASK) p &&
    Bool.eqb (flag b0 P_EXT_MASK) x && (Z.land b0 P_CC_MASK =? cc) &&
    (b0 =? 2 * 64 + b2z p * 32 + b2z x * 16 + cc)) [true; false]) [true; false].

Lemma b0_fields p x cc :
  0 <= cc <= MAX_CSRC ->
  let b0 := write_b0 p x cc in
  Z.shiftr b0 P_VERSION_SHIFT = RTP_VERSION /\ flag b0 P_PAD_MASK = p /\ flag b0 P_EXT_MASK = x /\
  Z.land b0 P_CC_MASK = cc /\ b0 = 2 * 64 + b2z p * 32 + b2z x * 16 + cc.
Proof.
  intros Hcc. assert (H : b0_check cc = true).
  { apply (range_forall 16 b0_check); [vm_compute; reflexivity|]. unfold MAX_CSRC in Hcc. lia. }
  unfold b0_check in H. rewrite !forallb_forall in H.
  specialize (H p ltac:(destruct p; cbn; auto)). rewrite forallb_forall in H.
  specialize (H x ltac:(destruct x; cbn; auto)). cbv zeta in H.
  rewrite !andb_true_iff in H. destruct H as [[[[H1 H2] H3] H4] H5].
  apply Z.eqb_eq in H1, H4, H5. apply eqb_prop in H2, H3. cbv zeta. auto.
Qed.

Definition b1_check (pt : Z) : bool :=
  forallb (fun m =>
    let b1 := write_b1 m pt in
    Bool.eqb (flag b1 P_MARKER_MASK) m && (Z.land b1 P_PT_MASK =? pt) && (b1 =? b2z m * 128 + pt))
  [true; false].

Lemma b1_fields m pt :
  0 <= pt < 128 ->
  let b1 := write_b1 m pt in
  flag b1 P_MARKER_MASK = m /\ Z.land b1 P_PT_MASK = pt /\ b1 = b2z m * 128 + pt.
Proof.
  intros Hpt. assert (H : b1_check pt = true).
  { apply (range_forall 128 b1_check); [vm_compute; reflexivity|]. lia. }
  unfold b1_check in H. rewrite forallb_forall in H.
  specialize (H m ltac:(destruct m; cbn; auto)). cbv zeta in H.
  rewrite !andb_true_iff in H. destruct H as [[H1 H2] H3].
  apply Z.eqb_eq in H2, H3. apply eqb_prop in H1. cbv zeta. auto.
Qed.

Lemma land_ones_range b n : 0 <= n -> 0 <= Z.land b (Z.ones n) < 2 ^ n.
Proof. intros Hn. rewrite Z.land_ones by exact Hn. apply Z.mod_pos_bound. apply Z.pow_pos_nonneg; lia. Qed.

Lemma cc_range b : 0 <= Z.land b P_CC_MASK <= MAX_CSRC.
Proof. consts. change 15 with (Z.ones 4) at 1 2. pose proof (land_ones_range b 4 ltac:(lia)). change (2 ^ 4) with 16 in *. lia. Qed.
Lemma pt_range b : 0 <= Z.land b P_PT_MASK < 128.
Proof. consts. change 127 with (Z.ones 7). pose proof (land_ones_range b 7 ltac:(lia)). change (2 ^ 7) with 128 in *. lia. Qed.

(* ------------------------------------------------------------------ lengths *)
Definition has_ext (h : header) : bool := match h_ext h with Some _ => true | None => false end.

Lemma len_write_header h pad : len (write_header h pad) = header_len h.
Proof.
  unfold write_header, header_len. rewrite !len_cons, !len_app, len_be16, !len_be32, len_flat_be32.
  destruct (h_ext h) as [e|]; consts.
  - rewrite !len_app, !len_be16. lia.
  - rewrite len_nil. lia.
Qed.

Lemma marshal_len p bs : 0 <= p_padlen p -> marshal_packet p = Ok bs -> len bs = packet_len p.
Proof.
  intros Hp. unfold marshal_packet, packet_len. destruct (validate (p_hdr p)); cbn [bind]; try discriminate.
  intros H. apply Ok_inj in H. rewrite <- H. rewrite !len_app, len_write_header.
  destruct (p_padlen p =? 0) eqn:E; cbn [negb].
  - apply Z.eqb_eq in E. rewrite len_nil. lia.
  - rewrite len_repeat. lia.
Qed.

(* ------------------------------------------------------------------ validate *)
Definition encodable (h : header) : Prop :=
  len (h_csrcs h) <= MAX_CSRC /\
  match h_ext h with Some e => len (x_data e) mod EXT_ALIGN = 0 | None => True end.

Lemma validate_ok h : validate h = Ok tt <-> encodable h.
Proof.
  unfold validate, encodable. destruct (len (h_csrcs h) >? MAX_CSRC) eqn:E.
  - apply Z.gtb_lt in E. split; [discriminate|]. intros [H _]. lia.
  - assert (len (h_csrcs h) <= MAX_CSRC) by (rewrite Z.gtb_ltb in E; apply Z.ltb_ge in E; exact E).
    destruct (h_ext h) as [e|]; [|tauto].
    destruct (len (x_data e) mod EXT_ALIGN =? 0) eqn:E2; cbn [negb].
    + apply Z.eqb_eq in E2. tauto.
    + apply Z.eqb_neq in E2. split; [discriminate|tauto].
Qed.

Lemma validate_cases h : validate h = Ok tt \/ validate h = Err EInvalidHeader.
Proof.
  unfold validate. destruct (len (h_csrcs h) >? MAX_CSRC); auto.
  destruct (h_ext h); auto. destruct (negb _); auto.
Qed.

Lemma marshal_no_panic p : marshal_packet p <> Panic.
Proof. unfold marshal_packet. destruct (validate_cases (p_hdr p)) as [-> | ->]; cbn [bind]; discriminate. Qed.

Lemma marshal_ok_iff p : (exists bs, marshal_packet p = Ok bs) <-> encodable (p_hdr p).
Proof.
  rewrite <- validate_ok. unfold marshal_packet.
  destruct (validate_cases (p_hdr p)) as [-> | ->]; cbn [bind]; split; intros H; eauto; try discriminate.
  destruct H; discriminate.
Qed.

(* ------------------------------------------------------------------ parse (write h) *)
Definition ext_fits (h : header) : Prop :=
  match h_ext h with Some e => len (x_data e) / W_EXT_WORD < 65536 | None => True end.

Lemma parse_header_write h pad rest :
  wf_header h -> encodable h -> h_pt h < 128 -> ext_fits h ->
  parse_header (write_header h pad ++ rest) = Ok (h, pad, rest).
Proof.
  intros (Hpt & Hseq & Hts & Hssrc & Hcs & Hext) (Hcc & Hal) Hpt7 Hfit.
  unfold parse_header.
  assert (Hlen : len (write_header h pad ++ rest) <? P_HDR_MIN = false).
  { apply Z.ltb_ge. rewrite len_app, len_write_header. unfold header_len.
    pose proof (len_nonneg rest). pose proof (len_nonneg (h_csrcs h)).
    destruct (h_ext h) as [e|]; [pose proof (len_nonneg (x_data e))|]; consts; lia. }
  rewrite Hlen. unfold write_header. cbn [app get_u8 bind].
  pose proof (len_nonneg (h_csrcs h)) as Hn.
  destruct (b0_fields pad (has_ext h) (len (h_csrcs h)) ltac:(lia)) as (V & FP & FX & FC & _).
  destruct (b1_fields (h_marker h) (h_pt h) ltac:(unfold byte in Hpt; lia)) as (FM & FT & _).
  fold (has_ext h). rewrite V, Z.eqb_refl. cbn [negb]. rewrite FP, FX, FC, FM, FT.
  rewrite <- !app_assoc.
  rewrite get_u16_be16 by exact Hseq. cbn [bind].
  rewrite get_u32_be32 by exact Hts. cbn [bind].
  rewrite get_u32_be32 by exact Hssrc. cbn [bind].
  assert (Hc : len (flat_map be32 (h_csrcs h) ++
                    (match h_ext h with
                     | Some e => be16 (x_profile e) ++ be16 (cast_u16 (len (x_data e) / W_EXT_WORD)) ++ x_data e
                     | None => []
                     end ++ rest)) <? len (h_csrcs h) * P_CSRC_SIZE = false).
  { apply Z.ltb_ge. rewrite len_app, len_flat_be32. consts.
    match goal with |- _ <= _ + len ?x => pose proof (len_nonneg x) end. lia. }
  rewrite Hc. unfold len at 1. rewrite Nat2Z.id.
  rewrite get_u32s_flat by exact Hcs. cbn [bind].
  unfold has_ext, ext_fits in *. destruct h as [mk pt sq ts ss cs [e|]]; cbn [h_ext h_marker h_pt h_seq h_ts h_ssrc h_csrcs] in *.
  - destruct Hext as [Hprof Hdat].
    assert (Hl4 : len ((be16 (x_profile e) ++ be16 (cast_u16 (len (x_data e) / W_EXT_WORD)) ++ x_data e) ++ rest) <? P_EXT_HDR = false).
    { apply Z.ltb_ge. rewrite !len_app, !len_be16. pose proof (len_nonneg (x_data e)). pose proof (len_nonneg rest). consts. lia. }
    rewrite Hl4. rewrite <- !app_assoc.
    rewrite get_u16_be16 by exact Hprof. cbn [bind].
    pose proof (len_nonneg (x_data e)) as Hdn.
    assert (Hw : cast_u16 (len (x_data e) / W_EXT_WORD) = len (x_data e) / W_EXT_WORD).
    { unfold cast_u16. apply wrapu_small. consts. split; [apply Z.div_pos; lia|]. change (2 ^ 16) with 65536. exact Hfit. }
    rewrite Hw. rewrite get_u16_be16
      by (unfold u16; consts; split; [apply Z.div_pos; lia|exact Hfit]).
    cbn [bind].
    assert (Hel : len (x_data e) / W_EXT_WORD * P_EXT_WORD = len (x_data e)).
    { consts. Z.div_mod_to_equations. lia. }
    rewrite Hel.
    assert (Hl5 : len (x_data e ++ rest) <? len (x_data e) = false).
    { apply Z.ltb_ge. rewrite len_app. pose proof (len_nonneg rest). lia. }
    rewrite Hl5, copy_to_bytes_app. cbn [bind]. destruct e; reflexivity.
  - cbn [app]. reflexivity.
Qed.

Lemma slice_ok l a b : 0 <= a <= b -> b <= len l -> slice l a b = Ok (take (b - a) (drop a l)).
Proof.
  intros H1 H2. unfold slice. destruct ((0 <=? a) && (a <=? b) && (b <=? len l)) eqn:S; [reflexivity|].
  exfalso. rewrite !andb_false_iff, !Z.leb_gt in S. lia.
Qed.
Lemma slice_all l : slice l 0 (len l) = Ok l.
Proof.
  pose proof (len_nonneg l). rewrite slice_ok by lia.
  rewrite drop_0, Z.sub_0_r, take_all by lia. reflexivity.
Qed.

Theorem parse_marshal p bs :
  wf_packet p -> representable p -> marshal_packet p = Ok bs -> parse_packet bs = Ok p.
Proof.
  intros (Hh & Hpay & Hpad) (Hpt & Hfit) Hm.
  assert (Henc : encodable (p_hdr p)) by (apply marshal_ok_iff; eauto).
  unfold marshal_packet in Hm. apply validate_ok in Henc. rewrite Henc in Hm. cbn [bind] in Hm.
  apply validate_ok in Henc. apply Ok_inj in Hm. subst bs.
  unfold parse_packet. rewrite parse_header_write by assumption. cbn [bind].
  destruct p as [h pay pl]; cbn [p_hdr p_payload p_padlen] in *.
  destruct (pl =? 0) eqn:E; cbn [negb].
  - apply Z.eqb_eq in E. subst pl. rewrite app_nil_r, slice_all. reflexivity.
  - apply Z.eqb_neq in E. unfold byte in Hpad.
    destruct (Z.to_nat pl) as [|n] eqn:En; [lia|].
    rewrite last_opt_app by (cbn; discriminate). rewrite last_repeat.
    assert (Hl : len (pay ++ repeat pl (S n)) = len pay + pl) by (rewrite len_app, len_repeat; lia).
    rewrite Hl. pose proof (len_nonneg pay).
    destruct (pl >? len pay + pl) eqn:G; [apply Z.gtb_lt in G; lia|].
    unfold checked_sub. destruct (pl <=? len pay + pl) eqn:G2; [|apply Z.leb_gt in G2; lia].
    cbn [bind]. replace (len pay + pl - pl) with (len pay) by lia.
    rewrite slice_ok by lia. cbn [bind]. rewrite drop_0, Z.sub_0_r, take_app_exact. reflexivity.
Qed.

(* ------------------------------------------------------------------ wire format = RFC 3550 5.1 *)
Theorem marshal_rfc3550 p bs :
  wf_packet p -> representable p -> marshal_packet p = Ok bs -> bs = rfc3550_bytes p.
Proof.
  intros (Hh & Hpay & Hpad) (Hpt & Hfit) Hm.
  assert (Henc : encodable (p_hdr p)) by (apply marshal_ok_iff; eauto).
  unfold marshal_packet in Hm. apply validate_ok in Henc. rewrite Henc in Hm. cbn [bind] in Hm.
  apply validate_ok in Henc. apply Ok_inj in Hm. subst bs.
  destruct Henc as [Hcc Hal]. destruct Hh as (Hptb & _).
  unfold rfc3550_bytes, write_header.
  pose proof (len_nonneg (h_csrcs (p_hdr p))) as Hn.
  destruct (b0_fields (negb (p_padlen p =? 0)) (has_ext (p_hdr p)) (len (h_csrcs (p_hdr p))) ltac:(lia)) as (_ & _ & _ & _ & B0).
  destruct (b1_fields (h_marker (p_hdr p)) (h_pt (p_hdr p)) ltac:(unfold byte in Hptb; lia)) as (_ & _ & B1).
  fold (has_ext (p_hdr p)). rewrite B0, B1. cbn [app]. f_equal. f_equal.
  rewrite <- !app_assoc. do 4 f_equal.
  assert (Hpd : (if negb (p_padlen p =? 0) then repeat (p_padlen p) (Z.to_nat (p_padlen p)) else []) =
                repeat (p_padlen p) (Z.to_nat (p_padlen p))).
  { destruct (p_padlen p =? 0) eqn:E; cbn [negb]; [|reflexivity]. apply Z.eqb_eq in E. rewrite E. reflexivity. }
  rewrite Hpd. destruct (h_ext (p_hdr p)) as [e|] eqn:Ee; [|reflexivity].
  rewrite <- !app_assoc. do 2 f_equal.
  assert (Hw : cast_u16 (len (x_data e) / W_EXT_WORD) = len (x_data e) / 4).
  { unfold cast_u16. apply wrapu_small. pose proof (len_nonneg (x_data e)). consts.
    split; [apply Z.div_pos; lia|]. change (2 ^ 16) with 65536. exact Hfit. }
  rewrite Hw. reflexivity.
Qed.

(* ------------------------------------------------------------------ parse is total; its results are well-formed *)
Definition parsed_ok (raw : list Z) (h : header) (rest : list Z) : Prop :=
  len rest <= len raw /\
  (bytes raw -> wf_header h /\ encodable h /\ h_pt h < 128 /\ ext_fits h /\ bytes rest).

Lemma parse_header_spec raw :
  match parse_header raw with
  | Panic => False
  | Err _ => True
  | Ok (h, _, rest) => parsed_ok raw h rest
  end.
Proof.
  unfold parse_header. destruct (len raw <? P_HDR_MIN) eqn:E0; [exact I|].
  apply Z.ltb_ge in E0.
  destruct raw as [|b0 [|b1 [|s1 [|s2 [|t1 [|t2 [|t3 [|t4 [|c1 [|c2 [|c3 [|c4 r]]]]]]]]]]]];
    rewrite ?len_cons, ?len_nil in E0; consts; try lia.
  cbn [get_u8 get_u16 get_u32 bind].
  destruct (negb (Z.shiftr b0 6 =? 2)); [exact I|].
  fold P_CC_MASK P_PT_MASK. pose proof (cc_range b0) as Hcc. pose proof (pt_range b1) as Hptr.
  set (cc := Z.land b0 P_CC_MASK) in *. set (pt := Z.land b1 P_PT_MASK) in *.
  destruct (len r <? cc * 4) eqn:E1; [exact I|]. apply Z.ltb_ge in E1.
  destruct (get_u32s_ok (Z.to_nat cc) r ltac:(lia)) as (xs & pre & r1 & Hg & Hr & Hlp & Hlx & Hbx).
  rewrite Hg. cbn [bind].
  assert (Hcs : len xs = cc) by (unfold len; rewrite Hlx; lia).
  assert (Hbase : bytes (b0 :: b1 :: s1 :: s2 :: t1 :: t2 :: t3 :: t4 :: c1 :: c2 :: c3 :: c4 :: r) ->
                  byte pt /\ u16 (u16_of s1 s2) /\ u32 (u32_of t1 t2 t3 t4) /\ u32 (u32_of c1 c2 c3 c4) /\
                  Forall u32 xs /\ bytes r1).
  { intros Hb. repeat (apply bytes_cons in Hb as [? Hb]). rewrite Hr in Hb. apply bytes_app in Hb as [Hb1 Hb2].
    split; [unfold byte; lia|]. split; [apply u16_of_range; assumption|].
    split; [apply u32_of_range; assumption|]. split; [apply u32_of_range; assumption|].
    split; [apply Hbx; exact Hb1|exact Hb2]. }
  assert (Hr1 : len r1 = len r - 4 * cc).
  { rewrite Hr, len_app. lia. }
  destruct (flag b0 16).
  - destruct (len r1 <? 4) eqn:E2; [exact I|]. apply Z.ltb_ge in E2.
    destruct (get_u16_ok r1 ltac:(lia)) as (p1 & p2 & r2 & -> & ->). cbn [bind].
    rewrite !len_cons in E2.
    destruct (get_u16_ok r2 ltac:(lia)) as (w1 & w2 & r3 & -> & ->). cbn [bind].
    destruct (len r3 <? u16_of w1 w2 * 4) eqn:E3; [exact I|]. apply Z.ltb_ge in E3.
    unfold copy_to_bytes. destruct (u16_of w1 w2 * 4 <=? len r3) eqn:E4; [|apply Z.leb_gt in E4; lia].
    cbn [bind]. unfold parsed_ok. rewrite !len_cons in *. split.
    + pose proof (len_drop_le r3 (u16_of w1 w2 * 4)). lia.
    + intros Hb. destruct (Hbase Hb) as (B1 & B2 & B3 & B4 & B5 & B6).
      repeat (apply bytes_cons in B6 as [? B6]).
      assert (Hw : u16 (u16_of w1 w2)) by (apply u16_of_range; assumption).
      assert (Hw0 : 0 <= u16_of w1 w2 * 4 <= len r3) by (unfold u16 in Hw; lia).
      unfold wf_header, encodable, ext_fits, wf_ext.
      cbn [h_pt h_seq h_ts h_ssrc h_csrcs h_ext x_profile x_data].
      rewrite len_take by exact Hw0. consts.
      assert (Hp : u16 (u16_of p1 p2)) by (apply u16_of_range; assumption).
      unfold u16, u32, byte in *.
      repeat split; try assumption; try lia.
      * apply bytes_take; exact B6.
      * apply Z_mod_mult.
      * rewrite Z_div_mult by lia. lia.
      * apply bytes_drop; exact B6.
  - unfold parsed_ok. rewrite !len_cons. split; [lia|].
    intros Hb. destruct (Hbase Hb) as (B1 & B2 & B3 & B4 & B5 & B6).
    unfold wf_header, encodable, ext_fits. cbn [h_pt h_seq h_ts h_ssrc h_csrcs h_ext]. consts.
    unfold u16, u32, byte in *. repeat split; try assumption; lia.
Qed.

Theorem parse_header_total raw : parse_header raw <> Panic.
Proof. pose proof (parse_header_spec raw) as H. destruct (parse_header raw) as [[[? ?] ?]| |]; [discriminate|discriminate|destruct H]. Qed.

Lemma parse_packet_spec raw :
  bytes raw ->
  match parse_packet raw with
  | Panic => False
  | Err _ => True
  | Ok p => len (p_payload p) + p_padlen p <= len raw /\
            wf_packet p /\ representable p /\ encodable (p_hdr p)
  end.
Proof.
  intros Hbr. unfold parse_packet. pose proof (parse_header_spec raw) as H.
  destruct (parse_header raw) as [[[h pad] buf]| |]; cbn [bind]; [|exact I|exact H].
  destruct H as [Hl Hb]. pose proof (len_nonneg buf) as Hn.
  destruct (Hb Hbr) as (W & En & Pt & Fit & Bb).
  destruct pad.
  - destruct (last_opt buf) as [pl|] eqn:EL; [|exact I].
    assert (Hpl : byte pl). { apply last_opt_In in EL. unfold bytes in Bb. rewrite Forall_forall in Bb. auto. }
    unfold byte in Hpl.
    destruct (pl >? len buf) eqn:G; [exact I|]. rewrite Z.gtb_ltb in G. apply Z.ltb_ge in G.
    unfold checked_sub. destruct (pl <=? len buf) eqn:G2; [|apply Z.leb_gt in G2; lia]. cbn [bind].
    rewrite slice_ok by lia. cbn [bind p_payload p_padlen p_hdr]. rewrite drop_0, Z.sub_0_r. rewrite len_take by lia. split; [lia|].
    unfold wf_packet, representable, byte. cbn [p_payload p_padlen p_hdr].
    repeat split; try assumption; try apply W; try apply En; try lia. apply bytes_take; exact Bb.
  - rewrite slice_all. cbn [bind p_payload p_padlen p_hdr]. split; [lia|].
    unfold wf_packet, representable, byte. cbn [p_payload p_padlen p_hdr].
    repeat split; try assumption; try apply W; try apply En; lia.
Qed.

Theorem parse_packet_total raw : bytes raw -> parse_packet raw <> Panic.
Proof.
  intros Hb. pose proof (parse_packet_spec raw Hb) as H.
  destruct (parse_packet raw); [discriminate|discriminate|destruct H].
Qed.

(* a parsed packet re-serialises, and the re-serialisation parses to the same logical packet *)
Theorem parse_marshal_parse raw p :
  bytes raw -> parse_packet raw = Ok p ->
  exists bs, marshal_packet p = Ok bs /\ parse_packet bs = Ok p /\ bs = rfc3550_bytes p.
Proof.
  intros Hb Hp. pose proof (parse_packet_spec raw Hb) as H. rewrite Hp in H.
  destruct H as (_ & W & R & E). apply marshal_ok_iff in E as [bs Hm].
  exists bs. split; [exact Hm|]. split; [apply parse_marshal; assumption|apply marshal_rfc3550; assumption].
Qed.

(* marshal is injective on well-formed representable packets (consequence of the round trip) *)
Theorem marshal_injective p q bs :
  wf_packet p -> representable p -> wf_packet q -> representable q ->
  marshal_packet p = Ok bs -> marshal_packet q = Ok bs -> p = q.
Proof.
  intros Wp Rp Wq Rq Hp Hq.
  pose proof (parse_marshal p bs Wp Rp Hp) as H1. pose proof (parse_marshal q bs Wq Rq Hq) as H2.
  congruence.
Qed.

(* the premises are satisfiable: 15 CSRCs, one-byte extension, payload and 255 bytes of padding *)
Definition example_packet : packet :=
  mkPkt (mkHdr true 127 65535 4294967295 305419896 (repeat 4294967295 15)
               (Some (mkExt 48862 [16; 170; 0; 0])))
        [1; 2; 3] 255.
Example example_packet_roundtrip :
  exists bs, marshal_packet example_packet = Ok bs /\ parse_packet bs = Ok example_packet /\ len bs = 12 + 60 + 8 + 3 + 255.
Proof. eexists. split; [vm_compute; reflexivity|]. split; vm_compute; reflexivity. Qed.
