(* C01 liveness over abstract Ticks: after an arbitrary faulty history, every Tick (T3 expiry on an
   eventually reliable network) makes the sender's acknowledged point advance by at least one chunk,
   so after at most |stream| Ticks nothing is outstanding, the cumulative ack is the last TSN and
   every message has been delivered. *)
From Coq Require Import ZArith List Bool Lia.
From RV Require Import Lib.Wrap Gen.Consts Gen.Serial Gen.Sctp Model.SctpRecv Model.SctpLive
     Proofs.SctpRecvBase Proofs.SctpRecvRefine Proofs.SctpSendSpec Proofs.SctpTheorems.
Import ListNotations.
Open Scope Z_scope.

(* serial comparison inside the window: chunk j is "after" the cumulative point of k consumed chunks
   exactly when j >= k *)
Lemma cast_i32_small x : -2147483648 <= x < 2147483648 -> cast_i32 x = x.
Proof.
  intros H. unfold cast_i32, wraps. change (2 ^ (32 - 1)) with 2147483648. change (2 ^ 32) with 4294967296.
  rewrite Z.mod_small by lia. lia.
Qed.
Lemma cast_i32_high x : 2147483648 <= x < 4294967296 -> cast_i32 x = x - 4294967296.
Proof.
  intros H. unfold cast_i32, wraps. change (2 ^ (32 - 1)) with 2147483648. change (2 ^ 32) with 4294967296.
  replace (x + 2147483648) with ((x - 2147483648) + 1 * 4294967296) by lia.
  rewrite Z.mod_add by lia. rewrite Z.mod_small by lia. lia.
Qed.

Lemma tsn_gt_window t0 j k :
  0 <= j < 2147483647 -> 0 <= k <= 2147483648 ->
  tsn_gt (w32 (t0 + j)) (w32 (t0 - 1 + k)) = (k <=? j).
Proof.
  intros Hj Hk. unfold tsn_gt. fold (w32 (w32 (t0 + j) - w32 (t0 - 1 + k))).
  rewrite w32_sub_w32. replace (t0 + j - (t0 - 1 + k)) with (j - k + 1) by lia.
  destruct (Z.leb_spec k j) as [H|H].
  - rewrite w32_small by lia. rewrite cast_i32_small by lia. apply Z.gtb_lt. lia.
  - destruct (Z.eq_dec (j - k + 1) 0) as [E|E].
    + rewrite E. reflexivity.
    + rewrite w32_neg by lia. rewrite cast_i32_high by lia.
      destruct (Z.gtb_spec (j - k + 1 + 4294967296 - 4294967296) 0); [lia|reflexivity].
Qed.

Lemma filter_skipn_idx {A} (p : A -> bool) (l : list A) : forall k,
  (forall j x, nth_error l j = Some x -> p x = (k <=? j)%nat) -> filter p l = skipn k l.
Proof.
  induction l as [|y l IH]; intros k H; [destruct k; reflexivity|].
  cbn [filter]. rewrite (H 0%nat y eq_refl). destruct k as [|k]; cbn [Nat.leb skipn].
  - f_equal. apply (IH 0%nat). intros j x Hj. rewrite (H (S j) x Hj). reflexivity.
  - apply IH. intros j x Hj. rewrite (H (S j) x Hj). reflexivity.
Qed.

Lemma nth_error_skipn {A} (l : list A) a j : nth_error (skipn a l) j = nth_error l (a + j).
Proof. revert l. induction a as [|a IH]; intros [|y l]; cbn; try reflexivity; [destruct j; reflexivity|apply IH]. Qed.

Section Live.
Variables (t0 : Z) (ps : list pchunk) (a0 : app).
Hypothesis Hlen : Z.of_nat (length ps) < 2147483648.
Hypothesis Hdata : Forall not_dcep ps.
Let cs := stamp t0 ps.

Lemma ack_drop_skipn a k :
  (a <= k)%nat -> (k <= length ps)%nat ->
  ack_drop (w32 (t0 - 1 + Z.of_nat k)) (skipn a cs) = skipn k cs.
Proof.
  intros Hak Hk. unfold ack_drop. rewrite (filter_skipn_idx _ (skipn a cs) (k - a)).
  - rewrite skipn_add. f_equal. lia.
  - intros j x Hj. rewrite nth_error_skipn in Hj.
    pose proof (nth_cs t0 ps _ _ Hj) as (T & _ & L). rewrite T, tsn_gt_window by lia.
    destruct (Z.leb_spec (Z.of_nat k) (Z.of_nat (a + j))); destruct (Nat.leb_spec (k - a) j); try reflexivity; lia.
Qed.

(* the loop invariant: the receiver has consumed k chunks, the sender still holds chunks a.. with
   a <= k (its knowledge may lag behind: stale or lost SACKs) *)
Definition J (a k : nat) (sys : list chunk * rstate) : Prop :=
  Inv t0 ps a0 k (snd sys) /\ fst sys = skipn a cs /\ (a <= k)%nat.

Lemma skipn_genuine a burst : Forall (ok_input t0 ps) (map IData (firstn burst (skipn a cs))).
Proof.
  apply Forall_forall. intros i Hi. apply in_map_iff in Hi. destruct Hi as (c & <- & Hc).
  apply In_firstn, In_skipn in Hc. exact Hc.
Qed.

Lemma tick_J a k burst sys :
  J a k sys -> (1 <= burst)%nat ->
  exists a' k', J a' k' (fst (tick burst sys)) /\ (a <= a')%nat /\ ((a < length ps)%nat -> (a < a')%nat).
Proof.
  intros (HI & Hout & Hak) Hb. destruct sys as [out st]. cbn [fst snd] in *. subst out. unfold tick.
  destruct (run_inv t0 ps a0 Hlen Hdata (map IData (firstn burst (skipn a cs))) k st HI (skipn_genuine a burst))
    as (m & (HI' & _ & _) & Hseen).
  destruct (run st (map IData (firstn burst (skipn a cs)))) as [st' evs]. cbn [fst snd] in *.
  pose proof HI' as [Hk' _ Hcum' Hrq' Hnx' _].
  exists (k + m)%nat, (k + m)%nat. split; [|split].
  - split; [exact HI'|]. split; [|lia]. cbn [fst]. rewrite Hcum'. apply ack_drop_skipn; lia.
  - lia.
  - intros Ha.
    assert (Hlt : (a < length cs)%nat) by (unfold cs; rewrite stamp_length; exact Ha).
    destruct (nth_error cs a) as [c|] eqn:Ec; [|apply nth_error_None in Ec; lia].
    assert (Hin : In (IData c) (map IData (firstn burst (skipn a cs)))).
    { apply in_map. rewrite (nth_error_skipn_cons _ _ _ Ec). destruct burst; [lia|]. left. reflexivity. }
    destruct (Hseen c Hin) as [(j & Hj & Hn)|Hq].
    + assert (j = a) by (eapply (idx_unique t0 ps Hlen); [exact Hn|exact Ec|reflexivity]). lia.
    + (* still queued: impossible, it would be the very next expected chunk *)
      exfalso. unfold rq_ok in Hrq'. rewrite Forall_forall in Hrq'. destruct (Hrq' c Hq) as (j & Hj & Hn).
      assert (j = a) by (eapply (idx_unique t0 ps Hlen); [exact Hn|exact Ec|reflexivity]). subst j.
      assert (a = (k + m)%nat) by lia. subst a.
      pose proof (nth_cs t0 ps _ _ Ec) as (Tc & _ & _). apply (rq_find_in c) in Hq. rewrite Tc in Hq. contradiction.
Qed.

Lemma ticks_J n : forall a k burst sys,
  J a k sys -> (1 <= burst)%nat ->
  exists a' k', J a' k' (fst (ticks n burst sys)) /\ (Nat.min (length ps) (a + n) <= a')%nat.
Proof.
  induction n as [|n IH]; intros a k burst sys HJ Hb.
  - exists a, k. cbn [ticks fst]. split; [exact HJ|]. destruct HJ as ([Hk _ _ _ _ _] & _ & Hak). lia.
  - cbn [ticks]. destruct (tick_J a k burst sys HJ Hb) as (a1 & k1 & HJ1 & Hle & Hlt).
    destruct (tick burst sys) as [sys1 e1]. cbn [fst] in HJ1.
    destruct (IH a1 k1 burst sys1 HJ1 Hb) as (a2 & k2 & HJ2 & Hmin).
    destruct (ticks n burst sys1) as [sys2 e2]. cbn [fst] in *.
    exists a2, k2. split; [exact HJ2|].
    destruct (Nat.lt_ge_cases a (length ps)) as [H|H]; [specialize (Hlt H); lia|lia].
Qed.

(* the receiver side of the Ticks is a run over genuine arrivals *)
Lemma ticks_as_run n : forall burst out st,
  (forall c, In c out -> In c cs) ->
  exists inputs, Forall (ok_input t0 ps) inputs /\
                 snd (fst (ticks n burst (out, st))) = fst (run st inputs) /\
                 snd (ticks n burst (out, st)) = snd (run st inputs).
Proof.
  induction n as [|n IH]; intros burst out st Hsub.
  - exists []. repeat split; constructor.
  - cbn [ticks]. unfold tick.
    assert (Hg : Forall (ok_input t0 ps) (map IData (firstn burst out))).
    { apply Forall_forall. intros i Hi. apply in_map_iff in Hi. destruct Hi as (c & <- & Hc). apply Hsub. eapply In_firstn. exact Hc. }
    destruct (run st (map IData (firstn burst out))) as [st' evs] eqn:Er.
    assert (Hsub' : forall c, In c (ack_drop (r_cum st') out) -> In c cs).
    { intros c Hc. unfold ack_drop in Hc. apply filter_In in Hc. apply Hsub, Hc. }
    destruct (IH burst _ st' Hsub') as (inputs & Hgi & Hst & Hev).
    destruct (ticks n burst (ack_drop (r_cum st') out, st')) as [sys2 e2]. cbn [fst snd] in *.
    exists (map IData (firstn burst out) ++ inputs). split; [apply Forall_app; split; assumption|].
    rewrite run_app, Er. cbn [fst snd]. split; [exact Hst|rewrite Hev; reflexivity].
Qed.

End Live.

(* Liveness over Ticks.  h0: ANY history of the established association made of arrivals drawn from
   the stream (loss, duplication, reordering) and setup chunks; the sender still holds the chunks
   beyond some cumulative ack the receiver really reported at an earlier point h0' of that history
   (so stale knowledge and lost SACKs are covered).  After |stream| Ticks -- T3 expiry, re-send of
   the first `burst` >= 1 outstanding chunks, reliable delivery, SACK back -- nothing is
   outstanding, the receiver acknowledges the last TSN and every channel it has holds exactly the
   submitted sequence. *)
Theorem live_after_ticks sc W t0 rc h0' h0'' burst :
  let cs := chunks sc W t0 in
  let est := est_r (w32 (t0 - 1)) rc in
  Z.of_nat (length cs) < 2147483648 ->
  wf_workload sc W ->
  Forall (genuine_input cs) (h0' ++ h0'') ->
  (1 <= burst)%nat ->
  let out0 := ack_drop (r_cum (fst (run est h0'))) cs in
  let r0 := run est (h0' ++ h0'') in
  let r := ticks (length cs) burst (out0, fst r0) in
  fst (fst r) = [] /\
  r_cum (snd (fst r)) = w32 (t0 - 1 + Z.of_nat (length cs)) /\
  forall c, find_chan c rc <> None -> log_of c (snd r0 ++ snd r) = submitted W c.
Proof.
  intros cs est Hlen Hwf Hh Hb out0 r0 r. subst r r0.
  set (ps := pchunks sc [] W) in *. assert (Hcs : cs = stamp t0 ps) by reflexivity.
  assert (Hlen' : Z.of_nat (length ps) < 2147483648) by (rewrite <- (stamp_length t0 ps), <- Hcs; exact Hlen).
  pose proof (pchunks_not_dcep sc W [] Hwf) as Hdata. fold ps in Hdata.
  assert (Hok : forall l, Forall (genuine_input cs) l -> Forall (ok_input t0 ps) l).
  { intros l Hl. eapply Forall_impl; [|exact Hl]. intros i Hi. exact Hi. }
  apply Forall_app in Hh. destruct Hh as [Hh1 Hh2].
  (* the receiver after h0' and after h0' ++ h0'' *)
  destruct (run_inv t0 ps (mkApp rc []) Hlen' Hdata h0' 0%nat est (inv_init t0 ps rc) (Hok _ Hh1)) as (a & (HIa & _ & _) & _).
  cbn [Nat.add] in HIa. pose proof HIa as [Hka _ Hcuma _ _ _].
  rewrite run_app. cbn [fst snd].
  destruct (run est h0') as [sta ea] eqn:Era. cbn [fst snd] in *.
  destruct (run_inv t0 ps (mkApp rc []) Hlen' Hdata h0'' a sta HIa (Hok _ Hh2)) as (m & (HIk & _ & _) & _).
  destruct (run sta h0'') as [stk ek] eqn:Erk. cbn [fst snd] in *.
  assert (Hout0 : out0 = skipn a cs).
  { unfold out0. rewrite Hcuma, Hcs. rewrite <- (ack_drop_skipn t0 ps Hlen' 0 a) by lia. reflexivity. }
  assert (HJ0 : J t0 ps (mkApp rc []) a (a + m) (out0, stk)).
  { split; [exact HIk|]. split; [cbn [fst]; rewrite Hout0, Hcs; reflexivity|lia]. }
  assert (Hn : length cs = length ps) by (rewrite Hcs; apply stamp_length).
  rewrite Hn.
  destruct (ticks_J t0 ps (mkApp rc []) Hlen' Hdata (length ps) a (a + m) burst (out0, stk) HJ0 Hb) as (a' & k' & (HI' & Hout' & Hak') & Hmin).
  assert (Hsub : forall c, In c out0 -> In c (stamp t0 ps)).
  { intros c Hc. rewrite Hout0, Hcs in Hc. eapply In_skipn. exact Hc. }
  destruct (ticks_as_run t0 ps (length ps) burst out0 stk Hsub) as (inputs & Hgi & Hst & Hev).
  destruct (ticks (length ps) burst (out0, stk)) as [[outF stF] eF]. cbn [fst snd] in *.
  pose proof HI' as [Hk' _ Hcum' _ _ _].
  assert (a' = length ps) by lia. assert (k' = length ps) by lia. subst a' k'.
  split; [rewrite Hout'; apply skipn_all2; unfold cs in *; rewrite stamp_length; lia|].
  split; [exact Hcum'|].
  intros c Hc.
  (* the log: everything is one run over genuine inputs that ends with the whole stream consumed *)
  assert (Hall : Forall (ok_input t0 ps) (h0' ++ h0'' ++ inputs)).
  { apply Forall_app. split; [apply Hok; exact Hh1|]. apply Forall_app. split; [apply Hok; exact Hh2|exact Hgi]. }
  destruct (run_inv t0 ps (mkApp rc []) Hlen' Hdata (h0' ++ h0'' ++ inputs) 0%nat est (inv_init t0 ps rc) Hall) as (mt & (HIt & HLt & _) & _).
  cbn [Nat.add] in HIt.
  rewrite !run_app, Era in HIt, HLt. cbn [fst snd] in HIt, HLt. rewrite Erk in HIt, HLt. cbn [fst snd] in HIt, HLt.
  rewrite <- Hst in HIt. rewrite <- Hev in HLt.
  assert (mt = length ps).
  { destruct HIt as [Hkt _ Hcumt _ _ _]. rewrite Hcum' in Hcumt. apply w32_inj_window in Hcumt; lia. }
  subst mt. rewrite <- app_assoc. rewrite (HLt c). unfold ideal, seg. cbn [firstn skipn proc_all fst]. rewrite firstn_all.
  exact (all_logged sc W [] (mkApp rc []) c Hwf (ssn_rel_init sc rc) Hc).
Qed.
