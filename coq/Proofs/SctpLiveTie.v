(* Tie of the abstract Tick of Model/SctpLive.v to C13's model of the sender (Model/SctpSendSm.v,
   imported, not modified): what a Tick assumes of the sender is what handle_timeout (T3) followed
   by transmit do there, and what a SACK's cumulative TSN removes from the sent queue.
     * T3 + transmit re-send the first RETRANSMIT_BURST records that are not acknowledged, in the
       order of the sent queue, whatever the congestion window says;
     * the cumulative removal of apply_sack keeps exactly the records whose TSN is serially
       greater than the cumulative ack (tsn_gt, the comparison Model/SctpLive.v's ack_drop uses).
   Not covered here (so the liveness claim stays partial): the late-SACK filter in front of the
   cumulative removal, the RTO calculator / real timers that make T3 fire, the peer's SACK
   generation timing. *)
From Coq Require Import ZArith List Bool Lia.
From RV Require Import Lib.Wrap Gen.Consts Gen.Serial Gen.SctpSendGen Model.SctpSend Model.SctpSendSm.
From RV Require Proofs.SctpSendSm.
Import ListNotations.
Open Scope Z_scope.

Definition unacked (sent : list rec) : list rec := filter (fun r => negb (r_acked r)) sent.

(* t3_mark flags the first (RETRANSMIT_BURST - n) unacknowledged records, keeping what they encode *)
Lemma t3_mark_flags sent : forall n r,
  0 <= n ->
  In r (firstn (Z.to_nat (RETRANSMIT_BURST - n)) (unacked sent)) ->
  exists r', In r' (t3_mark sent n) /\ r_needs r' = true /\ rec_wire r' = rec_wire r.
Proof.
  induction sent as [|x t IH]; intros n r Hn Hin; cbn [unacked filter] in Hin.
  - rewrite firstn_nil in Hin. contradiction.
  - cbn [t3_mark]. destruct (negb (r_acked x)) eqn:Ea.
    + destruct (Z.ltb_spec n RETRANSMIT_BURST) as [Hlt|Hge].
      * replace (Z.to_nat (RETRANSMIT_BURST - n)) with (S (Z.to_nat (RETRANSMIT_BURST - (n + 1)))) in Hin by lia.
        cbn [firstn] in Hin. destruct Hin as [<-|Hin].
        -- eexists. split; [left; reflexivity|]. split; reflexivity.
        -- destruct (IH (n + 1) r ltac:(lia) Hin) as (r' & H1 & H2 & H3). exists r'. split; [right; exact H1|split; assumption].
      * replace (Z.to_nat (RETRANSMIT_BURST - n)) with 0%nat in Hin by lia. contradiction.
    + destruct (IH n r Hn Hin) as (r' & H1 & H2 & H3). exists r'. split; [right; exact H1|split; assumption].
Qed.

(* the retransmit phase of transmit emits every flagged record *)
Lemma retx_phase_emits sent : forall flight r,
  In r sent -> r_needs r = true -> In (rec_wire r) (snd (retx_phase sent flight)).
Proof.
  induction sent as [|x t IH]; intros flight r Hin Hneeds; [contradiction|]. cbn [retx_phase].
  destruct (r_needs x) eqn:Ex.
  - specialize (IH (if r_inflight x then flight else flight + rec_len x) r).
    destruct (retx_phase t _) as [[t' fl] out]. cbn [snd] in *.
    destruct Hin as [<-|Hin]; [left; reflexivity|right; apply IH; assumption].
  - specialize (IH flight r). destruct (retx_phase t flight) as [[t' fl] out]. cbn [snd] in *.
    destruct Hin as [<-|Hin]; [congruence|apply IH; assumption].
Qed.

Lemma transmit_chunks_emits c s r :
  In r (s_sent s) -> r_needs r = true -> In (rec_wire r) (snd (transmit_chunks c s)).
Proof.
  intros Hin Hn. unfold transmit_chunks.
  pose proof (retx_phase_emits (s_sent s) (s_flight s) r Hin Hn) as H.
  destruct (retx_phase (s_sent s) (s_flight s)) as [[sent1 flight1] rtx]. cbn [snd] in H.
  destruct (drain _ _ _) as [batch outq']. destruct (assign _ _ _ _) as [[[tsn' sent2] flight2] fresh].
  cbn [snd]. apply in_or_app. right. apply in_or_app. left. exact H.
Qed.

Lemma In_firstn_unacked n sent r : In r (firstn n (unacked sent)) -> In r sent /\ negb (r_acked r) = true.
Proof.
  intros H. assert (Hu : In r (unacked sent)).
  { revert H. generalize (unacked sent). induction n as [|n IH]; intros [|y l] H; cbn in H; try contradiction.
    destruct H as [->|H]; [left; reflexivity|right; apply IH; exact H]. }
  unfold unacked in Hu. apply filter_In in Hu. exact Hu.
Qed.

(* T3 expiry followed by transmit re-sends the first RETRANSMIT_BURST unacknowledged records *)
Theorem t3_transmit_resends c s r :
  In r (firstn (Z.to_nat RETRANSMIT_BURST) (unacked (s_sent s))) ->
  In (rec_wire r) (snd (transmit_chunks c (handle_t3 s))).
Proof.
  intros Hin. unfold handle_t3.
  assert (Hex : existsb (fun r => negb (r_acked r)) (s_sent s) = true).
  { apply existsb_exists. exists r. apply In_firstn_unacked in Hin. exact Hin. }
  rewrite Hex.
  destruct (t3_mark_flags (s_sent s) 0 r ltac:(lia)) as (r' & H1 & H2 & H3); [rewrite Z.sub_0_r; exact Hin|].
  rewrite <- H3. apply transmit_chunks_emits; [|exact H2].
  (* the setters after set_sent do not touch the sent queue *)
  exact H1.
Qed.

(* the cumulative removal of a SACK keeps exactly the serially later TSNs *)
Theorem cum_kept_is_tsn_gt cum sent :
  map r_tsn (cum_kept cum sent) = filter (fun t => tsn_gt t cum) (map r_tsn sent).
Proof.
  unfold cum_kept, cum_covered. induction sent as [|r t IH]; [reflexivity|]. cbn [filter map].
  rewrite Proofs.SctpSendSm.tsn_gt_i32_sub.
  destruct (Z.leb_spec (i32_sub (r_tsn r) cum) 0) as [H|H]; destruct (Z.gtb_spec (i32_sub (r_tsn r) cum) 0) as [G|G]; try lia; cbn [negb map]; rewrite IH; reflexivity.
Qed.
