(* Basic lemmas for the SCTP receive model: wrap arithmetic on TSNs, association lists, channel
   lookup/update, the data-relevant projection of the application state (app_sim) and the fact
   that process_data_payload respects it. *)
From Coq Require Import ZArith List Bool Lia.
From RV Require Import Lib.Wrap Gen.Consts Gen.Serial Gen.Sctp Model.SctpRecv.
Import ListNotations.
Open Scope Z_scope.

(* ------------------------------------------------------------------ wrap arithmetic *)
Lemma w32_mod x : w32 x = x mod 4294967296.
Proof. reflexivity. Qed.
Lemma w16_mod x : w16 x = x mod 65536.
Proof. reflexivity. Qed.

Lemma w32_sub_w32 a b : w32 (w32 a - w32 b) = w32 (a - b).
Proof. rewrite !w32_mod. rewrite Zminus_mod_idemp_l, Zminus_mod_idemp_r. reflexivity. Qed.

Lemma w32_add_w32_l a b : w32 (w32 a + b) = w32 (a + b).
Proof. rewrite !w32_mod. rewrite Zplus_mod_idemp_l. reflexivity. Qed.

Lemma w32_small x : 0 <= x < 4294967296 -> w32 x = x.
Proof. intros H. rewrite w32_mod. apply Z.mod_small; lia. Qed.

Lemma w32_neg x : - 4294967296 <= x < 0 -> w32 x = x + 4294967296.
Proof.
  intros H. rewrite w32_mod.
  replace x with ((x + 4294967296) + (-1) * 4294967296) at 1 by lia.
  rewrite Z.mod_add by lia. apply Z.mod_small; lia.
Qed.

(* equal residues inside a window narrower than 2^32 are equal *)
Lemma w32_inj_window a b : w32 a = w32 b -> - 4294967296 < a - b < 4294967296 -> a = b.
Proof.
  intros H Hw. rewrite !w32_mod in H.
  assert (Hd : (a - b) mod 4294967296 = 0).
  { rewrite Zminus_mod, H, Z.sub_diag. reflexivity. }
  apply Z.mod_divide in Hd; [|lia]. destruct Hd as [q Hq]. nia.
Qed.

(* the duplicate test of handle_data on the distance between a chunk index j and the number k of
   chunks consumed so far, both inside a window of fewer than 2^31 chunks *)
Lemma dup_behind j k : 0 <= j < k -> k < 2147483648 -> data_is_dup (w32 (j - k + 1)) = true.
Proof.
  intros Hj Hk. unfold data_is_dup.
  destruct (Z.eq_dec (j - k + 1) 0) as [E|E].
  - rewrite E. reflexivity.
  - rewrite w32_neg by lia. apply orb_true_iff. right. apply Z.gtb_lt. lia.
Qed.

Lemma dup_ahead j k : 0 <= k <= j -> j < 2147483648 -> data_is_dup (w32 (j - k + 1)) = false.
Proof.
  intros Hj Hk. unfold data_is_dup. rewrite w32_small by lia.
  apply orb_false_iff. split; [apply Z.eqb_neq; lia|].
  destruct (Z.gtb_spec (j - k + 1) 2147483648); [lia|reflexivity].
Qed.

Lemma fast_iff j k : 0 <= k <= j -> j < 2147483648 -> (w32 (j - k + 1) =? data_fast_diff) = (j =? k).
Proof.
  intros Hj Hk. rewrite w32_small by lia. unfold data_fast_diff.
  destruct (Z.eqb_spec j k); [apply Z.eqb_eq; lia|apply Z.eqb_neq; lia].
Qed.

(* ------------------------------------------------------------------ lists *)
Lemma nth_error_skipn_cons {A} (l : list A) k x :
  nth_error l k = Some x -> skipn k l = x :: skipn (S k) l.
Proof.
  revert l. induction k as [|k IH]; intros [|y l] H; cbn in *; try discriminate.
  - injection H as ->. reflexivity.
  - apply IH. exact H.
Qed.

Lemma firstn_S_skipn {A} (l : list A) k x m :
  nth_error l k = Some x -> firstn (S m) (skipn k l) = x :: firstn m (skipn (S k) l).
Proof. intros H. rewrite (nth_error_skipn_cons _ _ _ H). reflexivity. Qed.

Lemma firstn_add_skipn {A} (l : list A) k m : firstn (k + m) l = firstn k l ++ firstn m (skipn k l).
Proof.
  revert l. induction k as [|k IH]; intros l; cbn; [reflexivity|].
  destruct l as [|x l]; cbn.
  - rewrite firstn_nil. reflexivity.
  - rewrite IH. reflexivity.
Qed.

Lemma firstn_one_skipn {A} (l : list A) k x : nth_error l k = Some x -> firstn (S k) l = firstn k l ++ [x].
Proof.
  intros H. replace (S k) with (k + 1)%nat by lia. rewrite firstn_add_skipn.
  rewrite (nth_error_skipn_cons _ _ _ H). reflexivity.
Qed.

Lemma In_firstn {A} (x : A) n l : In x (firstn n l) -> In x l.
Proof.
  revert l. induction n as [|n IH]; intros [|y l] H; cbn in *; try contradiction.
  destruct H as [->|H]; [left; reflexivity|right; apply IH; exact H].
Qed.
Lemma In_skipn {A} (x : A) n l : In x (skipn n l) -> In x l.
Proof.
  revert l. induction n as [|n IH]; intros [|y l] H; cbn in *; try contradiction; try assumption.
  right. apply IH. exact H.
Qed.

Lemma skipn_add {A} (l : list A) k m : skipn m (skipn k l) = skipn (k + m) l.
Proof.
  revert l. induction k as [|k IH]; intros l; cbn; [reflexivity|].
  destruct l as [|x l]; [destruct m; reflexivity|apply IH].
Qed.

Lemma filter_len_le {A} (f : A -> bool) l : (length (filter f l) <= length l)%nat.
Proof. induction l as [|x l IH]; cbn; [lia|]. destruct (f x); cbn; lia. Qed.

(* ------------------------------------------------------------------ stamp *)
Lemma stamp_length t ps : length (stamp t ps) = length ps.
Proof. revert t. induction ps as [|p ps IH]; intros t; cbn; [reflexivity|]. rewrite IH. reflexivity. Qed.

Lemma stamp_map t ps : map c_p (stamp t ps) = ps.
Proof. revert t. induction ps as [|p ps IH]; intros t; cbn; [reflexivity|]. rewrite IH. reflexivity. Qed.

Lemma stamp_nth t ps j c :
  nth_error (stamp t ps) j = Some c -> c_tsn c = w32 (t + Z.of_nat j) /\ nth_error ps j = Some (c_p c).
Proof.
  revert t j. induction ps as [|p ps IH]; intros t j H.
  - destruct j; discriminate.
  - destruct j as [|j]; cbn in H.
    + injection H as <-. cbn. split; [f_equal; lia|reflexivity].
    + apply IH in H. destruct H as [H1 H2]. split; [rewrite H1; f_equal; lia|exact H2].
Qed.

Lemma map_firstn_skipn {A B} (f : A -> B) l k m : map f (firstn m (skipn k l)) = firstn m (skipn k (map f l)).
Proof. rewrite skipn_map, firstn_map. reflexivity. Qed.

(* ------------------------------------------------------------------ channel lookup / update *)
Lemma find_chan_id sid cs c : find_chan sid cs = Some c -> ch_id c = sid.
Proof.
  induction cs as [|x cs IH]; cbn; [discriminate|].
  destruct (Z.eqb_spec (ch_id x) sid) as [E|E]; [intros H; injection H as <-; exact E|exact IH].
Qed.

Lemma find_upd_chan x sid f cs :
  (forall c, ch_id (f c) = ch_id c) ->
  find_chan x (upd_chan sid f cs) = if x =? sid then option_map f (find_chan sid cs) else find_chan x cs.
Proof.
  intros Hf. induction cs as [|c cs IH]; cbn.
  - destruct (x =? sid); reflexivity.
  - destruct (Z.eqb_spec (ch_id c) sid) as [E|E]; cbn.
    + rewrite Hf. destruct (Z.eqb_spec x sid) as [E2|E2].
      * subst x. rewrite E. rewrite Z.eqb_refl. reflexivity.
      * destruct (Z.eqb_spec (ch_id c) x) as [E3|E3]; [congruence|reflexivity].
    + rewrite IH. destruct (Z.eqb_spec x sid) as [E2|E2].
      * subst x. destruct (Z.eqb_spec (ch_id c) sid); [contradiction|reflexivity].
      * reflexivity.
Qed.

Lemma with_buf_id b c : ch_id (with_buf b c) = ch_id c. Proof. reflexivity. Qed.
Lemma with_state_id s c : ch_id (with_state s c) = ch_id c. Proof. reflexivity. Qed.

(* ------------------------------------------------------------------ stream map, ssn map *)
Lemma sm_find_remove_other x sid m : x <> sid -> sm_find x (sm_remove sid m) = sm_find x m.
Proof.
  intros Hne. induction m as [|[k s] m IH]; cbn; [reflexivity|].
  destruct (Z.eqb_spec k sid) as [E|E]; cbn.
  - subst k. destruct (Z.eqb_spec sid x); [congruence|exact IH].
  - destruct (k =? x); [reflexivity|exact IH].
Qed.

Lemma sm_get_set_same sid s m : sm_get sid (sm_set sid s m) = s.
Proof. unfold sm_get, sm_set. cbn. rewrite Z.eqb_refl. reflexivity. Qed.

Lemma sm_get_set_other x sid s m : x <> sid -> sm_get x (sm_set sid s m) = sm_get x m.
Proof.
  intros Hne. unfold sm_get, sm_set. cbn.
  destruct (Z.eqb_spec sid x); [congruence|]. rewrite sm_find_remove_other by exact Hne. reflexivity.
Qed.

Lemma ssn_get_set_same sid v m : ssn_get sid (ssn_set sid v m) = v.
Proof. unfold ssn_set. cbn. rewrite Z.eqb_refl. reflexivity. Qed.
Lemma ssn_get_set_other x sid v m : x <> sid -> ssn_get x (ssn_set sid v m) = ssn_get x m.
Proof. intros Hne. unfold ssn_set. cbn. destruct (Z.eqb_spec sid x); [congruence|reflexivity]. Qed.

(* ------------------------------------------------------------------ log_of *)
Lemma log_of_app sid a b : log_of sid (a ++ b) = log_of sid a ++ log_of sid b.
Proof. unfold log_of. apply flat_map_app. Qed.

Lemma log_of_deliver sid x ms : log_of sid (deliver x ms) = if x =? sid then ms else [].
Proof.
  unfold log_of, deliver. induction ms as [|m ms IH]; cbn.
  - destruct (x =? sid); reflexivity.
  - rewrite IH. destruct (x =? sid); reflexivity.
Qed.

(* ------------------------------------------------------------------ the data-relevant projection *)
Definition chan_sim (c c' : chan) : Prop :=
  ch_id c = ch_id c' /\ ch_ordered c = ch_ordered c' /\ ch_buf c = ch_buf c'.
Definition app_sim (a a' : app) : Prop :=
  Forall2 chan_sim (a_chans a) (a_chans a') /\ a_streams a = a_streams a'.

Lemma chan_sim_refl c : chan_sim c c.
Proof. repeat split. Qed.
Lemma chans_sim_refl cs : Forall2 chan_sim cs cs.
Proof. induction cs; constructor; [apply chan_sim_refl|assumption]. Qed.
Lemma app_sim_refl a : app_sim a a.
Proof. split; [apply chans_sim_refl|reflexivity]. Qed.

Lemma chans_sim_trans a b c : Forall2 chan_sim a b -> Forall2 chan_sim b c -> Forall2 chan_sim a c.
Proof.
  intros H. revert c. induction H as [|x y a b Hxy _ IH]; intros c Hc; inversion Hc; subst; constructor.
  - destruct Hxy as (?&?&?). match goal with H : chan_sim y _ |- _ => destruct H as (?&?&?) end.
    repeat split; congruence.
  - apply IH. assumption.
Qed.
Lemma app_sim_trans a b c : app_sim a b -> app_sim b c -> app_sim a c.
Proof. intros [H1 H2] [H3 H4]. split; [eapply chans_sim_trans; eassumption|congruence]. Qed.

Lemma find_chan_sim sid cs cs' :
  Forall2 chan_sim cs cs' ->
  match find_chan sid cs, find_chan sid cs' with
  | Some c, Some c' => chan_sim c c'
  | None, None => True
  | _, _ => False
  end.
Proof.
  induction 1 as [|x y cs cs' Hxy _ IH]; cbn; [exact I|].
  destruct Hxy as (Hid & Ho & Hb). rewrite <- Hid.
  destruct (ch_id x =? sid); [repeat split; assumption|exact IH].
Qed.

Lemma upd_chan_sim sid f cs cs' :
  (forall c c', chan_sim c c' -> chan_sim (f c) (f c')) ->
  Forall2 chan_sim cs cs' -> Forall2 chan_sim (upd_chan sid f cs) (upd_chan sid f cs').
Proof.
  intros Hf. induction 1 as [|x y cs cs' Hxy Hrest IH]; cbn; [constructor|].
  pose proof Hxy as (Hid & _ & _). rewrite <- Hid.
  destruct (ch_id x =? sid); constructor; auto.
Qed.

Lemma with_buf_sim b c c' : chan_sim c c' -> chan_sim (with_buf b c) (with_buf b c').
Proof. intros (?&?&?). repeat split; assumption. Qed.

Lemma with_state_sim_l s c : chan_sim (with_state s c) c.
Proof. repeat split. Qed.

(* process_data_payload (data part) only reads id, ordered flag, buffer and the stream table *)
Lemma proc_data_sim a a' p :
  app_sim a a' ->
  app_sim (fst (proc_data a p)) (fst (proc_data a' p)) /\ snd (proc_data a p) = snd (proc_data a' p).
Proof.
  intros [Hc Hs]. unfold proc_data.
  pose proof (find_chan_sim (p_sid p) _ _ Hc) as Hf.
  destruct (find_chan (p_sid p) (a_chans a)) as [ch|], (find_chan (p_sid p) (a_chans a')) as [ch'|]; try contradiction.
  2:{ split; [split; assumption|reflexivity]. }
  destruct Hf as (Hid & Ho & Hb). rewrite <- Hs, <- Ho, <- Hb.
  destruct (rx_flag_e (p_flags p)).
  - destruct (rx_flag_u (p_flags p) || negb (ch_ordered ch)).
    + cbn. split; [|reflexivity]. split; cbn; [|reflexivity]. apply upd_chan_sim; [apply with_buf_sim|exact Hc].
    + destruct (enqueue _ _ _) as [ready s']. cbn. split; [|reflexivity].
      split; cbn; [|reflexivity]. apply upd_chan_sim; [apply with_buf_sim|exact Hc].
  - cbn. split; [|reflexivity]. split; cbn; [|reflexivity]. apply upd_chan_sim; [apply with_buf_sim|exact Hc].
Qed.

(* in-order processing of a list of DATA chunks (none of them DCEP) *)
Fixpoint proc_all (a : app) (ps : list pchunk) : app * list event :=
  match ps with
  | [] => (a, [])
  | p :: r => let '(a1, e1) := proc_data a p in let '(a2, e2) := proc_all a1 r in (a2, e1 ++ e2)
  end.

Lemma proc_all_cons a p r :
  proc_all a (p :: r) =
  (fst (proc_all (fst (proc_data a p)) r), snd (proc_data a p) ++ snd (proc_all (fst (proc_data a p)) r)).
Proof. cbn. destruct (proc_data a p) as [a1 e1]. cbn. destruct (proc_all a1 r); reflexivity. Qed.

Lemma proc_all_app a l1 l2 :
  proc_all a (l1 ++ l2) =
  (fst (proc_all (fst (proc_all a l1)) l2), snd (proc_all a l1) ++ snd (proc_all (fst (proc_all a l1)) l2)).
Proof.
  revert a. induction l1 as [|p l1 IH]; intros a; cbn.
  - destruct (proc_all a l2); reflexivity.
  - destruct (proc_data a p) as [a1 e1]. rewrite IH.
    destruct (proc_all a1 l1) as [a2 e2]. cbn. destruct (proc_all a2 l2) as [a3 e3]. cbn.
    rewrite app_assoc. reflexivity.
Qed.

Lemma proc_all_sim a a' ps :
  app_sim a a' ->
  app_sim (fst (proc_all a ps)) (fst (proc_all a' ps)) /\ snd (proc_all a ps) = snd (proc_all a' ps).
Proof.
  revert a a'. induction ps as [|p ps IH]; intros a a' H; cbn; [split; [exact H|reflexivity]|].
  destruct (proc_data_sim a a' p H) as [H1 H2].
  destruct (proc_data a p) as [a1 e1], (proc_data a' p) as [a1' e1']. cbn in H1, H2. subst e1'.
  destruct (IH a1 a1' H1) as [H3 H4].
  destruct (proc_all a1 ps) as [a2 e2], (proc_all a1' ps) as [a2' e2']. cbn in *. subst e2'.
  split; [exact H3|reflexivity].
Qed.

(* proc on a non-DCEP chunk is proc_data; a batch of such chunks never aborts *)
Definition not_dcep (p : pchunk) : Prop := p_ppid p <> DATA_CHANNEL_PPID_DCEP.

Lemma proc_not_dcep a p : not_dcep p -> proc a p = (proc_data a p, true).
Proof. intros H. unfold proc. destruct (Z.eqb_spec (p_ppid p) DATA_CHANNEL_PPID_DCEP); [contradiction|reflexivity]. Qed.

Lemma proc_batch_data a b :
  Forall not_dcep (map c_p b) ->
  proc_batch a b = (fst (proc_all a (map c_p b)), snd (proc_all a (map c_p b)), Z.of_nat (length b), true).
Proof.
  revert a. induction b as [|c b IH]; intros a H; cbn; [reflexivity|].
  inversion H; subst. rewrite proc_not_dcep by assumption.
  destruct (proc_data a (c_p c)) as [a1 e1]. rewrite IH by assumption.
  destruct (proc_all a1 (map c_p b)) as [a2 e2]. cbn. repeat f_equal. lia.
Qed.

(* ------------------------------------------------------------------ RE-CONFIG leaves everything but the stream table alone *)
Definition only_ctl (evs : list event) : Prop := Forall (fun e => exists t, e = TxCtl t) evs.

Lemma only_ctl_app a b : only_ctl a -> only_ctl b -> only_ctl (a ++ b).
Proof. intros Ha Hb. apply Forall_app. split; assumption. Qed.

Lemma only_ctl_log sid evs : only_ctl evs -> log_of sid evs = [].
Proof. induction 1 as [|e evs [t ->] _ IH]; [reflexivity|]. cbn. exact IH. Qed.
Lemma only_ctl_evs sid evs : only_ctl evs -> evs_of sid evs = [].
Proof. induction 1 as [|e evs [t ->] _ IH]; [reflexivity|]. cbn. exact IH. Qed.

Definition same_but_streams (st st' : rstate) : Prop :=
  r_conn st' = r_conn st /\ r_cum st' = r_cum st /\ r_rq st' = r_rq st /\ r_used st' = r_used st /\
  a_chans (r_app st') = a_chans (r_app st).

Lemma same_but_streams_refl st : same_but_streams st st.
Proof. repeat split. Qed.
Lemma same_but_streams_trans a b c : same_but_streams a b -> same_but_streams b c -> same_but_streams a c.
Proof. intros (A1&A2&A3&A4&A5) (B1&B2&B3&B4&B5). repeat split; congruence. Qed.

Lemma ssn_reset_frame st v : same_but_streams st (fst (ssn_reset st v)) /\ only_ctl (snd (ssn_reset st v)).
Proof.
  unfold ssn_reset. destruct (ssn_reset_streams v) as [[rsn ids]|]; [|split; [apply same_but_streams_refl|constructor]].
  destruct (_ && _); cbn [fst snd].
  - split; [apply same_but_streams_refl|]. constructor; [eexists; reflexivity|constructor].
  - split; [repeat split|]. constructor; [eexists; reflexivity|constructor].
Qed.

Lemma reconfig_apply_frame ps : forall st,
  same_but_streams st (fst (reconfig_apply st ps)) /\ only_ctl (snd (reconfig_apply st ps)).
Proof.
  induction ps as [|[ty v] r IH]; intros st; cbn [reconfig_apply]; [split; [apply same_but_streams_refl|constructor]|].
  assert (H1 : same_but_streams st (fst (if ty =? RECONFIG_PARAM_OUTGOING_SSN_RESET then ssn_reset st v else (st, []))) /\
               only_ctl (snd (if ty =? RECONFIG_PARAM_OUTGOING_SSN_RESET then ssn_reset st v else (st, [])))).
  { destruct (ty =? RECONFIG_PARAM_OUTGOING_SSN_RESET); [apply ssn_reset_frame|split; [apply same_but_streams_refl|constructor]]. }
  destruct (if ty =? RECONFIG_PARAM_OUTGOING_SSN_RESET then ssn_reset st v else (st, [])) as [st1 e1]. cbn [fst snd] in H1.
  destruct (IH st1) as [H2 H3]. destruct (reconfig_apply st1 r) as [st2 e2]. cbn [fst snd] in *.
  split; [eapply same_but_streams_trans; [apply H1|exact H2]|apply only_ctl_app; [apply H1|exact H3]].
Qed.

Lemma handle_reconfig_frame st v :
  same_but_streams st (fst (handle_reconfig st v)) /\ only_ctl (snd (handle_reconfig st v)).
Proof. apply reconfig_apply_frame. Qed.
