(* Refinement of the SCTP receiver to in-order processing:

   For a TSN-stamped chunk stream cs = stamp t0 ps of fewer than 2^31 DATA chunks, an established
   receiver whose cumulative TSN is t0-1, and ANY history made of arrivals drawn from cs (any
   order, duplication, omission, no length bound) interleaved with INIT / INIT-ACK / COOKIE-ECHO /
   COOKIE-ACK chunks, the receiver has at every point consumed exactly ps[0..k) once each, in
   order, for some k: its data-relevant state is that of in-order processing of ps[0..k) and the
   messages it has logged are the messages in-order processing of ps[0..k) logs. *)
From Coq Require Import ZArith List Bool Lia.
From RV Require Import Lib.Wrap Gen.Consts Gen.Serial Gen.Sctp Model.SctpRecv Proofs.SctpRecvBase.
Import ListNotations.
Open Scope Z_scope.

Section Refine.
Variable t0 : Z.
Variable ps : list pchunk.
Variable a0 : app.
Hypothesis Hlen : Z.of_nat (length ps) < 2147483648.
Hypothesis Hdata : Forall not_dcep ps.

Let cs := stamp t0 ps.

Definition ideal (k : nat) : app := fst (proc_all a0 (firstn k ps)).
Definition seg (k m : nat) : list pchunk := firstn m (skipn k ps).

Definition rq_ok (k : nat) (q : list chunk) : Prop :=
  Forall (fun e => exists j, (k <= j)%nat /\ nth_error cs j = Some e) q.

Record Inv (k : nat) (st : rstate) : Prop := mkInv {
  inv_k : (k <= length ps)%nat;
  inv_conn : r_conn st = SctpState_Connected;
  inv_cum : r_cum st = w32 (t0 - 1 + Z.of_nat k);
  inv_rq : rq_ok k (r_rq st);
  inv_next : rq_find (w32 (t0 + Z.of_nat k)) (r_rq st) = None;
  inv_app : app_sim (r_app st) (ideal k) }.

(* chunk c has been consumed (its index is below k) or is waiting in the reorder queue *)
Definition seen (k : nat) (st : rstate) (c : chunk) : Prop :=
  (exists j, (j < k)%nat /\ nth_error cs j = Some c) \/ In c (r_rq st).

Lemma nth_cs j e :
  nth_error cs j = Some e ->
  c_tsn e = w32 (t0 + Z.of_nat j) /\ nth_error ps j = Some (c_p e) /\ (j < length ps)%nat.
Proof.
  intros H. pose proof (stamp_nth _ _ _ _ H) as [H1 H2]. repeat split; try assumption.
  apply nth_error_Some. congruence.
Qed.

Lemma idx_unique j j' e e' :
  nth_error cs j = Some e -> nth_error cs j' = Some e' -> c_tsn e = c_tsn e' -> j = j'.
Proof.
  intros H H' Ht. apply nth_cs in H. apply nth_cs in H'. destruct H as (T & _ & L), H' as (T' & _ & L').
  rewrite T, T' in Ht. apply w32_inj_window in Ht; lia.
Qed.

Lemma not_dcep_seg k m : Forall not_dcep (seg k m).
Proof.
  unfold seg. apply Forall_forall. intros p Hp. apply In_firstn, In_skipn in Hp.
  revert p Hp. apply Forall_forall. exact Hdata.
Qed.

Lemma ideal_add k m :
  ideal (k + m) = fst (proc_all (ideal k) (seg k m)) /\
  snd (proc_all a0 (firstn (k + m) ps)) = snd (proc_all a0 (firstn k ps)) ++ snd (proc_all (ideal k) (seg k m)).
Proof. unfold ideal, seg. rewrite firstn_add_skipn, proc_all_app. cbn. split; reflexivity. Qed.

Lemma seg_add k m1 m2 : seg k (m1 + m2) = seg k m1 ++ seg (k + m1) m2.
Proof. unfold seg. rewrite firstn_add_skipn, skipn_add. reflexivity. Qed.

(* ------------------------------------------------------------------ the reorder queue *)
Lemma rq_find_some t q c : rq_find t q = Some c -> In c q /\ c_tsn c = t.
Proof.
  induction q as [|x q IH]; cbn; [discriminate|].
  destruct (Z.eqb_spec (c_tsn x) t) as [E|E].
  - intros H. injection H as <-. split; [left; reflexivity|exact E].
  - intros H. apply IH in H. destruct H. split; [right; assumption|assumption].
Qed.

Lemma rq_remove_in t q c : In c (rq_remove t q) -> In c q /\ c_tsn c <> t.
Proof.
  unfold rq_remove. intros H. apply filter_In in H. destruct H as [H1 H2]. split; [exact H1|].
  apply negb_true_iff in H2. apply Z.eqb_neq. exact H2.
Qed.

Lemma rq_remove_length t q c : In c q -> c_tsn c = t -> (length (rq_remove t q) < length q)%nat.
Proof.
  intros Hin Ht. unfold rq_remove. induction q as [|x q IH]; [contradiction|]. cbn.
  destruct Hin as [->|Hin].
  - rewrite Ht, Z.eqb_refl. cbn. pose proof (filter_len_le (fun c0 => negb (c_tsn c0 =? t)) q). lia.
  - specialize (IH Hin). destruct (negb (c_tsn x =? t)); cbn; lia.
Qed.

Lemma rq_find_none_in t q c : rq_find t q = None -> In c q -> c_tsn c <> t.
Proof.
  induction q as [|x q IH]; cbn; [contradiction|].
  destruct (Z.eqb_spec (c_tsn x) t) as [E|E]; [discriminate|].
  intros H [->|Hin]; [exact E|apply IH; assumption].
Qed.

Lemma take_run_spec fuel : forall k q,
  rq_ok k q -> (length q <= fuel)%nat -> (k <= length ps)%nat ->
  exists m, (k + m <= length ps)%nat /\
            map c_p (fst (take_run fuel (w32 (t0 + Z.of_nat k)) q)) = seg k m /\
            length (fst (take_run fuel (w32 (t0 + Z.of_nat k)) q)) = m /\
            rq_ok (k + m) (snd (take_run fuel (w32 (t0 + Z.of_nat k)) q)) /\
            rq_find (w32 (t0 + Z.of_nat (k + m))) (snd (take_run fuel (w32 (t0 + Z.of_nat k)) q)) = None /\
            forall e, In e q -> In e (snd (take_run fuel (w32 (t0 + Z.of_nat k)) q)) \/
                                exists j, (j < k + m)%nat /\ nth_error cs j = Some e.
Proof.
  induction fuel as [|f IH]; intros k q Hq Hf Hk.
  - exists 0%nat. cbn. unfold seg. cbn. rewrite Nat.add_0_r.
    assert (q = []) by (destruct q; [reflexivity|cbn in Hf; lia]). subst q.
    repeat split; [lia|exact Hq|intros e []].
  - cbn. destruct (rq_find (w32 (t0 + Z.of_nat k)) q) as [c|] eqn:Ef.
    2:{ exists 0%nat. cbn. unfold seg. cbn. rewrite Nat.add_0_r.
        repeat split; [lia|exact Hq|exact Ef|intros e He; left; exact He]. }
    apply rq_find_some in Ef. destruct Ef as [Hin Ht].
    pose proof Hq as Hq'. unfold rq_ok in Hq'. rewrite Forall_forall in Hq'.
    destruct (Hq' c Hin) as (j & Hj & Hnth).
    pose proof (nth_cs _ _ Hnth) as (Tj & Pj & Lj).
    assert (j = k).
    { rewrite Tj in Ht. apply w32_inj_window in Ht; lia. }
    subst j.
    assert (Hq1 : rq_ok (S k) (rq_remove (w32 (t0 + Z.of_nat k)) q)).
    { apply Forall_forall. intros e He. apply rq_remove_in in He. destruct He as [He Hne].
      destruct (Hq' e He) as (j & Hj' & Hn'). exists j. split; [|exact Hn'].
      destruct (Nat.eq_dec j k) as [->|]; [|lia].
      rewrite Hnth in Hn'. injection Hn' as <-. rewrite Tj in Hne. contradiction. }
    pose proof (rq_remove_length _ _ _ Hin Ht) as Hl.
    assert (Hw : w32 (w32 (t0 + Z.of_nat k) + 1) = w32 (t0 + Z.of_nat (S k))).
    { rewrite w32_add_w32_l. f_equal. lia. }
    rewrite Hw.
    destruct (IH (S k) _ Hq1 ltac:(lia) ltac:(lia)) as (m & Hm & Hmap & Hlen' & Hok & Hnone & Hkeep).
    destruct (take_run f (w32 (t0 + Z.of_nat (S k))) (rq_remove (w32 (t0 + Z.of_nat k)) q)) as [b q'] eqn:Et.
    cbn [fst snd] in *. exists (S m).
    replace (k + S m)%nat with (S k + m)%nat by lia.
    split; [lia|]. split.
    { cbn [map]. unfold seg in *. rewrite (firstn_S_skipn _ _ _ _ Pj). rewrite Hmap. reflexivity. }
    split; [cbn [length]; lia|]. split; [exact Hok|]. split; [exact Hnone|].
    intros e He.
    destruct (Z.eq_dec (c_tsn e) (w32 (t0 + Z.of_nat k))) as [Ee|Ee].
    + (* e is the chunk just taken *)
      right. destruct (Hq' e He) as (j & Hj' & Hn').
      assert (j = k).
      { pose proof (nth_cs _ _ Hn') as (Tj' & _ & Lj'). rewrite Tj' in Ee. apply w32_inj_window in Ee; lia. }
      subst j. exists k. split; [lia|exact Hn'].
    + apply Hkeep. unfold rq_remove. apply filter_In. split; [exact He|].
      apply negb_true_iff. apply Z.eqb_neq. exact Ee.
Qed.

(* ------------------------------------------------------------------ one DATA arrival *)
Lemma rq_mem_false t q : rq_mem t q = false -> forall c, In c q -> c_tsn c <> t.
Proof.
  unfold rq_mem. intros H c Hin Ht. rewrite <- not_true_iff_false in H. apply H.
  apply existsb_exists. exists c. split; [exact Hin|apply Z.eqb_eq; exact Ht].
Qed.

(* the slow path of handle_data: insert unless present, drain the run that starts at cum+1 *)
Definition slow (st : rstate) (c : chunk) : rstate * list event :=
  let present := rq_mem (c_tsn c) (r_rq st) in
  let rq1 := if present then r_rq st else r_rq st ++ [c] in
  let used1 := if present then r_used st else cast_usize (r_used st + chunk_len c) in
  let '(batch, rq2) := take_run (length rq1) (w32 (r_cum st + 1)) rq1 in
  let '(a1, evs, n, _) := proc_batch (r_app st) batch in
  (mkR (r_conn st) (w32 (r_cum st + n)) rq2 a1 (cast_usize (used1 - sum_len (firstn (Z.to_nat n) batch))) (r_prsn st), evs).

Lemma rq_mem_true t q : rq_mem t q = true -> exists e, In e q /\ c_tsn e = t.
Proof.
  unfold rq_mem. intros H. apply existsb_exists in H. destruct H as (e & He & Ht).
  exists e. split; [exact He|apply Z.eqb_eq; exact Ht].
Qed.

(* what a step must establish: the invariant moves from k to k+m, the events are those of
   in-order processing of ps[k..k+m), chunks seen stay seen *)
Definition advances (k : nat) (st st' : rstate) (evs : list event) (m : nat) : Prop :=
  Inv (k + m) st' /\
  (forall sid, log_of sid evs = log_of sid (snd (proc_all (ideal k) (seg k m)))) /\
  (forall e, seen k st e -> seen (k + m) st' e).

Lemma slow_inv k st c j :
  Inv k st -> nth_error cs j = Some c -> (k <= j)%nat ->
  exists m, advances k st (fst (slow st c)) (snd (slow st c)) m /\ seen (k + m) (fst (slow st c)) c.
Proof.
  intros [Hk Hconn Hcum Hrq Hnx Happ] Hj Hge. unfold slow. cbn zeta.
  set (rq1 := if rq_mem (c_tsn c) (r_rq st) then r_rq st else r_rq st ++ [c]).
  assert (Hrq1 : rq_ok k rq1).
  { subst rq1. destruct (rq_mem (c_tsn c) (r_rq st)); [exact Hrq|].
    apply Forall_app. split; [exact Hrq|]. constructor; [|constructor]. exists j. split; assumption. }
  assert (Hsub : forall e, In e (r_rq st) -> In e rq1).
  { intros e He. subst rq1. destruct (rq_mem (c_tsn c) (r_rq st)); [exact He|apply in_or_app; left; exact He]. }
  assert (Hc1 : In c rq1).
  { subst rq1. destruct (rq_mem (c_tsn c) (r_rq st)) eqn:Em; [|apply in_or_app; right; left; reflexivity].
    apply rq_mem_true in Em. destruct Em as (e & He & Ht).
    unfold rq_ok in Hrq. rewrite Forall_forall in Hrq. destruct (Hrq e He) as (j' & _ & Hn').
    assert (j' = j) by (eapply idx_unique; eassumption). subst j'.
    rewrite Hj in Hn'. injection Hn' as <-. exact He. }
  assert (Hnext : w32 (r_cum st + 1) = w32 (t0 + Z.of_nat k)).
  { rewrite Hcum, w32_add_w32_l. f_equal. lia. }
  rewrite Hnext.
  destruct (take_run_spec (length rq1) k rq1 Hrq1 (le_n _) Hk) as (m & Hm & Hmap & Hlen' & Hok & Hnone & Hkeep).
  destruct (take_run (length rq1) (w32 (t0 + Z.of_nat k)) rq1) as [batch rq2]. cbn [fst snd] in Hmap, Hlen', Hok, Hnone, Hkeep.
  assert (Hnd : Forall not_dcep (map c_p batch)) by (rewrite Hmap; apply not_dcep_seg).
  rewrite (proc_batch_data _ _ Hnd). rewrite Hmap, Hlen'. cbn [fst snd].
  pose proof (proc_all_sim _ _ (seg k m) Happ) as [Hs1 Hs2].
  pose proof (ideal_add k m) as [Hi _].
  exists m. split; [split; [|split]|].
  - constructor; cbn [r_conn r_cum r_rq r_app].
    + exact Hm.
    + exact Hconn.
    + rewrite Hcum, w32_add_w32_l. f_equal. lia.
    + exact Hok.
    + exact Hnone.
    + rewrite Hi. exact Hs1.
  - intros sid. rewrite Hs2. reflexivity.
  - intros e [(j' & Hj' & Hn')|He].
    + left. exists j'. split; [lia|exact Hn'].
    + destruct (Hkeep e (Hsub e He)) as [H|H]; [right; exact H|left; exact H].
  - destruct (Hkeep c Hc1) as [H|H]; [right; exact H|left; exact H].
Qed.

Lemma recv_data_inv k st c :
  Inv k st -> In c cs ->
  exists m, advances k st (fst (recv_data st c)) (snd (recv_data st c)) m /\ seen (k + m) (fst (recv_data st c)) c.
Proof.
  intros HI Hin. pose proof HI as [Hk Hconn Hcum Hrq Hnx Happ].
  apply In_nth_error in Hin. destruct Hin as [j Hj].
  pose proof (nth_cs _ _ Hj) as (Tj & Pj & Lj).
  assert (Hdiff : w32 (c_tsn c - r_cum st) = w32 (Z.of_nat j - Z.of_nat k + 1)).
  { rewrite Tj, Hcum, w32_sub_w32. f_equal. lia. }
  assert (Hg : negb (SctpState_eqb (r_conn st) SctpState_Connected) = false) by (rewrite Hconn; reflexivity).
  unfold recv_data. rewrite Hg, Hdiff.
  destruct (le_lt_dec k j) as [Hge|Hlt].
  2:{ (* old or duplicate *)
    rewrite dup_behind by lia. exists 0%nat. unfold advances. rewrite Nat.add_0_r. cbn [fst snd].
    split; [split; [exact HI|split; [intros sid; reflexivity|intros e He; exact He]]|].
    left. exists j. split; [exact Hlt|exact Hj]. }
  rewrite dup_ahead by lia. rewrite fast_iff by lia.
  destruct (Z.eqb_spec (Z.of_nat j) (Z.of_nat k)) as [Ejk|Ejk]; cbn [andb].
  - assert (j = k) by lia. subst j.
    destruct (is_nil (r_rq st)) eqn:Enil.
    + (* fast path *)
      assert (Erq : r_rq st = []) by (destruct (r_rq st); [reflexivity|discriminate]).
      assert (Hnd : not_dcep (c_p c)).
      { rewrite Forall_forall in Hdata. apply Hdata. eapply nth_error_In. exact Pj. }
      rewrite (proc_not_dcep _ _ Hnd).
      pose proof (proc_data_sim _ _ (c_p c) Happ) as [Hs1 Hs2].
      destruct (proc_data (r_app st) (c_p c)) as [a1 e1] eqn:Ep. cbn [fst snd] in Hs1, Hs2 |- *.
      exists 1%nat.
      assert (Hseg : seg k 1 = [c_p c]).
      { unfold seg. rewrite (firstn_S_skipn _ _ _ _ Pj). reflexivity. }
      pose proof (ideal_add k 1) as [Hi _]. rewrite Hseg in Hi. unfold advances. rewrite Hseg.
      rewrite proc_all_cons in Hi |- *. cbn [proc_all fst snd] in Hi |- *. rewrite app_nil_r.
      split; [split; [|split]|].
      * constructor; cbn [r_conn r_cum r_rq r_app].
        -- lia.
        -- exact Hconn.
        -- rewrite Tj. f_equal. lia.
        -- rewrite Erq. constructor.
        -- rewrite Erq. reflexivity.
        -- rewrite Hi. exact Hs1.
      * intros sid. rewrite Hs2. reflexivity.
      * intros e [(j' & Hj' & Hn')|He].
        -- left. exists j'. split; [lia|exact Hn'].
        -- rewrite Erq in He. contradiction.
      * left. exists k. split; [lia|exact Hj].
    + exact (slow_inv k st c k HI Hj (le_n _)).
  - exact (slow_inv k st c j HI Hj Hge).
Qed.

(* ------------------------------------------------------------------ setup chunks in the established state *)
Lemma on_established_spec chans :
  Forall2 chan_sim (fst (on_established chans)) chans /\
  forall sid, log_of sid (snd (on_established chans)) = [].
Proof.
  induction chans as [|c r [IH1 IH2]]; cbn; [split; [constructor|reflexivity]|].
  destruct (on_established r) as [r' evs]. cbn in IH1, IH2.
  destruct (DataChannelState_eqb (ch_state c) DataChannelState_Connecting); [destruct (ch_negotiated c)|]; cbn.
  - split; [constructor; [apply with_state_sim_l|exact IH1]|exact IH2].
  - split; [constructor; [apply chan_sim_refl|exact IH1]|exact IH2].
  - split; [constructor; [apply chan_sim_refl|exact IH1]|exact IH2].
Qed.

Lemma establish_inv k st pre :
  Inv k st -> (forall sid, log_of sid pre = []) ->
  advances k st (fst (establish st pre)) (snd (establish st pre)) 0.
Proof.
  intros [Hk Hconn Hcum Hrq Hnx [Hc Hs]] Hpre. unfold establish, advances. rewrite Nat.add_0_r.
  pose proof (on_established_spec (a_chans (r_app st))) as [H1 H2].
  destruct (on_established (a_chans (r_app st))) as [chans' evs]. cbn [fst snd] in *. split; [|split].
  - constructor; cbn [r_conn r_cum r_rq r_app a_chans a_streams]; try assumption; try reflexivity.
    split; cbn [a_chans a_streams]; [eapply chans_sim_trans; eassumption|exact Hs].
  - intros sid. rewrite log_of_app, Hpre, H2. reflexivity.
  - intros e [H|H]; [left; exact H|right; exact H].
Qed.

(* inputs of the theorem: arrivals drawn from the genuine chunk stream, and any setup chunk *)
Definition ok_input (i : input) : Prop :=
  match i with
  | IData c => In c cs
  | IInit _ | IInitAck _ _ | ICookieEcho _ | ICookieAck => True
  | _ => False
  end.

Lemma advances_none k st : Inv k st -> advances k st st [] 0.
Proof.
  intros HI. unfold advances. rewrite Nat.add_0_r. split; [exact HI|].
  split; [intros sid; reflexivity|intros e He; exact He].
Qed.

Lemma step_inv k st i :
  Inv k st -> ok_input i ->
  exists m, advances k st (fst (step st i)) (snd (step st i)) m /\
            forall c, i = IData c -> seen (k + m) (fst (step st i)) c.
Proof.
  intros HI Hok. pose proof HI as [Hk Hconn Hcum Hrq Hnx Happ].
  unfold step, connected. rewrite Hconn. cbn [SctpState_eqb].
  destruct i as [c|t|t hc|valid| |n pairs|sid| |v]; cbn in Hok; try contradiction.
  - destruct (recv_data_inv k st c HI Hok) as (m & H1 & H2). exists m. split; [exact H1|].
    intros c' E. injection E as <-. exact H2.
  - exists 0%nat. split; [apply advances_none; exact HI|discriminate].
  - exists 0%nat. split; [apply advances_none; exact HI|discriminate].
  - exists 0%nat. split; [|discriminate]. destruct valid; [|apply advances_none; exact HI].
    exact (establish_inv k st [TxCtl CT_COOKIE_ACK] HI (fun _ => eq_refl)).
  - exists 0%nat. split; [|discriminate]. exact (establish_inv k st [] HI (fun _ => eq_refl)).
Qed.

Lemma run_inv h : forall k st,
  Inv k st -> Forall ok_input h ->
  exists m, advances k st (fst (run st h)) (snd (run st h)) m /\
            forall c, In (IData c) h -> seen (k + m) (fst (run st h)) c.
Proof.
  induction h as [|i h IH]; intros k st HI Hok.
  - exists 0%nat. split; [apply advances_none; exact HI|intros c []].
  - inversion Hok as [|? ? Hi Hh]; subst.
    destruct (step_inv k st i HI Hi) as (m1 & (HI1 & HL1 & HS1) & Hc1).
    cbn [run]. destruct (step st i) as [st1 e1]. cbn [fst snd] in HI1, HL1, HS1, Hc1.
    destruct (IH (k + m1)%nat st1 HI1 Hh) as (m2 & (HI2 & HL2 & HS2) & Hc2).
    destruct (run st1 h) as [st2 e2]. cbn [fst snd] in HI2, HL2, HS2, Hc2 |- *.
    exists (m1 + m2)%nat. unfold advances. rewrite !Nat.add_assoc. split; [split; [exact HI2|split]|].
    + intros sid. rewrite log_of_app, HL1, HL2.
      rewrite seg_add, proc_all_app. cbn [fst snd]. rewrite log_of_app.
      pose proof (ideal_add k m1) as [Hi1 _]. rewrite <- Hi1. reflexivity.
    + intros e He. apply HS2, HS1, He.
    + intros c [E|Hin].
      * apply HS2. apply Hc1. exact E.
      * apply Hc2. exact Hin.
Qed.

Lemma rq_find_in c q : In c q -> rq_find (c_tsn c) q <> None.
Proof.
  induction q as [|x q IH]; [contradiction|]. cbn. intros [->|Hin].
  - rewrite Z.eqb_refl. discriminate.
  - destruct (c_tsn x =? c_tsn c); [discriminate|apply IH; exact Hin].
Qed.

(* once every chunk of the stream has arrived at least once, all of them have been consumed *)
Lemma all_seen_all_consumed k st :
  Inv k st -> (forall c, In c cs -> seen k st c) -> k = length ps.
Proof.
  intros [Hk _ _ _ Hnx _] Hall.
  destruct (Nat.eq_dec k (length ps)) as [E|E]; [exact E|exfalso].
  assert (Hlt : (k < length cs)%nat) by (unfold cs; rewrite stamp_length; lia).
  destruct (nth_error cs k) as [c|] eqn:Ec; [|apply nth_error_None in Ec; lia].
  destruct (Hall c (nth_error_In _ _ Ec)) as [(j & Hj & Hn)|Hin].
  - assert (j = k) by (eapply idx_unique; [exact Hn|exact Ec|reflexivity]). lia.
  - pose proof (nth_cs _ _ Ec) as (Tc & _ & _). apply rq_find_in in Hin. rewrite Tc in Hin. contradiction.
Qed.

Lemma inv_full_queue_empty st : Inv (length ps) st -> r_rq st = [].
Proof.
  intros [_ _ _ Hrq _ _]. destruct (r_rq st) as [|e q]; [reflexivity|exfalso].
  inversion Hrq as [|? ? (j & Hj & Hn) _]; subst. apply nth_cs in Hn. lia.
Qed.

End Refine.

Lemma inv_init t0 ps rc : Inv t0 ps (mkApp rc []) 0 (est_r (w32 (t0 - 1)) rc).
Proof.
  constructor; cbn [est_r r_conn r_cum r_rq r_app].
  - lia.
  - reflexivity.
  - f_equal. lia.
  - constructor.
  - reflexivity.
  - apply app_sim_refl.
Qed.

(* ------------------------------------------------------------------ the handshake itself *)
(* while only setup chunks have been handled: nothing queued, no stream state, same channels *)
Definition quiet (rc : list chan) (st : rstate) : Prop :=
  r_rq st = [] /\ a_streams (r_app st) = [] /\ Forall2 chan_sim (a_chans (r_app st)) rc.

Lemma step_setup_quiet rc st i :
  quiet rc st -> is_setup i ->
  quiet rc (fst (step st i)) /\ forall sid, log_of sid (snd (step st i)) = [].
Proof.
  intros (Hq & Hs & Hc) Hi. unfold step.
  destruct (SctpState_eqb (r_conn st) SctpState_Closed); [split; [repeat split; assumption|reflexivity]|].
  assert (Hest : forall pre, (forall sid, log_of sid pre = []) ->
                 quiet rc (fst (establish st pre)) /\ forall sid, log_of sid (snd (establish st pre)) = []).
  { intros pre Hpre. unfold establish.
    pose proof (on_established_spec (a_chans (r_app st))) as [H1 H2].
    destruct (on_established (a_chans (r_app st))) as [chans' evs]. cbn [fst snd] in *. split.
    - repeat split; cbn [r_rq r_app a_streams a_chans]; try assumption. eapply chans_sim_trans; eassumption.
    - intros sid. rewrite log_of_app, Hpre, H2. reflexivity. }
  destruct i as [c|t|t hc|valid| |n pairs|sid| |v]; cbn in Hi; try contradiction.
  - destruct (connected st); cbn [fst snd]; (split; [repeat split; assumption|reflexivity]).
  - destruct (connected st); cbn [fst snd]; (split; [repeat split; assumption|]).
    + reflexivity.
    + intros sid. destruct hc; reflexivity.
  - destruct valid; [apply Hest; reflexivity|split; [repeat split; assumption|reflexivity]].
  - apply Hest. reflexivity.
Qed.

Lemma run_setup_quiet rc h : forall st,
  quiet rc st -> Forall is_setup h ->
  quiet rc (fst (run st h)) /\ forall sid, log_of sid (snd (run st h)) = [].
Proof.
  induction h as [|i h IH]; intros st Hq Hh; [split; [exact Hq|reflexivity]|].
  inversion Hh; subst. cbn [run].
  destruct (step_setup_quiet rc st i Hq ltac:(assumption)) as [Hq1 Hl1].
  destruct (step st i) as [st1 e1]. cbn [fst snd] in Hq1, Hl1.
  destruct (IH st1 Hq1 ltac:(assumption)) as [Hq2 Hl2].
  destruct (run st1 h) as [st2 e2]. cbn [fst snd] in *. split; [exact Hq2|].
  intros sid. rewrite log_of_app, Hl1, Hl2. reflexivity.
Qed.

Lemma run_app st h1 h2 :
  run st (h1 ++ h2) = (fst (run (fst (run st h1)) h2), snd (run st h1) ++ snd (run (fst (run st h1)) h2)).
Proof.
  revert st. induction h1 as [|i h1 IH]; intros st; cbn [run List.app].
  - cbn [fst snd List.app]. destruct (run st h2); reflexivity.
  - destruct (step st i) as [st1 e1]. rewrite IH.
    destruct (run st1 h1) as [st2 e2]. cbn [fst snd]. destruct (run st2 h2) as [st3 e3]. cbn [fst snd].
    rewrite app_assoc. reflexivity.
Qed.

(* The refinement theorem: whatever arrives, the established receiver has logged exactly what
   in-order processing of a prefix ps[0..k) of the chunk stream logs. *)
Theorem recv_refines t0 ps rc h :
  Z.of_nat (length ps) < 2147483648 ->
  Forall not_dcep ps ->
  Forall (ok_input t0 ps) h ->
  exists k, (k <= length ps)%nat /\
            r_cum (fst (run (est_r (w32 (t0 - 1)) rc) h)) = w32 (t0 - 1 + Z.of_nat k) /\
            (forall sid, log_of sid (snd (run (est_r (w32 (t0 - 1)) rc) h)) =
                         log_of sid (snd (proc_all (mkApp rc []) (firstn k ps)))) /\
            ((forall c, In c (stamp t0 ps) -> In (IData c) h) -> k = length ps).
Proof.
  intros Hlen Hdata Hok.
  destruct (run_inv t0 ps (mkApp rc []) Hlen Hdata h 0%nat _ (inv_init t0 ps rc) Hok) as (m & (HI & HL & _) & Hseen).
  exists m. cbn [Nat.add] in HI, Hseen. pose proof HI as [Hk _ Hcum _ _ _].
  split; [exact Hk|]. split; [exact Hcum|]. split.
  - intros sid. rewrite HL. unfold ideal, seg. cbn [firstn skipn proc_all fst]. reflexivity.
  - intros Hall. eapply all_seen_all_consumed; [exact Hlen|exact HI|].
    intros c Hc. apply Hseen. apply Hall. exact Hc.
Qed.

(* The same from the very start of run_loop: a handshake `pre` of setup chunks only (duplicates,
   invalid cookies, several INITs ... allowed) that leaves the association established with
   cumulative TSN t0-1, followed by any history of genuine arrivals and further setup chunks. *)
Theorem recv_refines_from_start t0 ps rc pre h :
  Z.of_nat (length ps) < 2147483648 ->
  Forall not_dcep ps ->
  Forall is_setup pre ->
  r_conn (fst (run (init_r 0 rc) pre)) = SctpState_Connected ->
  r_cum (fst (run (init_r 0 rc) pre)) = w32 (t0 - 1) ->
  Forall (ok_input t0 ps) h ->
  exists k, (k <= length ps)%nat /\
            r_cum (fst (run (init_r 0 rc) (pre ++ h))) = w32 (t0 - 1 + Z.of_nat k) /\
            (forall sid, log_of sid (snd (run (init_r 0 rc) (pre ++ h))) =
                         log_of sid (snd (proc_all (mkApp rc []) (firstn k ps)))) /\
            ((forall c, In c (stamp t0 ps) -> In (IData c) h) -> k = length ps).
Proof.
  intros Hlen Hdata Hpre Hconn Hcum Hok.
  assert (Hq0 : quiet rc (init_r 0 rc)).
  { repeat split; cbn; try reflexivity. apply chans_sim_refl. }
  destruct (run_setup_quiet rc pre _ Hq0 Hpre) as [(Hq & Hs & Hc) Hl].
  set (st1 := fst (run (init_r 0 rc) pre)) in *.
  assert (HI : Inv t0 ps (mkApp rc []) 0 st1).
  { constructor.
    - lia.
    - exact Hconn.
    - rewrite Hcum. f_equal. lia.
    - rewrite Hq. constructor.
    - rewrite Hq. reflexivity.
    - split; cbn [ideal firstn proc_all fst a_chans a_streams]; [exact Hc|exact Hs]. }
  destruct (run_inv t0 ps (mkApp rc []) Hlen Hdata h 0%nat st1 HI Hok) as (m & (HI2 & HL & _) & Hseen).
  rewrite run_app. fold st1. cbn [fst snd].
  exists m. cbn [Nat.add] in HI2, Hseen. pose proof HI2 as [Hk _ Hcum2 _ _ _].
  split; [exact Hk|]. split; [exact Hcum2|]. split.
  - intros sid. rewrite log_of_app, Hl, HL. unfold ideal, seg. cbn [firstn skipn proc_all fst List.app]. reflexivity.
  - intros Hall. eapply all_seen_all_consumed; [exact Hlen|exact HI2|].
    intros c Hc'. apply Hseen. apply Hall. exact Hc'.
Qed.

(* once every chunk has arrived at least once the reorder queue is empty *)
Theorem recv_complete_queue_empty t0 ps rc h :
  Z.of_nat (length ps) < 2147483648 ->
  Forall not_dcep ps ->
  Forall (ok_input t0 ps) h ->
  (forall c, In c (stamp t0 ps) -> In (IData c) h) ->
  r_rq (fst (run (est_r (w32 (t0 - 1)) rc) h)) = [].
Proof.
  intros Hlen Hdata Hok Hall.
  destruct (run_inv t0 ps (mkApp rc []) Hlen Hdata h 0%nat _ (inv_init t0 ps rc) Hok) as (m & (HI & _ & _) & Hseen).
  cbn [Nat.add] in HI, Hseen.
  assert (m = length ps).
  { eapply all_seen_all_consumed; [exact Hlen|exact HI|]. intros c Hc. apply Hseen, Hall, Hc. }
  subst m. eapply inv_full_queue_empty. exact HI.
Qed.

(* ------------------------------------------------------------------ any traffic before establishment *)
(* DATA that arrives before the association is established is dropped: a not-yet-established
   association stays "quiet" under setup chunks and DATA alike *)
Definition not_up (st : rstate) : Prop := r_conn st <> SctpState_Connected /\ r_conn st <> SctpState_Closed.

Lemma step_pre_quiet rc st i :
  quiet rc st -> not_up st -> pre_input i ->
  quiet rc (fst (step st i)) /\ (forall sid, log_of sid (snd (step st i)) = []) /\
  r_conn (fst (step st i)) <> SctpState_Closed.
Proof.
  intros Hq [Hnc Hncl] Hi. destruct i as [c|t|t hc|valid| |n pairs|sid| |v]; cbn in Hi; try contradiction.
  - (* DATA: dropped *)
    unfold step. destruct (SctpState_eqb (r_conn st) SctpState_Closed); [split; [exact Hq|split; [reflexivity|exact Hncl]]|].
    unfold recv_data.
    assert (Hg : negb (SctpState_eqb (r_conn st) SctpState_Connected) = true).
    { destruct (r_conn st); try reflexivity. contradiction. }
    rewrite Hg. split; [exact Hq|split; [reflexivity|exact Hncl]].
  - destruct (step_setup_quiet rc st (IInit t) Hq I) as [H1 H2]. split; [exact H1|]. split; [exact H2|].
    unfold step. destruct (SctpState_eqb _ _); [exact Hncl|]. destruct (connected st); exact Hncl.
  - destruct (step_setup_quiet rc st (IInitAck t hc) Hq I) as [H1 H2]. split; [exact H1|]. split; [exact H2|].
    unfold step. destruct (SctpState_eqb _ _); [exact Hncl|]. destruct (connected st); exact Hncl.
  - destruct (step_setup_quiet rc st (ICookieEcho valid) Hq I) as [H1 H2]. split; [exact H1|]. split; [exact H2|].
    unfold step. destruct (SctpState_eqb _ _); [exact Hncl|]. destruct valid; [|exact Hncl].
    unfold establish. destruct (on_established _). cbn. discriminate.
  - destruct (step_setup_quiet rc st ICookieAck Hq I) as [H1 H2]. split; [exact H1|]. split; [exact H2|].
    unfold step. destruct (SctpState_eqb _ _); [exact Hncl|].
    unfold establish. destruct (on_established _). cbn. discriminate.
Qed.

(* once established the association stays established under setup chunks and DATA *)
Lemma step_stays_connected st i :
  r_conn st = SctpState_Connected -> pre_input i -> r_conn (fst (step st i)) = SctpState_Connected.
Proof.
  intros Hc Hi. unfold step, connected. rewrite Hc. cbn [SctpState_eqb].
  destruct i as [c|t|t hc|valid| |n pairs|sid| |v]; cbn in Hi; try contradiction; try exact Hc.
  - unfold recv_data. destruct (negb _); [exact Hc|]. destruct (data_is_dup _); [exact Hc|].
    destruct (_ && _).
    + destruct (proc _ _) as [[a1 e1] ok]. exact Hc.
    + cbn zeta. destruct (take_run _ _ _) as [b q]. destruct (proc_batch _ _) as [[[a1 e1] n] ok]. exact Hc.
  - destruct valid; [|exact Hc]. unfold establish. destruct (on_established _). reflexivity.
  - unfold establish. destruct (on_established _). reflexivity.
Qed.

Lemma run_stays_connected h : forall st,
  r_conn st = SctpState_Connected -> Forall pre_input h -> r_conn (fst (run st h)) = SctpState_Connected.
Proof.
  induction h as [|i h IH]; intros st Hc Hh; [exact Hc|]. inversion Hh as [|? ? Hi Hh']; subst. cbn [run].
  pose proof (step_stays_connected st i Hc Hi) as Hs1.
  destruct (step st i) as [st1 e1]. cbn [fst] in Hs1.
  specialize (IH st1 Hs1 Hh'). destruct (run st1 h) as [st2 e2]. exact IH.
Qed.

Lemma run_pre_quiet rc h : forall st,
  quiet rc st -> not_up st -> Forall pre_input h ->
  r_conn (fst (run st h)) <> SctpState_Connected ->
  quiet rc (fst (run st h)) /\ (forall sid, log_of sid (snd (run st h)) = []) /\ not_up (fst (run st h)).
Proof.
  induction h as [|i h IH]; intros st Hq Hn Hh Hend; [split; [exact Hq|split; [reflexivity|exact Hn]]|].
  inversion Hh as [|? ? Hi Hh']; subst. cbn [run] in *.
  destruct (step_pre_quiet rc st i Hq Hn Hi) as (Hq1 & Hl1 & Hcl1).
  pose proof (step_stays_connected st i) as Hmono.
  destruct (step st i) as [st1 e1] eqn:Es. cbn [fst snd] in *.
  assert (Hn1 : not_up st1).
  { split; [|exact Hcl1]. intros Hc1.
    pose proof (run_stays_connected h st1 Hc1 Hh') as Hc2.
    destruct (run st1 h) as [st2 e2]. cbn [fst] in *. contradiction. }
  destruct (run st1 h) as [st2 e2] eqn:Er.
  assert (Hend' : r_conn (fst (run st1 h)) <> SctpState_Connected) by (rewrite Er; exact Hend).
  destruct (IH st1 Hq1 Hn1 Hh' Hend') as (Hq2 & Hl2 & Hn2). rewrite Er in Hq2, Hl2, Hn2.
  cbn [fst snd] in *. split; [exact Hq2|]. split; [|exact Hn2].
  intros sid. rewrite log_of_app, Hl1, Hl2. reflexivity.
Qed.

(* The whole history, now with ANY traffic before establishment: pre0 (setup chunks and arbitrary
   DATA, the association not yet established after it), the establishing chunk e (COOKIE-ACK or a
   valid COOKIE-ECHO), then genuine arrivals and setup chunks. The stream is numbered from the TSN
   the endpoint holds at establishment. *)
Theorem recv_refines_any_handshake t0 ps rc pre0 e h :
  Z.of_nat (length ps) < 2147483648 ->
  Forall not_dcep ps ->
  Forall pre_input pre0 ->
  r_conn (fst (run (init_r 0 rc) pre0)) <> SctpState_Connected ->
  r_cum (fst (run (init_r 0 rc) pre0)) = w32 (t0 - 1) ->
  e = ICookieAck \/ e = ICookieEcho true ->
  Forall (ok_input t0 ps) h ->
  exists k, (k <= length ps)%nat /\
            r_cum (fst (run (init_r 0 rc) (pre0 ++ e :: h))) = w32 (t0 - 1 + Z.of_nat k) /\
            (forall sid, log_of sid (snd (run (init_r 0 rc) (pre0 ++ e :: h))) =
                         log_of sid (snd (proc_all (mkApp rc []) (firstn k ps)))) /\
            ((forall c, In c (stamp t0 ps) -> In (IData c) h) -> k = length ps).
Proof.
  intros Hlen Hdata Hpre Hnc Hcum He Hok.
  assert (Hq0 : quiet rc (init_r 0 rc)) by (repeat split; cbn; try reflexivity; apply chans_sim_refl).
  assert (Hn0 : not_up (init_r 0 rc)) by (split; cbn; discriminate).
  destruct (run_pre_quiet rc pre0 _ Hq0 Hn0 Hpre Hnc) as ((Hq & Hs & Hc) & Hl & (_ & Hncl)).
  set (st0 := fst (run (init_r 0 rc) pre0)) in *.
  (* the establishing step *)
  assert (Hest : exists pre', step st0 e = establish st0 pre' /\ forall sid, log_of sid pre' = []).
  { unfold step. destruct (SctpState_eqb (r_conn st0) SctpState_Closed) eqn:Ecl.
    - exfalso. apply Hncl. destruct (r_conn st0); try discriminate. reflexivity.
    - destruct He as [->| ->]; eexists; split; try reflexivity; intros sid; reflexivity. }
  destruct Hest as (pre' & Hstep & Hpre').
  pose proof (on_established_spec (a_chans (r_app st0))) as [Ho1 Ho2].
  assert (HI : Inv t0 ps (mkApp rc []) 0 (fst (step st0 e)) /\ forall sid, log_of sid (snd (step st0 e)) = []).
  { rewrite Hstep. unfold establish. destruct (on_established (a_chans (r_app st0))) as [cs' evs]. cbn [fst snd] in *. split.
    - constructor; cbn [r_conn r_cum r_rq r_app].
      + lia.
      + reflexivity.
      + rewrite Hcum. f_equal. lia.
      + rewrite Hq. constructor.
      + rewrite Hq. reflexivity.
      + split; cbn [ideal firstn proc_all fst a_chans a_streams mkApp]; [eapply chans_sim_trans; eassumption|exact Hs].
    - intros sid. rewrite log_of_app, Hpre', Ho2. reflexivity. }
  destruct HI as [HI Hle].
  rewrite run_app. fold st0. cbn [run fst snd].
  destruct (step st0 e) as [st1 e1]. cbn [fst snd] in HI, Hle.
  destruct (run_inv t0 ps (mkApp rc []) Hlen Hdata h 0%nat st1 HI Hok) as (m & (HI2 & HL & _) & Hseen).
  destruct (run st1 h) as [st2 e2]. cbn [fst snd] in *.
  exists m. cbn [Nat.add] in HI2, Hseen. pose proof HI2 as [Hk _ Hcum2 _ _ _].
  split; [exact Hk|]. split; [exact Hcum2|]. split.
  - intros sid. rewrite !log_of_app, Hl, Hle, HL. unfold ideal, seg. cbn [firstn skipn proc_all fst List.app]. reflexivity.
  - intros Hall. eapply all_seen_all_consumed; [exact Hlen|exact HI2|].
    intros c Hc'. apply Hseen. apply Hall. exact Hc'.
Qed.
