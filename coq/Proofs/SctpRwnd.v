(* Receive-window accounting of handle_data is conservative: after ANY history of DATA chunks
   (arbitrary TSNs, any duplicates, genuine or not -- only DCEP is excluded, whose parse errors
   abort the processing loop), setup chunks, close calls and teardown, used_rwnd equals (mod 2^64,
   it is a usize) the total length of the chunks waiting in received_queue.  Hence an empty queue
   advertises the configured window again: duplicates of buffered chunks do not leak window. *)
From Coq Require Import ZArith List Bool Lia.
From RV Require Import Lib.Wrap Gen.Consts Gen.Serial Gen.Sctp Model.SctpRecv
     Proofs.SctpRecvBase Proofs.SctpRecvRefine Proofs.SctpSendSpec Proofs.SctpTheorems.
Import ListNotations.
Open Scope Z_scope.

Lemma usz_mod x : cast_usize x = x mod 18446744073709551616.
Proof. reflexivity. Qed.
Lemma usz_add_l a b : cast_usize (cast_usize a + b) = cast_usize (a + b).
Proof. rewrite !usz_mod. apply Zplus_mod_idemp_l. Qed.
Lemma usz_sub_l a b : cast_usize (cast_usize a - b) = cast_usize (a - b).
Proof. rewrite !usz_mod. apply Zminus_mod_idemp_l. Qed.

Lemma sum_len_app a b : sum_len (a ++ b) = sum_len a + sum_len b.
Proof. induction a as [|x a IH]; cbn [sum_len fold_right List.app]; [reflexivity|]. fold (sum_len (a ++ b)) (sum_len a). rewrite IH. lia. Qed.
Lemma sum_len_cons x a : sum_len (x :: a) = chunk_len x + sum_len a.
Proof. reflexivity. Qed.

Lemma rq_remove_absent t q : ~ In t (map c_tsn q) -> rq_remove t q = q.
Proof.
  unfold rq_remove. induction q as [|x q IH]; intros H; cbn; [reflexivity|].
  destruct (Z.eqb_spec (c_tsn x) t) as [E|E]; cbn.
  - exfalso. apply H. left. exact E.
  - rewrite IH; [reflexivity|]. intros Hin. apply H. right. exact Hin.
Qed.

Lemma rq_remove_keys t q x : In x (map c_tsn (rq_remove t q)) -> In x (map c_tsn q).
Proof.
  intros H. apply in_map_iff in H. destruct H as (c & <- & Hc). apply rq_remove_in in Hc. apply in_map. apply Hc.
Qed.

Lemma rq_remove_cons t x q :
  rq_remove t (x :: q) = if c_tsn x =? t then rq_remove t q else x :: rq_remove t q.
Proof. unfold rq_remove. cbn [filter]. destruct (c_tsn x =? t); reflexivity. Qed.

Lemma remove_one q : forall t c,
  NoDup (map c_tsn q) -> rq_find t q = Some c ->
  sum_len q = chunk_len c + sum_len (rq_remove t q) /\ NoDup (map c_tsn (rq_remove t q)).
Proof.
  induction q as [|x q IH]; intros t c Hnd Hf; cbn in Hf; [discriminate|].
  cbn [map] in Hnd. inversion Hnd as [|? ? Hnin Hnd']; subst.
  rewrite rq_remove_cons. destruct (Z.eqb_spec (c_tsn x) t) as [E|E].
  - injection Hf as <-. subst t. rewrite (rq_remove_absent _ _ Hnin).
    split; [apply sum_len_cons|exact Hnd'].
  - destruct (IH t c Hnd' Hf) as [Hs Hn]. split.
    + rewrite !sum_len_cons, Hs. lia.
    + cbn [map]. constructor; [|exact Hn]. intros Hin. apply Hnin. eapply rq_remove_keys. exact Hin.
Qed.

Lemma take_run_sum fuel : forall next q,
  NoDup (map c_tsn q) ->
  sum_len q = sum_len (fst (take_run fuel next q)) + sum_len (snd (take_run fuel next q)) /\
  NoDup (map c_tsn (snd (take_run fuel next q))) /\
  (forall c, In c (fst (take_run fuel next q)) \/ In c (snd (take_run fuel next q)) -> In c q).
Proof.
  induction fuel as [|f IH]; intros next q Hnd; cbn [take_run].
  - cbn [fst snd]. split; [reflexivity|]. split; [exact Hnd|]. intros c [[]|H]; exact H.
  - destruct (rq_find next q) as [c|] eqn:Ef.
    2:{ cbn [fst snd]. split; [reflexivity|]. split; [exact Hnd|]. intros c [[]|H]; exact H. }
    destruct (remove_one q next c Hnd Ef) as [Hs Hn].
    destruct (IH (w32 (next + 1)) _ Hn) as (Hs2 & Hn2 & Hin2).
    destruct (take_run f (w32 (next + 1)) (rq_remove next q)) as [b q']. cbn [fst snd] in *.
    split; [|split].
    + rewrite sum_len_cons. lia.
    + exact Hn2.
    + intros x [[<-|Hx]|Hx].
      * apply rq_find_some in Ef. apply Ef.
      * apply (rq_remove_in next). apply Hin2. left. exact Hx.
      * apply (rq_remove_in next). apply Hin2. right. exact Hx.
Qed.

(* the accounting invariant *)
Definition rw_inv (st : rstate) : Prop :=
  NoDup (map c_tsn (r_rq st)) /\ Forall (fun c => not_dcep (c_p c)) (r_rq st) /\
  r_used st = cast_usize (sum_len (r_rq st)).

Definition rw_input (i : input) : Prop :=
  match i with
  | IData c => not_dcep (c_p c)
  | IFwdTsn _ _ => False
  | _ => True
  end.

Lemma NoDup_snoc {A} (l : list A) x : NoDup l -> ~ In x l -> NoDup (l ++ [x]).
Proof.
  induction 1 as [|y l Hy Hl IH]; intros Hx; cbn; [constructor; [intros []|constructor]|].
  constructor.
  - intros Hin. apply in_app_or in Hin. destruct Hin as [Hin|[<-|[]]]; [contradiction|apply Hx; left; reflexivity].
  - apply IH. intros Hin. apply Hx. right. exact Hin.
Qed.

Lemma recv_data_rw st c : rw_inv st -> not_dcep (c_p c) -> rw_inv (fst (recv_data st c)).
Proof.
  intros (Hnd & Hdc & Hu) Hc. unfold recv_data.
  destruct (negb (SctpState_eqb (r_conn st) SctpState_Connected)); [repeat split; assumption|].
  destruct (data_is_dup _); [repeat split; assumption|].
  destruct (_ && _).
  - rewrite (proc_not_dcep _ _ Hc). destruct (proc_data (r_app st) (c_p c)) as [a1 e1]. unfold rw_inv. cbn [fst r_rq r_used].
    split; [|split]; assumption.
  - cbn zeta.
    set (rq1 := if rq_mem (c_tsn c) (r_rq st) then r_rq st else r_rq st ++ [c]).
    set (used1 := if rq_mem (c_tsn c) (r_rq st) then r_used st else cast_usize (r_used st + chunk_len c)).
    assert (H1 : NoDup (map c_tsn rq1) /\ Forall (fun x => not_dcep (c_p x)) rq1 /\ used1 = cast_usize (sum_len rq1)).
    { subst rq1 used1. destruct (rq_mem (c_tsn c) (r_rq st)) eqn:Em; [repeat split; assumption|].
      repeat split.
      - rewrite map_app. apply NoDup_snoc; [exact Hnd|]. intros Hin. apply in_map_iff in Hin.
        destruct Hin as (e & He & Hin). exact (rq_mem_false _ _ Em e Hin He).
      - apply Forall_app. split; [exact Hdc|constructor; [exact Hc|constructor]].
      - rewrite Hu, usz_add_l, sum_len_app. cbn [sum_len fold_right]. f_equal. lia. }
    destruct H1 as (Hnd1 & Hdc1 & Hu1).
    destruct (take_run_sum (length rq1) (w32 (r_cum st + 1)) rq1 Hnd1) as (Hs & Hn2 & Hin).
    destruct (take_run (length rq1) (w32 (r_cum st + 1)) rq1) as [batch rq2]. cbn [fst snd] in Hs, Hn2, Hin.
    assert (Hb : Forall not_dcep (map c_p batch)).
    { apply Forall_forall. intros p Hp. apply in_map_iff in Hp. destruct Hp as (x & <- & Hx).
      rewrite Forall_forall in Hdc1. apply Hdc1. apply Hin. left. exact Hx. }
    rewrite (proc_batch_data _ _ Hb). unfold rw_inv. cbn [fst r_rq r_used]. split; [|split].
    + exact Hn2.
    + apply Forall_forall. intros x Hx. rewrite Forall_forall in Hdc1. apply Hdc1, Hin. right. exact Hx.
    + rewrite Nat2Z.id, firstn_all, Hu1, usz_sub_l. f_equal. lia.
Qed.

Lemma step_rw st i : rw_inv st -> rw_input i -> rw_inv (fst (step st i)).
Proof.
  intros H Hi. unfold step. destruct (SctpState_eqb (r_conn st) SctpState_Closed); [exact H|].
  destruct i as [c|t|t hc|valid| |n pairs|sid| |v]; cbn in Hi; try contradiction.
  - apply recv_data_rw; assumption.
  - destruct (connected st); exact H.
  - destruct (connected st); exact H.
  - destruct valid; [|exact H]. unfold establish. destruct (on_established _). exact H.
  - unfold establish. destruct (on_established _). exact H.
  - destruct (close_channel (r_app st) sid). exact H.
  - destruct (teardown _). exact H.
  - destruct (handle_reconfig_frame st v) as [(_ & _ & Hq & Hu & _) _]. destruct H as (H1 & H2 & H3).
    unfold rw_inv. rewrite Hq, Hu. repeat split; assumption.
Qed.

Theorem rwnd_accounting h : forall st, rw_inv st -> Forall rw_input h -> rw_inv (fst (run st h)).
Proof.
  induction h as [|i h IH]; intros st H Hh; [exact H|]. inversion Hh; subst. cbn [run].
  pose proof (step_rw st i H ltac:(assumption)) as H1. destruct (step st i) as [st1 e1]. cbn [fst] in H1.
  specialize (IH st1 H1 ltac:(assumption)). destruct (run st1 h) as [st2 e2]. exact IH.
Qed.

Lemma rw_inv_fresh conn cum a p : rw_inv (mkR conn cum [] a 0 p).
Proof. repeat split; [constructor|constructor]. Qed.

(* an empty queue advertises the configured window *)
Theorem rwnd_restored local st :
  rw_inv st -> r_rq st = [] -> 0 <= local <= 4294967295 -> adv_rwnd local st = local /\ r_used st = 0.
Proof.
  intros (_ & _ & Hu) Hq Hl. rewrite Hq in Hu. cbn in Hu. unfold adv_rwnd. rewrite Hq, Hu. cbn [length].
  assert (Ht : (rwnd_zero_queue_len MAX_RECEIVED_QUEUE_SIZE <=? Z.of_nat 0) = false) by reflexivity.
  rewrite Ht. split; [|reflexivity].
  assert (Hs : sat_usize (local - 0) = local).
  { unfold sat_usize, satu. rewrite Z.sub_0_r. change (2 ^ 64 - 1) with 18446744073709551615. lia. }
  rewrite Hs. destruct (Z.leb_spec local 4294967295); [reflexivity|lia].
Qed.

Lemma genuine_rw sc W t0 i : wf_workload sc W -> genuine_input (chunks sc W t0) i -> rw_input i.
Proof.
  intros Hwf H. destruct i; cbn in *; try exact I; try contradiction.
  pose proof (pchunks_not_dcep sc W [] Hwf) as Hnd. rewrite Forall_forall in Hnd. apply Hnd.
  unfold chunks in H. rewrite <- (stamp_map t0 (pchunks sc [] W)). apply in_map. exact H.
Qed.

(* no window leak: for the histories of C01 the accounting invariant holds throughout, and once
   every chunk has arrived at least once the endpoint advertises its full configured window *)
Theorem rwnd_no_leak sc W t0 rc h local :
  Z.of_nat (length (chunks sc W t0)) < 2147483648 ->
  wf_workload sc W ->
  Forall (genuine_input (chunks sc W t0)) h ->
  0 <= local <= 4294967295 ->
  let st := fst (run (est_r (w32 (t0 - 1)) rc) h) in
  r_used st = cast_usize (sum_len (r_rq st)) /\
  ((forall c, In c (chunks sc W t0) -> In (IData c) h) ->
   r_rq st = [] /\ r_used st = 0 /\ adv_rwnd local st = local).
Proof.
  intros Hlen Hwf Hh Hl st.
  assert (Hrw : rw_inv st).
  { apply rwnd_accounting; [apply rw_inv_fresh|]. eapply Forall_impl; [|exact Hh]. intros i. apply genuine_rw. exact Hwf. }
  split; [apply Hrw|]. intros Hall.
  assert (Hq : r_rq st = []).
  { subst st. rewrite chunks_length in Hlen. apply recv_complete_queue_empty with (ps := pchunks sc [] W).
    - exact Hlen.
    - apply pchunks_not_dcep. exact Hwf.
    - eapply Forall_impl; [|exact Hh]. intros i. apply genuine_ok.
    - exact Hall. }
  destruct (rwnd_restored local st Hrw Hq Hl) as [Ha Hu]. repeat split; assumption.
Qed.

(* FORWARD-TSN is excluded above for a reason: the chunks its `retain` drops are never credited *)
Example forward_tsn_leaks_window :
  let st := fst (run (est_r 999 []) [IData (D 1002 3 0 0 53 [1; 2; 3]); IFwdTsn 1005 []]) in
  r_rq st = [] /\ r_used st = 15 /\ adv_rwnd 131072 st = 131057.
Proof. vm_compute. repeat split; reflexivity. Qed.
