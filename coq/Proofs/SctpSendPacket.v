(* C13, part 1: proofs about packet construction (Model/SctpSend.v, Model/Crc32c.v). *)
From Coq Require Import ZArith List Bool Lia.
From RV Require Import Lib.Wrap Gen.Consts Gen.SctpSendGen Model.Crc32c Model.SctpSend.
Import ListNotations.
Open Scope Z_scope.

Ltac Zify.zify_post_hook ::= Z.div_mod_to_equations.

Definition is_byte (b : Z) : Prop := 0 <= b < 256.
Definition wf_bytes (l : list Z) : Prop := Forall is_byte l.

(* ------------------------------------------------------------------ lists / len *)
Lemma len_nonneg {A} (l : list A) : 0 <= len l.
Proof. unfold len. lia. Qed.
Lemma len_app {A} (a b : list A) : len (a ++ b) = len a + len b.
Proof. unfold len. rewrite app_length. lia. Qed.
Lemma len_cons {A} (x : A) l : len (x :: l) = 1 + len l.
Proof. unfold len. cbn [length]. lia. Qed.
Lemma len_nil {A} : len (@nil A) = 0.
Proof. reflexivity. Qed.
Lemma len_be16 x : len (be16 x) = 2. Proof. reflexivity. Qed.
Lemma len_be32 x : len (be32 x) = 4. Proof. reflexivity. Qed.
Lemma len_le32 x : len (le32 x) = 4. Proof. reflexivity. Qed.
Lemma len_zeros n : 0 <= n -> len (zeros n) = n.
Proof. intros H. unfold len, zeros. rewrite repeat_length. lia. Qed.
Lemma len_firstn {A} n (l : list A) : 0 <= n <= len l -> len (firstn (Z.to_nat n) l) = n.
Proof. unfold len. intros H. rewrite firstn_length. lia. Qed.
Lemma len_skipn {A} n (l : list A) : 0 <= n <= len l -> len (skipn (Z.to_nat n) l) = len l - n.
Proof. unfold len. intros H. rewrite skipn_length. lia. Qed.

Lemma wf_be16 x : wf_bytes (be16 x).
Proof. unfold be16, wf_bytes, is_byte. repeat constructor; apply Z.mod_pos_bound; lia. Qed.
Lemma wf_be32 x : wf_bytes (be32 x).
Proof. unfold be32, wf_bytes, is_byte. repeat constructor; apply Z.mod_pos_bound; lia. Qed.
Lemma wf_le32 x : wf_bytes (le32 x).
Proof. unfold le32, wf_bytes, is_byte. repeat constructor; apply Z.mod_pos_bound; lia. Qed.
Lemma wf_zeros n : wf_bytes (zeros n).
Proof.
  unfold zeros, wf_bytes. apply Forall_forall. intros x Hx. apply repeat_spec in Hx. subst.
  unfold is_byte. lia.
Qed.
Lemma wf_app a b : wf_bytes a -> wf_bytes b -> wf_bytes (a ++ b).
Proof. unfold wf_bytes. intros. apply Forall_app. auto. Qed.

Lemma of_be_be16 x : 0 <= x < 65536 -> of_be (be16 x) = x.
Proof. intros H. unfold of_be, be16. cbn [fold_left]. lia. Qed.
Lemma of_be_be32 x : 0 <= x < 4294967296 -> of_be (be32 x) = x.
Proof. intros H. unfold of_be, be32. cbn [fold_left]. lia. Qed.
Lemma of_le32_le32 x : 0 <= x < 4294967296 -> of_le32 (le32 x) = x.
Proof. intros H. unfold of_le32, le32. lia. Qed.

(* ------------------------------------------------------------------ CRC-32C *)
Lemma lxor_range a b n : 0 <= n -> 0 <= a < 2 ^ n -> 0 <= b < 2 ^ n -> 0 <= Z.lxor a b < 2 ^ n.
Proof.
  intros Hn Ha Hb.
  assert (Hnn : 0 <= Z.lxor a b) by (apply Z.lxor_nonneg; lia).
  split; [exact Hnn|].
  destruct (Z.eq_dec (Z.lxor a b) 0) as [E|E].
  - rewrite E. apply Z.pow_pos_nonneg; lia.
  - apply Z.log2_lt_pow2; [lia|].
    eapply Z.le_lt_trans; [apply Z.log2_lxor; lia|].
    assert (Hn0 : 0 < n).
    { destruct (Z.eq_dec n 0) as [->|]; [|lia]. exfalso. apply E.
      assert (a = 0) by (cbn in Ha; lia). assert (b = 0) by (cbn in Hb; lia). subst. reflexivity. }
    apply Z.max_lub_lt.
    + destruct (Z.eq_dec a 0) as [->|]; [cbn; lia|]. apply Z.log2_lt_pow2; lia.
    + destruct (Z.eq_dec b 0) as [->|]; [cbn; lia|]. apply Z.log2_lt_pow2; lia.
Qed.

Definition u32 (x : Z) : Prop := 0 <= x < 2 ^ 32.

Lemma crc_bit_range c : u32 c -> u32 (crc_bit c).
Proof.
  unfold u32, crc_bit. intros H.
  assert (Hs : 0 <= Z.shiftr c 1 < 2 ^ 32).
  { rewrite Z.shiftr_div_pow2 by lia. change (2 ^ 1) with 2. change (2 ^ 32) with 4294967296 in *. lia. }
  destruct (Z.odd c).
  - apply lxor_range; [lia|exact Hs|]. unfold CRC32C_POLY. change (2 ^ 32) with 4294967296. lia.
  - exact Hs.
Qed.

Lemma crc_byte_range c b : u32 c -> is_byte b -> u32 (crc_byte c b).
Proof.
  intros Hc Hb. unfold crc_byte.
  do 8 apply crc_bit_range.
  apply lxor_range; [lia|exact Hc|]. unfold is_byte in Hb. change (2 ^ 32) with 4294967296. lia.
Qed.

Lemma crc_raw_range data : forall c, u32 c -> wf_bytes data -> u32 (crc_raw c data).
Proof.
  induction data as [|b data IH]; intros c Hc Hw; cbn [crc_raw fold_left]; [exact Hc|].
  inversion Hw; subst. apply IH; [apply crc_byte_range; assumption|assumption].
Qed.

Lemma mask_u32 : u32 CRC32C_MASK.
Proof. unfold u32, CRC32C_MASK. change (2 ^ 32) with 4294967296. lia. Qed.

Lemma crc32c_append_range c data : u32 c -> wf_bytes data -> u32 (crc32c_append c data).
Proof.
  intros Hc Hw. unfold crc32c_append.
  apply lxor_range; [lia| |apply mask_u32].
  apply crc_raw_range; [|exact Hw]. apply lxor_range; [lia|exact Hc|apply mask_u32].
Qed.

Lemma crc32c_range data : wf_bytes data -> u32 (crc32c data).
Proof. intros. apply crc32c_append_range; [unfold u32; change (2 ^ 32) with 4294967296; lia|assumption]. Qed.

Lemma lxor_mask_invol x : Z.lxor (Z.lxor x CRC32C_MASK) CRC32C_MASK = x.
Proof. rewrite Z.lxor_assoc, Z.lxor_nilpotent, Z.lxor_0_r. reflexivity. Qed.

(* sctp_crc32c_append composes: append(append(c, a), b) = append(c, a ++ b) *)
Lemma crc32c_append_app c a b : crc32c_append (crc32c_append c a) b = crc32c_append c (a ++ b).
Proof.
  unfold crc32c_append. rewrite lxor_mask_invol. unfold crc_raw. rewrite fold_left_app. reflexivity.
Qed.

(* ------------------------------------------------------------------ the checksum round trip *)
Lemma firstn_app_exact {A} (a b : list A) n : length a = n -> firstn n (a ++ b) = a.
Proof. intros <-. rewrite firstn_app, Nat.sub_diag, firstn_all. cbn. apply app_nil_r. Qed.
Lemma skipn_app_exact {A} (a b : list A) n : length a = n -> skipn n (a ++ b) = b.
Proof. intros <-. rewrite skipn_app, Nat.sub_diag, skipn_all. reflexivity. Qed.

Lemma wf_concat ls : Forall wf_bytes ls -> wf_bytes (concat ls).
Proof.
  induction 1 as [|l ls Hl _ IH]; cbn [concat]; [constructor|]. apply wf_app; assumption.
Qed.

Lemma pkt_header_length s d t : length (pkt_header s d t) = 8%nat.
Proof. reflexivity. Qed.

Lemma wf_pkt_header s d t : wf_bytes (pkt_header s d t).
Proof. unfold pkt_header. repeat apply wf_app; auto using wf_be16, wf_be32. Qed.

Lemma verify_build_packet sport dport tag chunks :
  Forall wf_bytes chunks ->
  SCTP_COMMON_HEADER_SIZE <= 12 ->
  verify_checksum (build_packet sport dport tag chunks) = true.
Proof.
  intros Hw Hh. unfold verify_checksum, build_packet.
  set (hdr := pkt_header sport dport tag). set (body := concat chunks).
  set (c := crc32c (hdr ++ [0; 0; 0; 0] ++ body)).
  assert (Hlen : 12 <= len (hdr ++ le32 c ++ body)).
  { rewrite !len_app. pose proof (len_nonneg body). change (len hdr) with 8. rewrite len_le32. lia. }
  destruct (len (hdr ++ le32 c ++ body) <? SCTP_COMMON_HEADER_SIZE) eqn:E; [apply Z.ltb_lt in E; lia|].
  assert (H8 : firstn 8 (hdr ++ le32 c ++ body) = hdr) by (apply firstn_app_exact; reflexivity).
  assert (S8 : skipn 8 (hdr ++ le32 c ++ body) = le32 c ++ body) by (apply skipn_app_exact; reflexivity).
  assert (S12 : skipn 12 (hdr ++ le32 c ++ body) = body).
  { rewrite app_assoc. apply skipn_app_exact. reflexivity. }
  rewrite H8, S8, S12.
  rewrite (firstn_app_exact (le32 c) body 4) by reflexivity.
  unfold crc32c at 1. rewrite !crc32c_append_app. fold (crc32c (hdr ++ [0; 0; 0; 0] ++ body)). fold c.
  rewrite of_le32_le32; [apply Z.eqb_refl|].
  apply crc32c_range. apply wf_app; [apply wf_pkt_header|]. apply wf_app; [|apply wf_concat; exact Hw].
  repeat constructor; unfold is_byte; lia.
Qed.

Lemma vtag_build_packet sport dport tag chunks :
  0 <= tag < 4294967296 -> pkt_vtag (build_packet sport dport tag chunks) = tag.
Proof.
  intros Ht. unfold pkt_vtag, build_packet, pkt_header, be16, be32.
  cbn [app skipn firstn Z.to_nat Pos.to_nat Pos.iter_op Nat.add]. unfold of_be. cbn [fold_left]. lia.
Qed.

(* ------------------------------------------------------------------ padding and DATA chunk sizes *)
Lemma pad_of_spec n : 0 <= n < 2 ^ 63 -> pad_of n = (4 - n mod 4) mod 4.
Proof.
  intros H. unfold pad_of. unfold_casts. change (2 ^ 64) with 18446744073709551616. change (2 ^ 63) with 9223372036854775808 in H.
  rewrite (Z.rem_mod_nonneg n 4) by lia.
  rewrite (Z.mod_small (n mod 4)) by lia.
  rewrite (Z.mod_small (4 - n mod 4)) by lia.
  rewrite Z.rem_mod_nonneg by lia.
  rewrite (Z.mod_small ((4 - n mod 4) mod 4)) by lia. reflexivity.
Qed.
Lemma transmit_pad_of_eq n : transmit_pad_of n = pad_of n.
Proof. reflexivity. Qed.

Lemma pad_of_range n : 0 <= n < 2 ^ 63 -> 0 <= pad_of n < 4 /\ (n + pad_of n) mod 4 = 0.
Proof. intros H. rewrite pad_of_spec by exact H. lia. Qed.

Definition roundup4 (n : Z) : Z := n + (4 - n mod 4) mod 4.
Lemma roundup4_mono a b : a <= b -> roundup4 a <= roundup4 b.
Proof. unfold roundup4. lia. Qed.

Lemma data_chunk_len_bounds d : len (d_data d) < 2 ^ 62 -> 0 <= data_chunk_len d < 2 ^ 63.
Proof.
  intros H. unfold data_chunk_len. pose proof (len_nonneg (d_data d)).
  assert (0 <= DATA_CHUNK_HDR + DATA_VALUE_HDR <= 1000) by (vm_compute; split; discriminate).
  change (2 ^ 62) with 4611686018427387904 in H. change (2 ^ 63) with 9223372036854775808. lia.
Qed.

Lemma data_wire_len_roundup d : len (d_data d) < 2 ^ 62 -> data_wire_len d = roundup4 (data_chunk_len d).
Proof. intros H. unfold data_wire_len, roundup4. rewrite pad_of_spec by (apply data_chunk_len_bounds; exact H). reflexivity. Qed.

Lemma len_create_data_chunk tsn d :
  len (d_data d) < 2 ^ 62 -> len (create_data_chunk tsn d) = data_wire_len d.
Proof.
  intros H. unfold create_data_chunk, data_wire_len.
  pose proof (data_chunk_len_bounds d H) as Hb.
  pose proof (pad_of_range _ Hb) as [Hp _].
  rewrite !len_app, !len_cons, len_nil, !len_be16, !len_be32, len_zeros by lia.
  unfold data_chunk_len. assert (DATA_CHUNK_HDR = 4) by reflexivity. assert (DATA_VALUE_HDR = 12) by reflexivity. lia.
Qed.

(* the constant-dependent fact: a DATA chunk carrying at most DEFAULT_MAX_PAYLOAD_SIZE bytes fits,
   with its padding, into one packet next to the common header.  Re-checked against the generated
   constants (1172 / 1200 / 12 / 4 / 12). *)
Lemma max_data_chunk_fits :
  roundup4 (DATA_CHUNK_HDR + (DATA_VALUE_HDR + DEFAULT_MAX_PAYLOAD_SIZE)) <= MAX_SCTP_PACKET_SIZE - SCTP_COMMON_HEADER_SIZE.
Proof. vm_compute. discriminate. Qed.

Lemma data_chunk_fits d :
  len (d_data d) <= DEFAULT_MAX_PAYLOAD_SIZE ->
  data_wire_len d <= MAX_SCTP_PACKET_SIZE - SCTP_COMMON_HEADER_SIZE.
Proof.
  intros H.
  assert (Hs : len (d_data d) < 2 ^ 62).
  { assert (DEFAULT_MAX_PAYLOAD_SIZE < 2 ^ 62) by (vm_compute; reflexivity). lia. }
  rewrite data_wire_len_roundup by exact Hs.
  eapply Z.le_trans; [|apply max_data_chunk_fits].
  apply roundup4_mono. unfold data_chunk_len. lia.
Qed.

(* ------------------------------------------------------------------ fragmentation *)
Definition frag_flags (fb : Z) (first last : bool) : Z :=
  let f := fb in
  let f := if first then Z.lor f FLAG_B else f in
  if last then Z.lor f FLAG_E else f.

(* a well-formed fragment list: flags of the i-th of n fragments are frag_flags (i=0) (i=n-1) *)
Inductive frags_ok (fb : Z) : bool -> list (Z * list Z) -> Prop :=
| fo_last first p : frags_ok fb first [(frag_flags fb first true, p)]
| fo_cons first p r : r <> [] -> frags_ok fb false r ->
    frags_ok fb first ((frag_flags fb first false, p) :: r).

Lemma frag_loop_spec mps fb total : 1 <= mps ->
  forall fuel offset rest,
    len rest = total - offset -> 0 <= offset -> (length rest <= fuel)%nat -> rest <> [] ->
    let r := frag_loop fuel mps fb offset total rest in
    concat (map snd r) = rest /\
    Forall (fun fp => 1 <= len (snd fp) <= mps) r /\
    frags_ok fb (offset =? 0) r.
Proof.
  intros Hm. induction fuel as [|f IH]; intros offset rest Hl Ho Hf Hne.
  - destruct rest; [congruence|cbn in Hf; lia].
  - cbn [frag_loop].
    assert (Hlr : 1 <= len rest). { destruct rest; [congruence|rewrite len_cons; pose proof (len_nonneg rest); lia]. }
    destruct (offset <? total) eqn:E; [|apply Z.ltb_ge in E; lia].
    set (n := Z.min (total - offset) mps).
    assert (Hn : 1 <= n <= len rest) by (unfold n; lia).
    assert (Hfn : len (firstn (Z.to_nat n) rest) = n) by (apply len_firstn; lia).
    assert (Hsn : len (skipn (Z.to_nat n) rest) = total - (offset + n)) by (rewrite len_skipn; lia).
    destruct (offset + n >=? total) eqn:El.
    + (* last fragment *)
      assert (offset + n = total) by (apply Z.geb_le in El; unfold n in *; lia).
      assert (Hnil : skipn (Z.to_nat n) rest = []).
      { destruct (skipn (Z.to_nat n) rest) eqn:Es; [reflexivity|]. rewrite len_cons in Hsn. pose proof (len_nonneg l). lia. }
      rewrite Hnil.
      assert (Hall : firstn (Z.to_nat n) rest = rest).
      { rewrite <- (firstn_skipn (Z.to_nat n) rest) at 2. rewrite Hnil, app_nil_r. reflexivity. }
      destruct f as [|f']; cbn [frag_loop].
      * cbn [map snd concat]. rewrite app_nil_r. split; [exact Hall|]. split.
        -- constructor; [cbn [snd]; lia|constructor].
        -- replace (if offset =? 0 then Z.lor fb FLAG_B else fb) with (if (offset =? 0) then Z.lor fb FLAG_B else fb) by reflexivity.
           apply (fo_last fb (offset =? 0)).
      * destruct (offset + n <? total) eqn:E2; [apply Z.ltb_lt in E2; lia|].
        cbn [map snd concat]. rewrite app_nil_r. split; [exact Hall|]. split.
        -- constructor; [cbn [snd]; lia|constructor].
        -- apply (fo_last fb (offset =? 0)).
    + (* more fragments follow *)
      assert (Hlt : offset + n < total) by (rewrite Z.geb_leb in El; apply Z.leb_gt in El; lia).
      assert (Hne' : skipn (Z.to_nat n) rest <> []).
      { intros Hc. rewrite Hc, len_nil in Hsn. lia. }
      assert (Hf' : (length (skipn (Z.to_nat n) rest) <= f)%nat).
      { rewrite skipn_length. unfold len in Hn. lia. }
      specialize (IH (offset + n) (skipn (Z.to_nat n) rest) Hsn ltac:(lia) Hf' Hne').
      cbv zeta in IH. destruct IH as (Hc & Hall & Hok).
      cbn [map snd concat]. rewrite Hc. split; [apply firstn_skipn|]. split.
      * constructor; [cbn [snd]; lia|exact Hall].
      * assert (Hoff : (offset + n =? 0) = false) by (apply Z.eqb_neq; lia). rewrite Hoff in Hok.
        apply (fo_cons fb (offset =? 0)); [|exact Hok].
        intros Hc'. rewrite Hc' in Hc. cbn in Hc. symmetry in Hc. apply Hne'. exact Hc.
Qed.

Lemma lor_be fb : Z.lor fb FLAG_BE = frag_flags fb true true.
Proof.
  unfold frag_flags. rewrite <- Z.lor_assoc. f_equal.
Qed.

(* every message, of every length: the fragments concatenate to the message, each carries between
   1 and mps bytes (a single empty fragment for the empty message), B only on the first and E only
   on the last *)
Lemma fragment_spec mps fb data : 1 <= mps ->
  let r := fragment mps fb data in
  concat (map snd r) = data /\
  Forall (fun fp => len (snd fp) <= mps) r /\
  (data <> [] -> Forall (fun fp => 1 <= len (snd fp)) r) /\
  frags_ok fb true r.
Proof.
  intros Hm. unfold fragment. destruct (len data =? 0) eqn:E.
  - apply Z.eqb_eq in E. assert (data = []) by (destruct data; [reflexivity|rewrite len_cons in E; pose proof (len_nonneg data); lia]).
    subst. cbn [map snd concat app]. split; [reflexivity|]. split; [constructor; [cbn; lia|constructor]|].
    split; [congruence|]. rewrite lor_be. apply fo_last.
  - apply Z.eqb_neq in E. assert (Hne : data <> []) by (intros ->; apply E; reflexivity).
    pose proof (frag_loop_spec mps fb (len data) Hm (length data) 0 data ltac:(lia) ltac:(lia) ltac:(lia) Hne) as H.
    cbv zeta in H. destruct H as (Hc & Hall & Hok). change (0 =? 0) with true in Hok.
    split; [exact Hc|]. split; [|split; [intros _|exact Hok]].
    + eapply Forall_impl; [|exact Hall]. cbn beta. intros; lia.
    + eapply Forall_impl; [|exact Hall]. cbn beta. intros; lia.
Qed.

(* the B (bit 1) and E (bit 0) bits of frag_flags, for a base without them (0 or FLAG_U) *)
Lemma frag_flags_bits fb first last :
  Z.testbit fb 0 = false -> Z.testbit fb 1 = false ->
  Z.testbit (frag_flags fb first last) 1 = first /\ Z.testbit (frag_flags fb first last) 0 = last.
Proof.
  intros H0 H1. unfold frag_flags. destruct first, last; rewrite ?Z.lor_spec, ?H0, ?H1; split; reflexivity.
Qed.

(* send_data_raw: all fragments carry the same stream, SSN and PPID; payloads are the fragments *)
Lemma send_data_raw_fields dc sid ppid data :
  exists ssn, Forall (fun d => d_sid d = sid /\ d_ssn d = ssn /\ d_ppid d = ppid) (fst (send_data_raw dc sid ppid data)).
Proof.
  unfold send_data_raw. cbn [fst]. eexists. apply Forall_forall. intros d Hd.
  apply in_map_iff in Hd. destruct Hd as (fp & <- & _). cbn. auto.
Qed.

Definition chan_mps (dc : option (chan * Z)) : Z :=
  match dc with Some (c, _) => Z.min (ch_mps c) DEFAULT_MAX_PAYLOAD_SIZE | None => DEFAULT_MAX_PAYLOAD_SIZE end.

Lemma send_data_raw_payload dc sid ppid data :
  1 <= chan_mps dc ->
  concat (map d_data (fst (send_data_raw dc sid ppid data))) = data /\
  Forall (fun d => len (d_data d) <= DEFAULT_MAX_PAYLOAD_SIZE) (fst (send_data_raw dc sid ppid data)).
Proof.
  intros Hm. unfold send_data_raw. cbn [fst].
  set (fb := if negb _ then FLAG_U else 0).
  fold (chan_mps dc).
  pose proof (fragment_spec (chan_mps dc) fb data Hm) as H. cbv zeta in H. destruct H as (Hc & Hl & _ & _).
  rewrite map_map. cbn [d_data]. split; [exact Hc|].
  apply Forall_forall. intros d Hd. apply in_map_iff in Hd. destruct Hd as (fp & <- & Hin). cbn [d_data].
  rewrite Forall_forall in Hl. specialize (Hl fp Hin). cbn beta in Hl.
  assert (chan_mps dc <= DEFAULT_MAX_PAYLOAD_SIZE) by (unfold chan_mps; destruct dc as [[c n]|]; lia). lia.
Qed.

(* ------------------------------------------------------------------ the batcher *)
Section BatchProofs.
  Context {A : Type} (sz : A -> Z).

  Lemma batch_loop_concat chunks : forall cur cur_len,
    concat (batch_loop sz chunks cur cur_len) = cur ++ chunks.
  Proof.
    induction chunks as [|c rest IH]; intros cur cur_len; cbn [batch_loop].
    - destruct cur; cbn; rewrite ?app_nil_r; reflexivity.
    - destruct (negb (is_nil cur) && (cur_len + sz c >? MAX_SCTP_PACKET_SIZE)).
      + cbn [concat]. rewrite IH. reflexivity.
      + rewrite IH, <- app_assoc. reflexivity.
  Qed.

  (* order preserved, nothing lost, nothing duplicated *)
  Lemma batch_concat chunks : concat (batch sz chunks) = chunks.
  Proof.
    unfold batch. destruct chunks as [|c rest]; [reflexivity|]. cbn [is_nil]. apply batch_loop_concat.
  Qed.

  Lemma batch_loop_nonempty chunks : forall cur cur_len,
    Forall (fun b => b <> []) (batch_loop sz chunks cur cur_len).
  Proof.
    induction chunks as [|c rest IH]; intros cur cur_len; cbn [batch_loop].
    - destruct cur; cbn [is_nil]; constructor; [discriminate|constructor].
    - destruct cur as [|x cur']; cbn [is_nil negb andb].
      + apply IH.
      + destruct (cur_len + sz c >? MAX_SCTP_PACKET_SIZE); [constructor; [discriminate|apply IH]|apply IH].
  Qed.

  Lemma batch_nonempty chunks : Forall (fun b => b <> []) (batch sz chunks).
  Proof. unfold batch. destruct (is_nil chunks); [constructor|apply batch_loop_nonempty]. Qed.

  Lemma total_size_app a b : total_size sz (a ++ b) = total_size sz a + total_size sz b.
  Proof. unfold total_size. induction a as [|x a IH]; cbn [app fold_right]; lia. Qed.

  Lemma batch_loop_size chunks : forall cur cur_len,
    Forall (fun c => SCTP_COMMON_HEADER_SIZE + sz c <= MAX_SCTP_PACKET_SIZE) chunks ->
    cur_len = SCTP_COMMON_HEADER_SIZE + total_size sz cur ->
    (cur <> [] -> cur_len <= MAX_SCTP_PACKET_SIZE) ->
    Forall (fun b => SCTP_COMMON_HEADER_SIZE + total_size sz b <= MAX_SCTP_PACKET_SIZE) (batch_loop sz chunks cur cur_len).
  Proof.
    induction chunks as [|c rest IH]; intros cur cur_len Hall Hlen Hcur; subst cur_len; cbn [batch_loop].
    - destruct cur as [|x cur']; cbn [is_nil]; [constructor|]. constructor; [|constructor].
      apply Hcur. discriminate.
    - inversion Hall as [|? ? Hc Hrest]; subst.
      destruct cur as [|x cur']; cbn [is_nil negb andb].
      + apply IH; [exact Hrest| |].
        * cbn [app total_size fold_right]. cbn [total_size fold_right] in *. lia.
        * intros _. cbn [total_size fold_right] in *. lia.
      + destruct (SCTP_COMMON_HEADER_SIZE + total_size sz (x :: cur') + sz c >? MAX_SCTP_PACKET_SIZE) eqn:E.
        * constructor; [apply Hcur; discriminate|].
          apply IH; [exact Hrest| |].
          -- cbn [total_size fold_right]. lia.
          -- intros _. lia.
        * rewrite Z.gtb_ltb in E. apply Z.ltb_ge in E.
          apply IH; [exact Hrest| |].
          -- rewrite total_size_app. cbn [total_size fold_right]. lia.
          -- intros _. lia.
  Qed.

  Lemma batch_size chunks :
    Forall (fun c => sz c <= MAX_SCTP_PACKET_SIZE - SCTP_COMMON_HEADER_SIZE) chunks ->
    Forall (fun b => SCTP_COMMON_HEADER_SIZE + total_size sz b <= MAX_SCTP_PACKET_SIZE) (batch sz chunks).
  Proof.
    intros H. unfold batch. destruct (is_nil chunks); [constructor|].
    apply batch_loop_size.
    - eapply Forall_impl; [|exact H]. cbn beta. intros; lia.
    - cbn. lia.
    - congruence.
  Qed.
End BatchProofs.

(* ------------------------------------------------------------------ packets *)
Lemma len_concat_map {A} (f : A -> list Z) (l : list A) :
  len (concat (map f l)) = total_size (fun a => len (f a)) l.
Proof.
  induction l as [|a l IH]; cbn [map concat total_size fold_right]; [reflexivity|].
  rewrite len_app, IH. reflexivity.
Qed.

Lemma len_build_packet sport dport tag chunks :
  len (build_packet sport dport tag chunks) = 12 + len (concat chunks).
Proof. unfold build_packet. rewrite !len_app, len_le32. change (len (pkt_header sport dport tag)) with 8. lia. Qed.

(* the common header written by send_packet_with_tag is exactly SCTP_COMMON_HEADER_SIZE bytes *)
Lemma common_header_size_is_12 : SCTP_COMMON_HEADER_SIZE = 12.
Proof. reflexivity. Qed.

Lemma pad_of_nonneg n : 0 <= pad_of n.
Proof. unfold pad_of, cast_usize, wrapu. apply Z.mod_pos_bound. apply Z.pow_pos_nonneg; lia. Qed.

Lemma len_simple_chunk ty fl v : len v < 2 ^ 62 -> len (simple_chunk ty fl v) = simple_chunk_len (len v).
Proof.
  intros H. unfold simple_chunk, simple_chunk_len.
  pose proof (len_nonneg v). assert (CHUNK_HEADER_SIZE = 4) by reflexivity.
  assert (Hb : 0 <= CHUNK_HEADER_SIZE + len v < 2 ^ 63).
  { change (2 ^ 62) with 4611686018427387904 in H. change (2 ^ 63) with 9223372036854775808. lia. }
  pose proof (pad_of_range _ Hb) as [Hp _].
  rewrite !len_app, !len_cons, len_nil, len_be16, len_zeros by lia. lia.
Qed.

(* the size the batcher works with is the length of the encoded chunk *)
Lemma wchunk_size_encode w : wchunk_size w < 2 ^ 61 -> len (encode_wchunk w) = wchunk_size w.
Proof.
  intros H. change (2 ^ 61) with 2305843009213693952 in H.
  destruct w as [fr tsn d| |cum rwnd|rnd|info]; cbn [encode_wchunk wchunk_size] in *.
  - apply len_create_data_chunk. unfold data_wire_len, data_chunk_len in H.
    pose proof (pad_of_nonneg (DATA_CHUNK_HDR + (DATA_VALUE_HDR + len (d_data d)))).
    assert (DATA_CHUNK_HDR = 4) by reflexivity. assert (DATA_VALUE_HDR = 12) by reflexivity.
    change (2 ^ 62) with 4611686018427387904. lia.
  - reflexivity.
  - reflexivity.
  - reflexivity.
  - apply len_simple_chunk. unfold simple_chunk_len in H. pose proof (pad_of_nonneg (CHUNK_HEADER_SIZE + len info)).
    assert (CHUNK_HEADER_SIZE = 4) by reflexivity. change (2 ^ 62) with 4611686018427387904. lia.
Qed.

Lemma max_chunk_lt_2_61 : MAX_SCTP_PACKET_SIZE - SCTP_COMMON_HEADER_SIZE < 2 ^ 61.
Proof. vm_compute. reflexivity. Qed.

Lemma packets_of_size sport dport tag ws :
  Forall (fun w => wchunk_size w <= MAX_SCTP_PACKET_SIZE - SCTP_COMMON_HEADER_SIZE) ws ->
  Forall (fun p => len (packet_bytes sport dport tag p) <= MAX_SCTP_PACKET_SIZE) (packets_of ws).
Proof.
  intros H. unfold packets_of. pose proof (batch_size wchunk_size ws H) as Hb.
  pose proof (batch_concat wchunk_size ws) as Hc.
  assert (Hin : forall p, In p (batch wchunk_size ws) -> Forall (fun w => wchunk_size w < 2 ^ 61) p).
  { intros p Hp. apply Forall_forall. intros w Hw. rewrite Forall_forall in H.
    assert (In w ws). { rewrite <- Hc. apply in_concat. exists p. split; assumption. }
    specialize (H w H0). pose proof max_chunk_lt_2_61. lia. }
  apply Forall_forall. intros p Hp. rewrite Forall_forall in Hb. specialize (Hb p Hp). specialize (Hin p Hp).
  unfold packet_bytes. rewrite len_build_packet, len_concat_map.
  rewrite common_header_size_is_12 in Hb.
  assert (Heq : total_size (fun a => len (encode_wchunk a)) p = total_size wchunk_size p).
  { clear Hb Hp. induction p as [|w p IH]; [reflexivity|]. inversion Hin; subst.
    cbn [total_size fold_right]. fold (total_size (fun a => len (encode_wchunk a)) p). fold (total_size wchunk_size p).
    rewrite IH by assumption. rewrite wchunk_size_encode by assumption. reflexivity. }
  rewrite Heq. exact Hb.
Qed.

Lemma wf_simple_chunk ty fl v : is_byte ty -> is_byte fl -> wf_bytes v -> wf_bytes (simple_chunk ty fl v).
Proof.
  intros. unfold simple_chunk. apply wf_app; [apply Forall_cons; [assumption|apply Forall_cons; [assumption|apply Forall_nil]]|].
  apply wf_app; [apply wf_be16|]. apply wf_app; [assumption|apply wf_zeros].
Qed.

Definition wf_dchunk (d : dchunk) : Prop := is_byte (d_flags d) /\ wf_bytes (d_data d).
Definition wf_wchunk (w : wchunk) : Prop :=
  match w with
  | WData _ _ d => wf_dchunk d
  | WHeartbeatAck info => wf_bytes info
  | _ => True
  end.

Lemma wf_encode_wchunk w : wf_wchunk w -> wf_bytes (encode_wchunk w).
Proof.
  destruct w as [fr tsn d| |cum rwnd|rnd|info]; cbn [wf_wchunk encode_wchunk]; intros H.
  - destruct H as [Hf Hd]. unfold create_data_chunk.
    apply wf_app; [apply Forall_cons; [unfold is_byte; vm_compute; split; [discriminate|reflexivity]|apply Forall_cons; [exact Hf|apply Forall_nil]]|].
    repeat (apply wf_app; auto using wf_be16, wf_be32, wf_zeros).
  - constructor.
  - apply wf_simple_chunk; [unfold is_byte; vm_compute; split; [discriminate|reflexivity]|unfold is_byte; lia|].
    repeat (apply wf_app; auto using wf_be16, wf_be32).
  - apply wf_simple_chunk; [unfold is_byte; vm_compute; split; [discriminate|reflexivity]|unfold is_byte; lia|].
    repeat (apply wf_app; auto using wf_be16, wf_be32).
  - apply wf_simple_chunk; [unfold is_byte; vm_compute; split; [discriminate|reflexivity]|unfold is_byte; lia|exact H].
Qed.

(* the receiver's own check accepts every packet send_packet_with_tag builds, and the tag field
   is the tag it was given *)
Lemma packet_checksum_and_tag sport dport tag p :
  Forall wf_wchunk p -> 0 <= tag < 4294967296 ->
  verify_checksum (packet_bytes sport dport tag p) = true /\ pkt_vtag (packet_bytes sport dport tag p) = tag.
Proof.
  intros Hw Ht. unfold packet_bytes. split.
  - apply verify_build_packet; [|rewrite common_header_size_is_12; lia].
    apply Forall_forall. intros b Hb. apply in_map_iff in Hb. destruct Hb as (w & <- & Hin).
    apply wf_encode_wchunk. rewrite Forall_forall in Hw. auto.
  - apply vtag_build_packet. exact Ht.
Qed.

(* sizes of the chunks the sender builds *)
Lemma wchunk_size_data fr tsn d :
  len (d_data d) <= DEFAULT_MAX_PAYLOAD_SIZE ->
  wchunk_size (WData fr tsn d) <= MAX_SCTP_PACKET_SIZE - SCTP_COMMON_HEADER_SIZE.
Proof. intros H. cbn [wchunk_size]. apply data_chunk_fits. exact H. Qed.
Lemma wchunk_size_small w :
  match w with WEmpty => wchunk_size w = 0 | WSack _ _ => wchunk_size w = 16 | WHeartbeat _ => wchunk_size w = 12 | _ => True end.
Proof. destruct w; try exact I; reflexivity. Qed.

Lemma batch_preserves_chunks (A : Type) (sz : A -> Z) chunks :
  concat (batch sz chunks) = chunks /\ Forall (fun b => b <> []) (batch sz chunks).
Proof. exact (conj (batch_concat sz chunks) (batch_nonempty sz chunks)). Qed.
