(* C13, part 2: proofs about the sender state machine (Model/SctpSendSm.v). *)
From Coq Require Import ZArith List Bool Lia Sorted.
From RV Require Import Lib.Wrap Gen.Consts Gen.Serial Gen.SctpSendGen Model.Crc32c Model.SctpSend Model.SctpSendSm
  Proofs.SctpSendPacket.
Import ListNotations.
Open Scope Z_scope.

Ltac Zify.zify_post_hook ::= Z.div_mod_to_equations.

Ltac sset := cbn [s_next_tsn s_sent s_outq s_flight s_cwnd s_cwnd_rx s_ssthresh s_pba s_rwnd s_sack_needed
  s_sack_delayed s_last_sig s_fr_exit s_fr_active s_last_fr_entry s_window_limited s_tlp_sent s_notify s_rcum s_ssn
  set_next_tsn set_sent set_outq set_flight set_cwnd set_cwnd_rx set_ssthresh set_pba set_rwnd set_sack_needed
  set_sack_delayed set_last_sig set_fr_exit set_fr_active set_last_fr_entry set_window_limited set_tlp_sent set_notify
  set_rcum set_ssn] in *.

(* ------------------------------------------------------------------ the mask arithmetic is the cast arithmetic *)
Lemma wrap32_mod x : wrap32 x = x mod 2 ^ 32.
Proof. unfold wrap32, MASK32. change 4294967295 with (Z.ones 32). apply Z.land_ones. lia. Qed.
Lemma wrap32_cast x : wrap32 x = cast_u32 x.
Proof. rewrite wrap32_mod. reflexivity. Qed.
Lemma wrap32_range x : 0 <= wrap32 x < 4294967296.
Proof. rewrite wrap32_mod. change (2 ^ 32) with 4294967296. apply Z.mod_pos_bound. lia. Qed.
Lemma wrap32_small x : 0 <= x < 4294967296 -> wrap32 x = x.
Proof. intros H. rewrite wrap32_mod. apply Z.mod_small. exact H. Qed.
Lemma i32_sub_cast a b : i32_sub a b = cast_i32 (cast_u32 (a - b)).
Proof.
  unfold i32_sub. rewrite wrap32_mod. unfold cast_i32, cast_u32, wraps, wrapu.
  change (2 ^ (32 - 1)) with 2147483648. change (2 ^ 32) with 4294967296.
  pose proof (Z.mod_pos_bound (a - b) 4294967296 ltac:(lia)) as Hb.
  set (m := (a - b) mod 4294967296) in *. clearbody m.
  destruct (m <? 2147483648) eqn:E.
  - apply Z.ltb_lt in E. rewrite Z.mod_small by lia. lia.
  - apply Z.ltb_ge in E.
    replace (m + 2147483648) with ((m - 2147483648) + 1 * 4294967296) by lia.
    rewrite Z.mod_add by lia. rewrite Z.mod_small by lia. lia.
Qed.
(* the generated tsn_gt (Gen/Serial.v) is the comparison the model uses *)
Lemma tsn_gt_i32_sub a b : tsn_gt a b = (i32_sub a b >? 0).
Proof. unfold tsn_gt. rewrite i32_sub_cast. reflexivity. Qed.
Lemma wrap32_add_l a b : wrap32 (wrap32 a + b) = wrap32 (a + b).
Proof. rewrite !wrap32_mod. apply Zplus_mod_idemp_l. Qed.

(* ------------------------------------------------------------------ chunk lists *)
Lemma fresh_tsns_app a b : fresh_tsns (a ++ b) = fresh_tsns a ++ fresh_tsns b.
Proof. unfold fresh_tsns. apply flat_map_app. Qed.
Lemma retx_tsns_app a b : retx_tsns (a ++ b) = retx_tsns a ++ retx_tsns b.
Proof. unfold retx_tsns. apply flat_map_app. Qed.
Lemma chunks_of_app a b : chunks_of (a ++ b) = chunks_of a ++ chunks_of b.
Proof. unfold chunks_of. apply concat_app. Qed.
Lemma chunks_of_packets_of ws : chunks_of (packets_of ws) = ws.
Proof. unfold chunks_of, packets_of. apply batch_concat. Qed.

(* ------------------------------------------------------------------ transmit: structure of the output *)
Lemma rec_wire_not_fresh r : fresh_tsns [rec_wire r] = [].
Proof. unfold rec_wire. destruct (r_emptied r); reflexivity. Qed.

Lemma retx_phase_fresh sent : forall flight,
  fresh_tsns (snd (retx_phase sent flight)) = [].
Proof.
  induction sent as [|r t IH]; intros flight; cbn [retx_phase]; [reflexivity|].
  destruct (r_needs r).
  - specialize (IH (if r_inflight r then flight else flight + rec_len r)).
    destruct (retx_phase t _) as [[t' fl] out]. cbn [snd] in *.
    change (rec_wire r :: out) with ([rec_wire r] ++ out). rewrite fresh_tsns_app, rec_wire_not_fresh, IH. reflexivity.
  - specialize (IH flight). destruct (retx_phase t flight) as [[t' fl] out]. cbn [snd] in *. exact IH.
Qed.

(* ------------------------------------------------------------------ consecutive TSNs *)
Definition tsn_next (t : Z) : Z := wrap32 (t + 1).
Fixpoint tsn_adv (t : Z) (n : nat) : Z := match n with O => t | S n' => tsn_adv (tsn_next t) n' end.
Fixpoint tsn_seq (t : Z) (n : nat) : list Z := match n with O => [] | S n' => t :: tsn_seq (tsn_next t) n' end.

Lemma tsn_seq_app t n m : tsn_seq t (n + m) = tsn_seq t n ++ tsn_seq (tsn_adv t n) m.
Proof. revert t. induction n as [|n IH]; intros t; cbn [Nat.add tsn_seq tsn_adv app]; [reflexivity|]. rewrite IH. reflexivity. Qed.
Lemma tsn_adv_add t n m : tsn_adv t (n + m) = tsn_adv (tsn_adv t n) m.
Proof. revert t. induction n as [|n IH]; intros t; cbn [Nat.add tsn_adv]; [reflexivity|apply IH]. Qed.
Lemma tsn_seq_length t n : length (tsn_seq t n) = n.
Proof. revert t. induction n as [|n IH]; intros t; cbn [tsn_seq length]; [reflexivity|]. rewrite IH. reflexivity. Qed.

(* closed forms: the i-th new TSN is (t + i) mod 2^32 *)
Lemma tsn_adv_closed t n : 0 <= t < 4294967296 -> tsn_adv t n = wrap32 (t + Z.of_nat n).
Proof.
  revert t. induction n as [|n IH]; intros t Ht.
  - cbn [tsn_adv Z.of_nat]. rewrite Z.add_0_r, wrap32_small by exact Ht. reflexivity.
  - cbn [tsn_adv]. rewrite IH by apply wrap32_range. unfold tsn_next. rewrite wrap32_add_l. f_equal. lia.
Qed.
Lemma tsn_seq_nth t n i : 0 <= t < 4294967296 -> (i < n)%nat -> nth i (tsn_seq t n) 0 = (t + Z.of_nat i) mod 2 ^ 32.
Proof.
  revert t i. induction n as [|n IH]; intros t i Ht Hi; [lia|].
  destruct i as [|i]; cbn [tsn_seq nth].
  - cbn [Z.of_nat]. rewrite Z.add_0_r. symmetry. apply Z.mod_small. change (2 ^ 32) with 4294967296. exact Ht.
  - rewrite IH by (try apply wrap32_range; lia). unfold tsn_next. rewrite wrap32_mod, Zplus_mod_idemp_l. f_equal. lia.
Qed.

Lemma assign_spec batch : forall tsn sent flight,
  fresh_tsns (snd (assign batch tsn sent flight)) = tsn_seq tsn (length batch) /\
  retx_tsns (snd (assign batch tsn sent flight)) = [] /\
  fst (fst (fst (assign batch tsn sent flight))) = tsn_adv tsn (length batch) /\
  snd (fst (assign batch tsn sent flight)) = flight + sum_by data_wire_len batch.
Proof.
  induction batch as [|d b IH]; intros tsn sent flight; cbn [assign length tsn_seq tsn_adv sum_by fold_right].
  - cbn. repeat split; lia.
  - specialize (IH (wrap32 (tsn + 1)) (sq_insert (fresh_rec tsn d) sent) (flight + data_wire_len d)).
    destruct (assign b _ _ _) as [[[tsn' sent'] fl] out]. cbn [fst snd] in *.
    destruct IH as (H1 & H2 & H3 & H4).
    change (WData true tsn d :: out) with ([WData true tsn d] ++ out).
    rewrite fresh_tsns_app, retx_tsns_app, H1, H2. cbn [fresh_tsns retx_tsns flat_map app].
    repeat split; try assumption. fold (sum_by data_wire_len b). lia.
Qed.

(* ------------------------------------------------------------------ projections untouched by the handlers *)
(* the part of the state the congestion-control code of handle_sack does not touch *)
Definition frame (s s' : st) : Prop :=
  s_next_tsn s' = s_next_tsn s /\ s_sent s' = s_sent s /\ s_outq s' = s_outq s /\
  s_sack_needed s' = s_sack_needed s /\ s_sack_delayed s' = s_sack_delayed s /\ s_rcum s' = s_rcum s /\ s_ssn s' = s_ssn s /\
  s_rwnd s' = s_rwnd s.
Lemma frame_refl s : frame s s.
Proof. unfold frame. repeat split; reflexivity. Qed.
Lemma frame_trans a b c : frame a b -> frame b c -> frame a c.
Proof. unfold frame. intros (A1 & A2 & A3 & A4 & A5 & A6 & A7 & A8) (B1 & B2 & B3 & B4 & B5 & B6 & B7 & B8). repeat split; congruence. Qed.
Ltac frame_ifs := repeat match goal with |- context [if ?b then _ else _] => destruct b end; unfold frame; sset; repeat split; reflexivity.

Lemma sack_progress_frame c s o : frame s (sack_progress c s o).
Proof. unfold sack_progress. sset. frame_ifs. Qed.
Lemma sack_grow_frame c s a b d : frame s (sack_grow c s a b d).
Proof. unfold sack_grow. sset. frame_ifs. Qed.
Lemma sack_cc_frame c s cum o : frame s (sack_cc c s cum o).
Proof.
  unfold sack_cc. destruct (o_flight_red o >? 0); [|apply frame_refl]. cbv zeta. sset.
  repeat match goal with
         | |- frame _ (sack_grow _ _ _ _ _) => eapply frame_trans; [|apply sack_grow_frame]
         | |- context [if ?b then _ else _] => destruct b
         end; unfold frame; sset; repeat split; reflexivity.
Qed.
Lemma sack_notify_frame s o : frame s (sack_notify s o).
Proof. unfold sack_notify. frame_ifs. Qed.
Lemma sack_fr_entry_frame s now cum o : frame s (sack_fr_entry s now cum o).
Proof. unfold sack_fr_entry. sset. frame_ifs. Qed.

Lemma sack_update_frame c s now cum rw gaps :
  let so := apply_sack (s_sent s) cum gaps now (negb (s_last_sig s =? sack_sig cum gaps)) (c_max_tsn_rtx c) in
  frame (set_rwnd (set_sent s (fst so)) rw) (sack_update c s now cum rw gaps).
Proof.
  cbv zeta. unfold sack_update. sset.
  set (s0 := if negb (s_last_sig s =? sack_sig cum gaps) then set_last_sig (set_rwnd s rw) (sack_sig cum gaps) else set_rwnd s rw).
  assert (H0 : s_sent s0 = s_sent s) by (unfold s0; destruct (negb _); reflexivity).
  rewrite H0.
  set (so := apply_sack (s_sent s) cum gaps now _ (c_max_tsn_rtx c)).
  assert (F0 : frame (set_rwnd (set_sent s (fst so)) rw) (set_sent s0 (fst so))).
  { unfold frame, s0. destruct (negb _); sset; repeat split; reflexivity. }
  eapply frame_trans; [exact F0|].
  eapply frame_trans; [apply sack_progress_frame|].
  eapply frame_trans; [apply sack_cc_frame|].
  eapply frame_trans; [apply sack_notify_frame|apply sack_fr_entry_frame].
Qed.

Lemma sack_update_next_tsn c s now cum rw gaps : s_next_tsn (sack_update c s now cum rw gaps) = s_next_tsn s.
Proof. pose proof (sack_update_frame c s now cum rw gaps) as H. cbv zeta in H. destruct H as (H & _). exact H. Qed.
Lemma sack_update_outq c s now cum rw gaps : s_outq (sack_update c s now cum rw gaps) = s_outq s.
Proof. pose proof (sack_update_frame c s now cum rw gaps) as H. cbv zeta in H. destruct H as (_ & _ & H & _). exact H. Qed.
Lemma sack_update_sent c s now cum rw gaps :
  s_sent (sack_update c s now cum rw gaps) =
  fst (apply_sack (s_sent s) cum gaps now (negb (s_last_sig s =? sack_sig cum gaps)) (c_max_tsn_rtx c)).
Proof. pose proof (sack_update_frame c s now cum rw gaps) as H. cbv zeta in H. destruct H as (_ & H & _). exact H. Qed.
Lemma sack_update_rwnd c s now cum rw gaps : s_rwnd (sack_update c s now cum rw gaps) = rw.
Proof. pose proof (sack_update_frame c s now cum rw gaps) as H. cbv zeta in H. destruct H as (_ & _ & _ & _ & _ & _ & _ & H). exact H. Qed.
Lemma sack_update_sack_flags c s now cum rw gaps :
  s_sack_needed (sack_update c s now cum rw gaps) = s_sack_needed s /\
  s_sack_delayed (sack_update c s now cum rw gaps) = s_sack_delayed s.
Proof. pose proof (sack_update_frame c s now cum rw gaps) as H. cbv zeta in H. destruct H as (_ & _ & _ & H1 & H2 & _). split; assumption. Qed.

Lemma handle_t3_next_tsn s : s_next_tsn (handle_t3 s) = s_next_tsn s.
Proof. unfold handle_t3. destruct (existsb _ _); reflexivity. Qed.
Lemma handle_tlp_next_tsn s : s_next_tsn (handle_tlp s) = s_next_tsn s.
Proof. unfold handle_tlp. destruct (s_tlp_sent s); [reflexivity|]. destruct (tlp_mark _) as [[? ?]|]; reflexivity. Qed.
Lemma enqueue_next_tsn c s sid ppid data : s_next_tsn (enqueue c s sid ppid data) = s_next_tsn s.
Proof.
  unfold enqueue. destruct (send_data_raw _ _ _ _) as [chunks nx]. destruct (find_chan c sid); reflexivity.
Qed.
Lemma enqueue_sent c s sid ppid data : s_sent (enqueue c s sid ppid data) = s_sent s.
Proof.
  unfold enqueue. destruct (send_data_raw _ _ _ _) as [chunks nx]. destruct (find_chan c sid); reflexivity.
Qed.
Lemma handle_data_next_proj s : s_next_tsn (handle_data_next s) = s_next_tsn s /\ s_sent (handle_data_next s) = s_sent s.
Proof. unfold handle_data_next. sset. destruct (s_sack_delayed s); split; reflexivity. Qed.
Lemma flush_sack_delay_proj s : s_next_tsn (flush_sack_delay s) = s_next_tsn s /\ s_sent (flush_sack_delay s) = s_sent s.
Proof. unfold flush_sack_delay. destruct (s_sack_delayed s); split; reflexivity. Qed.

(* ------------------------------------------------------------------ transmit: new DATA carries consecutive TSNs *)
Lemma transmit_chunks_fresh c s :
  let r := transmit_chunks c s in
  let n := length (fresh_tsns (snd r)) in
  fresh_tsns (snd r) = tsn_seq (s_next_tsn s) n /\ s_next_tsn (fst r) = tsn_adv (s_next_tsn s) n.
Proof.
  unfold transmit_chunks.
  pose proof (retx_phase_fresh (s_sent s) (s_flight s)) as Hr.
  destruct (retx_phase (s_sent s) (s_flight s)) as [[sent1 flight1] rtx]. cbn [snd] in Hr.
  destruct (drain _ _ _) as [batch outq'].
  pose proof (assign_spec batch (s_next_tsn s) sent1 flight1) as Ha.
  destruct (assign batch (s_next_tsn s) sent1 flight1) as [[[tsn' sent2] flight2] fresh]. cbn [fst snd] in Ha.
  destruct Ha as (Hf & _ & Ht & _).
  cbn [fst snd]. sset.
  assert (Hs : fresh_tsns (if s_sack_needed s then [WSack (s_rcum s) (advertised_rwnd c)] else []) = []) by (destruct (s_sack_needed s); reflexivity).
  rewrite !fresh_tsns_app, Hs, Hr, Hf. cbn [app]. rewrite tsn_seq_length. split; [reflexivity|exact Ht].
Qed.

Lemma transmit_fresh c s :
  let r := transmit c s in
  let n := length (fresh_tsns (chunks_of (snd r))) in
  fresh_tsns (chunks_of (snd r)) = tsn_seq (s_next_tsn s) n /\ s_next_tsn (fst r) = tsn_adv (s_next_tsn s) n.
Proof.
  unfold transmit. pose proof (transmit_chunks_fresh c s) as H. cbv zeta in H.
  destruct (transmit_chunks c s) as [s' chunks]. cbn [fst snd] in *. rewrite chunks_of_packets_of. exact H.
Qed.

Lemma step_fresh c s o :
  let r := step c s o in
  let n := length (fresh_tsns (chunks_of (snd r))) in
  fresh_tsns (chunks_of (snd r)) = tsn_seq (s_next_tsn s) n /\ s_next_tsn (fst r) = tsn_adv (s_next_tsn s) n.
Proof.
  destruct o; cbn [step fst snd].
  - cbn [chunks_of concat fresh_tsns flat_map length tsn_seq tsn_adv]. split; [reflexivity|apply enqueue_next_tsn].
  - apply transmit_fresh.
  - unfold handle_sack. pose proof (transmit_fresh c (sack_update c s now cum a_rwnd gaps)) as H.
    cbv zeta in H. rewrite sack_update_next_tsn in H. exact H.
  - cbn [chunks_of concat fresh_tsns flat_map length tsn_seq tsn_adv]. split; [reflexivity|apply handle_t3_next_tsn].
  - cbn [chunks_of concat fresh_tsns flat_map length tsn_seq tsn_adv]. split; [reflexivity|apply handle_tlp_next_tsn].
  - cbn. split; reflexivity.
  - cbn. split; reflexivity.
  - cbn [chunks_of concat fresh_tsns flat_map length tsn_seq tsn_adv]. split; [reflexivity|apply handle_data_next_proj].
  - cbn [chunks_of concat fresh_tsns flat_map length tsn_seq tsn_adv]. split; [reflexivity|apply flush_sack_delay_proj].
Qed.

(* across any sequence of operations: the TSNs of first transmissions, in emission order, are
   next, next+1, ... (mod 2^32), and next_tsn has advanced by exactly their number *)
Lemma run_fresh c ops : forall s,
  let r := run c s ops in
  let n := length (fresh_tsns (chunks_of (snd r))) in
  fresh_tsns (chunks_of (snd r)) = tsn_seq (s_next_tsn s) n /\ s_next_tsn (fst r) = tsn_adv (s_next_tsn s) n.
Proof.
  induction ops as [|o rest IH]; intros s; cbn [run].
  - cbn. split; reflexivity.
  - pose proof (step_fresh c s o) as Hs. cbv zeta in Hs.
    destruct (step c s o) as [s1 out1]. cbn [fst snd] in Hs.
    specialize (IH s1). cbv zeta in IH. destruct (run c s1 rest) as [s2 out2]. cbn [fst snd] in *.
    destruct Hs as [Hs1 Hs2]. destruct IH as [IH1 IH2].
    rewrite chunks_of_app, fresh_tsns_app, app_length.
    rewrite tsn_seq_app, tsn_adv_add. rewrite <- Hs2. rewrite <- Hs1, <- IH1. split; [reflexivity|exact IH2].
Qed.

Lemma run_tsn_consecutive c s ops i :
  0 <= s_next_tsn s < 4294967296 ->
  (i < length (fresh_tsns (chunks_of (snd (run c s ops)))))%nat ->
  nth i (fresh_tsns (chunks_of (snd (run c s ops)))) 0 = (s_next_tsn s + Z.of_nat i) mod 2 ^ 32.
Proof.
  intros Ht Hi. pose proof (run_fresh c ops s) as H. cbv zeta in H. destruct H as [H _].
  rewrite H. apply tsn_seq_nth; [exact Ht|]. rewrite H in Hi. rewrite tsn_seq_length in Hi. exact Hi.
Qed.

(* ------------------------------------------------------------------ no retransmission after an acknowledgement *)
(* a TSN can be retransmitted only while the sent queue holds a record for it whose payload has
   not been dropped *)
Definition rtxable (sent : list rec) (t : Z) : Prop :=
  exists r, In r sent /\ r_tsn r = t /\ r_emptied r = false.
(* gap-acked records have lost their payload *)
Definition acked_emptied (sent : list rec) : Prop :=
  Forall (fun r => r_acked r = true -> r_emptied r = true) sent.

Lemma retx_phase_spec sent : forall flight,
  let r := retx_phase sent flight in
  (forall t, In t (retx_tsns (snd r)) -> rtxable sent t) /\
  (forall t, rtxable (fst (fst r)) t -> rtxable sent t) /\
  (acked_emptied sent -> acked_emptied (fst (fst r))).
Proof.
  induction sent as [|r t IH]; intros flight; cbn [retx_phase].
  - cbn. repeat split; [intros ? []|auto|auto].
  - destruct (r_needs r).
    + specialize (IH (if r_inflight r then flight else flight + rec_len r)). cbv zeta in IH.
      destruct (retx_phase t _) as [[t' fl] out]. cbn [fst snd] in *. destruct IH as (I1 & I2 & I3).
      repeat split.
      * intros x Hx. change (rec_wire r :: out) with ([rec_wire r] ++ out) in Hx. rewrite retx_tsns_app in Hx.
        apply in_app_or in Hx. destruct Hx as [Hx|Hx].
        -- unfold rec_wire in Hx. destruct (r_emptied r) eqn:E; [destruct Hx|]. cbn in Hx. destruct Hx as [<-|[]].
           exists r. repeat split; [left; reflexivity|exact E].
        -- destruct (I1 x Hx) as (r0 & Hin & Ht & He). exists r0. repeat split; [right; exact Hin|exact Ht|exact He].
      * intros x (r0 & Hin & Ht & He). destruct Hin as [<-|Hin].
        -- cbn in Ht, He. exists r. repeat split; [left; reflexivity|exact Ht|exact He].
        -- destruct (I2 x) as (r1 & Hin1 & Ht1 & He1); [exists r0; auto|]. exists r1. repeat split; [right; exact Hin1|exact Ht1|exact He1].
      * intros Ha. inversion Ha; subst. constructor; [cbn; assumption|apply I3; assumption].
    + specialize (IH flight). cbv zeta in IH. destruct (retx_phase t flight) as [[t' fl] out]. cbn [fst snd] in *.
      destruct IH as (I1 & I2 & I3). repeat split.
      * intros x Hx. destruct (I1 x Hx) as (r0 & Hin & Ht & He). exists r0. repeat split; [right; exact Hin|exact Ht|exact He].
      * intros x (r0 & Hin & Ht & He). destruct Hin as [<-|Hin].
        -- exists r. repeat split; [left; reflexivity|exact Ht|exact He].
        -- destruct (I2 x) as (r1 & Hin1 & Ht1 & He1); [exists r0; auto|]. exists r1. repeat split; [right; exact Hin1|exact Ht1|exact He1].
      * intros Ha. inversion Ha; subst. constructor; [assumption|apply I3; assumption].
Qed.

Lemma sq_insert_in x l r : In r (sq_insert x l) -> r = x \/ In r l.
Proof.
  induction l as [|y t IH]; cbn [sq_insert]; intros H.
  - destruct H as [<-|[]]. left; reflexivity.
  - destruct (r_tsn x <? r_tsn y).
    + destruct H as [<-|H]; [left; reflexivity|right; exact H].
    + destruct (r_tsn x =? r_tsn y).
      * destruct H as [<-|H]; [left; reflexivity|right; right; exact H].
      * destruct H as [<-|H]; [right; left; reflexivity|]. destruct (IH H) as [->|H']; [left; reflexivity|right; right; exact H'].
Qed.

Lemma assign_sent batch : forall tsn sent flight,
  let sent' := snd (fst (fst (assign batch tsn sent flight))) in
  (forall t, rtxable sent' t -> rtxable sent t \/ In t (tsn_seq tsn (length batch))) /\
  (acked_emptied sent -> acked_emptied sent').
Proof.
  induction batch as [|d b IH]; intros tsn sent flight; cbn [assign length tsn_seq].
  - cbn. split; auto.
  - specialize (IH (wrap32 (tsn + 1)) (sq_insert (fresh_rec tsn d) sent) (flight + data_wire_len d)). cbv zeta in IH.
    destruct (assign b _ _ _) as [[[tsn' sent'] fl] out]. cbn [fst snd] in *. destruct IH as [I1 I2]. split.
    + intros t Ht. destruct (I1 t Ht) as [(r & Hin & Htsn & He)|Hin].
      * apply sq_insert_in in Hin. destruct Hin as [->|Hin].
        -- right. left. cbn in Htsn. exact Htsn.
        -- left. exists r. auto.
      * right. right. exact Hin.
    + intros Ha. apply I2. unfold acked_emptied in *. apply Forall_forall. intros r Hr.
      apply sq_insert_in in Hr. destruct Hr as [->|Hr]; [cbn; discriminate|]. rewrite Forall_forall in Ha. auto.
Qed.

Lemma transmit_chunks_rtx c s :
  let r := transmit_chunks c s in
  (forall t, In t (retx_tsns (snd r)) -> rtxable (s_sent s) t) /\
  (forall t, rtxable (s_sent (fst r)) t -> rtxable (s_sent s) t \/ In t (fresh_tsns (snd r))) /\
  (acked_emptied (s_sent s) -> acked_emptied (s_sent (fst r))).
Proof.
  unfold transmit_chunks.
  pose proof (retx_phase_spec (s_sent s) (s_flight s)) as Hr. cbv zeta in Hr.
  pose proof (retx_phase_fresh (s_sent s) (s_flight s)) as Hrf.
  destruct (retx_phase (s_sent s) (s_flight s)) as [[sent1 flight1] rtx]. cbn [fst snd] in Hr, Hrf.
  destruct Hr as (R1 & R2 & R3).
  destruct (drain _ _ _) as [batch outq'].
  pose proof (assign_spec batch (s_next_tsn s) sent1 flight1) as Ha.
  pose proof (assign_sent batch (s_next_tsn s) sent1 flight1) as Hs. cbv zeta in Hs.
  destruct (assign batch (s_next_tsn s) sent1 flight1) as [[[tsn' sent2] flight2] fresh]. cbn [fst snd] in Ha, Hs.
  destruct Ha as (Hf & Hx & _ & _). destruct Hs as [S1 S2].
  cbn [fst snd]. sset.
  assert (Hs1 : retx_tsns (if s_sack_needed s then [WSack (s_rcum s) (advertised_rwnd c)] else []) = []) by (destruct (s_sack_needed s); reflexivity).
  assert (Hs2 : fresh_tsns (if s_sack_needed s then [WSack (s_rcum s) (advertised_rwnd c)] else []) = []) by (destruct (s_sack_needed s); reflexivity).
  repeat split.
  - intros t Ht. rewrite !retx_tsns_app, Hs1, Hx, app_nil_r in Ht. cbn [app] in Ht. apply R1. exact Ht.
  - intros t Ht. rewrite !fresh_tsns_app, Hs2, Hrf, Hf. cbn [app].
    destruct (S1 t Ht) as [H|H]; [left; apply R2; exact H|right; exact H].
  - intros Hae. apply S2. apply R3. exact Hae.
Qed.

Lemma transmit_rtx c s :
  let r := transmit c s in
  (forall t, In t (retx_tsns (chunks_of (snd r))) -> rtxable (s_sent s) t) /\
  (forall t, rtxable (s_sent (fst r)) t -> rtxable (s_sent s) t \/ In t (fresh_tsns (chunks_of (snd r)))) /\
  (acked_emptied (s_sent s) -> acked_emptied (s_sent (fst r))).
Proof.
  unfold transmit. pose proof (transmit_chunks_rtx c s) as H. cbv zeta in H.
  destruct (transmit_chunks c s) as [s' chunks]. cbn [fst snd] in *. rewrite chunks_of_packets_of. exact H.
Qed.

(* apply_sack only drops records or updates their flags; payloads are only ever dropped *)
Lemma gap_mark_proj rg r : r_tsn (gap_mark rg r) = r_tsn r /\ (r_emptied (gap_mark rg r) = false -> r_emptied r = false).
Proof. unfold gap_mark. destruct (gap_hit rg r); cbn; split; auto; discriminate. Qed.
Lemma miss_update_proj cnt now mx mr r :
  r_tsn (miss_update cnt now mx mr r) = r_tsn r /\ r_emptied (miss_update cnt now mx mr r) = r_emptied r /\
  r_acked (miss_update cnt now mx mr r) = r_acked r.
Proof. unfold miss_update. destruct (cnt && miss_applies mr r); [destruct (fr_fires _ _ _ _ _)|]; cbn; auto. Qed.

Lemma apply_sack_rtxable sent cum gaps now cnt mx t :
  rtxable (fst (apply_sack sent cum gaps now cnt mx)) t -> rtxable sent t.
Proof.
  unfold apply_sack. destruct (late_sack sent cum gaps); cbn [fst]; [auto|].
  intros (r & Hin & Ht & He).
  apply in_map_iff in Hin. destruct Hin as (r1 & <- & Hin).
  apply in_map_iff in Hin. destruct Hin as (r0 & <- & Hin).
  unfold cum_kept in Hin. apply filter_In in Hin. destruct Hin as [Hin _].
  destruct (miss_update_proj cnt now mx (max_reported_of cum gaps) (gap_mark (map (block_range cum) gaps) r0)) as (M1 & M2 & _).
  destruct (gap_mark_proj (map (block_range cum) gaps) r0) as (G1 & G2).
  exists r0. repeat split; [exact Hin|congruence|]. apply G2. congruence.
Qed.

Lemma apply_sack_acked_emptied sent cum gaps now cnt mx :
  acked_emptied sent -> acked_emptied (fst (apply_sack sent cum gaps now cnt mx)).
Proof.
  unfold apply_sack. destruct (late_sack sent cum gaps); cbn [fst]; [auto|].
  unfold acked_emptied. intros Ha. apply Forall_forall. intros r Hin.
  apply in_map_iff in Hin. destruct Hin as (r1 & <- & Hin).
  apply in_map_iff in Hin. destruct Hin as (r0 & <- & Hin).
  unfold cum_kept in Hin. apply filter_In in Hin. destruct Hin as [Hin _].
  rewrite Forall_forall in Ha. specialize (Ha r0 Hin).
  destruct (miss_update_proj cnt now mx (max_reported_of cum gaps) (gap_mark (map (block_range cum) gaps) r0)) as (_ & M2 & M3).
  rewrite M2, M3. unfold gap_mark. destruct (gap_hit _ r0); cbn; auto.
Qed.

(* what a processed SACK acknowledges: serially at or below the cumulative point, or inside a gap block *)
Definition sack_covers (cum : Z) (gaps : list (Z * Z)) (t : Z) : Prop :=
  i32_sub t cum <= 0 \/ exists g, In g gaps /\ in_range (block_range cum g) t = true.

Lemma apply_sack_acks sent cum gaps now cnt mx t :
  acked_emptied sent -> late_sack sent cum gaps = false -> sack_covers cum gaps t ->
  ~ rtxable (fst (apply_sack sent cum gaps now cnt mx)) t.
Proof.
  intros Ha Hl Hc. unfold apply_sack. rewrite Hl. cbn [fst].
  intros (r & Hin & Ht & He).
  apply in_map_iff in Hin. destruct Hin as (r1 & <- & Hin).
  apply in_map_iff in Hin. destruct Hin as (r0 & <- & Hin).
  unfold cum_kept in Hin. apply filter_In in Hin. destruct Hin as [Hin Hk].
  destruct (miss_update_proj cnt now mx (max_reported_of cum gaps) (gap_mark (map (block_range cum) gaps) r0)) as (M1 & M2 & _).
  rewrite M1 in Ht. rewrite M2 in He.
  destruct (gap_mark_proj (map (block_range cum) gaps) r0) as (G1 & _). rewrite G1 in Ht.
  destruct Hc as [Hc|(g & Hg & Hr)].
  - unfold cum_covered in Hk. rewrite Ht in Hk. apply negb_true_iff in Hk. apply Z.leb_gt in Hk. lia.
  - unfold gap_mark in He. unfold acked_emptied in Ha. rewrite Forall_forall in Ha. specialize (Ha r0 Hin).
    destruct (gap_hit (map (block_range cum) gaps) r0) eqn:Eh; [cbn in He; discriminate|].
    unfold gap_hit in Eh. apply andb_false_iff in Eh. destruct Eh as [Eh|Eh].
    + assert (existsb (fun se => in_range se (r_tsn r0)) (map (block_range cum) gaps) = true).
      { apply existsb_exists. exists (block_range cum g). split; [apply in_map; exact Hg|rewrite Ht; exact Hr]. }
      congruence.
    + apply negb_false_iff in Eh. specialize (Ha Eh). congruence.
Qed.

(* T3 and the tail-loss probe only set flags *)
Lemma t3_mark_spec sent : forall n,
  (forall t, rtxable (t3_mark sent n) t -> rtxable sent t) /\ (acked_emptied sent -> acked_emptied (t3_mark sent n)).
Proof.
  induction sent as [|r t IH]; intros n; cbn [t3_mark]; [split; auto|].
  destruct (negb (r_acked r)) eqn:Ea.
  - destruct (n <? RETRANSMIT_BURST).
    + destruct (IH (n + 1)) as [I1 I2]. split.
      * intros x (r0 & Hin & Ht & He). destruct Hin as [<-|Hin]; [exists r; cbn in *; auto|].
        destruct (I1 x) as (r1 & ? & ? & ?); [exists r0; auto|]. exists r1; cbn; auto.
      * intros Ha. inversion Ha; subst. constructor; [cbn; assumption|apply I2; assumption].
    + destruct (IH n) as [I1 I2]. split.
      * intros x (r0 & Hin & Ht & He). destruct Hin as [<-|Hin]; [exists r; cbn in *; auto|].
        destruct (I1 x) as (r1 & ? & ? & ?); [exists r0; auto|]. exists r1; cbn; auto.
      * intros Ha. inversion Ha; subst. constructor; [cbn; assumption|apply I2; assumption].
  - destruct (IH n) as [I1 I2]. split.
    + intros x (r0 & Hin & Ht & He). destruct Hin as [<-|Hin]; [exists r; cbn; auto|].
      destruct (I1 x) as (r1 & ? & ? & ?); [exists r0; auto|]. exists r1; cbn; auto.
    + intros Ha. inversion Ha; subst. constructor; [assumption|apply I2; assumption].
Qed.

Lemma tlp_mark_spec sent : forall sent' add, tlp_mark sent = Some (sent', add) ->
  (forall t, rtxable sent' t -> rtxable sent t) /\ (acked_emptied sent -> acked_emptied sent').
Proof.
  induction sent as [|r t IH]; intros sent' add H; cbn [tlp_mark] in H; [discriminate|].
  destruct (tlp_mark t) as [[t' a']|] eqn:Et.
  - inversion H; subst. destruct (IH t' add eq_refl) as [I1 I2]. split.
    + intros x (r0 & Hin & Ht & He). destruct Hin as [<-|Hin]; [exists r; cbn; auto|].
      destruct (I1 x) as (r1 & ? & ? & ?); [exists r0; auto|]. exists r1; cbn; auto.
    + intros Ha. inversion Ha; subst. constructor; [assumption|apply I2; assumption].
  - destruct (negb (r_acked r)); [|discriminate]. inversion H; subst. split.
    + intros x (r0 & Hin & Ht & He). destruct Hin as [<-|Hin]; [exists r; cbn in *; auto|]. exists r0; cbn; auto.
    + intros Ha. inversion Ha; subst. constructor; [cbn; assumption|assumption].
Qed.

Lemma handle_t3_rtx s :
  (forall t, rtxable (s_sent (handle_t3 s)) t -> rtxable (s_sent s) t) /\
  (acked_emptied (s_sent s) -> acked_emptied (s_sent (handle_t3 s))).
Proof. unfold handle_t3. destruct (existsb _ _); [|split; auto]. sset. apply t3_mark_spec. Qed.
Lemma handle_tlp_rtx s :
  (forall t, rtxable (s_sent (handle_tlp s)) t -> rtxable (s_sent s) t) /\
  (acked_emptied (s_sent s) -> acked_emptied (s_sent (handle_tlp s))).
Proof.
  unfold handle_tlp. destruct (s_tlp_sent s); [split; auto|].
  destruct (tlp_mark (s_sent s)) as [[sent' add]|] eqn:E; [|split; auto]. sset. eapply tlp_mark_spec. exact E.
Qed.

(* one operation: a retransmitted TSN was retransmittable before; a TSN retransmittable afterwards
   was so before or has just been sent as new data *)
Lemma step_rtx c s o :
  let r := step c s o in
  (forall t, In t (retx_tsns (chunks_of (snd r))) -> rtxable (s_sent s) t) /\
  (forall t, rtxable (s_sent (fst r)) t -> rtxable (s_sent s) t \/ In t (fresh_tsns (chunks_of (snd r)))) /\
  (acked_emptied (s_sent s) -> acked_emptied (s_sent (fst r))).
Proof.
  destruct o; cbn [step fst snd].
  - rewrite enqueue_sent. cbn. repeat split; auto. intros ? [].
  - apply transmit_rtx.
  - unfold handle_sack. pose proof (transmit_rtx c (sack_update c s now cum a_rwnd gaps)) as H. cbv zeta in H.
    rewrite sack_update_sent in H. destruct H as (H1 & H2 & H3). repeat split.
    + intros t Ht. eapply apply_sack_rtxable. apply H1. exact Ht.
    + intros t Ht. destruct (H2 t Ht) as [H|H]; [left; eapply apply_sack_rtxable; exact H|right; exact H].
    + intros Ha. apply H3. apply apply_sack_acked_emptied. exact Ha.
  - destruct (handle_t3_rtx s) as [H1 H2]. cbn. repeat split; auto. intros ? [].
  - destruct (handle_tlp_rtx s) as [H1 H2]. cbn. repeat split; auto. intros ? [].
  - cbn. repeat split; auto. intros ? [].
  - cbn. repeat split; auto. intros ? [].
  - destruct (handle_data_next_proj s) as [_ ->]. cbn. repeat split; auto. intros ? [].
  - destruct (flush_sack_delay_proj s) as [_ ->]. cbn. repeat split; auto. intros ? [].
Qed.

Lemma run_acked_emptied c ops : forall s, acked_emptied (s_sent s) -> acked_emptied (s_sent (fst (run c s ops))).
Proof.
  induction ops as [|o rest IH]; intros s Ha; cbn [run]; [exact Ha|].
  pose proof (step_rtx c s o) as Hs. cbv zeta in Hs. destruct (step c s o) as [s1 out1]. cbn [fst snd] in Hs.
  destruct Hs as (_ & _ & H3). specialize (IH s1 (H3 Ha)). destruct (run c s1 rest) as [s2 out2]. exact IH.
Qed.

(* a TSN that is not retransmittable stays out of every later packet until it is sent as new data *)
Lemma run_no_rtx c ops : forall s t,
  ~ rtxable (s_sent s) t ->
  ~ In t (fresh_tsns (chunks_of (snd (run c s ops)))) ->
  ~ In t (retx_tsns (chunks_of (snd (run c s ops)))).
Proof.
  induction ops as [|o rest IH]; intros s t Hn Hf; cbn [run] in *; [intros []|].
  pose proof (step_rtx c s o) as Hs. cbv zeta in Hs. destruct (step c s o) as [s1 out1]. cbn [fst snd] in Hs.
  destruct Hs as (H1 & H2 & _).
  specialize (IH s1 t). destruct (run c s1 rest) as [s2 out2]. cbn [fst snd] in *.
  rewrite chunks_of_app, fresh_tsns_app in Hf. rewrite chunks_of_app, retx_tsns_app.
  intros Hin. apply in_app_or in Hin. destruct Hin as [Hin|Hin].
  - apply Hn. apply H1. exact Hin.
  - apply IH; [| |exact Hin].
    + intros Hr. destruct (H2 t Hr) as [H|H]; [exact (Hn H)|]. apply Hf. apply in_or_app. left. exact H.
    + intros H. apply Hf. apply in_or_app. right. exact H.
Qed.

(* the property: once a SACK covering t (cumulatively or by a gap block) has been processed, no
   later step -- the transmit inside handle_sack, further transmits, T3, fast retransmit, probes --
   emits DATA with TSN t again, unless t is assigned to new data (2^32 chunks later) *)
Lemma no_rtx_after_ack c s now cum rw gaps t ops :
  acked_emptied (s_sent s) ->
  late_sack (s_sent s) cum gaps = false ->
  sack_covers cum gaps t ->
  let out := snd (run c s (OpSack now cum rw gaps :: ops)) in
  ~ In t (fresh_tsns (chunks_of out)) -> ~ In t (retx_tsns (chunks_of out)).
Proof.
  intros Ha Hl Hc. cbv zeta. cbn [run step]. unfold handle_sack.
  pose proof (transmit_rtx c (sack_update c s now cum rw gaps)) as Ht. cbv zeta in Ht.
  rewrite sack_update_sent in Ht.
  destruct (transmit c (sack_update c s now cum rw gaps)) as [s1 out1]. cbn [fst snd] in Ht.
  destruct Ht as (H1 & H2 & _).
  pose proof (run_no_rtx c ops s1 t) as Hr. destruct (run c s1 ops) as [s2 out2]. cbn [fst snd] in *.
  intros Hf. rewrite chunks_of_app, fresh_tsns_app in Hf. rewrite chunks_of_app, retx_tsns_app.
  pose proof (apply_sack_acks (s_sent s) cum gaps now (negb (s_last_sig s =? sack_sig cum gaps)) (c_max_tsn_rtx c) t Ha Hl Hc) as Hna.
  intros Hin. apply in_app_or in Hin. destruct Hin as [Hin|Hin].
  - apply Hna. apply H1. exact Hin.
  - apply Hr; [| |exact Hin].
    + intros Hx. destruct (H2 t Hx) as [H|H]; [exact (Hna H)|]. apply Hf. apply in_or_app. left. exact H.
    + intros H. apply Hf. apply in_or_app. right. exact H.
Qed.

Lemma init_acked_emptied a b c0 : acked_emptied (s_sent (init_state a b c0)).
Proof. constructor. Qed.

(* ------------------------------------------------------------------ quiescence *)
(* nothing in flight or queued, no SACK owed *)
Definition quiescent (s : st) : Prop :=
  s_sent s = [] /\ s_outq s = [] /\ s_sack_needed s = false /\ s_sack_delayed s = false.
(* what the run loop can do on its own, without API calls or inbound packets, apart from the heartbeat *)
Definition idle_op (o : op) : Prop := o = OpTransmit \/ o = OpT3 \/ o = OpTlp \/ o = OpFlushSack.

Lemma drain_nil cap b : drain cap [] b = ([], []).
Proof. destruct cap; cbn [drain]; [reflexivity|]. destruct (b >? 0); reflexivity. Qed.

Lemma quiescent_transmit c s : quiescent s -> snd (transmit c s) = [] /\ quiescent (fst (transmit c s)).
Proof.
  intros (H1 & H2 & H3 & H4). unfold transmit, transmit_chunks. rewrite H1, H2, H3. cbn [retx_phase].
  rewrite drain_nil. cbn [assign app fst snd]. sset. unfold packets_of, batch. cbn [is_nil].
  split; [reflexivity|]. unfold quiescent. sset. auto.
Qed.

Lemma quiescent_step c s o : quiescent s -> idle_op o -> snd (step c s o) = [] /\ quiescent (fst (step c s o)).
Proof.
  intros Hq Ho. destruct Ho as [Ho|[Ho|[Ho|Ho]]]; subst o; cbn [step fst snd].
  - apply quiescent_transmit. exact Hq.
  - split; [reflexivity|]. destruct Hq as (H1 & H2 & H3 & H4). unfold handle_t3. rewrite H1. cbn [existsb]. unfold quiescent. auto.
  - split; [reflexivity|]. destruct Hq as (H1 & H2 & H3 & H4). unfold handle_tlp. rewrite H1. cbn [tlp_mark].
    destruct (s_tlp_sent s); unfold quiescent; auto.
  - split; [reflexivity|]. destruct Hq as (H1 & H2 & H3 & H4). unfold flush_sack_delay. rewrite H4. unfold quiescent. auto.
Qed.

(* once everything submitted is acknowledged, transmit / T3 / probe / delayed-SACK flush emit nothing, ever *)
Lemma quiescent_run c ops : forall s, quiescent s -> Forall idle_op ops ->
  snd (run c s ops) = [] /\ quiescent (fst (run c s ops)).
Proof.
  induction ops as [|o rest IH]; intros s Hq Ho; cbn [run]; [split; [reflexivity|exact Hq]|].
  inversion Ho; subst. pose proof (quiescent_step c s o Hq H1) as [Hs1 Hs2].
  destruct (step c s o) as [s1 out1]. cbn [fst snd] in *. subst out1.
  specialize (IH s1 Hs2 H2). destruct (run c s1 rest) as [s2 out2]. cbn [fst snd] in *. exact IH.
Qed.

(* the premises are reachable: after an acknowledged message the association is quiescent *)
Example quiescent_reachable :
  let c := mkCfg 0 262144 8 131072 [mkCh 0 true 1200] in
  let s := fst (run c (init_state 100 1048576 7) [OpSend 0 53 [1; 2; 3]; OpTransmit; OpSack 5 100 1048576 []]) in
  quiescent s /\ s_next_tsn s = 101.
Proof. vm_compute. repeat split; reflexivity. Qed.

(* ------------------------------------------------------------------ the window *)
Lemma sum_by_app {A} (f : A -> Z) a b : sum_by f (a ++ b) = sum_by f a + sum_by f b.
Proof. unfold sum_by. induction a as [|x a IH]; cbn [app fold_right]; lia. Qed.

Lemma sum_by_ext {A} (f g : A -> Z) l : (forall x, f x = g x) -> sum_by f l = sum_by g l.
Proof. intros H. unfold sum_by. induction l as [|x l IH]; cbn [fold_right]; [reflexivity|]. rewrite H, IH. reflexivity. Qed.

Lemma drain_spec cap : forall outq budget,
  let r := drain cap outq budget in
  outq = fst r ++ snd r /\
  (budget <= 0 -> fst r = []) /\
  (fst r <> [] -> sum_by drain_charge (removelast (fst r)) < budget).
Proof.
  induction cap as [|cap IH]; intros outq budget; cbn [drain].
  - cbn. repeat split; auto; congruence.
  - destruct (budget >? 0) eqn:Eb.
    + apply Z.gtb_lt in Eb. destruct outq as [|d q].
      * cbn. repeat split; auto; congruence.
      * specialize (IH q (sat_sub budget (drain_charge d))). cbv zeta in IH.
        destruct (drain cap q _) as [b rest]. cbn [fst snd] in *. destruct IH as (I1 & I2 & I3).
        repeat split.
        -- rewrite I1. reflexivity.
        -- lia.
        -- intros _. destruct b as [|d2 b'].
           ++ cbn. lia.
           ++ change (removelast (d :: d2 :: b')) with (d :: removelast (d2 :: b')).
              cbn [sum_by fold_right]. fold (sum_by drain_charge (removelast (d2 :: b'))).
              assert (Hne : d2 :: b' <> []) by discriminate.
              specialize (I3 Hne). unfold sat_sub in *.
              destruct (Z_le_gt_dec (Z.max 0 (budget - drain_charge d)) 0) as [Hz|Hz]; [specialize (I2 Hz); discriminate|]. lia.
    + cbn. repeat split; auto; congruence.
Qed.

Lemma data_wire_len_nonneg d : 0 <= data_wire_len d.
Proof.
  unfold data_wire_len, data_chunk_len. pose proof (pad_of_nonneg (DATA_CHUNK_HDR + (DATA_VALUE_HDR + len (d_data d)))).
  pose proof (len_nonneg (d_data d)). assert (DATA_CHUNK_HDR = 4) by reflexivity. assert (DATA_VALUE_HDR = 12) by reflexivity. lia.
Qed.
Lemma rec_len_nonneg r : 0 <= rec_len r.
Proof. unfold rec_len. destruct (r_emptied r); [lia|apply data_wire_len_nonneg]. Qed.

Lemma retx_phase_flight sent : forall flight, flight <= snd (fst (retx_phase sent flight)).
Proof.
  induction sent as [|r t IH]; intros flight; cbn [retx_phase]; [cbn; lia|].
  destruct (r_needs r).
  - specialize (IH (if r_inflight r then flight else flight + rec_len r)).
    destruct (retx_phase t _) as [[t' fl] out]. cbn [fst snd] in *. pose proof (rec_len_nonneg r). destruct (r_inflight r); lia.
  - specialize (IH flight). destruct (retx_phase t flight) as [[t' fl] out]. cbn [fst snd] in *. exact IH.
Qed.

(* the budget charge of transmit is the length of the chunk create_data_chunk builds *)
Lemma drain_charge_wire d : drain_charge d = data_wire_len d.
Proof.
  unfold drain_charge, data_wire_len, data_chunk_len. rewrite transmit_pad_of_eq.
  assert (E : CHUNK_HEADER_SIZE + TRANSMIT_DATA_HDR + len (d_data d) = DATA_CHUNK_HDR + (DATA_VALUE_HDR + len (d_data d))).
  { assert (CHUNK_HEADER_SIZE + TRANSMIT_DATA_HDR = DATA_CHUNK_HDR + DATA_VALUE_HDR) by reflexivity. lia. }
  rewrite E. reflexivity.
Qed.

Lemma effective_window_le flight burst cwnd rwnd :
  effective_window flight burst cwnd rwnd <= rwnd /\ effective_window flight burst cwnd rwnd <= cwnd.
Proof. unfold effective_window. lia. Qed.

Lemma sum_removelast {A} (f : A -> Z) (l : list A) (d : A) : l <> [] -> sum_by f l = sum_by f (removelast l) + f (last l d).
Proof.
  intros H. rewrite (app_removelast_last d H) at 1. rewrite sum_by_app. cbn [sum_by fold_right]. lia.
Qed.

Definition max_chunk : Z := MAX_SCTP_PACKET_SIZE - SCTP_COMMON_HEADER_SIZE.

(* transmit: with the peer's window (or cwnd) used up nothing new is dequeued; otherwise the
   bytes in flight after the call exceed the window by less than one (padded) DATA chunk *)
Lemma transmit_chunks_window c s :
  let r := transmit_chunks c s in
  (s_rwnd s <= s_flight s \/ s_cwnd s <= s_flight s -> fresh_tsns (snd r) = [] /\ s_outq (fst r) = s_outq s) /\
  (Forall (fun d => len (d_data d) <= DEFAULT_MAX_PAYLOAD_SIZE) (s_outq s) ->
   fresh_tsns (snd r) <> [] ->
   s_flight (fst r) < s_rwnd s + max_chunk /\ s_flight (fst r) < s_cwnd s + max_chunk).
Proof.
  unfold transmit_chunks.
  pose proof (retx_phase_fresh (s_sent s) (s_flight s)) as Hrf.
  pose proof (retx_phase_flight (s_sent s) (s_flight s)) as Hfl.
  destruct (retx_phase (s_sent s) (s_flight s)) as [[sent1 flight1] rtx]. cbn [fst snd] in Hrf, Hfl.
  set (eff := effective_window (s_flight s) (burst_limit c) (s_cwnd s) (s_rwnd s)).
  pose proof (effective_window_le (s_flight s) (burst_limit c) (s_cwnd s) (s_rwnd s)) as [He1 He2]. fold eff in He1, He2.
  pose proof (drain_spec (Z.to_nat TRANSMIT_BATCH_CAP) (s_outq s) (sat_sub eff flight1)) as Hd. cbv zeta in Hd.
  destruct (drain _ _ _) as [batch outq']. cbn [fst snd] in Hd. destruct Hd as (D1 & D2 & D3).
  pose proof (assign_spec batch (s_next_tsn s) sent1 flight1) as Ha.
  destruct (assign batch (s_next_tsn s) sent1 flight1) as [[[tsn' sent2] flight2] fresh]. cbn [fst snd] in Ha.
  destruct Ha as (Hf & _ & _ & Hfl2).
  cbn [fst snd]. sset.
  assert (Hs : fresh_tsns (if s_sack_needed s then [WSack (s_rcum s) (advertised_rwnd c)] else []) = []) by (destruct (s_sack_needed s); reflexivity).
  rewrite !fresh_tsns_app, Hs, Hrf, Hf. cbn [app]. split.
  - intros Hw. assert (Hb : batch = []) by (apply D2; unfold sat_sub; lia). subst batch. cbn [length tsn_seq]. split; [reflexivity|].
    cbn [app] in D1. congruence.
  - intros Hsz Hne. assert (Hbne : batch <> []) by (intros ->; apply Hne; reflexivity).
    specialize (D3 Hbne).
    assert (Hav : 0 < sat_sub eff flight1).
    { destruct (Z_le_gt_dec (sat_sub eff flight1) 0) as [Hz|Hz]; [specialize (D2 Hz); congruence|lia]. }
    unfold sat_sub in *.
    destruct batch as [|d0 b0]; [congruence|].
    rewrite (sum_removelast data_wire_len (d0 :: b0) d0 Hbne) in Hfl2.
    assert (Hsame : sum_by drain_charge (removelast (d0 :: b0)) = sum_by data_wire_len (removelast (d0 :: b0))).
    { apply sum_by_ext. apply drain_charge_wire. }
    assert (Hlast : data_wire_len (last (d0 :: b0) d0) <= max_chunk).
    { apply data_chunk_fits. rewrite Forall_forall in Hsz. apply Hsz. rewrite D1. apply in_or_app. left.
      destruct (exists_last Hbne) as (l' & x & E). rewrite E. rewrite last_last. apply in_or_app. right. left. reflexivity. }
    lia.
Qed.

(* a SACK advertising the window `rw` installs it before handle_sack's own transmit *)
Lemma handle_sack_zero_window c s now cum gaps :
  0 <= s_flight (sack_update c s now cum 0 gaps) ->
  fresh_tsns (chunks_of (snd (handle_sack c s now cum 0 gaps))) = [].
Proof.
  intros Hf. unfold handle_sack, transmit.
  pose proof (transmit_chunks_window c (sack_update c s now cum 0 gaps)) as H. cbv zeta in H.
  destruct (transmit_chunks c _) as [s' chunks]. cbn [fst snd] in *. rewrite chunks_of_packets_of.
  destruct H as [H _]. apply H. left. rewrite sack_update_rwnd. exact Hf.
Qed.

(* ------------------------------------------------------------------ an invariant on every DATA chunk the sender holds or emits *)
Section DataInv.
  Variable P : dchunk -> Prop.
  Definition state_P (s : st) : Prop := Forall P (s_outq s) /\ Forall (fun r => P (r_d r)) (s_sent s).
  Definition wchunk_P (w : wchunk) : Prop := match w with WData _ _ d => P d | _ => True end.

  Lemma retx_phase_P sent : forall flight, Forall (fun r => P (r_d r)) sent ->
    Forall (fun r => P (r_d r)) (fst (fst (retx_phase sent flight))) /\ Forall wchunk_P (snd (retx_phase sent flight)).
  Proof.
    induction sent as [|r t IH]; intros flight H; cbn [retx_phase]; [cbn; auto|].
    inversion H; subst. destruct (r_needs r).
    - specialize (IH (if r_inflight r then flight else flight + rec_len r) H3).
      destruct (retx_phase t _) as [[t' fl] out]. cbn [fst snd] in *. destruct IH as [I1 I2]. split.
      + constructor; [cbn; assumption|assumption].
      + constructor; [|assumption]. unfold rec_wire. destruct (r_emptied r); cbn; auto.
    - specialize (IH flight H3). destruct (retx_phase t flight) as [[t' fl] out]. cbn [fst snd] in *. destruct IH as [I1 I2].
      split; [constructor; assumption|assumption].
  Qed.

  Lemma sq_insert_P x l : P (r_d x) -> Forall (fun r => P (r_d r)) l -> Forall (fun r => P (r_d r)) (sq_insert x l).
  Proof.
    intros Hx Hl. apply Forall_forall. intros r Hr. apply sq_insert_in in Hr. destruct Hr as [->|Hr]; [exact Hx|].
    rewrite Forall_forall in Hl. auto.
  Qed.

  Lemma assign_P batch : forall tsn sent flight, Forall P batch -> Forall (fun r => P (r_d r)) sent ->
    Forall (fun r => P (r_d r)) (snd (fst (fst (assign batch tsn sent flight)))) /\ Forall wchunk_P (snd (assign batch tsn sent flight)).
  Proof.
    induction batch as [|d b IH]; intros tsn sent flight Hb Hs; cbn [assign]; [cbn; auto|].
    inversion Hb; subst.
    specialize (IH (wrap32 (tsn + 1)) (sq_insert (fresh_rec tsn d) sent) (flight + data_wire_len d) H2 (sq_insert_P (fresh_rec tsn d) sent H1 Hs)).
    destruct (assign b _ _ _) as [[[tsn' sent'] fl] out]. cbn [fst snd] in *. destruct IH as [I1 I2].
    split; [assumption|constructor; [cbn; assumption|assumption]].
  Qed.

  Lemma transmit_chunks_P c s : state_P s ->
    state_P (fst (transmit_chunks c s)) /\ Forall wchunk_P (snd (transmit_chunks c s)).
  Proof.
    intros [Hq Hs]. unfold transmit_chunks.
    pose proof (retx_phase_P (s_sent s) (s_flight s) Hs) as Hr.
    destruct (retx_phase (s_sent s) (s_flight s)) as [[sent1 flight1] rtx]. cbn [fst snd] in Hr. destruct Hr as [R1 R2].
    pose proof (drain_spec (Z.to_nat TRANSMIT_BATCH_CAP) (s_outq s)
                 (sat_sub (effective_window (s_flight s) (burst_limit c) (s_cwnd s) (s_rwnd s)) flight1)) as Hd. cbv zeta in Hd.
    destruct (drain _ _ _) as [batch outq']. cbn [fst snd] in Hd. destruct Hd as (D1 & _ & _).
    rewrite D1 in Hq. apply Forall_app in Hq. destruct Hq as [Hb Ho].
    pose proof (assign_P batch (s_next_tsn s) sent1 flight1 Hb R1) as Ha.
    destruct (assign batch (s_next_tsn s) sent1 flight1) as [[[tsn' sent2] flight2] fresh]. cbn [fst snd] in Ha. destruct Ha as [A1 A2].
    cbn [fst snd]. unfold state_P. sset. split; [split; assumption|].
    apply Forall_app. split; [destruct (s_sack_needed s); [constructor; [exact I|constructor]|constructor]|].
    apply Forall_app. split; assumption.
  Qed.

  Lemma apply_sack_P sent cum gaps now cnt mx : Forall (fun r => P (r_d r)) sent ->
    Forall (fun r => P (r_d r)) (fst (apply_sack sent cum gaps now cnt mx)).
  Proof.
    intros H. unfold apply_sack. destruct (late_sack sent cum gaps); cbn [fst]; [exact H|].
    apply Forall_forall. intros r Hin.
    apply in_map_iff in Hin. destruct Hin as (r1 & <- & Hin).
    apply in_map_iff in Hin. destruct Hin as (r0 & <- & Hin).
    unfold cum_kept in Hin. apply filter_In in Hin. destruct Hin as [Hin _].
    rewrite Forall_forall in H. specialize (H r0 Hin).
    assert (E : r_d (miss_update cnt now mx (max_reported_of cum gaps) (gap_mark (map (block_range cum) gaps) r0)) = r_d r0).
    { unfold miss_update, gap_mark. destruct (gap_hit _ r0); cbn;
        repeat match goal with |- context [if ?b then _ else _] => destruct b end; reflexivity. }
    rewrite E. exact H.
  Qed.

  Lemma t3_mark_P sent : forall n, Forall (fun r => P (r_d r)) sent -> Forall (fun r => P (r_d r)) (t3_mark sent n).
  Proof.
    induction sent as [|r t IH]; intros n H; cbn [t3_mark]; [constructor|]. inversion H; subst.
    destruct (negb (r_acked r)); [destruct (n <? RETRANSMIT_BURST)|]; constructor; auto.
  Qed.
  Lemma tlp_mark_P sent : forall sent' add, tlp_mark sent = Some (sent', add) ->
    Forall (fun r => P (r_d r)) sent -> Forall (fun r => P (r_d r)) sent'.
  Proof.
    induction sent as [|r t IH]; intros sent' add E H; cbn [tlp_mark] in E; [discriminate|]. inversion H; subst.
    destruct (tlp_mark t) as [[t' a']|] eqn:Et.
    - inversion E; subst. constructor; [assumption|]. eapply IH; [reflexivity|assumption].
    - destruct (negb (r_acked r)); [|discriminate]. inversion E; subst. constructor; [cbn; assumption|assumption].
  Qed.

  (* chunks queued by send_data_raw satisfy P *)
  Definition send_P (c : cfg) (o : op) : Prop :=
    match o with
    | OpSend sid ppid data =>
        forall nx, Forall P (fst (send_data_raw (match find_chan c sid with Some ch => Some (ch, nx) | None => None end) sid ppid data))
    | _ => True
    end.

  Lemma step_P c s o : state_P s -> send_P c o ->
    state_P (fst (step c s o)) /\ Forall (Forall wchunk_P) (snd (step c s o)).
  Proof.
    intros Hs Ho. destruct o; cbn [step fst snd].
    - split; [|constructor]. unfold enqueue. cbn [send_P] in Ho.
      specialize (Ho (ssn_get (s_ssn s) sid)).
      destruct (send_data_raw _ sid ppid data) as [chunks nx]. cbn [fst] in Ho. destruct Hs as [Hq Hsent].
      unfold state_P. destruct (find_chan c sid); sset; (split; [apply Forall_app; split; assumption|assumption]).
    - unfold transmit. pose proof (transmit_chunks_P c s Hs) as H. destruct (transmit_chunks c s) as [s' chunks]. cbn [fst snd] in *.
      destruct H as [H1 H2]. split; [exact H1|].
      apply Forall_forall. intros p Hp. apply Forall_forall. intros w Hw. rewrite Forall_forall in H2. apply H2.
      rewrite <- (chunks_of_packets_of chunks). unfold chunks_of. apply in_concat. exists p. split; assumption.
    - unfold handle_sack, transmit.
      assert (Hs' : state_P (sack_update c s now cum a_rwnd gaps)).
      { destruct Hs as [Hq Hsent]. unfold state_P. rewrite sack_update_outq, sack_update_sent. split; [exact Hq|apply apply_sack_P; exact Hsent]. }
      pose proof (transmit_chunks_P c _ Hs') as H. destruct (transmit_chunks c _) as [s' chunks]. cbn [fst snd] in *.
      destruct H as [H1 H2]. split; [exact H1|].
      apply Forall_forall. intros p Hp. apply Forall_forall. intros w Hw. rewrite Forall_forall in H2. apply H2.
      rewrite <- (chunks_of_packets_of chunks). unfold chunks_of. apply in_concat. exists p. split; assumption.
    - split; [|constructor]. destruct Hs as [Hq Hsent]. unfold handle_t3. destruct (existsb _ _); unfold state_P; sset; [|auto].
      split; [exact Hq|apply t3_mark_P; exact Hsent].
    - split; [|constructor]. destruct Hs as [Hq Hsent]. unfold handle_tlp. destruct (s_tlp_sent s); [unfold state_P; auto|].
      destruct (tlp_mark (s_sent s)) as [[sent' add]|] eqn:E; unfold state_P; sset; [|auto].
      split; [exact Hq|eapply tlp_mark_P; [exact E|exact Hsent]].
    - split; [exact Hs|]. repeat constructor.
    - split; [exact Hs|]. repeat constructor.
    - split; [|constructor]. destruct Hs as [Hq Hsent]. unfold handle_data_next, state_P. sset. destruct (s_sack_delayed s); sset; auto.
    - split; [|constructor]. destruct Hs as [Hq Hsent]. unfold flush_sack_delay, state_P. destruct (s_sack_delayed s); sset; auto.
  Qed.

  Lemma run_P c ops : forall s, state_P s -> Forall (send_P c) ops ->
    state_P (fst (run c s ops)) /\ Forall (Forall wchunk_P) (snd (run c s ops)).
  Proof.
    induction ops as [|o rest IH]; intros s Hs Ho; cbn [run]; [split; [exact Hs|constructor]|].
    inversion Ho; subst. pose proof (step_P c s o Hs H1) as [S1 S2].
    destruct (step c s o) as [s1 out1]. cbn [fst snd] in *.
    specialize (IH s1 S1 H2). destruct (run c s1 rest) as [s2 out2]. cbn [fst snd] in *. destruct IH as [I1 I2].
    split; [exact I1|apply Forall_app; split; assumption].
  Qed.
End DataInv.

(* ------------------------------------------------------------------ every packet of every run: size, checksum, tag *)
Definition chunk_ok (d : dchunk) : Prop := len (d_data d) <= DEFAULT_MAX_PAYLOAD_SIZE /\ wf_dchunk d.
Definition cfg_ok (c : cfg) : Prop := Forall (fun ch => 1 <= ch_mps ch) (c_chans c).
Definition op_ok (o : op) : Prop :=
  match o with
  | OpSend _ _ data => wf_bytes data
  | OpHeartbeatIn info => wf_bytes info /\ simple_chunk_len (len info) <= max_chunk
  | _ => True
  end.

Lemma wf_concat_inv ls : wf_bytes (concat ls) -> Forall wf_bytes ls.
Proof.
  induction ls as [|l ls IH]; cbn [concat]; intros H; [constructor|].
  unfold wf_bytes in H. apply Forall_app in H. destruct H as [H1 H2]. constructor; [exact H1|apply IH; exact H2].
Qed.

Lemma frags_ok_flags fb first l : frags_ok fb first l ->
  Forall (fun fp => exists f la, fst fp = frag_flags fb f la) l.
Proof.
  induction 1 as [first p|first p r Hne Hok IH].
  - constructor; [exists first, true; reflexivity|constructor].
  - constructor; [exists first, false; reflexivity|exact IH].
Qed.
Lemma frag_flags_byte fb f la : fb = 0 \/ fb = FLAG_U -> is_byte (frag_flags fb f la).
Proof. intros [->| ->]; destruct f, la; unfold is_byte; vm_compute; split; (discriminate || reflexivity). Qed.

Lemma send_data_raw_ok c sid ppid data nx :
  cfg_ok c -> wf_bytes data ->
  Forall chunk_ok (fst (send_data_raw (match find_chan c sid with Some ch => Some (ch, nx) | None => None end) sid ppid data)).
Proof.
  intros Hc Hw.
  set (dc := match find_chan c sid with Some ch => Some (ch, nx) | None => None end).
  assert (Hm : 1 <= chan_mps dc).
  { unfold dc, chan_mps. destruct (find_chan c sid) as [ch|] eqn:E.
    - unfold find_chan in E. apply find_some in E. destruct E as [Hin _]. unfold cfg_ok in Hc. rewrite Forall_forall in Hc.
      specialize (Hc ch Hin). assert (1 <= DEFAULT_MAX_PAYLOAD_SIZE) by (vm_compute; discriminate). lia.
    - vm_compute. discriminate. }
  pose proof (send_data_raw_payload dc sid ppid data Hm) as [Hcat Hlen].
  unfold send_data_raw in *. cbn [fst] in *.
  set (fb := if negb _ then FLAG_U else 0) in *.
  fold (chan_mps dc) in *.
  assert (Hfb : fb = 0 \/ fb = FLAG_U) by (unfold fb; destruct (negb _); auto).
  pose proof (fragment_spec (chan_mps dc) fb data Hm) as Hf. cbv zeta in Hf. destruct Hf as (Hc2 & _ & _ & Hok).
  apply frags_ok_flags in Hok.
  rewrite <- Hc2 in Hw. apply wf_concat_inv in Hw.
  apply Forall_forall. intros d Hd. rewrite Forall_forall in Hlen. split; [apply Hlen; exact Hd|].
  apply in_map_iff in Hd. destruct Hd as (fp & <- & Hin). unfold wf_dchunk. cbn [d_flags d_data]. split.
  - rewrite Forall_forall in Hok. destruct (Hok fp Hin) as (f & la & ->). apply frag_flags_byte. exact Hfb.
  - rewrite Forall_forall in Hw. apply Hw. apply in_map. exact Hin.
Qed.

Lemma op_ok_send_P c o : cfg_ok c -> op_ok o -> send_P chunk_ok c o.
Proof. intros Hc Ho. destruct o; cbn [send_P op_ok] in *; auto. intros nx. apply send_data_raw_ok; assumption. Qed.

Definition packet_ok (sport dport tag : Z) (p : packet) : Prop :=
  len (packet_bytes sport dport tag p) <= MAX_SCTP_PACKET_SIZE /\
  verify_checksum (packet_bytes sport dport tag p) = true /\
  pkt_vtag (packet_bytes sport dport tag p) = tag.

Lemma chunk_ok_wchunk w : wchunk_P chunk_ok w -> (forall info, w = WHeartbeatAck info -> wf_bytes info /\ simple_chunk_len (len info) <= max_chunk) ->
  wf_wchunk w /\ wchunk_size w <= max_chunk.
Proof.
  intros Hp Hi. destruct w as [fr tsn d| |cum rwnd|rnd|info]; cbn [wchunk_P wf_wchunk] in *.
  - destruct Hp as [Hl Hw]. split; [exact Hw|apply wchunk_size_data; exact Hl].
  - split; [exact I|vm_compute; discriminate].
  - split; [exact I|vm_compute; discriminate].
  - split; [exact I|vm_compute; discriminate].
  - destruct (Hi info eq_refl) as [H1 H2]. split; [exact H1|exact H2].
Qed.

Lemma packets_of_ok sport dport tag ws :
  0 <= tag < 4294967296 ->
  Forall (fun w => wf_wchunk w /\ wchunk_size w <= max_chunk) ws ->
  Forall (packet_ok sport dport tag) (packets_of ws).
Proof.
  intros Ht H.
  assert (Hsz : Forall (fun w => wchunk_size w <= MAX_SCTP_PACKET_SIZE - SCTP_COMMON_HEADER_SIZE) ws).
  { eapply Forall_impl; [|exact H]. cbn beta. intros w [_ Hw]. exact Hw. }
  pose proof (packets_of_size sport dport tag ws Hsz) as Hs.
  apply Forall_forall. intros p Hp. rewrite Forall_forall in Hs. unfold packet_ok. split; [apply Hs; exact Hp|].
  apply packet_checksum_and_tag; [|exact Ht].
  apply Forall_forall. intros w Hw. rewrite Forall_forall in H. apply H.
  rewrite <- (chunks_of_packets_of ws). unfold chunks_of. apply in_concat. exists p. split; assumption.
Qed.

Lemma single_packet_ok sport dport tag w :
  0 <= tag < 4294967296 -> wf_wchunk w -> wchunk_size w <= max_chunk -> packet_ok sport dport tag [w].
Proof.
  intros Ht Hw Hs. unfold packet_ok. split.
  - unfold packet_bytes. rewrite len_build_packet. cbn [map concat]. rewrite app_nil_r.
    rewrite wchunk_size_encode by (pose proof max_chunk_lt_2_61; unfold max_chunk in Hs; lia).
    unfold max_chunk in Hs. rewrite common_header_size_is_12 in Hs. lia.
  - apply packet_checksum_and_tag; [constructor; [exact Hw|constructor]|exact Ht].
Qed.

Lemma step_packets_ok c s o sport dport tag :
  cfg_ok c -> 0 <= tag < 4294967296 -> state_P chunk_ok s -> op_ok o ->
  Forall (packet_ok sport dport tag) (snd (step c s o)).
Proof.
  intros Hc Ht Hs Ho.
  assert (Htx : forall s0, state_P chunk_ok s0 -> Forall (packet_ok sport dport tag) (snd (transmit c s0))).
  { intros s0 Hs0. unfold transmit. pose proof (transmit_chunks_P chunk_ok c s0 Hs0) as [_ H2].
    assert (Hno : Forall (fun w => forall info, w <> WHeartbeatAck info) (snd (transmit_chunks c s0))).
    { unfold transmit_chunks.
      destruct (retx_phase (s_sent s0) (s_flight s0)) as [[sent1 flight1] rtx] eqn:Er.
      destruct (drain _ _ _) as [batch outq'].
      destruct (assign batch (s_next_tsn s0) sent1 flight1) as [[[tsn' sent2] flight2] fresh] eqn:Ea. cbn [snd].
      apply Forall_app. split; [destruct (s_sack_needed s0); [constructor; [discriminate|constructor]|constructor]|].
      apply Forall_app. split.
      - assert (Hg : forall sent fl, Forall (fun w => forall info, w <> WHeartbeatAck info) (snd (retx_phase sent fl))).
        { induction sent as [|r t IH]; intros fl; cbn [retx_phase]; [constructor|].
          destruct (r_needs r).
          - specialize (IH (if r_inflight r then fl else fl + rec_len r)). destruct (retx_phase t _) as [[? ?] out]. cbn [snd] in *.
            constructor; [|exact IH]. unfold rec_wire. destruct (r_emptied r); discriminate.
          - specialize (IH fl). destruct (retx_phase t fl) as [[? ?] out]. exact IH. }
        specialize (Hg (s_sent s0) (s_flight s0)). rewrite Er in Hg. exact Hg.
      - assert (Hg : forall b t se fl, Forall (fun w => forall info, w <> WHeartbeatAck info) (snd (assign b t se fl))).
        { induction b as [|d b IH]; intros t se fl; cbn [assign]; [constructor|].
          specialize (IH (wrap32 (t + 1)) (sq_insert (fresh_rec t d) se) (fl + data_wire_len d)).
          destruct (assign b _ _ _) as [[[? ?] ?] out]. cbn [snd] in *. constructor; [discriminate|exact IH]. }
        specialize (Hg batch (s_next_tsn s0) sent1 flight1). rewrite Ea in Hg. exact Hg. }
    destruct (transmit_chunks c s0) as [s' chunks]. cbn [fst snd] in *.
    apply packets_of_ok; [exact Ht|].
    apply Forall_forall. intros w Hw. rewrite Forall_forall in H2, Hno.
    apply chunk_ok_wchunk; [apply H2; exact Hw|]. intros info E. exfalso. exact (Hno w Hw info E). }
  destruct o; cbn [step snd]; try constructor.
  - apply Htx. exact Hs.
  - unfold handle_sack. apply Htx. destruct Hs as [Hq Hsent]. unfold state_P.
    rewrite sack_update_outq, sack_update_sent. split; [exact Hq|apply apply_sack_P; exact Hsent].
  - apply single_packet_ok; [exact Ht|exact I|vm_compute; discriminate].
  - constructor.
  - cbn [op_ok] in Ho. destruct Ho as [H1 H2]. apply single_packet_ok; [exact Ht|exact H1|exact H2].
  - constructor.
Qed.

(* every packet of every run from a well-formed state fits MAX_SCTP_PACKET_SIZE, passes the
   receiver's checksum verification and carries the given verification tag *)
Lemma run_packets_ok c ops sport dport tag : cfg_ok c -> 0 <= tag < 4294967296 ->
  forall s, state_P chunk_ok s -> Forall op_ok ops ->
  Forall (packet_ok sport dport tag) (snd (run c s ops)).
Proof.
  intros Hc Ht. induction ops as [|o rest IH]; intros s Hs Ho; cbn [run]; [constructor|].
  inversion Ho; subst.
  pose proof (step_packets_ok c s o sport dport tag Hc Ht Hs H1) as Hp.
  pose proof (step_P chunk_ok c s o Hs (op_ok_send_P c o Hc H1)) as [S1 _].
  destruct (step c s o) as [s1 out1]. cbn [fst snd] in *.
  specialize (IH s1 S1 H2). destruct (run c s1 rest) as [s2 out2]. cbn [fst snd] in *.
  apply Forall_app. split; assumption.
Qed.

Lemma init_state_ok a b c0 : state_P chunk_ok (init_state a b c0).
Proof. split; constructor. Qed.

(* ------------------------------------------------------------------ the late-SACK filter at the 2^32 wrap (finding F-C13-1, fixed) *)
(* the filter as it was before the fix: measured against the numerically first key *)
Definition late_sack_unfixed (sent : list rec) (cum : Z) (gaps : list (Z * Z)) : bool :=
  match sent with
  | [] => false
  | r0 :: _ => (i32_sub cum (wrap32 (r_tsn r0 - 1)) <? 0) && (i32_sub (max_reported_of cum gaps) (r_tsn r0) <? 0)
  end.

Definition wrap_cfg : cfg := mkCfg 0 262144 8 131072 [mkCh 0 true 1200].
Definition wrap_prefix : list op := [OpSend 0 53 [1]; OpSend 0 53 [2]; OpSend 0 53 [3]; OpTransmit].
Definition wrap_state : st := fst (run wrap_cfg (init_state 4294967294 1048576 5) wrap_prefix).

(* three chunks with TSNs 2^32-2, 2^32-1, 0 are outstanding; the peer acknowledges 2^32-2.
   Unfixed: the SACK is classified as late although it covers an outstanding TSN ... *)
Lemma wrap_unfixed_drops_fresh_sack :
  map r_tsn (s_sent wrap_state) = [0; 4294967294; 4294967295] /\
  late_sack_unfixed (s_sent wrap_state) 4294967294 [] = true /\
  sack_covers 4294967294 [] 4294967294 /\
  rtxable (s_sent wrap_state) 4294967294.
Proof.
  split; [vm_compute; reflexivity|]. split; [vm_compute; reflexivity|]. split; [left; vm_compute; discriminate|].
  unfold rtxable. eexists. split; [right; left; reflexivity|]. vm_compute. split; reflexivity.
Qed.
(* ... fixed: it is processed, and the run in which T3 then fires does not retransmit 2^32-2 *)
Lemma wrap_fixed_processes_sack :
  late_sack (s_sent wrap_state) 4294967294 [] = false /\
  retx_tsns (chunks_of (snd (run wrap_cfg wrap_state [OpSack 10 4294967294 1048576 []; OpT3; OpTransmit]))) = [0; 4294967295].
Proof. split; vm_compute; reflexivity. Qed.

Lemma acked_emptied_reachable c ops a b c0 : acked_emptied (s_sent (fst (run c (init_state a b c0) ops))).
Proof. exact (run_acked_emptied c ops _ (init_acked_emptied a b c0)). Qed.

(* ------------------------------------------------------------------ a dropped (late) SACK covers nothing outstanding *)
(* serial difference of two TSNs given by their unbounded indices *)
Lemma i32_sub_idx base a b : - 2147483648 <= a - b < 2147483648 ->
  i32_sub (wrap32 (base + a)) (wrap32 (base + b)) = a - b.
Proof.
  intros H. unfold i32_sub. rewrite !wrap32_mod. change (2 ^ 32) with 4294967296.
  rewrite <- Zminus_mod.
  replace (base + a - (base + b)) with (a - b) by lia.
  destruct ((a - b) mod 4294967296 <? 2147483648) eqn:E; [apply Z.ltb_lt in E|apply Z.ltb_ge in E]; lia.
Qed.

Lemma wrap32_idx_pred base k : wrap32 (wrap32 (base + k) - 1) = wrap32 (base + (k - 1)).
Proof. rewrite !wrap32_mod. change (2 ^ 32) with 4294967296. rewrite Zminus_mod_idemp_l. f_equal. lia. Qed.
Lemma wadd32_idx base k o : wadd32 (wrap32 (base + k)) o = wrap32 (base + (k + o)).
Proof. unfold wadd32. rewrite wrap32_add_l. f_equal. lia. Qed.

(* circular interval test on indices *)
Lemma in_range_idx base a b c :
  a <= b -> b < c -> c - a < 2147483648 ->
  in_range (wrap32 (base + a), wrap32 (base + b)) (wrap32 (base + c)) = false.
Proof.
  intros H1 H2 H3. unfold in_range. rewrite !wrap32_mod. change (2 ^ 32) with 4294967296.
  destruct ((base + a) mod 4294967296 <=? (base + b) mod 4294967296) eqn:E.
  - apply Z.leb_le in E. apply andb_false_iff.
    destruct (Z_le_gt_dec ((base + a) mod 4294967296) ((base + c) mod 4294967296)) as [L|L].
    + right. apply Z.leb_gt. lia.
    + left. apply Z.leb_gt. lia.
  - apply Z.leb_gt in E. apply orb_false_iff. split; apply Z.leb_gt; lia.
Qed.

Definition max_end (gaps : list (Z * Z)) (m : Z) : Z := fold_left (fun m g => Z.max m (snd g)) gaps m.

Lemma max_reported_idx base kc gaps : forall m,
  0 <= m < 65536 -> Forall (fun g => 0 <= snd g < 65536) gaps ->
  fold_left (fun mr g => let be := wadd32 (wrap32 (base + kc)) (snd g) in if i32_sub be mr >? 0 then be else mr)
            gaps (wrap32 (base + (kc + m))) = wrap32 (base + (kc + max_end gaps m)) /\
  0 <= max_end gaps m < 65536 /\ m <= max_end gaps m /\ Forall (fun g => snd g <= max_end gaps m) gaps.
Proof.
  induction gaps as [|g gaps IH]; intros m Hm Hg; cbn [fold_left max_end].
  - unfold max_end. cbn [fold_left]. split; [reflexivity|]. split; [lia|]. split; [lia|apply Forall_nil].
  - inversion Hg; subst. cbv zeta. rewrite wadd32_idx.
    rewrite i32_sub_idx by lia.
    replace (kc + snd g - (kc + m)) with (snd g - m) by lia.
    destruct (snd g - m >? 0) eqn:E.
    + apply Z.gtb_lt in E. replace (Z.max m (snd g)) with (snd g) by lia.
      destruct (IH (snd g) ltac:(lia) H2) as (I1 & I2 & I3 & I4). unfold max_end in *.
      split; [exact I1|]. split; [lia|]. split; [lia|]. constructor; [lia|assumption].
    + rewrite Z.gtb_ltb in E. apply Z.ltb_ge in E. replace (Z.max m (snd g)) with m by lia.
      destruct (IH m Hm H2) as (I1 & I2 & I3 & I4). unfold max_end in *.
      split; [exact I1|]. split; [lia|]. split; [lia|]. constructor; [lia|assumption].
Qed.

(* a SACK that the (fixed) late filter drops acknowledges nothing that is outstanding: when the
   filter's reference is the serially oldest outstanding TSN and everything lies within a window of
   2^30 TSNs, no queued record is covered by the cumulative ack or by a (well-formed) gap block *)
Lemma late_sack_covers_nothing base kmin kc sent cum gaps :
  oldest_tsn sent = Some (wrap32 (base + kmin)) ->
  (forall r, In r sent -> exists k, r_tsn r = wrap32 (base + k) /\ kmin <= k < kmin + 1073741824) ->
  cum = wrap32 (base + kc) -> kmin - 1073741824 <= kc < kmin + 1073741824 ->
  Forall (fun g => 0 <= fst g <= snd g /\ snd g < 65536) gaps ->
  late_sack sent cum gaps = true ->
  forall r, In r sent -> ~ sack_covers cum gaps (r_tsn r).
Proof.
  intros Ho Hk Hc Hkc Hg Hl r Hr. unfold late_sack in Hl. rewrite Ho in Hl.
  apply andb_true_iff in Hl. destruct Hl as [L1 L2]. apply Z.ltb_lt in L1. apply Z.ltb_lt in L2.
  subst cum. rewrite wrap32_idx_pred in L1. rewrite i32_sub_idx in L1 by lia.
  assert (Hg2 : Forall (fun g => 0 <= snd g < 65536) gaps) by (eapply Forall_impl; [|exact Hg]; cbn beta; intros; lia).
  unfold max_reported_of in L2.
  destruct (max_reported_idx base kc gaps 0 ltac:(lia) Hg2) as (M1 & M2 & M3 & M4).
  assert (E0 : wrap32 (base + (kc + 0)) = wrap32 (base + kc)) by (f_equal; lia).
  rewrite E0 in M1. cbv zeta in M1. rewrite M1 in L2. rewrite i32_sub_idx in L2 by lia.
  destruct (Hk r Hr) as (k & Ht & Hkr). rewrite Ht.
  intros [Hcov|(g & Hgin & Hin)].
  - rewrite i32_sub_idx in Hcov by lia. lia.
  - unfold block_range in Hin. rewrite !wadd32_idx in Hin.
    rewrite Forall_forall in Hg, M4. specialize (Hg g Hgin). specialize (M4 g Hgin).
    rewrite in_range_idx in Hin by lia. discriminate.
Qed.

(* ------------------------------------------------------------------ the sent queue is sorted; oldest_tsn is the serial minimum *)
Definition tsn_lt (a b : rec) : Prop := r_tsn a < r_tsn b.
Definition sorted (sent : list rec) : Prop := StronglySorted tsn_lt sent.

Lemma sorted_head_min r0 l x : sorted (r0 :: l) -> In x (r0 :: l) -> r_tsn r0 <= r_tsn x.
Proof.
  intros Hs [<-|Hin]; [lia|]. inversion Hs; subst. rewrite Forall_forall in H2. specialize (H2 x Hin). unfold tsn_lt in H2. lia.
Qed.

Lemma last_default_irrel {A} (l : list A) : forall y d1 d2, last (y :: l) d1 = last (y :: l) d2.
Proof.
  induction l as [|z l IH]; intros y d1 d2; [reflexivity|].
  change (last (y :: z :: l) d1) with (last (z :: l) d1). change (last (y :: z :: l) d2) with (last (z :: l) d2). apply IH.
Qed.

Lemma sorted_last_max l : forall r0 x, sorted (r0 :: l) -> In x (r0 :: l) -> r_tsn x <= r_tsn (last (r0 :: l) r0).
Proof.
  induction l as [|y l IH]; intros r0 x Hs Hin.
  - destruct Hin as [<-|[]]. cbn. lia.
  - inversion Hs; subst. change (last (r0 :: y :: l) r0) with (last (y :: l) r0).
    rewrite (last_default_irrel l y r0 y). destruct Hin as [Hx|Hin].
    + subst x. rewrite Forall_forall in H2. assert (Hy : tsn_lt r0 y) by (apply H2; left; reflexivity).
      pose proof (IH y y H1 (or_introl eq_refl)). unfold tsn_lt in Hy. lia.
    + apply IH; assumption.
Qed.

Lemma find_skip {A} (f : A -> bool) l1 y l2 : (forall x, In x l1 -> f x = false) -> f y = true -> find f (l1 ++ y :: l2) = Some y.
Proof.
  induction l1 as [|a l1 IH]; intros H1 Hy; cbn [app find]; [rewrite Hy; reflexivity|].
  rewrite (H1 a (or_introl eq_refl)). apply IH; [intros x Hx; apply H1; right; exact Hx|exact Hy].
Qed.

Lemma sorted_split l : forall x, sorted l -> In x l -> exists l1 l2, l = l1 ++ x :: l2 /\ forall y, In y l1 -> r_tsn y < r_tsn x.
Proof.
  induction l as [|a l IH]; intros x Hs Hin; [destruct Hin|].
  inversion Hs; subst. destruct Hin as [<-|Hin].
  - exists [], l. split; [reflexivity|intros y []].
  - destruct (IH x H1 Hin) as (l1 & l2 & -> & Hlt). exists (a :: l1), l2. split; [reflexivity|].
    intros y [<-|Hy]; [|apply Hlt; exact Hy]. rewrite Forall_forall in H2. apply H2. apply in_or_app. right. left. reflexivity.
Qed.

Lemma wrap32_plus_cases m j : 0 <= m < 4294967296 -> 0 <= j < 1073741824 ->
  (wrap32 (m + j) = m + j /\ m + j < 4294967296) \/ (wrap32 (m + j) = m + j - 4294967296 /\ 4294967296 <= m + j).
Proof. intros Hm Hj. rewrite wrap32_mod. change (2 ^ 32) with 4294967296. lia. Qed.

Lemma oldest_tsn_is_serial_min m sent :
  0 <= m < 4294967296 -> sorted sent ->
  (forall r, In r sent -> exists j, 0 <= j < 1073741824 /\ r_tsn r = wrap32 (m + j)) ->
  (exists r, In r sent /\ r_tsn r = m) ->
  oldest_tsn sent = Some m.
Proof.
  intros Hm Hs Hall (rm & Hrm & Etm).
  destruct sent as [|r0 l]; [destruct Hrm|].
  unfold oldest_tsn.
  pose proof (sorted_head_min r0 l rm Hs Hrm) as Hfirst.
  pose proof (sorted_last_max l r0 rm Hs Hrm) as Hlast.
  destruct (Hall r0 (or_introl eq_refl)) as (j0 & Hj0 & E0).
  assert (Hlin : In (last (r0 :: l) r0) (r0 :: l)).
  { destruct (exists_last (l:=r0 :: l) ltac:(discriminate)) as (l' & x & E). rewrite E. rewrite last_last. apply in_or_app. right. left. reflexivity. }
  destruct (Hall _ Hlin) as (jl & Hjl & El).
  destruct (wrap32_plus_cases m j0 Hm Hj0) as [[W0 B0]|[W0 B0]];
  destruct (wrap32_plus_cases m jl Hm Hjl) as [[Wl Bl]|[Wl Bl]].
  - (* nothing wraps at the ends: head is m *)
    assert (r_tsn r0 = m) by lia.
    assert (Hd : i32_sub (r_tsn (last (r0 :: l) r0)) (r_tsn r0) = jl).
    { rewrite El, E0. rewrite i32_sub_idx by lia. lia. }
    rewrite Hd. destruct (jl <? 0) eqn:E; [apply Z.ltb_lt in E; lia|]. rewrite H. reflexivity.
  - (* the last key wrapped but the first did not: impossible, last >= m *)
    lia.
  - (* straddle: first wrapped, last not *)
    assert (Hd : i32_sub (r_tsn (last (r0 :: l) r0)) (r_tsn r0) = jl - j0).
    { rewrite El, E0. apply i32_sub_idx. lia. }
    rewrite Hd. destruct (jl - j0 <? 0) eqn:E; [|apply Z.ltb_ge in E; lia].
    destruct (sorted_split (r0 :: l) rm Hs Hrm) as (l1 & l2 & Esplit & Hlt).
    rewrite Esplit. rewrite (find_skip _ l1 rm l2).
    + rewrite Etm. reflexivity.
    + intros x Hx. apply Z.leb_gt. specialize (Hlt x Hx).
      assert (Hxin : In x (r0 :: l)) by (rewrite Esplit; apply in_or_app; left; exact Hx).
      destruct (Hall x Hxin) as (jx & Hjx & Ex). destruct (wrap32_plus_cases m jx Hm Hjx) as [[Wx Bx]|[Wx Bx]]; unfold OLDEST_UPPER_HALF; lia.
    + apply Z.leb_le. unfold OLDEST_UPPER_HALF. lia.
  - (* both ends wrapped: then m (unwrapped, in the list) would exceed the last key *)
    lia.
Qed.

(* ------------------------------------------------------------------ sortedness is an invariant *)
Lemma sorted_map_tsn l : forall l', map r_tsn l' = map r_tsn l -> sorted l -> sorted l'.
Proof.
  induction l as [|a l IH]; intros l' E Hs.
  - destruct l'; [constructor|discriminate].
  - destruct l' as [|a' l']; [discriminate|]. cbn [map] in E. inversion E. inversion Hs; subst.
    constructor; [apply IH; assumption|].
    apply Forall_forall. intros x Hx. unfold tsn_lt. rewrite H0.
    assert (In (r_tsn x) (map r_tsn l)) by (rewrite <- H1; apply in_map; exact Hx).
    apply in_map_iff in H. destruct H as (y & Ey & Hy). rewrite Forall_forall in H4. specialize (H4 y Hy). unfold tsn_lt in H4. lia.
Qed.

Lemma sorted_filter f l : sorted l -> sorted (filter f l).
Proof.
  induction 1 as [|a l Hs IH Hall]; cbn [filter]; [constructor|].
  destruct (f a); [|exact IH]. constructor; [exact IH|].
  apply Forall_forall. intros x Hx. apply filter_In in Hx. rewrite Forall_forall in Hall. apply Hall. apply Hx.
Qed.

Lemma sorted_sq_insert x l : sorted l -> sorted (sq_insert x l).
Proof.
  induction 1 as [|a l Hs IH Hall]; cbn [sq_insert]; [constructor; constructor|].
  destruct (r_tsn x <? r_tsn a) eqn:E1.
  - apply Z.ltb_lt in E1. constructor; [constructor; assumption|].
    constructor; [exact E1|]. eapply Forall_impl; [|exact Hall]. unfold tsn_lt. cbn beta. intros; lia.
  - apply Z.ltb_ge in E1. destruct (r_tsn x =? r_tsn a) eqn:E2.
    + apply Z.eqb_eq in E2. constructor; [exact Hs|]. eapply Forall_impl; [|exact Hall]. unfold tsn_lt. cbn beta. intros; lia.
    + apply Z.eqb_neq in E2. constructor; [exact IH|].
      apply Forall_forall. intros y Hy. apply sq_insert_in in Hy. destruct Hy as [->|Hy]; [unfold tsn_lt; lia|].
      rewrite Forall_forall in Hall. apply Hall. exact Hy.
Qed.

Lemma retx_phase_tsns sent : forall flight, map r_tsn (fst (fst (retx_phase sent flight))) = map r_tsn sent.
Proof.
  induction sent as [|r t IH]; intros flight; cbn [retx_phase]; [reflexivity|].
  destruct (r_needs r).
  - specialize (IH (if r_inflight r then flight else flight + rec_len r)). destruct (retx_phase t _) as [[t' fl] out]. cbn [fst map] in *. rewrite IH. reflexivity.
  - specialize (IH flight). destruct (retx_phase t flight) as [[t' fl] out]. cbn [fst map] in *. rewrite IH. reflexivity.
Qed.
Lemma t3_mark_tsns sent : forall n, map r_tsn (t3_mark sent n) = map r_tsn sent.
Proof.
  induction sent as [|r t IH]; intros n; cbn [t3_mark]; [reflexivity|].
  destruct (negb (r_acked r)); [destruct (n <? RETRANSMIT_BURST)|]; cbn [map r_tsn]; rewrite IH; reflexivity.
Qed.
Lemma tlp_mark_tsns sent : forall sent' add, tlp_mark sent = Some (sent', add) -> map r_tsn sent' = map r_tsn sent.
Proof.
  induction sent as [|r t IH]; intros sent' add E; cbn [tlp_mark] in E; [discriminate|].
  destruct (tlp_mark t) as [[t' a']|] eqn:Et.
  - inversion E; subst. cbn [map]. rewrite (IH t' add eq_refl). reflexivity.
  - destruct (negb (r_acked r)); [|discriminate]. inversion E; subst. reflexivity.
Qed.
Lemma assign_sorted batch : forall tsn sent flight, sorted sent -> sorted (snd (fst (fst (assign batch tsn sent flight)))).
Proof.
  induction batch as [|d b IH]; intros tsn sent flight Hs; cbn [assign]; [exact Hs|].
  specialize (IH (wrap32 (tsn + 1)) (sq_insert (fresh_rec tsn d) sent) (flight + data_wire_len d) (sorted_sq_insert _ _ Hs)).
  destruct (assign b _ _ _) as [[[tsn' sent'] fl] out]. exact IH.
Qed.
Lemma apply_sack_sorted sent cum gaps now cnt mx : sorted sent -> sorted (fst (apply_sack sent cum gaps now cnt mx)).
Proof.
  intros Hs. unfold apply_sack. destruct (late_sack sent cum gaps); cbn [fst]; [exact Hs|].
  eapply sorted_map_tsn; [|apply (sorted_filter (fun r => negb (cum_covered cum r)) sent Hs)].
  rewrite !map_map. apply map_ext. intros r.
  destruct (miss_update_proj cnt now mx (max_reported_of cum gaps) (gap_mark (map (block_range cum) gaps) r)) as (M1 & _).
  destruct (gap_mark_proj (map (block_range cum) gaps) r) as (G1 & _). congruence.
Qed.

Lemma step_sorted c s o : sorted (s_sent s) -> sorted (s_sent (fst (step c s o))).
Proof.
  intros Hs.
  assert (Htx : forall s0, sorted (s_sent s0) -> sorted (s_sent (fst (transmit c s0)))).
  { intros s0 H0. unfold transmit, transmit_chunks.
    pose proof (retx_phase_tsns (s_sent s0) (s_flight s0)) as Hr.
    destruct (retx_phase (s_sent s0) (s_flight s0)) as [[sent1 flight1] rtx]. cbn [fst] in Hr.
    destruct (drain _ _ _) as [batch outq'].
    pose proof (assign_sorted batch (s_next_tsn s0) sent1 flight1 (sorted_map_tsn _ _ Hr H0)) as Ha.
    destruct (assign batch (s_next_tsn s0) sent1 flight1) as [[[tsn' sent2] flight2] fresh]. cbn [fst snd] in *. sset. exact Ha. }
  destruct o; cbn [step fst].
  - rewrite enqueue_sent. exact Hs.
  - apply Htx. exact Hs.
  - unfold handle_sack. apply Htx. rewrite sack_update_sent. apply apply_sack_sorted. exact Hs.
  - unfold handle_t3. destruct (existsb _ _); [|exact Hs]. sset. eapply sorted_map_tsn; [apply t3_mark_tsns|exact Hs].
  - unfold handle_tlp. destruct (s_tlp_sent s); [exact Hs|]. destruct (tlp_mark (s_sent s)) as [[sent' add]|] eqn:E; [|exact Hs].
    sset. eapply sorted_map_tsn; [eapply tlp_mark_tsns; exact E|exact Hs].
  - exact Hs.
  - exact Hs.
  - destruct (handle_data_next_proj s) as [_ ->]. exact Hs.
  - destruct (flush_sack_delay_proj s) as [_ ->]. exact Hs.
Qed.

Lemma run_sorted c ops : forall s, sorted (s_sent s) -> sorted (s_sent (fst (run c s ops))).
Proof.
  induction ops as [|o rest IH]; intros s Hs; cbn [run]; [exact Hs|].
  pose proof (step_sorted c s o Hs) as H1. destruct (step c s o) as [s1 out1]. cbn [fst] in H1.
  specialize (IH s1 H1). destruct (run c s1 rest) as [s2 out2]. exact IH.
Qed.

(* in every reachable state: if the outstanding TSNs are m, and others within 2^30 after m, a SACK
   (cumulative point within 2^30 of m, well-formed gap blocks) that the late filter drops covers none
   of the outstanding TSNs -- so dropping it cannot leave an acknowledged chunk to be retransmitted *)
Lemma dropped_sack_covers_nothing c ops a b c0 m kc cum gaps :
  let sent := s_sent (fst (run c (init_state a b c0) ops)) in
  0 <= m < 4294967296 ->
  (forall r, In r sent -> exists j, 0 <= j < 1073741824 /\ r_tsn r = wrap32 (m + j)) ->
  (exists r, In r sent /\ r_tsn r = m) ->
  cum = wrap32 (m + kc) -> - 1073741824 <= kc < 1073741824 ->
  Forall (fun g => 0 <= fst g <= snd g /\ snd g < 65536) gaps ->
  late_sack sent cum gaps = true ->
  forall r, In r sent -> ~ sack_covers cum gaps (r_tsn r).
Proof.
  cbv zeta. intros Hm Hall Hex Hc Hkc Hg Hl.
  assert (Hs : sorted (s_sent (fst (run c (init_state a b c0) ops)))) by (apply run_sorted; constructor).
  pose proof (oldest_tsn_is_serial_min m _ Hm Hs Hall Hex) as Ho.
  apply (late_sack_covers_nothing m 0 kc _ cum gaps).
  - rewrite Z.add_0_r, wrap32_small by exact Hm. exact Ho.
  - intros r Hr. destruct (Hall r Hr) as (j & Hj & E). exists j. split; [exact E|lia].
  - exact Hc.
  - lia.
  - exact Hg.
  - exact Hl.
Qed.
