(* The sender's chunk stream (send_data_raw + TSN assignment) processed IN ORDER by the receiver's
   process_data_payload logs, on every channel, a prefix of what was submitted on that channel:
   fragments of one message are contiguous, B clears and E emits the per-channel buffer, and for
   ordered delivery the SSN of the k-th ordered message equals the receiver's next_ssn (both count
   mod 2^16), so InboundStream never has anything pending. *)
From Coq Require Import ZArith List Bool Lia.
From RV Require Import Lib.Wrap Gen.Consts Gen.Serial Gen.Sctp Model.SctpRecv Proofs.SctpRecvBase.
Import ListNotations.
Open Scope Z_scope.

(* ------------------------------------------------------------------ flags *)
Lemma rx_b_tx u f l : rx_flag_b (tx_flags u f l) = f.
Proof. destruct u, f, l; reflexivity. Qed.
Lemma rx_e_tx u f l : rx_flag_e (tx_flags u f l) = l.
Proof. destruct u, f, l; reflexivity. Qed.
Lemma rx_u_tx u f l : rx_flag_u (tx_flags u f l) = u.
Proof. destruct u, f, l; reflexivity. Qed.
Lemma rx_b_tx_empty u : rx_flag_b (tx_flags_empty u) = true.
Proof. destruct u; reflexivity. Qed.
Lemma rx_e_tx_empty u : rx_flag_e (tx_flags_empty u) = true.
Proof. destruct u; reflexivity. Qed.
Lemma rx_u_tx_empty u : rx_flag_u (tx_flags_empty u) = u.
Proof. destruct u; reflexivity. Qed.

(* ------------------------------------------------------------------ fragmentation *)
Lemma split_frags_concat fuel mps d : concat (split_frags fuel mps d) = d.
Proof.
  revert d. induction fuel as [|f IH]; intros d; cbn.
  - apply app_nil_r.
  - destruct (length d <=? mps)%nat; cbn.
    + apply app_nil_r.
    + rewrite IH. apply firstn_skipn.
Qed.

Lemma split_frags_nonempty fuel mps d : split_frags fuel mps d <> [].
Proof. destruct fuel; cbn; [discriminate|]. destruct (length d <=? mps)%nat; discriminate. Qed.

(* ------------------------------------------------------------------ InboundStream with nothing pending *)
Lemma enqueue_in_order n m : enqueue (mkIS n []) n m = ([m], mkIS (w16 (n + 1)) []).
Proof.
  unfold enqueue. cbn [is_pend length is_next].
  assert (Hcap : (MAX_INBOUND_STREAM_PENDING <=? Z.of_nat 0) = false) by reflexivity.
  rewrite Hcap. unfold drain_ready, pm_insert, pm_remove. cbn [is_pend filter length drain is_next pm_find].
  rewrite Z.eqb_refl. unfold pm_remove. cbn [filter fst]. rewrite Z.eqb_refl. cbn [negb pm_find]. reflexivity.
Qed.

(* ------------------------------------------------------------------ static configuration is preserved *)
Definition same_cfg (a a' : app) : Prop :=
  forall x, option_map ch_ordered (find_chan x (a_chans a')) = option_map ch_ordered (find_chan x (a_chans a)).

Lemma same_cfg_refl a : same_cfg a a.
Proof. intros x. reflexivity. Qed.
Lemma same_cfg_trans a b c : same_cfg a b -> same_cfg b c -> same_cfg a c.
Proof. intros H1 H2 x. rewrite H2, H1. reflexivity. Qed.

Lemma upd_buf_cfg sid b chans x :
  option_map ch_ordered (find_chan x (upd_chan sid (with_buf b) chans)) = option_map ch_ordered (find_chan x chans).
Proof.
  rewrite find_upd_chan by apply with_buf_id.
  destruct (Z.eqb_spec x sid) as [->|]; [|reflexivity].
  destruct (find_chan sid chans); reflexivity.
Qed.

Lemma proc_data_cfg a p : same_cfg a (fst (proc_data a p)).
Proof.
  intros x. unfold proc_data. destruct (find_chan (p_sid p) (a_chans a)) as [ch|]; [|reflexivity].
  destruct (rx_flag_e (p_flags p)).
  - destruct (rx_flag_u (p_flags p) || negb (ch_ordered ch)); [|destruct (enqueue _ _ _)]; cbn; apply upd_buf_cfg.
  - cbn. apply upd_buf_cfg.
Qed.

Lemma proc_data_unknown a p : find_chan (p_sid p) (a_chans a) = None -> proc_data a p = (a, []).
Proof. intros H. unfold proc_data. rewrite H. reflexivity. Qed.

Lemma find_upd_same sid b chans ch :
  find_chan sid chans = Some ch -> find_chan sid (upd_chan sid (with_buf b) chans) = Some (with_buf b ch).
Proof. intros H. rewrite find_upd_chan by apply with_buf_id. rewrite Z.eqb_refl, H. reflexivity. Qed.

(* ------------------------------------------------------------------ one message, fragment by fragment *)
Section OneMessage.
Variables (u : bool) (sid ssn ppid : Z).

(* a proper prefix of the fragment list logs nothing *)
Lemma frags_partial fr : forall first a j c,
  (j < length fr)%nat ->
  log_of c (snd (proc_all a (firstn j (mk_frags u sid ssn ppid first fr)))) = [].
Proof.
  induction fr as [|f rest IH]; intros first a j c Hj; cbn in Hj; [lia|].
  destruct j as [|j]; [reflexivity|].
  destruct rest as [|f2 rest'].
  - cbn in Hj. lia.
  - cbn [mk_frags firstn]. rewrite proc_all_cons. cbn [snd]. rewrite log_of_app.
    set (p := mkP (tx_flags u first false) sid ssn ppid f).
    assert (He : snd (proc_data a p) = []).
    { unfold proc_data. destruct (find_chan (p_sid p) (a_chans a)); [|reflexivity].
      subst p. cbn [p_flags]. rewrite rx_e_tx. reflexivity. }
    rewrite He. cbn [log_of flat_map List.app].
    apply (IH false (fst (proc_data a p)) j c). cbn [length] in Hj |- *. lia.
Qed.

(* the whole fragment list: the reassembled message is delivered (directly or through the
   ordered stream), the static configuration is unchanged *)
Lemma frags_full (fr : list (list Z)) : forall (first : bool) (a : app) (ch : chan),
  fr <> [] ->
  find_chan sid (a_chans a) = Some ch ->
  let M : list Z := (if first then @nil Z else ch_buf ch) ++ concat fr in
  let r := proc_all a (mk_frags u sid ssn ppid first fr) in
  same_cfg a (fst r) /\
  if u || negb (ch_ordered ch)
  then a_streams (fst r) = a_streams a /\ snd r = [Ev sid (EMsg M)]
  else a_streams (fst r) = sm_set sid (snd (enqueue (sm_get sid (a_streams a)) ssn M)) (a_streams a) /\
       snd r = deliver sid (fst (enqueue (sm_get sid (a_streams a)) ssn M)).
Proof.
  induction fr as [|f rest IH]; intros first a ch Hne Hfind; [contradiction|].
  destruct rest as [|f2 rest'].
  - (* last fragment *)
    cbn [mk_frags proc_all concat]. rewrite app_nil_r.
    unfold proc_data. cbn [p_sid p_flags p_data p_ssn]. rewrite Hfind, rx_e_tx, rx_b_tx, rx_u_tx.
    destruct (u || negb (ch_ordered ch)).
    + cbn. split; [intros x; apply upd_buf_cfg|]. split; reflexivity.
    + destruct (enqueue (sm_get sid (a_streams a)) ssn ((if first then [] else ch_buf ch) ++ f)) as [ready s'].
      cbn. split; [intros x; apply upd_buf_cfg|]. rewrite app_nil_r. split; reflexivity.
  - (* a fragment that is not the last *)
    set (p := mkP (tx_flags u first false) sid ssn ppid f).
    change (mk_frags u sid ssn ppid first (f :: f2 :: rest'))
      with (p :: mk_frags u sid ssn ppid false (f2 :: rest')).
    assert (Hp : proc_data a p =
                 (mkApp3 (upd_chan sid (with_buf ((if first then [] else ch_buf ch) ++ f)) (a_chans a)) (a_streams a) (a_dcep a), [])).
    { unfold proc_data. subst p. cbn [p_sid p_flags p_data]. rewrite Hfind, rx_e_tx, rx_b_tx. reflexivity. }
    cbn zeta. rewrite proc_all_cons, Hp. cbn [fst snd List.app].
    set (B := (if first then [] else ch_buf ch) ++ f).
    set (a1 := mkApp3 (upd_chan sid (with_buf B) (a_chans a)) (a_streams a) (a_dcep a)).
    assert (Hf1 : find_chan sid (a_chans a1) = Some (with_buf B ch)) by (apply find_upd_same; exact Hfind).
    specialize (IH false a1 (with_buf B ch) ltac:(discriminate) Hf1).
    cbn [ch_buf with_buf ch_ordered] in IH. cbn zeta in IH.
    destruct IH as [Hcfg Hrest].
    assert (HM : B ++ concat (f2 :: rest') = (if first then [] else ch_buf ch) ++ concat (f :: f2 :: rest')).
    { subst B. cbn [concat]. rewrite <- app_assoc. reflexivity. }
    rewrite HM in Hrest.
    split.
    + eapply same_cfg_trans; [|exact Hcfg]. intros x. subst a1. cbn [a_chans]. apply upd_buf_cfg.
    + exact Hrest.
Qed.

End OneMessage.

(* ------------------------------------------------------------------ sender / receiver SSN agreement *)
Section Stream.
Variable sc : list schan.

Definition ssn_rel (ssns : ssn_map) (a : app) : Prop :=
  forall sid sch rch,
    find_schan sid sc = Some sch -> sc_ordered sch = true ->
    find_chan sid (a_chans a) = Some rch -> ch_ordered rch = true ->
    sm_get sid (a_streams a) = mkIS (ssn_get sid ssns) [].

Definition wf_sub (s : sub) : Prop :=
  s_ppid s <> DATA_CHANNEL_PPID_DCEP /\ find_schan (s_sid s) sc <> None.

Lemma find_schan_id sid l c : find_schan sid l = Some c -> sc_id c = sid.
Proof.
  induction l as [|x l IH]; cbn; [discriminate|].
  destruct (Z.eqb_spec (sc_id x) sid) as [E|E]; [intros H; injection H as <-; exact E|exact IH].
Qed.

Lemma sub_frags_not_dcep un ssn mps s : s_ppid s <> DATA_CHANNEL_PPID_DCEP -> Forall not_dcep (sub_frags un ssn mps s).
Proof.
  intros H. unfold sub_frags. destruct (s_data s) as [|b d]; [constructor; [exact H|constructor]|].
  generalize (split_frags (length (b :: d)) (Z.to_nat mps) (b :: d)) as fr. generalize true as first.
  intros first fr. revert first. induction fr as [|f rest IH]; intros first; cbn; [constructor|].
  destruct rest; constructor; try exact H; try constructor. apply IH.
Qed.

Lemma pchunks_not_dcep W : forall ssns, Forall wf_sub W -> Forall not_dcep (pchunks sc ssns W).
Proof.
  induction W as [|s W IH]; intros ssns H; cbn; [constructor|].
  inversion H as [|? ? [Hp Hk] HW]; subst.
  destruct (find_schan (s_sid s) sc); [|contradiction].
  apply Forall_app. split; [apply sub_frags_not_dcep; exact Hp|apply IH; exact HW].
Qed.

(* one whole submission processed in order *)
Lemma msg_full un ssn mps s a :
  let r := proc_all a (sub_frags un ssn mps s) in
  same_cfg a (fst r) /\
  match find_chan (s_sid s) (a_chans a) with
  | None => fst r = a /\ snd r = []
  | Some ch =>
    if un || negb (ch_ordered ch)
    then a_streams (fst r) = a_streams a /\ snd r = [Ev (s_sid s) (EMsg (s_data s))]
    else a_streams (fst r) =
           sm_set (s_sid s) (snd (enqueue (sm_get (s_sid s) (a_streams a)) ssn (s_data s))) (a_streams a) /\
         snd r = deliver (s_sid s) (fst (enqueue (sm_get (s_sid s) (a_streams a)) ssn (s_data s)))
  end.
Proof.
  cbn zeta. destruct (find_chan (s_sid s) (a_chans a)) as [ch|] eqn:Hfind.
  - unfold sub_frags. destruct (s_data s) as [|b d] eqn:Ed.
    + (* empty message: one chunk with B and E *)
      cbn [proc_all]. unfold proc_data. cbn [p_sid p_flags p_data p_ssn].
      rewrite Hfind, rx_e_tx_empty, rx_b_tx_empty, rx_u_tx_empty.
      destruct (un || negb (ch_ordered ch)).
      * cbn. split; [intros x; apply upd_buf_cfg|]. split; reflexivity.
      * destruct (enqueue (sm_get (s_sid s) (a_streams a)) ssn ([] ++ [])) as [ready s'] eqn:Eq.
        cbn [List.app] in Eq. rewrite Eq. cbn. split; [intros x; apply upd_buf_cfg|]. rewrite app_nil_r. split; reflexivity.
    + pose proof (frags_full un (s_sid s) ssn (s_ppid s) (split_frags (length (b :: d)) (Z.to_nat mps) (b :: d))
                             true a ch (split_frags_nonempty _ _ _) Hfind) as H.
      cbn zeta in H. rewrite split_frags_concat in H. cbn [List.app] in H. exact H.
  - assert (H : forall fr, Forall (fun p => p_sid p = s_sid s) fr -> proc_all a fr = (a, [])).
    { induction fr as [|p fr IH]; intros Hall; [reflexivity|]. inversion Hall; subst.
      cbn [proc_all]. rewrite proc_data_unknown by congruence. rewrite IH by assumption. reflexivity. }
    assert (Hs : Forall (fun p => p_sid p = s_sid s) (sub_frags un ssn mps s)).
    { unfold sub_frags. destruct (s_data s) as [|b d]; [constructor; [reflexivity|constructor]|].
      generalize (split_frags (length (b :: d)) (Z.to_nat mps) (b :: d)) as fr. generalize true as first.
      intros first fr. revert first. induction fr as [|f rest IHf]; intros first; cbn; [constructor|].
      destruct rest; constructor; try reflexivity; try constructor. apply IHf. }
    rewrite (H _ Hs). cbn. split; [apply same_cfg_refl|split; reflexivity].
Qed.

Lemma msg_partial un ssn mps s a j c :
  (j < length (sub_frags un ssn mps s))%nat ->
  log_of c (snd (proc_all a (firstn j (sub_frags un ssn mps s)))) = [].
Proof.
  unfold sub_frags. destruct (s_data s) as [|b d].
  - cbn [length]. intros Hj. assert (j = 0)%nat by lia. subst j. reflexivity.
  - intros Hj.
    assert (Hl : forall fr first, length (mk_frags un (s_sid s) ssn (s_ppid s) first fr) = length fr).
    { induction fr as [|f rest IHf]; intros first; cbn; [reflexivity|]. destruct rest; [reflexivity|].
      cbn [length]. rewrite IHf. reflexivity. }
    rewrite Hl in Hj. apply frags_partial. exact Hj.
Qed.

Lemma same_cfg_find a a' x : same_cfg a a' -> find_chan x (a_chans a) = None -> find_chan x (a_chans a') = None.
Proof.
  intros H Hn. specialize (H x). rewrite Hn in H. destruct (find_chan x (a_chans a')); [discriminate|reflexivity].
Qed.

Lemma same_cfg_ordered a a' x ch' :
  same_cfg a a' -> find_chan x (a_chans a') = Some ch' ->
  exists ch, find_chan x (a_chans a) = Some ch /\ ch_ordered ch = ch_ordered ch'.
Proof.
  intros H Hf. specialize (H x). rewrite Hf in H. destruct (find_chan x (a_chans a)) as [ch|]; [|discriminate].
  exists ch. split; [reflexivity|]. cbn in H. congruence.
Qed.


(* one whole submission of a well-formed workload: configuration kept, SSN relation re-established,
   exactly that message logged on its channel (if the receiver has the channel) *)
Lemma msg_step s sch ssns a c :
  s_ppid s <> DATA_CHANNEL_PPID_DCEP -> find_schan (s_sid s) sc = Some sch -> ssn_rel ssns a ->
  let ordered := sc_ordered sch in
  let ssn := if ordered then ssn_get (s_sid s) ssns else 0 in
  let ssns' := if ordered then ssn_set (s_sid s) (w16 (ssn + 1)) ssns else ssns in
  let F := sub_frags (negb ordered) ssn (Z.min (sc_mps sch) DEFAULT_MAX_PAYLOAD_SIZE) s in
  same_cfg a (fst (proc_all a F)) /\
  ssn_rel ssns' (fst (proc_all a F)) /\
  log_of c (snd (proc_all a F)) =
  match find_chan (s_sid s) (a_chans a) with
  | Some _ => if s_sid s =? c then [s_data s] else []
  | None => []
  end.
Proof.
  intros Hp Esch HR ordered ssn ssns' F.
  pose proof (msg_full (negb ordered) ssn (Z.min (sc_mps sch) DEFAULT_MAX_PAYLOAD_SIZE) s a) as HF.
  cbn zeta in HF. fold F in HF. destruct HF as [Hcfg HF].
  split; [exact Hcfg|].
  set (a1 := fst (proc_all a F)) in *.
  destruct (find_chan (s_sid s) (a_chans a)) as [ch|] eqn:Efind.
  - destruct (negb ordered || negb (ch_ordered ch)) eqn:Edirect.
    + (* delivered directly, the stream table is untouched *)
      destruct HF as [Hst Hev]. split.
      * intros x xs xr Hxs Hxo Hxr Hxro. rewrite Hst.
        destruct (same_cfg_ordered _ _ _ _ Hcfg Hxr) as (xr0 & Hxr0 & Hord0).
        subst ssns'. destruct ordered eqn:Eord.
        -- destruct (Z.eq_dec x (s_sid s)) as [->|Hne].
           ++ (* this very stream: then the receiver's channel is unordered, contradiction *)
              rewrite Efind in Hxr0. injection Hxr0 as <-. cbn in Edirect. rewrite Hord0, Hxro in Edirect. discriminate.
           ++ rewrite ssn_get_set_other by exact Hne. apply (HR x xs xr0); try assumption. congruence.
        -- apply (HR x xs xr0); try assumption. congruence.
      * rewrite Hev. cbn. destruct (s_sid s =? c); reflexivity.
    + (* through the ordered stream: sender ordered, receiver ordered *)
      apply orb_false_iff in Edirect. destruct Edirect as [Eo Ero].
      apply negb_false_iff in Eo, Ero.
      assert (Hget : sm_get (s_sid s) (a_streams a) = mkIS ssn []).
      { subst ssn. rewrite Eo. apply (HR (s_sid s) sch ch); assumption. }
      rewrite Hget, enqueue_in_order in HF. cbn [fst snd] in HF. destruct HF as [Hst Hev]. split.
      * intros x xs xr Hxs Hxo Hxr Hxro. rewrite Hst.
        destruct (same_cfg_ordered _ _ _ _ Hcfg Hxr) as (xr0 & Hxr0 & Hord0).
        subst ssns'. rewrite Eo.
        destruct (Z.eq_dec x (s_sid s)) as [->|Hne].
        -- rewrite sm_get_set_same, ssn_get_set_same. reflexivity.
        -- rewrite sm_get_set_other, ssn_get_set_other by exact Hne.
           apply (HR x xs xr0); try assumption. congruence.
      * rewrite Hev, log_of_deliver. destruct (s_sid s =? c); reflexivity.
  - destruct HF as [Ha Hev]. split.
    + intros x xs xr Hxs Hxo Hxr Hxro. fold a1 in Ha. rewrite Ha in Hxr |- *.
      subst ssns'. destruct ordered eqn:Eord.
      * destruct (Z.eq_dec x (s_sid s)) as [->|Hne]; [congruence|].
        rewrite ssn_get_set_other by exact Hne. apply (HR x xs xr); assumption.
      * apply (HR x xs xr); assumption.
    + rewrite Hev. reflexivity.
Qed.

(* the whole stream processed in order logs everything submitted on a channel the receiver has *)
Lemma all_logged W : forall ssns a c,
  Forall wf_sub W -> ssn_rel ssns a -> find_chan c (a_chans a) <> None ->
  log_of c (snd (proc_all a (pchunks sc ssns W))) = submitted W c.
Proof.
  induction W as [|s W IH]; intros ssns a c HW HR Hc; [reflexivity|].
  inversion HW as [|? ? [Hp Hk] HW']; subst. cbn [pchunks].
  assert (Hnd : (s_ppid s =? DATA_CHANNEL_PPID_DCEP) = false) by (apply Z.eqb_neq; exact Hp).
  rewrite Hnd. destruct (find_schan (s_sid s) sc) as [sch|] eqn:Esch; [|contradiction].
  pose proof (msg_step s sch ssns a c Hp Esch HR) as H. cbn zeta in H. destruct H as (Hcfg & HR1 & Hlog).
  rewrite proc_all_app. cbn [snd]. rewrite log_of_app, Hlog.
  rewrite IH; [| exact HW' | exact HR1 |].
  - cbn [submitted flat_map]. destruct (find_chan (s_sid s) (a_chans a)) as [ch|] eqn:Efind.
    + destruct (s_sid s =? c); reflexivity.
    + destruct (Z.eqb_spec (s_sid s) c) as [E|E]; [|reflexivity]. rewrite E in Efind. contradiction.
  - intros Hn. apply Hc. specialize (Hcfg c). rewrite Hn in Hcfg.
    destruct (find_chan c (a_chans a)); [discriminate|reflexivity].
Qed.

(* in-order processing of the first k chunks of a workload's chunk stream logs, on a channel the
   receiver has, a prefix of what was submitted on that channel *)
Lemma prefix_logged W : forall ssns a k c,
  Forall wf_sub W -> ssn_rel ssns a ->
  exists n, log_of c (snd (proc_all a (firstn k (pchunks sc ssns W)))) = firstn n (submitted W c).
Proof.
  induction W as [|s W IH]; intros ssns a k c HW HR.
  - exists 0%nat. cbn. rewrite firstn_nil. reflexivity.
  - inversion HW as [|? ? [Hp Hk] HW']; subst. cbn [pchunks].
    assert (Hnd : (s_ppid s =? DATA_CHANNEL_PPID_DCEP) = false) by (apply Z.eqb_neq; exact Hp).
    rewrite Hnd. destruct (find_schan (s_sid s) sc) as [sch|] eqn:Esch; [|contradiction].
    set (ordered := sc_ordered sch).
    set (ssn := if ordered then ssn_get (s_sid s) ssns else 0).
    set (ssns' := if ordered then ssn_set (s_sid s) (w16 (ssn + 1)) ssns else ssns).
    set (F := sub_frags (negb ordered) ssn (Z.min (sc_mps sch) DEFAULT_MAX_PAYLOAD_SIZE) s).
    rewrite firstn_app.
    destruct (lt_dec k (length F)) as [Hlt|Hge].
    + (* the cut falls inside this message: nothing of it is logged yet *)
      replace (k - length F)%nat with 0%nat by lia. cbn [firstn]. rewrite app_nil_r.
      exists 0%nat. cbn [firstn]. apply msg_partial. exact Hlt.
    + rewrite firstn_all2 by lia. rewrite proc_all_app. cbn [snd]. rewrite log_of_app.
      pose proof (msg_full (negb ordered) ssn (Z.min (sc_mps sch) DEFAULT_MAX_PAYLOAD_SIZE) s a) as HF.
      cbn zeta in HF. fold F in HF. destruct HF as [Hcfg HF].
      set (a1 := fst (proc_all a F)) in *.
      (* the SSN relation after this message *)
      assert (HR1 : ssn_rel ssns' a1 /\
                    log_of c (snd (proc_all a F)) =
                    match find_chan (s_sid s) (a_chans a) with
                    | Some _ => if s_sid s =? c then [s_data s] else []
                    | None => []
                    end).
      { destruct (find_chan (s_sid s) (a_chans a)) as [ch|] eqn:Efind.
        - destruct (negb ordered || negb (ch_ordered ch)) eqn:Edirect.
          + (* delivered directly, the stream table is untouched *)
            destruct HF as [Hst Hev]. split.
            * intros x xs xr Hxs Hxo Hxr Hxro. rewrite Hst.
              destruct (same_cfg_ordered _ _ _ _ Hcfg Hxr) as (xr0 & Hxr0 & Hord0).
              subst ssns'. destruct ordered eqn:Eord.
              -- destruct (Z.eq_dec x (s_sid s)) as [->|Hne].
                 ++ (* this very stream: then the receiver's channel is unordered, contradiction *)
                    rewrite Efind in Hxr0. injection Hxr0 as <-. cbn in Edirect. rewrite Hord0, Hxro in Edirect. discriminate.
                 ++ rewrite ssn_get_set_other by exact Hne. apply (HR x xs xr0); try assumption. congruence.
              -- apply (HR x xs xr0); try assumption. congruence.
            * rewrite Hev. cbn. destruct (s_sid s =? c); reflexivity.
          + (* through the ordered stream: sender ordered, receiver ordered *)
            apply orb_false_iff in Edirect. destruct Edirect as [Eo Ero].
            apply negb_false_iff in Eo, Ero.
            assert (Hget : sm_get (s_sid s) (a_streams a) = mkIS ssn []).
            { subst ssn. rewrite Eo. apply (HR (s_sid s) sch ch); assumption. }
            rewrite Hget, enqueue_in_order in HF. cbn [fst snd] in HF. destruct HF as [Hst Hev]. split.
            * intros x xs xr Hxs Hxo Hxr Hxro. rewrite Hst.
              destruct (same_cfg_ordered _ _ _ _ Hcfg Hxr) as (xr0 & Hxr0 & Hord0).
              subst ssns'. rewrite Eo.
              destruct (Z.eq_dec x (s_sid s)) as [->|Hne].
              -- rewrite sm_get_set_same, ssn_get_set_same. reflexivity.
              -- rewrite sm_get_set_other, ssn_get_set_other by exact Hne.
                 apply (HR x xs xr0); try assumption. congruence.
            * rewrite Hev, log_of_deliver. destruct (s_sid s =? c); reflexivity.
        - destruct HF as [Ha Hev]. split.
          + intros x xs xr Hxs Hxo Hxr Hxro. fold a1 in Ha. rewrite Ha in Hxr |- *.
            subst ssns'. destruct ordered eqn:Eord.
            * destruct (Z.eq_dec x (s_sid s)) as [->|Hne]; [congruence|].
              rewrite ssn_get_set_other by exact Hne. apply (HR x xs xr); assumption.
            * apply (HR x xs xr); assumption.
          + rewrite Hev. reflexivity. }
      destruct HR1 as [HR1 Hlog].
      destruct (IH ssns' a1 (k - length F)%nat c HW' HR1) as (n & Hn).
      fold ssns' in Hn |- *. rewrite Hn, Hlog. cbn [submitted flat_map].
      destruct (find_chan (s_sid s) (a_chans a)) as [ch|] eqn:Efind.
      * destruct (s_sid s =? c).
        -- exists (S n). reflexivity.
        -- exists n. reflexivity.
      * (* the receiver has no such channel: if it is the observed one, nothing is ever logged on it *)
        destruct (Z.eqb_spec (s_sid s) c) as [E|E].
        -- exists 0%nat. cbn [firstn List.app].
           assert (Hnone : forall ps b, find_chan c (a_chans b) = None -> log_of c (snd (proc_all b ps)) = []).
           { induction ps as [|p ps IHp]; intros b Hb; [reflexivity|]. cbn [proc_all].
             pose proof (proc_data_cfg b p) as Hc.
             assert (He : log_of c (snd (proc_data b p)) = []).
             { unfold proc_data. destruct (find_chan (p_sid p) (a_chans b)) as [chp|] eqn:Ep; [|reflexivity].
               assert (p_sid p <> c) by (intros E'; rewrite E' in Ep; congruence).
               destruct (rx_flag_e (p_flags p)); [|reflexivity].
               destruct (rx_flag_u (p_flags p) || negb (ch_ordered chp)).
               - cbn. destruct (Z.eqb_spec (p_sid p) c); [contradiction|reflexivity].
               - destruct (enqueue _ _ _) as [ready s']. cbn [snd]. rewrite log_of_deliver.
                 destruct (Z.eqb_spec (p_sid p) c); [contradiction|reflexivity]. }
             destruct (proc_data b p) as [b1 e1]. cbn [fst snd] in Hc, He.
             specialize (IHp b1 (same_cfg_find _ _ _ Hc Hb)).
             destruct (proc_all b1 ps) as [b2 e2]. cbn [snd] in IHp |- *. rewrite log_of_app, He, IHp. reflexivity. }
           rewrite <- Hn. rewrite <- E in *. apply Hnone. eapply same_cfg_find; [exact Hcfg|exact Efind].
        -- exists n. reflexivity.
Qed.

End Stream.

Lemma ssn_rel_init sc chans : ssn_rel sc [] (mkApp chans []).
Proof. intros sid sch rch _ _ _ _. reflexivity. Qed.
