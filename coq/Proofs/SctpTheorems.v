(* C01 / C12 theorems assembled from the receiver refinement (SctpRecvRefine) and the sender
   stream lemma (SctpSendSpec). *)
From Coq Require Import ZArith List Bool Lia.
From RV Require Import Lib.Wrap Gen.Consts Gen.Serial Gen.Sctp Model.SctpRecv
     Proofs.SctpRecvBase Proofs.SctpRecvRefine Proofs.SctpSendSpec.
Import ListNotations.
Open Scope Z_scope.

Lemma chunks_length sc W t0 : length (chunks sc W t0) = length (pchunks sc [] W).
Proof. unfold chunks. apply stamp_length. Qed.

Lemma wf_workload_subs sc W : wf_workload sc W -> Forall (wf_sub sc) W.
Proof. intros H. exact H. Qed.

Lemma genuine_ok sc W t0 i : genuine_input (chunks sc W t0) i -> ok_input t0 (pchunks sc [] W) i.
Proof. intros H. exact H. Qed.

(* exactly once, in order: the receiver has consumed a prefix of the chunk stream, each chunk once;
   and once every chunk has arrived at least once that prefix is the whole stream *)
Theorem exactly_once_in_order sc W t0 rc h :
  Z.of_nat (length (chunks sc W t0)) < 2147483648 ->
  wf_workload sc W ->
  Forall (genuine_input (chunks sc W t0)) h ->
  exists k, (k <= length (chunks sc W t0))%nat /\
            r_cum (fst (run (est_r (w32 (t0 - 1)) rc) h)) = w32 (t0 - 1 + Z.of_nat k) /\
            (forall c, log_of c (snd (run (est_r (w32 (t0 - 1)) rc) h)) =
                       log_of c (snd (proc_all (mkApp rc []) (firstn k (pchunks sc [] W))))) /\
            ((forall c, In c (chunks sc W t0) -> In (IData c) h) -> k = length (chunks sc W t0)).
Proof.
  intros Hlen Hwf Hh. rewrite chunks_length in *.
  apply recv_refines.
  - exact Hlen.
  - apply pchunks_not_dcep. exact Hwf.
  - eapply Forall_impl; [|exact Hh]. intros i. apply genuine_ok.
Qed.

(* C01 safety, with association-setup chunks anywhere in the history *)
Theorem safety_with_setup sc W t0 rc h :
  Z.of_nat (length (chunks sc W t0)) < 2147483648 ->
  wf_workload sc W ->
  Forall (genuine_input (chunks sc W t0)) h ->
  forall c, exists n, log_of c (snd (run (est_r (w32 (t0 - 1)) rc) h)) = firstn n (submitted W c).
Proof.
  intros Hlen Hwf Hh c.
  destruct (exactly_once_in_order sc W t0 rc h Hlen Hwf Hh) as (k & _ & _ & Hlog & _).
  rewrite Hlog. exact (prefix_logged sc W [] (mkApp rc []) k c Hwf (ssn_rel_init sc rc)).
Qed.

(* C01 safety for pure DATA arrival lists *)
Theorem safety sc W t0 rc arr :
  Z.of_nat (length (chunks sc W t0)) < 2147483648 ->
  wf_workload sc W ->
  Forall (fun c => In c (chunks sc W t0)) arr ->
  forall c, exists n, log_of c (snd (run (est_r (w32 (t0 - 1)) rc) (map IData arr))) = firstn n (submitted W c).
Proof.
  intros Hlen Hwf Harr. apply (safety_with_setup sc W t0 rc (map IData arr) Hlen Hwf).
  apply Forall_forall. intros i Hi. apply in_map_iff in Hi. destruct Hi as (c & <- & Hc).
  rewrite Forall_forall in Harr. exact (Harr c Hc).
Qed.

(* Completion (the model-level core of the liveness claim): once every chunk of the stream has
   arrived at least once -- in any order, with any duplicates, with setup chunks in between --
   every channel the receiver has holds exactly the submitted sequence, and the cumulative TSN
   acknowledges the whole stream. *)
Theorem complete_when_delivered sc W t0 rc h :
  Z.of_nat (length (chunks sc W t0)) < 2147483648 ->
  wf_workload sc W ->
  Forall (genuine_input (chunks sc W t0)) h ->
  (forall c, In c (chunks sc W t0) -> In (IData c) h) ->
  r_cum (fst (run (est_r (w32 (t0 - 1)) rc) h)) = w32 (t0 - 1 + Z.of_nat (length (chunks sc W t0))) /\
  forall c, find_chan c rc <> None ->
            log_of c (snd (run (est_r (w32 (t0 - 1)) rc) h)) = submitted W c.
Proof.
  intros Hlen Hwf Hh Hall.
  destruct (exactly_once_in_order sc W t0 rc h Hlen Hwf Hh) as (k & _ & Hcum & Hlog & Hfull).
  specialize (Hfull Hall). subst k. split; [exact Hcum|].
  intros c Hc. rewrite Hlog. rewrite chunks_length, firstn_all.
  exact (all_logged sc W [] (mkApp rc []) c Hwf (ssn_rel_init sc rc) Hc).
Qed.

(* prefix as a relation, for readers who prefer it to `firstn` *)
Lemma firstn_is_prefix {A} n (l : list A) : exists rest, l = firstn n l ++ rest.
Proof. exists (skipn n l). symmetry. apply firstn_skipn. Qed.

(* the premises are satisfiable and the conclusion is not vacuous: a concrete workload with a
   multi-fragment message, reordered and duplicated arrivals across the TSN wrap *)
Definition ex_sc : list schan := [mkSC 0 true 2; mkSC 1 false 1200].
Definition ex_W : list sub := [mkSub 0 53 [1; 2; 3]; mkSub 1 51 [9]; mkSub 0 53 []; mkSub 0 53 [4]].
Definition ex_t0 : Z := 4294967294.
Definition ex_rc : list chan :=
  [mkChan 0 true true [] [] None None DataChannelState_Open []; mkChan 1 false true [] [] None None DataChannelState_Open []].
Definition ex_arr : list chunk :=
  let cs := chunks ex_sc ex_W ex_t0 in
  [nth 2 cs (D 0 0 0 0 0 []); nth 1 cs (D 0 0 0 0 0 []); nth 1 cs (D 0 0 0 0 0 []); nth 0 cs (D 0 0 0 0 0 []);
   nth 4 cs (D 0 0 0 0 0 []); nth 0 cs (D 0 0 0 0 0 []); nth 3 cs (D 0 0 0 0 0 [])].

Example safety_premises_hold :
  Z.of_nat (length (chunks ex_sc ex_W ex_t0)) < 2147483648 /\ wf_workload ex_sc ex_W /\
  Forall (fun c => In c (chunks ex_sc ex_W ex_t0)) ex_arr /\
  log_of 0 (snd (run (est_r (w32 (ex_t0 - 1)) ex_rc) (map IData ex_arr))) = [[1; 2; 3]; []; [4]] /\
  log_of 1 (snd (run (est_r (w32 (ex_t0 - 1)) ex_rc) (map IData ex_arr))) = [[9]].
Proof.
  split; [vm_compute; reflexivity|]. split.
  - unfold wf_workload, ex_W. repeat (constructor; [split; vm_compute; discriminate|]). constructor.
  - split; [|split; vm_compute; reflexivity].
    unfold ex_arr. repeat (constructor; [apply nth_In; vm_compute; repeat constructor|]). constructor.
Qed.

(* ------------------------------------------------------------------ from the start of run_loop *)
(* the whole history: a handshake of setup chunks only (any duplicates / invalid cookies) that
   leaves the association established expecting TSN t0, then genuine arrivals and setup chunks *)
Theorem safety_from_start sc W t0 rc pre h :
  Z.of_nat (length (chunks sc W t0)) < 2147483648 ->
  wf_workload sc W ->
  Forall is_setup pre ->
  r_conn (fst (run (init_r 0 rc) pre)) = SctpState_Connected ->
  r_cum (fst (run (init_r 0 rc) pre)) = w32 (t0 - 1) ->
  Forall (genuine_input (chunks sc W t0)) h ->
  (forall c, exists n, log_of c (snd (run (init_r 0 rc) (pre ++ h))) = firstn n (submitted W c)) /\
  ((forall c, In c (chunks sc W t0) -> In (IData c) h) ->
   forall c, find_chan c rc <> None -> log_of c (snd (run (init_r 0 rc) (pre ++ h))) = submitted W c).
Proof.
  intros Hlen Hwf Hpre Hconn Hcum Hh. rewrite chunks_length in Hlen.
  destruct (recv_refines_from_start t0 (pchunks sc [] W) rc pre h Hlen (pchunks_not_dcep sc W [] Hwf) Hpre Hconn Hcum)
    as (k & _ & _ & Hlog & Hfull).
  { eapply Forall_impl; [|exact Hh]. intros i. apply genuine_ok. }
  split.
  - intros c. rewrite Hlog. exact (prefix_logged sc W [] (mkApp rc []) k c Hwf (ssn_rel_init sc rc)).
  - intros Hall c Hc. specialize (Hfull Hall). subst k. rewrite Hlog, firstn_all.
    exact (all_logged sc W [] (mkApp rc []) c Hwf (ssn_rel_init sc rc) Hc).
Qed.

(* the two handshakes the endpoint takes part in satisfy the premises on `pre` *)
Example handshake_server t0 rc :
  Forall is_setup [IInit t0; ICookieEcho true] /\
  r_conn (fst (run (init_r 0 rc) [IInit t0; ICookieEcho true])) = SctpState_Connected /\
  r_cum (fst (run (init_r 0 rc) [IInit t0; ICookieEcho true])) = w32 (t0 - 1).
Proof.
  split; [repeat constructor|].
  unfold run, step, init_r, connected, establish, mkApp. cbn [r_conn SctpState_eqb r_app a_chans r_cum r_rq a_streams a_dcep].
  destruct (on_established rc); split; reflexivity.
Qed.
Example handshake_client t0 rc :
  Forall is_setup [IInitAck t0 true; ICookieAck] /\
  r_conn (fst (run (init_r 0 rc) [IInitAck t0 true; ICookieAck])) = SctpState_Connected /\
  r_cum (fst (run (init_r 0 rc) [IInitAck t0 true; ICookieAck])) = w32 (t0 - 1).
Proof.
  split; [repeat constructor|].
  unfold run, step, init_r, connected, establish, mkApp. cbn [r_conn SctpState_eqb r_app a_chans r_cum r_rq a_streams a_dcep].
  destruct (on_established rc); split; reflexivity.
Qed.

(* ------------------------------------------------------------------ any traffic before establishment *)
(* The whole history with ANY traffic before the association is established: setup chunks
   (duplicated, superseded INIT-ACKs, invalid cookies ...) and arbitrary DATA -- which is dropped,
   fix 165fa18 --, then the establishing COOKIE-ACK / valid COOKIE-ECHO, then genuine arrivals and
   setup chunks. The stream is numbered from the TSN held at establishment (the last INIT /
   INIT-ACK). Completion needs every chunk to arrive at least once AFTER establishment. *)
Theorem safety_any_handshake sc W t0 rc pre0 e h :
  Z.of_nat (length (chunks sc W t0)) < 2147483648 ->
  wf_workload sc W ->
  Forall pre_input pre0 ->
  r_conn (fst (run (init_r 0 rc) pre0)) <> SctpState_Connected ->
  r_cum (fst (run (init_r 0 rc) pre0)) = w32 (t0 - 1) ->
  e = ICookieAck \/ e = ICookieEcho true ->
  Forall (genuine_input (chunks sc W t0)) h ->
  (forall c, exists n, log_of c (snd (run (init_r 0 rc) (pre0 ++ e :: h))) = firstn n (submitted W c)) /\
  ((forall c, In c (chunks sc W t0) -> In (IData c) h) ->
   forall c, find_chan c rc <> None -> log_of c (snd (run (init_r 0 rc) (pre0 ++ e :: h))) = submitted W c).
Proof.
  intros Hlen Hwf Hpre Hnc Hcum He Hh. rewrite chunks_length in Hlen.
  destruct (recv_refines_any_handshake t0 (pchunks sc [] W) rc pre0 e h Hlen (pchunks_not_dcep sc W [] Hwf) Hpre Hnc Hcum He)
    as (k & _ & _ & Hlog & Hfull).
  { eapply Forall_impl; [|exact Hh]. intros i. apply genuine_ok. }
  split.
  - intros c. rewrite Hlog. exact (prefix_logged sc W [] (mkApp rc []) k c Hwf (ssn_rel_init sc rc)).
  - intros Hall c Hc. specialize (Hfull Hall). subst k. rewrite Hlog, firstn_all.
    exact (all_logged sc W [] (mkApp rc []) c Hwf (ssn_rel_init sc rc) Hc).
Qed.

(* The former finding F11b / F27 (fixed by 165fa18), as a regression example. Client role: the
   COOKIE-ACK is late, the peer's first two messages overtake it (now dropped), a late duplicate
   of the INIT-ACK follows, then COOKIE-ACK and the third message; the peer retransmits the two
   unacknowledged messages. Everything is delivered once, in order, after Open. *)
Definition f11_sc : list schan := [mkSC 0 true 1200].
Definition f11_W : list sub := [mkSub 0 53 [97]; mkSub 0 53 [98]; mkSub 0 53 [99]].
Definition f11_t0 : Z := 5000.
Definition f11_rc : list chan := [mkChan 0 true true [110; 48] [] None None DataChannelState_Connecting []].
Definition f11_pre : list input :=
  let cs := chunks f11_sc f11_W f11_t0 in
  [IInitAck f11_t0 true; IData (nth 0 cs (D 0 0 0 0 0 [])); IData (nth 1 cs (D 0 0 0 0 0 [])); IInitAck f11_t0 true].
Definition f11_post : list input :=
  let cs := chunks f11_sc f11_W f11_t0 in
  [IData (nth 2 cs (D 0 0 0 0 0 [])); IData (nth 0 cs (D 0 0 0 0 0 [])); IData (nth 1 cs (D 0 0 0 0 0 []))].

Example setup_replay_fixed :
  Forall pre_input f11_pre /\
  r_conn (fst (run (init_r 0 f11_rc) f11_pre)) <> SctpState_Connected /\
  r_cum (fst (run (init_r 0 f11_rc) f11_pre)) = w32 (f11_t0 - 1) /\
  evs_of 0 (snd (run (init_r 0 f11_rc) f11_pre)) = [] /\
  evs_of 0 (snd (run (init_r 0 f11_rc) (f11_pre ++ ICookieAck :: f11_post))) = [EOpen; EMsg [97]; EMsg [98]; EMsg [99]].
Proof.
  split; [repeat constructor|]. split; [vm_compute; discriminate|]. repeat split; vm_compute; reflexivity.
Qed.

(* ------------------------------------------------------------------ C12: integrity on every reliable channel *)
(* a prefix is in particular a sub-multiset: nothing is delivered more often than it was submitted *)
Lemma count_firstn_le (m : list Z) n (l : list (list Z)) :
  (count_occ (list_eq_dec Z.eq_dec) (firstn n l) m <= count_occ (list_eq_dec Z.eq_dec) l m)%nat.
Proof.
  revert l. induction n as [|n IH]; intros [|x l]; cbn; try lia.
  specialize (IH l). destruct (list_eq_dec Z.eq_dec x m); lia.
Qed.

(* ordered AND unordered reliable channels (this receiver handles every chunk in TSN order): each
   delivered message is one submitted message of the same channel, no duplicate, merge, split,
   fabrication or cross-channel leak, in submission order *)
Theorem integrity sc W t0 rc h :
  Z.of_nat (length (chunks sc W t0)) < 2147483648 ->
  wf_workload sc W ->
  Forall (genuine_input (chunks sc W t0)) h ->
  forall c,
    (exists rest, submitted W c = log_of c (snd (run (est_r (w32 (t0 - 1)) rc) h)) ++ rest) /\
    (forall m, (count_occ (list_eq_dec Z.eq_dec) (log_of c (snd (run (est_r (w32 (t0 - 1)) rc) h))) m <=
                count_occ (list_eq_dec Z.eq_dec) (submitted W c) m)%nat) /\
    (forall m, In m (log_of c (snd (run (est_r (w32 (t0 - 1)) rc) h))) ->
               exists s, In s W /\ s_sid s = c /\ s_data s = m).
Proof.
  intros Hlen Hwf Hh c. destruct (safety_with_setup sc W t0 rc h Hlen Hwf Hh c) as [n Hn].
  rewrite Hn. split; [apply firstn_is_prefix|]. split; [intros m; apply count_firstn_le|].
  intros m Hm. apply In_firstn in Hm. unfold submitted in Hm. apply in_flat_map in Hm.
  destruct Hm as (s & Hs & Hin). exists s. destruct (Z.eqb_spec (s_sid s) c); [|contradiction].
  destruct Hin as [<-|[]]. repeat split; assumption.
Qed.

(* ------------------------------------------------------------------ C12: former findings F27 / F11b, fixed *)
(* DATA that overtakes the COOKIE-ACK is dropped; after COOKIE-ACK the retransmission is delivered,
   after Open *)
Example message_after_open_fixed :
  evs_of 0 (snd (run (init_r 0 f11_rc)
                     [IInitAck 5000 true; IData (D 5000 3 0 0 53 [97]); ICookieAck; IData (D 5000 3 0 0 53 [97])]))
  = [EOpen; EMsg [97]].
Proof. vm_compute. reflexivity. Qed.

(* the setup replay on an UNORDERED reliable channel no longer duplicates *)
Definition f11u_rc : list chan := [mkChan 0 false true [110; 48] [] None None DataChannelState_Connecting []].
Example unordered_no_duplicate_fixed :
  log_of 0 (snd (run (init_r 0 f11u_rc)
                     [IInitAck 5000 true; IData (D 5000 7 0 0 53 [97]); IInitAck 5000 true;
                      IData (D 5000 7 0 0 53 [97]); ICookieAck; IData (D 5000 7 0 0 53 [97]); IData (D 5000 7 0 0 53 [97])]))
  = [[97]].
Proof. vm_compute. reflexivity. Qed.

(* ------------------------------------------------------------------ C12: listed finding F21, model witnesses *)
(* FORWARD-TSN (F21): (iv) the cumulative point advances but the chunk that is now next stays in
   the reorder queue and nothing is delivered until further DATA arrives; (ii) the comparison is
   numeric, so a FORWARD-TSN across the 2^32 wrap is ignored *)
Example forward_tsn_no_drain_witness :
  let chans := [mkChan 0 true true [] [] None None DataChannelState_Open []] in
  let r := run (est_r 999 chans)
               [IData (D 1000 3 0 0 53 [97]); IData (D 1003 3 0 2 53 [99]); IFwdTsn 1002 [(0, 1)]] in
  r_cum (fst r) = 1002 /\ length (r_rq (fst r)) = 1%nat /\ log_of 0 (snd r) = [[97]] /\
  log_of 0 (snd (run (fst r) [IData (D 1004 3 0 3 53 [100])])) = [[99]; [100]].
Proof. vm_compute. repeat split; reflexivity. Qed.

(* (v) the (stream, SSN) pairs of a FORWARD-TSN are applied only to streams that already have
   ordering state: if the abandoned message was the first on its stream, every later ordered
   message of that stream waits for SSN 0 forever *)
Example forward_tsn_first_message_witness :
  let chans := [mkChan 0 true true [] [] None None DataChannelState_Open []] in
  let r := run (est_r 999 chans)
               [IFwdTsn 1000 [(0, 0)]; IData (D 1001 3 0 1 53 [98]); IData (D 1002 3 0 2 53 [99])] in
  r_cum (fst r) = 1002 /\ log_of 0 (snd r) = [] /\
  length (is_pend (sm_get 0 (a_streams (r_app (fst r))))) = 2%nat.
Proof. vm_compute. repeat split; reflexivity. Qed.

Example forward_tsn_wrap_witness :
  let chans := [mkChan 0 true true [] [] None None DataChannelState_Open []] in
  r_cum (fst (run (est_r 4294967295 chans) [IFwdTsn 0 []])) = 4294967295 /\
  tsn_gt 0 4294967295 = true.
Proof. vm_compute. split; reflexivity. Qed.
