(* Listed finding setup_replay_before_established, safety side, on an ORDERED reliable channel.
   After the replay the old copy of message 0 sits in InboundStream.pending under SSN 0 (its SSN is
   below next_ssn, so it is neither delivered nor dropped).  65535 messages later next_ssn wraps to
   0 and the stale copy is delivered a second time, in the place of message 65536 -- which then
   waits forever.  The delivered sequence is not a prefix of the submitted one. *)
From Coq Require Import ZArith List Bool Lia.
From RV Require Import Lib.Wrap Gen.Consts Gen.Serial Gen.Sctp Model.SctpRecv
     Proofs.SctpRecvBase Proofs.SctpTheorems.
Import ListNotations.
Open Scope Z_scope.

Fixpoint zrange (n : nat) (i : Z) : list Z :=
  match n with
  | O => []
  | S k => i :: zrange k (i + 1)
  end.
Definition wrap_W : list sub :=
  map (fun i => mkSub 0 53 [i mod 251; (i / 256) mod 256]) (zrange (Z.to_nat 65537) 0).
Definition wrap_cs : list chunk := chunks f11_sc wrap_W 5000.
Definition wrap_c0 : chunk := hd (D 0 0 0 0 0 []) wrap_cs.
Definition wrap_h : list input :=
  [IInitAck 5000 true; IData wrap_c0; IInitAck 5000 true; IData wrap_c0; ICookieAck] ++ map IData (tl wrap_cs).

Lemma wrap_wf : wf_workload f11_sc wrap_W.
Proof.
  unfold wf_workload, wrap_W. apply Forall_forall. intros s Hs. apply in_map_iff in Hs.
  destruct Hs as (i & <- & _). split; vm_compute; discriminate.
Qed.

Lemma in_tl {A} (x : A) l : In x (tl l) -> In x l.
Proof. destruct l; [intros []|intros H; right; exact H]. Qed.
Lemma hd_in {A} (d : A) l : l <> [] -> In (hd d l) l.
Proof. destruct l; [contradiction|intros _; left; reflexivity]. Qed.
Lemma in_hd_tl {A} (d x : A) l : In x l -> x = hd d l \/ In x (tl l).
Proof. destruct l; [intros []|intros [<-|H]; [left; reflexivity|right; exact H]]. Qed.

Lemma wrap_cs_len : Z.of_nat (length wrap_cs) = 65537.
Proof. vm_compute. reflexivity. Qed.

Lemma wrap_lengths :
  Z.of_nat (length (log_of 0 (snd (run (init_r 0 f11_rc) wrap_h)))) = 65537 /\
  Z.of_nat (length (submitted wrap_W 0)) = 65537 /\
  is_prefix_b (log_of 0 (snd (run (init_r 0 f11_rc) wrap_h))) (submitted wrap_W 0) = false /\
  (* the stale copy of message 0 is what comes out after message 65535 *)
  nth (Z.to_nat 65536) (log_of 0 (snd (run (init_r 0 f11_rc) wrap_h))) [] = [0; 0] /\
  nth (Z.to_nat 65536) (submitted wrap_W 0) [] = [25; 0].
Proof. vm_compute. repeat split; reflexivity. Qed.

Lemma is_prefix_b_firstn n l : is_prefix_b (firstn n l) l = true.
Proof.
  revert l. induction n as [|n IH]; intros [|x l]; cbn; try reflexivity.
  destruct (list_eq_dec Z.eq_dec x x); [apply IH|contradiction].
Qed.

Local Opaque wrap_cs wrap_W.

Lemma wrap_cs_nonempty : wrap_cs <> [].
Proof. intros E. pose proof wrap_cs_len as H. rewrite E in H. discriminate. Qed.

Lemma wrap_c0_in : In wrap_c0 wrap_cs.
Proof. apply hd_in. exact wrap_cs_nonempty. Qed.

Lemma wrap_genuine : Forall (genuine_input wrap_cs) wrap_h.
Proof.
  unfold wrap_h. apply Forall_app. split.
  - constructor; [exact I|]. constructor; [exact wrap_c0_in|]. constructor; [exact I|].
    constructor; [exact wrap_c0_in|]. constructor; [exact I|]. constructor.
  - apply Forall_forall. intros i Hi. apply in_map_iff in Hi. destruct Hi as (c & <- & Hc).
    apply in_tl. exact Hc.
Qed.

Lemma wrap_all_arrive : forall c, In c wrap_cs -> In (IData c) wrap_h.
Proof.
  intros c Hc. unfold wrap_h. destruct (in_hd_tl (D 0 0 0 0 0 []) c wrap_cs Hc) as [->|Ht].
  - right. left. reflexivity.
  - apply in_or_app. right. apply in_map. exact Ht.
Qed.

Theorem setup_replay_safety_refuted :
  exists sc W t0 rc h,
    Z.of_nat (length (chunks sc W t0)) < 2147483648 /\ wf_workload sc W /\
    Forall (genuine_input (chunks sc W t0)) h /\
    exists c, ~ exists n, log_of c (snd (run (init_r 0 rc) h)) = firstn n (submitted W c).
Proof.
  exists f11_sc, wrap_W, 5000, f11_rc, wrap_h.
  split; [change (Z.of_nat (length wrap_cs) < 2147483648); rewrite wrap_cs_len; reflexivity|]. split; [exact wrap_wf|]. split; [exact wrap_genuine|].
  exists 0. intros [n Hn]. destruct wrap_lengths as (_ & _ & Hp & _).
  rewrite Hn, is_prefix_b_firstn in Hp. discriminate.
Qed.
