(* C08 (part 1) -- proofs about the SDP printer / parser model (Model/Sdp.v). *)
From Coq Require Import ZArith List Bool String Ascii Lia.
From RV Require Import Gen.SdpTables Model.Sdp.
Import ListNotations.
Open Scope Z_scope.
Open Scope bool_scope.

(* ------------------------------------------------------------------ attribute lines *)
Lemma split_sep_key c k v :
  no_sep c k = true -> split_sep c (k ++ String c v) = (k, Some v).
Proof.
  induction k as [|a k IH]; cbn [no_sep append split_sep]; intros H.
  - rewrite Ascii.eqb_refl. reflexivity.
  - apply andb_true_iff in H as [Ha Hk]. apply negb_true_iff in Ha. rewrite Ha, (IH Hk). reflexivity.
Qed.

Lemma split_sep_nokey c k : no_sep c k = true -> split_sep c k = (k, None).
Proof.
  induction k as [|a k IH]; cbn [no_sep split_sep]; intros H; [reflexivity|].
  apply andb_true_iff in H as [Ha Hk]. apply negb_true_iff in Ha. rewrite Ha, (IH Hk). reflexivity.
Qed.

Lemma split_sep_no_sep c s : no_sep c (fst (split_sep c s)) = true.
Proof.
  induction s as [|a s IH]; cbn [split_sep]; [reflexivity|].
  destruct (Ascii.eqb a c) eqn:E; [reflexivity|].
  destruct (split_sep c s) as [k v]. cbn [fst no_sep] in *. rewrite E, IH. reflexivity.
Qed.

Lemma from_line_payload a : key_ok a = true -> from_line (attr_payload a) = a.
Proof.
  destruct a as [k [v|]]; unfold key_ok, from_line, attr_payload; cbn [a_key a_val]; intros H.
  - rewrite (split_sep_key _ _ _ H). reflexivity.
  - rewrite (split_sep_nokey _ _ H). reflexivity.
Qed.

Lemma from_line_key_ok pl : key_ok (from_line pl) = true.
Proof.
  unfold key_ok, from_line. pose proof (split_sep_no_sep sep_char pl) as H.
  destruct (split_sep sep_char pl) as [k v]. exact H.
Qed.

(* ------------------------------------------------------------------ facts about the generated tables *)
Lemma transport_not_special a : is_transport a = true -> is_special a = false.
Proof.
  unfold is_transport, is_special. intros H. apply existsb_exists in H as [k [Hin Hk]].
  apply String.eqb_eq in Hk. rewrite Hk.
  cbn in Hin. repeat (destruct Hin as [<-|Hin]; [vm_compute; reflexivity|]). destruct Hin.
Qed.

Lemma special_split a :
  is_special a = false ->
  dir_of_key (a_key a) = None /\ String.eqb (a_key a) mid_key = false /\ String.eqb (a_key a) connection_key = false.
Proof.
  unfold is_special. destruct (dir_of_key (a_key a)); [discriminate|].
  intros H. apply orb_false_iff in H. tauto.
Qed.

Lemma dir_line_parses d : from_line (dir_str d) = mkAttr (dir_str d) None /\ dir_of_key (dir_str d) = Some d.
Proof. destruct d; vm_compute; split; reflexivity. Qed.

Lemma mid_key_ok : no_sep sep_char mid_key = true /\ dir_of_key mid_key = None.
Proof. vm_compute. split; reflexivity. Qed.

Lemma mid_line_parses m : from_line (mid_key ++ String sep_char m) = mkAttr mid_key (Some m).
Proof. unfold from_line. rewrite (split_sep_key _ _ _ (proj1 mid_key_ok)). reflexivity. Qed.

(* ------------------------------------------------------------------ apply_attribute folded over a list *)
Definition apply_all (s : sect) (l : list attr) : sect := fold_left apply_attribute l s.

Lemma apply_all_char l : forall s,
  apply_all s l =
  mkSect (s_kind s) (last_mid l (s_mid s)) (s_port s) (s_proto s) (s_formats s) (last_dir l (s_dir s))
         (s_attrs s ++ filter (fun a => negb (is_special a)) l) (last_conn l (s_conn s)).
Proof.
  induction l as [|a l IH]; intros s.
  - destruct s. cbn. rewrite app_nil_r. reflexivity.
  - unfold apply_all in *. cbn [fold_left]. rewrite IH. clear IH.
    cbn [last_mid last_dir last_conn filter]. unfold apply_attribute, is_special.
    destruct (dir_of_key (a_key a)) as [d'|] eqn:Ed.
    + destruct s; reflexivity.
    + destruct (String.eqb (a_key a) mid_key) eqn:Em.
      * destruct (a_val a); destruct s; reflexivity.
      * destruct (String.eqb (a_key a) connection_key) eqn:Ec.
        -- destruct s; reflexivity.
        -- destruct s. cbn. rewrite <- app_assoc. reflexivity.
Qed.

Lemma last_nonspecial l : forallb (fun a => negb (is_special a)) l = true ->
  forall m d c, last_mid l m = m /\ last_dir l d = d /\ last_conn l c = c.
Proof.
  induction l as [|a l IH]; intros H m d c; [cbn; auto|].
  cbn [forallb] in H. apply andb_true_iff in H as [Ha Hl]. apply negb_true_iff in Ha.
  destruct (special_split _ Ha) as [E1 [E2 E3]].
  cbn [last_mid last_dir last_conn]. rewrite E1, E2, E3. apply IH. exact Hl.
Qed.

Lemma filter_all {A} (f : A -> bool) l : forallb f l = true -> filter f l = l.
Proof.
  induction l as [|a l IH]; cbn; intros H; [reflexivity|].
  apply andb_true_iff in H as [Ha Hl]. rewrite Ha, (IH Hl). reflexivity.
Qed.

Lemma filter_none {A} (f : A -> bool) l : forallb (fun a => negb (f a)) l = true -> filter f l = [].
Proof.
  induction l as [|a l IH]; cbn; intros H; [reflexivity|].
  apply andb_true_iff in H as [Ha Hl]. apply negb_true_iff in Ha. rewrite Ha. exact (IH Hl).
Qed.

Lemma forallb_filter {A} (f g : A -> bool) l : forallb g l = true -> forallb g (filter f l) = true.
Proof.
  induction l as [|a l IH]; cbn; intros H; [reflexivity|].
  apply andb_true_iff in H as [Ha Hl]. destruct (f a); cbn; rewrite ?Ha; auto.
Qed.

Lemma forallb_filter_self {A} (f : A -> bool) l : forallb f (filter f l) = true.
Proof. induction l as [|a l IH]; cbn; [reflexivity|]. destruct (f a) eqn:E; cbn; rewrite ?E; auto. Qed.

Lemma transport_all_nonspecial l :
  forallb is_transport l = true -> forallb (fun a => negb (is_special a)) l = true.
Proof.
  induction l as [|a l IH]; cbn; intros H; [reflexivity|].
  apply andb_true_iff in H as [Ha Hl]. rewrite (transport_not_special _ Ha). cbn. auto.
Qed.

(* ------------------------------------------------------------------ the parser over printed blocks *)
Definition with_cur (p : pst) (c : option sect) (dn : list sect) : pst :=
  mkP (p_hdr p) (p_sv p) (p_so p) (p_ss p) (p_st p) (p_conn p) (p_sattrs p) c dn.

Lemma run_app l1 : forall p l2,
  run p (l1 ++ l2) = match run p l1 with Some p' => run p' l2 | None => None end.
Proof.
  induction l1 as [|l l1 IH]; intros p l2; cbn [app run]; [reflexivity|].
  destruct (step p l); [apply IH|reflexivity].
Qed.

Lemma run_media_attrs l : forall p m,
  p_cur p = Some m -> forallb key_ok l = true ->
  run p (map (fun a => LA (attr_payload a)) l) = Some (with_cur p (Some (apply_all m l)) (p_done p)).
Proof.
  induction l as [|a l IH]; intros p m Hc Hk.
  - cbn. destruct p; cbn in *. subst. reflexivity.
  - cbn [forallb] in Hk. apply andb_true_iff in Hk as [Ha Hl].
    cbn [map run]. unfold step at 1. rewrite Hc, (from_line_payload _ Ha).
    rewrite (IH _ (apply_attribute m a)); [|reflexivity|exact Hl].
    unfold with_cur, apply_all. cbn. reflexivity.
Qed.

Lemma run_sess_attrs l : forall p,
  p_cur p = None -> forallb key_ok l = true ->
  run p (map (fun a => LA (attr_payload a)) l) =
  Some (mkP (p_hdr p) (p_sv p) (p_so p) (p_ss p) (p_st p) (p_conn p) (p_sattrs p ++ l) None (p_done p)).
Proof.
  induction l as [|a l IH]; intros p Hc Hk.
  - cbn. rewrite app_nil_r. destruct p; cbn in *. subst. reflexivity.
  - cbn [forallb] in Hk. apply andb_true_iff in Hk as [Ha Hl].
    cbn [map run]. unfold step at 1. rewrite Hc, (from_line_payload _ Ha).
    rewrite IH; [|reflexivity|exact Hl]. cbn. rewrite <- app_assoc. reflexivity.
Qed.

(* one printed media section, from any parser state *)
Lemma run_print_sect s p :
  wf_sect s = true ->
  run p (print_sect s) = Some (with_cur p (Some (normalise_sect s)) (flush (p_cur p) (p_done p))).
Proof.
  intros Hwf. unfold wf_sect in Hwf. apply andb_true_iff in Hwf as [Hk Hf].
  unfold print_sect. cbn [app run]. unfold step at 1.
  destruct (s_formats s) as [|f0 fs] eqn:Ef; [discriminate|]. rewrite <- Ef. clear Hf.
  set (p1 := mkP _ _ _ _ _ _ _ (Some (fresh_sect _ _ _ _)) _).
  (* c= *)
  assert (Hconn : exists m1, run p1 (opt_line (s_conn s)) = Some (with_cur p1 (Some m1) (p_done p1)) /\
                             m1 = set_conn (fresh_sect (s_kind s) (s_port s) (s_proto s) (s_formats s)) (s_conn s)).
  { destruct (s_conn s) as [c|]; cbn; eexists; split; reflexivity. }
  destruct Hconn as [m1 [Hr1 Hm1]].
  rewrite run_app, Hr1.
  (* transport attributes *)
  rewrite run_app.
  rewrite (run_media_attrs _ _ m1); [|reflexivity|apply forallb_filter; exact Hk].
  set (m2 := apply_all m1 (filter is_transport (s_attrs s))).
  assert (Hm2 : m2 = mkSect (s_kind s) EmptyString (s_port s) (s_proto s) (s_formats s) dir_default
                            (transport_attrs s) (s_conn s)).
  { unfold m2. rewrite apply_all_char.
    pose proof (transport_all_nonspecial _ (forallb_filter_self is_transport (s_attrs s))) as Hns.
    destruct (last_nonspecial _ Hns (s_mid m1) (s_dir m1) (s_conn m1)) as [E1 [E2 E3]].
    rewrite E1, E2, E3, (filter_all _ _ Hns). subst m1. reflexivity. }
  (* a=mid *)
  rewrite run_app.
  set (p2 := with_cur _ (Some m2) _).
  assert (Hmid : run p2 (mid_line (s_mid s)) = Some (with_cur p2 (Some (set_mid m2 (s_mid s))) (p_done p2))).
  { unfold mid_line. destruct (String.eqb (s_mid s) EmptyString) eqn:Em.
    - apply String.eqb_eq in Em. rewrite Em. cbn [run]. unfold p2, with_cur. cbn [p_hdr p_sv p_so p_ss p_st p_conn p_sattrs p_cur p_done].
      rewrite Hm2. reflexivity.
    - cbn [run]. unfold step. cbn [p_cur p2 with_cur]. rewrite mid_line_parses.
      unfold apply_attribute. cbn [a_key a_val]. rewrite (proj2 mid_key_ok), String.eqb_refl. reflexivity. }
  rewrite Hmid.
  (* direction *)
  cbn [app run]. unfold step at 1. cbn [p_cur with_cur].
  destruct (dir_line_parses (s_dir s)) as [Ed1 Ed2]. rewrite Ed1.
  unfold apply_attribute at 1. cbn [a_key]. rewrite Ed2.
  (* media attributes *)
  rewrite (run_media_attrs _ _ (set_dir (set_mid m2 (s_mid s)) (s_dir s))); [|reflexivity|apply forallb_filter; exact Hk].
  rewrite apply_all_char. rewrite Hm2. unfold normalise_sect, media_attrs, transport_attrs, with_cur. cbn.
  reflexivity.
Qed.

Definition p_sects (p : pst) : list sect := flush (p_cur p) (p_done p).

Lemma run_print_sects ss : forall p,
  forallb wf_sect ss = true ->
  exists c dn, run p (flat_map print_sect ss) = Some (with_cur p c dn) /\
               flush c dn = p_sects p ++ map normalise_sect ss.
Proof.
  induction ss as [|s ss IH]; intros p Hwf.
  - exists (p_cur p), (p_done p). cbn. rewrite app_nil_r. split; [destruct p; reflexivity|reflexivity].
  - cbn [forallb] in Hwf. apply andb_true_iff in Hwf as [Hs Hss].
    cbn [flat_map]. rewrite run_app, (run_print_sect _ _ Hs).
    destruct (IH (with_cur p (Some (normalise_sect s)) (flush (p_cur p) (p_done p))) Hss) as [c [dn [Hr Hf]]].
    exists c, dn. split.
    + rewrite Hr. reflexivity.
    + rewrite Hf. unfold p_sects. cbn [with_cur p_cur p_done flush map]. rewrite <- app_assoc. reflexivity.
Qed.

(* ------------------------------------------------------------------ main theorems *)
Lemma run_print_sess d :
  forallb key_ok (d_attrs d) = true ->
  run p_init (print_sess d) = Some (mkP (d_hdr d) true true true true (d_conn d) (d_attrs d) None []).
Proof.
  intros Hk. unfold print_sess, print_hdr_a. cbn [app]. cbn [run]. unfold step at 1 2 3.
  cbn [p_init p_hdr p_sv p_so p_ss p_st p_conn p_sattrs p_cur p_done hdr_default
       h_ver h_user h_sid h_sver h_ip6 h_addr h_name h_t0 h_t1].
  destruct (d_conn d) as [c|]; cbn [opt_line app run]; unfold step at 1;
    cbn [p_hdr p_sv p_so p_ss p_st p_conn p_sattrs p_cur p_done
         h_ver h_user h_sid h_sver h_ip6 h_addr h_name h_t0 h_t1].
  - unfold step at 1.
    cbn [p_hdr p_sv p_so p_ss p_st p_conn p_sattrs p_cur p_done
         h_ver h_user h_sid h_sver h_ip6 h_addr h_name h_t0 h_t1].
    rewrite run_sess_attrs; [|reflexivity|exact Hk]. destruct d as [h ? ? ?]; destruct h. reflexivity.
  - rewrite run_sess_attrs; [|reflexivity|exact Hk]. destruct d as [h ? ? ?]; destruct h. reflexivity.
Qed.

Theorem parse_print d : wf_desc d = true -> parse (print d) = Some (normalise d).
Proof.
  intros Hwf. unfold wf_desc in Hwf. apply andb_true_iff in Hwf as [Hk Hs].
  unfold parse, print. rewrite run_app, (run_print_sess _ Hk).
  set (p2 := mkP _ _ _ _ _ _ _ _ _).
  destruct (run_print_sects (d_sects d) p2 Hs) as [c [dn [Hr Hf]]].
  rewrite Hr. unfold finish. cbn [with_cur p_sv p_so p_ss p_st p_hdr p_conn p_sattrs p_cur p_done p2 andb].
  rewrite Hf. unfold p_sects. cbn [p2 p_cur p_done flush app]. unfold normalise. reflexivity.
Qed.

(* --- normal forms *)
Lemma filter_app_tr l :
  filter is_transport (filter is_transport l ++ filter (fun a => negb (is_special a)) (filter (fun a => negb (is_transport a)) l))
  = filter is_transport l.
Proof.
  rewrite filter_app.
  rewrite (filter_none is_transport (filter (fun a => negb (is_special a)) (filter (fun a => negb (is_transport a)) l))).
  - rewrite app_nil_r. apply filter_all. apply forallb_filter_self.
  - apply forallb_filter. apply (forallb_filter_self (fun a => negb (is_transport a))).
Qed.

Lemma filter_app_media l :
  filter (fun a => negb (is_transport a))
         (filter is_transport l ++ filter (fun a => negb (is_special a)) (filter (fun a => negb (is_transport a)) l))
  = filter (fun a => negb (is_special a)) (filter (fun a => negb (is_transport a)) l).
Proof.
  rewrite filter_app.
  rewrite (filter_none (fun a => negb (is_transport a)) (filter is_transport l)).
  - cbn [app]. apply filter_all. apply forallb_filter. apply (forallb_filter_self (fun a => negb (is_transport a))).
  - assert (H := forallb_filter_self is_transport l). revert H. generalize (filter is_transport l).
    induction l0 as [|a l0 IH]; cbn; intros H; [reflexivity|].
    apply andb_true_iff in H as [Ha Hl]. rewrite Ha. cbn. auto.
Qed.

Lemma normalise_sect_idem s : normalise_sect (normalise_sect s) = normalise_sect s.
Proof.
  unfold normalise_sect at 1. unfold media_attrs, transport_attrs.
  set (n := normalise_sect s).
  assert (Ha : s_attrs n = filter is_transport (s_attrs s) ++
                 filter (fun a => negb (is_special a)) (filter (fun a => negb (is_transport a)) (s_attrs s))) by reflexivity.
  rewrite Ha, filter_app_tr, filter_app_media.
  assert (Hns : forallb (fun a => negb (is_special a))
                  (filter (fun a => negb (is_special a)) (filter (fun a => negb (is_transport a)) (s_attrs s))) = true)
    by apply (forallb_filter_self (fun a => negb (is_special a))).
  destruct (last_nonspecial _ Hns (s_mid n) (s_dir n) (s_conn n)) as [E1 [E2 E3]].
  rewrite E1, E2, E3, (filter_all _ _ Hns). subst n. reflexivity.
Qed.

Theorem normalise_idem d : normalise (normalise d) = normalise d.
Proof.
  unfold normalise. cbn [d_hdr d_conn d_attrs d_sects]. f_equal. rewrite map_map.
  apply map_ext. intros s. apply normalise_sect_idem.
Qed.

Lemma plain_media s : plain_sect s = true -> forallb (fun a => negb (is_special a)) (media_attrs s) = true.
Proof. intros H. unfold media_attrs. apply forallb_filter. exact H. Qed.

Lemma normalise_sect_plain s : plain_sect s = true ->
  normalise_sect s = mkSect (s_kind s) (s_mid s) (s_port s) (s_proto s) (s_formats s) (s_dir s)
                            (transport_attrs s ++ media_attrs s) (s_conn s).
Proof.
  intros Hp. unfold normalise_sect. pose proof (plain_media _ Hp) as Hm.
  destruct (last_nonspecial _ Hm (s_mid s) (s_dir s) (s_conn s)) as [E1 [E2 E3]].
  rewrite E1, E2, E3, (filter_all _ _ Hm). reflexivity.
Qed.

Lemma filter_tr_media_nil l : filter is_transport (filter (fun a => negb (is_transport a)) l) = [].
Proof. apply filter_none. apply (forallb_filter_self (fun a => negb (is_transport a))). Qed.

Lemma filter_media_tr_nil l : filter (fun a => negb (is_transport a)) (filter is_transport l) = [].
Proof.
  apply filter_none. assert (H := forallb_filter_self is_transport l). revert H. generalize (filter is_transport l).
  induction l0 as [|a l0 IH]; cbn; intros H; [reflexivity|].
  apply andb_true_iff in H as [Ha Hl]. rewrite Ha. cbn. auto.
Qed.

Lemma print_sect_normalise_plain s : plain_sect s = true -> print_sect (normalise_sect s) = print_sect s.
Proof.
  intros Hp. rewrite (normalise_sect_plain _ Hp). unfold print_sect, transport_attrs, media_attrs.
  cbn [s_kind s_mid s_port s_proto s_formats s_dir s_attrs s_conn].
  rewrite !filter_app.
  rewrite (filter_all is_transport (filter is_transport (s_attrs s))) by apply forallb_filter_self.
  rewrite filter_tr_media_nil, filter_media_tr_nil, app_nil_r. cbn [app].
  rewrite (filter_all (fun a => negb (is_transport a)) (filter (fun a => negb (is_transport a)) (s_attrs s)))
    by apply (forallb_filter_self (fun a => negb (is_transport a))).
  reflexivity.
Qed.

Theorem print_normalise_plain d : plain d = true -> print (normalise d) = print d.
Proof.
  intros Hp. unfold print, print_sess, normalise. cbn [d_hdr d_conn d_attrs d_sects]. f_equal.
  unfold plain in Hp. induction (d_sects d) as [|s ss IH]; [reflexivity|].
  cbn [forallb] in Hp. apply andb_true_iff in Hp as [Hs Hss].
  cbn [map flat_map]. rewrite (print_sect_normalise_plain _ Hs), (IH Hss). reflexivity.
Qed.

(* printing is stable after one parse *)
Theorem print_parse_print d :
  wf_desc d = true -> plain d = true ->
  exists d', parse (print d) = Some d' /\ print d' = print d.
Proof.
  intros Hwf Hp. exists (normalise d). split; [apply parse_print; exact Hwf|apply print_normalise_plain; exact Hp].
Qed.

(* wf / plain are preserved by normalisation, so a second round trip is the identity *)
Lemma normalise_sect_wf s : wf_sect s = true -> wf_sect (normalise_sect s) = true.
Proof.
  unfold wf_sect. intros H. apply andb_true_iff in H as [Hk Hf]. apply andb_true_iff. split; [|exact Hf].
  unfold normalise_sect, transport_attrs, media_attrs. cbn [s_attrs]. rewrite forallb_app.
  apply andb_true_iff. split; repeat apply forallb_filter; exact Hk.
Qed.

Lemma normalise_wf d : wf_desc d = true -> wf_desc (normalise d) = true.
Proof.
  unfold wf_desc, normalise. cbn [d_attrs d_sects]. intros H. apply andb_true_iff in H as [Hk Hs].
  apply andb_true_iff. split; [exact Hk|].
  induction (d_sects d) as [|s ss IH]; [reflexivity|]. cbn [forallb map] in *.
  apply andb_true_iff in Hs as [H1 H2]. rewrite (normalise_sect_wf _ H1). cbn. auto.
Qed.

Theorem roundtrip_after_normalise d :
  wf_desc d = true -> parse (print (normalise d)) = Some (normalise d).
Proof. intros H. rewrite (parse_print _ (normalise_wf _ H)), normalise_idem. reflexivity. Qed.

(* --- the literal round trip holds exactly for descriptions whose sections keep the transport
       attributes in front (the listed finding is the complement) *)
Theorem roundtrip_iff_ordered d :
  wf_desc d = true -> plain d = true -> (parse (print d) = Some d <-> ordered d).
Proof.
  intros Hwf Hp. rewrite (parse_print _ Hwf). unfold ordered.
  assert (Hn : normalise d = d <-> map normalise_sect (d_sects d) = d_sects d).
  { unfold normalise. destruct d as [h c a ss]. cbn [d_hdr d_conn d_attrs d_sects].
    split; intros H; [injection H; auto|rewrite H; reflexivity]. }
  split.
  - intros H. injection H as H. apply Hn in H. clear Hn Hwf. unfold plain in Hp.
    induction (d_sects d) as [|s ss IH]; [constructor|].
    cbn [forallb map] in *. apply andb_true_iff in Hp as [Hs Hss]. injection H as H1 H2.
    constructor; [|apply IH; assumption].
    unfold ordered_sect. rewrite (normalise_sect_plain _ Hs) in H1.
    destruct s. cbn in *. injection H1 as H1. exact H1.
  - intros H. f_equal. apply Hn. clear Hn Hwf. unfold plain in Hp.
    induction H as [|s ss Hs Hss IH]; [reflexivity|].
    cbn [forallb map] in *. apply andb_true_iff in Hp as [Hps Hpss]. rewrite (IH Hpss). f_equal.
    rewrite (normalise_sect_plain _ Hps). unfold ordered_sect in Hs. rewrite Hs. destruct s; reflexivity.
Qed.

(* --- everything the parser returns is plain and well-formed (given sane unknown-prefix lines) *)
Definition line_ok (l : line) : bool :=
  match l with LX pre _ => no_sep sep_char pre | _ => true end.

Definition p_inv (p : pst) : Prop :=
  forallb key_ok (p_sattrs p) = true /\
  forallb wf_sect (p_sects p) = true /\ forallb plain_sect (p_sects p) = true.

Lemma apply_attribute_inv m a :
  key_ok a = true -> wf_sect m = true -> plain_sect m = true ->
  wf_sect (apply_attribute m a) = true /\ plain_sect (apply_attribute m a) = true.
Proof.
  intros Ha Hw Hp. unfold apply_attribute.
  destruct (dir_of_key (a_key a)) eqn:Ed; [destruct m; auto|].
  destruct (String.eqb (a_key a) mid_key) eqn:Em; [destruct (a_val a); destruct m; auto|].
  destruct (String.eqb (a_key a) connection_key) eqn:Ec; [destruct m; auto|].
  unfold wf_sect, plain_sect, push_attr in *. cbn [s_attrs s_formats].
  apply andb_true_iff in Hw as [Hk Hf]. rewrite !forallb_app. cbn [forallb].
  rewrite Hk, Ha, Hf, Hp. unfold is_special. rewrite Ed, Em, Ec. auto.
Qed.

Lemma forallb_flush (f : sect -> bool) c dn :
  forallb f (flush c dn) = forallb f dn && match c with Some m => f m | None => true end.
Proof. destruct c; cbn; [rewrite forallb_app; cbn; rewrite andb_true_r|rewrite andb_true_r]; reflexivity. Qed.

Lemma step_inv p l p' : line_ok l = true -> p_inv p -> step p l = Some p' -> p_inv p'.
Proof.
  intros Hl [H1 [H2 H3]] Hs. unfold p_inv, p_sects in *.
  rewrite forallb_flush in H2, H3. apply andb_true_iff in H2 as [H2d H2c]. apply andb_true_iff in H3 as [H3d H3c].
  destruct l; cbn [step] in Hs.
  1-4: injection Hs as <-; cbn [p_sattrs p_cur p_done]; rewrite !forallb_flush, H2d, H3d, H2c, H3c; auto.
  - destruct (p_cur p) as [m|]; injection Hs as <-; cbn [p_sattrs p_cur p_done]; rewrite !forallb_flush, H2d, H3d; cbn.
    + destruct m; auto.
    + auto.
  - destruct (p_cur p) as [m|]; injection Hs as <-; cbn [p_sattrs p_cur p_done]; rewrite !forallb_flush, H2d, H3d; cbn.
    + destruct (apply_attribute_inv m (from_line payload) (from_line_key_ok _) H2c H3c) as [E1 E2]. rewrite E1, E2. auto.
    + rewrite forallb_app. cbn. rewrite H1, from_line_key_ok. auto.
  - destruct fmts as [|f fs]; [discriminate|]. injection Hs as <-. cbn [p_sattrs p_cur p_done].
    rewrite !forallb_flush, H2d, H3d, H2c, H3c. cbn. auto.
  - injection Hs as <-. cbn [p_sattrs p_cur p_done]. rewrite !forallb_flush, H2d, H3d, H2c, H3c, forallb_app.
    cbn [forallb]. rewrite H1. unfold key_ok. cbn [a_key]. cbn [line_ok] in Hl. rewrite Hl. auto.
Qed.

Lemma run_inv ls : forall p p', forallb line_ok ls = true -> p_inv p -> run p ls = Some p' -> p_inv p'.
Proof.
  induction ls as [|l ls IH]; intros p p' Hl Hi Hr; cbn in *.
  - injection Hr as <-. exact Hi.
  - apply andb_true_iff in Hl as [H1 H2]. destruct (step p l) eqn:Es; [|discriminate].
    eapply IH; [exact H2| |exact Hr]. eapply step_inv; eauto.
Qed.

Theorem parse_plain_wf ls d :
  forallb line_ok ls = true -> parse ls = Some d -> wf_desc d = true /\ plain d = true.
Proof.
  intros Hl Hp. unfold parse in Hp. destruct (run p_init ls) as [p|] eqn:Hr; [|discriminate].
  assert (Hi : p_inv p). { eapply run_inv; [exact Hl| |exact Hr]. repeat split. }
  unfold finish in Hp. destruct (p_sv p && p_so p && p_ss p && p_st p); [|discriminate].
  injection Hp as <-. destruct Hi as [H1 [H2 H3]]. unfold wf_desc, plain. cbn [d_attrs d_sects].
  unfold p_sects in *. rewrite H1, H2, H3. auto.
Qed.

(* ------------------------------------------------------------------ F16: the literal statement fails *)
Definition f16_sect : sect :=
  mkSect KAudio "0" 9 "UDP/TLS/RTP/SAVPF" ["111"%string] DSendRecv
         [mkAttr "rtcp-mux" None; mkAttr "setup" (Some "active"%string)] None.
Definition f16_witness : desc := mkDesc hdr_default None [] [f16_sect].

Theorem roundtrip_refuted :
  exists d, wf_desc d = true /\ plain d = true /\ parse (print d) <> Some d /\
            parse (print d) = Some (normalise d) /\ ~ ordered d.
Proof.
  exists f16_witness. split; [reflexivity|]. split; [reflexivity|].
  assert (Hneq : parse (print f16_witness) <> Some f16_witness) by (vm_compute; discriminate).
  split; [exact Hneq|]. split; [reflexivity|].
  intros Ho. apply Hneq. apply roundtrip_iff_ordered; auto.
Qed.

(* premises of the conditional theorems are satisfiable, and the round trip does hold there *)
Example roundtrip_example :
  let d := mkDesc hdr_default (Some "IN IP4 0.0.0.0"%string) [mkAttr "group" (Some "BUNDLE 0"%string)]
             [mkSect KAudio "0" 9 "UDP/TLS/RTP/SAVPF" ["111"%string] DRecvOnly
                     [mkAttr "setup" (Some "active"%string); mkAttr "rtcp-mux" None] (Some "IN IP4 0.0.0.0"%string)] in
  wf_desc d = true /\ plain d = true /\ ordered d /\ parse (print d) = Some d.
Proof. cbn zeta. repeat split. constructor; [reflexivity|constructor]. Qed.
