(* C09 -- proofs about Model/SignalingConc.v (racing signalling calls) *)
From Coq Require Import ZArith List Bool Lia PeanoNat.
From RV Require Import Gen.Signaling.
From RV Require Import Model.Signaling.
From RV Require Import Model.SignalingConc.
From RV Require Import Proofs.SignalingProofs.
Import ListNotations.
Open Scope Z_scope.
Open Scope bool_scope.

(* ---------------------------------------------------------------- racy model: refutations *)
(* glare: set_local_description(offer) and set_remote_description(offer) race from Stable, both
   read Stable before either writes: both succeed.  No order of the two calls is allowed to
   succeed twice by the JSEP machine. *)
Lemma racy_glare :
  let thr := [rthread_of (KSetLocal Offer); rthread_of (KSetRemote Offer)] in
  exists sched, snd (rexec sched (Stable, thr)) = [RDone true; RDone true] /\
    (forall order, In order [[KSetLocal Offer; KSetRemote Offer]; [KSetRemote Offer; KSetLocal Offer]] ->
                   snd (seq_results Stable order) <> [true; true]).
Proof.
  exists [0; 1; 0; 1]%nat. split; [vm_compute; reflexivity|].
  intros order [H|[H|[]]]; subst; vm_compute; discriminate.
Qed.

(* un-closing: close() lands between the read and the write of a racing setter: close() has
   returned, the setter has succeeded, and the connection reports HaveLocalOffer; sequentially
   the state is Closed after close() in either order. *)
Lemma racy_unclose :
  let thr := [rthread_of (KSetLocal Offer); rthread_of KClose] in
  exists sched, rexec sched (Stable, thr) = (HaveLocalOffer, [RDone true; RDone true]) /\
    (forall order, In order [[KSetLocal Offer; KClose]; [KClose; KSetLocal Offer]] ->
                   fst (seq_results Stable order) = Closed).
Proof.
  exists [0; 1; 0]%nat. split; [vm_compute; reflexivity|].
  intros order [H|[H|[]]]; subst; vm_compute; reflexivity.
Qed.

(* ---------------------------------------------------------------- list helpers *)
Lemma nth_set_same {A} (l : list A) : forall i x y, nth_error l i = Some y -> nth_error (set_nth i x l) i = Some x.
Proof.
  induction l as [|a l IH]; intros [|i] x y H; cbn in *; try discriminate; auto.
  all: try (eapply IH; eauto).
Qed.

Lemma nth_set_other {A} (l : list A) : forall i j x, i <> j -> nth_error (set_nth i x l) j = nth_error l j.
Proof.
  induction l as [|a l IH]; intros [|i] [|j] x H; cbn; auto; try congruence.
  all: try (apply IH; congruence).
Qed.

(* ---------------------------------------------------------------- serialised model *)
Lemma install_self s' st : dtls_started s' = dtls_started st -> install s' (set_sig st (sig s')) = s'.
Proof. intros H. unfold install. cbn. rewrite <- H. destruct s'; reflexivity. Qed.

Lemma lock_free_commutes m s' st c :
  lock_free c = true ->
  fst (step m (install s' st) c) = install s' (fst (step m st c)) /\
  snd (step m (install s' st) c) = snd (step m st c).
Proof. destruct c; cbn; try discriminate; intros _; split; reflexivity. Qed.

Lemma lock_free_not_env c : lock_free c = false -> c <> EnvDtlsStarted.
Proof. destruct c; cbn; congruence. Qed.

Record inv (m : TransportMode) (s0 : st) (k : cfg) : Prop := mkInv {
  i_mutex : mutex k;
  i_holder : forall i, c_lock k = Some i -> exists s' r, nth_error (c_thr k) i = Some (TPending s' r);
  i_state : complete k = final m s0 (map fst (c_lin k));
  i_results : map snd (c_lin k) = map snd (run m s0 (map fst (c_lin k))) }.

Lemma inv_start m s0 calls : inv m s0 (cstart s0 calls).
Proof.
  constructor; cbn.
  - intros j s' r H. exfalso. revert j H.
    induction calls as [|c calls IH]; intros [|j] H; cbn in H; try discriminate. eapply IH; eauto.
  - intros i H. discriminate.
  - reflexivity.
  - reflexivity.
Qed.

Lemma pending_none_of_free k : mutex k -> c_lock k = None -> pending k = None.
Proof. intros _ H. unfold pending. rewrite H. reflexivity. Qed.

Lemma lin_snoc m s0 (lin : list (call * result)) c r st :
  st = final m s0 (map fst lin) ->
  map snd lin = map snd (run m s0 (map fst lin)) ->
  r = snd (step m st c) ->
  map snd (lin ++ [(c, r)]) = map snd (run m s0 (map fst (lin ++ [(c, r)]))).
Proof.
  intros Hst Hres Hr. rewrite !map_app. cbn [map fst snd]. rewrite run_results_app, <- Hres, <- Hst, Hr. reflexivity.
Qed.

Lemma cstep_inv m s0 i k : inv m s0 k -> inv m s0 (cstep m i k).
Proof.
  intros Hinv. pose proof Hinv as [Hmx Hh Hs Hr]. unfold cstep. unfold mutex in Hmx.
  destruct (nth_error (c_thr k) i) as [[c|s' r|r]|] eqn:Hi; try exact Hinv.
  - (* idle *)
    destruct (lock_free c) eqn:Hlf.
    + (* close / environment: no lock *)
      assert (Hpend : pending (mkCfg (fst (step m (c_st k) c)) (c_lock k)
                         (set_nth i (TDone (snd (step m (c_st k) c))) (c_thr k))
                         (c_lin k ++ [(c, snd (step m (c_st k) c))])) = pending k).
      { unfold pending. cbn. destruct (c_lock k) as [j|] eqn:Hl; [|reflexivity].
        destruct (Nat.eq_dec i j) as [->|Hne].
        - (first [destruct (Hh j eq_refl) as (s1 & r1 & Hj) | destruct (Hh j Hl) as (s1 & r1 & Hj)]). congruence.
        - rewrite nth_set_other by exact Hne. reflexivity. }
      constructor; unfold mutex; cbn [c_st c_lock c_thr c_lin].
      * intros j s1 r1 Hj. destruct (Nat.eq_dec i j) as [->|Hne].
        -- rewrite (nth_set_same _ _ _ _ Hi) in Hj. discriminate.
        -- rewrite nth_set_other in Hj by exact Hne. exact (Hmx j s1 r1 Hj).
      * intros j Hl. (first [destruct (Hh j eq_refl) as (s1 & r1 & Hj) | destruct (Hh j Hl) as (s1 & r1 & Hj)]).
        assert (i <> j) by (intros ->; congruence).
        exists s1, r1. rewrite nth_set_other by assumption. exact Hj.
      * unfold complete. rewrite Hpend. cbn [c_st].
        rewrite map_app. cbn [map fst]. rewrite final_app, <- Hs. unfold complete.
        destruct (pending k) as [s1|]; [|reflexivity].
        symmetry. apply (lock_free_commutes m s1 (c_st k) c Hlf).
      * eapply lin_snoc; [exact Hs | exact Hr |]. unfold complete.
        destruct (pending k) as [s1|]; [|reflexivity].
        symmetry. apply (lock_free_commutes m s1 (c_st k) c Hlf).
    + destruct (c_lock k) as [j|] eqn:Hl.
      * (* lock held *)
        destruct (is_sync c); [|exact Hinv].
        assert (Hij : i <> j) by (intros ->; (first [destruct (Hh j eq_refl) as (s1 & r1 & Hj) | destruct (Hh j Hl) as (s1 & r1 & Hj)]); congruence).
        constructor; unfold mutex; cbn [c_st c_lock c_thr c_lin].
        -- intros j' s1 r1 Hj. destruct (Nat.eq_dec i j') as [->|Hne].
           ++ rewrite (nth_set_same _ _ _ _ Hi) in Hj. discriminate.
           ++ rewrite nth_set_other in Hj by exact Hne. exact (Hmx j' s1 r1 Hj).
        -- intros j' Hl'. inversion Hl'; subst j'. (first [destruct (Hh j eq_refl) as (s1 & r1 & Hj) | destruct (Hh j Hl) as (s1 & r1 & Hj)]).
           exists s1, r1. rewrite nth_set_other by exact Hij. exact Hj.
        -- rewrite <- Hs. unfold complete, pending. cbn [c_lock c_thr c_st]. rewrite Hl.
           rewrite nth_set_other by exact Hij. reflexivity.
        -- exact Hr.
      * (* lock free: step A *)
        assert (Hnop : pending k = None) by (unfold pending; rewrite Hl; reflexivity).
        assert (Hcomp : complete k = c_st k) by (unfold complete; rewrite Hnop; reflexivity).
        constructor; unfold mutex; cbn [c_st c_lock c_thr c_lin].
        -- intros j s1 r1 Hj. destruct (Nat.eq_dec i j) as [->|Hne]; [reflexivity|].
           rewrite nth_set_other in Hj by exact Hne. pose proof (Hmx j s1 r1 Hj) as H. congruence.
        -- intros j Hj. inversion Hj; subst j. eexists _, _. apply (nth_set_same _ _ _ _ Hi).
        -- unfold complete, pending. cbn [c_lock c_thr c_st]. rewrite (nth_set_same _ _ _ _ Hi).
           rewrite install_self by (apply step_keeps_dtls, lock_free_not_env, Hlf).
           rewrite map_app. cbn [map fst]. rewrite final_app, <- Hs, Hcomp. reflexivity.
        -- eapply lin_snoc; [exact Hs | exact Hr | rewrite Hcomp; reflexivity].
  - (* pending: step B *)
    destruct (c_lock k) as [j|] eqn:Hl; [|exact Hinv].
    destruct (Nat.eqb i j) eqn:Hij; [|exact Hinv].
    apply Nat.eqb_eq in Hij. subst j.
    constructor; unfold mutex; cbn [c_st c_lock c_thr c_lin].
    + intros j s1 r1 Hj. destruct (Nat.eq_dec i j) as [->|Hne].
      * rewrite (nth_set_same _ _ _ _ Hi) in Hj. discriminate.
      * rewrite nth_set_other in Hj by exact Hne. pose proof (Hmx j s1 r1 Hj) as H. congruence.
    + intros j Hj. discriminate.
    + rewrite <- Hs. unfold complete, pending. cbn [c_lock c_thr c_st]. rewrite Hl, Hi. reflexivity.
    + exact Hr.
Qed.

Lemma cexec_inv m s0 sched : forall k, inv m s0 k -> inv m s0 (cexec m sched k).
Proof.
  induction sched as [|i sched IH]; intros k Hk; cbn; [exact Hk|].
  apply IH. apply cstep_inv. exact Hk.
Qed.

(* Linearisability: for every transport mode, initial state, set of calls (one per thread)
   and schedule, the state the connection ends in (once the call in flight, if any, has
   finished) is the state of the SEQUENTIAL execution of the linearised calls, the results the
   threads got are the sequential results, and at most one call is ever in flight. *)
Lemma conc_linearizable m s0 calls sched :
  let k := cexec m sched (cstart s0 calls) in
  complete k = final m s0 (map fst (c_lin k)) /\
  map snd (c_lin k) = map snd (run m s0 (map fst (c_lin k))) /\
  mutex k.
Proof.
  cbn zeta. destruct (cexec_inv m s0 sched _ (inv_start m s0 calls)) as [H1 _ H3 H4]. auto.
Qed.

(* hence conformance and atomicity carry over to every interleaving *)
Lemma conc_conformance m s0 calls sched :
  let k := cexec m sched (cstart s0 calls) in
  conf_trace (sig s0) (map fst (c_lin k)) (run m s0 (map fst (c_lin k))) /\
  atomic_trace s0 (run m s0 (map fst (c_lin k))).
Proof. cbn zeta. split; [apply run_conformance_from | apply run_atomic_from]. Qed.

(* the synchronous set_local_description never waits: when a call is in flight it returns an
   error and changes nothing *)
Lemma conc_try_lock_busy m i j k d :
  c_lock k = Some j -> nth_error (c_thr k) i = Some (TIdle (SetLocal d)) ->
  c_st (cstep m i k) = c_st k /\ c_lin (cstep m i k) = c_lin k /\
  nth_error (c_thr (cstep m i k)) i = Some (TDone (Err EInvalidState)).
Proof.
  intros Hl Hi. unfold cstep. rewrite Hi. cbn [lock_free is_sync]. rewrite Hl. cbn.
  repeat split; auto. apply (nth_set_same _ _ _ _ Hi).
Qed.

(* the two racy scenarios in the serialised model, over ALL schedules of length 6 of two threads:
   never both Ok; once close() has run the connection reports Closed *)
Fixpoint scheds (n : nat) (ids : list nat) : list (list nat) :=
  match n with
  | O => [[]]
  | S n' => flat_map (fun s => map (fun i => i :: s) ids) (scheds n' ids)
  end.
Definition both_ok (l : list (call * result)) : bool :=
  match map snd l with [Ok; Ok] => true | _ => false end.
Definition thread_done (k : cfg) (i : nat) : bool :=
  match nth_error (c_thr k) i with Some (TDone _) => true | _ => false end.

Example conc_glare_all_schedules :
  forallb (fun sched =>
     negb (both_ok (c_lin (cexec Rtp sched
        (cstart (init [w_audio]) [SetLocal (w_desc Offer 1 1 0); SetRemote (w_desc Offer 2 2 7) false])))))
    (scheds 6 [0; 1]%nat) = true.
Proof. vm_compute. reflexivity. Qed.

Example conc_close_all_schedules :
  forallb (fun sched =>
     let k := cexec Rtp sched (cstart (init [w_audio]) [SetLocal (w_desc Offer 1 1 0); Close]) in
     implb (thread_done k 1) (SignalingState_eqb (sig (complete k)) Closed))
    (scheds 6 [0; 1]%nat) = true.
Proof. vm_compute. reflexivity. Qed.

Lemma serialised_model_applies_now : serialised_model_applies = true.
Proof. reflexivity. Qed.
