(* C09 -- proofs about Model/Signaling.v *)
From Coq Require Import ZArith List Bool Lia.
From RV Require Import Lib.Wrap.
From RV Require Import Gen.Signaling.
From RV Require Import Model.Signaling.
Import ListNotations.
Open Scope Z_scope.
Open Scope bool_scope.

Definition benign (c : call) : Prop := env_fail c = false.

(* ---------------------------------------------------------------- tactics *)
Ltac unfold_calls :=
  unfold step, create_offer, create_answer, set_local, set_local_gen, set_remote, set_remote_gen,
    remote_apply, check_rule, local_mutate, handle_reinvite, fp_conflict, remote_fp, not_wrtc,
    set_local_check_first, set_remote_fp_check_early, set_remote_next_mid_after_check,
    create_offer_required, create_answer_required in *.

Ltac proj_simpl :=
  cbn [sig local remote next_mid txs dtls_started stored_fp
       set_sig set_local_desc set_remote_desc set_next_mid set_txs set_txs_mid set_dtls_started set_stored_fp
       fst snd is_err is_some negb andb orb
       validate_sdp_type_ok set_local_rule set_remote_rule reinvite_action
       SignalingState_eqb TransportMode_eqb kind_of env_fail d_ty] in *.

Ltac break_if :=
  match goal with
  | |- context [if ?b then _ else _] => destruct b eqn:?
  | |- context [match ?x with Some _ => _ | None => _ end] => destruct x eqn:?
  | |- context [match ?x with [] => _ | _ :: _ => _ end] => destruct x eqn:?
  end.

(* ---------------------------------------------------------------- the spec table *)
Lemma spec_pranswer_keeps_state q q' :
  (spec_step q (KSetLocal Pranswer) = Some q' -> q' = q) /\
  (spec_step q (KSetRemote Pranswer) = Some q' -> q' = q).
Proof. destruct q; cbn; split; intros H; inversion H; reflexivity. Qed.

Lemma spec_rollback_forbidden q :
  q <> Closed \/ q = Closed ->
  spec_step q (KSetLocal Rollback) = None /\ spec_step q (KSetRemote Rollback) = None.
Proof. intros _. destruct q; cbn; auto. Qed.

Lemma spec_closed_only_close k : k <> KClose -> k <> KEnv -> spec_step Closed k = None.
Proof. intros H1 H2. destruct k; cbn; auto; congruence. Qed.

(* the implemented table is a sub-table of the JSEP table ... *)
Lemma impl_table_sub_spec q k q' : impl_table q k = Some q' -> spec_step q k = Some q'.
Proof.
  destruct q, k as [| |t|t| |]; try destruct t; cbn; intros H; inversion H; reflexivity.
Qed.

(* ... and these are exactly the calls JSEP allows and the implementation refuses (each of
   them is a self-loop of the JSEP machine, so refusing leaves the prescribed state) *)
Definition refused_though_allowed (q : SignalingState) (k : ckind) : bool :=
  match q, k with
  | HaveLocalOffer, KSetLocal Offer => true
  | HaveRemoteOffer, KSetRemote Offer => true
  | HaveLocalOffer, KCreateOffer => true
  | HaveRemoteOffer, KCreateOffer => true
  | _, _ => false
  end.
Lemma impl_table_vs_spec q k :
  (impl_table q k = None /\ spec_step q k <> None) <-> refused_though_allowed q k = true.
Proof.
  destruct q, k as [| |t|t| |]; try destruct t; cbn;
    (split; [ intros [H1 H2]; first [discriminate | reflexivity | (exfalso; apply H2; reflexivity)]
            | intros H; first [discriminate | (split; [reflexivity | discriminate])] ]).
Qed.
Lemma refused_is_self_loop q k : refused_though_allowed q k = true -> spec_step q k = Some q.
Proof. destruct q, k as [| |t|t| |]; try destruct t; cbn; intros H; try discriminate; reflexivity. Qed.

(* ---------------------------------------------------------------- per-call case lemmas *)
(* Without an environment failure every call either returns an error and leaves the WHOLE state
   as it was, or succeeds and moves the signaling state as its table entry says. *)
Lemma create_offer_sig m s e : sig (fst (create_offer m s e)) = sig s.
Proof. unfold_calls. repeat break_if; proj_simpl; reflexivity. Qed.

Lemma create_answer_sig m s e : sig (fst (create_answer m s e)) = sig s.
Proof. unfold_calls. repeat break_if; proj_simpl; reflexivity. Qed.

Lemma create_offer_cases m s :
  (fst (create_offer m s false) = s /\ is_err (snd (create_offer m s false)) = true) \/
  (snd (create_offer m s false) = Ok /\ sig s = Stable).
Proof.
  unfold_calls. rewrite andb_false_r.
  destruct (sig s) eqn:Hs; proj_simpl; auto.
  destruct (txs s); proj_simpl; auto.
Qed.

Lemma create_answer_cases m s :
  (fst (create_answer m s false) = s /\ is_err (snd (create_answer m s false)) = true) \/
  (snd (create_answer m s false) = Ok /\ sig s = HaveRemoteOffer).
Proof.
  unfold_calls. rewrite andb_false_r.
  destruct (sig s) eqn:Hs; proj_simpl; auto.
  repeat (break_if; proj_simpl; auto).
Qed.

Lemma set_local_cases s d :
  (fst (set_local s d) = s /\ is_err (snd (set_local s d)) = true) \/
  (snd (set_local s d) = Ok /\
   exists req nxt, set_local_rule (d_ty d) = Some (req, nxt) /\ sig s = req /\
                   sig (fst (set_local s d)) = match nxt with Some q => q | None => sig s end).
Proof.
  unfold_calls.
  destruct (d_ty d) eqn:Ht; proj_simpl; [ | | | left; auto].
  all: destruct (sig s) eqn:Hs; repeat progress (proj_simpl; rewrite ?Hs); auto.
  all: right; split; [reflexivity|]; do 2 eexists; repeat split; reflexivity.
Qed.

Lemma set_remote_cases m s d :
  (fst (set_remote m s d false) = s /\ is_err (snd (set_remote m s d false)) = true) \/
  (snd (set_remote m s d false) = Ok /\
   exists req nxt, set_remote_rule (d_ty d) = Some (req, nxt) /\ sig s = req /\
                   sig (fst (set_remote m s d false)) = match nxt with Some q => q | None => sig s end).
Proof.
  unfold_calls. rewrite !andb_false_r.
  destruct (d_ty d) eqn:Ht; proj_simpl; [ | | | left; auto].
  all: destruct m; proj_simpl;
       [ destruct (d_fp d); proj_simpl; [left; auto | | left; auto | left; auto] | | ].
  all: match goal with |- context [dtls_started ?s0 && ?x] => destruct (dtls_started s0 && x) eqn:Hc end;
       proj_simpl; [left; auto|].
  all: destruct (remote s) as [p|] eqn:Hr; proj_simpl;
       [ destruct (d_media p =? d_media d) eqn:Hm; proj_simpl | ].
  all: destruct (sig s) eqn:Hs; repeat progress (proj_simpl; rewrite ?Hs, ?Hc); auto.
  all: right; split; [reflexivity|]; do 2 eexists; repeat split; reflexivity.
Qed.

(* ---------------------------------------------------------------- atomicity, one step *)
Lemma err_not_ok r : is_err r = true -> r <> Ok.
Proof. destruct r; cbn; congruence. Qed.

Lemma step_err_same m s c e :
  benign c -> snd (step m s c) = Err e -> fst (step m s c) = s.
Proof.
  unfold benign. destruct c as [f|f|d|d f| |]; cbn [env_fail step]; intros Hf Hr; subst.
  - destruct (create_offer_cases m s) as [[H _]|[H _]]; [exact H | congruence].
  - destruct (create_answer_cases m s) as [[H _]|[H _]]; [exact H | congruence].
  - destruct (set_local_cases s d) as [[H _]|[H _]]; [exact H | congruence].
  - destruct (set_remote_cases m s d) as [[H _]|[H _]]; [exact H | congruence].
  - cbn in Hr. discriminate.
  - cbn in Hr. discriminate.
Qed.

Lemma step_atomic m s c :
  benign c -> is_err (snd (step m s c)) = true ->
  obs (fst (step m s c)) = obs s /\ next_mid (fst (step m s c)) = next_mid s.
Proof.
  intros Hb He. destruct (snd (step m s c)) as [|e] eqn:Hr; [discriminate|].
  rewrite (step_err_same m s c e Hb Hr). auto.
Qed.

Lemma run_atomic m cs : forall s, Forall benign cs -> atomic_trace s (run m s cs).
Proof.
  induction cs as [|c cs IH]; intros s Hb; cbn [run atomic_trace]; [exact I|].
  inversion Hb as [|? ? Hc Hcs]; subst.
  destruct (step m s c) as [s' r] eqn:Hstep. cbn [fst]. split.
  - intros He. pose proof (step_atomic m s c Hc) as H. rewrite Hstep in H. cbn [fst snd] in H. auto.
  - apply IH. exact Hcs.
Qed.

(* ---------------------------------------------------------------- conformance, one step *)
Definition conforms (m : TransportMode) (s : st) (c : call) : Prop :=
  sig (fst (step m s c)) = spec_after (sig s) (kind_of c) (snd (step m s c)) /\
  (spec_step (sig s) (kind_of c) = None -> is_err (snd (step m s c)) = true).

Lemma conforms_of_err m s c :
  fst (step m s c) = s -> is_err (snd (step m s c)) = true -> conforms m s c.
Proof.
  intros H1 H2. unfold conforms, spec_after. rewrite H1, H2.
  split; auto. destruct (spec_step (sig s) (kind_of c)); reflexivity.
Qed.

Lemma local_rule_spec t req nxt q :
  set_local_rule t = Some (req, nxt) -> q = req ->
  spec_step q (KSetLocal t) = Some (match nxt with Some q' => q' | None => q end).
Proof. destruct t; cbn; intros H Hq; inversion H; subst; reflexivity. Qed.

Lemma remote_rule_spec t req nxt q :
  set_remote_rule t = Some (req, nxt) -> q = req ->
  spec_step q (KSetRemote t) = Some (match nxt with Some q' => q' | None => q end).
Proof. destruct t; cbn; intros H Hq; inversion H; subst; reflexivity. Qed.

Lemma step_conforms m s c : benign c -> conforms m s c.
Proof.
  unfold benign. destruct c as [f|f|d|d f| |]; cbn [env_fail]; intros Hf; subst.
  - destruct (create_offer_cases m s) as [[H1 H2]|[H1 H2]]; [apply conforms_of_err; assumption|].
    unfold conforms, spec_after. cbn [step kind_of]. rewrite create_offer_sig, H1, H2. cbn. split; auto; discriminate.
  - destruct (create_answer_cases m s) as [[H1 H2]|[H1 H2]]; [apply conforms_of_err; assumption|].
    unfold conforms, spec_after. cbn [step kind_of]. rewrite create_answer_sig, H1, H2. cbn. split; auto; discriminate.
  - destruct (set_local_cases s d) as [[H1 H2]|[H1 (req & nxt & Hrule & Hq & Hs')]]; [apply conforms_of_err; assumption|].
    unfold conforms, spec_after. cbn [step kind_of]. rewrite H1, Hs'.
    rewrite (local_rule_spec _ _ _ _ Hrule Hq). cbn [is_err]. split; [reflexivity | discriminate].
  - destruct (set_remote_cases m s d) as [[H1 H2]|[H1 (req & nxt & Hrule & Hq & Hs')]]; [apply conforms_of_err; assumption|].
    unfold conforms, spec_after. cbn [step kind_of]. rewrite H1, Hs'.
    rewrite (remote_rule_spec _ _ _ _ Hrule Hq). cbn [is_err]. split; [reflexivity | discriminate].
  - unfold conforms, spec_after. cbn. split; auto; discriminate.
  - unfold conforms, spec_after. cbn. split; auto; discriminate.
Qed.

(* ---------------------------------------------------------------- conformance, all sequences *)
Lemma run_conformance m cs : forall s, Forall benign cs -> conf_trace (sig s) cs (run m s cs).
Proof.
  induction cs as [|c cs IH]; intros s Hb; cbn [run conf_trace]; [exact I|].
  inversion Hb as [|? ? Hc Hcs]; subst.
  destruct (step m s c) as [s' r] eqn:Hstep. cbn [fst].
  pose proof (step_conforms m s c Hc) as [H1 H2]. rewrite Hstep in H1, H2. cbn [fst snd] in H1, H2.
  repeat split; auto.
Qed.

Lemma run_conformance_from m s cs : Forall benign cs -> conf_trace (sig s) cs (run m s cs).
Proof. intros H. exact (run_conformance m cs s H). Qed.

Lemma run_atomic_from m s cs : Forall benign cs -> atomic_trace s (run m s cs).
Proof. intros H. exact (run_atomic m cs s H). Qed.

Lemma conformance_from_init m l cs : Forall benign cs -> conf_trace Stable cs (run m (init l) cs).
Proof. intros H. exact (run_conformance m cs (init l) H). Qed.

Lemma atomicity_from_init m l cs : Forall benign cs -> atomic_trace (init l) (run m (init l) cs).
Proof. intros H. exact (run_atomic m cs (init l) H). Qed.

(* even when the environment fails, the signaling state only ever moves along an edge of the
   implemented table (which is a sub-table of JSEP): it is never set to an arbitrary state *)
Lemma step_moves_along_table m s c :
  sig (fst (step m s c)) = sig s \/ impl_table (sig s) (kind_of c) = Some (sig (fst (step m s c))).
Proof.
  destruct c as [f|f|d|d f| |]; cbn [step kind_of].
  - left. apply create_offer_sig.
  - left. apply create_answer_sig.
  - destruct (set_local_cases s d) as [[H1 H2]|[H1 (req & nxt & Hrule & Hq & Hs')]]; [left; rewrite H1; reflexivity|].
    right. unfold impl_table. rewrite Hs'. destruct (d_ty d); cbn in Hrule |- *; inversion Hrule; subst; rewrite <- H0; cbn; reflexivity.
  - unfold_calls. destruct (d_ty d) eqn:Ht; proj_simpl; [ | | | left; reflexivity].
    all: destruct m; proj_simpl; [ destruct (d_fp d); proj_simpl; [left; reflexivity | | left; reflexivity | left; reflexivity] | | ].
    all: match goal with |- context [dtls_started ?s0 && ?x] => destruct (dtls_started s0 && x) eqn:Hc end;
         proj_simpl; [left; reflexivity|].
    all: destruct (remote s) as [p|] eqn:Hr; proj_simpl;
         [ destruct (d_media p =? d_media d) eqn:Hm; proj_simpl | ].
    all: destruct (sig s) eqn:Hs; repeat progress (proj_simpl; rewrite ?Hs, ?Hc); auto.
    all: destruct f; repeat progress (proj_simpl; rewrite ?Hs, ?Hc); auto.
  - right. reflexivity.
  - left. reflexivity.
Qed.

(* ---------------------------------------------------------------- pranswer / rollback / close *)
Lemma impl_table_pranswer q q' :
  (impl_table q (KSetLocal Pranswer) = Some q' -> q' = q) /\
  (impl_table q (KSetRemote Pranswer) = Some q' -> q' = q).
Proof. destruct q; cbn; split; intros H; inversion H; reflexivity. Qed.

Lemma impl_table_closed k q' : impl_table Closed k = Some q' -> q' = Closed.
Proof. destruct k as [| |t|t| |]; try destruct t; cbn; intros H; inversion H; reflexivity. Qed.

Lemma pranswer_keeps_state m s d e :
  d_ty d = Pranswer ->
  sig (fst (step m s (SetLocal d))) = sig s /\ sig (fst (step m s (SetRemote d e))) = sig s.
Proof.
  intros Ht. split.
  - destruct (step_moves_along_table m s (SetLocal d)) as [H|H]; [exact H|].
    cbn [kind_of] in H. rewrite Ht in H. apply (proj1 (impl_table_pranswer _ _)) in H. exact H.
  - destruct (step_moves_along_table m s (SetRemote d e)) as [H|H]; [exact H|].
    cbn [kind_of] in H. rewrite Ht in H. apply (proj2 (impl_table_pranswer _ _)) in H. exact H.
Qed.

Lemma rollback_refused m s d e :
  d_ty d = Rollback ->
  step m s (SetLocal d) = (s, Err ENotImplemented) /\ step m s (SetRemote d e) = (s, Err ENotImplemented).
Proof. intros Ht. cbn [step]. unfold_calls. rewrite Ht. proj_simpl. auto. Qed.

Lemma closed_stays_closed m s c : sig s = Closed -> sig (fst (step m s c)) = Closed.
Proof.
  intros Hs. destruct (step_moves_along_table m s c) as [H|H]; [congruence|].
  rewrite Hs in H. apply impl_table_closed in H. exact H.
Qed.

Lemma closed_rejects m s c :
  sig s = Closed -> c <> Close -> c <> EnvDtlsStarted ->
  fst (step m s c) = s /\ is_err (snd (step m s c)) = true.
Proof.
  intros Hs H1 H2. destruct c as [f|f|d|d f| |]; try congruence; cbn [step]; unfold_calls; rewrite ?Hs; proj_simpl; auto.
  - destruct (d_ty d); repeat progress (proj_simpl; rewrite ?Hs); auto.
  - destruct (d_ty d); repeat progress (proj_simpl; rewrite ?Hs); auto;
      repeat (break_if; repeat progress (proj_simpl; rewrite ?Hs); auto).
Qed.

Lemma close_absorbing m cs : forall s,
  sig s = Closed -> Forall (fun p => sig (fst p) = Closed) (run m s cs).
Proof.
  induction cs as [|c cs IH]; intros s Hs; cbn [run]; constructor.
  - apply closed_stays_closed; exact Hs.
  - apply IH. apply closed_stays_closed; exact Hs.
Qed.

Lemma close_absorbing_after_close m s cs :
  Forall (fun p => sig (fst p) = Closed) (run m (fst (step m s Close)) cs).
Proof. apply close_absorbing. reflexivity. Qed.

(* ---------------------------------------------------------------- witnesses *)
Definition w_audio : tx := mkTx Audio None SendRecv 0 0.
Definition w_sec (pm : Z) : section := mkSec Audio (MNum 0) SendRecv pm 0.
Definition w_desc (t : SdpType) (id media pm : Z) : desc := mkDesc t id media (FpSha 1) [w_sec pm].

(* premises are satisfiable: a complete benign negotiation, as offerer and as answerer *)
Example offerer_negotiation :
  let cs := [CreateOffer false; SetLocal (w_desc Offer 1 1 0); SetRemote (w_desc Answer 2 2 7) false] in
  Forall benign cs /\
  map (fun p => (sig (fst p), snd p)) (run Rtp (init [w_audio]) cs)
  = [(Stable, Ok); (HaveLocalOffer, Ok); (Stable, Ok)].
Proof. split; [repeat constructor | vm_compute; reflexivity]. Qed.

Example answerer_negotiation :
  let cs := [SetRemote (w_desc Offer 1 1 7) false; CreateAnswer false; SetLocal (w_desc Pranswer 2 2 7);
             SetLocal (w_desc Answer 3 2 7)] in
  Forall benign cs /\
  map (fun p => (sig (fst p), snd p)) (run WebRtc (init [w_audio]) cs)
  = [(HaveRemoteOffer, Ok); (HaveRemoteOffer, Ok); (HaveRemoteOffer, Ok); (Stable, Ok)].
Proof. split; [repeat constructor | vm_compute; reflexivity]. Qed.

(* open finding `transport_start_failure`: when the transport step reached by the call fails
   (socket bind / ICE start), the call returns Err although ... *)
(* ... set_remote_description(offer) has moved to HaveRemoteOffer, stored the description and
   updated the transceiver (RTP mode) *)
Lemma env_failure_set_remote_witness :
  exists m s c e, env_fail c = true /\ snd (step m s c) = Err e /\
                  sig (fst (step m s c)) <> sig s /\ obs (fst (step m s c)) <> obs s /\
                  sig (fst (step m s c)) <> spec_after (sig s) (kind_of c) (snd (step m s c)).
Proof.
  exists Rtp, (init [w_audio]), (SetRemote (w_desc Offer 1 1 7) true), EInternal.
  vm_compute. repeat split; discriminate.
Qed.

(* ... create_offer has assigned mids and advanced the mid counter (RTP / SRTP modes) *)
Lemma env_failure_create_offer_witness :
  exists m s c e, env_fail c = true /\ snd (step m s c) = Err e /\
                  txs (fst (step m s c)) <> txs s /\ next_mid (fst (step m s c)) <> next_mid s.
Proof.
  exists Rtp, (init [w_audio]), (CreateOffer true), EInternal.
  vm_compute. repeat split; discriminate.
Qed.

(* the three orders of effects that commits e54053c / a9101a5 repaired, kept as witnesses about the
   parametrised step functions: with the old order a rejected call did change state *)
Lemma F13_old_order_witness :
  exists s d e, snd (set_local_gen false s d) = Err e /\ txs (fst (set_local_gen false s d)) <> txs s.
Proof.
  exists (final Rtp (init [w_audio]) [CreateOffer false; SetLocal (w_desc Offer 1 1 0)]),
         (w_desc Offer 2 2 8), EInvalidState.
  vm_compute. split; [reflexivity | discriminate].
Qed.

Lemma next_mid_old_order_witness :
  exists m s d e, snd (set_remote_gen true false m s d false) = Err e /\
                  next_mid (fst (set_remote_gen true false m s d false)) <> next_mid s.
Proof.
  exists Rtp, (init [w_audio]), (mkDesc Answer 1 1 FpNone [mkSec Audio (MNum 7) SendRecv 0 0]), EInvalidState.
  vm_compute. split; [reflexivity | discriminate].
Qed.

Lemma fingerprint_old_order_witness :
  exists m s d e, snd (set_remote_gen false true m s d false) = Err e /\
                  sig (fst (set_remote_gen false true m s d false)) <> sig s /\
                  txs (fst (set_remote_gen false true m s d false)) <> txs s.
Proof.
  exists WebRtc,
    (final WebRtc (init [w_audio])
       [SetRemote (w_desc Offer 1 1 7) false; CreateAnswer false; SetLocal (w_desc Answer 2 2 7); EnvDtlsStarted]),
    (mkDesc Offer 3 3 (FpSha 2) [w_sec 8]), EInvalidState.
  vm_compute. repeat split; discriminate.
Qed.

(* and with the current order the same three inputs are refused without any change *)
Example F13_witness_now_atomic :
  let s := final Rtp (init [w_audio]) [CreateOffer false; SetLocal (w_desc Offer 1 1 0)] in
  step Rtp s (SetLocal (w_desc Offer 2 2 8)) = (s, Err EInvalidState).
Proof. vm_compute. reflexivity. Qed.

Example next_mid_witness_now_atomic :
  let s := init [w_audio] in
  step Rtp s (SetRemote (mkDesc Answer 1 1 FpNone [mkSec Audio (MNum 7) SendRecv 0 0]) false) = (s, Err EInvalidState).
Proof. vm_compute. reflexivity. Qed.

Example fingerprint_witness_now_atomic :
  let s := final WebRtc (init [w_audio])
       [SetRemote (w_desc Offer 1 1 7) false; CreateAnswer false; SetLocal (w_desc Answer 2 2 7); EnvDtlsStarted] in
  step WebRtc s (SetRemote (mkDesc Offer 3 3 (FpSha 2) [w_sec 8]) false) = (s, Err EInvalidState).
Proof. vm_compute. reflexivity. Qed.
