(* C09 -- proofs about Model/Signaling.v *)
From Coq Require Import ZArith List Bool Lia.
From RV Require Import Lib.Wrap.
From RV Require Import Gen.Signaling.
From RV Require Import Model.Signaling.
Import ListNotations.
Open Scope Z_scope.
Open Scope bool_scope.

(* ---------------------------------------------------------------- tactics *)
Ltac unfold_calls :=
  unfold create_offer_raw, create_answer_raw, set_local, set_local_gen, set_remote_raw,
    remote_apply, check_rule, local_mutate, handle_reinvite, fp_conflict, remote_fp, not_wrtc,
    set_local_check_first, set_remote_fp_check_early, set_remote_next_mid_after_check,
    create_offer_required, create_answer_required in *.

Ltac proj_simpl :=
  cbn [sig local remote next_mid txs dtls_started stored_fp
       set_sig set_local_desc set_remote_desc set_next_mid set_txs set_txs_mid set_dtls_started set_stored_fp
       fst snd is_err is_some negb andb orb
       validate_sdp_type_ok set_local_rule set_remote_rule reinvite_action
       SignalingState_eqb TransportMode_eqb kind_of env_fail d_ty] in *.

Ltac break_if :=
  match goal with
  | |- context [if ?b then _ else _] => destruct b eqn:?
  | |- context [match ?x with Some _ => _ | None => _ end] => destruct x eqn:?
  | |- context [match ?x with [] => _ | _ :: _ => _ end] => destruct x eqn:?
  end.

(* ---------------------------------------------------------------- the spec table *)
Lemma spec_pranswer_keeps_state q q' :
  (spec_step q (KSetLocal Pranswer) = Some q' -> q' = q) /\
  (spec_step q (KSetRemote Pranswer) = Some q' -> q' = q).
Proof. destruct q; cbn; split; intros H; inversion H; reflexivity. Qed.

Lemma spec_rollback_forbidden q :
  q <> Closed \/ q = Closed ->
  spec_step q (KSetLocal Rollback) = None /\ spec_step q (KSetRemote Rollback) = None.
Proof. intros _. destruct q; cbn; auto. Qed.

Lemma spec_closed_only_close k : k <> KClose -> k <> KEnv -> spec_step Closed k = None.
Proof. intros H1 H2. destruct k; cbn; auto; congruence. Qed.

(* the implemented table is a sub-table of the JSEP table ... *)
Lemma impl_table_sub_spec q k q' : impl_table q k = Some q' -> spec_step q k = Some q'.
Proof.
  destruct q, k as [| |t|t| |]; try destruct t; cbn; intros H; inversion H; reflexivity.
Qed.

(* ... and these are exactly the calls JSEP allows and the implementation refuses (each of
   them is a self-loop of the JSEP machine, so refusing leaves the prescribed state) *)
Definition refused_though_allowed (q : SignalingState) (k : ckind) : bool :=
  match q, k with
  | HaveLocalOffer, KSetLocal Offer => true
  | HaveRemoteOffer, KSetRemote Offer => true
  | HaveLocalOffer, KCreateOffer => true
  | HaveRemoteOffer, KCreateOffer => true
  | _, _ => false
  end.
Lemma impl_table_vs_spec q k :
  (impl_table q k = None /\ spec_step q k <> None) <-> refused_though_allowed q k = true.
Proof.
  destruct q, k as [| |t|t| |]; try destruct t; cbn;
    (split; [ intros [H1 H2]; first [discriminate | reflexivity | (exfalso; apply H2; reflexivity)]
            | intros H; first [discriminate | (split; [reflexivity | discriminate])] ]).
Qed.
Lemma refused_is_self_loop q k : refused_though_allowed q k = true -> spec_step q k = Some q.
Proof. destruct q, k as [| |t|t| |]; try destruct t; cbn; intros H; try discriminate; reflexivity. Qed.

(* ---------------------------------------------------------------- per-call facts (unguarded work) *)
(* What the work of a call does, whatever the environment: it never touches the stored local
   description (except set_local) nor the DTLS flag, never reports Closed unless it started
   there, and either returns an error or succeeds and moves the signaling state as its table
   entry says. *)
Definition frame (s s' : st) : Prop :=
  local s' = local s /\ dtls_started s' = dtls_started s /\ (sig s' = Closed -> sig s = Closed).

Ltac finish_facts := repeat split; intros; auto; try discriminate; try congruence.

Lemma create_offer_raw_facts m s f :
  frame s (fst (create_offer_raw m s f)) /\ sig (fst (create_offer_raw m s f)) = sig s /\
  (snd (create_offer_raw m s f) = Ok -> sig s = Stable) /\
  (is_err (snd (create_offer_raw m s false)) = true -> fst (create_offer_raw m s false) = s).
Proof.
  unfold frame. unfold_calls. rewrite andb_false_r.
  destruct (sig s) eqn:Hs; proj_simpl; [ | finish_facts | finish_facts | finish_facts ].
  destruct (txs s); proj_simpl; [finish_facts|].
  destruct (negb (TransportMode_eqb m WebRtc) && f); proj_simpl; rewrite ?Hs; finish_facts.
Qed.

Lemma create_answer_raw_facts m s f :
  frame s (fst (create_answer_raw m s f)) /\ sig (fst (create_answer_raw m s f)) = sig s /\
  (snd (create_answer_raw m s f) = Ok -> sig s = HaveRemoteOffer) /\
  (is_err (snd (create_answer_raw m s false)) = true -> fst (create_answer_raw m s false) = s).
Proof.
  unfold frame. unfold_calls. rewrite andb_false_r.
  destruct (sig s) eqn:Hs; proj_simpl; [ finish_facts | finish_facts | | finish_facts ].
  destruct (txs s); proj_simpl; [finish_facts|].
  destruct (remote s); proj_simpl; [|finish_facts].
  destruct (order_answer _ _ _) as [[|i o]|]; proj_simpl; [finish_facts | | finish_facts].
  destruct (negb (TransportMode_eqb m WebRtc) && f); proj_simpl; rewrite ?Hs; finish_facts.
Qed.

Lemma set_local_cases s d :
  (fst (set_local s d) = s /\ is_err (snd (set_local s d)) = true) \/
  (snd (set_local s d) = Ok /\
   exists req nxt, set_local_rule (d_ty d) = Some (req, nxt) /\ sig s = req /\
                   sig (fst (set_local s d)) = match nxt with Some q => q | None => sig s end).
Proof.
  unfold_calls.
  destruct (d_ty d) eqn:Ht; proj_simpl; [ | | | left; auto].
  all: destruct (sig s) eqn:Hs; repeat progress (proj_simpl; rewrite ?Hs); auto.
  all: right; split; [reflexivity|]; do 2 eexists; repeat split; reflexivity.
Qed.

Definition remote_ok (s : st) (d : desc) (p : st * result) : Prop :=
  snd p = Ok /\
  exists req nxt, set_remote_rule (d_ty d) = Some (req, nxt) /\ sig s = req /\
                  sig (fst p) = match nxt with Some q => q | None => sig s end.

Lemma set_remote_raw_facts m s d f :
  let p := set_remote_raw true true m s d f in
  frame s (fst p) /\ (is_err (snd p) = true \/ remote_ok s d p) /\
  (f = false -> is_err (snd p) = true -> fst p = s).
Proof.
  unfold frame, remote_ok. unfold_calls. cbn zeta.
  destruct (d_ty d) eqn:Ht; proj_simpl; [ | | | repeat split; auto; discriminate].
  all: destruct m; proj_simpl;
       [ destruct (d_fp d); proj_simpl;
         [ repeat split; auto; discriminate | | repeat split; auto; discriminate | repeat split; auto; discriminate ] | | ].
  all: match goal with |- context [dtls_started ?s0 && ?x] => destruct (dtls_started s0 && x) eqn:Hc end;
       proj_simpl; [repeat split; auto; discriminate|].
  all: destruct (remote s) as [p|] eqn:Hr; proj_simpl;
       [ destruct (d_media p =? d_media d) eqn:Hm; proj_simpl | ].
  all: destruct (sig s) eqn:Hs; repeat progress (proj_simpl; rewrite ?Hs, ?Hc);
       try (repeat split; auto; discriminate).
  all: destruct f; repeat progress (proj_simpl; rewrite ?Hs, ?Hc);
       repeat split; auto; try discriminate; try congruence.
  all: right; split; [reflexivity|]; do 2 eexists; repeat split; reflexivity.
Qed.

(* ---------------------------------------------------------------- the guard *)
Lemma restore_same s s' : frame s s' -> restore s s' = s.
Proof.
  intros (Hl & Hd & Hc). unfold restore. rewrite Hl, Hd.
  destruct (SignalingState_eqb (sig s') Closed) eqn:He.
  - assert (sig s' = Closed) as H by (destruct (sig s'); cbn in He; congruence).
    rewrite H. pose proof (Hc H) as Hs. destruct s; cbn in *; subst; reflexivity.
  - destruct s; reflexivity.
Qed.

Lemma guard_err s p : frame s (fst p) -> is_err (snd p) = true -> guard true s p = (s, snd p).
Proof. intros Hf He. unfold guard. rewrite He. cbn. rewrite restore_same by exact Hf. reflexivity. Qed.

Lemma guard_ok g s p : snd p = Ok -> guard g s p = p.
Proof. intros H. unfold guard. rewrite H. cbn. rewrite andb_false_r. reflexivity. Qed.

Lemma result_dec r : is_err r = true \/ r = Ok.
Proof. destruct r; cbn; auto. Qed.

(* with the guards every call either returns an error and leaves the WHOLE state as it was, or
   succeeds and moves the signaling state as its table entry says -- environment failure or not *)
Lemma create_offer_cases m s f :
  (fst (create_offer m s f) = s /\ is_err (snd (create_offer m s f)) = true) \/
  (snd (create_offer m s f) = Ok /\ sig s = Stable /\ sig (fst (create_offer m s f)) = sig s).
Proof.
  unfold create_offer, create_offer_gen, create_offer_restores_on_error.
  destruct (create_offer_raw_facts m s f) as (Hf & Hs & Hok & _).
  destruct (result_dec (snd (create_offer_raw m s f))) as [He|Ho].
  - left. rewrite (guard_err _ _ Hf He). auto.
  - right. rewrite (guard_ok _ _ _ Ho). auto.
Qed.

Lemma create_answer_cases m s f :
  (fst (create_answer m s f) = s /\ is_err (snd (create_answer m s f)) = true) \/
  (snd (create_answer m s f) = Ok /\ sig s = HaveRemoteOffer /\ sig (fst (create_answer m s f)) = sig s).
Proof.
  unfold create_answer, create_answer_gen, create_answer_restores_on_error.
  destruct (create_answer_raw_facts m s f) as (Hf & Hs & Hok & _).
  destruct (result_dec (snd (create_answer_raw m s f))) as [He|Ho].
  - left. rewrite (guard_err _ _ Hf He). auto.
  - right. rewrite (guard_ok _ _ _ Ho). auto.
Qed.

Lemma set_remote_cases m s d f :
  (fst (set_remote m s d f) = s /\ is_err (snd (set_remote m s d f)) = true) \/
  (snd (set_remote m s d f) = Ok /\
   exists req nxt, set_remote_rule (d_ty d) = Some (req, nxt) /\ sig s = req /\
                   sig (fst (set_remote m s d f)) = match nxt with Some q => q | None => sig s end).
Proof.
  unfold set_remote, set_remote_gen, set_remote_restores_on_error, set_remote_fp_check_early,
    set_remote_next_mid_after_check.
  destruct (set_remote_raw_facts m s d f) as (Hf & [He|Hok] & _).
  - left. rewrite (guard_err _ _ Hf He). auto.
  - right. destruct Hok as (Ho & Hrest). rewrite (guard_ok _ _ _ Ho). auto.
Qed.

(* ---------------------------------------------------------------- atomicity, one step *)
Lemma step_err_same m s c e : snd (step m s c) = Err e -> fst (step m s c) = s.
Proof.
  destruct c as [f|f|d|d f| |]; cbn [step]; intros Hr.
  - destruct (create_offer_cases m s f) as [[H _]|[H _]]; [exact H | congruence].
  - destruct (create_answer_cases m s f) as [[H _]|[H _]]; [exact H | congruence].
  - destruct (set_local_cases s d) as [[H _]|[H _]]; [exact H | congruence].
  - destruct (set_remote_cases m s d f) as [[H _]|[H _]]; [exact H | congruence].
  - cbn in Hr. discriminate.
  - cbn in Hr. discriminate.
Qed.

Lemma step_atomic m s c :
  is_err (snd (step m s c)) = true ->
  obs (fst (step m s c)) = obs s /\ next_mid (fst (step m s c)) = next_mid s.
Proof.
  intros He. destruct (snd (step m s c)) as [|e] eqn:Hr; [discriminate|].
  rewrite (step_err_same m s c e Hr). auto.
Qed.

Lemma run_atomic m cs : forall s, atomic_trace s (run m s cs).
Proof.
  induction cs as [|c cs IH]; intros s; cbn [run atomic_trace]; [exact I|].
  destruct (step m s c) as [s' r] eqn:Hstep. cbn [fst]. split.
  - intros He. pose proof (step_atomic m s c) as H. rewrite Hstep in H. cbn [fst snd] in H. auto.
  - apply IH.
Qed.

(* ---------------------------------------------------------------- conformance, one step *)
Definition conforms (m : TransportMode) (s : st) (c : call) : Prop :=
  sig (fst (step m s c)) = spec_after (sig s) (kind_of c) (snd (step m s c)) /\
  (spec_step (sig s) (kind_of c) = None -> is_err (snd (step m s c)) = true).

Lemma conforms_of_err m s c :
  fst (step m s c) = s -> is_err (snd (step m s c)) = true -> conforms m s c.
Proof.
  intros H1 H2. unfold conforms, spec_after. rewrite H1, H2.
  split; auto. destruct (spec_step (sig s) (kind_of c)); reflexivity.
Qed.

Lemma local_rule_spec t req nxt q :
  set_local_rule t = Some (req, nxt) -> q = req ->
  spec_step q (KSetLocal t) = Some (match nxt with Some q' => q' | None => q end).
Proof. destruct t; cbn; intros H Hq; inversion H; subst; reflexivity. Qed.

Lemma remote_rule_spec t req nxt q :
  set_remote_rule t = Some (req, nxt) -> q = req ->
  spec_step q (KSetRemote t) = Some (match nxt with Some q' => q' | None => q end).
Proof. destruct t; cbn; intros H Hq; inversion H; subst; reflexivity. Qed.

Lemma step_conforms m s c : conforms m s c.
Proof.
  destruct c as [f|f|d|d f| |].
  - destruct (create_offer_cases m s f) as [[H1 H2]|(H1 & H2 & H3)]; [apply conforms_of_err; assumption|].
    unfold conforms, spec_after. cbn [step kind_of]. rewrite H3, H1, H2. cbn. split; auto; discriminate.
  - destruct (create_answer_cases m s f) as [[H1 H2]|(H1 & H2 & H3)]; [apply conforms_of_err; assumption|].
    unfold conforms, spec_after. cbn [step kind_of]. rewrite H3, H1, H2. cbn. split; auto; discriminate.
  - destruct (set_local_cases s d) as [[H1 H2]|[H1 (req & nxt & Hrule & Hq & Hs')]]; [apply conforms_of_err; assumption|].
    unfold conforms, spec_after. cbn [step kind_of]. rewrite H1, Hs'.
    rewrite (local_rule_spec _ _ _ _ Hrule Hq). cbn [is_err]. split; [reflexivity | discriminate].
  - destruct (set_remote_cases m s d f) as [[H1 H2]|[H1 (req & nxt & Hrule & Hq & Hs')]]; [apply conforms_of_err; assumption|].
    unfold conforms, spec_after. cbn [step kind_of]. rewrite H1, Hs'.
    rewrite (remote_rule_spec _ _ _ _ Hrule Hq). cbn [is_err]. split; [reflexivity | discriminate].
  - unfold conforms, spec_after. cbn. split; auto; discriminate.
  - unfold conforms, spec_after. cbn. split; auto; discriminate.
Qed.

(* ---------------------------------------------------------------- conformance, all sequences *)
Lemma run_conformance m cs : forall s, conf_trace (sig s) cs (run m s cs).
Proof.
  induction cs as [|c cs IH]; intros s; cbn [run conf_trace]; [exact I|].
  destruct (step m s c) as [s' r] eqn:Hstep. cbn [fst].
  pose proof (step_conforms m s c) as [H1 H2]. rewrite Hstep in H1, H2. cbn [fst snd] in H1, H2.
  repeat split; auto.
Qed.

Lemma run_conformance_from m s cs : conf_trace (sig s) cs (run m s cs).
Proof. exact (run_conformance m cs s). Qed.

Lemma run_atomic_from m s cs : atomic_trace s (run m s cs).
Proof. exact (run_atomic m cs s). Qed.

Lemma conformance_from_init m l cs : conf_trace Stable cs (run m (init l) cs).
Proof. exact (run_conformance m cs (init l)). Qed.

Lemma atomicity_from_init m l cs : atomic_trace (init l) (run m (init l) cs).
Proof. exact (run_atomic m cs (init l)). Qed.

(* the signaling state only ever moves along an edge of the implemented table (a sub-table of JSEP) *)
Lemma step_moves_along_table m s c :
  sig (fst (step m s c)) = sig s \/ impl_table (sig s) (kind_of c) = Some (sig (fst (step m s c))).
Proof.
  destruct c as [f|f|d|d f| |]; cbn [step kind_of].
  - left. destruct (create_offer_cases m s f) as [[H _]|(_ & _ & H)]; [rewrite H|]; auto.
  - left. destruct (create_answer_cases m s f) as [[H _]|(_ & _ & H)]; [rewrite H|]; auto.
  - destruct (set_local_cases s d) as [[H1 H2]|[H1 (req & nxt & Hrule & Hq & Hs')]]; [left; rewrite H1; reflexivity|].
    right. unfold impl_table. rewrite Hs'. destruct (d_ty d); cbn in Hrule |- *; inversion Hrule; subst; rewrite <- H0; cbn; reflexivity.
  - destruct (set_remote_cases m s d f) as [[H1 H2]|[H1 (req & nxt & Hrule & Hq & Hs')]]; [left; rewrite H1; reflexivity|].
    right. unfold impl_table. rewrite Hs'. destruct (d_ty d); cbn in Hrule |- *; inversion Hrule; subst; rewrite <- H0; cbn; reflexivity.
  - right. reflexivity.
  - left. reflexivity.
Qed.

(* ---------------------------------------------------------------- pranswer / rollback / close *)
Lemma impl_table_pranswer q q' :
  (impl_table q (KSetLocal Pranswer) = Some q' -> q' = q) /\
  (impl_table q (KSetRemote Pranswer) = Some q' -> q' = q).
Proof. destruct q; cbn; split; intros H; inversion H; reflexivity. Qed.

Lemma impl_table_closed k q' : impl_table Closed k = Some q' -> q' = Closed.
Proof. destruct k as [| |t|t| |]; try destruct t; cbn; intros H; inversion H; reflexivity. Qed.

Lemma pranswer_keeps_state m s d e :
  d_ty d = Pranswer ->
  sig (fst (step m s (SetLocal d))) = sig s /\ sig (fst (step m s (SetRemote d e))) = sig s.
Proof.
  intros Ht. split.
  - destruct (step_moves_along_table m s (SetLocal d)) as [H|H]; [exact H|].
    cbn [kind_of] in H. rewrite Ht in H. apply (proj1 (impl_table_pranswer _ _)) in H. exact H.
  - destruct (step_moves_along_table m s (SetRemote d e)) as [H|H]; [exact H|].
    cbn [kind_of] in H. rewrite Ht in H. apply (proj2 (impl_table_pranswer _ _)) in H. exact H.
Qed.

Lemma frame_refl s : frame s s.
Proof. unfold frame. auto. Qed.

Lemma rollback_refused m s d e :
  d_ty d = Rollback ->
  step m s (SetLocal d) = (s, Err ENotImplemented) /\ step m s (SetRemote d e) = (s, Err ENotImplemented).
Proof.
  intros Ht. cbn [step]. split.
  - unfold_calls. rewrite Ht. proj_simpl. reflexivity.
  - unfold set_remote, set_remote_gen, set_remote_restores_on_error.
    assert (set_remote_raw set_remote_fp_check_early set_remote_next_mid_after_check m s d e = (s, Err ENotImplemented)) as Hraw
      by (unfold_calls; rewrite Ht; proj_simpl; reflexivity).
    rewrite Hraw. apply (guard_err s (s, Err ENotImplemented) (frame_refl s)). reflexivity.
Qed.

Lemma closed_stays_closed m s c : sig s = Closed -> sig (fst (step m s c)) = Closed.
Proof.
  intros Hs. destruct (step_moves_along_table m s c) as [H|H]; [congruence|].
  rewrite Hs in H. apply impl_table_closed in H. exact H.
Qed.

Lemma closed_rejects m s c :
  sig s = Closed -> c <> Close -> c <> EnvDtlsStarted ->
  fst (step m s c) = s /\ is_err (snd (step m s c)) = true.
Proof.
  intros Hs H1 H2. destruct c as [f|f|d|d f| |]; try congruence; cbn [step].
  - destruct (create_offer_cases m s f) as [H|(_ & H & _)]; [exact H | congruence].
  - destruct (create_answer_cases m s f) as [H|(_ & H & _)]; [exact H | congruence].
  - destruct (set_local_cases s d) as [H|(_ & req & nxt & Hrule & Hq & _)]; [exact H|].
    exfalso. destruct (d_ty d); cbn in Hrule; inversion Hrule; congruence.
  - destruct (set_remote_cases m s d f) as [H|(_ & req & nxt & Hrule & Hq & _)]; [exact H|].
    exfalso. destruct (d_ty d); cbn in Hrule; inversion Hrule; congruence.
Qed.

Lemma close_absorbing m cs : forall s,
  sig s = Closed -> Forall (fun p => sig (fst p) = Closed) (run m s cs).
Proof.
  induction cs as [|c cs IH]; intros s Hs; cbn [run]; constructor.
  - apply closed_stays_closed; exact Hs.
  - apply IH. apply closed_stays_closed; exact Hs.
Qed.

Lemma close_absorbing_after_close m s cs :
  Forall (fun p => sig (fst p) = Closed) (run m (fst (step m s Close)) cs).
Proof. apply close_absorbing. reflexivity. Qed.

(* ---------------------------------------------------------------- witnesses *)
Definition w_audio : tx := mkTx Audio None SendRecv 0 0.
Definition w_sec (pm : Z) : section := mkSec Audio (MNum 0) SendRecv pm 0.
Definition w_desc (t : SdpType) (id media pm : Z) : desc := mkDesc t id media (FpSha 1) [w_sec pm].

(* the statements are not vacuous: a complete negotiation, as offerer and as answerer *)
Example offerer_negotiation :
  let cs := [CreateOffer false; SetLocal (w_desc Offer 1 1 0); SetRemote (w_desc Answer 2 2 7) false] in
  map (fun p => (sig (fst p), snd p)) (run Rtp (init [w_audio]) cs)
  = [(Stable, Ok); (HaveLocalOffer, Ok); (Stable, Ok)].
Proof. vm_compute. reflexivity. Qed.

Example answerer_negotiation :
  let cs := [SetRemote (w_desc Offer 1 1 7) false; CreateAnswer false; SetLocal (w_desc Pranswer 2 2 7);
             SetLocal (w_desc Answer 3 2 7)] in
  map (fun p => (sig (fst p), snd p)) (run WebRtc (init [w_audio]) cs)
  = [(HaveRemoteOffer, Ok); (HaveRemoteOffer, Ok); (HaveRemoteOffer, Ok); (Stable, Ok)].
Proof. vm_compute. reflexivity. Qed.

(* fixed finding `transport_start_failure` (commit 26c1790): when the transport step reached by
   the call fails, the unguarded work has already moved to HaveRemoteOffer, stored the
   description and updated the transceiver (RTP mode) ... *)
Lemma env_failure_unguarded_set_remote_witness :
  exists m s d e, snd (set_remote_gen false true true m s d true) = Err e /\
                  sig (fst (set_remote_gen false true true m s d true)) <> sig s /\
                  obs (fst (set_remote_gen false true true m s d true)) <> obs s.
Proof.
  exists Rtp, (init [w_audio]), (w_desc Offer 1 1 7), EInternal.
  vm_compute. repeat split; discriminate.
Qed.

(* ... and create_offer has assigned mids and advanced the mid counter (RTP / SRTP modes) *)
Lemma env_failure_unguarded_create_offer_witness :
  exists m s e, snd (create_offer_gen false m s true) = Err e /\
                txs (fst (create_offer_gen false m s true)) <> txs s /\
                next_mid (fst (create_offer_gen false m s true)) <> next_mid s.
Proof.
  exists Rtp, (init [w_audio]), EInternal.
  vm_compute. repeat split; discriminate.
Qed.

(* with the restore-on-error guard the same two inputs are refused without any change *)
Example env_failure_set_remote_now_atomic :
  step Rtp (init [w_audio]) (SetRemote (w_desc Offer 1 1 7) true) = (init [w_audio], Err EInternal).
Proof. vm_compute. reflexivity. Qed.

Example env_failure_create_offer_now_atomic :
  step Rtp (init [w_audio]) (CreateOffer true) = (init [w_audio], Err EInternal).
Proof. vm_compute. reflexivity. Qed.

(* an environment failure in the middle of a negotiation: the call fails, nothing moves, and
   the same call succeeds when the environment recovers *)
Example env_failure_then_retry :
  map (fun p => (sig (fst p), snd p))
      (run Srtp (init [w_audio]) [SetRemote (w_desc Offer 1 1 7) true; SetRemote (w_desc Offer 1 1 7) false; CreateAnswer true; CreateAnswer false])
  = [(Stable, Err EInternal); (HaveRemoteOffer, Ok); (HaveRemoteOffer, Err EInternal); (HaveRemoteOffer, Ok)].
Proof. vm_compute. reflexivity. Qed.

(* the three orders of effects that commits e54053c / a9101a5 repaired, kept as witnesses about the
   parametrised (unguarded) step functions: with the old order a rejected call did change state *)
Lemma F13_old_order_witness :
  exists s d e, snd (set_local_gen false s d) = Err e /\ txs (fst (set_local_gen false s d)) <> txs s.
Proof.
  exists (final Rtp (init [w_audio]) [CreateOffer false; SetLocal (w_desc Offer 1 1 0)]),
         (w_desc Offer 2 2 8), EInvalidState.
  vm_compute. split; [reflexivity | discriminate].
Qed.

Lemma next_mid_old_order_witness :
  exists m s d e, snd (set_remote_gen false true false m s d false) = Err e /\
                  next_mid (fst (set_remote_gen false true false m s d false)) <> next_mid s.
Proof.
  exists Rtp, (init [w_audio]), (mkDesc Answer 1 1 FpNone [mkSec Audio (MNum 7) SendRecv 0 0]), EInvalidState.
  vm_compute. split; [reflexivity | discriminate].
Qed.

Lemma fingerprint_old_order_witness :
  exists m s d e, snd (set_remote_gen false false true m s d false) = Err e /\
                  sig (fst (set_remote_gen false false true m s d false)) <> sig s /\
                  txs (fst (set_remote_gen false false true m s d false)) <> txs s.
Proof.
  exists WebRtc,
    (final WebRtc (init [w_audio])
       [SetRemote (w_desc Offer 1 1 7) false; CreateAnswer false; SetLocal (w_desc Answer 2 2 7); EnvDtlsStarted]),
    (mkDesc Offer 3 3 (FpSha 2) [w_sec 8]), EInvalidState.
  vm_compute. repeat split; discriminate.
Qed.

(* and with the current order the same three inputs are refused without any change *)
Example F13_witness_now_atomic :
  let s := final Rtp (init [w_audio]) [CreateOffer false; SetLocal (w_desc Offer 1 1 0)] in
  step Rtp s (SetLocal (w_desc Offer 2 2 8)) = (s, Err EInvalidState).
Proof. vm_compute. reflexivity. Qed.

Example next_mid_witness_now_atomic :
  let s := init [w_audio] in
  step Rtp s (SetRemote (mkDesc Answer 1 1 FpNone [mkSec Audio (MNum 7) SendRecv 0 0]) false) = (s, Err EInvalidState).
Proof. vm_compute. reflexivity. Qed.

Example fingerprint_witness_now_atomic :
  let s := final WebRtc (init [w_audio])
       [SetRemote (w_desc Offer 1 1 7) false; CreateAnswer false; SetLocal (w_desc Answer 2 2 7); EnvDtlsStarted] in
  step WebRtc s (SetRemote (mkDesc Offer 3 3 (FpSha 2) [w_sec 8]) false) = (s, Err EInvalidState).
Proof. vm_compute. reflexivity. Qed.

(* ---------------------------------------------------------------- facts used by the concurrency proofs *)
Lemma step_keeps_dtls m s c :
  c <> EnvDtlsStarted -> dtls_started (fst (step m s c)) = dtls_started s.
Proof.
  intros Hc. destruct c as [f|f|d|d f| |]; try congruence; cbn [step].
  - unfold create_offer, create_offer_gen, create_offer_restores_on_error.
    destruct (create_offer_raw_facts m s f) as ((_ & Hd & _) & _).
    destruct (result_dec (snd (create_offer_raw m s f))) as [He|Ho].
    + rewrite (guard_err _ _ (proj1 (create_offer_raw_facts m s f)) He). reflexivity.
    + rewrite (guard_ok _ _ _ Ho). exact Hd.
  - unfold create_answer, create_answer_gen, create_answer_restores_on_error.
    destruct (create_answer_raw_facts m s f) as ((_ & Hd & _) & _).
    destruct (result_dec (snd (create_answer_raw m s f))) as [He|Ho].
    + rewrite (guard_err _ _ (proj1 (create_answer_raw_facts m s f)) He). reflexivity.
    + rewrite (guard_ok _ _ _ Ho). exact Hd.
  - unfold_calls. destruct (d_ty d); proj_simpl; auto; destruct (sig s); proj_simpl; reflexivity.
  - unfold set_remote, set_remote_gen, set_remote_restores_on_error, set_remote_fp_check_early,
      set_remote_next_mid_after_check.
    destruct (set_remote_raw_facts m s d f) as (Hf & _ & _).
    destruct (result_dec (snd (set_remote_raw true true m s d f))) as [He|Ho].
    + rewrite (guard_err _ _ Hf He). reflexivity.
    + rewrite (guard_ok _ _ _ Ho). destruct Hf as (_ & Hd & _). exact Hd.
  - reflexivity.
Qed.

Lemma final_app m s l c : final m s (l ++ [c]) = fst (step m (final m s l) c).
Proof. unfold final. rewrite fold_left_app. reflexivity. Qed.

Lemma run_results_app m l : forall s c,
  map snd (run m s (l ++ [c])) = map snd (run m s l) ++ [snd (step m (final m s l) c)].
Proof.
  induction l as [|x l IH]; intros s c; cbn [app run map].
  - reflexivity.
  - rewrite IH. reflexivity.
Qed.
