(* C20 -- proofs about Model/Spsc.v, part 2: close, end-of-stream, wake-ups, termination *)
From Coq Require Import ZArith List Bool Lia Znumtheory.
From RV Require Import Model.SpscSkel Model.Spsc Gen.SpscProg Proofs.SpscProofs.
Import ListNotations.
Open Scope Z_scope.
Open Scope bool_scope.

(* ================================================================== close, end-of-stream, wake-ups (one producer) *)
Definition p_busy (p : pth) : bool :=
  match p_pc p with PIdle | PDropStoreClosed | PDropNotify => false | _ => true end.
Definition p_dropping (p : pth) : bool :=
  match p_pc p with PDropStoreClosed | PDropNotify => true | _ => false end.
Definition p_quiet (p : pth) : bool :=
  match p_pc p with PIdle | PDropNotify => true | _ => false end.
(* pcs at which c_cl holds the value of source_closed / closed loaded by this lap of recv *)
Definition c_after_closed (c : cth) : bool :=
  match c_pc c with
  | CRvPop _ | CRvUnlockRet | CRvUnlockWait | CRvAwait | CRvStoreEnded1 | CRvUnlockEos
  | CQPop _ | CQUnlockRet | CQUnlockEos | CQUnlockWait => true
  | _ => false end.
(* SampleStreamTrack::recv between its `ended` check and its await *)
Definition c_after_ended (c : cth) : bool :=
  match c_pc c with
  | CRvLock | CRvClosed1 | CRvPop _ | CRvUnlockRet | CRvUnlockWait | CRvAwait | CRvStoreEnded1 | CRvUnlockEos => true
  | _ => false end.
(* the consumer has seen the closed flag FALSE after creating its Notified future *)
Definition c_fresh_open (c : cth) : bool :=
  match c_pc c with
  | CRvPop _ | CRvUnlockRet | CRvUnlockWait | CRvAwait | CRvStoreEnded1 | CRvUnlockEos => negb (c_cl c)
  | CQAwait => true
  | _ => false end.
Definition c_sees_drained (c : cth) : bool :=
  match c_pc c with CRvStoreEnded1 | CRvUnlockEos | CRvStoreEnded2 | CQUnlockEos => true | _ => false end.
Definition c_in_empty (c : cth) : bool :=
  match c_pc c with CRvEmptyH | CRvEmptyT | CRvStoreEnded2 => true | _ => false end.
Definition c_no_cl (c : cth) : bool := match c_pc c with CRvUnlockWait | CRvAwait => true | _ => false end.
Definition c_is_waiting (c : cth) : bool := match c_pc c with CRvWaiting | CQWaiting => true | _ => false end.
Definition c_is_waiting_rv (c : cth) : bool := match c_pc c with CRvWaiting => true | _ => false end.
Definition s_notifying (x : sth) : bool := match s_pc x with SNotify => true | _ => false end.
Definition p_notifying (p : pth) : bool := match p_pc p with PDropNotify => true | _ => false end.

Record Inv2 (h : sh) (c : cth) (x : sth) (p : pth) : Prop := {
  j_senders : senders h = p_handles p /\ 0 <= p_handles p;
  j_busy : p_busy p = true -> 1 <= p_handles p;
  j_dropz : p_dropping p = true -> p_handles p = 0;
  j_closed : closed h = true -> p_handles p = 0 /\ p_quiet p = true;
  j_storing : p_pc p = PDropStoreClosed -> closed h = false;
  j_cl : c_after_closed c = true -> c_cl c = true -> closed h = true;
  j_clwait : c_no_cl c = true -> c_cl c = false;
  j_stop_end : stopped h = true -> ended h = true;
  j_ended : ended h = true -> stopped h = true \/ (closed h = true /\ head h = tail h);
  j_drained : c_sees_drained c = true -> closed h = true /\ head h = tail h;
  j_empty : c_in_empty c = true -> closed h = true;
  j_emptyT : c_pc c = CRvEmptyT -> c_rh c = head h;
  j_eos : In REos (c_rets c) -> stopped h = true \/ (closed h = true /\ head h = tail h);
  w_wait : c_is_waiting c = true -> waiting h = negb (woken h);
  w_nowait : c_is_waiting c = false -> waiting h = false /\ woken h = false;
  w_snap : c_snap c <= nwc h;
  w_stop : c_after_ended c = true -> nwc h = c_snap c -> stopped h = true -> s_notifying x = true;
  w_stop' : c_is_waiting_rv c = true -> woken h = false -> stopped h = true -> s_notifying x = true;
  w_close : c_fresh_open c = true -> nwc h = c_snap c -> closed h = true -> p_notifying p = true;
  w_close' : c_is_waiting c = true -> woken h = false -> closed h = true -> p_notifying p = true }.

(* ---- more frame lemmas *)
Lemma rw_closed h t v : closed (ring_write h t v) = closed h. Proof. unfold ring_write. destruct (slots h _); reflexivity. Qed.
Lemma rr_closed h w x : closed (fst (ring_read h w x)) = closed h. Proof. unfold ring_read. destruct (slots h _); reflexivity. Qed.
Lemma rw_ended h t v : ended (ring_write h t v) = ended h. Proof. unfold ring_write. destruct (slots h _); reflexivity. Qed.
Lemma rr_ended h w x : ended (fst (ring_read h w x)) = ended h. Proof. unfold ring_read. destruct (slots h _); reflexivity. Qed.
Lemma rw_stopped h t v : stopped (ring_write h t v) = stopped h. Proof. unfold ring_write. destruct (slots h _); reflexivity. Qed.
Lemma rr_stopped h w x : stopped (fst (ring_read h w x)) = stopped h. Proof. unfold ring_read. destruct (slots h _); reflexivity. Qed.
Lemma rw_senders h t v : senders (ring_write h t v) = senders h. Proof. unfold ring_write. destruct (slots h _); reflexivity. Qed.
Lemma rr_senders h w x : senders (fst (ring_read h w x)) = senders h. Proof. unfold ring_read. destruct (slots h _); reflexivity. Qed.
Lemma rw_waiting h t v : waiting (ring_write h t v) = waiting h. Proof. unfold ring_write. destruct (slots h _); reflexivity. Qed.
Lemma rr_waiting h w x : waiting (fst (ring_read h w x)) = waiting h. Proof. unfold ring_read. destruct (slots h _); reflexivity. Qed.
Lemma rw_woken h t v : woken (ring_write h t v) = woken h. Proof. unfold ring_write. destruct (slots h _); reflexivity. Qed.
Lemma rr_woken h w x : woken (fst (ring_read h w x)) = woken h. Proof. unfold ring_read. destruct (slots h _); reflexivity. Qed.
Lemma rw_nwc h t v : nwc (ring_write h t v) = nwc h. Proof. unfold ring_write. destruct (slots h _); reflexivity. Qed.
Lemma rr_nwc h w x : nwc (fst (ring_read h w x)) = nwc h. Proof. unfold ring_read. destruct (slots h _); reflexivity. Qed.
Lemma rw_permit h t v : permit (ring_write h t v) = permit h. Proof. unfold ring_write. destruct (slots h _); reflexivity. Qed.
Lemma rr_permit h w x : permit (fst (ring_read h w x)) = permit h. Proof. unfold ring_read. destruct (slots h _); reflexivity. Qed.
Lemma no_closed h : closed (notify_one h) = closed h. Proof. unfold notify_one. destruct (waiting h); reflexivity. Qed.
Lemma no_ended h : ended (notify_one h) = ended h. Proof. unfold notify_one. destruct (waiting h); reflexivity. Qed.
Lemma no_stopped h : stopped (notify_one h) = stopped h. Proof. unfold notify_one. destruct (waiting h); reflexivity. Qed.
Lemma no_senders h : senders (notify_one h) = senders h. Proof. unfold notify_one. destruct (waiting h); reflexivity. Qed.
Lemma no_nwc h : nwc (notify_one h) = nwc h. Proof. unfold notify_one. destruct (waiting h); reflexivity. Qed.
Lemma nw_closed h : closed (notify_waiters h) = closed h. Proof. unfold notify_waiters. destruct (waiting h); reflexivity. Qed.
Lemma nw_ended h : ended (notify_waiters h) = ended h. Proof. unfold notify_waiters. destruct (waiting h); reflexivity. Qed.
Lemma nw_stopped h : stopped (notify_waiters h) = stopped h. Proof. unfold notify_waiters. destruct (waiting h); reflexivity. Qed.
Lemma nw_senders h : senders (notify_waiters h) = senders h. Proof. unfold notify_waiters. destruct (waiting h); reflexivity. Qed.
Lemma nw_permit h : permit (notify_waiters h) = permit h. Proof. unfold notify_waiters. destruct (waiting h); reflexivity. Qed.
Lemma nw_nwc h : nwc (notify_waiters h) = nwc h + 1. Proof. unfold notify_waiters. destruct (waiting h); reflexivity. Qed.
#[export] Hint Rewrite rw_closed rr_closed rw_ended rr_ended rw_stopped rr_stopped rw_senders rr_senders rw_waiting rr_waiting rw_woken rr_woken rw_nwc rr_nwc rw_permit rr_permit no_closed no_ended no_stopped no_senders no_nwc nw_closed nw_ended nw_stopped nw_senders nw_permit nw_nwc : shf.

Arguments is_mt : simpl never.
Arguments is_full : simpl never.

Ltac unf_2 := unfold p_busy, p_dropping, p_quiet, c_after_ended, c_after_closed, c_sees_drained, c_in_empty,
                     c_is_waiting, c_is_waiting_rv, c_fresh_open, c_no_cl, s_notifying, p_notifying in *.
Ltac fld2 :=
  autorewrite with shf;
  try assumption; try reflexivity; try discriminate;
  try solve [intros; discriminate];
  try solve [intuition (try discriminate; try congruence; try lia)];
  try solve [intros; repeat match goal with H : context [negb ?b] |- _ => destruct b eqn:?; cbn [negb] in * end;
             intuition (try discriminate; try congruence; try lia)];
  try solve [let E := fresh in intros E; rewrite E in *; cbn in *; intuition (try discriminate; try congruence; try lia)];
  try solve [intros; match goal with |- ?b = false => destruct b eqn:?; [exfalso|reflexivity] end;
             intuition (try discriminate; try congruence; try lia)];
  try solve [match goal with |- context [c_pc ?c] => let pcx := fresh "pcx" in remember (c_pc c) as pcx; destruct pcx end;
             intros; repeat match goal with H : context [negb ?b] |- _ => destruct b eqn:?; cbn [negb] in * end;
             intuition (try discriminate; try congruence; try lia)].

Lemma no_waiting_true h : waiting h = true -> notify_one h = set_notify h (permit h) false true true.
Proof. unfold notify_one. intros ->. reflexivity. Qed.
Lemma no_waiting_false h : waiting h = false -> notify_one h = set_notify h true false (woken h) (wone h).
Proof. unfold notify_one. intros ->. reflexivity. Qed.
Lemma nw_waiting_true h : waiting h = true -> notify_waiters h = set_nw h false true false.
Proof. unfold notify_waiters. intros ->. reflexivity. Qed.
Lemma nw_waiting_false h : waiting h = false -> notify_waiters h = set_nw h false (woken h) (wone h).
Proof. unfold notify_waiters. intros ->. reflexivity. Qed.

Lemma sstep_inv2 h c x p h' x' : Inv2 h c x p -> sstep h x = Some (h', x') -> Inv2 h' c x' p.
Proof.
  intros J Hstep.
  destruct J as [Jsend Jbusy Jdropz Jclosed Jstoring Jcl Jclw Jse Jended Jdr Jemp JempT Jeos Wwait Wnowait Wsnap Wstop Wstop' Wclose Wclose'].
  destruct x as [todo spc]. unfold sstep in Hstep. cbn [s_pc s_todo] in Hstep. unf_2. cbn [s_pc] in *.
  destruct spc; [destruct todo; [discriminate|]| |]; inv_step Hstep.
  - constructor; unf_2; cbn in *; fld2.
  - constructor; unf_2; cbn in *; fld2.
  - destruct (waiting h) eqn:Hw.
    + rewrite (nw_waiting_true _ Hw). constructor; unf_2; cbn in *; fld2.
    + rewrite (nw_waiting_false _ Hw). constructor; unf_2; cbn in *; fld2.
Qed.

Lemma in_app_one {A} (l : list A) x y : In y (l ++ [x]) <-> In y l \/ y = x.
Proof. rewrite in_app_iff. cbn. intuition. Qed.

Lemma cstep_inv2 R V0 h c x p h' c' :
  Inv1 R V0 h c p -> idxs_ok h (lenZ V0) -> Inv2 h c x p -> cstep h c = Some (h', c') -> Inv2 h' c' x p.
Proof.
  intros I Hidx J Hstep.
  pose proof (excl_pop _ _ _ _ _ I) as Hex.
  pose proof (tail_le_V0 _ _ _ _ _ I) as HtV.
  destruct I as [Iring Ilock Iexcl Iplock Imode Iprt Iprh Icrh Irecv Isent Iraw].
  destruct J as [Jsend Jbusy Jdropz Jclosed Jstoring Jcl Jclw Jse Jended Jdr Jemp JempT Jeos Wwait Wnowait Wsnap Wstop Wstop' Wclose Wclose'].
  destruct c as [prog pc rt rh rp snap cl can rets].
  unfold cstep in Hstep; cbn [c_pc c_prog c_rh c_rp c_snap c_cl c_can] in Hstep.
  unf_c; unf_2; cbn [c_pc c_prog c_rh c_rp c_rets c_snap c_cl c_can] in *.
  destruct pc; try match goal with m : poppc |- _ => destruct m end.
  all: cbn [rph_of knows] in *.
  all: repeat match type of Hstep with
       | context [if ?b then _ else _] => destruct b eqn:?
       | context [match ?l with [] => _ | _ => _ end] => destruct l as [|[] ?]
       end.
  all: try discriminate Hstep.
  all: try solve [inv_step Hstep; constructor; unf_c; unf_2; cbn in *; fld2].
  all: try (specialize (Icrh eq_refl); subst rh).
  all: try match type of Hstep with context [ring_read] =>
         destruct (ring_read_ok _ _ true Iring) as (v & Hv & Hrd & Hring');
         [apply Hidx; pose proof (ring_bounds _ _ _ Iring); lia|]; rewrite Hrd in Hstep end.
  all: try match goal with H : is_mt ?s (head ?s) (tail ?s) = true, RI : RingInv ?s _ RNone |- _ =>
         pose proof (ring_empty_is_empty _ _ RI H) end.
  all: try match goal with RI : RingInv _ _ RMoved |- _ => pose proof (ri_ht _ _ _ RI); cbn [rd] in * end.
  all: try match goal with H : (_ =? _) = true |- _ => apply Z.eqb_eq in H end.
  all: inv_step Hstep; constructor; unf_c; unf_2; cbn in *; rewrite ?in_app_one in *; fld2.
  (* CRvEmptyT, empty: closed, so the producer is quiet and the ring really is empty *)
  intros _. specialize (Jemp eq_refl). specialize (JempT eq_refl). subst rh.
  split; [assumption|]. destruct (Jclosed Jemp) as [_ Hq].
  assert (Hnp : p_inpop p = false) by (unfold p_inpop; destruct (p_pc p); try discriminate; reflexivity).
  rewrite rph_p_notin in Iring by assumption.
  eapply ring_empty_is_empty; eauto.
Qed.

Lemma pstep_inv2 R V0 h c x p h' p' :
  Inv1 R V0 h c p -> idxs_ok h (lenZ V0) -> Inv2 h c x p -> pstep h p = Some (h', p') -> Inv2 h' c x p'.
Proof.
  intros I Hidx J Hstep.
  pose proof (excl_pop _ _ _ _ _ I) as Hex.
  destruct I as [Iring Ilock Iexcl Iplock Imode Iprt Iprh Icrh Irecv Isent Iraw].
  destruct J as [Jsend Jbusy Jdropz Jclosed Jstoring Jcl Jclw Jse Jended Jdr Jemp JempT Jeos Wwait Wnowait Wsnap Wstop Wstop' Wclose Wclose'].
  destruct p as [prog pc prt prh rv hd rets].
  unfold pstep in Hstep; cbn [p_pc p_prog p_rt p_rh p_rv p_handles p_rets] in Hstep.
  unf_p; unf_2; cbn [p_pc p_prog p_rt p_rh p_rv p_handles p_rets] in *.
  destruct pc as [|k|k|cx m|cx|mm|mm m|mm|r| | | |].
  all: try (destruct m).
  all: try (destruct cx).
  all: try (destruct k).
  all: cbn [rph_of knows] in *.
  all: repeat match type of Hstep with
       | context [if ?b then _ else _] => destruct b eqn:?
       | context [match ?l with [] => _ | _ => _ end] => destruct l as [|[] ?]
       end.
  all: try discriminate Hstep.
  all: try match goal with H : (_ <=? _) = false |- _ => apply Z.leb_gt in H end.
  all: try match goal with H : (_ =? _) = true |- _ => apply Z.eqb_eq in H end.
  all: try match goal with H : (_ =? _) = false |- _ => apply Z.eqb_neq in H end.
  all: try match type of Hstep with context [notify_one ?s] =>
         let Hw := fresh "Hw" in destruct (waiting s) eqn:Hw;
         [rewrite (no_waiting_true _ Hw) in Hstep | rewrite (no_waiting_false _ Hw) in Hstep] end.
  all: try match type of Hstep with context [notify_waiters ?s] =>
         let Hw := fresh "Hw" in destruct (waiting s) eqn:Hw;
         [rewrite (nw_waiting_true _ Hw) in Hstep | rewrite (nw_waiting_false _ Hw) in Hstep] end.
  all: try solve [inv_step Hstep; constructor; unf_p; unf_2; cbn in *; fld2].
  all: inv_step Hstep; constructor; unf_p; unf_2; cbn in *; fld2.
Qed.

Definition InvAll (R : bool) (V0 : list val) (s : st) : Prop :=
  exists p, prods s = [p] /\ Inv1 R V0 (shd s) (cons s) p /\ idxs_ok (shd s) (lenZ V0) /\
            Inv2 (shd s) (cons s) (stp s) p.

Lemma step_inv_all R V0 s t s' : InvAll R V0 s -> step s t = Some s' -> InvAll R V0 s'.
Proof.
  intros (p & Hp & I & Hidx & J) H.
  assert (Hi : Inv R V0 s) by (exists p; auto).
  pose proof (step_inv _ _ _ _ _ Hi H) as (p' & Hp' & I' & Hidx').
  exists p'. split; [assumption|]. split; [assumption|]. split; [assumption|].
  unfold step in H. destruct t as [|[|k]].
  - destruct (cstep (shd s) (cons s)) as [[h c]|] eqn:E; [|discriminate]. inv_step H. cbn in *.
    rewrite Hp in Hp'. inv_step Hp'. exact (cstep_inv2 _ _ _ _ _ _ _ _ I Hidx J E).
  - destruct (sstep (shd s) (stp s)) as [[h x]|] eqn:E; [|discriminate]. inv_step H. cbn in *.
    rewrite Hp in Hp'. inv_step Hp'. exact (sstep_inv2 _ _ _ _ _ _ J E).
  - rewrite Hp in H. destruct k as [|k]; cbn in H; [|destruct k; discriminate].
    destruct (pstep (shd s) p) as [[h p'']|] eqn:E; [|discriminate]. inv_step H. cbn in *.
    inv_step Hp'. exact (pstep_inv2 _ _ _ _ _ _ _ _ I Hidx J E).
Qed.

Lemma run_inv_all R V0 sched : forall s, InvAll R V0 s -> InvAll R V0 (run s sched).
Proof.
  induction sched as [|t r IH]; intros s I; cbn; [assumption|]. apply IH.
  unfold step'. destruct (step s t) eqn:E; [eapply step_inv_all; eauto|assumption].
Qed.

Lemma init_inv_all capacity w cprog n pprog :
  cfg_ok capacity w cprog pprog ->
  InvAll (negb (existsb is_osend pprog)) (op_vals pprog) (init capacity w cprog n [pprog]).
Proof.
  intros H. destruct (init_inv capacity w cprog n pprog H) as (p & Hp & I & Hidx).
  exists p. split; [assumption|]. split; [assumption|]. split; [assumption|].
  cbn in Hp. inv_step Hp. cbn.
  constructor; unf_2; cbn; try solve [intuition (try discriminate; try lia)].
Qed.

Lemma reach_inv_all capacity w cprog n pprog sched :
  cfg_ok capacity w cprog pprog ->
  InvAll (negb (existsb is_osend pprog)) (op_vals pprog) (run (init capacity w cprog n [pprog]) sched).
Proof. intros H. apply run_inv_all, init_inv_all, H. Qed.

(* ---- theorems about close / end-of-stream / wake-ups *)
Section OneProducerClose.
  Variables (capacity w : Z) (cprog : list cop) (nstop : nat) (pprog : list pop_) (sched : list nat).
  Hypothesis Hcfg : cfg_ok capacity w cprog pprog.
  Let s := run (init capacity w cprog nstop [pprog]) sched.

  (* recv() answers end-of-stream only after stop(), or after the last source handle is gone AND
     everything that entered the ring has left it (delivered, or discarded as "oldest") *)
  Lemma spsc_eos_sound :
    In REos (c_rets (cons s)) ->
    stopped (shd s) = true \/
    (closed (shd s) = true /\ head (shd s) = tail (shd s) /\ map snd (taken (shd s)) = pushed (shd s)).
  Proof.
    intros Hin. destruct (reach_inv_all _ _ _ nstop _ sched Hcfg) as (p & Hp & I & _ & J). fold s in Hp, I, J.
    destruct J as [_ _ _ _ _ _ _ _ Jended _ _ _ Jeos _ _ _ _ _ _ _].
    destruct (Jeos Hin) as [Hs|[Hc Hht]]; [left; assumption|right].
    split; [assumption|]. split; [assumption|].
    destruct I as [[Rc Rh0 Rht Rlen Rroom Rav Rp Rtk Rf Re Ru] _ _ _ _ _ _ _ _ _ _].
    rewrite Rtk. apply firstn_all2. unfold lenZ in Rp.
    assert (0 <= rd (rph_cp (cons s) p)) by (destruct (rph_cp (cons s) p); cbn; lia). lia.
  Qed.

  (* once source_closed is set the producer thread holds no handle and is outside every
     operation: nothing is pushed afterwards *)
  Lemma spsc_closed_is_final :
    closed (shd s) = true -> exists p, prods s = [p] /\ p_handles p = 0 /\ p_quiet p = true.
  Proof.
    intros Hc. destruct (reach_inv_all _ _ _ nstop _ sched Hcfg) as (p & Hp & _ & _ & J). fold s in Hp, J.
    destruct J as [_ _ _ Jclosed _ _ _ _ _ _ _ _ _ _ _ _ _ _ _ _]. destruct (Jclosed Hc). eauto.
  Qed.

  (* no lost wake-up: a consumer that is registered and not woken while the stream is closed /
     stopped always has the notify_waiters() call of that close / stop still ahead of it
     (track recv and pipeline recv; stop() only concerns the track) *)
  Lemma spsc_no_lost_wakeup :
    c_is_waiting (cons s) = true -> woken (shd s) = false ->
    (closed (shd s) = true -> exists p, prods s = [p] /\ p_pc p = PDropNotify) /\
    (c_pc (cons s) = CRvWaiting -> stopped (shd s) = true -> s_pc (stp s) = SNotify).
  Proof.
    intros Hw Hk. destruct (reach_inv_all _ _ _ nstop _ sched Hcfg) as (p & Hp & _ & _ & J). fold s in Hp, J.
    destruct J as [_ _ _ _ _ _ _ _ _ _ _ _ _ _ _ _ _ Wstop' _ Wclose'].
    unfold c_is_waiting_rv, s_notifying, p_notifying in *. split.
    - intros Hc. exists p. split; [assumption|]. specialize (Wclose' Hw Hk Hc). destruct (p_pc p); try discriminate. reflexivity.
    - intros Hpc Hs. rewrite Hpc in Wstop'. specialize (Wstop' eq_refl Hk Hs). destruct (s_pc (stp s)); try discriminate. reflexivity.
  Qed.

  (* after close, with the producer thread finished and no stop() in flight, the consumer is never
     blocked: not on the pop_lock, not in notified().await *)
  Lemma spsc_consumer_enabled_after_close p :
    closed (shd s) = true -> prods s = [p] -> p_pc p = PIdle ->
    (c_pc (cons s) <> CIdle \/ c_prog (cons s) <> []) ->
    step s 0 <> None.
  Proof.
    intros Hc Hp Hpi Hbusy.
    destruct (reach_inv_all _ _ _ nstop _ sched Hcfg) as (p' & Hp' & I & _ & J). fold s in Hp', I, J.
    rewrite Hp in Hp'. inv_step Hp'.
    destruct I as [_ Ilock _ _ _ _ _ _ _ _ _].
    destruct J as [_ _ _ _ _ _ _ _ _ _ _ _ _ _ _ _ _ _ _ Wclose'].
    unfold step. unfold cstep, await_step, waiting_step. unfold c_locked, p_locked, c_is_waiting, p_notifying in *. rewrite Hpi in *.
    destruct (c_pc (cons s)) eqn:Hpc; try match goal with m : poppc |- _ => destruct m end;
      repeat match goal with
      | |- context [match c_prog ?c with _ => _ end] => destruct (c_prog c) as [|[] ?]
      | |- context [let '(_, _) := ?r in _] => destruct r
      | |- context [if ?b then _ else _] => destruct b eqn:?
      end; try discriminate.
    all: rewrite ?Hpc in *; cbn in *.
    all: try (destruct Hbusy; congruence).
    all: try congruence.
    all: specialize (Wclose' eq_refl eq_refl Hc); discriminate.
  Qed.
End OneProducerClose.

(* ---- after close every consumer operation terminates: a measure that every consumer step lowers *)
Definition c_dist (c : cth) : nat :=
  match c_pc c with
  | CIdle => 0
  | CPopRaw PoLoadHead => 4 | CPopRaw PoLoadTail => 3 | CPopRaw PoRead => 2 | CPopRaw PoStoreHead => 1
  | CRvCreate => 12 | CRvEnded => 11 | CRvLock => 10 | CRvClosed1 => 9
  | CRvPop PoLoadHead => if c_cl c then 8 else 20
  | CRvPop PoLoadTail => if c_cl c then 7 else 19
  | CRvPop PoRead => 3 | CRvPop PoStoreHead => 2 | CRvUnlockRet => 1
  | CRvStoreEnded1 => 2 | CRvUnlockEos => 1
  | CRvUnlockWait => 18 | CRvAwait => 17 | CRvWaiting => 16
  | CRvClosed2 => 15 | CRvEmptyH => 14 | CRvEmptyT => 13 | CRvStoreEnded2 => 1
  | CQLock => 9 | CQClosed1 => 8
  | CQPop PoLoadHead => if c_cl c then 7 else 20
  | CQPop PoLoadTail => if c_cl c then 6 else 19
  | CQPop PoRead => 3 | CQPop PoStoreHead => 2 | CQUnlockRet => 1 | CQUnlockEos => 1
  | CQUnlockWait => 18 | CQCreate => 17 | CQEmptyH => 16 | CQEmptyT => 15 | CQClosed2 => 14
  | CQAwait => 13 | CQWaiting => 12
  end%nat.

Lemma cstep_dist h c h' c' :
  closed h = true -> cstep h c = Some (h', c') -> c_pc c <> CIdle ->
  (c_dist c' < c_dist c)%nat /\ closed h' = true.
Proof.
  intros Hc H Hn. unfold cstep, await_step, waiting_step in H. unfold c_dist.
  destruct c as [prog pc rt rh rp snap cl can rets]. cbn [c_pc c_prog c_rh c_rp c_snap c_cl c_can] in *.
  destruct pc; try match goal with m : poppc |- _ => destruct m end; try congruence;
  repeat match type of H with
       | context [if ?b then _ else _] => destruct b eqn:?
       | context [let '(_, _) := ?x in _] => destruct x eqn:?
       end; try discriminate H; inv_step H; cbn; autorewrite with shf; try (split; [lia|assumption]).
  all: try match goal with E : ring_read ?h ?w ?x = (_, _) |- _ =>
         pose proof (rr_closed h w x) as E1; rewrite E in E1; cbn in E1; split; [lia|congruence] end.
  all: try congruence.
  all: try rewrite Hc.
  all: try destruct cl; split; try lia; try assumption; try reflexivity.
Qed.

Section OneProducerTermination.
  Variables (capacity w : Z) (cprog : list cop) (nstop : nat) (pprog : list pop_).
  Hypothesis Hcfg : cfg_ok capacity w cprog pprog.

  Lemma run_app s a b : run s (a ++ b) = run (run s a) b.
  Proof. revert s. induction a as [|t a IH]; intros s; cbn; [reflexivity|apply IH]. Qed.

  (* liveness after close: once source_closed is set, the producer thread is done and no stop() is
     in flight, a consumer that runs completes its current recv()/pop() within 20 of its own steps
     (it cannot be blocked and cannot spin) *)
  Lemma spsc_recv_terminates_after_close : forall n sched p,
    let s := run (init capacity w cprog nstop [pprog]) sched in
    closed (shd s) = true -> prods s = [p] -> p_pc p = PIdle ->
    (c_dist (cons s) <= n)%nat ->
    exists k, (k <= n)%nat /\ c_pc (cons (run s (repeat 0%nat k))) = CIdle.
  Proof.
    induction n as [|n IH]; intros sched p s Hc Hp Hpi Hd.
    - exists 0%nat. split; [lia|]. cbn. unfold c_dist in Hd. destruct (c_pc (cons s)); try match goal with m : poppc |- _ => destruct m end; try destruct (c_cl (cons s)); try lia; reflexivity.
    - destruct (c_pc (cons s)) eqn:Hpc; try (exists 0%nat; split; [lia|exact Hpc]).
      all: assert (Hne : c_pc (cons s) <> CIdle) by congruence.
      all: pose proof (spsc_consumer_enabled_after_close capacity w cprog nstop pprog sched Hcfg p Hc Hp Hpi (or_introl Hne)) as Hen.
      all: fold s in Hen; unfold step in Hen; destruct (cstep (shd s) (cons s)) as [[h1 c1]|] eqn:Hcs; [|congruence]; clear Hen.
      all: assert (Hrun : mkSt h1 c1 (stp s) (prods s) = run (init capacity w cprog nstop [pprog]) (sched ++ [0%nat]))
             by (rewrite run_app; cbn; unfold step', step; fold s; rewrite Hcs; reflexivity).
      all: destruct (cstep_dist _ _ _ _ Hc Hcs Hne) as [Hlt Hc1].
      all: destruct (IH (sched ++ [0%nat]) p) as (k & Hk & Hidle);
           [rewrite <- Hrun; exact Hc1 | rewrite <- Hrun; exact Hp | exact Hpi | rewrite <- Hrun; cbn; lia |].
      all: exists (S k); split; [lia|]; cbn [repeat run]; unfold step' at 1, step at 1; rewrite Hcs; rewrite <- Hrun in Hidle; exact Hidle.
  Qed.
End OneProducerTermination.

Lemma c_dist_le_20 c : (c_dist c <= 20)%nat.
Proof. unfold c_dist. destruct (c_pc c); try match goal with m : poppc |- _ => destruct m end; try destruct (c_cl c); lia. Qed.

Lemma spsc_recv_terminates_after_close_20 capacity w cprog nstop pprog sched p :
  cfg_ok capacity w cprog pprog ->
  let s := run (init capacity w cprog nstop [pprog]) sched in
  closed (shd s) = true -> prods s = [p] -> p_pc p = PIdle ->
  exists k, (k <= 20)%nat /\ c_pc (cons (run s (repeat 0%nat k))) = CIdle.
Proof. intros Hcfg s Hc Hp Hpi. eapply spsc_recv_terminates_after_close; eauto. apply c_dist_le_20. Qed.

(* the premises are satisfiable and the pieces fit: three samples, close, four recv() *)
Example drain_then_eos :
  let s := run_ops (init 2 (2 ^ 64) [ORecv; ORecv; ORecv; ORecv] 0 [[OTrySend 1; OTrySend 2; OTrySend 3; ODropSrc]])
                   [2; 2; 2; 2; 0; 0; 0; 0]%nat in
  c_rets (cons s) = [RRecv 1; RRecv 2; REos; REos] /\
  map p_rets (prods s) = [[RTryOk; RTryOk; RWouldBlock]] /\ closed (shd s) = true /\ ub (shd s) = None.
Proof. vm_compute. repeat split; reflexivity. Qed.
