(* C20 -- proofs about Model/Spsc.v, part 3: close, end-of-stream, wake-ups, termination; 1..n producers *)
From Coq Require Import ZArith List Bool Lia Znumtheory.
From RV Require Import Model.SpscSkel Model.Spsc Proofs.SpscProofs Proofs.SpscN.
Import ListNotations.
Open Scope Z_scope.
Open Scope bool_scope.

(* ================================================================== close, end-of-stream, wake-ups *)
Definition p_busy (p : pth) : bool :=
  match p_pc p with PIdle | PDropStoreClosed | PDropNotify => false | _ => true end.
Definition p_dropping (p : pth) : bool :=
  match p_pc p with PDropStoreClosed | PDropNotify => true | _ => false end.
Definition p_quiet (p : pth) : bool :=
  match p_pc p with PIdle | PDropNotify => true | _ => false end.
(* pcs at which c_cl holds the value of source_closed / closed loaded by this lap of recv *)
Definition c_after_closed (c : cth) : bool :=
  match c_pc c with
  | CRvPop _ | CRvUnlockRet | CRvUnlockWait | CRvAwait | CRvStoreEnded1 | CRvUnlockEos
  | CQPop _ | CQUnlockRet | CQUnlockEos | CQUnlockWait => true
  | _ => false end.
(* SampleStreamTrack::recv between its `ended` check and its await *)
Definition c_after_ended (c : cth) : bool :=
  match c_pc c with
  | CRvLock | CRvClosed1 | CRvPop _ | CRvUnlockRet | CRvUnlockWait | CRvAwait | CRvStoreEnded1 | CRvUnlockEos => true
  | _ => false end.
(* the consumer has seen the closed flag FALSE after creating its Notified future *)
Definition c_fresh_open (c : cth) : bool :=
  match c_pc c with
  | CRvPop _ | CRvUnlockRet | CRvUnlockWait | CRvAwait | CRvStoreEnded1 | CRvUnlockEos => negb (c_cl c)
  | CQAwait => true
  | _ => false end.
Definition c_sees_drained (c : cth) : bool :=
  match c_pc c with CRvStoreEnded1 | CRvUnlockEos | CRvStoreEnded2 | CQUnlockEos => true | _ => false end.
Definition c_in_empty (c : cth) : bool :=
  match c_pc c with CRvEmptyH | CRvEmptyT | CRvStoreEnded2 => true | _ => false end.
Definition c_no_cl (c : cth) : bool := match c_pc c with CRvUnlockWait | CRvAwait => true | _ => false end.
Definition c_is_waiting (c : cth) : bool := match c_pc c with CRvWaiting | CQWaiting => true | _ => false end.
Definition c_is_waiting_rv (c : cth) : bool := match c_pc c with CRvWaiting => true | _ => false end.
Definition s_notifying (x : sth) : bool := match s_pc x with SNotify => true | _ => false end.
Definition p_notifying (p : pth) : bool := match p_pc p with PDropNotify => true | _ => false end.

Definition p_storing (p : pth) : bool := match p_pc p with PDropStoreClosed => true | _ => false end.

(* what the OTHER producer threads contribute: their handles, and whether one of them is inside an
   operation / about to store the closed flag / about to call notify_waiters *)
Record env : Set := mkE { e_h : Z; e_busy : bool; e_storing : bool; e_notif : bool }.

Record Inv2 (h : sh) (c : cth) (x : sth) (p : pth) (E : env) : Prop := {
  j_senders : senders h = p_handles p + e_h E /\ 0 <= p_handles p /\ 0 <= e_h E;
  j_ebusy : e_busy E = true -> 1 <= e_h E;
  j_busy : p_busy p = true -> 1 <= p_handles p;
  j_dropz : p_dropping p || e_storing E || e_notif E = true -> p_handles p + e_h E = 0;
  j_one : p_dropping p = true -> e_storing E = false /\ e_notif E = false;
  j_closed : closed h = true -> p_handles p + e_h E = 0 /\ p_quiet p = true /\ e_busy E = false /\ e_storing E = false;
  j_storing : p_storing p || e_storing E = true -> closed h = false;
  j_cl : c_after_closed c = true -> c_cl c = true -> closed h = true;
  j_clwait : c_no_cl c = true -> c_cl c = false;
  j_stop_end : stopped h = true -> ended h = true;
  j_ended : ended h = true -> stopped h = true \/ (closed h = true /\ head h = tail h);
  j_drained : c_sees_drained c = true -> closed h = true /\ head h = tail h;
  j_empty : c_in_empty c = true -> closed h = true;
  j_emptyT : c_pc c = CRvEmptyT -> c_rh c = head h;
  j_eos : In REos (c_rets c) -> stopped h = true \/ (closed h = true /\ head h = tail h);
  w_wait : c_is_waiting c = true -> waiting h = negb (woken h);
  w_nowait : c_is_waiting c = false -> waiting h = false /\ woken h = false;
  w_snap : c_snap c <= nwc h;
  w_stop : c_after_ended c = true -> nwc h = c_snap c -> stopped h = true -> s_notifying x = true;
  w_stop' : c_is_waiting_rv c = true -> woken h = false -> stopped h = true -> s_notifying x = true;
  w_close : c_fresh_open c = true -> nwc h = c_snap c -> closed h = true -> p_notifying p || e_notif E = true;
  w_close' : c_is_waiting c = true -> woken h = false -> closed h = true -> p_notifying p || e_notif E = true }.

(* ---- more frame lemmas *)
Lemma rw_closed h t v : closed (ring_write h t v) = closed h. Proof. unfold ring_write. destruct (slots h _); reflexivity. Qed.
Lemma rr_closed h w x : closed (fst (ring_read h w x)) = closed h. Proof. unfold ring_read. destruct (slots h _); reflexivity. Qed.
Lemma rw_ended h t v : ended (ring_write h t v) = ended h. Proof. unfold ring_write. destruct (slots h _); reflexivity. Qed.
Lemma rr_ended h w x : ended (fst (ring_read h w x)) = ended h. Proof. unfold ring_read. destruct (slots h _); reflexivity. Qed.
Lemma rw_stopped h t v : stopped (ring_write h t v) = stopped h. Proof. unfold ring_write. destruct (slots h _); reflexivity. Qed.
Lemma rr_stopped h w x : stopped (fst (ring_read h w x)) = stopped h. Proof. unfold ring_read. destruct (slots h _); reflexivity. Qed.
Lemma rw_senders h t v : senders (ring_write h t v) = senders h. Proof. unfold ring_write. destruct (slots h _); reflexivity. Qed.
Lemma rr_senders h w x : senders (fst (ring_read h w x)) = senders h. Proof. unfold ring_read. destruct (slots h _); reflexivity. Qed.
Lemma rw_waiting h t v : waiting (ring_write h t v) = waiting h. Proof. unfold ring_write. destruct (slots h _); reflexivity. Qed.
Lemma rr_waiting h w x : waiting (fst (ring_read h w x)) = waiting h. Proof. unfold ring_read. destruct (slots h _); reflexivity. Qed.
Lemma rw_woken h t v : woken (ring_write h t v) = woken h. Proof. unfold ring_write. destruct (slots h _); reflexivity. Qed.
Lemma rr_woken h w x : woken (fst (ring_read h w x)) = woken h. Proof. unfold ring_read. destruct (slots h _); reflexivity. Qed.
Lemma rw_nwc h t v : nwc (ring_write h t v) = nwc h. Proof. unfold ring_write. destruct (slots h _); reflexivity. Qed.
Lemma rr_nwc h w x : nwc (fst (ring_read h w x)) = nwc h. Proof. unfold ring_read. destruct (slots h _); reflexivity. Qed.
Lemma rw_permit h t v : permit (ring_write h t v) = permit h. Proof. unfold ring_write. destruct (slots h _); reflexivity. Qed.
Lemma rr_permit h w x : permit (fst (ring_read h w x)) = permit h. Proof. unfold ring_read. destruct (slots h _); reflexivity. Qed.
Lemma no_closed h : closed (notify_one h) = closed h. Proof. unfold notify_one. destruct (waiting h); reflexivity. Qed.
Lemma no_ended h : ended (notify_one h) = ended h. Proof. unfold notify_one. destruct (waiting h); reflexivity. Qed.
Lemma no_stopped h : stopped (notify_one h) = stopped h. Proof. unfold notify_one. destruct (waiting h); reflexivity. Qed.
Lemma no_senders h : senders (notify_one h) = senders h. Proof. unfold notify_one. destruct (waiting h); reflexivity. Qed.
Lemma no_nwc h : nwc (notify_one h) = nwc h. Proof. unfold notify_one. destruct (waiting h); reflexivity. Qed.
Lemma nw_closed h : closed (notify_waiters h) = closed h. Proof. unfold notify_waiters. destruct (waiting h); reflexivity. Qed.
Lemma nw_ended h : ended (notify_waiters h) = ended h. Proof. unfold notify_waiters. destruct (waiting h); reflexivity. Qed.
Lemma nw_stopped h : stopped (notify_waiters h) = stopped h. Proof. unfold notify_waiters. destruct (waiting h); reflexivity. Qed.
Lemma nw_senders h : senders (notify_waiters h) = senders h. Proof. unfold notify_waiters. destruct (waiting h); reflexivity. Qed.
Lemma nw_permit h : permit (notify_waiters h) = permit h. Proof. unfold notify_waiters. destruct (waiting h); reflexivity. Qed.
Lemma nw_nwc h : nwc (notify_waiters h) = nwc h + 1. Proof. unfold notify_waiters. destruct (waiting h); reflexivity. Qed.
#[export] Hint Rewrite rw_closed rr_closed rw_ended rr_ended rw_stopped rr_stopped rw_senders rr_senders rw_waiting rr_waiting rw_woken rr_woken rw_nwc rr_nwc rw_permit rr_permit no_closed no_ended no_stopped no_senders no_nwc nw_closed nw_ended nw_stopped nw_senders nw_permit nw_nwc : shf.

Arguments is_mt : simpl never.
Arguments is_full : simpl never.

Ltac unf_2 := unfold p_busy, p_dropping, p_quiet, p_storing, c_after_ended, c_after_closed, c_sees_drained, c_in_empty,
                     c_is_waiting, c_is_waiting_rv, c_fresh_open, c_no_cl, s_notifying, p_notifying in *.
Ltac fld2 :=
  autorewrite with shf;
  try assumption; try reflexivity; try discriminate;
  try solve [intros; discriminate];
  try solve [intros; auto];
  try solve [intros; congruence];
  try solve [intros; lia];
  try solve [intros; eauto 4];
  try solve [intros; first [left; solve [auto] | right; solve [auto]]];
  try solve [intuition (try discriminate; try congruence; try lia)];
  try solve [intros; repeat match goal with H : context [negb ?b] |- _ => destruct b eqn:?; cbn [negb] in * end;
             intuition (try discriminate; try congruence; try lia)];
  try solve [let E := fresh in intros E; rewrite E in *; cbn in *; intuition (try discriminate; try congruence; try lia)];
  try solve [intros; match goal with |- ?b = false => destruct b eqn:?; [exfalso|reflexivity] end;
             intuition (try discriminate; try congruence; try lia)];
  try solve [match goal with |- context [c_pc ?c] => let pcx := fresh "pcx" in remember (c_pc c) as pcx; destruct pcx end;
             intros; repeat match goal with H : context [negb ?b] |- _ => destruct b eqn:?; cbn [negb] in * end;
             intuition (try discriminate; try congruence; try lia)].

Lemma no_waiting_true h : waiting h = true -> notify_one h = set_notify h (permit h) false true true.
Proof. unfold notify_one. intros ->. reflexivity. Qed.
Lemma no_waiting_false h : waiting h = false -> notify_one h = set_notify h true false (woken h) (wone h).
Proof. unfold notify_one. intros ->. reflexivity. Qed.
Lemma nw_waiting_true h : waiting h = true -> notify_waiters h = set_nw h false true false.
Proof. unfold notify_waiters. intros ->. reflexivity. Qed.
Lemma nw_waiting_false h : waiting h = false -> notify_waiters h = set_nw h false (woken h) (wone h).
Proof. unfold notify_waiters. intros ->. reflexivity. Qed.


Ltac dJ J := destruct J as [Jsend Jeb Jbusy Jdropz Jone Jclosed Jstoring Jcl Jclw Jse Jended Jdr Jemp JempT Jeos
                            Wwait Wnowait Wsnap Wstop Wstop' Wclose Wclose'].

Lemma sstep_inv2 h c x p E h' x' : Inv2 h c x p E -> sstep h x = Some (h', x') -> Inv2 h' c x' p E.
Proof.
  intros J Hstep. dJ J.
  destruct x as [todo spc]. unfold sstep in Hstep. cbn [s_pc s_todo] in Hstep. unf_2. cbn [s_pc] in *.
  destruct spc; [destruct todo; [discriminate|]| |]; inv_step Hstep.
  - constructor; unf_2; cbn in *; fld2.
  - constructor; unf_2; cbn in *; fld2.
  - destruct (waiting h) eqn:Hw.
    + rewrite (nw_waiting_true _ Hw). constructor; unf_2; cbn in *; fld2.
    + rewrite (nw_waiting_false _ Hw). constructor; unf_2; cbn in *; fld2.
Qed.

Lemma in_app_one {A} (l : list A) x y : In y (l ++ [x]) <-> In y l \/ y = x.
Proof. rewrite in_app_iff. cbn. intuition. Qed.

(* consumer steps leave the producer-side facts alone: try them as they are, and keep them out of
   the way of the propositional search for the rest *)
Ltac fld2c := fld2.

Lemma cstep_inv2 R V0 B h c x p E h' c' :
  Inv1 R V0 h c p -> tail h <= B -> idxs_ok h B -> Inv2 h c x p E -> cstep h c = Some (h', c') -> Inv2 h' c' x p E.
Proof.
  intros I HtV Hidx J Hstep.
  pose proof (excl_pop _ _ _ _ _ I) as Hex.
  destruct I as [Iring Ilock Iexcl Iplock Imode Iprt Iprh Icrh Irecv Isent Iraw].
  dJ J.
  destruct c as [prog pc rt rh rp snap cl can rets].
  unfold cstep in Hstep; cbn [c_pc c_prog c_rh c_rp c_snap c_cl c_can] in Hstep.
  unf_c; unf_2; cbn [c_pc c_prog c_rh c_rp c_rets c_snap c_cl c_can] in *.
  destruct pc; try match goal with m : poppc |- _ => destruct m end.
  all: cbn [rph_of knows] in *.
  all: repeat match type of Hstep with
       | context [if ?b then _ else _] => destruct b eqn:?
       | context [match ?l with [] => _ | _ => _ end] => destruct l as [|[] ?]
       end.
  all: try discriminate Hstep.
  all: try (specialize (Icrh eq_refl); subst rh).
  all: try match type of Hstep with context [ring_read] =>
         destruct (ring_read_ok _ _ true Iring) as (v & Hv & Hrd & Hring');
         [apply Hidx; pose proof (ring_bounds _ _ _ Iring); lia|]; rewrite Hrd in Hstep end.
  all: try match goal with H : is_mt ?s (head ?s) (tail ?s) = true, RI : RingInv ?s _ RNone |- _ =>
         pose proof (ring_empty_is_empty _ _ RI H) end.
  all: try match goal with RI : RingInv _ _ RMoved |- _ => pose proof (ri_ht _ _ _ RI); cbn [rd] in * end.
  all: try match goal with H : (_ =? _) = true |- _ => apply Z.eqb_eq in H end.
  all: inv_step Hstep; unf_c; unf_2; cbn in *; constructor; unf_c; unf_2; cbn; rewrite ?in_app_one in *; fld2c.
  (* CRvEmptyT, empty: closed, so the producer is quiet and the ring really is empty *)
  intros _. specialize (Jemp eq_refl). specialize (JempT eq_refl). subst rh.
  split; [assumption|]. destruct (Jclosed Jemp) as (_ & Hq & _).
  assert (Hnp : p_inpop p = false) by (unfold p_inpop; destruct (p_pc p); try discriminate; reflexivity).
  rewrite rph_p_notin in Iring by assumption.
  eapply ring_empty_is_empty; eauto.
Qed.

Lemma pstep_inv2 h c x p E h' p' :
  Inv2 h c x p E -> pstep h p = Some (h', p') -> Inv2 h' c x p' E.
Proof.
  intros J Hstep. dJ J.
  destruct p as [prog pc prt prh rv hd rets pp].
  unfold pstep in Hstep; cbn [p_pc p_prog p_rt p_rh p_rv p_handles p_rets p_pushed] in Hstep.
  unf_p; unf_2; cbn [p_pc p_prog p_rt p_rh p_rv p_handles p_rets p_pushed] in *.
  destruct pc as [|k|k|cx m|cx|mm|mm m|mm|r| | | |].
  all: try (destruct m).
  all: try (destruct cx).
  all: try (destruct k).
  all: cbn [rph_of knows] in *.
  all: repeat match type of Hstep with
       | context [if ?b then _ else _] => destruct b eqn:?
       | context [match ?l with [] => _ | _ => _ end] => destruct l as [|[] ?]
       end.
  all: try discriminate Hstep.
  all: try match goal with H : (_ <=? _) = false |- _ => apply Z.leb_gt in H end.
  all: try match goal with H : (_ =? _) = true |- _ => apply Z.eqb_eq in H end.
  all: try match goal with H : (_ =? _) = false |- _ => apply Z.eqb_neq in H end.
  all: try match type of Hstep with context [notify_one ?s] =>
         let Hw := fresh "Hw" in destruct (waiting s) eqn:Hw;
         [rewrite (no_waiting_true _ Hw) in Hstep | rewrite (no_waiting_false _ Hw) in Hstep] end.
  all: try match type of Hstep with context [notify_waiters ?s] =>
         let Hw := fresh "Hw" in destruct (waiting s) eqn:Hw;
         [rewrite (nw_waiting_true _ Hw) in Hstep | rewrite (nw_waiting_false _ Hw) in Hstep] end.
  all: inv_step Hstep; unf_p; unf_2; cbn in *; constructor; unf_p; unf_2; cbn; fld2.
  all: destruct (e_busy E), (e_storing E), (e_notif E); cbn in *;
       intuition (try discriminate; try congruence; try lia).
Qed.

(* ---- from one producer + "the others" to the list of producers *)
Fixpoint hsum (ps : list pth) : Z := match ps with [] => 0 | p :: r => p_handles p + hsum r end.
Definition others {A} (k : nat) (l : list A) : list A := firstn k l ++ skipn (S k) l.
Definition env_of (k : nat) (ps : list pth) : env :=
  let o := others k ps in mkE (hsum o) (existsb p_busy o) (existsb p_storing o) (existsb p_notifying o).
Definition plocal (p : pth) : Prop := 0 <= p_handles p /\ (p_busy p = true -> 1 <= p_handles p).
Definition one_dropper (ps : list pth) : Prop :=
  forall i j pi pj, i <> j -> nth_error ps i = Some pi -> nth_error ps j = Some pj ->
                    p_dropping pi = true -> p_dropping pj = true -> False.

Lemma split_nth {A} (l : list A) k x : nth_error l k = Some x -> l = firstn k l ++ x :: skipn (S k) l.
Proof.
  revert k. induction l as [|a l IH]; intros [|k] H; cbn in *; try discriminate.
  - inversion H. reflexivity.
  - f_equal. apply IH. exact H.
Qed.
Lemma hsum_app a b : hsum (a ++ b) = hsum a + hsum b.
Proof. induction a; cbn; [reflexivity|lia]. Qed.
Lemma hsum_split ps k p : nth_error ps k = Some p -> hsum ps = p_handles p + hsum (others k ps).
Proof. intros H. rewrite (split_nth _ _ _ H) at 1. unfold others. rewrite !hsum_app. cbn. lia. Qed.
Lemma existsb_split {A} (f : A -> bool) l k x : nth_error l k = Some x -> existsb f l = f x || existsb f (others k l).
Proof.
  intros H. rewrite (split_nth _ _ _ H) at 1. unfold others. rewrite !existsb_app. cbn.
  destruct (existsb f (firstn k l)), (f x); reflexivity.
Qed.
Lemma others_replace {A} (l : list A) k x : others k (replace k x l) = others k l.
Proof.
  unfold others. revert k. induction l as [|a l IH]; intros [|k]; cbn; try reflexivity. f_equal. apply IH.
Qed.
Lemma env_of_replace ps k p' : env_of k (replace k p' ps) = env_of k ps.
Proof. unfold env_of. rewrite others_replace. reflexivity. Qed.
Lemma others_In {A} (l : list A) k x : In x (others k l) -> In x l.
Proof.
  unfold others. intros H. apply in_app_or in H as [H|H].
  - rewrite <- (firstn_skipn k l). apply in_or_app. left. exact H.
  - rewrite <- (firstn_skipn (S k) l). apply in_or_app. right. exact H.
Qed.
Lemma others_nth {A} (l : list A) k x : In x (others k l) -> exists i, i <> k /\ nth_error l i = Some x.
Proof.
  unfold others. revert k. induction l as [|a l IH]; intros k H.
  - destruct k; cbn in H; contradiction.
  - destruct k as [|k]; cbn in H.
    + apply In_nth_error in H as [i Hi]. exists (S i). split; [discriminate|exact Hi].
    + destruct H as [<-|H]; [exists 0%nat; split; [discriminate|reflexivity]|].
      destruct (IH k H) as (i & Ni & Hi). exists (S i). split; [congruence|exact Hi].
Qed.
Lemma hsum_nonneg ps : Forall plocal ps -> 0 <= hsum ps.
Proof. induction 1 as [|p l [H0 _] _ IH]; cbn; lia. Qed.
Lemma hsum_busy ps : Forall plocal ps -> existsb p_busy ps = true -> 1 <= hsum ps.
Proof.
  induction 1 as [|p l [H0 Hb] Hl IH]; cbn; [discriminate|]. intros H. apply orb_true_iff in H as [H|H].
  - specialize (Hb H). pose proof (hsum_nonneg _ Hl). lia.
  - specialize (IH H). lia.
Qed.
Lemma Forall_others {A} (P : A -> Prop) l k : Forall P l -> Forall P (others k l).
Proof. rewrite !Forall_forall. intros H x Hx. apply H. eapply others_In; eauto. Qed.
Lemma hsum_zero ps p : Forall plocal ps -> hsum ps = 0 -> In p ps -> p_handles p = 0.
Proof.
  induction 1 as [|q l [H0 _] Hl IH]; cbn; [contradiction|]. intros Hs [->|Hin].
  - pose proof (hsum_nonneg _ Hl). lia.
  - apply IH; [|assumption]. pose proof (hsum_nonneg _ Hl). lia.
Qed.

Lemma dropping_split p : p_dropping p = p_storing p || p_notifying p.
Proof. unfold p_dropping, p_storing, p_notifying. destruct (p_pc p); reflexivity. Qed.
Lemma quiet_split p : p_quiet p = negb (p_busy p) && negb (p_storing p).
Proof. unfold p_quiet, p_busy, p_storing. destruct (p_pc p); reflexivity. Qed.

(* the producer-related totals of a state, independent of which producer one looks from *)
Lemma refocus h c x ps k j pk pj :
  Forall plocal ps -> one_dropper ps ->
  nth_error ps k = Some pk -> nth_error ps j = Some pj ->
  Inv2 h c x pk (env_of k ps) -> Inv2 h c x pj (env_of j ps).
Proof.
  intros Hloc Hone Hk Hj J. dJ J.
  pose proof (hsum_split _ _ _ Hk) as Sk. pose proof (hsum_split _ _ _ Hj) as Sj.
  pose proof (existsb_split p_busy _ _ _ Hk) as Bk. pose proof (existsb_split p_busy _ _ _ Hj) as Bj.
  pose proof (existsb_split p_storing _ _ _ Hk) as Tk. pose proof (existsb_split p_storing _ _ _ Hj) as Tj.
  pose proof (existsb_split p_notifying _ _ _ Hk) as Nk. pose proof (existsb_split p_notifying _ _ _ Hj) as Nj.
  pose proof (hsum_nonneg _ (Forall_others _ _ j Hloc)) as Hnj.
  assert (Hlj : plocal pj) by (rewrite Forall_forall in Hloc; apply Hloc; eapply nth_error_In; eauto).
  destruct Hlj as [Hj0 Hjb].
  rewrite (dropping_split pk) in *. rewrite (quiet_split pk) in *.
  cbn [env_of e_h e_busy e_storing e_notif] in *.
  constructor; cbn [env_of e_h e_busy e_storing e_notif]; try assumption.
  - repeat split; lia.
  - intros Hb. apply hsum_busy; [apply Forall_others; assumption|assumption].
  - rewrite (dropping_split pj). intros Hd.
    assert (Hany : existsb p_storing ps || existsb p_notifying ps = true).
    { rewrite Tj, Nj. destruct (p_storing pj), (p_notifying pj), (existsb p_storing (others j ps)), (existsb p_notifying (others j ps)); cbn in *; congruence. }
    rewrite Tk, Nk in Hany.
    assert (p_handles pk + hsum (others k ps) = 0).
    { apply Jdropz. destruct (p_storing pk), (p_notifying pk), (existsb p_storing (others k ps)), (existsb p_notifying (others k ps)); cbn in *; congruence. }
    lia.
  - intros Hd. 
    assert (Hno : forall q, In q (others j ps) -> p_dropping q = false).
    { intros q Hq. destruct (p_dropping q) eqn:Eq; [exfalso|reflexivity].
      destruct (others_nth _ _ _ Hq) as (i & Ni & Hi). eapply (Hone i j); eauto. }
    split; apply not_true_is_false; intros Hx; apply existsb_exists in Hx as (q & Hq & Hf);
      specialize (Hno q Hq); rewrite dropping_split in Hno; rewrite Hf in Hno; [|rewrite orb_true_r in Hno]; discriminate.
  - intros Hc. destruct (Jclosed Hc) as (H0 & Hq & Hb & Hs).
    apply andb_true_iff in Hq as [Hq1 Hq2]. apply negb_true_iff in Hq1, Hq2.
    assert (Hba : existsb p_busy ps = false) by (rewrite Bk, Hq1, Hb; reflexivity).
    assert (Hsa : existsb p_storing ps = false) by (rewrite Tk, Hq2, Hs; reflexivity).
    rewrite Bj in Hba. rewrite Tj in Hsa. apply orb_false_iff in Hba as [Hb1 Hb2]. apply orb_false_iff in Hsa as [Hs1 Hs2].
    rewrite (quiet_split pj), Hb1, Hs1. repeat split; try assumption; try reflexivity. lia.
  - intros Hs. apply Jstoring.
    assert (Hsa : existsb p_storing ps = true) by (rewrite Tj; exact Hs). rewrite Tk in Hsa. exact Hsa.
  - intros H1 H2 H3. specialize (Wclose H1 H2 H3).
    assert (Hna : existsb p_notifying ps = true) by (rewrite Nk; exact Wclose). rewrite Nj in Hna. exact Hna.
  - intros H1 H2 H3. specialize (Wclose' H1 H2 H3).
    assert (Hna : existsb p_notifying ps = true) by (rewrite Nk; exact Wclose'). rewrite Nj in Hna. exact Hna.
Qed.

Lemma nth_in_others {A} (l : list A) k j x : j <> k -> nth_error l j = Some x -> In x (others k l).
Proof.
  unfold others. revert k j. induction l as [|a l IH]; intros k j N H; [destruct j; discriminate|].
  destruct k as [|k], j as [|j]; cbn in *; try congruence.
  - eapply nth_error_In; eauto.
  - left. congruence.
  - right. eapply IH; [|eauto]. congruence.
Qed.

Definition Inv2L (h : sh) (c : cth) (x : sth) (ps : list pth) : Prop :=
  Forall plocal ps /\ one_dropper ps /\
  exists k p, nth_error ps k = Some p /\ Inv2 h c x p (env_of k ps).

Lemma Inv2L_at h c x ps k p : Inv2L h c x ps -> nth_error ps k = Some p -> Inv2 h c x p (env_of k ps).
Proof. intros (Hl & Ho & j & q & Hj & J) Hk. exact (refocus _ _ _ _ _ _ _ _ Hl Ho Hj Hk J). Qed.

Lemma Inv2L_pstep h c x ps k p h' p' :
  Inv2L h c x ps -> nth_error ps k = Some p -> pstep h p = Some (h', p') -> Inv2L h' c x (replace k p' ps).
Proof.
  intros HL Hk H. pose proof (Inv2L_at _ _ _ _ _ _ HL Hk) as J.
  pose proof (pstep_inv2 _ _ _ _ _ _ _ J H) as J'.
  destruct HL as (Hl & Ho & _).
  split; [|split].
  - apply Forall_replace; [assumption|]. destruct J' as [(_ & H0 & _) _ Hb _ _ _ _ _ _ _ _ _ _ _ _ _ _ _ _ _ _ _]. split; assumption.
  - intros i j pi pj Nij Hi Hj Di Dj.
    assert (Hother : forall q, In q (others k ps) -> p_dropping p' = true -> p_dropping q = true -> False).
    { intros q Hq Dp Dq. destruct J' as [_ _ _ _ Jone _ _ _ _ _ _ _ _ _ _ _ _ _ _ _ _ _].
      destruct (Jone Dp) as [Hs Hn]. cbn in Hs, Hn.
      rewrite dropping_split in Dq. apply orb_true_iff in Dq as [Dq|Dq].
      - assert (existsb p_storing (others k ps) = true) by (apply existsb_exists; eauto). congruence.
      - assert (existsb p_notifying (others k ps) = true) by (apply existsb_exists; eauto). congruence. }
    destruct (Nat.eq_dec i k) as [->|Ni], (Nat.eq_dec j k) as [->|Nj]; try congruence.
    + rewrite (nth_replace_eq _ _ _ _ Hk) in Hi. inv_step Hi. rewrite nth_replace_neq in Hj by assumption.
      apply (Hother pj); [eapply nth_in_others; eauto|assumption|assumption].
    + rewrite (nth_replace_eq _ _ _ _ Hk) in Hj. inv_step Hj. rewrite nth_replace_neq in Hi by assumption.
      apply (Hother pi); [eapply nth_in_others; eauto|assumption|assumption].
    + rewrite nth_replace_neq in Hi, Hj by assumption. eapply Ho; eauto.
  - exists k, p'. split; [eapply nth_replace_eq; eauto|]. rewrite env_of_replace. assumption.
Qed.

Lemma Inv2L_sstep h c x ps h' x' : Inv2L h c x ps -> sstep h x = Some (h', x') -> Inv2L h' c x' ps.
Proof.
  intros (Hl & Ho & k & p & Hk & J) H. split; [assumption|]. split; [assumption|].
  exists k, p. split; [assumption|]. eapply sstep_inv2; eauto.
Qed.

(* ---- both invariants together *)
Definition InvAll (R : bool) (Vs : list (list val)) (s : st) : Prop :=
  InvG R Vs s /\ Inv2L (shd s) (cons s) (stp s) (prods s).

Lemma step_inv_all R Vs s t s' : InvAll R Vs s -> step s t = Some s' -> InvAll R Vs s'.
Proof.
  intros [HG HL] H. split; [eapply step_invG; eauto|].
  unfold step in H. destruct t as [|[|k]].
  - destruct (cstep (shd s) (cons s)) as [[h c]|] eqn:E; [|discriminate]. inv_step H. cbn.
    pose proof (InvN_tail _ _ _ _ _ HG) as Ht.
    destruct HG as (_ & _ & _ & Hidx & f & pf & Vf & Hf & _ & I & _).
    pose proof (Inv2L_at _ _ _ _ _ _ HL Hf) as J.
    destruct HL as (Hl & Ho & _). split; [assumption|]. split; [assumption|].
    exists f, pf. split; [assumption|]. eapply cstep_inv2; eauto.
  - destruct (sstep (shd s) (stp s)) as [[h x]|] eqn:E; [|discriminate]. inv_step H. cbn. eapply Inv2L_sstep; eauto.
  - destruct (nth_error (prods s) k) as [p|] eqn:Hk; [|discriminate].
    destruct (pstep (shd s) p) as [[h p']|] eqn:E; [|discriminate]. inv_step H. cbn. eapply Inv2L_pstep; eauto.
Qed.

Lemma run_inv_all R Vs sched : forall s, InvAll R Vs s -> InvAll R Vs (run s sched).
Proof.
  induction sched as [|t r IH]; intros s I; cbn; [assumption|]. apply IH.
  unfold step'. destruct (step s t) eqn:E; [eapply step_inv_all; eauto|assumption].
Qed.

Lemma hsum_p0 pprogs : hsum (map p0 pprogs) = Z.of_nat (length pprogs).
Proof. induction pprogs as [|a l IH]; [reflexivity|]. cbn [map hsum]. rewrite IH. cbn [p0 p_handles length]. lia. Qed.
Lemma existsb_p0 (f : pth -> bool) l : (forall pr, f (p0 pr) = false) -> existsb f (map p0 l) = false.
Proof. intros H. induction l; cbn; [reflexivity|]. rewrite H, IHl. reflexivity. Qed.

Lemma init_inv_all capacity w cprog n pprogs :
  cfgN_ok capacity w cprog pprogs ->
  InvAll (forallb no_send pprogs) (map op_vals pprogs) (init capacity w cprog n pprogs).
Proof.
  intros H. split; [apply init_invG; assumption|].
  destruct H as (_ & _ & Hne & _). unfold init. cbn [shd cons stp prods].
  split; [|split].
  - apply Forall_forall. intros p Hin. apply in_map_iff in Hin as (pr & <- & _). split; cbn; [lia|discriminate].
  - intros i j pi pj _ Hi _ Di _. apply nth_error_In in Hi. apply in_map_iff in Hi as (pr & <- & _). discriminate.
  - destruct pprogs as [|pr l]; [congruence|]. exists 0%nat, (p0 pr). split; [reflexivity|].
    unfold env_of, others. cbn [map firstn skipn app].
    constructor; unf_2; cbn [sh0 senders closed ended stopped waiting woken nwc head tail p0 p_handles p_pc c0 c_pc c_rets c_snap c_cl
                              e_h e_busy e_storing e_notif s_pc];
      rewrite ?hsum_p0, ?existsb_p0 by reflexivity;
      try solve [intuition (try discriminate; try lia)].
    + cbn [length]. rewrite Nat2Z.inj_succ. split; [lia|]. split; lia.
    + intros [].
Qed.

Lemma reach_inv_all capacity w cprog n pprogs sched :
  cfgN_ok capacity w cprog pprogs ->
  InvAll (forallb no_send pprogs) (map op_vals pprogs) (run (init capacity w cprog n pprogs) sched).
Proof. intros H. apply run_inv_all, init_inv_all, H. Qed.

(* ---- theorems about close / end-of-stream / wake-ups, 1..n producer threads *)
Section NProducersClose.
  Variables (capacity w : Z) (cprog : list cop) (nstop : nat) (pprogs : list (list pop_)) (sched : list nat).
  Hypothesis Hcfg : cfgN_ok capacity w cprog pprogs.
  Let s := run (init capacity w cprog nstop pprogs) sched.

  Lemma nprod_all : InvAll (forallb no_send pprogs) (map op_vals pprogs) s.
  Proof. apply reach_inv_all. exact Hcfg. Qed.

  Lemma nprod_focus2 :
    exists f pf Vf, nth_error (prods s) f = Some pf /\ Inv1 (forallb no_send pprogs) Vf (shd s) (cons s) pf /\
                    Inv2 (shd s) (cons s) (stp s) pf (env_of f (prods s)) /\ Forall plocal (prods s).
  Proof.
    destruct nprod_all as [(_ & _ & _ & _ & f & pf & Vf & Hf & _ & I & _) HL].
    exists f, pf, Vf. split; [assumption|]. split; [assumption|]. split; [eapply Inv2L_at; eauto|]. apply HL.
  Qed.

  (* recv() answers end-of-stream only after stop(), or after the last source handle is gone AND
     everything that entered the ring has left it (delivered, or discarded as "oldest") *)
  Lemma nprod_eos_sound :
    In REos (c_rets (cons s)) ->
    stopped (shd s) = true \/
    (closed (shd s) = true /\ head (shd s) = tail (shd s) /\ map snd (taken (shd s)) = pushed (shd s)).
  Proof.
    intros Hin. destruct nprod_focus2 as (f & pf & Vf & Hf & I & J & _).
    destruct (j_eos _ _ _ _ _ J Hin) as [Hs|[Hc Hht]]; [left; assumption|right].
    split; [assumption|]. split; [assumption|].
    destruct I as [[Rc Rh0 Rht Rlen Rroom Rav Rp Rtk Rf Re Ru] _ _ _ _ _ _ _ _ _ _].
    rewrite Rtk. apply firstn_all2. unfold lenZ in Rp.
    assert (0 <= rd (rph_cp (cons s) pf)) by (destruct (rph_cp (cons s) pf); cbn; lia). lia.
  Qed.

  (* once source_closed is set no producer thread holds a handle or is inside an operation:
     nothing is pushed afterwards *)
  Lemma nprod_closed_is_final :
    closed (shd s) = true -> Forall (fun p => p_handles p = 0 /\ p_quiet p = true) (prods s).
  Proof.
    intros Hc. destruct nprod_focus2 as (f & pf & Vf & Hf & _ & J & Hloc).
    destruct (j_closed _ _ _ _ _ J Hc) as (H0 & Hq & Hb & Hs). cbn in H0, Hb, Hs.
    pose proof (hsum_split _ _ _ Hf) as Sf.
    assert (Hz : hsum (prods s) = 0) by lia.
    apply Forall_forall. intros p Hin. split; [eapply hsum_zero; eauto|].
    apply In_nth_error in Hin as [k Hk]. destruct (Nat.eq_dec k f) as [->|N]; [congruence|].
    pose proof (nth_in_others _ _ _ _ N Hk) as Ho.
    rewrite quiet_split. apply andb_true_iff. split; apply negb_true_iff; apply not_true_is_false; intros Hx.
    - assert (existsb p_busy (others f (prods s)) = true) by (apply existsb_exists; eauto). congruence.
    - assert (existsb p_storing (others f (prods s)) = true) by (apply existsb_exists; eauto). congruence.
  Qed.

  (* no lost wake-up: a consumer that is registered and not woken while the stream is closed /
     stopped always has the notify_waiters() call of that close / stop still ahead of it *)
  Lemma nprod_no_lost_wakeup :
    c_is_waiting (cons s) = true -> woken (shd s) = false ->
    (closed (shd s) = true -> exists k p, nth_error (prods s) k = Some p /\ p_pc p = PDropNotify) /\
    (c_pc (cons s) = CRvWaiting -> stopped (shd s) = true -> s_pc (stp s) = SNotify).
  Proof.
    intros Hw Hk. destruct nprod_focus2 as (f & pf & Vf & Hf & _ & J & _). split.
    - intros Hc. pose proof (w_close' _ _ _ _ _ J Hw Hk Hc) as Hn. cbn in Hn.
      rewrite <- (existsb_split p_notifying _ _ _ Hf) in Hn. apply existsb_exists in Hn as (p & Hin & Hp).
      apply In_nth_error in Hin as [k Hk']. exists k, p. split; [assumption|].
      unfold p_notifying in Hp. destruct (p_pc p); try discriminate. reflexivity.
    - intros Hpc Hs. pose proof (w_stop' _ _ _ _ _ J) as Hn. unfold c_is_waiting_rv, s_notifying in Hn.
      rewrite Hpc in Hn. specialize (Hn eq_refl Hk Hs). destruct (s_pc (stp s)); try discriminate. reflexivity.
  Qed.

  (* after close, with every producer thread finished, the consumer is never blocked:
     not on the pop_lock, not in notified().await *)
  Lemma nprod_consumer_enabled_after_close :
    closed (shd s) = true -> Forall (fun p => p_pc p = PIdle) (prods s) ->
    (c_pc (cons s) <> CIdle \/ c_prog (cons s) <> []) ->
    step s 0 <> None.
  Proof.
    intros Hc Hidle Hbusy.
    destruct nprod_focus2 as (f & pf & Vf & Hf & I & J & _).
    assert (Hpi : p_pc pf = PIdle) by (rewrite Forall_forall in Hidle; apply Hidle; eapply nth_error_In; eauto).
    assert (Hnon : existsb p_notifying (prods s) = false).
    { apply not_true_is_false. intros Hx. apply existsb_exists in Hx as (p & Hin & Hp).
      rewrite Forall_forall in Hidle. specialize (Hidle p Hin). unfold p_notifying in Hp. rewrite Hidle in Hp. discriminate. }
    pose proof (w_close' _ _ _ _ _ J) as Wclose'. cbn in Wclose'. rewrite <- (existsb_split p_notifying _ _ _ Hf), Hnon in Wclose'.
    destruct I as [_ Ilock _ _ _ _ _ _ _ _ _].
    unfold step. unfold cstep, await_step, waiting_step. unfold c_locked, p_locked, c_is_waiting in *. rewrite Hpi in *.
    destruct (c_pc (cons s)) eqn:Hpc; try match goal with m : poppc |- _ => destruct m end;
      repeat match goal with
      | |- context [match c_prog ?c with _ => _ end] => destruct (c_prog c) as [|[] ?]
      | |- context [let '(_, _) := ?r in _] => destruct r
      | |- context [if ?b then _ else _] => destruct b eqn:?
      end; try discriminate.
    all: rewrite ?Hpc in *; cbn in *.
    all: try (destruct Hbusy; congruence).
    all: try congruence.
    all: specialize (Wclose' eq_refl eq_refl Hc); discriminate.
  Qed.

  (* a cancelled recv() (its future dropped at the await) takes nothing out of the queue, holds no
     lock, and hands a notify_one it had already received on to the next recv() as the permit *)
  Lemma nprod_cancel_is_clean :
    c_is_waiting (cons s) = true -> c_can (cons s) = true ->
    exists s', step s 0 = Some s' /\
      c_pc (cons s') = CIdle /\ c_rets (cons s') = c_rets (cons s) ++ [RCancelled] /\
      head (shd s') = head (shd s) /\ tail (shd s') = tail (shd s) /\ slots (shd s') = slots (shd s) /\
      taken (shd s') = taken (shd s) /\ lock (shd s') = lock (shd s) /\
      waiting (shd s') = false /\ woken (shd s') = false /\
      permit (shd s') = permit (shd s) || (woken (shd s) && wone (shd s)).
  Proof.
    intros Hw Hcan. unfold step, cstep, waiting_step, c_is_waiting in *.
    destruct (c_pc (cons s)); try discriminate; rewrite Hcan; eexists; split; try reflexivity; cbn; repeat split; reflexivity.
  Qed.
End NProducersClose.
(* ---- after close every consumer operation terminates: a measure that every consumer step lowers *)
Definition c_dist (c : cth) : nat :=
  match c_pc c with
  | CIdle => 0
  | CPopRaw PoLoadHead => 4 | CPopRaw PoLoadTail => 3 | CPopRaw PoRead => 2 | CPopRaw PoStoreHead => 1
  | CRvCreate => 12 | CRvEnded => 11 | CRvLock => 10 | CRvClosed1 => 9
  | CRvPop PoLoadHead => if c_cl c then 8 else 20
  | CRvPop PoLoadTail => if c_cl c then 7 else 19
  | CRvPop PoRead => 3 | CRvPop PoStoreHead => 2 | CRvUnlockRet => 1
  | CRvStoreEnded1 => 2 | CRvUnlockEos => 1
  | CRvUnlockWait => 18 | CRvAwait => 17 | CRvWaiting => 16
  | CRvClosed2 => 15 | CRvEmptyH => 14 | CRvEmptyT => 13 | CRvStoreEnded2 => 1
  | CQLock => 9 | CQClosed1 => 8
  | CQPop PoLoadHead => if c_cl c then 7 else 20
  | CQPop PoLoadTail => if c_cl c then 6 else 19
  | CQPop PoRead => 3 | CQPop PoStoreHead => 2 | CQUnlockRet => 1 | CQUnlockEos => 1
  | CQUnlockWait => 18 | CQCreate => 17 | CQEmptyH => 16 | CQEmptyT => 15 | CQClosed2 => 14
  | CQAwait => 13 | CQWaiting => 12
  end%nat.

Lemma cstep_dist h c h' c' :
  closed h = true -> cstep h c = Some (h', c') -> c_pc c <> CIdle ->
  (c_dist c' < c_dist c)%nat /\ closed h' = true.
Proof.
  intros Hc H Hn. unfold cstep, await_step, waiting_step in H. unfold c_dist.
  destruct c as [prog pc rt rh rp snap cl can rets]. cbn [c_pc c_prog c_rh c_rp c_snap c_cl c_can] in *.
  destruct pc; try match goal with m : poppc |- _ => destruct m end; try congruence;
  repeat match type of H with
       | context [if ?b then _ else _] => destruct b eqn:?
       | context [let '(_, _) := ?x in _] => destruct x eqn:?
       end; try discriminate H; inv_step H; cbn; autorewrite with shf; try (split; [lia|assumption]).
  all: try match goal with E : ring_read ?h ?w ?x = (_, _) |- _ =>
         pose proof (rr_closed h w x) as E1; rewrite E in E1; cbn in E1; split; [lia|congruence] end.
  all: try congruence.
  all: try rewrite Hc.
  all: try destruct cl; split; try lia; try assumption; try reflexivity.
Qed.

Section NProducersTermination.
  Variables (capacity w : Z) (cprog : list cop) (nstop : nat) (pprogs : list (list pop_)).
  Hypothesis Hcfg : cfgN_ok capacity w cprog pprogs.

  Lemma run_app s a b : run s (a ++ b) = run (run s a) b.
  Proof. revert s. induction a as [|t a IH]; intros s; cbn; [reflexivity|apply IH]. Qed.

  (* liveness after close: once source_closed is set and every producer thread is done, a consumer
     that runs completes its current recv()/pop() within n <= 20 of its own steps (it cannot be
     blocked and cannot spin): it drains what remains, then gets end-of-stream *)
  Lemma nprod_recv_terminates_after_close : forall n sched,
    let s := run (init capacity w cprog nstop pprogs) sched in
    closed (shd s) = true -> Forall (fun p => p_pc p = PIdle) (prods s) ->
    (c_dist (cons s) <= n)%nat ->
    exists k, (k <= n)%nat /\ c_pc (cons (run s (repeat 0%nat k))) = CIdle.
  Proof.
    induction n as [|n IH]; intros sched s Hc Hpi Hd.
    - exists 0%nat. split; [lia|]. cbn. unfold c_dist in Hd. destruct (c_pc (cons s)); try match goal with m : poppc |- _ => destruct m end; try destruct (c_cl (cons s)); try lia; reflexivity.
    - destruct (c_pc (cons s)) eqn:Hpc; try (exists 0%nat; split; [lia|exact Hpc]).
      all: assert (Hne : c_pc (cons s) <> CIdle) by congruence.
      all: pose proof (nprod_consumer_enabled_after_close capacity w cprog nstop pprogs sched Hcfg Hc Hpi (or_introl Hne)) as Hen.
      all: fold s in Hen; unfold step in Hen; destruct (cstep (shd s) (cons s)) as [[h1 c1]|] eqn:Hcs; [|congruence]; clear Hen.
      all: assert (Hrun : mkSt h1 c1 (stp s) (prods s) = run (init capacity w cprog nstop pprogs) (sched ++ [0%nat]))
             by (rewrite run_app; cbn; unfold step', step; fold s; rewrite Hcs; reflexivity).
      all: destruct (cstep_dist _ _ _ _ Hc Hcs Hne) as [Hlt Hc1].
      all: destruct (IH (sched ++ [0%nat])) as (k & Hk & Hidle);
           [rewrite <- Hrun; exact Hc1 | rewrite <- Hrun; exact Hpi | rewrite <- Hrun; cbn; lia |].
      all: exists (S k); split; [lia|]; cbn [repeat run]; unfold step' at 1, step at 1; rewrite Hcs; rewrite <- Hrun in Hidle; exact Hidle.
  Qed.
End NProducersTermination.

Lemma c_dist_le_20 c : (c_dist c <= 20)%nat.
Proof. unfold c_dist. destruct (c_pc c); try match goal with m : poppc |- _ => destruct m end; try destruct (c_cl c); lia. Qed.

Lemma nprod_recv_terminates_after_close_20 capacity w cprog nstop pprogs sched :
  cfgN_ok capacity w cprog pprogs ->
  let s := run (init capacity w cprog nstop pprogs) sched in
  closed (shd s) = true -> Forall (fun p => p_pc p = PIdle) (prods s) ->
  exists k, (k <= 20)%nat /\ c_pc (cons (run s (repeat 0%nat k))) = CIdle.
Proof. intros Hcfg s Hc Hpi. eapply nprod_recv_terminates_after_close; eauto. apply c_dist_le_20. Qed.

(* the premises are satisfiable and the pieces fit *)
Example drain_then_eos :
  let s := run_ops (init 2 (2 ^ 64) [ORecv; ORecv; ORecv; ORecv] 0 [[OTrySend 1; OTrySend 2; OTrySend 3; ODropSrc]])
                   [2; 2; 2; 2; 0; 0; 0; 0]%nat in
  c_rets (cons s) = [RRecv 1; RRecv 2; REos; REos] /\
  map p_rets (prods s) = [[RTryOk; RTryOk; RWouldBlock]] /\ closed (shd s) = true /\ ub (shd s) = None.
Proof. vm_compute. repeat split; reflexivity. Qed.

(* three producer threads on one track, a cancelled recv in between, the pipeline queue: *)
Example three_producers_example :
  let s := run_ops (init 2 (2 ^ 64) [ORecvC; ORecv; ORecv; ORecv; ORecv] 0
                      [[OSend 1; ODropSrc]; [OTrySend 11; ODropSrc]; [OSendMany [21; 22]; ODropSrc]])
                   [0; 2; 3; 4; 4; 4; 2; 3; 4; 0; 0; 0; 0]%nat in
  c_rets (cons s) = [RCancelled; RRecv 21; RRecv 22; REos; REos] /\ ub (shd s) = None /\ closed (shd s) = true.
Proof. vm_compute. repeat split; reflexivity. Qed.
Example pipeline_example :
  let s := run_ops (init 2 (2 ^ 64) [ORecvQ; ORecvQ; ORecvQ] 0 [[OSend 1; OTrySend 2; ODropTx]])
                   [2; 2; 2; 0; 0; 0]%nat in
  c_rets (cons s) = [RRecv 1; RRecv 2; REos] /\ ub (shd s) = None.
Proof. vm_compute. repeat split; reflexivity. Qed.
