(* C20 -- proofs about Model/Spsc.v, part 2: from one producer to 1..n producer threads (push_lock) *)
From Coq Require Import ZArith List Bool Lia Znumtheory.
From RV Require Import Model.SpscSkel Model.Spsc Proofs.SpscProofs.
Import ListNotations.
Open Scope Z_scope.
Open Scope bool_scope.

(* ================================================================== 1..n producer threads *)
(* inside SpscRing::push / the locked part of a send: the only place where a producer touches the ring *)
Definition p_active (p : pth) : bool :=
  match p_pc p with
  | PPush _ _ | PNotify _ | PTryLock _ | PPop _ _ | PUnlock _ | PUnlockPush _ => true
  | _ => false end.
Definition is_opush (o : pop_) : bool := match o with OPush _ => true | _ => false end.
Definition p_noraw (p : pth) : bool :=
  negb (existsb is_opush (p_prog p)) && match p_pc p with PPush CRaw _ => false | _ => true end.
(* the bare ring (OPush, no lock at all) is single-producer by contract *)
Definition raw_ok (ps : list pth) : Prop := length ps = 1%nat \/ Forall (fun p => p_noraw p = true) ps.

(* the part of Inv1 that only concerns the producer itself *)
Record Lp (R : bool) (V0 : list val) (c : cth) (p : pth) : Prop := {
  l_mode : c_raw c = true -> p_sendish p = false;
  l_sent : Subseq (p_pushed p ++ p_pending p) V0;
  l_raw : R = true -> p_sendish p = false }.

Lemma Inv1_Lp R V h c p : Inv1 R V h c p -> Lp R V c p.
Proof. intros []. constructor; auto. intros HR. apply i_raw; assumption. Qed.

Lemma out_views p : p_active p = false ->
  wph_p p = WNone /\ rph_p p = RNone /\ p_locked p = false /\ p_inlock p = false /\
  p_knows_tail p = false /\ p_knows_head p = false /\ p_inpop p = false.
Proof.
  unfold p_active, wph_p, rph_p, p_locked, p_inlock, p_knows_tail, p_knows_head, p_inpop.
  destruct (p_pc p); try discriminate; intros _; repeat split; reflexivity.
Qed.

(* all producers outside the ring look the same to the ring invariant *)
Lemma Inv1_transfer R V V' h c p q :
  Inv1 R V h c p -> p_active p = false -> p_active q = false -> Lp R V' c q -> Inv1 R V' h c q.
Proof.
  intros [] Hp Hq [].
  destruct (out_views _ Hp) as (W1 & R1 & L1 & K1 & T1 & H1 & P1).
  destruct (out_views _ Hq) as (W2 & R2 & L2 & K2 & T2 & H2 & P2).
  constructor; unfold rph_cp in *; rewrite ?W2, ?R2, ?L2, ?K2, ?T2, ?H2 in *; rewrite ?W1, ?R1, ?L1, ?K1 in *;
    try assumption; try discriminate.
  intros HR. split; [auto|]. apply i_raw; assumption.
Qed.

Definition flags_only (a b : sh) : Prop := same_ring a b /\ lock a = lock b /\ plock a = plock b.

Lemma Inv1_frame R V h h' c p : flags_only h h' -> Inv1 R V h c p -> Inv1 R V h' c p.
Proof.
  intros (Hs & Hl & Hp) []. pose proof Hs as (E1 & E2 & E3 & E4 & E5 & E6 & E7 & E8).
  constructor; rewrite <- ?Hl, <- ?Hp, <- ?E4, <- ?E5; try assumption.
  - eapply RingInv_ext; eauto.
  - unfold taken_by in *. rewrite <- E8. assumption.
  - intros HR. destruct (i_raw HR). split; [assumption|]. rewrite <- E8. assumption.
Qed.

(* consumer steps never make the consumer "raw" *)
Lemma cstep_raw_mono h c h' c' : cstep h c = Some (h', c') -> c_raw c' = true -> c_raw c = true.
Proof.
  unfold cstep, await_step, waiting_step, c_raw. intros H.
  destruct c as [prog pc rt rh rp snap cl can rets]. cbn [c_pc c_prog c_rh c_rp c_snap c_cl c_can] in *.
  destruct pc; try match goal with m : poppc |- _ => destruct m end;
  repeat match type of H with
       | context [if ?b then _ else _] => destruct b eqn:?
       | context [match ?l with [] => _ | _ => _ end] => destruct l as [|[] ?]
       | context [let '(_, _) := ?x in _] => destruct x eqn:?
       end; try discriminate H; inv_step H; cbn; rewrite ?orb_false_r, ?orb_true_r; auto.
Qed.

Lemma Lp_cstep R V h c h' c' q : cstep h c = Some (h', c') -> Lp R V c q -> Lp R V c' q.
Proof. intros H []. constructor; auto. intros Hr. apply l_mode0. eapply cstep_raw_mono; eauto. Qed.

Lemma existsb_tl {A} (f : A -> bool) l : existsb f (tl l) = true -> existsb f l = true.
Proof. destruct l; cbn; [auto|intros ->; apply orb_true_r]. Qed.

(* a producer that is outside the ring while push_lock is taken stays outside and only touches flags *)
Lemma pstep_stays_out R V h c p h' p' :
  p_active p = false -> plock h = true -> p_noraw p = true -> Lp R V c p ->
  pstep h p = Some (h', p') ->
  p_active p' = false /\ flags_only h h' /\ Lp R V c p' /\ p_noraw p' = true /\
  pushed h' = pushed h /\ p_pushed p' = p_pushed p.
Proof.
  intros Ha Hl Hn [Lm Ls Lr] H.
  destruct p as [prog pc prt prh rv hd rets pp].
  unfold pstep in H. unfold p_active, p_noraw, p_sendish, p_pending in *.
  cbn [p_pc p_prog p_rt p_rh p_rv p_handles p_rets p_pushed] in *.
  destruct pc as [|k|k|cx m|cx|mm|mm m|mm|r| | | |]; try discriminate Ha.
  all: try (destruct k as [|[]]).
  all: repeat match type of H with
       | context [if ?b then _ else _] => destruct b eqn:?
       | context [match ?l with [] => _ | _ => _ end] => destruct l as [|[] ?]
       end; try discriminate H; try congruence.
  all: try (cbn in Hn; rewrite ?andb_false_r in Hn; discriminate Hn).
  all: inv_step H; unfold p_start, p_ret, p_at, p_set_handles, p_ret_closed, flags_only; cbn in *.
  all: repeat split; unfold p_sendish, p_pending in *; cbn in *; autorewrite with shf;
       rewrite ?orb_false_r, ?orb_true_r in *; try reflexivity; try assumption.
  all: try solve [intros Hx; first [specialize (Lm Hx) | specialize (Lr Hx)]; first [discriminate | assumption]].
  all: try solve [apply andb_true_iff in Hn as [Hn1 _]; rewrite Hn1; reflexivity].
  all: try solve [unfold notify_waiters; destruct (waiting h); reflexivity].
  all: try solve [eapply Subseq_trans; [|exact Ls]; apply Subseq_app; [apply Subseq_refl|];
                  first [apply Subseq_refl | apply sub_skip, Subseq_refl | apply op_vals_tl | apply sub_skip, op_vals_tl | apply Subseq_app_l]].
  all: try solve [apply andb_true_iff in Hn as [Hn1 _]; apply negb_true_iff in Hn1; rewrite andb_true_r; apply negb_true_iff;
                  destruct prog as [|o prog']; [reflexivity|]; cbn in *; apply orb_false_iff in Hn1 as [_ Hn2]; exact Hn2].
Qed.

(* ---- lists *)
Lemma nth_replace_eq {A} (l : list A) k x y : nth_error l k = Some y -> nth_error (replace k x l) k = Some x.
Proof. revert k. induction l as [|a l IH]; intros [|k] H; cbn in *; try discriminate; auto. Qed.
Lemma nth_replace_neq {A} (l : list A) k j x : j <> k -> nth_error (replace k x l) j = nth_error l j.
Proof.
  revert k j. induction l as [|a l IH]; intros k j N; [destruct k; reflexivity|].
  destruct k as [|k], j as [|j]; cbn; try reflexivity; try congruence. apply IH. congruence.
Qed.
Lemma replace_length {A} (l : list A) k x : length (replace k x l) = length l.
Proof. revert k. induction l as [|a l IH]; intros [|k]; cbn; auto. Qed.
Lemma map_replace {A B} (f : A -> B) l k x : map f (replace k x l) = replace k (f x) (map f l).
Proof. revert k. induction l as [|a l IH]; intros [|k]; cbn; try reflexivity. rewrite IH. reflexivity. Qed.
Lemma replace_same {A} (l : list A) k x : nth_error l k = Some x -> replace k x l = l.
Proof. revert k. induction l as [|a l IH]; intros [|k] H; cbn in *; try discriminate; [inversion H; reflexivity|]. rewrite IH; auto. Qed.
Lemma replace_replace {A} (l : list A) k x y : replace k x (replace k y l) = replace k x l.
Proof. revert k. induction l as [|a l IH]; intros [|k]; cbn; try reflexivity. rewrite IH. reflexivity. Qed.
Lemma Forall_replace {A} (P : A -> Prop) l k x : Forall P l -> P x -> Forall P (replace k x l).
Proof. intros H Hx. revert k. induction H; intros [|k]; cbn; constructor; auto. Qed.
Lemma Forall2_replace {A B} (P : A -> B -> Prop) l m k x y :
  Forall2 P l m -> nth_error m k = Some y -> P x y -> Forall2 P (replace k x l) m.
Proof.
  intros H. revert k. induction H; intros [|k] Hm Hx; cbn in *; try discriminate.
  - inversion Hm; subst. constructor; auto.
  - constructor; auto.
Qed.
Lemma Forall2_nth {A B} (P : A -> B -> Prop) l m k x y :
  Forall2 P l m -> nth_error l k = Some x -> nth_error m k = Some y -> P x y.
Proof.
  intros H. revert k. induction H; intros [|k] Hl Hm; cbn in *; try discriminate.
  - inversion Hl; inversion Hm; subst; auto.
  - eauto.
Qed.
Lemma Forall2_nth_l {A B} (P : A -> B -> Prop) l m k x :
  Forall2 P l m -> nth_error l k = Some x -> exists y, nth_error m k = Some y.
Proof.
  intros H. revert k. induction H; intros [|k] Hl; cbn in *; try discriminate; eauto.
Qed.
Lemma Forall2_len {A B} (P : A -> B -> Prop) l m : Forall2 P l m -> length l = length m.
Proof. induction 1; cbn; auto. Qed.
Lemma Forall2_impl {A B} (P Q : A -> B -> Prop) l m : (forall a b, P a b -> Q a b) -> Forall2 P l m -> Forall2 Q l m.
Proof. intros HI H. induction H; constructor; auto. Qed.

(* ---- the global log of pushes is an interleaving of the per-thread logs *)
Inductive Merge {A} : list (list A) -> list A -> Prop :=
| merge_nil : forall ls, Forall (fun l => l = []) ls -> Merge ls []
| merge_snoc : forall ls k lk x l,
    nth_error ls k = Some (lk ++ [x]) -> Merge (replace k lk ls) l -> Merge ls (l ++ [x]).

Fixpoint sumlen {A} (ls : list (list A)) : Z :=
  match ls with [] => 0 | l :: r => lenZ l + sumlen r end.

Lemma sumlen_replace {A} (ls : list (list A)) k a b :
  nth_error ls k = Some a -> sumlen (replace k b ls) = sumlen ls - lenZ a + lenZ b.
Proof.
  revert k. induction ls as [|l ls IH]; intros [|k] H; cbn in *; try discriminate.
  - inversion H; subst. lia.
  - rewrite (IH _ H). lia.
Qed.

Lemma merge_length {A} (ls : list (list A)) l : Merge ls l -> lenZ l = sumlen ls.
Proof.
  induction 1 as [ls H|ls k lk x l Hk HM IH].
  - induction H as [|a ls Ha _ IH]; cbn; [reflexivity|]. subst a. rewrite <- IH. reflexivity.
  - rewrite lenZ_app, IH, (sumlen_replace _ _ _ _ Hk), lenZ_app. unfold lenZ. cbn. lia.
Qed.

Lemma sumlen_le {A B} (P : A -> B -> Prop) (f : A -> list val) (g : B -> list val) l m :
  (forall a b, P a b -> lenZ (f a) <= lenZ (g b)) -> Forall2 P l m -> sumlen (map f l) <= sumlen (map g m).
Proof. intros HP H. induction H; cbn; [lia|]. specialize (HP _ _ H). lia. Qed.

(* ---- what steps do to the logs *)
Lemma rr_pushed_eq h w x h' v : ring_read h w x = (h', v) -> pushed h' = pushed h.
Proof. intros E. pose proof (rr_pushed h w x) as P. rewrite E in P. exact P. Qed.

Lemma cstep_pushed h c h' c' : cstep h c = Some (h', c') -> pushed h' = pushed h.
Proof.
  unfold cstep, await_step, waiting_step. intros H.
  destruct (c_pc c); try match goal with m : poppc |- _ => destruct m end;
  repeat match type of H with
       | context [if ?b then _ else _] => destruct b eqn:?
       | context [match ?l with [] => _ | _ => _ end] => destruct l as [|[] ?]
       | context [let '(_, _) := ?x in _] => destruct x eqn:?
       end; try discriminate H; inv_step H; cbn; autorewrite with shf; auto.
  all: eapply rr_pushed_eq; eauto.
Qed.

Lemma sstep_pushed h x h' x' : sstep h x = Some (h', x') -> pushed h' = pushed h.
Proof.
  unfold sstep. intros H.
  destruct (s_pc x); [destruct (s_todo x); [discriminate|]| |]; inv_step H; cbn; autorewrite with shf; auto.
Qed.

Lemma pstep_pushed h p h' p' : pstep h p = Some (h', p') ->
  (pushed h' = pushed h /\ p_pushed p' = p_pushed p) \/
  (exists v, pushed h' = pushed h ++ [v] /\ p_pushed p' = p_pushed p ++ [v]).
Proof.
  unfold pstep, push_full, push_done. intros H.
  destruct (p_pc p) as [|k|k|cx m|cx|mm|mm m|mm|r| | | |]; try destruct m; try destruct cx;
  repeat match type of H with
       | context [if ?b then _ else _] => destruct b eqn:?
       | context [match ?l with [] => _ | _ => _ end] => destruct l as [|[] ?]
       end; try discriminate H; inv_step H; cbn; autorewrite with shf;
  first [left; split; reflexivity | right; eexists; split; reflexivity].
Qed.

Lemma pstep_noraw h p h' p' : pstep h p = Some (h', p') -> p_noraw p = true -> p_noraw p' = true.
Proof.
  unfold pstep, push_full, push_done, p_noraw. intros H.
  destruct p as [prog pc prt prh rv hd rets pp]. cbn [p_pc p_prog p_rt p_rh p_rv p_handles p_rets p_pushed] in *.
  destruct pc as [|k|k|cx m|cx|mm|mm m|mm|r| | | |]; try destruct m; try destruct cx; try destruct k as [|[]];
  repeat match type of H with
       | context [if ?b then _ else _] => destruct b eqn:?
       | context [match ?l with [] => _ | _ => _ end] => destruct l as [|[] ?]
       end; try discriminate H; inv_step H; cbn; rewrite ?andb_true_r, ?andb_false_r; auto; try discriminate.
  all: intros Hn; apply negb_true_iff in Hn; apply negb_true_iff.
  all: destruct prog as [|o prog']; [reflexivity|]; cbn in *; apply orb_false_iff in Hn as [_ Hn2]; exact Hn2.
Qed.

Lemma active_noraw_inlock p : p_active p = true -> p_noraw p = true -> p_inlock p = true.
Proof.
  unfold p_active, p_noraw, p_inlock. destruct (p_pc p) as [|k|k|cx m|cx|mm|mm m|mm|r| | | |]; try discriminate; auto.
  destruct cx; auto. rewrite andb_false_r. discriminate.
Qed.

(* ---- the invariant for a list of producer threads *)
Definition InvN (R : bool) (Vs : list (list val)) (h : sh) (c : cth) (ps : list pth) : Prop :=
  Forall2 (fun p V => Lp R V c p) ps Vs /\ raw_ok ps /\
  Merge (map p_pushed ps) (pushed h) /\
  idxs_ok h (sumlen Vs) /\
  exists f pf Vf, nth_error ps f = Some pf /\ nth_error Vs f = Some Vf /\ Inv1 R Vf h c pf /\
                  forall k q, k <> f -> nth_error ps k = Some q -> p_active q = false.

Lemma Lp_len R V c p : Lp R V c p -> lenZ (p_pushed p) <= lenZ V.
Proof. intros [_ Hs _]. apply Subseq_length in Hs. rewrite app_length in Hs. unfold lenZ. lia. Qed.

Lemma InvN_tail R Vs h c ps : InvN R Vs h c ps -> tail h <= sumlen Vs.
Proof.
  intros (HF & _ & HM & _ & f & pf & Vf & _ & _ & I & _).
  destruct I as [Hr _ _ _ _ _ _ _ _ _ _]. rewrite <- (ri_pushed _ _ _ Hr), (merge_length _ _ HM).
  rewrite <- (map_id Vs) at 1. eapply sumlen_le; [|exact HF]. intros a b. cbn. apply Lp_len.
Qed.

(* ---- steps preserve InvN *)
Lemma InvN_cstep R Vs h c ps h' c' :
  InvN R Vs h c ps -> cstep h c = Some (h', c') -> InvN R Vs h' c' ps.
Proof.
  intros HN H. pose proof (InvN_tail _ _ _ _ _ HN) as Ht.
  destruct HN as (HF & Hraw & HM & Hidx & f & pf & Vf & Hf & HVf & I & Hout).
  split; [|split; [|split; [|split]]].
  - eapply Forall2_impl; [|exact HF]. intros a b. cbn. apply Lp_cstep with (1 := H).
  - assumption.
  - rewrite (cstep_pushed _ _ _ _ H). assumption.
  - eapply idxs_ok_static; [eapply cstep_static; eauto|assumption].
  - exists f, pf, Vf. split; [assumption|]. split; [assumption|]. split; [eapply cstep_inv; eauto|assumption].
Qed.

Lemma InvN_sstep R Vs h c ps x h' x' :
  InvN R Vs h c ps -> sstep h x = Some (h', x') -> InvN R Vs h' c ps.
Proof.
  intros (HF & Hraw & HM & Hidx & f & pf & Vf & Hf & HVf & I & Hout) H.
  split; [|split; [|split; [|split]]]; try assumption.
  - rewrite (sstep_pushed _ _ _ _ H). assumption.
  - eapply idxs_ok_static; [eapply sstep_static; eauto|assumption].
  - exists f, pf, Vf. split; [assumption|]. split; [assumption|]. split; [eapply sstep_inv; eauto|assumption].
Qed.

Lemma merge_step ps k p p' (l l' : list val) :
  nth_error ps k = Some p -> Merge (map p_pushed ps) l ->
  ((l' = l /\ p_pushed p' = p_pushed p) \/ (exists v, l' = l ++ [v] /\ p_pushed p' = p_pushed p ++ [v])) ->
  Merge (map p_pushed (replace k p' ps)) l'.
Proof.
  intros Hk HM [[-> E]|(v & -> & E)]; rewrite map_replace, E.
  - rewrite replace_same; [assumption|]. rewrite nth_error_map, Hk. reflexivity.
  - eapply merge_snoc.
    + apply nth_replace_eq with (y := p_pushed p). rewrite nth_error_map, Hk. reflexivity.
    + rewrite replace_replace, replace_same; [assumption|]. rewrite nth_error_map, Hk. reflexivity.
Qed.

Lemma raw_ok_replace ps k p p' : raw_ok ps -> nth_error ps k = Some p -> (p_noraw p = true -> p_noraw p' = true) -> raw_ok (replace k p' ps).
Proof.
  intros [Hl|Hf] Hk Hn; [left; rewrite replace_length; assumption|right].
  apply Forall_replace; [assumption|]. apply Hn. rewrite Forall_forall in Hf. apply Hf. eapply nth_error_In; eauto.
Qed.

Lemma raw_ok_two ps k f p : raw_ok ps -> k <> f -> nth_error ps k = Some p -> (exists q, nth_error ps f = Some q) ->
  Forall (fun p => p_noraw p = true) ps.
Proof.
  intros [Hl|Hf] N Hk (q & Hq); [exfalso|assumption].
  assert (k < length ps)%nat by (apply nth_error_Some; congruence).
  assert (f < length ps)%nat by (apply nth_error_Some; congruence). lia.
Qed.

Lemma InvN_pstep R Vs h c ps k p h' p' :
  InvN R Vs h c ps -> nth_error ps k = Some p -> pstep h p = Some (h', p') ->
  InvN R Vs h' c (replace k p' ps).
Proof.
  intros HN Hk H. pose proof (InvN_tail _ _ _ _ _ HN) as Ht.
  destruct HN as (HF & Hraw & HM & Hidx & f & pf & Vf & Hf & HVf & I & Hout).
  destruct (Forall2_nth_l _ _ _ _ _ HF Hk) as [Vk HVk].
  pose proof (Forall2_nth _ _ _ _ _ _ HF Hk HVk) as Lk. cbn in Lk.
  assert (Hidx' : idxs_ok h' (sumlen Vs)) by (eapply idxs_ok_static; [eapply pstep_static; eauto|assumption]).
  assert (HM' : Merge (map p_pushed (replace k p' ps)) (pushed h')) by (eapply merge_step; eauto using pstep_pushed).
  assert (Hraw' : raw_ok (replace k p' ps)) by (eapply raw_ok_replace; eauto using pstep_noraw).
  destruct (Nat.eq_dec k f) as [->|Nkf].
  - (* the focused producer moves *)
    rewrite Hf in Hk. inv_step Hk. rewrite HVf in HVk. inv_step HVk.
    assert (I' : Inv1 R Vk h' c p') by (eapply pstep_inv; eauto).
    split; [|split; [|split; [|split]]]; try assumption.
    + eapply Forall2_replace; eauto. cbn. eapply Inv1_Lp; eauto.
    + exists f, p', Vk. split; [eapply nth_replace_eq; eauto|]. split; [assumption|]. split; [assumption|].
      intros j q Nj Hj. rewrite nth_replace_neq in Hj by assumption. eauto.
  - destruct (p_active pf) eqn:Haf.
    + (* somebody else is inside the ring: this producer can only touch flags *)
      pose proof (raw_ok_two _ _ _ _ Hraw Nkf Hk (ex_intro _ pf Hf)) as Hnr.
      rewrite Forall_forall in Hnr.
      assert (Hpl : plock h = true).
      { destruct I as [_ _ _ Ipl _ _ _ _ _ _ _]. rewrite Ipl. apply active_noraw_inlock; [assumption|].
        apply Hnr. eapply nth_error_In; eauto. }
      destruct (pstep_stays_out R Vk h c p h' p' (Hout _ _ Nkf Hk) Hpl (Hnr _ (nth_error_In _ _ Hk)) Lk H)
        as (Ha' & Hfl & Lk' & _ & _ & _).
      split; [|split; [|split; [|split]]]; try assumption.
      * eapply Forall2_replace; eauto.
      * exists f, pf, Vf. split; [rewrite nth_replace_neq by congruence; assumption|]. split; [assumption|].
        split; [eapply Inv1_frame; eauto|].
        intros j q Nj Hj. destruct (Nat.eq_dec j k) as [->|Njk].
        -- rewrite (nth_replace_eq _ _ _ _ Hk) in Hj. inv_step Hj. assumption.
        -- rewrite nth_replace_neq in Hj by assumption. eauto.
    + (* nobody is inside the ring: hand the focus to the producer that moves *)
      assert (Ik : Inv1 R Vk h c p) by (eapply Inv1_transfer; eauto).
      assert (I' : Inv1 R Vk h' c p') by (eapply pstep_inv; eauto).
      split; [|split; [|split; [|split]]]; try assumption.
      * eapply Forall2_replace; eauto. cbn. eapply Inv1_Lp; eauto.
      * exists k, p', Vk. split; [eapply nth_replace_eq; eauto|]. split; [assumption|]. split; [assumption|].
        intros j q Nj Hj. rewrite nth_replace_neq in Hj by assumption.
        destruct (Nat.eq_dec j f) as [->|Njf]; [rewrite Hf in Hj; inv_step Hj; assumption|eauto].
Qed.

(* ---- global state *)
Definition InvG (R : bool) (Vs : list (list val)) (s : st) : Prop := InvN R Vs (shd s) (cons s) (prods s).

Lemma step_invG R Vs s t s' : InvG R Vs s -> step s t = Some s' -> InvG R Vs s'.
Proof.
  unfold InvG, step. intros HN H. destruct t as [|[|k]].
  - destruct (cstep (shd s) (cons s)) as [[h c]|] eqn:E; [|discriminate]. inv_step H. cbn. eapply InvN_cstep; eauto.
  - destruct (sstep (shd s) (stp s)) as [[h x]|] eqn:E; [|discriminate]. inv_step H. cbn. eapply InvN_sstep; eauto.
  - destruct (nth_error (prods s) k) as [p|] eqn:Hk; [|discriminate].
    destruct (pstep (shd s) p) as [[h p']|] eqn:E; [|discriminate]. inv_step H. cbn. eapply InvN_pstep; eauto.
Qed.

Lemma run_invG R Vs sched : forall s, InvG R Vs s -> InvG R Vs (run s sched).
Proof.
  induction sched as [|t r IH]; intros s I; cbn; [assumption|]. apply IH.
  unfold step'. destruct (step s t) eqn:E; [eapply step_invG; eauto|assumption].
Qed.

Definition no_send (prog : list pop_) : bool := negb (existsb is_osend prog).
Definition no_push (prog : list pop_) : bool := negb (existsb is_opush prog).

(* capacity fits the index word; the index arithmetic is safe (capacity divides the word modulus, or
   fewer samples than the modulus are ever pushed); the bare-ring pop is not mixed with drop-oldest
   sends; the bare-ring push (no lock at all) is used by at most one thread *)
Definition cfgN_ok (capacity w : Z) (cprog : list cop) (pprogs : list (list pop_)) : Prop :=
  1 <= capacity < w /\
  ((capacity | w) \/ sumlen (map op_vals pprogs) < w) /\
  pprogs <> [] /\
  (existsb is_opop cprog = true -> forallb no_send pprogs = true) /\
  (length pprogs = 1%nat \/ forallb no_push pprogs = true).

Lemma Lp_init R cprog prog :
  (existsb is_opop cprog = true -> no_send prog = true) -> (R = true -> no_send prog = true) ->
  Lp R (op_vals prog) (c0 cprog) (p0 prog).
Proof.
  intros Hm Hr. constructor; unfold c_raw, p_sendish, p_pending, no_send in *; cbn; rewrite ?orb_false_r.
  - intros Hx. apply negb_true_iff. auto.
  - apply Subseq_refl.
  - intros Hx. apply negb_true_iff. auto.
Qed.

Lemma Lp_init_all R cprog pprogs :
  (forall pr, In pr pprogs -> (existsb is_opop cprog = true -> no_send pr = true) /\ (R = true -> no_send pr = true)) ->
  Forall2 (fun p V => Lp R V (c0 cprog) p) (map p0 pprogs) (map op_vals pprogs).
Proof.
  induction pprogs as [|pr l IH]; intros Hall; cbn; constructor.
  - destruct (Hall pr (or_introl eq_refl)). apply Lp_init; assumption.
  - apply IH. intros pr' Hin. apply Hall. right. exact Hin.
Qed.

Lemma init_invG capacity w cprog n pprogs :
  cfgN_ok capacity w cprog pprogs ->
  InvG (forallb no_send pprogs) (map op_vals pprogs) (init capacity w cprog n pprogs).
Proof.
  intros (Hc & Hw & Hne & Hm & Hraw). unfold InvG, init. cbn [shd cons prods].
  assert (HLp : Forall2 (fun p V => Lp (forallb no_send pprogs) V (c0 cprog) p) (map p0 pprogs) (map op_vals pprogs)).
  { assert (Hall : forall pr, In pr pprogs -> (existsb is_opop cprog = true -> no_send pr = true) /\
                                              (forallb no_send pprogs = true -> no_send pr = true)).
    { intros pr Hin. split; intros Hx; [specialize (Hm Hx)|]; eapply forallb_forall; eauto. }
    apply Lp_init_all. exact Hall. }
  split; [exact HLp|]. split; [|split; [|split]].
  - destruct Hraw as [Hl|Hf]; [left; rewrite map_length; assumption|right].
    apply Forall_forall. intros p Hin. apply in_map_iff in Hin as (pr & <- & Hin).
    unfold p_noraw, p0. cbn. rewrite andb_true_r. eapply forallb_forall in Hf; eauto.
  - cbn. apply merge_nil. apply Forall_forall. intros l Hin. apply in_map_iff in Hin as (p & <- & Hin).
    apply in_map_iff in Hin as (pr & <- & _). reflexivity.
  - intros k Hk. destruct Hw as [Hd|Hl].
    + apply idx_ok_divide; cbn; [lia|lia|assumption].
    + apply idx_ok_small. cbn. lia.
  - destruct pprogs as [|pr l]; [congruence|]. exists 0%nat, (p0 pr), (op_vals pr). cbn [map nth_error].
    split; [reflexivity|]. split; [reflexivity|]. split.
    + inversion HLp as [|? ? ? ? HL _]; subst. destruct HL as [Lm Ls Lr].
      constructor; cbn; try reflexivity; try discriminate; try assumption.
      * apply ring_init. assumption.
      * intros HR. split; [auto|constructor].
    + intros k q Nk Hq. destruct k as [|k]; [congruence|]. cbn in Hq.
      apply nth_error_In in Hq. apply in_map_iff in Hq as (pr' & <- & _). reflexivity.
Qed.

Lemma reach_invG capacity w cprog n pprogs sched :
  cfgN_ok capacity w cprog pprogs ->
  InvG (forallb no_send pprogs) (map op_vals pprogs) (run (init capacity w cprog n pprogs) sched).
Proof. intros H. apply run_invG, init_invG, H. Qed.

(* ================================================================== theorems, 1..n producer threads *)
Definition memZ (v : val) (l : list val) : bool := existsb (Z.eqb v) l.
Lemma memZ_In v l : memZ v l = true <-> In v l.
Proof. unfold memZ. rewrite existsb_exists. split; [intros (x & Hx & E); apply Z.eqb_eq in E; subst; assumption|intros H; exists v; split; [assumption|apply Z.eqb_refl]]. Qed.

Lemma merge_filter (f : val -> bool) ls l k :
  Merge ls l ->
  (forall j lj, nth_error ls j = Some lj -> j <> k -> forall v, In v lj -> f v = false) ->
  (forall lk, nth_error ls k = Some lk -> forall v, In v lk -> f v = true) ->
  filter f l = nth k ls [].
Proof.
  intros HM. revert k. induction HM as [ls H|ls k0 lk x l Hk0 HM IH]; intros k Hoth Hk.
  - cbn. destruct (nth_error ls k) as [lk|] eqn:E.
    + rewrite (nth_error_nth _ _ _ E). rewrite Forall_forall in H. symmetry. apply H. eapply nth_error_In; eauto.
    + rewrite nth_overflow; [reflexivity|]. apply nth_error_None. assumption.
  - rewrite filter_app. cbn [filter].
    assert (IH' : filter f l = nth k (replace k0 lk ls) []).
    { apply IH.
      - intros j lj Hj Nj v Hv. destruct (Nat.eq_dec j k0) as [->|N0].
        + rewrite (nth_replace_eq _ _ _ _ Hk0) in Hj. inv_step Hj. eapply Hoth; eauto. apply in_or_app. left. assumption.
        + rewrite nth_replace_neq in Hj by assumption. eapply Hoth; eauto.
      - intros lk' Hk' v Hv. destruct (Nat.eq_dec k k0) as [->|N0].
        + rewrite (nth_replace_eq _ _ _ _ Hk0) in Hk'. inv_step Hk'. eapply Hk; eauto. apply in_or_app. left. assumption.
        + rewrite nth_replace_neq in Hk' by assumption. eapply Hk; eauto. }
    rewrite IH'. destruct (Nat.eq_dec k k0) as [->|N0].
    + rewrite (Hk _ Hk0 x) by (apply in_or_app; right; left; reflexivity).
      rewrite (nth_error_nth _ _ _ Hk0), (nth_error_nth _ _ _ (nth_replace_eq _ _ _ _ Hk0)). reflexivity.
    + rewrite (Hoth _ _ Hk0 (not_eq_sym N0) x) by (apply in_or_app; right; left; reflexivity).
      rewrite app_nil_r.
      destruct (nth_error ls k) as [lk'|] eqn:E.
      * rewrite (nth_error_nth _ _ _ E). apply nth_error_nth. rewrite nth_replace_neq by assumption. assumption.
      * rewrite !nth_overflow; try reflexivity; [|rewrite replace_length]; apply nth_error_None; assumption.
Qed.

Lemma Subseq_filter_mono {A} (f : A -> bool) a b : Subseq a b -> Subseq (filter f a) (filter f b).
Proof. induction 1 as [l|x a b H IH|x a b H IH]; cbn; [constructor|destruct (f x); [constructor|]; assumption|destruct (f x); [apply sub_skip|]; assumption]. Qed.

Section NProducers.
  Variables (capacity w : Z) (cprog : list cop) (nstop : nat) (pprogs : list (list pop_)) (sched : list nat).
  Hypothesis Hcfg : cfgN_ok capacity w cprog pprogs.
  Let s := run (init capacity w cprog nstop pprogs) sched.

  Lemma nprod_focus :
    exists f pf Vf, nth_error (prods s) f = Some pf /\ nth_error (map op_vals pprogs) f = Some Vf /\
                    Inv1 (forallb no_send pprogs) Vf (shd s) (cons s) pf /\
                    forall k q, k <> f -> nth_error (prods s) k = Some q -> p_active q = false.
  Proof. destruct (reach_invG _ _ _ nstop _ sched Hcfg) as (_ & _ & _ & _ & H). exact H. Qed.

  Lemma nprod_no_ub : ub (shd s) = None.
  Proof. destruct nprod_focus as (f & pf & Vf & _ & _ & [Hr _ _ _ _ _ _ _ _ _ _] & _). exact (ri_ub _ _ _ Hr). Qed.

  (* exactly one producer can be inside the ring; the ring invariant holds with its phase *)
  Lemma nprod_ring_inv :
    exists f pf, nth_error (prods s) f = Some pf /\ RingInv (shd s) (wph_p pf) (rph_cp (cons s) pf) /\
                 forall k q, k <> f -> nth_error (prods s) k = Some q -> p_active q = false.
  Proof. destruct nprod_focus as (f & pf & Vf & Hf & _ & [Hr _ _ _ _ _ _ _ _ _ _] & Ho). eauto. Qed.

  Lemma nprod_taken_prefix : exists n, map snd (taken (shd s)) = firstn n (pushed (shd s)).
  Proof. destruct nprod_ring_inv as (f & pf & _ & Hr & _). eexists. exact (ri_taken _ _ _ Hr). Qed.

  Lemma nprod_received_taken : Subseq (received s) (map snd (taken (shd s))).
  Proof.
    destruct nprod_focus as (f & pf & Vf & _ & _ & [_ _ _ _ _ _ _ _ Hrc _ _] & _).
    unfold received, s in *. apply Subseq_trans with (taken_by true (shd (run (init capacity w cprog nstop pprogs) sched))).
    - rewrite Hrc. apply Subseq_app_r.
    - unfold taken_by. apply Subseq_map, Subseq_filter.
  Qed.

  (* what the consumer received is a subsequence of the global push order *)
  Lemma nprod_received_pushed : Subseq (received s) (pushed (shd s)).
  Proof.
    destruct nprod_taken_prefix as [n Hn].
    eapply Subseq_trans; [apply nprod_received_taken|]. rewrite Hn. apply Subseq_firstn.
  Qed.

  (* the global push order is an interleaving of the producers' own push orders, and each producer
     pushed a subsequence of the samples its program sends, in program order *)
  Lemma nprod_pushed_merge : Merge (map p_pushed (prods s)) (pushed (shd s)).
  Proof. destruct (reach_invG _ _ _ nstop _ sched Hcfg) as (_ & _ & H & _). exact H. Qed.

  Lemma nprod_pushed_sent k pk prog :
    nth_error (prods s) k = Some pk -> nth_error pprogs k = Some prog -> Subseq (p_pushed pk) (op_vals prog).
  Proof.
    intros Hk Hp. destruct (reach_invG _ _ _ nstop _ sched Hcfg) as (HF & _).
    assert (HV : nth_error (map op_vals pprogs) k = Some (op_vals prog)) by (rewrite nth_error_map, Hp; reflexivity).
    pose proof (Forall2_nth _ _ _ _ _ _ HF Hk HV) as [_ Hs _]. cbn in Hs.
    eapply Subseq_trans; [apply Subseq_app_r|exact Hs].
  Qed.

  Lemma nprod_length : length (prods s) = length pprogs.
  Proof.
    destruct (reach_invG _ _ _ nstop _ sched Hcfg) as (HF & _).
    apply Forall2_len in HF. rewrite map_length in HF. exact HF.
  Qed.

  (* samples from one producer are received in the order that producer sent them, none twice --
     whatever the other producers do; the producers' sample sets are assumed pairwise disjoint so
     that "from producer k" can be read off the value *)
  Lemma nprod_per_producer_order k prog :
    (forall i j pi pj v, i <> j -> nth_error pprogs i = Some pi -> nth_error pprogs j = Some pj ->
                         In v (op_vals pi) -> In v (op_vals pj) -> False) ->
    nth_error pprogs k = Some prog ->
    Subseq (filter (fun v => memZ v (op_vals prog)) (received s)) (op_vals prog).
  Proof.
    intros Hdisj Hp.
    assert (Hkl : (k < length (prods s))%nat) by (rewrite nprod_length; apply nth_error_Some; congruence).
    destruct (nth_error (prods s) k) as [pk|] eqn:Hk; [|apply nth_error_None in Hk; lia].
    eapply Subseq_trans; [apply Subseq_filter_mono, nprod_received_pushed|].
    rewrite (merge_filter _ _ _ k nprod_pushed_merge).
    - rewrite (nth_error_nth _ _ _ (eq_trans (nth_error_map _ _ _) (f_equal (option_map p_pushed) Hk))).
      eapply nprod_pushed_sent; eauto.
    - intros j lj Hj Nj v Hv. rewrite nth_error_map in Hj.
      destruct (nth_error (prods s) j) as [pj|] eqn:Hpj; [|discriminate]. cbn in Hj. inv_step Hj.
      assert (Hjl : (j < length pprogs)%nat) by (rewrite <- nprod_length; apply nth_error_Some; congruence).
      destruct (nth_error pprogs j) as [prj|] eqn:Hprj; [|apply nth_error_None in Hprj; lia].
      destruct (memZ v (op_vals prog)) eqn:E; [exfalso|reflexivity]. apply memZ_In in E.
      eapply (Hdisj j k); eauto. eapply Subseq_In; [eapply nprod_pushed_sent; eauto|assumption].
    - intros lk Hlk v Hv. rewrite nth_error_map, Hk in Hlk. cbn in Hlk. inv_step Hlk.
      apply memZ_In. eapply Subseq_In; [eapply nprod_pushed_sent; eauto|assumption].
  Qed.

  (* everything received was sent by somebody *)
  Lemma nprod_received_was_sent v : In v (received s) -> exists k prog, nth_error pprogs k = Some prog /\ In v (op_vals prog).
  Proof.
    intros Hin. pose proof (Subseq_In _ _ _ nprod_received_pushed Hin) as Hp.
    pose proof nprod_pushed_merge as HM.
    assert (Hex : exists k lk, nth_error (map p_pushed (prods s)) k = Some lk /\ In v lk).
    { clear Hin. induction HM as [ls H|ls k0 lk x l Hk0 HM IH]; [contradiction|].
      apply in_app_or in Hp as [Hp|[<-|[]]].
      - destruct (IH Hp) as (k & lk' & Hk & Hv). destruct (Nat.eq_dec k k0) as [->|N].
        + rewrite (nth_replace_eq _ _ _ _ Hk0) in Hk. inv_step Hk. exists k0, (lk' ++ [x]). split; [assumption|apply in_or_app; left; assumption].
        + rewrite nth_replace_neq in Hk by assumption. eauto.
      - exists k0, (lk ++ [x]). split; [assumption|apply in_or_app; right; left; reflexivity]. }
    destruct Hex as (k & lk & Hk & Hv). rewrite nth_error_map in Hk.
    destruct (nth_error (prods s) k) as [pk|] eqn:Hpk; [|discriminate]. cbn in Hk. inv_step Hk.
    assert (Hkl : (k < length pprogs)%nat) by (rewrite <- nprod_length; apply nth_error_Some; congruence).
    destruct (nth_error pprogs k) as [prog|] eqn:Hprog; [|apply nth_error_None in Hprog; lia].
    exists k, prog. split; [exact Hprog|]. eapply Subseq_In; [eapply nprod_pushed_sent; eauto|assumption].
  Qed.

  (* bare ring (no drop-oldest anywhere): the popped sequence is a PREFIX of the pushed sequence *)
  Lemma nprod_received_prefix :
    forallb no_send pprogs = true -> received s = firstn (length (received s)) (pushed (shd s)).
  Proof.
    intros Hraw.
    destruct nprod_focus as (f & pf & Vf & _ & _ & [Hr _ _ _ _ _ _ _ Hrc _ Hrw] & _). unfold received, s in *.
    destruct (Hrw Hraw) as [_ Hall].
    assert (Htb : taken_by true (shd (run (init capacity w cprog nstop pprogs) sched)) =
                  map snd (taken (shd (run (init capacity w cprog nstop pprogs) sched)))).
    { unfold taken_by. f_equal. apply filter_all_true. exact Hall. }
    rewrite Htb, (ri_taken _ _ _ Hr) in Hrc.
    symmetry in Hrc. apply app_prefix_firstn in Hrc. exact Hrc.
  Qed.

  (* push answers Err(full) only when the ring is full at the instant it loads `head` *)
  Lemma nprod_full_only_when_full k p c :
    nth_error (prods s) k = Some p -> p_pc p = PPush c PuLoadHead ->
    is_full (shd s) (p_rt p) (head (shd s)) = true ->
    tail (shd s) - head (shd s) = cap (shd s).
  Proof.
    intros Hk Hpc Hfull.
    destruct nprod_focus as (f & pf & Vf & Hf & _ & [Hr _ _ _ _ Hrt _ _ _ _ _] & Ho).
    assert (Hact : p_active p = true) by (unfold p_active; rewrite Hpc; reflexivity).
    destruct (Nat.eq_dec k f) as [->|N]; [|rewrite (Ho _ _ N Hk) in Hact; discriminate].
    rewrite Hf in Hk. inv_step Hk.
    unfold wph_p, p_knows_tail in *. rewrite Hpc in *. rewrite (Hrt eq_refl) in Hfull.
    eapply ring_full_is_full; eauto.
  Qed.

  (* pop answers None only when the ring is empty at the instant it loads `tail` *)
  Lemma nprod_none_only_when_empty m :
    c_pc (cons s) = m -> (m = CPopRaw PoLoadTail \/ m = CRvPop PoLoadTail \/ m = CQPop PoLoadTail) ->
    is_mt (shd s) (c_rh (cons s)) (tail (shd s)) = true ->
    head (shd s) = tail (shd s).
  Proof.
    intros Hpc Hm He.
    destruct nprod_focus as (f & pf & Vf & _ & _ & [Hr _ _ _ _ _ _ Hrh _ _ _] & _).
    unfold rph_cp, c_inpop, rph_c, c_knows_head in *.
    destruct Hm as [Hm|[Hm|Hm]]; subst m; rewrite Hm in *; cbn in *; rewrite (Hrh eq_refl) in He;
      eapply ring_empty_is_empty; eauto.
  Qed.

  Lemma nprod_quiescent_ring : quiescent s = true -> RingInv (shd s) WNone RNone /\ idxs_ok (shd s) (tail (shd s)).
  Proof.
    intros Hq. pose proof (reach_invG _ _ _ nstop _ sched Hcfg) as HN. fold s in HN.
    pose proof (InvN_tail _ _ _ _ _ HN) as Ht.
    destruct HN as (_ & _ & _ & Hidx & f & pf & Vf & Hf & _ & [Hr _ _ _ _ _ _ _ _ _ _] & _).
    unfold quiescent in Hq. apply andb_true_iff in Hq as [Hq Hpi]. apply andb_true_iff in Hq as [Hci _].
    rewrite forallb_forall in Hpi. specialize (Hpi pf (nth_error_In _ _ Hf)).
    unfold c_idle in Hci. unfold p_idle in Hpi. unfold wph_p, rph_cp, c_inpop, rph_p in Hr.
    destruct (c_pc (cons s)); try discriminate. destruct (p_pc pf); try discriminate.
    split; [exact Hr|]. intros k Hk. apply Hidx. lia.
  Qed.

  (* with no operation in flight: slot i holds a value  <=>  i = k mod capacity for some head <= k < tail,
     and then it holds the k-th pushed value *)
  Lemma nprod_slots_iff : quiescent s = true -> forall i, 0 <= i < cap (shd s) ->
    (slots (shd s) i <> None <-> exists k, head (shd s) <= k < tail (shd s) /\ k mod cap (shd s) = i) /\
    (forall k, head (shd s) <= k < tail (shd s) -> slots (shd s) (k mod cap (shd s)) = nthZ (pushed (shd s)) k).
  Proof.
    intros Hq i Hi. destruct (nprod_quiescent_ring Hq) as [[Rc Rh0 Rht Rlen Rroom Rav Rp Rtk Rf Re Ru] _].
    cbn [rd wr] in *. unfold pushed_ext in Rf. rewrite app_nil_r in Rf. split; [split|].
    - intros Hne. destruct (Z_le_gt_dec (tail (shd s)) (head (shd s))) as [Hle|Hgt].
      + exfalso. apply Hne. apply Re; [assumption|]. intros k Hk. lia.
      + set (k := head (shd s) + (i - head (shd s)) mod cap (shd s)).
        assert (Hk0 : 0 <= (i - head (shd s)) mod cap (shd s) < cap (shd s)) by (apply Z.mod_pos_bound; lia).
        assert (Hkm : k mod cap (shd s) = i).
        { unfold k. rewrite Zplus_mod_idemp_r. replace (head (shd s) + (i - head (shd s))) with i by lia.
          apply Z.mod_small. assumption. }
        destruct (Z_lt_ge_dec k (tail (shd s))) as [Hin|Hout]; [exists k; split; [lia|assumption]|].
        exfalso. apply Hne. apply Re; [assumption|]. intros k' Hk' E.
        assert (k' mod cap (shd s) = k mod cap (shd s)) by congruence.
        destruct (Z.eq_dec k' k) as [->|Nk]; [lia|].
        assert (0 < k - k' < cap (shd s)) by lia.
        eapply mod_neq; eauto.
    - intros (k & Hk & E) Hn. rewrite <- E, Rf in Hn by lia.
      destruct (nthZ_some (pushed (shd s)) k) as [v Hv]; [lia|]. congruence.
    - intros k Hk. apply Rf. lia.
  Qed.

  (* drop balance: when the last handle goes away the ring's Drop releases exactly the values
     that were pushed and never taken, each once, and raises no UB; nothing stays in a slot *)
  Lemma nprod_drop_balance : quiescent s = true ->
    exists h' d, ring_drop (shd s) = (h', d) /\ ub h' = None /\
                 (forall i, 0 <= i < cap (shd s) -> slots h' i = None) /\
                 pushed (shd s) = map snd (taken (shd s)) ++ d.
  Proof.
    intros Hq. destruct (nprod_quiescent_ring Hq) as [Hr Hi].
    destruct (ring_drop_ok _ Hr Hi) as (h' & E & Hu & Hn & Hb). eauto 10.
  Qed.
End NProducers.

(* the two sends of the old F22 witness, now from two threads: covered by the theorems *)
Example two_threads_ok sched :
  ub (shd (run (init 2 (2 ^ 64) [ORecv; ORecv; ORecv] 0 [[OSend 10]; [OSend 20]]) sched)) = None.
Proof.
  apply nprod_no_ub. split; [|split; [|split; [|split]]].
  - change (2 ^ 64) with 18446744073709551616. lia.
  - left. exists (2 ^ 63). reflexivity.
  - discriminate.
  - cbn. discriminate.
  - right. reflexivity.
Qed.

(* ================================================================== index arithmetic at the usize wrap *)
(* `idx = tail % capacity` on a wrapping counter: with a capacity that does not divide the word
   modulus the slot sequence jumps at the wrap.  Toy word of 2 bits (modulus 4), capacity 3, seven
   pushes: the fifth push lands on a slot that is still occupied.  For the real 2^64 modulus this
   needs 2^64 pushes; the theorems assume `(capacity | 2^64) \/ pushes < 2^64` (cfg_ok). *)
Definition wrap_cfg : st :=
  init 3 4 [OPop; OPop; OPop; OPop; OPop; OPop] 0 [[OPush 1; OPush 2; OPush 3; OPush 4; OPush 5; OPush 6; OPush 7]].
Lemma wrap_nondivisible_witness :
  ub (shd (run_ops wrap_cfg [2;2;2;0;0;2;2]%nat)) = Some UbOverwrite.
Proof. vm_compute. reflexivity. Qed.

