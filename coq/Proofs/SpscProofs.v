(* C20 -- proofs about Model/Spsc.v *)
From Coq Require Import ZArith List Bool Lia Znumtheory.
From RV Require Import Model.SpscSkel Model.Spsc.
Import ListNotations.
Open Scope Z_scope.
Open Scope bool_scope.

(* ================================================================== arithmetic *)
Lemma mod_neq c a b : 0 < a - b < c -> a mod c <> b mod c.
Proof.
  intros H E.
  assert (Hc : 0 < c) by lia.
  assert (H0 : (a - b) mod c = 0).
  { rewrite Zminus_mod, E, Z.sub_diag. apply Z.mod_0_l. lia. }
  rewrite Z.mod_small in H0 by lia. lia.
Qed.

Lemma mod_eq_small w a b : 0 <= b - a < w -> a mod w = b mod w -> a = b.
Proof.
  intros H E. destruct (Z.eq_dec a b) as [|N]; [assumption|].
  exfalso. apply (mod_neq w b a); [lia|congruence].
Qed.

(* storing true counters and wrapping at use = storing wrapped counters *)
Lemma wrap_add1 w a : 0 < w -> (a mod w + 1) mod w = (a + 1) mod w.
Proof. intros H. rewrite Zplus_mod_idemp_l. reflexivity. Qed.
Lemma wrap_sub w a b : 0 < w -> (a mod w - b mod w) mod w = (a - b) mod w.
Proof. intros H. rewrite <- Zminus_mod. reflexivity. Qed.

Definition idx_ok (s : sh) (k : Z) : Prop := slot_idx s k = k mod cap s.
Definition idxs_ok (s : sh) (n : Z) : Prop := forall k, 0 <= k <= n -> idx_ok s k.

Lemma idx_ok_small s k : 0 <= k < wmod s -> idx_ok s k.
Proof. intros H. unfold idx_ok, slot_idx, wrapW. rewrite (Z.mod_small k) by lia. reflexivity. Qed.
Lemma idx_ok_divide s k : 0 < cap s -> 0 < wmod s -> (cap s | wmod s) -> idx_ok s k.
Proof. intros Hc Hw Hd. unfold idx_ok, slot_idx, wrapW. symmetry. apply Zmod_div_mod; assumption. Qed.

(* ================================================================== lists *)
Definition lenZ {A} (l : list A) : Z := Z.of_nat (length l).
Definition nthZ {A} (l : list A) (k : Z) : option A := nth_error l (Z.to_nat k).

Lemma lenZ_app {A} (a b : list A) : lenZ (a ++ b) = lenZ a + lenZ b.
Proof. unfold lenZ. rewrite app_length. lia. Qed.
Lemma nthZ_app_l {A} (a b : list A) k : 0 <= k < lenZ a -> nthZ (a ++ b) k = nthZ a k.
Proof. unfold nthZ, lenZ. intros H. apply nth_error_app1. lia. Qed.
Lemma nthZ_app_len {A} (a : list A) x k : k = lenZ a -> nthZ (a ++ [x]) k = Some x.
Proof.
  unfold nthZ, lenZ. intros ->. rewrite Nat2Z.id, nth_error_app2 by lia.
  rewrite Nat.sub_diag. reflexivity.
Qed.
Lemma nthZ_some {A} (a : list A) k : 0 <= k < lenZ a -> exists x, nthZ a k = Some x.
Proof.
  unfold nthZ, lenZ. intros H. destruct (nth_error a (Z.to_nat k)) eqn:E; [eauto|].
  apply nth_error_None in E. lia.
Qed.
Lemma firstn_succ {A} (l : list A) n x : nth_error l n = Some x -> firstn (S n) l = firstn n l ++ [x].
Proof.
  revert n. induction l as [|y l IH]; intros [|n] H; cbn in *; try discriminate.
  - inversion H. reflexivity.
  - rewrite (IH n H). reflexivity.
Qed.
Lemma firstnZ_succ {A} (l : list A) k x :
  0 <= k -> nthZ l k = Some x -> firstn (Z.to_nat (k + 1)) l = firstn (Z.to_nat k) l ++ [x].
Proof.
  intros Hk H. replace (Z.to_nat (k + 1)) with (S (Z.to_nat k)) by lia. apply firstn_succ. exact H.
Qed.
Lemma firstn_app_le {A} (a b : list A) n : (n <= length a)%nat -> firstn n (a ++ b) = firstn n a.
Proof.
  intros H. rewrite firstn_app. replace (n - length a)%nat with O by lia. cbn. apply app_nil_r.
Qed.

(* order-preserving embedding: every element of a is an element of b, none used twice, same order *)
Inductive Subseq {A} : list A -> list A -> Prop :=
| sub_nil : forall l, Subseq [] l
| sub_take : forall x a b, Subseq a b -> Subseq (x :: a) (x :: b)
| sub_skip : forall x a b, Subseq a b -> Subseq a (x :: b).

Lemma Subseq_refl {A} (l : list A) : Subseq l l.
Proof. induction l; constructor; assumption. Qed.
Lemma Subseq_trans {A} (a b c : list A) : Subseq a b -> Subseq b c -> Subseq a c.
Proof.
  intros H1 H2. revert a H1. induction H2 as [l|x b c H2 IH|x b c H2 IH]; intros a H1.
  - inversion H1. constructor.
  - inversion H1; subst; [constructor|apply sub_take; auto|apply sub_skip; auto].
  - apply sub_skip; auto.
Qed.
Lemma Subseq_app {A} (a b c d : list A) : Subseq a b -> Subseq c d -> Subseq (a ++ c) (b ++ d).
Proof.
  intros H1 H2. induction H1 as [l|x a b H1 IH|x a b H1 IH]; cbn.
  - induction l; cbn; [assumption|apply sub_skip; assumption].
  - apply sub_take; assumption.
  - apply sub_skip; assumption.
Qed.
Lemma Subseq_nil_l {A} (l : list A) : Subseq [] l.
Proof. constructor. Qed.
Lemma Subseq_app_r {A} (a b : list A) : Subseq a (a ++ b).
Proof. rewrite <- (app_nil_r a) at 1. apply Subseq_app; [apply Subseq_refl|constructor]. Qed.
Lemma Subseq_app_l {A} (a b : list A) : Subseq b (a ++ b).
Proof. change b with ([] ++ b) at 1. apply Subseq_app; [constructor|apply Subseq_refl]. Qed.
Lemma Subseq_firstn {A} n (l : list A) : Subseq (firstn n l) l.
Proof. rewrite <- (firstn_skipn n l) at 2. apply Subseq_app_r. Qed.
Lemma Subseq_filter {A} f (l : list A) : Subseq (filter f l) l.
Proof. induction l as [|x l IH]; cbn; [constructor|destruct (f x); constructor; assumption]. Qed.
Lemma Subseq_map {A B} (f : A -> B) a b : Subseq a b -> Subseq (map f a) (map f b).
Proof. induction 1; cbn; constructor; assumption. Qed.
Lemma Subseq_In {A} (a b : list A) x : Subseq a b -> In x a -> In x b.
Proof. induction 1; cbn; intros Hin; [contradiction|destruct Hin; auto|auto]. Qed.
Lemma Subseq_NoDup {A} (a b : list A) : Subseq a b -> NoDup b -> NoDup a.
Proof.
  induction 1 as [l|x a b H IH|x a b H IH]; intros N.
  - constructor.
  - inversion N; subst. constructor; [|auto]. intros Hin. eapply Subseq_In in Hin; eauto.
  - inversion N; subst. auto.
Qed.
Lemma Subseq_length {A} (a b : list A) : Subseq a b -> (length a <= length b)%nat.
Proof. induction 1; cbn; lia. Qed.

(* ================================================================== the ring invariant *)
(* phase of the (single) pusher and of the (single) popper *)
Inductive wph : Set := WNone | WRoom | WWritten (v : val).
Inductive rph : Set := RNone | RAvail | RMoved.
Definition wr (w : wph) : Z := match w with WWritten _ => 1 | _ => 0 end.
Definition rd (r : rph) : Z := match r with RMoved => 1 | _ => 0 end.
Definition pushed_ext (s : sh) (w : wph) : list val :=
  pushed s ++ match w with WWritten v => [v] | _ => [] end.

Record RingInv (s : sh) (w : wph) (r : rph) : Prop := {
  ri_cap : 1 <= cap s < wmod s;
  ri_h0 : 0 <= head s;
  ri_ht : head s + rd r <= tail s;
  ri_len : tail s + wr w - head s <= cap s;
  ri_room : w = WRoom -> tail s - head s < cap s;
  ri_avail : r = RAvail -> head s < tail s;
  ri_pushed : lenZ (pushed s) = tail s;
  ri_taken : map snd (taken s) = firstn (Z.to_nat (head s + rd r)) (pushed s);
  (* slots initialised <=> head <= k < tail (shifted by the in-flight write / read) *)
  ri_full : forall k, head s + rd r <= k < tail s + wr w ->
                      slots s (k mod cap s) = nthZ (pushed_ext s w) k;
  ri_empty : forall i, 0 <= i < cap s ->
                       (forall k, head s + rd r <= k < tail s + wr w -> k mod cap s <> i) -> slots s i = None;
  ri_ub : ub s = None }.

Definition same_ring (a b : sh) : Prop :=
  cap a = cap b /\ wmod a = wmod b /\ slots a = slots b /\ head a = head b /\ tail a = tail b /\
  ub a = ub b /\ pushed a = pushed b /\ taken a = taken b.

Lemma RingInv_ext a b w r : same_ring a b -> RingInv a w r -> RingInv b w r.
Proof.
  intros (E1 & E2 & E3 & E4 & E5 & E6 & E7 & E8) [].
  constructor; unfold pushed_ext in *; rewrite <- ?E1, <- ?E2, <- ?E3, <- ?E4, <- ?E5, <- ?E6, <- ?E7, <- ?E8; assumption.
Qed.

Lemma same_ring_refl a : same_ring a a.
Proof. repeat split. Qed.

Ltac impl_lia :=
  let E := fresh "E" in
  intros E; repeat match goal with H : _ = _ -> _ |- _ => specialize (H E) end; lia.
Ltac ri_easy := try assumption; try lia; try discriminate; try impl_lia.

Lemma ring_init c w n : 1 <= c < w -> RingInv (sh0 c w n) WNone RNone.
Proof.
  intros H. constructor; cbn; try lia; try reflexivity; try discriminate.
Qed.

(* ---- writer side *)
Lemma ring_check_room s r :
  RingInv s WNone r -> is_full s (tail s) (head s) = false -> RingInv s WRoom r.
Proof.
  intros [] Hf. unfold is_full, wrapW in Hf. cbn [wr rd] in *.
  rewrite Z.mod_small in Hf by (destruct r; cbn [rd] in *; lia).
  apply Z.leb_gt in Hf.
  constructor; cbn [wr]; ri_easy.
Qed.

Lemma ring_full_is_full s r :
  RingInv s WNone r -> is_full s (tail s) (head s) = true -> tail s - head s = cap s.
Proof.
  intros [] Hf. unfold is_full, wrapW in Hf. cbn [wr rd] in *.
  rewrite Z.mod_small in Hf by (destruct r; cbn [rd] in *; lia).
  apply Z.leb_le in Hf. lia.
Qed.

Lemma ring_write_ok s r v :
  RingInv s WRoom r -> idx_ok s (tail s) ->
  RingInv (ring_write s (tail s) v) (WWritten v) r.
Proof.
  intros [] Hi. unfold ring_write. cbv zeta. unfold idx_ok in Hi. rewrite !Hi. cbn [wr] in *.
  assert (Hroom : tail s - head s < cap s) by auto.
  assert (Hr : 0 <= rd r <= 1) by (destruct r; cbn; lia).
  assert (Hnone : slots s (tail s mod cap s) = None).
  { apply ri_empty0; [apply Z.mod_pos_bound; lia|].
    intros k Hk. apply not_eq_sym, mod_neq. lia. }
  rewrite Hnone.
  constructor; unfold pushed_ext; cbn -[Z.add Z.sub nthZ]; ri_easy.
  - intros k Hk. unfold upd. destruct (Z.eq_dec k (tail s)) as [->|Nk].
    + rewrite Z.eqb_refl. symmetry. apply nthZ_app_len. symmetry; assumption.
    + assert (Ne : k mod cap s <> tail s mod cap s) by (apply not_eq_sym, mod_neq; lia).
      apply Z.eqb_neq in Ne. rewrite Ne.
      rewrite nthZ_app_l by lia.
      rewrite ri_full0 by lia. unfold pushed_ext. rewrite app_nil_r. reflexivity.
  - intros i Hi0 Hk. unfold upd.
    assert (Ne : i <> tail s mod cap s) by (intros ->; apply (Hk (tail s)); [lia|reflexivity]).
    apply Z.eqb_neq in Ne. rewrite Ne. apply ri_empty0; [assumption|].
    intros k Hk'. apply Hk. lia.
Qed.

Lemma ring_store_tail_ok s r v :
  RingInv s (WWritten v) r -> RingInv (set_tail s (tail s + 1) v) WNone r.
Proof.
  intros []. cbn [wr] in *.
  constructor; unfold pushed_ext in *; cbn -[Z.add Z.sub nthZ firstn]; ri_easy.
  - rewrite lenZ_app. unfold lenZ at 2. cbn. lia.
  - rewrite firstn_app_le; [assumption|]. unfold lenZ in ri_pushed0. lia.
  - intros k Hk. rewrite app_nil_r. apply ri_full0. lia.
  - intros i Hi Hk. apply ri_empty0; [assumption|]. intros k Hk'. apply Hk. lia.
Qed.

(* ---- reader side *)
Lemma ring_check_avail s w :
  RingInv s w RNone -> is_mt s (head s) (tail s) = false -> RingInv s w RAvail.
Proof.
  intros [] He. unfold is_mt, wrapW in He. cbn [rd] in *.
  assert (Hw : 0 <= wr w <= 1) by (destruct w; cbn; lia).
  assert (head s <> tail s) by (intros E; rewrite E, Z.eqb_refl in He; discriminate).
  constructor; cbn [rd]; ri_easy.
Qed.

Lemma ring_empty_is_empty s w :
  RingInv s w RNone -> is_mt s (head s) (tail s) = true -> head s = tail s.
Proof.
  intros [] He. unfold is_mt, wrapW in He. cbn [rd] in *. apply Z.eqb_eq in He.
  assert (Hw : 0 <= wr w <= 1) by (destruct w; cbn; lia).
  apply (mod_eq_small (wmod s)); [lia|assumption].
Qed.

Lemma ring_read_ok s w who :
  RingInv s w RAvail -> idx_ok s (head s) ->
  exists v, nthZ (pushed s) (head s) = Some v /\
            ring_read s who (head s) =
              (set_take s (upd (slots s) (head s mod cap s) None) (taken s ++ [(who, v)]), v) /\
            RingInv (set_take s (upd (slots s) (head s mod cap s) None) (taken s ++ [(who, v)])) w RMoved.
Proof.
  intros [] Hi. cbn [rd] in *.
  assert (Hav : head s < tail s) by auto.
  assert (Hw : 0 <= wr w <= 1) by (destruct w; cbn; lia).
  destruct (nthZ_some (pushed s) (head s)) as [v Hv]; [lia|].
  exists v. split; [assumption|].
  assert (Hs : slots s (head s mod cap s) = Some v).
  { rewrite ri_full0 by lia. unfold pushed_ext. rewrite nthZ_app_l by lia. assumption. }
  split.
  - unfold ring_read. cbv zeta. unfold idx_ok in Hi. rewrite !Hi, Hs. reflexivity.
  - constructor; unfold pushed_ext in *; cbn -[Z.add Z.sub nthZ firstn]; ri_easy.
    + rewrite map_app. cbn [map snd]. rewrite ri_taken0, Z.add_0_r.
      symmetry. apply firstnZ_succ; [lia|assumption].
    + intros k Hk. unfold upd.
      assert (Ne : k mod cap s <> head s mod cap s) by (apply mod_neq; lia).
      apply Z.eqb_neq in Ne. rewrite Ne. apply ri_full0. lia.
    + intros i Hi0 Hk. unfold upd. destruct (Z.eqb_spec i (head s mod cap s)) as [|Ne]; [reflexivity|].
      apply ri_empty0; [assumption|]. intros k Hk'.
      destruct (Z.eq_dec k (head s)) as [->|]; [congruence|]. apply Hk. lia.
Qed.

Lemma ring_store_head_ok s w :
  RingInv s w RMoved -> RingInv (set_head s (head s + 1)) w RNone.
Proof.
  intros []. cbn [rd] in *.
  constructor; unfold pushed_ext in *; cbn -[Z.add Z.sub nthZ firstn]; ri_easy.
  - rewrite Z.add_0_r. assumption.
  - intros k Hk. apply ri_full0. lia.
  - intros i Hi Hk. apply ri_empty0; [assumption|]. intros k Hk'. apply Hk. lia.
Qed.

(* phases that carry no obligation can be forgotten *)
Lemma ring_forget_room s r : RingInv s WRoom r -> RingInv s WNone r.
Proof. intros []. constructor; cbn [wr] in *; try assumption; try discriminate. Qed.
Lemma ring_forget_avail s w : RingInv s w RAvail -> RingInv s w RNone.
Proof. intros []. constructor; cbn [rd] in *; try assumption; try discriminate. Qed.

(* ================================================================== thread-level invariant: the consumer and ONE producer
   (for several producer threads this is the producer currently inside the ring, see SpscN.v) *)
Definition wph_p (p : pth) : wph :=
  match p_pc p with PPush _ PuWrite => WRoom | PPush _ PuStoreTail => WWritten (p_rv p) | _ => WNone end.
Definition rph_of (m : poppc) : rph := match m with PoRead => RAvail | PoStoreHead => RMoved | _ => RNone end.
Definition rph_p (p : pth) : rph := match p_pc p with PPop _ m => rph_of m | _ => RNone end.
Definition rph_c (c : cth) : rph := match c_pc c with CPopRaw m | CRvPop m | CQPop m => rph_of m | _ => RNone end.
Definition c_inpop (c : cth) : bool := match c_pc c with CPopRaw _ | CRvPop _ | CQPop _ => true | _ => false end.
Definition p_inpop (p : pth) : bool := match p_pc p with PPop _ _ => true | _ => false end.
Definition rph_cp (c : cth) (p : pth) : rph := if c_inpop c then rph_c c else rph_p p.

Definition c_locked (c : cth) : bool :=
  match c_pc c with
  | CRvPop _ | CRvUnlockRet | CRvClosed1 | CRvStoreEnded1 | CRvUnlockEos | CRvUnlockWait
  | CQPop _ | CQClosed1 | CQUnlockRet | CQUnlockEos | CQUnlockWait => true
  | _ => false end.
Definition p_locked (p : pth) : bool :=
  match p_pc p with PPop _ _ | PPush (CSend2 _) _ | PNotify (CSend2 _) | PUnlock _ => true | _ => false end.
(* between push_lock.lock() and the return of try_send / try_send_drop_oldest *)
Definition p_inlock (p : pth) : bool :=
  match p_pc p with
  | PPush CRaw _ => false
  | PPush _ _ | PNotify _ | PTryLock _ | PPop _ _ | PUnlock _ | PUnlockPush _ => true
  | _ => false end.

Definition is_opop (o : cop) : bool := match o with OPop => true | _ => false end.
Definition c_raw (c : cth) : bool :=
  existsb is_opop (c_prog c) || match c_pc c with CPopRaw _ => true | _ => false end.
Definition is_osend (o : pop_) : bool := match o with OSend _ | OSendMany _ => true | _ => false end.
Definition p_sendish (p : pth) : bool :=
  existsb is_osend (p_prog p) ||
  match p_pc p with
  | PClosedChk (KSend _) | PLockPush (KSend _) | PPush (CSend1 _) _ | PPush (CSend2 _) _
  | PNotify (CSend1 _) | PNotify (CSend2 _) | PTryLock _ | PPop _ _ | PUnlock _ => true
  | _ => false end.

Definition knows (m : poppc) : bool := match m with PoLoadHead => false | _ => true end.
Definition p_knows_head (p : pth) : bool := match p_pc p with PPop _ m => knows m | _ => false end.
Definition c_knows_head (c : cth) : bool := match c_pc c with CPopRaw m | CRvPop m | CQPop m => knows m | _ => false end.
Definition p_knows_tail (p : pth) : bool :=
  match p_pc p with PPush _ PuLoadTail => false | PPush _ _ => true | _ => false end.
Definition c_holding (c : cth) : bool :=
  match c_pc c with
  | CPopRaw PoStoreHead | CRvPop PoStoreHead | CRvUnlockRet | CQPop PoStoreHead | CQUnlockRet => true
  | _ => false end.

Definition p_pending (p : pth) : list val :=
  match p_pc p with
  | PClosedChk _ | PLockPush _ | PPush _ _ | PTryLock _ | PPop _ _ => [p_rv p]
  | _ => []
  end ++ op_vals (p_prog p).

Record Inv1 (R : bool) (V0 : list val) (h : sh) (c : cth) (p : pth) : Prop := {
  i_ring : RingInv h (wph_p p) (rph_cp c p);
  i_lock : lock h = c_locked c || p_locked p;
  i_excl : c_locked c && p_locked p = false;
  i_plock : plock h = p_inlock p;
  i_mode : c_raw c = true -> p_sendish p = false;
  i_prt : p_knows_tail p = true -> p_rt p = tail h;
  i_prh : p_knows_head p = true -> p_rh p = head h;
  i_crh : c_knows_head c = true -> c_rh c = head h;
  i_recv : taken_by true h = ret_vals (c_rets c) ++ (if c_holding c then [c_rp c] else []);
  i_sent : Subseq (p_pushed p ++ p_pending p) V0;
  (* R = the producer never uses the drop-oldest path: every slot read is the consumer's *)
  i_raw : R = true -> p_sendish p = false /\ Forall (fun x => fst x = true) (taken h) }.

Lemma ret_vals_app a b : ret_vals (a ++ b) = ret_vals a ++ ret_vals b.
Proof. unfold ret_vals. apply flat_map_app. Qed.

Lemma taken_by_app who h f x :
  taken_by who (set_take h f (taken h ++ [x])) =
  taken_by who h ++ (if Bool.eqb (fst x) who then [snd x] else []).
Proof.
  unfold taken_by. cbn [taken set_take]. rewrite filter_app, map_app. cbn [filter].
  destruct (Bool.eqb (fst x) who); reflexivity.
Qed.

Lemma p_inpop_sendish p : p_inpop p = true -> p_sendish p = true.
Proof. unfold p_inpop, p_sendish. destruct (p_pc p); try discriminate. intros _. apply orb_true_r. Qed.
Lemma p_inpop_locked p : p_inpop p = true -> p_locked p = true.
Proof. unfold p_inpop, p_locked. destruct (p_pc p); try discriminate. reflexivity. Qed.
Lemma rph_p_notin p : p_inpop p = false -> rph_p p = RNone.
Proof. unfold p_inpop, rph_p. destruct (p_pc p); try discriminate; reflexivity. Qed.
Lemma p_knows_inpop p : p_knows_head p = true -> p_inpop p = true.
Proof. unfold p_knows_head, p_inpop. destruct (p_pc p); try discriminate; reflexivity. Qed.

Lemma excl_pop R V0 h c p : Inv1 R V0 h c p -> c_inpop c = true -> p_inpop p = false.
Proof.
  intros [? ? i_excl0 ? i_mode0 ? ? ? ? ? ?] Hc. destruct (p_inpop p) eqn:Hp; [exfalso|reflexivity].
  pose proof (p_inpop_locked _ Hp) as Hl. pose proof (p_inpop_sendish _ Hp) as Hs.
  unfold c_inpop, c_locked, c_raw in *. destruct (c_pc c); try discriminate.
  - rewrite orb_true_r in i_mode0. specialize (i_mode0 eq_refl). congruence.
  - rewrite Hl in i_excl0. discriminate.
  - rewrite Hl in i_excl0. discriminate.
Qed.


Arguments taken_by : simpl never.
Arguments ring_write : simpl never.
Arguments ring_read : simpl never.
Arguments notify_one : simpl never.
Arguments notify_waiters : simpl never.
Arguments cancel_wait : simpl never.
Arguments ret_vals : simpl never.
Ltac ring_same := eapply RingInv_ext; [|eassumption]; repeat split; reflexivity.
Ltac inv_step H := inversion H; subst; clear H.
Ltac unf_c := unfold rph_cp, c_inpop, rph_c, c_locked, c_raw, c_knows_head, c_holding,
                     c_at, c_ret, c_start, c_set_rt, c_set_rh, c_set_rp, c_set_snap, c_set_cl, await_step, waiting_step in *.
Ltac mk := constructor; unf_c; cbn in *.

Lemma p_notsend_notinpop p : p_sendish p = false -> p_inpop p = false.
Proof. intros H. destruct (p_inpop p) eqn:E; [|reflexivity]. apply p_inpop_sendish in E. congruence. Qed.
Lemma p_unlocked_notinpop p : p_locked p = false -> p_inpop p = false.
Proof. intros H. destruct (p_inpop p) eqn:E; [|reflexivity]. apply p_inpop_locked in E. congruence. Qed.


(* ---- field frame lemmas *)
Lemma no_same_ring h : same_ring h (notify_one h).
Proof. unfold notify_one. destruct (waiting h); repeat split. Qed.
Lemma nw_same_ring h : same_ring h (notify_waiters h).
Proof. unfold notify_waiters. destruct (waiting h); repeat split. Qed.
Lemma no_lock h : lock (notify_one h) = lock h. Proof. unfold notify_one; destruct (waiting h); reflexivity. Qed.
Lemma no_head h : head (notify_one h) = head h. Proof. unfold notify_one; destruct (waiting h); reflexivity. Qed.
Lemma no_tail h : tail (notify_one h) = tail h. Proof. unfold notify_one; destruct (waiting h); reflexivity. Qed.
Lemma no_taken h : taken (notify_one h) = taken h. Proof. unfold notify_one; destruct (waiting h); reflexivity. Qed.
Lemma nw_lock h : lock (notify_waiters h) = lock h. Proof. unfold notify_waiters; destruct (waiting h); reflexivity. Qed.
Lemma nw_head h : head (notify_waiters h) = head h. Proof. unfold notify_waiters; destruct (waiting h); reflexivity. Qed.
Lemma nw_tail h : tail (notify_waiters h) = tail h. Proof. unfold notify_waiters; destruct (waiting h); reflexivity. Qed.
Lemma nw_taken h : taken (notify_waiters h) = taken h. Proof. unfold notify_waiters; destruct (waiting h); reflexivity. Qed.
Lemma rw_lock h t v : lock (ring_write h t v) = lock h.
Proof. unfold ring_write. destruct (slots h _); reflexivity. Qed.
Lemma rw_head h t v : head (ring_write h t v) = head h.
Proof. unfold ring_write. destruct (slots h _); reflexivity. Qed.
Lemma rw_tail h t v : tail (ring_write h t v) = tail h.
Proof. unfold ring_write. destruct (slots h _); reflexivity. Qed.
Lemma rw_taken h t v : taken (ring_write h t v) = taken h.
Proof. unfold ring_write. destruct (slots h _); reflexivity. Qed.
Lemma rr_lock h w x : lock (fst (ring_read h w x)) = lock h.
Proof. unfold ring_read. destruct (slots h _); reflexivity. Qed.
Lemma rr_head h w x : head (fst (ring_read h w x)) = head h.
Proof. unfold ring_read. destruct (slots h _); reflexivity. Qed.
Lemma rr_tail h w x : tail (fst (ring_read h w x)) = tail h.
Proof. unfold ring_read. destruct (slots h _); reflexivity. Qed.
Lemma no_pushed h : pushed (notify_one h) = pushed h. Proof. unfold notify_one; destruct (waiting h); reflexivity. Qed.
Lemma nw_pushed h : pushed (notify_waiters h) = pushed h. Proof. unfold notify_waiters; destruct (waiting h); reflexivity. Qed.
Lemma rw_pushed h t v : pushed (ring_write h t v) = pushed h.
Proof. unfold ring_write. destruct (slots h _); reflexivity. Qed.
Lemma rr_pushed h w x : pushed (fst (ring_read h w x)) = pushed h.
Proof. unfold ring_read. destruct (slots h _); reflexivity. Qed.
Lemma no_plock h : plock (notify_one h) = plock h. Proof. unfold notify_one; destruct (waiting h); reflexivity. Qed.
Lemma nw_plock h : plock (notify_waiters h) = plock h. Proof. unfold notify_waiters; destruct (waiting h); reflexivity. Qed.
Lemma rw_plock h t v : plock (ring_write h t v) = plock h.
Proof. unfold ring_write. destruct (slots h _); reflexivity. Qed.
Lemma rr_plock h w x : plock (fst (ring_read h w x)) = plock h.
Proof. unfold ring_read. destruct (slots h _); reflexivity. Qed.
Lemma op_vals_tl l : Subseq (op_vals (tl l)) (op_vals l).
Proof. destruct l as [|[] l]; cbn; try apply Subseq_refl; try (apply sub_skip, Subseq_refl). apply Subseq_app_l. Qed.
Lemma taken_by_eq who a b : taken a = taken b -> taken_by who a = taken_by who b.
Proof. unfold taken_by. intros ->. reflexivity. Qed.
#[export] Hint Rewrite no_lock no_head no_tail nw_lock nw_head nw_tail rw_lock rw_head rw_tail rr_lock rr_head rr_tail no_pushed nw_pushed rw_pushed rr_pushed no_taken nw_taken rw_taken
  no_plock nw_plock rw_plock rr_plock : shf.

Lemma ring_bounds h w r : RingInv h w r -> 0 <= head h <= tail h.
Proof. intros []. destruct r; cbn [rd] in *; lia. Qed.

Lemma p_notknows p : p_inpop p = false -> p_knows_head p = true -> False.
Proof. intros H K. apply p_knows_inpop in K. congruence. Qed.

Ltac tk_simpl :=
  unfold taken_by in *; cbn [taken set_lock set_plock set_head set_ended set_notify set_nw set_closed set_stop set_senders set_tail set_slots cancel_wait] in *;
  rewrite ?ret_vals_app in *; cbn [ret_vals flat_map] in *; rewrite ?app_nil_r in *.
Ltac raw_fld :=
  let HR := fresh "HR" in intros HR;
  match goal with H : _ = true -> _ /\ Forall _ _ |- _ => destruct (H HR) as [?Hs ?Hf] end;
  cbn in *; rewrite ?orb_true_r, ?orb_false_r in *;
  first [discriminate
        | split; [first [assumption | reflexivity] | autorewrite with shf; cbn; try assumption]].
Ltac fld :=
  autorewrite with shf;
  try assumption; try reflexivity; try discriminate;
  try solve [eapply RingInv_ext; [apply no_same_ring|]; assumption];
  try solve [eapply RingInv_ext; [apply nw_same_ring|]; assumption];
  try solve [erewrite taken_by_eq; [eassumption|]; first [apply no_taken|apply nw_taken|apply rw_taken]];
  try (intros; discriminate);
  try solve [ring_same];
  try solve [tk_simpl; auto];
  try solve [intros; exfalso; eauto using p_notknows];
  try solve [intros; match goal with H : _ -> p_sendish _ = false |- _ =>
                        apply H; rewrite ?orb_true_r, ?orb_false_r in *; auto end];
  try solve [rewrite rph_p_notin by assumption; assumption];
  try solve [let Hr := fresh in intros Hr; match goal with H : c_raw _ = true -> _ |- _ =>
                specialize (H Hr); cbn in H; rewrite ?orb_true_r, ?orb_false_r in *;
                (discriminate || assumption) end];
  try solve [auto];
  try solve [raw_fld];
  try solve [rewrite <- ?app_assoc; cbn [app]; assumption];
  try solve [match goal with H : Subseq _ ?V |- Subseq _ ?V =>
       eapply Subseq_trans; [|exact H]; apply Subseq_app; [apply Subseq_refl|];
       first [apply Subseq_refl | apply sub_skip, Subseq_refl | apply op_vals_tl
             | apply sub_skip, op_vals_tl | apply Subseq_app_l ] end].

Ltac get_np :=
  first
  [ match goal with H : true = true -> p_inpop _ = false |- _ => specialize (H eq_refl) end
  | match goal with H : true && p_locked ?p = false |- _ =>
      cbn in H; pose proof (p_unlocked_notinpop _ H) end
  | match goal with H : false = false || p_locked ?p |- _ =>
      cbn in H; symmetry in H; pose proof (p_unlocked_notinpop _ H) end
  | match goal with H : _ = true -> p_sendish ?p = false |- _ =>
      assert (p_inpop p = false) by (apply p_notsend_notinpop, H; rewrite ?orb_true_r; reflexivity) end ].

Lemma cstep_inv R V0 B h c p h' c' :
  Inv1 R V0 h c p -> tail h <= B -> idxs_ok h B -> cstep h c = Some (h', c') -> Inv1 R V0 h' c' p.
Proof.
  intros I HtV Hidx Hstep.
  pose proof (excl_pop _ _ _ _ _ I) as Hex.
  destruct I as [Iring Ilock Iexcl Iplock Imode Iprt Iprh Icrh Irecv Isent Iraw].
  destruct c as [prog pc rt rh rp snap cl can rets].
  unfold cstep in Hstep; cbn [c_pc c_prog c_rh c_rp c_snap c_cl c_can] in Hstep.
  unf_c; cbn [c_pc c_prog c_rh c_rp c_rets c_snap c_cl c_can] in *.
  destruct pc; try match goal with m : poppc |- _ => destruct m end.
  all: cbn [rph_of knows] in *.
  all: repeat match type of Hstep with
       | context [if ?b then _ else _] => destruct b eqn:?
       | context [match ?l with [] => _ | _ => _ end] => destruct l as [|[] ?]
       end.
  all: try discriminate Hstep.
  all: try solve [inv_step Hstep; mk; fld].
  all: try get_np.
  all: try (specialize (Icrh eq_refl); subst rh).
  all: try match type of Hstep with context [ring_read] =>
         destruct (ring_read_ok h (wph_p p) true Iring) as (v & Hv & Hrd & Hring');
         [apply Hidx; pose proof (ring_bounds _ _ _ Iring); lia|]; rewrite Hrd in Hstep end.
  all: inv_step Hstep; mk; fld.
  all: rewrite ?rph_p_notin in * by assumption.
  all: try assumption; try solve [ring_same]; try solve [apply ring_check_avail; assumption];
       try solve [apply ring_store_head_ok; assumption].
  all: try solve [rewrite taken_by_app; cbn; rewrite Irecv, app_nil_r; reflexivity].
  all: try solve [intros HR; destruct (Iraw HR); split; [assumption|]; apply Forall_app; split; [assumption|]; repeat constructor].
Qed.

Lemma sstep_inv R V0 h x c p h' x' : Inv1 R V0 h c p -> sstep h x = Some (h', x') -> Inv1 R V0 h' c p.
Proof.
  intros [Iring Ilock Iexcl Iplock Imode Iprt Iprh Icrh Irecv Isent Iraw] Hstep.
  unfold sstep in Hstep. destruct (s_pc x); [destruct (s_todo x); [discriminate|]| |]; inv_step Hstep.
  - constructor; assumption.
  - constructor; fld.
  - unfold notify_waiters. destruct (waiting h); constructor; fld.
Qed.



Ltac unf_p := unfold rph_cp, wph_p, rph_p, p_inpop, p_locked, p_inlock, p_sendish, p_knows_head, p_knows_tail, p_log,
                     p_at, p_ret, p_start, p_set_rt, p_set_rh, p_set_handles, p_ret_closed, push_full, push_done, ctx_of in *.
Ltac mkp := constructor; unf_p; cbn in *.

Lemma c_inpop_cases c : c_inpop c = true -> c_locked c = true \/ c_raw c = true.
Proof. unfold c_inpop, c_locked, c_raw. destruct (c_pc c); try discriminate; intros _; [right; apply orb_true_r|left; reflexivity|left; reflexivity]. Qed.

Lemma pstep_inv R V0 B h c p h' p' :
  Inv1 R V0 h c p -> tail h <= B -> idxs_ok h B -> pstep h p = Some (h', p') -> Inv1 R V0 h' c p'.
Proof.
  intros I HtV Hidx Hstep.
  pose proof (excl_pop _ _ _ _ _ I) as Hex.
  pose proof (c_inpop_cases c) as Hcc.
  destruct I as [Iring Ilock Iexcl Iplock Imode Iprt Iprh Icrh Irecv Isent Iraw].
  destruct p as [prog pc prt prh rv hd rets].
  unfold pstep in Hstep; cbn [p_pc p_prog p_rt p_rh p_rv p_handles p_rets] in Hstep.
  unf_p; cbn [p_pc p_prog p_rt p_rh p_rv p_handles p_rets] in *.
  destruct pc as [|k|k|cx m|cx|mm|mm m|mm|r| | | |].
  all: try (destruct m).
  all: try (destruct cx).
  all: try (destruct k).
  all: cbn [rph_of knows] in *.
  all: repeat match type of Hstep with
       | context [if ?b then _ else _] => destruct b eqn:?
       | context [match ?l with [] => _ | _ => _ end] => destruct l as [|[] ?]
       end.
  all: try discriminate Hstep.
  all: try (specialize (Iprt eq_refl); subst prt).
  all: try solve [inv_step Hstep; mkp; fld].
  all: try solve [inv_step Hstep; mkp; fld; apply ring_check_room; assumption].
  all: try solve [inv_step Hstep; mkp; fld; apply ring_store_tail_ok; assumption].
  all: try solve [inv_step Hstep; mkp; fld; apply ring_write_ok; [assumption|];
                  apply Hidx; pose proof (ring_bounds _ _ _ Iring); lia].
  - (* PTryLock, busy *)
    inv_step Hstep; mkp; fld. rewrite Heqb. assumption.
  - (* PTryLock, acquired *)
    assert (Hnc : c_inpop c = false).
    { destruct (c_inpop c) eqn:Hci; [|reflexivity]. destruct (Hcc eq_refl) as [Hl|Hr].
      - rewrite Hl in Ilock. discriminate.
      - specialize (Imode Hr). rewrite orb_true_r in Imode. discriminate. }
    rewrite Hnc in *.
    inv_step Hstep; mkp; rewrite ?Hnc; fld.
    rewrite orb_true_r. reflexivity.
  - (* PPop PoLoadTail, non-empty *)
    destruct (c_inpop c) eqn:Hci; [specialize (Hex eq_refl); discriminate|].
    specialize (Iprh eq_refl). subst prh.
    inv_step Hstep; mkp; rewrite ?Hci; fld. apply ring_check_avail; assumption.
  - (* PPop PoRead *)
    destruct (c_inpop c) eqn:Hci; [specialize (Hex eq_refl); discriminate|].
    specialize (Iprh eq_refl). subst prh.
    destruct (ring_read_ok h WNone false Iring) as (v & Hv & Hrd & Hring').
    { apply Hidx. pose proof (ring_bounds _ _ _ Iring). lia. }
    inv_step Hstep; mkp; rewrite ?Hci, ?Hrd; cbn [fst]; fld.
    rewrite taken_by_app. cbn. rewrite app_nil_r. assumption.
  - (* PPop PoStoreHead *)
    destruct (c_inpop c) eqn:Hci; [specialize (Hex eq_refl); discriminate|].
    specialize (Iprh eq_refl). subst prh.
    inv_step Hstep; mkp; rewrite ?Hci; fld.
    + apply ring_store_head_ok; assumption.
    + intros K. unfold c_knows_head, c_inpop in *. destruct (c_pc c); discriminate.
  - (* PUnlock *)
    rewrite andb_true_r in Iexcl.
    inv_step Hstep; mkp; rewrite ?Iexcl; fld.
Qed.

(* ================================================================== global state, one producer *)
Lemma rw_cap h t v : cap (ring_write h t v) = cap h. Proof. unfold ring_write. destruct (slots h _); reflexivity. Qed.
Lemma rw_wmod h t v : wmod (ring_write h t v) = wmod h. Proof. unfold ring_write. destruct (slots h _); reflexivity. Qed.
Lemma rr_cap h w x : cap (fst (ring_read h w x)) = cap h. Proof. unfold ring_read. destruct (slots h _); reflexivity. Qed.
Lemma rr_wmod h w x : wmod (fst (ring_read h w x)) = wmod h. Proof. unfold ring_read. destruct (slots h _); reflexivity. Qed.
Lemma no_cap h : cap (notify_one h) = cap h. Proof. unfold notify_one; destruct (waiting h); reflexivity. Qed.
Lemma no_wmod h : wmod (notify_one h) = wmod h. Proof. unfold notify_one; destruct (waiting h); reflexivity. Qed.
Lemma nw_cap h : cap (notify_waiters h) = cap h. Proof. unfold notify_waiters; destruct (waiting h); reflexivity. Qed.
Lemma nw_wmod h : wmod (notify_waiters h) = wmod h. Proof. unfold notify_waiters; destruct (waiting h); reflexivity. Qed.
#[export] Hint Rewrite rw_cap rw_wmod rr_cap rr_wmod no_cap no_wmod nw_cap nw_wmod : shf.

Definition static_eq (a b : sh) : Prop := cap a = cap b /\ wmod a = wmod b.

Lemma cstep_static h c h' c' : cstep h c = Some (h', c') -> static_eq h' h.
Proof.
  unfold cstep, static_eq, await_step, waiting_step. intros H.
  destruct (c_pc c); try match goal with m : poppc |- _ => destruct m end;
  repeat match type of H with
       | context [if ?b then _ else _] => destruct b eqn:?
       | context [match ?l with [] => _ | _ => _ end] => destruct l as [|[] ?]
       | context [let '(_, _) := ?x in _] => destruct x eqn:?
       end; try discriminate H; inv_step H; cbn; autorewrite with shf; auto.
  all: match goal with E : ring_read ?h ?w ?x = (_, _) |- _ =>
         pose proof (rr_cap h w x) as E1; pose proof (rr_wmod h w x) as E2; rewrite E in E1, E2; cbn in E1, E2; auto end.
Qed.

Lemma pstep_static h p h' p' : pstep h p = Some (h', p') -> static_eq h' h.
Proof.
  unfold pstep, static_eq, push_full, push_done. intros H.
  destruct (p_pc p) as [|k|k|cx m|cx|mm|mm m|mm|r| | | |]; try destruct m; try destruct cx;
  repeat match type of H with
       | context [if ?b then _ else _] => destruct b eqn:?
       | context [match ?l with [] => _ | _ => _ end] => destruct l as [|[] ?]
       end; try discriminate H; inv_step H; cbn; autorewrite with shf; auto.
Qed.

Lemma sstep_static h x h' x' : sstep h x = Some (h', x') -> static_eq h' h.
Proof.
  unfold sstep, static_eq. intros H.
  destruct (s_pc x); [destruct (s_todo x); [discriminate|]| |]; inv_step H; cbn; autorewrite with shf; auto.
Qed.

Lemma idxs_ok_static a b n : static_eq a b -> idxs_ok b n -> idxs_ok a n.
Proof. intros [E1 E2] H k Hk. specialize (H k Hk). unfold idx_ok, slot_idx, wrapW in *. rewrite E1, E2. exact H. Qed.



Lemma filter_all_true (l : list (bool * val)) :
  Forall (fun x => fst x = true) l -> filter (fun x => Bool.eqb (fst x) true) l = l.
Proof. induction 1 as [|x l Hx _ IH]; cbn; [reflexivity|]. rewrite Hx. cbn. rewrite IH. reflexivity. Qed.

Lemma app_prefix_firstn {A} (a b l : list A) n : a ++ b = firstn n l -> a = firstn (length a) l.
Proof.
  revert l n. induction a as [|x a IH]; intros l n H; [reflexivity|].
  destruct n as [|n]; [discriminate|]. destruct l as [|y l]; [discriminate|].
  cbn in H. inversion H; subst. cbn. f_equal. eapply IH; eauto.
Qed.


(* ================================================================== Drop for SpscRing *)
Record DInv (s : sh) (hh : Z) : Prop := {
  d_cap : 1 <= cap s;
  d_rng : 0 <= hh <= tail s;
  d_len : tail s - hh <= cap s;
  d_pushed : lenZ (pushed s) = tail s;
  d_full : forall k, hh <= k < tail s -> slots s (k mod cap s) = nthZ (pushed s) k;
  d_empty : forall i, 0 <= i < cap s -> (forall k, hh <= k < tail s -> k mod cap s <> i) -> slots s i = None;
  d_ub : ub s = None;
  d_idx : idxs_ok s (tail s) }.

Lemma skipn_nth {A} (l : list A) n x : nth_error l n = Some x -> skipn n l = x :: skipn (S n) l.
Proof.
  revert n. induction l as [|y l IH]; intros [|n] H; cbn in *; try discriminate.
  - inversion H. reflexivity.
  - apply IH. exact H.
Qed.

Lemma drop_loop_ok n : forall s hh acc, DInv s hh -> n = Z.to_nat (tail s - hh) ->
  exists s', drop_loop n s hh acc = (s', acc ++ skipn (Z.to_nat hh) (pushed s)) /\
             ub s' = None /\ (forall i, 0 <= i < cap s -> slots s' i = None) /\
             pushed s' = pushed s /\ taken s' = taken s /\ head s' = head s /\ tail s' = tail s.
Proof.
  induction n as [|n IH]; intros s hh acc D Hn.
  - destruct D. assert (hh = tail s) by lia. subst hh. cbn [drop_loop]. exists s.
    rewrite skipn_all2 by (unfold lenZ in d_pushed0; lia). rewrite app_nil_r.
    repeat split; try assumption. intros i Hi. apply d_empty0; [assumption|]. intros k Hk. lia.
  - pose proof D as [Dc Dr Dl Dp Df De Du Di].
    assert (Hlt : hh < tail s) by lia.
    destruct (nthZ_some (pushed s) hh) as [v Hv]; [lia|].
    assert (Hix : slot_idx s hh = hh mod cap s) by (apply Di; lia).
    assert (Hs : slots s (hh mod cap s) = Some v) by (rewrite Df by lia; assumption).
    cbn [drop_loop]. rewrite Hix, Hs.
    set (s1 := set_slots s (upd (slots s) (hh mod cap s) None)).
    assert (D1 : DInv s1 (hh + 1)).
    { constructor; cbn; try assumption; try lia.
      - intros k Hk. unfold upd.
        assert (Ne : k mod cap s <> hh mod cap s) by (apply mod_neq; lia).
        apply Z.eqb_neq in Ne. rewrite Ne. apply Df. lia.
      - intros i Hi Hk. unfold upd. destruct (Z.eqb_spec i (hh mod cap s)) as [|Ne]; [reflexivity|].
        apply De; [assumption|]. intros k Hk'.
        destruct (Z.eq_dec k hh) as [->|]; [congruence|]. apply Hk. lia. }
    destruct (IH s1 (hh + 1) (acc ++ [v]) D1) as (s' & E & R); [cbn; lia|].
    exists s'. split; [|exact R]. rewrite E. cbn [pushed s1 set_slots]. f_equal.
    rewrite <- app_assoc. f_equal. cbn [app].
    replace (Z.to_nat (hh + 1)) with (S (Z.to_nat hh)) by lia.
    symmetry. apply skipn_nth. exact Hv.
Qed.

Lemma ring_drop_ok s : RingInv s WNone RNone -> idxs_ok s (tail s) ->
  exists s', ring_drop s = (s', skipn (Z.to_nat (head s)) (pushed s)) /\
             ub s' = None /\ (forall i, 0 <= i < cap s -> slots s' i = None) /\
             pushed s = map snd (taken s) ++ skipn (Z.to_nat (head s)) (pushed s).
Proof.
  intros R Hi. pose proof R as [Rc Rh0 Rht Rlen Rroom Rav Rp Rtk Rf Re Ru]. cbn [rd wr] in *.
  assert (D : DInv s (head s)).
  { constructor; try assumption; try lia.
    - intros k Hk. rewrite Rf by lia. unfold pushed_ext. rewrite app_nil_r. reflexivity.
    - intros i Hi0 Hk. apply Re; [assumption|]. intros k Hk'. apply Hk. lia. }
  unfold ring_drop, wrapW. rewrite Z.mod_small by lia.
  destruct (drop_loop_ok _ s (head s) [] D eq_refl) as (s' & E & Hu & Hn & _).
  exists s'. cbn [app] in E. repeat split; try assumption.
  rewrite Rtk, Z.add_0_r. symmetry. apply firstn_skipn.
Qed.

