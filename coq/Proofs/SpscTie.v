(* C20 -- tie of Model/Spsc.v to the source: the regenerated access skeletons (Gen/SpscProg.v) are the
   ones the model mirrors (Model/SpscSkel.v) and obey the publication discipline.  Kept apart from the
   other proofs so that a change of the source only re-checks this file. *)
From Coq Require Import ZArith List Bool.
From RV Require Import Model.SpscSkel Gen.SpscProg.
Import ListNotations.
Open Scope Z_scope.
Open Scope bool_scope.

(* ================================================================== tie to the source *)
Definition skeleton_matches : bool :=
  skel_eqb push_skel push_shape && skel_eqb pop_skel pop_shape &&
  skel_eqb ringdrop_skel ringdrop_shape && skel_eqb is_empty_skel is_empty_shape &&
  skel_eqb send_drop_oldest_skel send_drop_oldest_shape && skel_eqb try_send_skel try_send_shape &&
  skel_eqb send_skel send_shape && skel_eqb send_many_skel send_many_shape &&
  skel_eqb source_clone_skel source_clone_shape && skel_eqb source_drop_skel source_drop_shape &&
  skel_eqb stop_skel stop_shape && skel_eqb recv_skel recv_shape &&
  skel_eqb q_send_skel q_send_shape && skel_eqb q_try_send_skel q_try_send_shape &&
  skel_eqb q_drop_skel q_drop_shape && skel_eqb q_recv_skel q_recv_shape &&
  (ring_min_capacity =? 1) && (initial_senders =? 1) && (ring_index_bits =? 64).

Lemma skeleton_tie : skeleton_matches = true.
Proof. vm_compute. reflexivity. Qed.

Lemma publication_holds : publication_ok push_skel pop_skel = true.
Proof. vm_compute. reflexivity. Qed.

(* the discipline is not vacuous: each of the mutations it is meant to catch makes it false *)
Lemma publication_rejects_relaxed_tail_store :
  publication_ok [SkLoad SkTail ORelaxed; SkLoad SkHead OAcquire; SkFullTestReturnErr; SkIdx SkTail;
                  SkSlotWrite; SkStoreInc SkTail ORelaxed; SkRetOk] pop_shape = false.
Proof. vm_compute. reflexivity. Qed.
Lemma publication_rejects_store_before_write :
  publication_ok [SkLoad SkTail ORelaxed; SkLoad SkHead OAcquire; SkFullTestReturnErr; SkIdx SkTail;
                  SkStoreInc SkTail ORelease; SkSlotWrite; SkRetOk] pop_shape = false.
Proof. vm_compute. reflexivity. Qed.
Lemma publication_rejects_relaxed_opposite_load :
  publication_ok push_shape [SkLoad SkHead ORelaxed; SkLoad SkTail ORelaxed; SkEmptyTestReturnNone;
                             SkIdx SkHead; SkSlotRead; SkStoreInc SkHead ORelease; SkRetSome] = false.
Proof. vm_compute. reflexivity. Qed.

