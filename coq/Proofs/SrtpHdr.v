(* RTP header codec as used by SRTP (RtpHeader::write_to / RtpHeader::parse):
   parse (write h ++ body) = (h, body) for every well-formed header, so that SrtpPacket::parse of a
   protected datagram is the packet the round-trip theorems talk about; and conversely every
   datagram that parses is the serialisation of its parse (parse is injective), so the header
   bytes the receiver authenticates are the header bytes received. *)
From Coq Require Import ZArith List Bool Lia.
From RV Require Import Lib.Wrap Gen.Consts Gen.SrtpArith Model.Srtp Proofs.SrtpLib Proofs.SrtpRoc Proofs.SrtpRound.
Import ListNotations.
Open Scope Z_scope.
Ltac Zify.zify_post_hook ::= Z.div_mod_to_equations.

Definition u32 (x : Z) : Prop := 0 <= x < 4294967296.
Definition byte (x : Z) : Prop := 0 <= x < 256.

Definition wf_hdr (h : hdr) : Prop :=
  0 <= h_pt h < 128 /\ 0 <= h_seq h < 65536 /\ u32 (h_ts h) /\ u32 (h_ssrc h) /\
  Forall u32 (h_csrcs h) /\ hdr_valid h = true /\
  match h_ext h with
  | Some e => 0 <= e_profile e < 65536 /\ zlen (e_data e) / 4 < 65536
  | None => True
  end.

Lemma take_be32s_flat l : forall rest, Forall u32 l ->
  take_be32s (length l) (flat_map be32 l ++ rest) = Some (l, rest).
Proof.
  induction l as [|x l IH]; intros rest H; [reflexivity|].
  inversion H as [|? ? Hx Hl]; subst. cbn [length flat_map take_be32s].
  rewrite <- app_assoc. unfold be32 at 1. cbn [app].
  rewrite (IH rest Hl). f_equal. f_equal. f_equal.
  change ([x / 16777216 mod 256; x / 65536 mod 256; x / 256 mod 256; x mod 256]) with (be32 x).
  apply of_be_be32. exact Hx.
Qed.

Theorem parse_write pad h rest :
  wf_hdr h -> parse_hdr (write_hdr pad h ++ rest) = Some (h, pad, rest).
Proof.
  intros (Hpt & Hseq & Hts & Hssrc & Hcs & Hv & He).
  unfold hdr_valid in Hv. apply andb_true_iff in Hv. destruct Hv as [Hcc Hext].
  apply Z.leb_le in Hcc.
  destruct h as [mk pt seq ts ssrc csrcs ex]. cbn [h_marker h_pt h_seq h_ts h_ssrc h_csrcs h_ext] in *.
  unfold write_hdr. cbn [h_marker h_pt h_seq h_ts h_ssrc h_csrcs h_ext].
  unfold be16 at 1. unfold be32 at 1 2. cbn [app]. unfold parse_hdr.
  set (n := zlen csrcs) in *.
  assert (Hn : 0 <= n <= 15) by (subst n; unfold zlen in *; lia).
  set (b0 := RTP_VERSION * 64 + (if pad then 32 else 0) + (if ex then 16 else 0) + n mod 16).
  assert (Hb0v : (b0 / 64 =? RTP_VERSION) = true).
  { subst b0. unfold RTP_VERSION. apply Z.eqb_eq. destruct pad, ex; lia. }
  assert (Hb0p : ((b0 / 32) mod 2 =? 1) = pad).
  { subst b0. unfold RTP_VERSION. destruct pad, ex; (apply Z.eqb_eq || apply Z.eqb_neq); lia. }
  assert (Hb0e : ((b0 / 16) mod 2 =? 1) = (if ex then true else false)).
  { subst b0. unfold RTP_VERSION. destruct pad, ex; (apply Z.eqb_eq || apply Z.eqb_neq); lia. }
  assert (Hb0c : b0 mod 16 = n).
  { subst b0. unfold RTP_VERSION. destruct pad, ex; lia. }
  set (b1 := pt mod 128 + (if mk then 128 else 0)).
  assert (Hb1m : ((b1 / 128) mod 2 =? 1) = mk).
  { subst b1. destruct mk; (apply Z.eqb_eq || apply Z.eqb_neq); lia. }
  assert (Hb1p : b1 mod 128 = pt) by (subst b1; destruct mk; lia).
  rewrite Hb0v. cbn [negb]. rewrite Hb0p, Hb0e, Hb0c, Hb1m, Hb1p.
  replace (Z.to_nat n) with (length csrcs) by (subst n; unfold zlen; lia).
  rewrite <- app_assoc. rewrite take_be32s_flat by assumption.
  change (of_be [seq / 256 mod 256; seq mod 256]) with (of_be (be16 seq)).
  change (of_be [ts / 16777216 mod 256; ts / 65536 mod 256; ts / 256 mod 256; ts mod 256]) with (of_be (be32 ts)).
  change (of_be [ssrc / 16777216 mod 256; ssrc / 65536 mod 256; ssrc / 256 mod 256; ssrc mod 256]) with (of_be (be32 ssrc)).
  rewrite of_be_be16, !of_be_be32 by assumption.
  destruct ex as [[prof data]|].
  - cbn [e_profile e_data] in *. destruct He as [Hp Hl].
    apply Z.eqb_eq in Hext.
    unfold be16 at 1 2. cbn [app].
    pose proof (zlen_nonneg data) as Hd0.
    assert (Hc16 : cast_u16 (zlen data / 4) = zlen data / 4).
    { unfold cast_u16, wrapu. change (2 ^ 16) with 65536. apply Z.mod_small. lia. }
    rewrite Hc16.
    change (of_be [zlen data / 4 / 256 mod 256; zlen data / 4 mod 256]) with (of_be (be16 (zlen data / 4))).
    change (of_be [prof / 256 mod 256; prof mod 256]) with (of_be (be16 prof)).
    rewrite !of_be_be16 by lia.
    replace (zlen data / 4 * 4) with (zlen data) by lia.
    destruct (Z.ltb_spec (zlen (data ++ rest)) (zlen data)) as [Hlt|_].
    { rewrite zlen_app in Hlt. pose proof (zlen_nonneg rest). lia. }
    replace (Z.to_nat (zlen data)) with (length data) by (unfold zlen; lia).
    rewrite firstn_len_app, skipn_len_app by reflexivity. reflexivity.
  - cbn [app]. reflexivity.
Qed.

(* SrtpPacket::parse of a protected datagram is the packet of the round-trip theorems *)
Corollary spkt_parse_protect_out c st p roc :
  wf_hdr (r_hdr p) ->
  spkt_parse (protect_out c st p roc) = Some (spkt_of c st p roc).
Proof.
  intros Hw. unfold spkt_parse, protect_out. rewrite parse_write by assumption. reflexivity.
Qed.

(* ------------------------------------------------------------------ parse is injective *)
Lemma be16_of_be a b : byte a -> byte b -> be16 (of_be [a; b]) = [a; b].
Proof. unfold byte, be16, of_be. cbn [fold_left]. intros Ha Hb. f_equal; [|f_equal]; lia. Qed.

Lemma be32_of_be a b c d : byte a -> byte b -> byte c -> byte d -> be32 (of_be [a; b; c; d]) = [a; b; c; d].
Proof.
  unfold byte, be32, of_be. cbn [fold_left]. intros Ha Hb Hc Hd.
  f_equal; [|f_equal; [|f_equal; [|f_equal]]]; lia.
Qed.

Lemma of_be2_range a b : byte a -> byte b -> 0 <= of_be [a; b] < 65536.
Proof. unfold byte, of_be. cbn [fold_left]. lia. Qed.

Lemma take_be32s_inv n : forall l xs rest, Forall byte l ->
  take_be32s n l = Some (xs, rest) -> l = flat_map be32 xs ++ rest /\ length xs = n /\ Forall byte rest.
Proof.
  induction n as [|n IH]; intros l xs rest Hb H; cbn [take_be32s] in H.
  - inversion H; subst. auto.
  - destruct l as [|a [|b [|c [|d l']]]]; try discriminate H.
    destruct (take_be32s n l') as [[ys r']|] eqn:E; [|discriminate H].
    inversion H; subst. inversion Hb as [|? ? Ha Hb1]; subst. inversion Hb1 as [|? ? Hbb Hb2]; subst.
    inversion Hb2 as [|? ? Hc Hb3]; subst. inversion Hb3 as [|? ? Hd Hb4]; subst.
    destruct (IH l' ys rest Hb4 E) as (E1 & E2 & E3).
    cbn [flat_map length]. rewrite be32_of_be by assumption. cbn [app]. subst l'. auto.
Qed.

Theorem parse_inj raw h pad rest :
  Forall byte raw -> parse_hdr raw = Some (h, pad, rest) -> raw = write_hdr pad h ++ rest.
Proof.
  intros Hb H. unfold parse_hdr in H.
  destruct raw as [|b0 [|b1 [|s1 [|s0 [|t3 [|t2 [|t1 [|t0 [|c3 [|c2 [|c1 [|c0 rest0]]]]]]]]]]]]; try discriminate H.
  repeat match goal with Hx : Forall byte (_ :: _) |- _ => inversion Hx; clear Hx; subst end.
  destruct (Z.eqb_spec (b0 / 64) RTP_VERSION) as [Hver|]; [|discriminate H]. cbn [negb] in H.
  destruct (take_be32s (Z.to_nat (b0 mod 16)) rest0) as [[csrcs rest1]|] eqn:Ecs; [|discriminate H].
  match goal with Hx : Forall byte rest0 |- _ => destruct (take_be32s_inv _ _ _ _ Hx Ecs) as (E0 & Ecc & Hb1) end.
  unfold RTP_VERSION in Hver.
  assert (Hlen : zlen csrcs = b0 mod 16) by (unfold zlen; rewrite Ecc; unfold byte in *; lia).
  assert (Hb0 : forall e : bool,
             ((b0 / 16) mod 2 =? 1) = e ->
             b0 = RTP_VERSION * 64 + (if (b0 / 32) mod 2 =? 1 then 32 else 0) + (if e then 16 else 0) + zlen csrcs mod 16).
  { intros e He. rewrite Hlen. unfold RTP_VERSION. unfold byte in *.
    destruct (Z.eqb_spec ((b0 / 32) mod 2) 1), (Z.eqb_spec ((b0 / 16) mod 2) 1); subst e; lia. }
  assert (Hb1' : b1 = (b1 mod 128) mod 128 + (if (b1 / 128) mod 2 =? 1 then 128 else 0)).
  { unfold byte in *. destruct (Z.eqb_spec ((b1 / 128) mod 2) 1); lia. }
  destruct ((b0 / 16) mod 2 =? 1) eqn:Hext.
  - destruct rest1 as [|p1 [|p0 [|l1 [|l0 rest2]]]]; try discriminate H.
    repeat match goal with Hx : Forall byte (_ :: _) |- _ => inversion Hx; clear Hx; subst end.
    destruct (Z.ltb_spec (zlen rest2) (of_be [l1; l0] * 4)) as [|Hle]; [discriminate H|].
    inversion H; subst; clear H.
    unfold write_hdr. cbn [h_marker h_pt h_seq h_ts h_ssrc h_csrcs h_ext e_profile e_data].
    rewrite <- (Hb0 true eq_refl), <- Hb1'.
    rewrite !be16_of_be, !be32_of_be by assumption.
    pose proof (of_be2_range l1 l0 ltac:(assumption) ltac:(assumption)) as Hr.
    assert (Hfl : zlen (firstn (Z.to_nat (of_be [l1; l0] * 4)) rest2) = of_be [l1; l0] * 4).
    { unfold zlen in *. rewrite firstn_length. lia. }
    rewrite Hfl. replace (of_be [l1; l0] * 4 / 4) with (of_be [l1; l0]) by lia.
    assert (Hc16 : cast_u16 (of_be [l1; l0]) = of_be [l1; l0]).
    { unfold cast_u16, wrapu. change (2 ^ 16) with 65536. apply Z.mod_small. lia. }
    rewrite Hc16, be16_of_be by assumption.
    cbn [app]. rewrite <- !app_assoc. cbn [app]. rewrite firstn_skipn. reflexivity.
  - inversion H; subst; clear H.
    unfold write_hdr. cbn [h_marker h_pt h_seq h_ts h_ssrc h_csrcs h_ext].
    rewrite <- (Hb0 false eq_refl), <- Hb1'.
    rewrite !be16_of_be, !be32_of_be by assumption.
    cbn [app]. rewrite <- ?app_assoc. cbn [app]. reflexivity.
Qed.

(* the datagram behind a parsed SRTP packet is the datagram that was received *)
Corollary spkt_parse_datagram raw sp :
  Forall byte raw -> spkt_parse raw = Some sp ->
  raw = write_hdr (sp_pad sp) (sp_hdr sp) ++ sp_body sp.
Proof.
  intros Hb H. unfold spkt_parse in H. destruct (parse_hdr raw) as [[[h p] body]|] eqn:E; [|discriminate H].
  inversion H; subst. cbn [sp_pad sp_hdr sp_body]. apply parse_inj; assumption.
Qed.
